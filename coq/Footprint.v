(* ====================================================================== *)
(*  Footprint.v -- the logic part of property C18 (goroutine independence) *)
(*                                                                          *)
(*  Part 1: access kinds of package-level variables and the computable      *)
(*          "read-only" test that is run on the regenerated access facts.   *)
(*  Part 2: an interleaving semantics of deterministic threads over one     *)
(*          shared store.                                                   *)
(*  Part 3: footprints as semantic predicates (all reachable steps, for all *)
(*          values a read may return).                                      *)
(*  Part 4: the two theorems                                                *)
(*            disjoint_footprints_serialisable                              *)
(*            disjoint_footprints_race_free                                 *)
(*  Part 5: a positive example (two threads summing a shared read-only      *)
(*          table, each into its own cell) and a negative one (the same     *)
(*          program with ONE shared scratch cell: hypotheses unsatisfiable, *)
(*          results differ from solo, and a data race exists).              *)
(*                                                                          *)
(*  Standard library only.  No axioms.                                      *)
(* ====================================================================== *)

Require Import String.
Require Import List Arith Bool Lia.
Import ListNotations.

(* ====================================================================== *)
(* Part 1.  Access kinds and the read-only test                           *)
(* ====================================================================== *)

Inductive akind :=
| AKRead
| AKAssigned
| AKIncDec
| AKAddrTaken
| AKSliced
| AKPassed (callee : string)
| AKMethod (name : string).

(* conservative: only a plain read, or passing to the builtins len/cap,
   is read-only *)
Definition readonly (k : akind) : bool :=
  match k with
  | AKRead => true
  | AKPassed f => (String.eqb f "len" || String.eqb f "cap")%bool
  | _ => false
  end.

(* one fact = (function, variable, kind) *)
Definition no_global_writes (accs : list (string * string * akind)) : bool :=
  forallb (fun a => readonly (snd a)) accs.

Lemma no_global_writes_spec : forall accs,
  no_global_writes accs = true <->
  (forall f v k, In (f, v, k) accs ->
     k = AKRead \/ k = AKPassed "len" \/ k = AKPassed "cap").
Proof.
  intro accs. unfold no_global_writes. rewrite forallb_forall. split.
  - intros H f v k Hin. specialize (H _ Hin). simpl in H.
    destruct k; simpl in H; try discriminate; auto.
    apply orb_true_iff in H. destruct H as [H | H];
      apply String.eqb_eq in H; subst; auto.
  - intros H [[f v] k] Hin. simpl.
    destruct (H f v k Hin) as [E | [E | E]]; subst; reflexivity.
Qed.

Example no_global_writes_yes :
  no_global_writes [ ("decode", "hexTable", AKRead)
                   ; ("decode", "hexTable", AKPassed "len") ]%string = true.
Proof. reflexivity. Qed.

Example no_global_writes_no :
  no_global_writes [ ("decode", "hexTable", AKRead)
                   ; ("decode", "scratch", AKAssigned) ]%string = false
  /\ no_global_writes [ ("f", "scratch", AKSliced) ]%string = false
  /\ no_global_writes [ ("f", "scratch", AKPassed "copy") ]%string = false
  /\ no_global_writes [ ("f", "scratch", AKAddrTaken) ]%string = false
  /\ no_global_writes [ ("f", "counter", AKIncDec) ]%string = false
  /\ no_global_writes [ ("f", "pool", AKMethod "Get") ]%string = false.
Proof. repeat split; reflexivity. Qed.

(* ====================================================================== *)
(* Part 2.  Interleaving semantics                                        *)
(* ====================================================================== *)

Section Interleaving.

  Variable Loc : Type.
  Variable Loc_eq_dec : forall a b : Loc, {a = b} + {a <> b}.
  Variable Val : Type.
  Variable Res : Type.

  (* The shared memory. *)
  Definition store := Loc -> Val.

  Definition upd (s : store) (l : Loc) (v : Val) : store :=
    fun l' => if Loc_eq_dec l l' then v else s l'.

  (* A thread is a state of a deterministic small-step program.  Its next
     action is a function of the state alone; a read hands the value found
     in memory to a continuation, so the rest of the run may depend on it. *)
  Variable T : Type.

  Inductive action : Type :=
  | ARead  (l : Loc) (k : Val -> T)
  | AWrite (l : Loc) (v : Val) (k : T)
  | ADone  (result : Res).

  Variable step : T -> action.

  (* One step of one thread against a store.  A finished thread stutters. *)
  Definition step_thread (t : T) (s : store) : T * store :=
    match step t with
    | ARead l k    => (k (s l), s)
    | AWrite l v k => (k, upd s l v)
    | ADone _      => (t, s)
    end.

  Definition result_of (t : T) : option Res :=
    match step t with ADone r => Some r | _ => None end.

  (* A configuration: the thread pool and the one shared store. *)
  Definition config := (list T * store)%type.

  Fixpoint set_nth (i : nat) (x : T) (ts : list T) : list T :=
    match ts, i with
    | [], _ => []
    | _ :: r, 0 => x :: r
    | y :: r, S i' => y :: set_nth i' x r
    end.

  (* The scheduler picks thread i: it performs exactly one step.  An
     out-of-range index stutters. *)
  Definition step_cfg (i : nat) (c : config) : config :=
    match nth_error (fst c) i with
    | Some t =>
        let r := step_thread t (snd c) in (set_nth i (fst r) (fst c), snd r)
    | None => c
    end.

  (* A schedule is the list of scheduler choices, executed left to right. *)
  Definition run_schedule (sch : list nat) (c : config) : config :=
    fold_left (fun c i => step_cfg i c) sch c.

  (* Thread i has finished with result r in configuration c. *)
  Definition finished (c : config) (i : nat) (r : Res) : Prop :=
    exists t, nth_error (fst c) i = Some t /\ step t = ADone r.

  (* Running one thread alone for [fuel] steps. *)
  Fixpoint run_solo (fuel : nat) (t : T) (s : store) : T * store :=
    match fuel with
    | 0 => (t, s)
    | S n => let r := run_solo n t s in step_thread (fst r) (snd r)
    end.

  (* Number of times the schedule picks thread i. *)
  Fixpoint count (i : nat) (sch : list nat) : nat :=
    match sch with
    | [] => 0
    | j :: r => (if Nat.eqb i j then 1 else 0) + count i r
    end.

  (* ==================================================================== *)
  (* Part 3.  Footprints                                                  *)
  (* ==================================================================== *)

  (* [reach t t']: t' is a state thread t can get to, where every read may
     return ANY value (so the footprint does not depend on what the other
     threads, or the initial store, put in memory). *)
  Inductive reach (t : T) : T -> Prop :=
  | reach_refl : reach t t
  | reach_read : forall t' l k v,
      reach t t' -> step t' = ARead l k -> reach t (k v)
  | reach_write : forall t' l v k,
      reach t t' -> step t' = AWrite l v k -> reach t k.

  Definition writes_within (own : Loc -> bool) (t : T) : Prop :=
    forall t' l v k, reach t t' -> step t' = AWrite l v k -> own l = true.

  Definition reads_within (allowed : Loc -> bool) (t : T) : Prop :=
    forall t' l k, reach t t' -> step t' = ARead l k -> allowed l = true.

  (* The hypothesis of both theorems: thread i owns [own i]; ownerships are
     pairwise disjoint; [ro] is a region nobody owns; thread i writes only
     what it owns and reads only what it owns or what is in [ro]. *)
  Definition disjoint_footprints
             (ts : list T) (own : nat -> Loc -> bool) (ro : Loc -> bool) : Prop :=
    (forall i j l, i <> j -> own i l = true -> own j l = true -> False) /\
    (forall i l, ro l = true -> own i l = false) /\
    (forall i t, nth_error ts i = Some t ->
       writes_within (own i) t /\
       reads_within (fun l => own i l || ro l) t).

  (* The usual data race: two different threads whose NEXT actions touch the
     same location, at least one of the two being a write. *)
  Definition next_access (t : T) : option (Loc * bool) :=
    match step t with
    | ARead l _    => Some (l, false)
    | AWrite l _ _ => Some (l, true)
    | ADone _      => None
    end.

  Definition race (c : config) : Prop :=
    exists i j ti tj l wi wj,
      i <> j /\
      nth_error (fst c) i = Some ti /\
      nth_error (fst c) j = Some tj /\
      next_access ti = Some (l, wi) /\
      next_access tj = Some (l, wj) /\
      (wi || wj) = true.

  (* ==================================================================== *)
  (* Proofs: basic facts about the semantics                              *)
  (* ==================================================================== *)

  Lemma upd_same : forall s l v, upd s l v l = v.
  Proof. intros. unfold upd. destruct (Loc_eq_dec l l); congruence. Qed.

  Lemma upd_other : forall s l v l', l <> l' -> upd s l v l' = s l'.
  Proof. intros. unfold upd. destruct (Loc_eq_dec l l'); congruence. Qed.

  Lemma length_set_nth : forall ts i x, length (set_nth i x ts) = length ts.
  Proof.
    induction ts as [| y r IH]; intros [| i] x; simpl; auto.
  Qed.

  Lemma nth_error_set_nth_eq : forall ts i x t,
    nth_error ts i = Some t -> nth_error (set_nth i x ts) i = Some x.
  Proof.
    induction ts as [| y r IH]; intros [| i] x t H; simpl in *;
      try discriminate; eauto.
  Qed.

  Lemma nth_error_set_nth_neq : forall ts i j x,
    i <> j -> nth_error (set_nth i x ts) j = nth_error ts j.
  Proof.
    induction ts as [| y r IH]; intros [| i] [| j] x H; simpl; auto;
      congruence.
  Qed.

  Lemma run_schedule_snoc : forall sch j c,
    run_schedule (sch ++ [j]) c = step_cfg j (run_schedule sch c).
  Proof. intros. unfold run_schedule. rewrite fold_left_app. reflexivity. Qed.

  Lemma count_app : forall i a b, count i (a ++ b) = count i a + count i b.
  Proof. induction a as [| j a IH]; intros; simpl; auto. rewrite IH. lia. Qed.

  Lemma count_snoc_eq : forall i sch, count i (sch ++ [i]) = S (count i sch).
  Proof. intros. rewrite count_app. simpl. rewrite Nat.eqb_refl. lia. Qed.

  Lemma count_snoc_neq : forall i j sch, i <> j -> count i (sch ++ [j]) = count i sch.
  Proof.
    intros. rewrite count_app. simpl.
    destruct (Nat.eqb_spec i j); [contradiction | lia].
  Qed.

  Lemma count_le_length : forall i sch, count i sch <= length sch.
  Proof.
    induction sch as [| j r IH]; simpl; auto. destruct (Nat.eqb i j); lia.
  Qed.

  (* Stepping first or stepping last is the same thing. *)
  Lemma run_solo_step_first : forall n t s,
    run_solo (S n) t s =
    run_solo n (fst (step_thread t s)) (snd (step_thread t s)).
  Proof.
    induction n as [| n IH]; intros t s.
    - simpl. destruct (step_thread t s); reflexivity.
    - change (run_solo (S (S n)) t s)
        with (step_thread (fst (run_solo (S n) t s)) (snd (run_solo (S n) t s))).
      rewrite IH. reflexivity.
  Qed.

  Lemma reach_step_thread : forall t t' s,
    reach t t' -> reach t (fst (step_thread t' s)).
  Proof.
    intros t t' s H. unfold step_thread. destruct (step t') eqn:E; simpl.
    - eapply reach_read; eauto.
    - eapply reach_write; eauto.
    - assumption.
  Qed.

  Lemma run_solo_reach : forall n t s, reach t (fst (run_solo n t s)).
  Proof.
    induction n as [| n IH]; intros; simpl.
    - apply reach_refl.
    - apply reach_step_thread. apply IH.
  Qed.

  Lemma step_thread_done : forall t s r, step t = ADone r -> step_thread t s = (t, s).
  Proof. intros t s r H. unfold step_thread. rewrite H. reflexivity. Qed.

  (* Once finished, more fuel changes nothing: "enough fuel" is well defined. *)
  Lemma run_solo_done_stable : forall n t s r,
    step (fst (run_solo n t s)) = ADone r ->
    forall m, n <= m -> run_solo m t s = run_solo n t s.
  Proof.
    intros n t s r Hd m Hle. induction Hle as [| m Hle IH].
    - reflexivity.
    - simpl. rewrite IH. rewrite (step_thread_done _ _ _ Hd).
      destruct (run_solo n t s); reflexivity.
  Qed.

  (* A solo run only changes what the thread may write. *)
  Lemma run_solo_frame : forall own t s,
    writes_within own t ->
    forall n l, own l = false -> snd (run_solo n t s) l = s l.
  Proof.
    intros own t s Hw. induction n as [| n IH]; intros l Hl; simpl; auto.
    pose proof (run_solo_reach n t s) as Hr.
    unfold step_thread. destruct (step (fst (run_solo n t s))) eqn:E; simpl; auto.
    rewrite upd_other; auto.
    intro; subst. rewrite (Hw _ _ _ _ Hr E) in Hl. discriminate.
  Qed.

  (* Pure semantics, no footprint hypothesis: the pool keeps its size and
     every thread stays inside its own reachable set. *)
  Lemma run_schedule_reach : forall ts s0 sch,
    length (fst (run_schedule sch (ts, s0))) = length ts /\
    forall i t0, nth_error ts i = Some t0 ->
      exists t', nth_error (fst (run_schedule sch (ts, s0))) i = Some t' /\
                 reach t0 t'.
  Proof.
    intros ts s0 sch. induction sch as [| j sch IH] using rev_ind.
    - simpl. split; auto. intros i t0 H. exists t0. split; auto. apply reach_refl.
    - rewrite run_schedule_snoc. destruct IH as [Hlen IH].
      remember (run_schedule sch (ts, s0)) as c. unfold step_cfg.
      destruct (nth_error (fst c) j) as [tj |] eqn:Ej; simpl.
      + split. { rewrite length_set_nth. assumption. }
        intros i t0 Hi. destruct (IH i t0 Hi) as [t' [Ht' Hr]].
        destruct (Nat.eq_dec j i) as [-> | Hne].
        * rewrite (nth_error_set_nth_eq _ _ _ _ Ej).
          eexists. split; [reflexivity |].
          assert (tj = t') by congruence. subst.
          apply reach_step_thread. assumption.
        * rewrite nth_error_set_nth_neq by assumption. eauto.
      + split; auto.
  Qed.

  (* ==================================================================== *)
  (* Part 4.  The theorems                                                *)
  (* ==================================================================== *)

  Section Theorems.

    Variable ts : list T.
    Variable own : nat -> Loc -> bool.
    Variable ro : Loc -> bool.
    Variable s0 : store.
    Hypothesis H : disjoint_footprints ts own ro.

    (* The simulation.  At EVERY point of EVERY schedule, thread i is exactly
       where its solo run is after as many steps as it has been scheduled,
       and the shared store agrees with the solo store on everything thread i
       can observe (own i and ro). *)
    Lemma interleaving_simulates_solo : forall sch,
      length (fst (run_schedule sch (ts, s0))) = length ts /\
      forall i t0, nth_error ts i = Some t0 ->
        nth_error (fst (run_schedule sch (ts, s0))) i
          = Some (fst (run_solo (count i sch) t0 s0)) /\
        forall l, (own i l || ro l) = true ->
          snd (run_schedule sch (ts, s0)) l
            = snd (run_solo (count i sch) t0 s0) l.
    Proof.
      destruct H as [Hdis [Hro Hfp]].
      intro sch. induction sch as [| j sch IH] using rev_ind.
      - simpl. split; auto.
      - rewrite run_schedule_snoc. destruct IH as [Hlen IH].
        remember (run_schedule sch (ts, s0)) as c. unfold step_cfg.
        destruct (nth_error (fst c) j) as [tj |] eqn:Ej; simpl.
        + (* thread j exists and takes a step *)
          assert (Hj : exists t0j, nth_error ts j = Some t0j).
          { destruct (nth_error ts j) eqn:E; eauto.
            apply nth_error_None in E.
            assert (nth_error (fst c) j <> None) as Hn by congruence.
            apply nth_error_Some in Hn. lia. }
          destruct Hj as [t0j Hj].
          destruct (IH j t0j Hj) as [Hpj Hsj].
          assert (tj = fst (run_solo (count j sch) t0j s0)) as Htj by congruence.
          assert (reach t0j tj) as Hrj by (subst tj; apply run_solo_reach).
          destruct (Hfp j t0j Hj) as [Hwj Hrdj].
          split. { rewrite length_set_nth. assumption. }
          intros i t0 Hi. destruct (IH i t0 Hi) as [Hpi Hsi].
          destruct (Nat.eq_dec j i) as [Heq | Hne].
          * (* i = j: the thread itself steps; it sees what its solo run sees *)
            subst i. assert (t0 = t0j) by congruence. subst t0.
            rewrite count_snoc_eq. simpl run_solo.
            rewrite (nth_error_set_nth_eq _ _ _ _ Ej). rewrite <- Htj.
            unfold step_thread. destruct (step tj) as [l k | l v k | r] eqn:Es; simpl.
            -- rewrite (Hsj l) by (apply (Hrdj _ _ _ Hrj Es)). auto.
            -- split; auto. intros l' Hl'. unfold upd.
               destruct (Loc_eq_dec l l'); auto.
            -- auto.
          * (* i <> j: another thread steps; it cannot touch own i or ro *)
            rewrite count_snoc_neq by auto.
            rewrite nth_error_set_nth_neq by assumption.
            split; auto. intros l Hl. rewrite <- (Hsi l Hl).
            unfold step_thread. destruct (step tj) as [l' k | l' v k | r] eqn:Es; simpl; auto.
            apply upd_other. intro; subst l'.
            pose proof (Hwj _ _ _ _ Hrj Es) as Hown.
            apply orb_true_iff in Hl. destruct Hl as [Hl | Hl].
            -- exact (Hdis j i l Hne Hown Hl).
            -- rewrite (Hro j l Hl) in Hown. discriminate.
        + (* out-of-range index: stutter *)
          split; auto. intros i t0 Hi. destruct (IH i t0 Hi) as [Hpi Hsi].
          assert (i <> j) by (intro; subst; congruence).
          rewrite count_snoc_neq by auto. auto.
    Qed.

    (* Whatever no thread of the pool owns is never modified. *)
    Lemma unowned_unchanged : forall sch l,
      (forall j, j < length ts -> own j l = false) ->
      snd (run_schedule sch (ts, s0)) l = s0 l.
    Proof.
      destruct H as [_ [_ Hfp]].
      intros sch l Hl. induction sch as [| j sch IH] using rev_ind; auto.
      rewrite run_schedule_snoc.
      destruct (run_schedule_reach ts s0 sch) as [Hlen Hreach].
      remember (run_schedule sch (ts, s0)) as c. unfold step_cfg.
      destruct (nth_error (fst c) j) as [tj |] eqn:Ej; simpl; auto.
      assert (j < length ts) as Hlt.
      { rewrite <- Hlen. apply nth_error_Some. congruence. }
      destruct (nth_error ts j) as [t0j |] eqn:Ej0.
      2:{ apply nth_error_None in Ej0. lia. }
      destruct (Hreach j t0j Ej0) as [t' [Ht' Hr]].
      assert (t' = tj) by congruence. subst t'.
      destruct (Hfp j t0j Ej0) as [Hw _].
      unfold step_thread. destruct (step tj) as [l' k | l' v k | r] eqn:Es; simpl; auto.
      rewrite upd_other; auto. intro; subst l'.
      pose proof (Hw _ _ _ _ Hr Es) as Hown.
      rewrite (Hl j Hlt) in Hown. discriminate.
    Qed.

    (* ------------------------------------------------------------------ *)
    (* For EVERY schedule and every thread i of the pool:                 *)
    (*  (1) the read-only region still holds its initial contents;        *)
    (*  (2) if thread i has finished with result r, then its solo run     *)
    (*      from the initial store, with any fuel >= the number of steps  *)
    (*      it was given (hence any fuel >= length of the schedule), has  *)
    (*      finished with the same result r, and the interleaved store    *)
    (*      and the solo store coincide on everything thread i owns.      *)
    (* ------------------------------------------------------------------ *)
    Theorem disjoint_footprints_serialisable_sec :
      forall (sch : list nat) (i : nat) (t0 : T),
        nth_error ts i = Some t0 ->
        let c := run_schedule sch (ts, s0) in
        (forall l, ro l = true -> snd c l = s0 l) /\
        (forall r, finished c i r ->
           forall fuel, count i sch <= fuel ->
             let solo := run_solo fuel t0 s0 in
             result_of (fst solo) = Some r /\
             (forall l, own i l = true -> snd c l = snd solo l) /\
             (forall l, ro l = true -> snd solo l = s0 l)).
    Proof.
      intros sch i t0 Hi c. subst c.
      destruct (interleaving_simulates_solo sch) as [_ Hsim].
      destruct (Hsim i t0 Hi) as [Hp Hs].
      pose proof H as [_ [Hro Hfp]].
      split.
      - intros l Hl. apply unowned_unchanged. intros j _. apply Hro. assumption.
      - intros r [t [Ht Hd]] fuel Hfuel.
        assert (t = fst (run_solo (count i sch) t0 s0)) as Et by congruence.
        subst t.
        rewrite (run_solo_done_stable _ _ _ _ Hd fuel Hfuel).
        cbv zeta. repeat split.
        + unfold result_of. rewrite Hd. reflexivity.
        + intros l Hl. apply Hs. rewrite Hl. reflexivity.
        + intros l Hl. destruct (Hfp i t0 Hi) as [Hw _].
          apply (run_solo_frame (own i)); auto.
    Qed.

    (* No reachable configuration has a data race. *)
    Theorem disjoint_footprints_race_free_sec :
      forall sch, ~ race (run_schedule sch (ts, s0)).
    Proof.
      destruct H as [Hdis [Hro Hfp]].
      intros sch (i & j & ti & tj & l & wi & wj & Hne & Hi & Hj & Hai & Haj & Hw).
      destruct (run_schedule_reach ts s0 sch) as [Hlen Hreach].
      assert (Hinit : forall n tn, nth_error (fst (run_schedule sch (ts, s0))) n = Some tn ->
                 exists t0, nth_error ts n = Some t0 /\ reach t0 tn).
      { intros n tn Hn. destruct (nth_error ts n) as [t0 |] eqn:E.
        - destruct (Hreach n t0 E) as [t' [Ht' Hr]].
          exists t0. split; auto. congruence.
        - apply nth_error_None in E.
          assert (nth_error (fst (run_schedule sch (ts, s0))) n <> None) as Hnn by congruence.
          apply nth_error_Some in Hnn. lia. }
      destruct (Hinit i ti Hi) as [t0i [Hi0 Hri]].
      destruct (Hinit j tj Hj) as [t0j [Hj0 Hrj]].
      destruct (Hfp i t0i Hi0) as [Hwi Hrdi].
      destruct (Hfp j t0j Hj0) as [Hwj Hrdj].
      (* what each thread's next access tells about ownership of l *)
      assert (Hacc : forall n t0 t w,
                 writes_within (own n) t0 ->
                 reads_within (fun l => own n l || ro l) t0 ->
                 reach t0 t -> next_access t = Some (l, w) ->
                 (w = true /\ own n l = true) \/
                 (w = false /\ (own n l || ro l) = true)).
      { intros n t0 t w Hwn Hrn Hr Ha. unfold next_access in Ha.
        destruct (step t) eqn:Es; inversion Ha; subst.
        - right. split; auto. apply (Hrn _ _ _ Hr Es).
        - left. split; auto. apply (Hwn _ _ _ _ Hr Es). }
      destruct (Hacc i t0i ti wi Hwi Hrdi Hri Hai) as [[-> Oi] | [-> Oi]];
      destruct (Hacc j t0j tj wj Hwj Hrdj Hrj Haj) as [[-> Oj] | [-> Oj]].
      - exact (Hdis i j l Hne Oi Oj).
      - apply orb_true_iff in Oj. destruct Oj as [Oj | Oj].
        + exact (Hdis i j l Hne Oi Oj).
        + rewrite (Hro i l Oj) in Oi. discriminate.
      - apply orb_true_iff in Oi. destruct Oi as [Oi | Oi].
        + exact (Hdis i j l Hne Oi Oj).
        + rewrite (Hro j l Oi) in Oj. discriminate.
      - discriminate.
    Qed.

  End Theorems.

End Interleaving.

Arguments ARead  {Loc Val Res T} l k.
Arguments AWrite {Loc Val Res T} l v k.
Arguments ADone  {Loc Val Res T} result.

(* The two theorems with every hypothesis spelled out. *)

Theorem disjoint_footprints_serialisable :
  forall (Loc : Type) (Loc_eq_dec : forall a b : Loc, {a = b} + {a <> b})
         (Val Res T : Type) (step : T -> action Loc Val Res T)
         (ts : list T) (own : nat -> Loc -> bool) (ro : Loc -> bool)
         (s0 : store Loc Val),
    disjoint_footprints Loc Val Res T step ts own ro ->
    forall (sch : list nat) (i : nat) (t0 : T),
      nth_error ts i = Some t0 ->
      let c := run_schedule Loc Loc_eq_dec Val Res T step sch (ts, s0) in
      (* the read-only region is unchanged *)
      (forall l, ro l = true -> snd c l = s0 l) /\
      (* if thread i has finished, it has its solo result and its solo memory *)
      (forall r, finished Loc Val Res T step c i r ->
         forall fuel, count i sch <= fuel ->
           let solo := run_solo Loc Loc_eq_dec Val Res T step fuel t0 s0 in
           result_of Loc Val Res T step (fst solo) = Some r /\
           (forall l, own i l = true -> snd c l = snd solo l) /\
           (forall l, ro l = true -> snd solo l = s0 l)).
Proof.
  intros. apply disjoint_footprints_serialisable_sec with (own := own) (ro := ro); assumption.
Qed.

Theorem disjoint_footprints_race_free :
  forall (Loc : Type) (Loc_eq_dec : forall a b : Loc, {a = b} + {a <> b})
         (Val Res T : Type) (step : T -> action Loc Val Res T)
         (ts : list T) (own : nat -> Loc -> bool) (ro : Loc -> bool)
         (s0 : store Loc Val),
    disjoint_footprints Loc Val Res T step ts own ro ->
    forall sch : list nat,
      ~ race Loc Val Res T step
          (run_schedule Loc Loc_eq_dec Val Res T step sch (ts, s0)).
Proof.
  intros. apply disjoint_footprints_race_free_sec with (own := own) (ro := ro); assumption.
Qed.

(* Since count i sch <= length sch, "enough fuel" can be taken uniformly. *)
Corollary disjoint_footprints_serialisable_uniform_fuel :
  forall (Loc : Type) (Loc_eq_dec : forall a b : Loc, {a = b} + {a <> b})
         (Val Res T : Type) (step : T -> action Loc Val Res T)
         (ts : list T) (own : nat -> Loc -> bool) (ro : Loc -> bool)
         (s0 : store Loc Val),
    disjoint_footprints Loc Val Res T step ts own ro ->
    forall (sch : list nat) (i : nat) (t0 : T) (r : Res),
      nth_error ts i = Some t0 ->
      let c := run_schedule Loc Loc_eq_dec Val Res T step sch (ts, s0) in
      finished Loc Val Res T step c i r ->
      forall fuel, length sch <= fuel ->
        let solo := run_solo Loc Loc_eq_dec Val Res T step fuel t0 s0 in
        result_of Loc Val Res T step (fst solo) = Some r /\
        (forall l, own i l = true -> snd c l = snd solo l) /\
        (forall l, ro l = true -> snd c l = s0 l).
Proof.
  intros Loc Loc_eq_dec Val Res T step ts own ro s0 Hfp sch i t0 r Hi c Hfin fuel Hfuel.
  destruct (disjoint_footprints_serialisable Loc Loc_eq_dec Val Res T step
              ts own ro s0 Hfp sch i t0 Hi) as [Hro Hres].
  pose proof (count_le_length i sch) as Hc.
  destruct (Hres r Hfin fuel ltac:(lia)) as [H1 [H2 _]].
  repeat split; auto.
Qed.

(* ====================================================================== *)
(* Part 5.  Examples                                                      *)
(* ====================================================================== *)

Module Example.

  (* Locations and values are numbers.  Locations 0,1,2 hold a table.
     The program [PLoad cell 0] adds table[0..2] into the accumulator
     location [cell], one memory access per step, and returns the final
     contents of [cell]:

        for idx := 0; idx < 3; idx++ { v := table[idx]; a := *cell; *cell = a+v }
        return *cell
  *)
  Inductive pc :=
  | PLoad  (cell idx : nat)       (* next: read table[idx] (or finish) *)
  | PAcc   (cell idx v : nat)     (* next: read the accumulator        *)
  | PStore (cell idx x : nat)     (* next: write the accumulator       *)
  | PRet   (cell r : nat).        (* finished                          *)

  Definition pstep (p : pc) : action nat nat nat pc :=
    match p with
    | PLoad cell idx =>
        if idx <? 3 then ARead idx (fun v => PAcc cell idx v)
        else ARead cell (fun r => PRet cell r)
    | PAcc cell idx v => ARead cell (fun a => PStore cell idx (a + v))
    | PStore cell idx x => AWrite cell x (PLoad cell (S idx))
    | PRet _ r => ADone r
    end.

  Definition s0 : store nat nat :=
    fun l => match l with 0 => 5 | 1 => 7 | 2 => 11 | _ => 0 end.

  Notation run := (run_schedule nat Nat.eq_dec nat nat pc pstep).
  Notation solo := (run_solo nat Nat.eq_dec nat nat pc pstep).
  Notation res := (result_of nat nat nat pc pstep).
  Definition thread_result (c : config nat nat pc) (i : nat) : option nat :=
    match nth_error (fst c) i with Some t => res t | None => None end.

  Definition cell_of (p : pc) : nat :=
    match p with
    | PLoad c _ | PAcc c _ _ | PStore c _ _ | PRet c _ => c
    end.

  (* Footprint of the program, for all read values. *)
  Lemma reach_cell : forall t t',
    reach nat nat nat pc pstep t t' -> cell_of t' = cell_of t.
  Proof.
    intros t t' Hr. induction Hr as [| t' l k v Hr IH Es | t' l v k Hr IH Es]; auto.
    - rewrite <- IH. destruct t'; simpl in Es; try discriminate.
      + destruct (idx <? 3); inversion Es; subst; reflexivity.
      + inversion Es; subst; reflexivity.
    - rewrite <- IH. destruct t'; simpl in Es; try discriminate.
      + destruct (idx <? 3); discriminate.
      + inversion Es; subst; reflexivity.
  Qed.

  Lemma prog_writes_within : forall t,
    writes_within nat nat nat pc pstep (fun l => l =? cell_of t) t.
  Proof.
    intros t t' l v k Hr Es. apply reach_cell in Hr. rewrite <- Hr.
    destruct t'; simpl in Es; try discriminate.
    - destruct (idx <? 3); discriminate.
    - inversion Es; subst. simpl. apply Nat.eqb_refl.
  Qed.

  Lemma prog_reads_within : forall t,
    reads_within nat nat nat pc pstep
      (fun l => (l =? cell_of t) || (l <? 3)) t.
  Proof.
    intros t t' l k Hr Es. apply reach_cell in Hr. rewrite <- Hr.
    destruct t'; simpl in Es; try discriminate.
    - destruct (idx <? 3) eqn:E; inversion Es; subst; simpl.
      + rewrite E. apply orb_true_r.
      + rewrite Nat.eqb_refl. reflexivity.
    - inversion Es; subst. simpl. rewrite Nat.eqb_refl. reflexivity.
  Qed.

  (* ------------------------------------------------------------------ *)
  (* Positive example: thread i accumulates into its own cell 10+i.      *)
  (* ------------------------------------------------------------------ *)

  Definition good_ts : list pc := [PLoad 10 0; PLoad 11 0].
  Definition good_own (i l : nat) : bool := l =? 10 + i.
  Definition table_ro (l : nat) : bool := l <? 3.

  Lemma good_hyps :
    disjoint_footprints nat nat nat pc pstep good_ts good_own table_ro.
  Proof.
    unfold good_own, table_ro. split; [| split].
    - intros i j l Hne Hi Hj.
      apply Nat.eqb_eq in Hi. apply Nat.eqb_eq in Hj. lia.
    - intros i l Hl. apply Nat.ltb_lt in Hl. apply Nat.eqb_neq. lia.
    - intros i t Hi.
      destruct i as [| [| i]]; simpl in Hi.
      + inversion Hi; subst. split.
        * apply (prog_writes_within (PLoad 10 0)).
        * apply (prog_reads_within (PLoad 10 0)).
      + inversion Hi; subst. split.
        * apply (prog_writes_within (PLoad 11 0)).
        * apply (prog_reads_within (PLoad 11 0)).
      + destruct i; discriminate.
  Qed.

  (* an irregular interleaving; index 7 is out of range and stutters *)
  Definition good_sch : list nat :=
    [0;1;1;0;0;0;1;7;1;0;1;1;1;0;0;1;0;0;1;1;0;1;0].

  (* Direct computation: both threads finish with 23 = 5+7+11, as solo. *)
  Example good_computed :
    let c := run good_sch (good_ts, s0) in
    thread_result c 0 = Some 23 /\
    thread_result c 1 = Some 23 /\
    map (snd c) [0;1;2;10;11] = [5;7;11;23;23] /\
    res (fst (solo 30 (PLoad 10 0) s0)) = Some 23 /\
    res (fst (solo 30 (PLoad 11 0) s0)) = Some 23 /\
    map (snd (solo 30 (PLoad 10 0) s0)) [0;1;2;10;11] = [5;7;11;23;0] /\
    map (snd (solo 30 (PLoad 11 0) s0)) [0;1;2;10;11] = [5;7;11;0;23].
  Proof. vm_compute. repeat split; reflexivity. Qed.

  Example good_finished :
    finished nat nat nat pc pstep (run good_sch (good_ts, s0)) 0 23 /\
    finished nat nat nat pc pstep (run good_sch (good_ts, s0)) 1 23.
  Proof.
    split; eexists; (split; [vm_compute; reflexivity | reflexivity]).
  Qed.

  (* The theorem instantiated on this pool and this schedule (its hypotheses
     hold, so it is not vacuous), in agreement with [good_computed]. *)
  Example good_by_theorem :
    let c := run good_sch (good_ts, s0) in
    (forall l, l < 3 -> snd c l = s0 l) /\
    (forall fuel, 30 <= fuel ->
       res (fst (solo fuel (PLoad 10 0) s0)) = Some 23 /\
       snd c 10 = snd (solo fuel (PLoad 10 0) s0) 10) /\
    (forall fuel, 30 <= fuel ->
       res (fst (solo fuel (PLoad 11 0) s0)) = Some 23 /\
       snd c 11 = snd (solo fuel (PLoad 11 0) s0) 11).
  Proof.
    intro c; subst c.
    destruct (disjoint_footprints_serialisable nat Nat.eq_dec nat nat pc pstep
                good_ts good_own table_ro s0 good_hyps good_sch 0 (PLoad 10 0)
                eq_refl) as [Hro H0].
    destruct (disjoint_footprints_serialisable nat Nat.eq_dec nat nat pc pstep
                good_ts good_own table_ro s0 good_hyps good_sch 1 (PLoad 11 0)
                eq_refl) as [_ H1].
    destruct good_finished as [F0 F1].
    assert (count 0 good_sch <= 30) as C0 by (vm_compute; lia).
    assert (count 1 good_sch <= 30) as C1 by (vm_compute; lia).
    split; [| split].
    - intros l Hl. apply Hro. apply Nat.ltb_lt. assumption.
    - intros fuel Hf. pose proof (Nat.le_trans _ _ _ C0 Hf) as Hc.
      destruct (H0 23 F0 fuel Hc) as [R [O _]].
      split; [exact R | apply O; reflexivity].
    - intros fuel Hf. pose proof (Nat.le_trans _ _ _ C1 Hf) as Hc.
      destruct (H1 23 F1 fuel Hc) as [R [O _]].
      split; [exact R | apply O; reflexivity].
  Qed.

  Example good_race_free :
    forall sch, ~ race nat nat nat pc pstep (run sch (good_ts, s0)).
  Proof.
    exact (disjoint_footprints_race_free nat Nat.eq_dec nat nat pc pstep
             good_ts good_own table_ro s0 good_hyps).
  Qed.

  (* ------------------------------------------------------------------ *)
  (* Negative example: the SAME program, but both threads accumulate    *)
  (* into one shared scratch location 20 (a package-level variable).    *)
  (* ------------------------------------------------------------------ *)

  Definition bad_ts : list pc := [PLoad 20 0; PLoad 20 0].

  Lemma bad_thread_writes_scratch : forall o,
    writes_within nat nat nat pc pstep o (PLoad 20 0) -> o 20 = true.
  Proof.
    intros o Hw.
    apply (Hw (PStore 20 0 0) 20 0 (PLoad 20 1)); [| reflexivity].
    apply (reach_read nat nat nat pc pstep _ (PAcc 20 0 0) 20
             (fun a => PStore 20 0 (a + 0)) 0); [| reflexivity].
    apply (reach_read nat nat nat pc pstep _ (PLoad 20 0) 0
             (fun v => PAcc 20 0 v) 0); [| reflexivity].
    apply reach_refl.
  Qed.

  (* (a) the hypotheses cannot be met by ANY choice of ownership *)
  Example bad_hyps_fail :
    ~ exists own ro, disjoint_footprints nat nat nat pc pstep bad_ts own ro.
  Proof.
    intros (own & ro & Hdis & _ & Hfp).
    destruct (Hfp 0 (PLoad 20 0) eq_refl) as [W0 _].
    destruct (Hfp 1 (PLoad 20 0) eq_refl) as [W1 _].
    apply (Hdis 0 1 20); auto using bad_thread_writes_scratch.
  Qed.

  (* (b) the conclusion fails: solo each thread returns 23, interleaved
         thread 0 finishes with 46 *)
  Definition bad_sch : list nat :=
    [0;0;0;1;1;1;0;0;0;1;1;1;0;0;0;1;1;1;0;1].

  Example bad_not_serialisable :
    thread_result (run bad_sch (bad_ts, s0)) 0 = Some 46 /\
    thread_result (run bad_sch (bad_ts, s0)) 1 = Some 46 /\
    res (fst (solo 30 (PLoad 20 0) s0)) = Some 23.
  Proof. vm_compute. repeat split; reflexivity. Qed.

  (* ... and even a lock-step schedule loses updates: the final scratch value
     is 23 although two threads each added 23 to it *)
  Example bad_lost_update :
    snd (run [0;1;0;1;0;1;0;1;0;1;0;1;0;1;0;1;0;1;0;1] (bad_ts, s0)) 20 = 23 /\
    snd (run [0;0;0;0;0;0;0;0;0;0;1;1;1;1;1;1;1;1;1;1] (bad_ts, s0)) 20 = 46.
  Proof. vm_compute. split; reflexivity. Qed.

  (* (c) there is a data race: after [0;0;1;1] both threads are about to
         write location 20 *)
  Example bad_has_race :
    race nat nat nat pc pstep (run [0;0;1;1] (bad_ts, s0)).
  Proof.
    exists 0, 1, (PStore 20 0 5), (PStore 20 0 5), 20, true, true.
    repeat split; try reflexivity. discriminate.
  Qed.

End Example.

(* ====================================================================== *)

Check disjoint_footprints_serialisable.
Check disjoint_footprints_race_free.
Print Assumptions disjoint_footprints_serialisable.
Print Assumptions disjoint_footprints_race_free.
Print Assumptions disjoint_footprints_serialisable_uniform_fuel.
Print Assumptions Example.good_by_theorem.
Print Assumptions Example.bad_hyps_fail.
