(** Specification of the integer readers (property C05), independent of the code's loop
    structure: optional JSON whitespace, optional '-', the maximal-munch token
    0 | [1-9][0-9]*, exact value as an unbounded integer, range check, and the rule that a
    following '.', 'e' or 'E' makes the token a non-integer number.  Definitions only. *)
From Coq Require Import List ZArith Bool.
From Coq Require Import Strings.Byte.
From Rjson Require Import Base Helpers Api.
Import ListNotations.
Local Open Scope Z_scope.

(** exact value of a digit string, most significant digit first *)
Fixpoint digits_value (l : list byte) (acc : Z) : Z :=
  match l with
  | [] => acc
  | c :: r => digits_value r (acc * 10 + (bz c - 48))
  end.

(** the maximal-munch JSON unsigned-integer token at the head of [l]:
    "0" alone, or a non-zero digit followed by all the digits that follow *)
Definition uint_token (l : list byte) : option (list byte * list byte) :=
  match l with
  | c :: r =>
    if bz c =? 48 then Some ([c], r)
    else if is_digit c then
      let n := count_while is_digit l in Some (firstn n l, skipn n l)
    else None
  | [] => None
  end.

Definition starts_frac (l : list byte) : bool :=
  match l with d :: _ => is_frac_start d | [] => false end.

(** [Some (value, offset)] on success, [None] on error *)
Definition uint_spec (bound : Z) (data : list byte) : option (Z * Z) :=
  let w := count_while is_ws data in
  match uint_token (skipn w data) with
  | None => None
  | Some (ds, rest) =>
    if starts_frac rest then None
    else
      let v := digits_value ds 0 in
      if v <? bound then Some (v, Z.of_nat w + len ds) else None
  end.

Definition int_spec (lo hi : Z) (data : list byte) : option (Z * Z) :=
  let w := count_while is_ws data in
  match skipn w data with
  | [] => None
  | c :: r =>
    let neg := bz c =? 45 in
    let body := if neg then r else c :: r in
    match uint_token body with
    | None => None
    | Some (ds, rest) =>
      if starts_frac rest then None
      else
        let v := if neg then - digits_value ds 0 else digits_value ds 0 in
        if (lo <=? v) && (v <=? hi) then Some (v, Z.of_nat w + (if neg then 1 else 0) + len ds) else None
    end
  end.

(** projection of a reader result to what C05 determines *)
Definition ok_proj (r : Z * Z * option errk) : option (Z * Z) :=
  let '(v, p, e) := r in match e with None => Some (v, p) | Some _ => None end.
