(** FpDecBits.v -- the slow path of the float parser: decimal.set, RoundedInteger and floatBits
    (fp.go / decimal.go, copies of Go's strconv) against the rounding specification of Round.v.

    1. [set_spec]            decimal.set on a JSON literal: succeeds, keeps the sign, yields a
                             well-formed decimal and (at most 800 significant digits) the exact value;
    2. [RoundedInteger_spec] RoundedInteger = nearest integer, ties to even, of the value;
    3. [floatBits_tr]        floatBits_m returning also the trunc flag of the last decimal held,
       [floatBits_tr_fst], [no_truncation]; the flag is sticky through Shift ([Shift_sticky]),
       so a clear final flag means that no shift of the run dropped a non-zero digit;
    4. [decimal_exact_given_shift_nz] / [decimal_exact_partial]: a run of floatBits that dropped no
       digit returns [round_ne] of the value of the decimal (pattern and overflow flag).

    The interface statement [Shift_exact_stmt] of FpDecDefs.v is false at k = 0
    ([Shift_exact_stmt_false] below); the proofs use [Shift_exact_nz_stmt] (floatBits never
    shifts by 0: powtab entries are >= 1, the subnormal shift is > 0, the last one is 53), which
    is proved in FpDecShift.v; [decimal_exact_partial] discharges it.  No axioms. *)
From Coq Require Import List ZArith Lia Bool.
From Coq Require Import Strings.Byte.
From Rjson Require Import Base BaseFacts Helpers Round Fp FpSpec FpTables FpDecDefs.
From Rjson Require FpDecShift.
Import ListNotations.
Local Open Scope Z_scope.


(* ---------------------------------------------------------------- *)

(** * 0. Lists, digit strings, powers of ten *)

Lemma len_nil {A} : len (@nil A) = 0.
Proof. reflexivity. Qed.

(** len of a cons *)
Lemma len_cons {A} (x : A) l : len (x :: l) = 1 + len l.
Proof. unfold len. cbn [length]. lia. Qed.

(** len is non-negative *)
Lemma len_ge0 {A} (l : list A) : 0 <= len l.
Proof. unfold len. lia. Qed.

(** len of an append *)
Lemma len_app' {A} (l1 l2 : list A) : len (l1 ++ l2) = len l1 + len l2.
Proof. unfold len. rewrite app_length. lia. Qed.

(** len of a reversal *)
Lemma len_rev {A} (l : list A) : len (rev l) = len l.
Proof. unfold len. rewrite rev_length. reflexivity. Qed.

(** only the empty list has len 0 *)
Lemma len_0_nil {A} (l : list A) : len l = 0 -> l = [].
Proof. destruct l; [reflexivity|]. rewrite len_cons. pose proof (len_ge0 l). lia. Qed.

(** powers of ten are positive *)
Lemma pow10_pos k : 0 <= k -> 0 < 10 ^ k.
Proof. intros. apply Z.pow_pos_nonneg; lia. Qed.

(** 10^(1+k) = 10 * 10^k *)
Lemma pow10_succ k : 0 <= k -> 10 ^ (1 + k) = 10 * 10 ^ k.
Proof. intros. rewrite Z.pow_add_r by lia. reflexivity. Qed.

(** k |-> 10^k is monotone *)
Lemma pow10_le a b : 0 <= a <= b -> 10 ^ a <= 10 ^ b.
Proof. intros. apply Z.pow_le_mono_r; lia. Qed.

(** P10 on k >= 0 *)
Lemma P10_nonneg k : 0 <= k -> P10 k = 10 ^ k.
Proof. intros. unfold P10. rewrite Z.max_l by lia. reflexivity. Qed.

(** P10 on k <= 0 *)
Lemma P10_nonpos k : k <= 0 -> P10 k = 1.
Proof. intros. unfold P10. rewrite Z.max_r by lia. reflexivity. Qed.

(** the digit-accumulating fold, generalised in the accumulator *)
Lemma fold_dig_acc {A} (g : A -> Z) (l : list A) : forall acc,
  fold_left (fun a c => a * 10 + g c) l acc
  = acc * 10 ^ len l + fold_left (fun a c => a * 10 + g c) l 0.
Proof.
  induction l as [|c l IH]; intros acc.
  - cbn [fold_left]. rewrite len_nil. change (10 ^ 0) with 1. lia.
  - cbn [fold_left]. rewrite IH, (IH (0 * 10 + g c)), len_cons, pow10_succ by apply len_ge0. ring.
Qed.

(** value of the empty digit list *)
Lemma dval_z_nil : dval_z [] = 0.
Proof. reflexivity. Qed.

(** value of d :: l *)
Lemma dval_z_cons d l : dval_z (d :: l) = d * 10 ^ len l + dval_z l.
Proof. unfold dval_z. cbn [fold_left]. rewrite (fold_dig_acc (fun d => d)). lia. Qed.

(** value of an append *)
Lemma dval_z_app l1 l2 : dval_z (l1 ++ l2) = dval_z l1 * 10 ^ len l2 + dval_z l2.
Proof.
  unfold dval_z. rewrite fold_left_app. apply (fold_dig_acc (fun d => d)).
Qed.

(** value after one more digit *)
Lemma dval_z_snoc l d : dval_z (l ++ [d]) = dval_z l * 10 + d.
Proof. rewrite dval_z_app. change (len [d]) with 1. change (dval_z [d]) with (0 * 10 + d). lia. Qed.

(** value of a digit string c :: l *)
Lemma dval_cons c l : dval (c :: l) = (bz c - 48) * 10 ^ len l + dval l.
Proof. unfold dval. cbn [fold_left]. rewrite (fold_dig_acc (fun c => bz c - 48)). lia. Qed.

(** value of a concatenation of digit strings *)
Lemma dval_app l1 l2 : dval (l1 ++ l2) = dval l1 * 10 ^ len l2 + dval l2.
Proof. unfold dval. rewrite fold_left_app. apply (fold_dig_acc (fun c => bz c - 48)). Qed.

(** digs_ok on a cons, as an equivalence *)
Lemma digs_ok_cons d l : digs_ok (d :: l) <-> 0 <= d <= 9 /\ digs_ok l.
Proof. unfold digs_ok. split; [intros H; inversion H; auto|intros [? ?]; constructor; auto]. Qed.

(** digs_ok on a cons, elimination *)
Lemma digs_ok_inv d l : digs_ok (d :: l) -> 0 <= d <= 9 /\ digs_ok l.
Proof. apply digs_ok_cons. Qed.

(** digs_ok on a cons, introduction *)
Lemma digs_ok_mk d l : 0 <= d <= 9 -> digs_ok l -> digs_ok (d :: l).
Proof. intros. apply digs_ok_cons. auto. Qed.

(** digs_ok on an append *)
Lemma digs_ok_app l1 l2 : digs_ok (l1 ++ l2) <-> digs_ok l1 /\ digs_ok l2.
Proof. unfold digs_ok. apply Forall_app. Qed.

(** digs_ok is stable under reversal *)
Lemma digs_ok_rev l : digs_ok l -> digs_ok (rev l).
Proof. unfold digs_ok. apply Forall_rev. Qed.

(** 0 <= value of n digits < 10^n *)
Lemma dval_z_bound l : digs_ok l -> 0 <= dval_z l < 10 ^ len l.
Proof.
  induction l as [|d l IH]; intros H.
  - cbn. lia.
  - destruct (digs_ok_inv _ _ H) as [Hd Hl]. specialize (IH Hl).
    rewrite dval_z_cons, len_cons, pow10_succ by apply len_ge0. nia.
Qed.

(** a leading non-zero digit gives the lower bound 10^(n-1) *)
Lemma dval_z_lower d l : digs_ok (d :: l) -> d <> 0 -> 10 ^ len l <= dval_z (d :: l).
Proof.
  intros H Hd. destruct (digs_ok_inv _ _ H) as [Hd' Hl]. pose proof (dval_z_bound l Hl).
  rewrite dval_z_cons. pose proof (pow10_pos (len l) (len_ge0 l)). nia.
Qed.

(** a trailing non-zero digit makes the value positive *)
Lemma dval_z_last_pos l : digs_ok l -> (match rev l with d :: _ => d <> 0 | [] => True end) ->
  l <> [] -> 0 < dval_z l.
Proof.
  intros H Hl Hne. destruct (rev l) as [|d t] eqn:E.
  - apply (f_equal (@rev Z)) in E. rewrite rev_involutive in E. contradiction.
  - apply (f_equal (@rev Z)) in E. rewrite rev_involutive in E. cbn [rev] in E. subst l.
    destruct (proj1 (digs_ok_app _ _) H) as [H1 H2]. destruct (digs_ok_inv _ _ H2) as [H3 _].
    rewrite dval_z_snoc. pose proof (dval_z_bound _ H1). lia.
Qed.

(** * 1. decimal.set *)

Lemma is_digit_range c : is_digit c = true -> 48 <= bz c <= 57.
Proof. unfold is_digit. intros H. apply andb_true_iff in H as [H1 H2]. lia. Qed.

(** all_digits on a cons *)
Lemma all_digits_cons c l : all_digits (c :: l) = true -> is_digit c = true /\ all_digits l = true.
Proof. unfold all_digits. cbn [forallb]. intros H. apply andb_true_iff in H. exact H. Qed.

(** all_digits on an append *)
Lemma all_digits_app l1 l2 : all_digits (l1 ++ l2) = true <-> all_digits l1 = true /\ all_digits l2 = true.
Proof. unfold all_digits. rewrite forallb_app. apply andb_true_iff. Qed.

(** digit strings have non-negative value *)
Lemma dval_nonneg l : all_digits l = true -> 0 <= dval l.
Proof.
  induction l as [|c l IH]; intros H; [unfold dval; cbn; lia|].
  apply all_digits_cons in H as [Hc Hl]. apply is_digit_range in Hc. specialize (IH Hl).
  rewrite dval_cons. pose proof (pow10_pos (len l) (len_ge0 l)). nia.
Qed.

(** one step of strip0 *)
Lemma strip0_cons c l : strip0 (c :: l) = if bz c =? 48 then strip0 l else c :: l.
Proof. reflexivity. Qed.

(** strip0 only removes bytes *)
Lemma strip0_len l : len (strip0 l) <= len l.
Proof.
  induction l as [|c l IH]; [cbn; lia|]. rewrite strip0_cons. destruct (bz c =? 48); rewrite ?len_cons; lia.
Qed.

(** strip0 of an append: the second part is stripped only if the first is all zeros *)
Lemma strip0_app l1 l2 :
  strip0 (l1 ++ l2) = if len (strip0 l1) =? 0 then strip0 l2 else strip0 l1 ++ l2.
Proof.
  induction l1 as [|c l1 IH]; [reflexivity|].
  cbn [app]. rewrite !strip0_cons. destruct (bz c =? 48); [exact IH|].
  rewrite len_cons. pose proof (len_ge0 l1). destruct (Z.eqb_spec (1 + len l1) 0); [lia|reflexivity].
Qed.

(** state of the digit loop of decimal.set: [rd] the digits so far, reversed *)
Definition st_wf (rd : list Z) (nd : Z) : Prop :=
  nd = len rd /\ nd <= dec_cap /\ digs_ok rd /\ (match rev rd with d :: _ => d <> 0 | [] => True end).

(** is the list non-empty *)
Definition nonempty {A} (l : list A) : bool := match l with [] => false | _ :: _ => true end.

(** the digit loop over a run of digits [Ds]: well-formedness always; exact bookkeeping when
    nothing is dropped *)
Lemma set_loop_digits : forall Ds, all_digits Ds = true -> forall rest rd nd dp sd sg tr,
  st_wf rd nd ->
  exists rd' nd' dp' tr',
    set_loop (Ds ++ rest) rd nd dp sd sg tr = set_loop rest rd' nd' dp' sd (sg || nonempty Ds) tr' /\
    st_wf rd' nd' /\
    (tr = false -> nd + len (if nd =? 0 then strip0 Ds else Ds) <= dec_cap ->
       tr' = false /\
       dval_z (rev rd') = dval_z (rev rd) * 10 ^ len Ds + dval Ds /\
       nd' = nd + len (if nd =? 0 then strip0 Ds else Ds) /\
       dp' = dp - (if nd =? 0 then len Ds - len (strip0 Ds) else 0)).
Proof.
  induction Ds as [|c Ds IH]; intros HD rest rd nd dp sd sg tr Hwf.
  - exists rd, nd, dp, tr. cbn [app nonempty]. rewrite orb_false_r. split; [reflexivity|]. split; [exact Hwf|].
    intros Htr _. cbn [strip0]. rewrite len_nil. change (10 ^ 0) with 1. unfold dval. cbn [fold_left].
    destruct (nd =? 0); change (len (@nil byte)) with 0; repeat split; try lia; try assumption.
  - apply all_digits_cons in HD as [Hc HDs]. pose proof (is_digit_range c Hc) as Rc.
    destruct Hwf as (Hnd & Hcap & Hok & Hlead).
    cbn [app set_loop]. unfold c_dot, c_0. rewrite Hc.
    destruct (Z.eqb_spec (bz c) 46) as [|_]; [lia|].
    destruct (Z.eqb_spec (bz c) 48) as [Ez|Nz]; destruct (Z.eqb_spec nd 0) as [En|Nn]; cbn [andb].
    + (* leading zero: dp-- *)
      assert (rd = []) by (apply len_0_nil; lia). subst rd. clear Hnd. subst nd.
      destruct (IH HDs rest [] 0 (dp - 1) sd true tr) as (rd' & nd' & dp' & tr' & E & W & V).
      { split; [reflexivity|]. split; [unfold dec_cap; lia|]. split; [constructor|exact I]. }
      exists rd', nd', dp', tr'. split; [|split; [exact W|]].
      * rewrite E. f_equal. cbn [nonempty]. rewrite orb_true_r. reflexivity.
      * intros Htr Hlen. rewrite strip0_cons in *.
        destruct (Z.eqb_spec (bz c) 48) as [_|]; [|contradiction].
        change (0 =? 0) with true in *. cbv iota in *.
        destruct (V Htr Hlen) as (V1 & V2 & V3 & V4). split; [exact V1|]. split; [|split].
        -- rewrite V2, dval_cons, Ez. cbn [rev]. rewrite dval_z_nil. lia.
        -- exact V3.
        -- rewrite V4, len_cons. lia.
    + (* a zero after a non-zero digit *)
      destruct (Z.ltb_spec nd dec_cap) as [Hlt|Hge].
      * destruct (IH HDs rest ((bz c - 48) :: rd) (nd + 1) dp sd true tr) as (rd' & nd' & dp' & tr' & E & W & V).
        { repeat split.
          - rewrite len_cons. lia.
          - lia.
          - apply digs_ok_mk; [lia|exact Hok].
          - cbn [rev]. destruct (rev rd) as [|x t] eqn:Er; [|exact Hlead].
            apply (f_equal (@rev Z)) in Er. rewrite rev_involutive in Er. subst rd. cbn in Hnd. lia. }
        exists rd', nd', dp', tr'. split; [|split; [exact W|]].
        -- rewrite E. f_equal. cbn [nonempty]. rewrite orb_true_r. reflexivity.
        -- intros Htr Hlen. destruct (Z.eqb_spec (nd + 1) 0) as [|_]; [pose proof (len_ge0 rd); lia|].
           rewrite len_cons in Hlen. destruct (V Htr ltac:(lia)) as (V1 & V2 & V3 & V4).
           split; [exact V1|]. split; [|split].
           ++ rewrite V2. cbn [rev]. rewrite dval_z_snoc, dval_cons, len_cons, pow10_succ by apply len_ge0. ring.
           ++ rewrite V3, len_cons. lia.
           ++ lia.
      * destruct (IH HDs rest rd nd dp sd true (tr || negb true)) as (rd' & nd' & dp' & tr' & E & W & V).
        { repeat split; assumption. }
        exists rd', nd', dp', tr'. split; [|split; [exact W|]].
        -- rewrite E. f_equal. cbn [nonempty]. rewrite orb_true_r. reflexivity.
        -- intros Htr Hlen. rewrite len_cons in Hlen. pose proof (len_ge0 Ds). lia.
    + (* first non-zero digit *)
      assert (rd = []) by (apply len_0_nil; lia). subst rd. clear Hnd. subst nd.
      change (0 <? dec_cap) with true. cbv iota.
      destruct (IH HDs rest [bz c - 48] (0 + 1) dp sd true tr) as (rd' & nd' & dp' & tr' & E & W & V).
      { split; [reflexivity|]. split; [unfold dec_cap; lia|].
        split; [apply digs_ok_mk; [lia|constructor]|]. cbn [rev app]. lia. }
      exists rd', nd', dp', tr'. split; [|split; [exact W|]].
      * rewrite E. f_equal. cbn [nonempty]. rewrite orb_true_r. reflexivity.
      * intros Htr Hlen. rewrite strip0_cons in *. destruct (Z.eqb_spec (bz c) 48) as [|_]; [contradiction|].
        change (0 + 1 =? 0) with false in V. cbv iota in V. rewrite len_cons in Hlen.
        destruct (V Htr ltac:(lia)) as (V1 & V2 & V3 & V4). split; [exact V1|]. split; [|split].
        -- rewrite V2. cbn [rev app]. rewrite dval_z_nil, dval_cons, len_cons, pow10_succ by apply len_ge0.
           change (dval_z [bz c - 48]) with (0 * 10 + (bz c - 48)). ring.
        -- rewrite V3, len_cons. lia.
        -- rewrite len_cons. lia.
    + (* a later non-zero digit *)
      destruct (Z.ltb_spec nd dec_cap) as [Hlt|Hge].
      * destruct (IH HDs rest ((bz c - 48) :: rd) (nd + 1) dp sd true tr) as (rd' & nd' & dp' & tr' & E & W & V).
        { repeat split.
          - rewrite len_cons. lia.
          - lia.
          - apply digs_ok_mk; [lia|exact Hok].
          - cbn [rev]. destruct (rev rd) as [|x t] eqn:Er; [|exact Hlead].
            apply (f_equal (@rev Z)) in Er. rewrite rev_involutive in Er. subst rd. cbn in Hnd. lia. }
        exists rd', nd', dp', tr'. split; [|split; [exact W|]].
        -- rewrite E. f_equal. cbn [nonempty]. rewrite orb_true_r. reflexivity.
        -- intros Htr Hlen. destruct (Z.eqb_spec (nd + 1) 0) as [|_]; [pose proof (len_ge0 rd); lia|].
           rewrite len_cons in Hlen. destruct (V Htr ltac:(lia)) as (V1 & V2 & V3 & V4).
           split; [exact V1|]. split; [|split].
           ++ rewrite V2. cbn [rev]. rewrite dval_z_snoc, dval_cons, len_cons, pow10_succ by apply len_ge0. ring.
           ++ rewrite V3, len_cons. lia.
           ++ lia.
      * destruct (IH HDs rest rd nd dp sd true (tr || negb false)) as (rd' & nd' & dp' & tr' & E & W & V).
        { repeat split; assumption. }
        exists rd', nd', dp', tr'. split; [|split; [exact W|]].
        -- rewrite E. f_equal. cbn [nonempty]. rewrite orb_true_r. reflexivity.
        -- intros Htr Hlen. rewrite len_cons in Hlen. pose proof (len_ge0 Ds). lia.
Qed.

(* ---------------------------------------------------------------- *)

(** the exponent loop returns the written exponent when it is below 10^5 *)
Lemma exp_loop_digits : forall l, all_digits l = true -> forall p acc, 0 <= acc ->
  fold_left (fun a c => a * 10 + (bz c - 48)) l acc <= 99999 ->
  exp_loop l p acc = (p + len l, fold_left (fun a c => a * 10 + (bz c - 48)) l acc, []).
Proof.
  induction l as [|c l IH]; intros HD p acc Hacc Hb.
  - cbn [exp_loop fold_left]. rewrite len_nil, Z.add_0_r. reflexivity.
  - apply all_digits_cons in HD as [Hc Hl]. pose proof (is_digit_range c Hc) as Rc.
    cbn [exp_loop fold_left] in *. rewrite Hc.
    assert (Hlt : acc < 10000).
    { rewrite fold_dig_acc in Hb. fold (dval l) in Hb. pose proof (dval_nonneg l Hl).
      pose proof (pow10_pos (len l) (len_ge0 l)). nia. }
    destruct (Z.ltb_spec acc 10000) as [_|]; [|lia]. unfold c_0.
    replace (acc * 10 + bz c - 48) with (acc * 10 + (bz c - 48)) by lia.
    rewrite IH; [|exact Hl|lia|exact Hb]. rewrite len_cons. f_equal. f_equal. lia.
Qed.

(** the code of decimal.set after the digit loop *)
Definition set_tail (mk : Z -> decimal) (dp : Z) (rest : list byte) : option decimal :=
  match rest with
  | [] => Some (mk dp)
  | c :: r1 =>
    if is_e c then
      match r1 with
      | [] => None
      | c1 :: r2 =>
        let '(esign, r3) :=
          if bz c1 =? c_plus then (1, r2) else if bz c1 =? c_minus then (-1, r2) else (1, r1) in
        match r3 with
        | [] => None
        | c2 :: _ =>
          if negb (is_digit c2) then None else
          let '(_, e, rest') := exp_loop r3 0 0 in
          match rest' with [] => Some (mk (dp + e * esign)) | _ :: _ => None end
        end
      end
    else None
  end.

(** the continuation of decimal.set after the digit loop *)
Definition set_k (neg : bool) (st : list byte * list Z * Z * Z * bool * bool * bool) : option decimal :=
  let '(rest, rd, nd, dp, sawdot, sawdigits, trunc) := st in
  if negb sawdigits then None else
  let dp := if sawdot then dp else nd in
  set_tail (fun dp => {| d_d := rev rd; d_dp := dp; d_neg := neg; d_trunc := trunc |}) dp rest.

(** decimal.set = sign, digit loop, then [set_k] *)
Lemma set_m_unfold data :
  set_m data = match data with
               | [] => None
               | c0 :: r0 => let neg := bz c0 =? c_minus in
                             obind (set_loop (if neg then r0 else data) [] 0 0 false false false) (set_k neg)
               end.
Proof. reflexivity. Qed.

(** the printed fraction part *)
Definition frac_bytes (j : jnum) : list byte := match j_frac j with None => [] | Some f => B 46 :: f end.
(** the printed exponent part *)
Definition exp_bytes (j : jnum) : list byte :=
  match j_exp j with
  | None => []
  | Some (cap, s, e) =>
    (if cap then B 69 else B 101)
    :: match s with ENone => [] | EPlus => [B 43] | EMinus => [B 45] end ++ e
  end.

(** the printed literal, in four parts *)
Lemma jn_bytes_eq j : jn_bytes j = (if j_neg j then [B 45] else []) ++ j_int j ++ frac_bytes j ++ exp_bytes j.
Proof. reflexivity. Qed.

(** the exponent part of the literal is parsed to [jn_exp10] *)
Lemma set_tail_exp j mk dp :
  (match j_exp j with None => True | Some (_, _, e) => all_digits e = true /\ e <> [] /\ dval e <= 99999 end) ->
  set_tail mk dp (exp_bytes j) = Some (mk (dp + jn_exp10 j)).
Proof.
  unfold exp_bytes, jn_exp10. destruct (j_exp j) as [[[cap s] e]|]; intros H.
  - destruct H as (He & Hne & Hb). destruct e as [|c2 e']; [contradiction|].
    pose proof (all_digits_cons _ _ He) as [Hc2 _]. pose proof (is_digit_range c2 Hc2) as Rc.
    assert (EL : exp_loop (c2 :: e') 0 0 = (0 + len (c2 :: e'), dval (c2 :: e'), [])).
    { apply exp_loop_digits; [exact He|lia|exact Hb]. }
    assert (Ee : is_e (if cap then B 69 else B 101) = true) by (destruct cap; reflexivity).
    unfold set_tail. rewrite Ee. unfold c_plus, c_minus.
    destruct s; cbn [app].
    + destruct (Z.eqb_spec (bz c2) 43) as [|_]; [lia|]. destruct (Z.eqb_spec (bz c2) 45) as [|_]; [lia|].
      rewrite Hc2. cbn [negb]. rewrite EL. f_equal. f_equal. lia.
    + change (bz (B 43) =? 43) with true. cbv iota. rewrite Hc2. cbn [negb]. rewrite EL. f_equal. f_equal. lia.
    + change (bz (B 45) =? 43) with false. change (bz (B 45) =? 45) with true. cbv iota.
      rewrite Hc2. cbn [negb]. rewrite EL. f_equal. f_equal. lia.
  - cbn [set_tail]. rewrite Z.add_0_r. reflexivity.
Qed.

(** the digit loop stops at the exponent part (or at the end) *)
Lemma exp_bytes_stop j rd nd dp sd sg tr :
  set_loop (exp_bytes j) rd nd dp sd sg tr = Some (exp_bytes j, rd, nd, dp, sd, sg, tr).
Proof.
  unfold exp_bytes. destruct (j_exp j) as [[[cap s] e]|]; [|reflexivity].
  destruct cap; reflexivity.
Qed.

(** decimal.set on a JSON literal: succeeds, keeps the sign, yields a well-formed decimal,
    and, when no digit is dropped (at most 800 significant digits), the exact value *)
Theorem set_spec : forall j,
  jn_wf j = true ->
  (match j_exp j with None => True | Some (_, _, e) => dval e <= 99999 end) ->
  exists a, set_m (jn_bytes j) = Some a /\ d_neg a = j_neg j /\ dec_wf a /\
    (len (strip0 (j_int j ++ jn_frac_digits j)) <= 800 ->
       d_trunc a = false /\
       fst (dec_frac a) * snd (jn_value j) = fst (jn_value j) * snd (dec_frac a)).
Proof.
  intros j Hwf Hexp. unfold jn_wf in Hwf.
  apply andb_true_iff in Hwf as [Hwf Hwe]. apply andb_true_iff in Hwf as [Hwi Hwfr].
  (* integer part: non-empty digits *)
  assert (Hi : all_digits (j_int j) = true /\ exists c r, j_int j = c :: r).
  { unfold int_wf in Hwi. destruct (j_int j) as [|c r]; [discriminate|].
    apply andb_true_iff in Hwi as [Hwi _]. split; [exact Hwi|eauto]. }
  destruct Hi as (Hid & c & r & Ei).
  assert (Hexp' : match j_exp j with None => True
                  | Some (_, _, e) => all_digits e = true /\ e <> [] /\ dval e <= 99999 end).
  { destruct (j_exp j) as [[[cap s] e]|]; [|exact I].
    apply andb_true_iff in Hwe as [H1 H2]. split; [exact H1|]. split; [|exact Hexp].
    intros ->. discriminate. }
  (* sign *)
  assert (Hhead : set_m (jn_bytes j)
                  = obind (set_loop (j_int j ++ frac_bytes j ++ exp_bytes j) [] 0 0 false false false)
                          (set_k (j_neg j))).
  { rewrite jn_bytes_eq, set_m_unfold. destruct (j_neg j).
    - reflexivity.
    - cbn [app]. rewrite Ei. cbn [app]. rewrite Ei in Hid. apply all_digits_cons in Hid as [Hc _].
      apply is_digit_range in Hc. unfold c_minus. destruct (Z.eqb_spec (bz c) 45) as [|_]; [lia|]. reflexivity. }
  assert (W0 : st_wf [] 0).
  { split; [reflexivity|]. split; [unfold dec_cap; lia|]. split; [constructor|exact I]. }
  destruct (set_loop_digits (j_int j) Hid (frac_bytes j ++ exp_bytes j) [] 0 0 false false false W0)
    as (rd1 & nd1 & dp1 & tr1 & E1 & W1 & V1).
  assert (Hsg : false || nonempty (j_int j) = true) by (rewrite Ei; reflexivity).
  rewrite Hsg in E1. change (0 =? 0) with true in V1. cbv iota in V1.
  unfold jn_value, jn_frac_digits. unfold frac_bytes in *.
  destruct (j_frac j) as [f|].
  - (* with a fraction *)
    apply andb_true_iff in Hwfr as [Hfd _].
    cbn [app] in E1, Hhead. cbn [set_loop] in E1. change (bz (B 46) =? c_dot) with true in E1. cbv iota in E1.
    destruct (set_loop_digits f Hfd (exp_bytes j) rd1 nd1 nd1 true true tr1 W1)
      as (rd2 & nd2 & dp2 & tr2 & E2 & W2 & V2).
    rewrite E2, exp_bytes_stop in E1. rewrite Hhead, E1. cbn [obind set_k negb orb].
    rewrite (set_tail_exp j _ dp2 Hexp').
    eexists. split; [reflexivity|]. cbn [d_neg d_d d_dp d_trunc]. split; [reflexivity|].
    destruct W2 as (Hnd2 & Hcap2 & Hok2 & Hlead2).
    split.
    { unfold dec_wf. cbn [d_d]. split; [apply digs_ok_rev; exact Hok2|]. split; [rewrite len_rev; lia|exact Hlead2]. }
    intros Hlen. rewrite strip0_app in Hlen.
    assert (Hl1 : 0 + len (strip0 (j_int j)) <= dec_cap).
    { unfold dec_cap. pose proof (len_ge0 (strip0 f)). pose proof (len_ge0 f).
      destruct (len (strip0 (j_int j)) =? 0) eqn:Ez; [apply Z.eqb_eq in Ez; lia|].
      rewrite len_app' in Hlen. lia. }
    destruct (V1 eq_refl Hl1) as (T1 & D1 & N1 & P1).
    assert (Hl2 : nd1 + len (if nd1 =? 0 then strip0 f else f) <= dec_cap).
    { unfold dec_cap. rewrite N1, Z.add_0_l. destruct (len (strip0 (j_int j)) =? 0) eqn:Ez.
      - apply Z.eqb_eq in Ez. lia.
      - rewrite len_app' in Hlen. lia. }
    destruct (V2 T1 Hl2) as (T2 & D2 & N2 & P2').
    unfold dec_frac. cbn [d_d d_dp d_trunc fst snd]. split; [exact T2|].
    rewrite len_rev, D2, D1. cbn [rev]. rewrite dval_z_nil, Z.mul_0_l, Z.add_0_l, <- dval_app.
    replace (dp2 + jn_exp10 j - len rd2) with (jn_exp10 j - len f); [reflexivity|].
    rewrite <- Hnd2, N2, P2'. destruct (nd1 =? 0); lia.
  - (* no fraction *)
    cbn [app] in E1, Hhead. rewrite exp_bytes_stop in E1. rewrite Hhead, E1. cbn [obind set_k negb].
    rewrite (set_tail_exp j _ nd1 Hexp').
    eexists. split; [reflexivity|]. cbn [d_neg d_d d_dp d_trunc]. split; [reflexivity|].
    destruct W1 as (Hnd1 & Hcap1 & Hok1 & Hlead1).
    split.
    { unfold dec_wf. cbn [d_d]. split; [apply digs_ok_rev; exact Hok1|]. split; [rewrite len_rev; lia|exact Hlead1]. }
    intros Hlen. rewrite app_nil_r in *.
    destruct (V1 eq_refl ltac:(unfold dec_cap; lia)) as (T1 & D1 & N1 & P1).
    unfold dec_frac. cbn [d_d d_dp d_trunc fst snd]. split; [exact T1|].
    rewrite len_rev, D1. cbn [rev]. rewrite dval_z_nil, Z.mul_0_l, Z.add_0_l.
    change (len (@nil byte)) with 0.
    replace (nd1 + jn_exp10 j - len rd1) with (jn_exp10 j - 0) by lia. reflexivity.
Qed.

(** -12.50e-3: a well-formed literal with a small exponent and few digits; set succeeds *)
Example set_spec_ex :
  let j := {| j_neg := true; j_int := map B [49; 50]; j_frac := Some (map B [53; 48]);
              j_exp := Some (false, EMinus, map B [51]) |} in
  jn_wf j = true /\ dval (map B [51]) <= 99999 /\ len (strip0 (j_int j ++ jn_frac_digits j)) <= 800 /\
  set_m (jn_bytes j) = Some {| d_d := [1; 2; 5; 0]; d_dp := -1; d_neg := true; d_trunc := false |}.
Proof.
  cbv zeta. split; [reflexivity|]. split; [vm_compute; discriminate|]. split; [vm_compute; discriminate|].
  vm_compute. reflexivity.
Qed.

(* ---------------------------------------------------------------- *)

(** * 2. RoundedInteger *)

Lemma pow10_19_lt : 10 ^ 19 < two64.
Proof. vm_compute. reflexivity. Qed.

(** firstn n has at most n elements *)
Lemma firstn_len_le {A} (l : list A) n : len (firstn n l) <= Z.of_nat n.
Proof. unfold len. pose proof (firstn_le_length n l). lia. Qed.

(** the two digit loops of RoundedInteger: no uint64 wrap-around below 10^19 *)
Lemma ri_digits_val : forall cnt l n k, digs_ok l -> 0 <= k -> 0 <= n < 10 ^ k -> k + Z.of_nat cnt <= 19 ->
  ri_digits l cnt n
  = n * 10 ^ Z.of_nat cnt + dval_z (firstn cnt l) * 10 ^ (Z.of_nat cnt - len (firstn cnt l)).
Proof.
  induction cnt as [|c IH]; intros l n k Hl Hk Hn Hc.
  - cbn [ri_digits firstn]. rewrite dval_z_nil. change (10 ^ Z.of_nat 0) with 1. lia.
  - assert (P19 : 10 ^ (k + 1) <= 10 ^ 19) by (apply pow10_le; lia).
    assert (Pk : 10 ^ (k + 1) = 10 * 10 ^ k) by (rewrite Z.add_comm; apply pow10_succ; lia).
    pose proof pow10_19_lt as P64.
    replace (Z.of_nat (S c)) with (1 + Z.of_nat c) by lia. rewrite pow10_succ by lia.
    destruct l as [|d l'].
    + cbn [ri_digits firstn]. rewrite (u64_small (n * 10)) by lia.
      rewrite (IH [] (n * 10) (k + 1)); [|constructor|lia|lia|lia].
      rewrite firstn_nil, dval_z_nil. ring.
    + destruct (digs_ok_inv _ _ Hl) as [Hd Hl'].
      cbn [ri_digits firstn]. rewrite (u64_small (n * 10)) by lia. rewrite u64_small by lia.
      rewrite (IH l' (n * 10 + d) (k + 1)); [|exact Hl'|lia|lia|lia].
      rewrite dval_z_cons, len_cons. pose proof (firstn_len_le l' c) as Hf. pose proof (len_ge0 (firstn c l')) as Hf0.
      replace (1 + Z.of_nat c - (1 + len (firstn c l'))) with (Z.of_nat c - len (firstn c l')) by lia.
      replace (10 ^ Z.of_nat c) with (10 ^ len (firstn c l') * 10 ^ (Z.of_nat c - len (firstn c l'))).
      2:{ rewrite <- Z.pow_add_r by lia. f_equal. lia. }
      ring.
Qed.

(** a list split around its i-th element *)
Lemma split_nth : forall (l : list Z) i, (i < length l)%nat ->
  l = firstn i l ++ nth i l 0 :: skipn (S i) l.
Proof.
  induction l as [|x l IH]; intros i Hi; [cbn in Hi; lia|].
  destruct i as [|i]; [reflexivity|]. cbn [firstn nth skipn app]. f_equal. apply IH. cbn in Hi. lia.
Qed.

(** Z.even as a test on mod 2 *)
Lemma even_mod2 x : Z.even x = (x mod 2 =? 0).
Proof. rewrite Zmod_even. destruct (Z.even x); reflexivity. Qed.

(** the parity of a decimal number is that of its last digit *)
Lemma even_10 a x : Z.even (a * 10 + x) = Z.even x.
Proof. rewrite Z.even_add, Z.even_mul. change (Z.even 10) with true. rewrite orb_true_r. destruct (Z.even x); reflexivity. Qed.

(** the last digit of an append is the last digit of its non-empty second part *)
Lemma trimmed_suffix (l1 l2 : list Z) : l2 <> [] ->
  (match rev (l1 ++ l2) with d :: _ => d <> 0 | [] => True end) ->
  (match rev l2 with d :: _ => d <> 0 | [] => True end).
Proof.
  intros Hne. rewrite rev_app_distr. destruct (rev l2) as [|y t] eqn:E.
  - apply (f_equal (@rev Z)) in E. rewrite rev_involutive in E. contradiction.
  - cbn [app]. auto.
Qed.

(** RoundedInteger is the nearest integer, ties to even, of the value of the decimal
    (decimal point at most 19 places in, so that the integer part fits a uint64; any dp <= 0) *)
Theorem RoundedInteger_spec a :
  dec_wf a -> dec_trimmed a -> d_trunc a = false -> d_dp a <= 19 ->
  RoundedInteger_m a = rne_div (fst (dec_frac a)) (snd (dec_frac a)).
Proof.
  intros (Hok & _ & _) Htrim Htr Hdp.
  unfold RoundedInteger_m, dec_frac, shouldRoundUp_m, d_nd, dnth. cbn [fst snd]. rewrite Htr.
  unfold dec_trimmed in Htrim.
  destruct a as [d dp neg trc]. cbn [d_d d_dp d_neg d_trunc] in *. clear Htr trc neg.
  destruct (Z.ltb_spec 20 dp) as [|_]; [lia|].
  pose proof (len_ge0 d) as Hnd0. pose proof (dval_z_bound d Hok) as [Hv0 Hv1].
  destruct (Z_lt_le_dec dp 0) as [Hneg|Hpos].
  - (* value below 1/10 *)
    destruct (Z.ltb_spec dp 0) as [_|]; [|lia]. cbn [orb].
    replace (Z.to_nat dp) with O by lia. cbn [ri_digits].
    rewrite (P10_nonpos (dp - len d)), (P10_nonneg (- (dp - len d))) by lia. symmetry. apply rne_div_unique.
    + apply pow10_pos. lia.
    + left. replace (- (dp - len d)) with (len d + (- dp)) by lia. rewrite Z.pow_add_r by lia.
      assert (10 ^ 1 <= 10 ^ (- dp)) by (apply pow10_le; lia). change (10 ^ 1) with 10 in *.
      pose proof (pow10_pos (len d) Hnd0). nia.
  - destruct (Z.ltb_spec dp 0) as [|_]; [lia|]. cbn [orb].
    assert (P64 := pow10_19_lt).
    assert (Hri := ri_digits_val (Z.to_nat dp) d 0 0 Hok ltac:(lia) ltac:(change (10 ^ 0) with 1; lia) ltac:(lia)).
    rewrite Z.mul_0_l, Z.add_0_l, Z2Nat.id in Hri by lia.
    destruct (Z.leb_spec (len d) dp) as [Hle|Hgt].
    + (* an integer *)
      rewrite Hri, firstn_all2 by (unfold len in Hle; lia).
      rewrite (P10_nonneg (dp - len d)), (P10_nonpos (- (dp - len d))) by lia.
      symmetry. apply rne_div_unique; [lia|left; lia].
    + (* dp < nd: split the digits at the point *)
      assert (Hi : (Z.to_nat dp < length d)%nat) by (unfold len in Hgt; lia).
      pose proof (split_nth d (Z.to_nat dp) Hi) as Hsplit.
      set (hi := firstn (Z.to_nat dp) d) in *. set (c := nth (Z.to_nat dp) d 0) in *.
      set (lo' := skipn (S (Z.to_nat dp)) d) in *.
      assert (Hhi : len hi = dp).
      { subst hi. unfold len. rewrite firstn_length_le by lia. lia. }
      rewrite Hhi, Z.sub_diag in Hri. change (10 ^ 0) with 1 in Hri. rewrite Z.mul_1_r in Hri.
      rewrite Hri. set (n := dval_z hi) in *.
      assert (Hoks : digs_ok hi /\ digs_ok (c :: lo')).
      { apply digs_ok_app. rewrite <- Hsplit. exact Hok. }
      destruct Hoks as [Hokh Hokl]. destruct (digs_ok_inv _ _ Hokl) as [Hc Hokl'].
      pose proof (dval_z_bound hi Hokh) as Hn. fold n in Hn. rewrite Hhi in Hn.
      pose proof (dval_z_bound lo' Hokl') as HL'. pose proof (len_ge0 lo') as Hlo0.
      assert (Hlen : len d = dp + (1 + len lo')).
      { rewrite Hsplit at 1. rewrite len_app', len_cons, Hhi. reflexivity. }
      assert (HN : dval_z d = n * (10 * 10 ^ len lo') + (c * 10 ^ len lo' + dval_z lo')).
      { rewrite Hsplit at 1. rewrite dval_z_app, dval_z_cons, len_cons, pow10_succ by lia. reflexivity. }
      rewrite (P10_nonpos (dp - len d)), (P10_nonneg (- (dp - len d))), Z.mul_1_r by lia.
      replace (- (dp - len d)) with (1 + len lo') by lia. rewrite pow10_succ by lia.
      rewrite HN. set (P := 10 ^ len lo') in *. set (L' := dval_z lo') in *.
      assert (HP : 0 < P) by (apply pow10_pos; lia).
      assert (Hn19 : 10 ^ dp <= 10 ^ 19) by (apply pow10_le; lia).
      symmetry. apply rne_div_unique; [lia|].
      destruct (Z.eqb_spec c 5) as [Ec|Nc]; destruct (Z.eqb_spec (dp + 1) (len d)) as [El|Nl]; cbn [andb].
      * (* exactly half: ties to even *)
        assert (lo' = []) by (apply len_0_nil; lia).
        assert (P = 1 /\ L' = 0) as [-> ->] by (subst P L'; rewrite H; split; reflexivity).
        assert (Hev : ((0 <? dp) && negb (nth (Z.to_nat (dp - 1)) d 0 mod 2 =? 0)) = negb (Z.even n)).
        { destruct (Z.ltb_spec 0 dp) as [Hp|Hz]; cbn [andb].
          - assert (Hj : (Z.to_nat (dp - 1) < length hi)%nat) by (unfold len in Hhi; lia).
            pose proof (split_nth hi (Z.to_nat (dp - 1)) Hj) as Hs2.
            rewrite skipn_all2 in Hs2 by (unfold len in Hhi; lia).
            assert (Ex : nth (Z.to_nat (dp - 1)) d 0 = nth (Z.to_nat (dp - 1)) hi 0).
            { rewrite Hsplit at 1. apply app_nth1. exact Hj. }
            rewrite Ex. unfold n. rewrite Hs2 at 2. rewrite dval_z_snoc, even_10, even_mod2. reflexivity.
          - assert (dp = 0) by lia. assert (hi = []) by (apply len_0_nil; lia).
            unfold n. rewrite H1. reflexivity. }
        rewrite Hev. right. destruct (Z.even n) eqn:En; cbn [negb].
        -- split; [lia|exact En].
        -- rewrite u64_small by lia. split; [lia|]. rewrite Z.even_add, En. reflexivity.
      * (* a 5 followed by a non-zero tail: above half *)
        assert (Hne : lo' <> []) by (intros E0; rewrite E0 in Hlen; change (len (@nil Z)) with 0 in Hlen; lia).
        assert (0 < L').
        { apply dval_z_last_pos; [exact Hokl'| |exact Hne].
          apply (trimmed_suffix (hi ++ [c]) lo' Hne). rewrite <- app_assoc. cbn [app]. rewrite <- Hsplit. exact Htrim. }
        destruct (Z.leb_spec 5 c) as [_|]; [|lia]. rewrite u64_small by lia. left. nia.
      * destruct (Z.leb_spec 5 c) as [H5|H5].
        -- rewrite u64_small by lia. left. nia.
        -- left. nia.
      * destruct (Z.leb_spec 5 c) as [H5|H5].
        -- rewrite u64_small by lia. left. nia.
        -- left. nia.
Qed.

(** satisfiable: 12.5 rounds to 12, 13.5 to 14, 0.05 to 0 *)
Example RoundedInteger_ex :
  let a := {| d_d := [1;2;5]; d_dp := 2; d_neg := false; d_trunc := false |} in
  (dec_wf a /\ dec_trimmed a /\ d_trunc a = false /\ d_dp a <= 19) /\ RoundedInteger_m a = 12
  /\ RoundedInteger_m {| d_d := [1;3;5]; d_dp := 2; d_neg := false; d_trunc := false |} = 14
  /\ RoundedInteger_m {| d_d := [5]; d_dp := -1; d_neg := false; d_trunc := false |} = 0.
Proof.
  cbv zeta. split; [|vm_compute; auto].
  split; [|split; [|split]]; [|vm_compute; discriminate|reflexivity|vm_compute; discriminate].
  split; [repeat constructor; lia|]. split; [vm_compute; discriminate|cbn; lia].
Qed.

(* ---------------------------------------------------------------- *)

(** * 3. floatBits with the truncation flag of the last decimal *)

Definition fb_out (T : fp_tables) (neg : bool) (mant exp : Z) (tr : bool) : option (Z * bool * bool) :=
  Some (assemble T neg mant exp, false, tr).

(** overflow exit of floatBits, with the flag *)
Definition fb_ovf (T : fp_tables) (neg : bool) (tr : bool) : option (Z * bool * bool) :=
  Some (assemble T neg 0 (2 ^ t_expbits T - 1 + t_bias T), true, tr).

(** rounding and assembly, [a] is the decimal after the last shift *)
Definition fb_final (T : fp_tables) (neg : bool) (a : decimal) (exp : Z) : option (Z * bool * bool) :=
  let mb := t_mantbits T in let eb := t_expbits T in let bias := t_bias T in
  let mant := RoundedInteger_m a in
  let '(mant, exp, ovf) :=
    if mant =? 2 * 2 ^ mb then (mant / 2, exp + 1, 2 ^ eb - 1 <=? exp + 1 - bias)
    else (mant, exp, false) in
  if ovf then fb_ovf T neg (d_trunc a) else
  let exp := if (mant / 2 ^ mb) mod 2 =? 0 then bias else exp in
  fb_out T neg mant exp (d_trunc a).

(** the code after the two normalisation loops *)
Definition fb_tail (T : fp_tables) (neg : bool) (a : decimal) (exp : Z) : option (Z * bool * bool) :=
  let mb := t_mantbits T in let eb := t_expbits T in let bias := t_bias T in
  let exp := exp - 1 in
  obind (if exp <? bias + 1
         then let n := bias + 1 - exp in obind (Shift_m T a (- n)) (fun a => Some (a, exp + n))
         else Some (a, exp)) (fun '(a, exp) =>
  if 2 ^ eb - 1 <=? exp - bias then fb_ovf T neg (d_trunc a) else
  obind (Shift_m T a (1 + mb)) (fun a => fb_final T neg a exp)).

(** [floatBits_m] returning in addition the [trunc] flag of the last decimal it held *)
Definition floatBits_tr (T : fp_tables) (a : decimal) : option (Z * bool * bool) :=
  let bias := t_bias T in
  if d_nd a =? 0 then fb_out T (d_neg a) 0 bias (d_trunc a)
  else if 310 <? d_dp a then fb_ovf T (d_neg a) (d_trunc a)
  else if d_dp a <? -330 then fb_out T (d_neg a) 0 bias (d_trunc a)
  else
    obind (fb_down T 400 a 0) (fun '(a1, exp) =>
    obind (fb_up T 400 a1 exp) (fun '(a2, exp) =>
    fb_tail T (d_neg a) a2 exp)).

(** forgetting the flag gives back the model *)
Lemma floatBits_tr_fst T a : floatBits_m T a = option_map fst (floatBits_tr T a).
Proof.
  unfold floatBits_m, floatBits_tr, fb_out, fb_ovf.
  destruct (d_nd a =? 0); [reflexivity|].
  destruct (310 <? d_dp a); [reflexivity|].
  destruct (d_dp a <? -330); [reflexivity|].
  destruct (fb_down T 400 a 0) as [[a1 e1]|]; cbn [obind option_map]; [|reflexivity].
  destruct (fb_up T 400 a1 e1) as [[a2 e2]|]; cbn [obind option_map]; [|reflexivity].
  unfold fb_tail.
  destruct (e2 - 1 <? t_bias T + 1).
  - destruct (Shift_m T a2 (- (t_bias T + 1 - (e2 - 1)))) as [a3|]; cbn [obind option_map]; [|reflexivity].
    destruct (2 ^ t_expbits T - 1 <=? e2 - 1 + (t_bias T + 1 - (e2 - 1)) - t_bias T); [reflexivity|].
    destruct (Shift_m T a3 (1 + t_mantbits T)) as [a4|]; cbn [obind option_map]; [|reflexivity].
    unfold fb_final, fb_out, fb_ovf.
    destruct (RoundedInteger_m a4 =? 2 * 2 ^ t_mantbits T).
    + destruct (2 ^ t_expbits T - 1 <=? e2 - 1 + (t_bias T + 1 - (e2 - 1)) + 1 - t_bias T); reflexivity.
    + reflexivity.
  - cbn [obind option_map].
    destruct (2 ^ t_expbits T - 1 <=? e2 - 1 - t_bias T); [reflexivity|].
    destruct (Shift_m T a2 (1 + t_mantbits T)) as [a4|]; cbn [obind option_map]; [|reflexivity].
    unfold fb_final, fb_out, fb_ovf.
    destruct (RoundedInteger_m a4 =? 2 * 2 ^ t_mantbits T).
    + destruct (2 ^ t_expbits T - 1 <=? e2 - 1 + 1 - t_bias T); reflexivity.
    + reflexivity.
Qed.

(** no shift of the run dropped a non-zero digit *)
Definition no_truncation (T : fp_tables) (a : decimal) : bool :=
  match floatBits_tr T a with Some (_, tr) => negb tr | None => false end.

(** no_truncation turns a result of floatBits_m into a result of floatBits_tr with a clear flag *)
Lemma no_truncation_spec T a b ovf :
  no_truncation T a = true -> floatBits_m T a = Some (b, ovf) -> floatBits_tr T a = Some (b, ovf, false).
Proof.
  unfold no_truncation. rewrite floatBits_tr_fst.
  destruct (floatBits_tr T a) as [[[b' o'] tr]|]; cbn [option_map fst]; [|discriminate].
  destruct tr; [discriminate|]. intros _ E. inversion E. reflexivity.
Qed.

(** ** the flag is sticky: once set, every later decimal has it set *)

Lemma rs_extra_sticky : forall fuel k n w out tr r,
  rs_extra fuel k n w out tr = Some r -> tr = true -> snd r = true.
Proof.
  induction fuel as [|f IH]; intros k n w out tr r H Ht; cbn [rs_extra] in H; destruct (n =? 0).
  - inversion H. subst. reflexivity.
  - discriminate.
  - inversion H. subst. reflexivity.
  - destruct (w <? dec_cap); eapply IH; try exact H; subst; reflexivity.
Qed.

(** sticky through rightShift *)
Lemma rightShift_sticky a k a' : rightShift_m a k = Some a' -> d_trunc a = true -> d_trunc a' = true.
Proof.
  unfold rightShift_m. intros H Ht.
  destruct (rs_pick (d_d a) k 0 0) as [[u|[[l r] n]]|]; cbn [obind] in H; [| |discriminate].
  - inversion H. subst. exact Ht.
  - destruct (rs_main l k n []) as [n' out].
    destruct (rs_extra 128 k n' (len out) out (d_trunc a)) as [[out' tr']|] eqn:E; cbn [obind] in H; [|discriminate].
    inversion H. subst. cbn [trim_rev d_trunc]. apply (rs_extra_sticky _ _ _ _ _ _ _ E Ht).
Qed.

(** sticky through the first loop of leftShift *)
Lemma ls_main_sticky : forall rd k n w out tr, tr = true -> snd (ls_main rd k n w out tr) = true.
Proof.
  induction rd as [|c rd IH]; intros k n w out tr Ht; cbn [ls_main]; [exact Ht|].
  destruct (w - 1 <? dec_cap); apply IH; subst; reflexivity.
Qed.

(** sticky through the second loop of leftShift *)
Lemma ls_extra_sticky : forall fuel n w out tr r,
  ls_extra fuel n w out tr = Some r -> tr = true -> snd r = true.
Proof.
  induction fuel as [|f IH]; intros n w out tr r H Ht; cbn [ls_extra] in H; destruct (0 <? n); cbn [negb] in H.
  - discriminate.
  - inversion H. subst. reflexivity.
  - destruct (w - 1 <? dec_cap); eapply IH; try exact H; subst; reflexivity.
  - inversion H. subst. reflexivity.
Qed.

(** sticky through leftShift *)
Lemma leftShift_sticky T a k a' : leftShift_m T a k = Some a' -> d_trunc a = true -> d_trunc a' = true.
Proof.
  unfold leftShift_m. intros H Ht.
  destruct (nth (Z.to_nat k) (t_leftcheats T) (0, 0, 0)) as [[delta0 cutoff] clen].
  set (delta := if prefixIsLessThan (d_d a) (digits_of (Z.to_nat clen) cutoff) then delta0 - 1 else delta0) in *.
  destruct (delta <? 0); [discriminate|].
  pose proof (ls_main_sticky (rev (d_d a)) k 0 (d_nd a + delta) [] (d_trunc a) Ht) as H1.
  destruct (ls_main (rev (d_d a)) k 0 (d_nd a + delta) [] (d_trunc a)) as [[[n w] out] tr1].
  cbn [snd] in H1.
  destruct (ls_extra 64 n w out tr1) as [[[w' out'] tr2]|] eqn:E; cbn [obind] in H; [|discriminate].
  pose proof (ls_extra_sticky _ _ _ _ _ _ E H1) as H2. cbn [snd] in H2.
  destruct (w' <? 0); [discriminate|]. inversion H. subst. cbn [trim_rev d_trunc]. reflexivity.
Qed.

(** sticky through the left-shift loop of Shift *)
Lemma shift_left_loop_sticky T : forall fuel a k a',
  shift_left_loop T fuel a k = Some a' -> d_trunc a = true -> d_trunc a' = true.
Proof.
  induction fuel as [|f IH]; intros a k a' H Ht; cbn [shift_left_loop] in H; destruct (maxShift <? k).
  - discriminate.
  - eapply leftShift_sticky; eauto.
  - destruct (leftShift_m T a maxShift) as [a1|] eqn:E; cbn [obind] in H; [|discriminate].
    eapply IH; [exact H|]. eapply leftShift_sticky; eauto.
  - eapply leftShift_sticky; eauto.
Qed.

(** sticky through the right-shift loop of Shift *)
Lemma shift_right_loop_sticky : forall fuel a k a',
  shift_right_loop fuel a k = Some a' -> d_trunc a = true -> d_trunc a' = true.
Proof.
  induction fuel as [|f IH]; intros a k a' H Ht; cbn [shift_right_loop] in H; destruct (k <? - maxShift).
  - discriminate.
  - eapply rightShift_sticky; eauto.
  - destruct (rightShift_m a maxShift) as [a1|] eqn:E; cbn [obind] in H; [|discriminate].
    eapply IH; [exact H|]. eapply rightShift_sticky; eauto.
  - eapply rightShift_sticky; eauto.
Qed.

(** Shift never clears the flag *)
Lemma Shift_sticky T a k a' : Shift_m T a k = Some a' -> d_trunc a = true -> d_trunc a' = true.
Proof.
  unfold Shift_m. intros H Ht.
  destruct (d_nd a =? 0); [inversion H; subst; exact Ht|].
  destruct (0 <? k); [eapply shift_left_loop_sticky; eauto|].
  destruct (k <? 0); [eapply shift_right_loop_sticky; eauto|].
  inversion H; subst; exact Ht.
Qed.

(** contrapositive: a clear flag after Shift was clear before *)
Lemma Shift_clear T a k a' : Shift_m T a k = Some a' -> d_trunc a' = false -> d_trunc a = false.
Proof.
  intros H Hf. destruct (d_trunc a) eqn:E; [|reflexivity].
  rewrite (Shift_sticky T a k a' H E) in Hf. discriminate.
Qed.

(** a clear flag after the first loop of floatBits was clear before *)
Lemma fb_down_clear T : forall fuel a e a' e',
  fb_down T fuel a e = Some (a', e') -> d_trunc a' = false -> d_trunc a = false.
Proof.
  induction fuel as [|f IH]; intros a e a' e' H Hf; cbn [fb_down] in H; destruct (0 <? d_dp a).
  - discriminate.
  - inversion H; subst; exact Hf.
  - destruct (Shift_m T a (- powtab_n T (d_dp a))) as [a1|] eqn:E; cbn [obind] in H; [|discriminate].
    eapply Shift_clear; [exact E|]. eapply IH; eauto.
  - inversion H; subst; exact Hf.
Qed.

(** a clear flag after the second loop of floatBits was clear before *)
Lemma fb_up_clear T : forall fuel a e a' e',
  fb_up T fuel a e = Some (a', e') -> d_trunc a' = false -> d_trunc a = false.
Proof.
  induction fuel as [|f IH]; intros a e a' e' H Hf; cbn [fb_up] in H;
    destruct ((d_dp a <? 0) || (d_dp a =? 0) && (dnth a 0 <? 5)).
  - discriminate.
  - inversion H; subst; exact Hf.
  - destruct (Shift_m T a (powtab_n T (- d_dp a))) as [a1|] eqn:E; cbn [obind] in H; [|discriminate].
    eapply Shift_clear; [exact E|]. eapply IH; eauto.
  - inversion H; subst; exact Hf.
Qed.

(** the flag returned by fb_final is that of its decimal *)
Lemma fb_final_flag T neg a e b ovf tr : fb_final T neg a e = Some (b, ovf, tr) -> tr = d_trunc a.
Proof.
  unfold fb_final, fb_out, fb_ovf. intros H.
  destruct (RoundedInteger_m a =? 2 * 2 ^ t_mantbits T).
  - destruct (2 ^ t_expbits T - 1 <=? e + 1 - t_bias T); inversion H; reflexivity.
  - inversion H; reflexivity.
Qed.

(* ---------------------------------------------------------------- *)

(** * 4. floatBits is round_ne *)

(** ** value bounds of a well-formed decimal: 10^(dp-1) <= value < 10^dp *)

Lemma dec_den_pos a : 0 < snd (dec_frac a).
Proof. unfold dec_frac. cbn [snd]. apply P10_pos. Qed.

(** the zero decimal has numerator 0 *)
Lemma dec_num_nil a : d_d a = [] -> fst (dec_frac a) = 0.
Proof. intros H. unfold dec_frac. cbn [fst]. rewrite H, dval_z_nil. apply Z.mul_0_l. Qed.

(** a non-empty well-formed decimal is positive *)
Lemma dec_num_pos a : dec_wf a -> d_d a <> [] -> 0 < fst (dec_frac a).
Proof.
  intros (Hok & _ & Hlead) Hne. unfold dec_frac. cbn [fst].
  destruct (d_d a) as [|c l] eqn:E; [contradiction|].
  pose proof (dval_z_lower c l Hok Hlead). pose proof (pow10_pos (len l) (len_ge0 l)).
  pose proof (P10_pos (d_dp a - len (c :: l))). nia.
Qed.

(** 10^c <= value when c <= dp - 1 *)
Lemma dec_lower a c : dec_wf a -> d_d a <> [] -> 0 <= c <= d_dp a - 1 ->
  10 ^ c * snd (dec_frac a) <= fst (dec_frac a).
Proof.
  intros (Hok & _ & Hlead) Hne Hc. unfold dec_frac. cbn [fst snd].
  destruct (d_d a) as [|x l] eqn:E; [contradiction|].
  pose proof (dval_z_lower x l Hok Hlead) as HV. pose proof (len_ge0 l) as Hl. rewrite len_cons.
  set (V := dval_z (x :: l)) in *. set (dp := d_dp a) in *.
  destruct (Z_le_gt_dec 0 (dp - (1 + len l))) as [Hk|Hk].
  - rewrite (P10_nonneg (dp - (1 + len l))), (P10_nonpos (- (dp - (1 + len l)))) by lia. rewrite Z.mul_1_r.
    assert (10 ^ c <= 10 ^ (len l + (dp - (1 + len l)))) by (apply pow10_le; lia).
    rewrite Z.pow_add_r in H by lia. pose proof (pow10_pos (dp - (1 + len l)) Hk). nia.
  - rewrite (P10_nonpos (dp - (1 + len l))), (P10_nonneg (- (dp - (1 + len l)))) by lia. rewrite Z.mul_1_r.
    rewrite <- Z.pow_add_r by lia. assert (10 ^ (c + - (dp - (1 + len l))) <= 10 ^ len l) by (apply pow10_le; lia).
    lia.
Qed.

(** value < 10^-c when dp <= -c *)
Lemma dec_upper a c : dec_wf a -> 0 <= c -> d_dp a <= - c ->
  fst (dec_frac a) * 10 ^ c < snd (dec_frac a).
Proof.
  intros (Hok & _ & _) Hc Hdp. unfold dec_frac. cbn [fst snd].
  pose proof (dval_z_bound _ Hok) as HV. pose proof (len_ge0 (d_d a)) as Hl.
  set (V := dval_z (d_d a)) in *. set (nd := len (d_d a)) in *.
  rewrite (P10_nonpos (d_dp a - nd)), (P10_nonneg (- (d_dp a - nd))) by lia. rewrite Z.mul_1_r.
  assert (10 ^ (nd + c) <= 10 ^ (- (d_dp a - nd))) by (apply pow10_le; lia).
  rewrite Z.pow_add_r in H by lia. pose proof (pow10_pos c Hc). nia.
Qed.

(** with dp = 0 the leading digit decides on which side of 1/2 the value lies *)
Lemma dec_half a : dec_wf a -> d_d a <> [] -> d_dp a = 0 ->
  (dnth a 0 < 5 -> 2 * fst (dec_frac a) < snd (dec_frac a)) /\
  (5 <= dnth a 0 -> snd (dec_frac a) <= 2 * fst (dec_frac a)).
Proof.
  intros (Hok & _ & _) Hne Hdp. unfold dec_frac, dnth. cbn [fst snd]. rewrite Hdp.
  destruct (d_d a) as [|x l] eqn:E; [contradiction|]. change (nth (Z.to_nat 0) (x :: l) 0) with x.
  destruct (digs_ok_inv _ _ Hok) as [Hx Hl]. pose proof (dval_z_bound l Hl) as HV. pose proof (len_ge0 l) as Hl0.
  rewrite dval_z_cons, len_cons.
  rewrite (P10_nonpos (0 - (1 + len l))), (P10_nonneg (- (0 - (1 + len l)))) by lia. rewrite Z.mul_1_r.
  replace (- (0 - (1 + len l))) with (1 + len l) by lia. rewrite pow10_succ by lia.
  pose proof (pow10_pos (len l) Hl0). split; intros; nia.
Qed.

(** ** value a0 = value a * 2^e, cross-multiplied *)
Definition vrel (a0 a : decimal) (e : Z) : Prop :=
  fst (dec_frac a0) * snd (dec_frac a) * P2 (- e) = fst (dec_frac a) * P2 e * snd (dec_frac a0).

(** vrel is reflexive at exponent 0 *)
Lemma vrel_refl a : vrel a a 0.
Proof. unfold vrel. change (P2 (- 0)) with 1. change (P2 0) with 1. ring. Qed.

(** one more exact shift by k: the exponent decreases by k *)
Lemma vrel_step a0 a a' e k : vrel a0 a e -> shift_val a a' k -> vrel a0 a' (e - k).
Proof.
  unfold vrel, shift_val. intros H1 H2.
  pose proof (dec_den_pos a) as HD. pose proof (P2_pos (- e)) as Hp'. pose proof (P2_pos (- k)) as Hq'.
  pose proof (P2_add (e - k) k) as HA. replace (e - k + k) with e in HA by lia.
  set (N0 := fst (dec_frac a0)) in *. set (D0 := snd (dec_frac a0)) in *.
  set (N := fst (dec_frac a)) in *. set (D := snd (dec_frac a)) in *.
  set (N' := fst (dec_frac a')) in *. set (D' := snd (dec_frac a')) in *.
  set (p := P2 e) in *. set (p' := P2 (- e)) in *. set (q := P2 k) in *. set (q' := P2 (- k)) in *.
  set (r := P2 (e - k)) in *. set (r' := P2 (- (e - k))) in *.
  apply Z.mul_reg_r with (D * p' * q'); [nia|].
  replace (N0 * D' * r' * (D * p' * q')) with ((N0 * D * p') * D' * r' * q') by ring.
  replace (N' * r * D0 * (D * p' * q')) with ((N' * D * q') * r * D0 * p') by ring.
  rewrite H1, H2.
  replace (N * p * D0 * D' * r' * q') with (N * D0 * D' * (p * r' * q')) by ring.
  rewrite HA. ring.
Qed.

(** ** shift amounts *)
Lemma powtab_n_spec T i : tables_ok T -> 0 <= i ->
  1 <= powtab_n T i /\ (i = 0 -> powtab_n T i = 1) /\ (1 <= i -> 2 ^ powtab_n T i <= 10 ^ i).
Proof.
  intros HT Hi. unfold powtab_n. rewrite (tf_ptlen T (tables_ok_facts T HT)).
  destruct (Z.leb_spec 9 i) as [H9|H9].
  - split; [lia|]. split; [lia|]. intros _. assert (10 ^ 9 <= 10 ^ i) by (apply pow10_le; lia).
    assert (2 ^ 27 <= 10 ^ 9) by (vm_compute; discriminate). lia.
  - pose proof (powtab_spec T i HT ltac:(lia)) as H. cbv zeta in H.
    set (p := nth (Z.to_nat i) (t_powtab T) 0) in *.
    destruct (Z.eqb_spec i 0) as [E0|N0].
    + split; [lia|]. split; [intros _; exact H|lia].
    + assert (1 <= p).
      { destruct (Z_le_gt_dec 1 p) as [|G]; [assumption|exfalso].
        assert (10 ^ 1 <= 10 ^ i) by (apply pow10_le; lia). change (10 ^ 1) with 10 in *.
        destruct (Z.eq_dec p 0) as [E|E]; [rewrite E in H; change (2 ^ (0 + 1)) with 2 in H; lia|].
        destruct (Z.eq_dec (p + 1) 0) as [E1|E1].
        - rewrite E1 in H. change (2 ^ 0) with 1 in H. lia.
        - rewrite (Z.pow_neg_r 2 (p + 1)) in H by lia. lia. }
      split; [assumption|]. split; [lia|intros _; lia].
Qed.

(** ** the two normalisation loops *)

Lemma fb_down_inv T (HT : tables_ok T) (HS : Shift_exact_nz_stmt T) a0 : forall fuel a e a' e',
  fb_down T fuel a e = Some (a', e') -> d_trunc a' = false ->
  dec_wf a -> d_d a <> [] -> vrel a0 a e ->
  dec_wf a' /\ d_d a' <> [] /\ vrel a0 a' e' /\ d_dp a' <= 0.
Proof.
  induction fuel as [|f IH]; intros a e a' e' H Hf Hwf Hne Hv; cbn [fb_down] in H;
    destruct (Z.ltb_spec 0 (d_dp a)) as [Hdp|Hdp].
  - discriminate.
  - inversion H; subst. auto.
  - destruct (Shift_m T a (- powtab_n T (d_dp a))) as [a1|] eqn:E; cbn [obind] in H; [|discriminate].
    pose proof (fb_down_clear T _ _ _ _ _ H Hf) as Hf1.
    destruct (powtab_n_spec T (d_dp a) HT ltac:(lia)) as (Hn0 & _).
    destruct (HS a (- powtab_n T (d_dp a)) a1 ltac:(lia) Hwf Hne E Hf1) as (_ & Hwf1 & _ & Hne1 & _ & Hsv).
    apply (IH a1 (e + powtab_n T (d_dp a)) a' e' H Hf Hwf1 Hne1).
    replace (e + powtab_n T (d_dp a)) with (e - - powtab_n T (d_dp a)) by lia.
    eapply vrel_step; eauto.
  - inversion H; subst. auto.
Qed.

(** second loop: same invariant, the value stays below 1, exit with 1/2 <= value < 1 *)
Lemma fb_up_inv T (HT : tables_ok T) (HS : Shift_exact_nz_stmt T) a0 : forall fuel a e a' e',
  fb_up T fuel a e = Some (a', e') -> d_trunc a' = false ->
  dec_wf a -> d_d a <> [] -> d_dp a <= 0 -> vrel a0 a e ->
  dec_wf a' /\ d_d a' <> [] /\ vrel a0 a' e' /\ d_dp a' = 0 /\ 5 <= dnth a' 0.
Proof.
  induction fuel as [|f IH]; intros a e a' e' H Hf Hwf Hne Hdp Hv; cbn [fb_up] in H;
    destruct ((d_dp a <? 0) || (d_dp a =? 0) && (dnth a 0 <? 5)) eqn:C.
  - discriminate.
  - inversion H; subst. apply orb_false_iff in C as [C1 C2]. apply Z.ltb_ge in C1.
    assert (Ez : d_dp a' = 0) by lia. rewrite Ez in C2. change (0 =? 0) with true in C2. cbn [andb] in C2.
    apply Z.ltb_ge in C2. auto.
  - destruct (Shift_m T a (powtab_n T (- d_dp a))) as [a1|] eqn:E; cbn [obind] in H; [|discriminate].
    pose proof (fb_up_clear T _ _ _ _ _ H Hf) as Hf1.
    destruct (powtab_n_spec T (- d_dp a) HT ltac:(lia)) as (Hn0 & Hn1 & Hn2).
    destruct (HS a (powtab_n T (- d_dp a)) a1 ltac:(lia) Hwf Hne E Hf1) as (_ & Hwf1 & _ & Hne1 & _ & Hsv).
    assert (Hdp1 : d_dp a1 <= 0).
    { destruct (Z_le_gt_dec (d_dp a1) 0) as [|G]; [assumption|exfalso].
      pose proof (dec_lower a1 0 Hwf1 Hne1 ltac:(lia)) as HL. change (10 ^ 0) with 1 in HL.
      unfold shift_val in Hsv. set (n := powtab_n T (- d_dp a)) in *.
      rewrite (P2_nonpos (- n)), (P2_nonneg n) in Hsv by lia.
      pose proof (dec_den_pos a) as HD. pose proof (dec_den_pos a1) as HD1.
      pose proof (dec_num_pos a Hwf Hne) as HN.
      set (N := fst (dec_frac a)) in *. set (D := snd (dec_frac a)) in *.
      set (N1 := fst (dec_frac a1)) in *. set (D1 := snd (dec_frac a1)) in *.
      assert (HK : N * 2 ^ n < D).
      { apply orb_true_iff in C as [C|C].
        - apply Z.ltb_lt in C. pose proof (dec_upper a (- d_dp a) Hwf ltac:(lia) ltac:(lia)) as HU.
          fold N D in HU. specialize (Hn2 ltac:(lia)). nia.
        - apply andb_true_iff in C as [C1 C2]. apply Z.eqb_eq in C1. apply Z.ltb_lt in C2.
          destruct (dec_half a Hwf Hne C1) as [HH _]. specialize (HH C2). fold N D in HH.
          rewrite Hn1 by lia. change (2 ^ 1) with 2. lia. }
      nia. }
    apply (IH a1 (e - powtab_n T (- d_dp a)) a' e' H Hf Hwf1 Hne1 Hdp1).
    eapply vrel_step; eauto.
  - inversion H; subst. apply orb_false_iff in C as [C1 C2]. apply Z.ltb_ge in C1.
    assert (Ez : d_dp a' = 0) by lia. rewrite Ez in C2. change (0 =? 0) with true in C2. cbn [andb] in C2.
    apply Z.ltb_ge in C2. auto.
Qed.

(** a value in [1/2, 1) times 2^e2 has binary order of magnitude e2 - 1 *)
Lemma ilog2_from_half N0 D0 N2 D2 e2 :
  0 < N0 -> 0 < D0 -> 0 < N2 -> 0 < D2 ->
  N0 * D2 * P2 (- e2) = N2 * P2 e2 * D0 -> D2 <= 2 * N2 -> N2 < D2 ->
  is_ilog2 N0 D0 (e2 - 1).
Proof.
  intros HN0 HD0 HN2 HD2 H Hlo Hhi. unfold is_ilog2.
  pose proof (P2_succ (e2 - 1)) as HS. replace (e2 - 1 + 1) with e2 in HS by lia.
  pose proof (P2_pos e2). pose proof (P2_pos (- e2)). pose proof (P2_pos (e2 - 1)). pose proof (P2_pos (- (e2 - 1))).
  set (A := P2 e2) in *. set (A' := P2 (- e2)) in *. set (B := P2 (e2 - 1)) in *. set (B' := P2 (- (e2 - 1))) in *.
  assert (K : N0 * B' * D2 = 2 * N2 * D0 * B).
  { apply Z.mul_reg_r with A'; [lia|].
    replace (N0 * B' * D2 * A') with ((N0 * D2 * A') * B') by ring. rewrite H.
    replace (N2 * A * D0 * B') with (N2 * D0 * (A * B')) by ring. rewrite HS. ring. }
  assert (0 < D0 * B) by nia.
  split.
  - apply Z.mul_le_mono_pos_r with D2; [lia|]. rewrite K. nia.
  - apply Z.mul_lt_mono_pos_r with D2; [lia|]. rewrite K. nia.
Qed.

(* ---------------------------------------------------------------- *)

(** injectivity of Some of a triple, without reducing the components *)
Lemma some3_inj {A B C} (x x' : A) (y y' : B) (z z' : C) :
  Some (x, y, z) = Some (x', y', z') -> x' = x /\ y' = y /\ z' = z.
Proof. intros H. inversion H. auto. Qed.

(** ** round_ne on positive inputs, and its two saturations *)

Definition sgn (neg : bool) : Z := if neg then sign_bit else 0.

(** round_ne on a positive numerator *)
Lemma round_ne_pos neg N D : 0 < N ->
  round_ne neg N D = if inf_bits <=? round_pos N D then (sgn neg + inf_bits, true)
                     else (sgn neg + round_pos N D, false).
Proof. intros H. unfold round_ne, sgn. destruct (Z.leb_spec N 0); [lia|reflexivity]. Qed.

(** round_ne of zero *)
Lemma round_ne_zero neg D : round_ne neg 0 D = (sgn neg, false).
Proof. reflexivity. Qed.

(** 10^310 rounds at or above the pattern of +Inf *)
Lemma round_pos_1e310 : inf_bits <= round_pos (10 ^ 310) 1.
Proof. apply Z.leb_le. vm_compute. reflexivity. Qed.

(** 10^-330 rounds to pattern 0 *)
Lemma round_pos_1em330 : round_pos 1 (10 ^ 330) = 0.
Proof. vm_compute. reflexivity. Qed.

(** values of at least 10^310 overflow *)
Lemma round_ne_big neg N D : 0 < N -> 0 < D -> 10 ^ 310 * D <= N ->
  round_ne neg N D = (sgn neg + inf_bits, true).
Proof.
  intros HN HD H. rewrite round_ne_pos by assumption.
  pose proof round_pos_1e310 as H1.
  assert (P : 0 < 10 ^ 310) by (apply pow10_pos; lia).
  pose proof (round_pos_mono (10 ^ 310) 1 N D P ltac:(lia) HN HD ltac:(lia)) as H2.
  destruct (Z.leb_spec inf_bits (round_pos N D)); [reflexivity|lia].
Qed.

(** values of at most 10^-330 round to zero *)
Lemma round_ne_tiny neg N D : 0 < N -> 0 < D -> N * 10 ^ 330 <= D ->
  round_ne neg N D = (sgn neg, false).
Proof.
  intros HN HD H. rewrite round_ne_pos by assumption.
  assert (P : 0 < 10 ^ 330) by (apply pow10_pos; lia).
  pose proof (round_pos_mono N D 1 (10 ^ 330) HN HD ltac:(lia) P ltac:(lia)) as H2.
  rewrite round_pos_1em330 in H2. pose proof (round_pos_nonneg N D HN HD) as H3.
  assert (E : round_pos N D = 0) by lia. rewrite E.
  change (inf_bits <=? 0) with false. cbv iota. rewrite Z.add_0_r. reflexivity.
Qed.

(** ** assembling the bits *)
Lemma assemble_val T neg mant exp : tables_ok T -> 0 <= exp + 1023 < 2048 ->
  assemble T neg mant exp = mant mod two52 + (exp + 1023) * two52 + sgn neg.
Proof.
  intros HT He. destruct (tables_ok_facts T HT) as [_ _ _ _ _ _ _ _ _ Hmb Heb Hbias].
  unfold assemble. rewrite Hmb, Heb, Hbias.
  change (2 ^ 52) with two52. change (2 ^ 11) with 2048.
  replace (exp - -1023) with (exp + 1023) by lia. rewrite (Z.mod_small (exp + 1023)) by lia.
  rewrite u64_small by (unfold two52, two64; lia).
  unfold sgn. destruct neg; [|reflexivity]. f_equal.
Qed.

Ltac zc := unfold inf_bits, two52, two53 in *; lia.

(** ** rounding and assembly *)
Lemma fb_final_ok T neg a E N0 D0 e b ovf tr :
  tables_ok T -> 0 < N0 -> 0 < D0 -> is_ilog2 N0 D0 e -> E = Z.max e (-1022) -> E <= 1023 ->
  dec_wf a -> dec_trimmed a -> d_trunc a = false ->
  fst (dec_frac a) * (D0 * P2 (E - 52)) = (N0 * P2 (52 - E)) * snd (dec_frac a) ->
  fb_final T neg a E = Some (b, ovf, tr) -> (b, ovf) = round_ne neg N0 D0.
Proof.
  intros HT HN0 HD0 Hlog HE HE1 Hwf Htrim Htr Heq H.
  destruct (scaled_bounds N0 D0 e HN0 HD0 Hlog) as (Hd & Hn & Hu & Hnorm & Hsub).
  cbv zeta in Hd, Hn, Hu, Hnorm, Hsub. rewrite <- HE in *.
  set (n := N0 * P2 (52 - E)) in *. set (d := D0 * P2 (E - 52)) in *.
  pose proof (dec_den_pos a) as HD4.
  set (N4 := fst (dec_frac a)) in *. set (D4 := snd (dec_frac a)) in *.
  assert (HN4 : 0 < N4) by nia.
  assert (Hne : d_d a <> []).
  { intros E0. pose proof (dec_num_nil a E0) as Z0. fold N4 in Z0. lia. }
  assert (Hlt : N4 < two53 * D4).
  { apply Z.mul_lt_mono_pos_r with d; [lia|]. rewrite Heq. nia. }
  assert (Hdp : d_dp a <= 19).
  { destruct (Z_le_gt_dec (d_dp a) 19) as [|G]; [assumption|exfalso].
    pose proof (dec_lower a 19 Hwf Hne ltac:(lia)) as HL. fold N4 D4 in HL.
    assert (two53 < 10 ^ 19) by (vm_compute; reflexivity). nia. }
  pose proof (RoundedInteger_spec a Hwf Htrim Htr Hdp) as HR. fold N4 D4 in HR.
  rewrite (rne_div_frac_eq N4 D4 n d HD4 Hd Heq) in HR.
  pose proof (rne_div_spec n d Hd) as Hrne.
  assert (HM : 0 <= rne_div n d <= two53) by (apply rne_div_bounds; [assumption|lia]).
  assert (HMn : -1022 <= e -> two52 <= rne_div n d).
  { intros G. apply (rne_div_bounds n d two52 two53 Hd). split; [auto|lia]. }
  assert (HMs : e < -1022 -> rne_div n d <= two52).
  { intros G. apply (rne_div_bounds n d 0 two52 Hd). specialize (Hsub G). lia. }
  set (M := rne_div n d) in *.
  assert (Hrp : round_pos N0 D0 = (E + 1022) * two52 + M).
  { rewrite HE. apply (round_pos_eq N0 D0 e M HN0 HD0 Hlog). cbv zeta. rewrite <- HE. exact Hrne. }
  rewrite round_ne_pos, Hrp by assumption.
  assert (HEl : -1022 <= E) by lia.
  destruct (tables_ok_facts T HT) as [_ _ _ _ _ _ _ _ _ Hmb Heb Hbias].
  unfold fb_final in H. rewrite HR, Hmb, Heb, Hbias in H.
  change (2 * 2 ^ 52) with two53 in H. change (2 ^ 52) with two52 in H. change (2 ^ 11 - 1) with 2047 in H.
  assert (T52 : two53 = 2 * two52) by reflexivity.
  assert (I52 : inf_bits = 2047 * two52) by reflexivity.
  assert (P52 : 0 < two52) by (unfold two52; lia).
  destruct (Z.eqb_spec M two53) as [EM|NM].
  - (* mantissa carry *)
    destruct (Z.leb_spec 2047 (E + 1 - -1023)) as [Ho|Ho].
    + assert (E1023 : E = 1023) by lia. clear HE. subst E.
      unfold fb_ovf in H. rewrite Heb, Hbias in H. change (2 ^ 11 - 1 + -1023) with 1024 in H.
      rewrite (assemble_val T neg 0 1024 HT ltac:(lia)) in H. apply some3_inj in H as (Hb & Hov & Htr'); subst b ovf tr.
      destruct (Z.leb_spec inf_bits ((1023 + 1022) * two52 + M)) as [_|]; [|zc].
      f_equal. rewrite Z.mod_0_l by zc. zc.
    + assert (Hq : M / 2 / two52 = 1).
      { rewrite EM. reflexivity. }
      rewrite Hq in H. change (1 mod 2 =? 0) with false in H. cbv iota in H.
      unfold fb_out in H. rewrite (assemble_val T neg (M / 2) (E + 1) HT ltac:(lia)) in H.
      apply some3_inj in H as (Hb & Hov & Htr'); subst b ovf tr.
      destruct (Z.leb_spec inf_bits ((E + 1022) * two52 + M)) as [|_]; [zc|].
      f_equal. rewrite EM. change (two53 / 2 mod two52) with 0. zc.
  - assert (HM2 : M < two53) by lia.
    destruct (Z_lt_le_dec M two52) as [Hs|Hnm].
    + (* denormal *)
      assert (Em : E = -1022) by lia. clear HE. subst E.
      rewrite (Z.div_small M two52) in H by lia. change (0 mod 2 =? 0) with true in H. cbv iota in H.
      unfold fb_out in H. rewrite (assemble_val T neg M (-1023) HT ltac:(lia)) in H.
      apply some3_inj in H as (Hb & Hov & Htr'); subst b ovf tr.
      destruct (Z.leb_spec inf_bits ((-1022 + 1022) * two52 + M)) as [|_]; [zc|].
      f_equal. rewrite Z.mod_small by lia. zc.
    + (* normal *)
      assert (Hq : M / two52 = 1) by (symmetry; apply (Z.div_unique M two52 1 (M - two52)); lia).
      assert (Hr : M mod two52 = M - two52) by (symmetry; apply (Z.mod_unique M two52 1 (M - two52)); lia).
      rewrite Hq in H. change (1 mod 2 =? 0) with false in H. cbv iota in H.
      unfold fb_out in H. rewrite (assemble_val T neg M E HT ltac:(lia)) in H.
      apply some3_inj in H as (Hb & Hov & Htr'); subst b ovf tr.
      destruct (Z.leb_spec inf_bits ((E + 1022) * two52 + M)) as [|_]; [zc|].
      f_equal. rewrite Hr. zc.
Qed.

(** ** the code after the loops *)
Lemma fb_tail_ok T neg a0 a2 e2 b ovf :
  tables_ok T -> Shift_exact_nz_stmt T ->
  dec_wf a0 -> d_d a0 <> [] ->
  dec_wf a2 -> d_d a2 <> [] -> d_dp a2 = 0 -> 5 <= dnth a2 0 -> vrel a0 a2 e2 ->
  fb_tail T neg a2 e2 = Some (b, ovf, false) ->
  (b, ovf) = round_ne neg (fst (dec_frac a0)) (snd (dec_frac a0)).
Proof.
  intros HT HS Hwf0 Hne0 Hwf2 Hne2 Hdp2 Hd5 Hv H.
  pose proof (dec_num_pos a0 Hwf0 Hne0) as HN0. pose proof (dec_den_pos a0) as HD0.
  pose proof (dec_num_pos a2 Hwf2 Hne2) as HN2. pose proof (dec_den_pos a2) as HD2.
  destruct (dec_half a2 Hwf2 Hne2 Hdp2) as [_ Hhalf]. specialize (Hhalf Hd5).
  pose proof (dec_upper a2 0 Hwf2 ltac:(lia) ltac:(lia)) as Hone. change (10 ^ 0) with 1 in Hone.
  rewrite Z.mul_1_r in Hone.
  pose proof (ilog2_from_half _ _ _ _ e2 HN0 HD0 HN2 HD2 Hv Hhalf Hone) as Hlog.
  set (N0 := fst (dec_frac a0)) in *. set (D0 := snd (dec_frac a0)) in *.
  set (e := e2 - 1) in *.
  destruct (tables_ok_facts T HT) as [_ _ _ _ _ _ _ _ _ Hmb Heb Hbias].
  unfold fb_tail in H. rewrite Hmb, Heb, Hbias in H. fold e in H.
  change (-1023 + 1) with (-1022) in H. change (2 ^ 11 - 1) with 2047 in H. change (1 + 52) with 53 in H.
  destruct (Z.ltb_spec e (-1022)) as [Hsub|Hnorm].
  - (* subnormal: one more right shift *)
    destruct (Shift_m T a2 (- (-1022 - e))) as [a3|] eqn:E3; cbn [obind] in H; [|discriminate].
    replace (e + (-1022 - e)) with (-1022) in H by lia.
    destruct (Z.leb_spec 2047 (-1022 - -1023)) as [|_]; [lia|].
    destruct (Shift_m T a3 53) as [a4|] eqn:E4; cbn [obind] in H; [|discriminate].
    pose proof (fb_final_flag _ _ _ _ _ _ _ H) as Hf4. symmetry in Hf4.
    pose proof (Shift_clear _ _ _ _ E4 Hf4) as Hf3.
    destruct (HS a2 (- (-1022 - e)) a3 ltac:(lia) Hwf2 Hne2 E3 Hf3) as (_ & Hwf3 & _ & Hne3 & _ & Hsv3).
    destruct (HS a3 53 a4 ltac:(lia) Hwf3 Hne3 E4 Hf4) as (_ & Hwf4 & Htrim4 & Hne4 & _ & Hsv4).
    pose proof (vrel_step _ _ _ _ _ (vrel_step _ _ _ _ _ Hv Hsv3) Hsv4) as Hv4.
    replace (e2 - - (-1022 - e) - 53) with (-1022 - 52) in Hv4 by lia.
    apply (fb_final_ok T neg a4 (-1022) N0 D0 e b ovf false HT HN0 HD0 Hlog ltac:(lia) ltac:(lia) Hwf4 Htrim4 Hf4);
      [|exact H].
    unfold vrel in Hv4. fold N0 D0 in Hv4. replace (- (-1022 - 52)) with (52 - -1022) in Hv4 by lia. lia.
  - cbn [obind] in H.
    destruct (Z.leb_spec 2047 (e - -1023)) as [Ho|Ho].
    + (* at least 2^1024 *)
      unfold fb_ovf in H. rewrite Heb, Hbias in H. change (2 ^ 11 - 1 + -1023) with 1024 in H.
      rewrite (assemble_val T neg 0 1024 HT ltac:(lia)) in H. apply some3_inj in H as (Hb & Hov & _); subst b ovf.
      rewrite round_ne_pos by assumption.
      destruct (round_pos_mant N0 D0 HN0 HD0) as (Hb & _ & Hn & _). cbv zeta in Hb, Hn.
      unfold binade in Hb, Hn.
      rewrite (ilog2_unique N0 D0 _ e HN0 HD0 (ilog2_spec N0 D0 HN0 HD0) Hlog) in Hb, Hn.
      specialize (Hn ltac:(lia)). rewrite Z.max_l in Hb, Hn by lia.
      assert (I52 : inf_bits = 2047 * two52) by reflexivity.
      assert (P52 : 0 < two52) by (unfold two52; lia).
      destruct (Z.leb_spec inf_bits (round_pos N0 D0)) as [_|]; [|rewrite Hb in *; zc].
      f_equal. rewrite Z.mod_0_l by zc. zc.
    + destruct (Shift_m T a2 53) as [a4|] eqn:E4; cbn [obind] in H; [|discriminate].
      pose proof (fb_final_flag _ _ _ _ _ _ _ H) as Hf4. symmetry in Hf4.
      destruct (HS a2 53 a4 ltac:(lia) Hwf2 Hne2 E4 Hf4) as (_ & Hwf4 & Htrim4 & Hne4 & _ & Hsv4).
      pose proof (vrel_step _ _ _ _ _ Hv Hsv4) as Hv4.
      replace (e2 - 53) with (e - 52) in Hv4 by lia.
      apply (fb_final_ok T neg a4 e N0 D0 e b ovf false HT HN0 HD0 Hlog ltac:(lia) ltac:(lia) Hwf4 Htrim4 Hf4);
        [|exact H].
      unfold vrel in Hv4. fold N0 D0 in Hv4. replace (- (e - 52)) with (52 - e) in Hv4 by lia. lia.
Qed.

(** a clear flag at the end of fb_tail was clear at its start *)
Lemma fb_tail_clear T neg a e b ovf : fb_tail T neg a e = Some (b, ovf, false) -> d_trunc a = false.
Proof.
  unfold fb_tail. intros H.
  destruct (e - 1 <? t_bias T + 1).
  - destruct (Shift_m T a (- (t_bias T + 1 - (e - 1)))) as [a3|] eqn:E3; cbn [obind] in H; [|discriminate].
    apply (Shift_clear _ _ _ _ E3).
    destruct (2 ^ t_expbits T - 1 <=? e - 1 + (t_bias T + 1 - (e - 1)) - t_bias T).
    + unfold fb_ovf in H. apply some3_inj in H as (_ & _ & Htr). symmetry. exact Htr.
    + destruct (Shift_m T a3 (1 + t_mantbits T)) as [a4|] eqn:E4; cbn [obind] in H; [|discriminate].
      apply (Shift_clear _ _ _ _ E4). symmetry. eapply fb_final_flag; eauto.
  - cbn [obind] in H.
    destruct (2 ^ t_expbits T - 1 <=? e - 1 - t_bias T).
    + unfold fb_ovf in H. apply some3_inj in H as (_ & _ & Htr). symmetry. exact Htr.
    + destruct (Shift_m T a (1 + t_mantbits T)) as [a4|] eqn:E4; cbn [obind] in H; [|discriminate].
      apply (Shift_clear _ _ _ _ E4). symmetry. eapply fb_final_flag; eauto.
Qed.

(** the flag-returning floatBits computes round_ne whenever its final flag is clear *)
Theorem floatBits_tr_exact : forall T, tables_ok T -> Shift_exact_nz_stmt T ->
  forall a b ovf, dec_wf a -> floatBits_tr T a = Some (b, ovf, false) ->
  (b, ovf) = round_ne (d_neg a) (fst (dec_frac a)) (snd (dec_frac a)).
Proof.
  intros T HT HS a b ovf Hwf H.
  destruct (tables_ok_facts T HT) as [_ _ _ _ _ _ _ _ _ Hmb Heb Hbias].
  unfold floatBits_tr in H. unfold d_nd in H.
  destruct (Z.eqb_spec (len (d_d a)) 0) as [Hz|Hnz].
  - (* zero *)
    apply len_0_nil in Hz. rewrite (dec_num_nil a Hz), round_ne_zero.
    unfold fb_out in H. rewrite Hbias, (assemble_val T _ 0 (-1023) HT ltac:(lia)) in H.
    apply some3_inj in H as (Hb & Hov & _); subst b ovf. f_equal; try (rewrite Z.mod_0_l by (unfold two52; lia); zc).
  - assert (Hne : d_d a <> []) by (intros E0; rewrite E0 in Hnz; apply Hnz; reflexivity).
    pose proof (dec_num_pos a Hwf Hne) as HN. pose proof (dec_den_pos a) as HD.
    destruct (Z.ltb_spec 310 (d_dp a)) as [Hbig|Hbig].
    + (* at least 10^310 *)
      rewrite (round_ne_big _ _ _ HN HD (dec_lower a 310 Hwf Hne ltac:(lia))).
      unfold fb_ovf in H. rewrite Heb, Hbias in H. change (2 ^ 11 - 1 + -1023) with 1024 in H.
      rewrite (assemble_val T _ 0 1024 HT ltac:(lia)) in H.
      apply some3_inj in H as (Hb & Hov & _); subst b ovf. f_equal; try (rewrite Z.mod_0_l by (unfold two52; lia); zc).
    + destruct (Z.ltb_spec (d_dp a) (-330)) as [Hsm|Hsm].
      * (* below 10^-330 *)
        pose proof (dec_upper a 330 Hwf ltac:(lia) ltac:(lia)) as HU.
        rewrite (round_ne_tiny _ _ _ HN HD ltac:(lia)).
        unfold fb_out in H. rewrite Hbias, (assemble_val T _ 0 (-1023) HT ltac:(lia)) in H.
        apply some3_inj in H as (Hb & Hov & _); subst b ovf. f_equal; try (rewrite Z.mod_0_l by (unfold two52; lia); zc).
      * destruct (fb_down T 400 a 0) as [[a1 e1]|] eqn:E1; cbn [obind] in H; [|discriminate].
        destruct (fb_up T 400 a1 e1) as [[a2 e2]|] eqn:E2; cbn [obind] in H; [|discriminate].
        pose proof (fb_tail_clear _ _ _ _ _ _ H) as Hf2.
        pose proof (fb_up_clear _ _ _ _ _ _ E2 Hf2) as Hf1.
        destruct (fb_down_inv T HT HS a _ _ _ _ _ E1 Hf1 Hwf Hne (vrel_refl a)) as (Hwf1 & Hne1 & Hv1 & Hdp1).
        destruct (fb_up_inv T HT HS a _ _ _ _ _ E2 Hf2 Hwf1 Hne1 Hdp1 Hv1) as (Hwf2 & Hne2 & Hv2 & Hdp2 & Hd5).
        exact (fb_tail_ok T (d_neg a) a a2 e2 b ovf HT HS Hwf Hne Hwf2 Hne2 Hdp2 Hd5 Hv2 H).
Qed.

(** given the exactness of non-zero shifts, a run of floatBits that dropped no digit returns the
    correctly rounded binary64 of the value of the decimal, and the overflow flag *)
Theorem decimal_exact_given_nz : forall T, tables_ok T -> Shift_exact_nz_stmt T ->
  forall a b ovf, dec_wf a -> no_truncation T a = true -> floatBits_m T a = Some (b, ovf) ->
  (b, ovf) = round_ne (d_neg a) (fst (dec_frac a)) (snd (dec_frac a)).
Proof.
  intros T HT HS a b ovf Hwf Hnt H.
  apply (floatBits_tr_exact T HT HS a b ovf Hwf). apply no_truncation_spec; assumption.
Qed.

(* ---------------------------------------------------------------- *)

(** ** the interface statement of FpDecDefs *)

(** [Shift_exact_stmt] as first written is false: a shift by 0 returns its argument, which is
    well-formed but need not be trimmed (10 = digits [1;0], dp = 2) *)
Lemma Shift_exact_stmt_false T : ~ Shift_exact_stmt T.
Proof.
  intros HS.
  destruct (HS {| d_d := [1; 0]; d_dp := 2; d_neg := false; d_trunc := false |} 0
               {| d_d := [1; 0]; d_dp := 2; d_neg := false; d_trunc := false |})
    as (_ & _ & Htrim & _).
  - split; [repeat constructor; lia|]. split; [vm_compute; discriminate|cbn; lia].
  - discriminate.
  - vm_compute. reflexivity.
  - reflexivity.
  - apply Htrim. vm_compute. reflexivity.
Qed.

(** the false statement trivially implies the corrected one *)
Lemma Shift_exact_stmt_nz T : Shift_exact_stmt T -> Shift_exact_nz_stmt T.
Proof. intros HS a k a' _. apply HS. Qed.

(** main theorem, conditional form with the corrected (provable, non-vacuous) premise *)
Theorem decimal_exact_given_shift_nz : forall T, tables_ok T -> Shift_exact_nz_stmt T ->
  forall a b ovf, dec_wf a -> no_truncation T a = true -> floatBits_m T a = Some (b, ovf) ->
  (b, ovf) = round_ne (d_neg a) (fst (dec_frac a)) (snd (dec_frac a)).
Proof. exact decimal_exact_given_nz. Qed.

(** the statement as requested (premise [Shift_exact_stmt], which is false: kept for the record) *)
Theorem decimal_exact_given_shift : forall T, tables_ok T -> Shift_exact_stmt T ->
  forall a b ovf, dec_wf a -> no_truncation T a = true -> floatBits_m T a = Some (b, ovf) ->
  (b, ovf) = round_ne (d_neg a) (fst (dec_frac a)) (snd (dec_frac a)).
Proof. intros T HT HS. apply decimal_exact_given_nz; [exact HT|apply Shift_exact_stmt_nz; exact HS]. Qed.

(** main theorem, unconditional form: with [FpDecShift.Shift_exact_nz] the premise is discharged.
    Partial only in that it speaks about runs of floatBits in which no shift dropped a digit. *)
Theorem decimal_exact_partial : forall T, tables_ok T ->
  forall a b ovf, dec_wf a -> no_truncation T a = true -> floatBits_m T a = Some (b, ovf) ->
  (b, ovf) = round_ne (d_neg a) (fst (dec_frac a)) (snd (dec_frac a)).
Proof.
  intros T HT. apply decimal_exact_given_nz; [exact HT|].
  intros a k a' Hk. apply FpDecShift.Shift_exact_nz; assumption.
Qed.

(** ** the hypotheses are satisfiable *)

(** a concrete tables record satisfying [tables_ok], generated by computation *)
Definition ex_pow10_row (q : Z) : Z * Z :=
  let L := Z.shiftr (217706 * q) 16 in
  let W := (P10 q * P2 (127 - L)) / (P2 (L - 127) * P10 (- q)) in
  (W mod two64, W / two64).

(** number of decimal digits *)
Fixpoint ex_ndig (fuel : nat) (n : Z) : Z :=
  match fuel with O => 0 | S f => if n <? 10 then 1 else 1 + ex_ndig f (n / 10) end.

(** leftcheats row k: digits of 2^k, 5^k, digits of 5^k *)
Definition ex_cheat (k : Z) : Z * Z * Z :=
  if k =? 0 then (0, 0, 0) else (ex_ndig 64 (2 ^ k), 5 ^ k, ex_ndig 64 (5 ^ k)).

(** the two generated tables, evaluated once *)
Definition ex_pow10 : list (Z * Z) := Eval vm_compute in map ex_pow10_row (zrange (-348) 696).
Definition ex_leftcheats : list (Z * Z * Z) := Eval vm_compute in map ex_cheat (zrange 0 61).

(** the example tables record *)
Definition exT : fp_tables :=
  {| t_pow10 := ex_pow10; t_minexp10 := -348; t_maxexp10 := 347;
     t_f64pow10 := zrange 0 23; t_powtab := [1; 3; 6; 9; 13; 16; 19; 23; 26];
     t_leftcheats := ex_leftcheats;
     t_mantbits := 52; t_expbits := 11; t_bias := -1023 |}.

Example exT_ok : tables_ok exT.
Proof. vm_compute. reflexivity. Qed.

Example exT_shift : Shift_exact_nz_stmt exT.
Proof. intros a k a' Hk. apply FpDecShift.Shift_exact_nz; [exact exT_ok|exact Hk]. Qed.

(** a decimal with a clear flag *)
Definition ex_dec (d : list Z) (dp : Z) (neg : bool) : decimal :=
  {| d_d := d; d_dp := dp; d_neg := neg; d_trunc := false |}.

(** hypotheses of the main theorem on 1.5, -5e-324 (least subnormal), 1.7976931348623158e308
    (rounds up to the largest finite double) and 2.2250738585072014e-308 (least normal) *)
Example decimal_exact_ex :
  let a1 := ex_dec [1; 5] 1 false in
  let a2 := ex_dec [5] (-323) true in
  let a3 := ex_dec [1; 7; 9; 7; 6; 9; 3; 1; 3; 4; 8; 6; 2; 3; 1; 5; 8] 309 false in
  let a4 := ex_dec [2; 2; 2; 5; 0; 7; 3; 8; 5; 8; 5; 0; 7; 2; 0; 1; 4] (-307) false in
  (dec_wf a1 /\ no_truncation exT a1 = true /\ floatBits_m exT a1 = Some (4609434218613702656, false)) /\
  (dec_wf a2 /\ no_truncation exT a2 = true /\ floatBits_m exT a2 = Some (sign_bit + 1, false)) /\
  (dec_wf a3 /\ no_truncation exT a3 = true /\ floatBits_m exT a3 = Some (inf_bits - 1, false)) /\
  (dec_wf a4 /\ no_truncation exT a4 = true /\ floatBits_m exT a4 = Some (two52, false)).
Proof.
  assert (W : forall d dp neg, forallb (fun x => (0 <=? x) && (x <=? 9)) d = true ->
              (len d <=? dec_cap) = true -> (match d with x :: _ => negb (x =? 0) | [] => true end) = true ->
              dec_wf (ex_dec d dp neg)).
  { intros d dp neg H1 H2 H3. split; [|split]; cbn [ex_dec d_d].
    - apply Forall_forall. intros x Hx. rewrite forallb_forall in H1. specialize (H1 x Hx).
      apply andb_true_iff in H1 as [A1 A2]. lia.
    - apply Z.leb_le. exact H2.
    - destruct d as [|x t]; [exact I|]. apply negb_true_iff in H3. apply Z.eqb_neq. exact H3. }
  cbv zeta.
  split; [|split; [|split]]; (split; [apply W; vm_compute; reflexivity|split; vm_compute; reflexivity]).
Qed.

(** an instance of the conclusion, obtained from the theorem (not by evaluation of round_ne) *)
Example decimal_exact_inst :
  round_ne false (fst (dec_frac (ex_dec [1; 5] 1 false))) (snd (dec_frac (ex_dec [1; 5] 1 false)))
  = (4609434218613702656, false).
Proof.
  destruct decimal_exact_ex as ((W & N & F) & _). symmetry.
  exact (decimal_exact_partial exT exT_ok _ _ _ W N F).
Qed.

(* each main theorem is closed under the global context *)
Print Assumptions set_spec.
Print Assumptions RoundedInteger_spec.
Print Assumptions floatBits_tr_fst.
Print Assumptions Shift_sticky.
Print Assumptions decimal_exact_given_shift_nz.
Print Assumptions decimal_exact_given_shift.
Print Assumptions decimal_exact_partial.
