(** The accelerated evaluator of ValueReader.v ([ReadValue_fast] / [ReadObject_fast] / [ReadArray_fast]:
    the handler answers with the offset skipValue reports for the member, 0 where skipValue fails, and
    the members are read once, afterwards) satisfies the same specification as the model of record
    ([TreeFacts.read_value_tree]): it returns the tree and offset the reference parser [parse_ref]
    assigns, and an error where the reference assigns none.  Hence the two evaluators agree
    ([fast_agrees_with_record]).  Over the specification machines. *)
From Coq Require Import List ZArith Bool Lia.
From Coq Require Import Strings.Byte.
From Rjson Require Import Base BaseFacts Helpers Machine MachineFacts Safety Api ValueReader
  SpecMachines Ref SpecFacts SpecFacts2 SpecFacts3 ExclusiveFacts OffsetFacts TreeFacts.
Import ListNotations.
Local Open Scope Z_scope.

(** * 1. the handler of the accelerated evaluator is well behaved *)
Definition fast_handler (data : list byte) : handler :=
  fun calls => match calls with c :: _ => skip_answer 10000 skip_spec data c | [] => answer None end.

Lemma skip_answer_spec : forall data c,
  skip_answer 10000 skip_spec data c =
  match skip_ref (skipn (Z.to_nat (c_p c)) data) with
  | Some n => {| h_pp := n; h_err := None; h_havoc := [] |}
  | None => {| h_pp := 0; h_err := None; h_havoc := [] |}
  end.
Proof.
  intros data c. unfold skip_answer, skipValue_m. rewrite prun_c_eq.
  pose proof (skip_spec_correct (skipn (Z.to_nat (c_p c)) data) []) as S.
  destruct (skip_ref (skipn (Z.to_nat (c_p c)) data)) as [n|].
  - destruct S as (s & ->). reflexivity.
  - destruct S as (p & e & s & ->). reflexivity.
Qed.

Lemma fast_handler_wb : forall data, well_behaved data (fast_handler data).
Proof.
  intros data c calls. unfold fast_handler. rewrite skip_answer_spec.
  destruct (skip_ref (skipn (Z.to_nat (c_p c)) data)) as [n|] eqn:S; cbn; auto.
Qed.

(** * 2. collecting the members once *)
Lemma collect_arr_agree : forall (read1 : call -> rres) (G : call -> option jv) calls acc,
  (forall c, In c calls -> match G c with
                           | Some v => exists p, read1 c = Some (v, p, None)
                           | None => exists v p e, read1 c = Some (v, p, Some e)
                           end) ->
  collect_arr read1 calls acc = option_map (app acc) (mapM G calls).
Proof.
  intros read1 G. induction calls as [|c r IH]; intros acc H.
  - cbn. rewrite app_nil_r. reflexivity.
  - cbn [collect_arr mapM]. pose proof (H c (or_introl eq_refl)) as HC.
    destruct (G c) as [v|].
    + destruct HC as (p & ->). rewrite (IH (acc ++ [v]) ltac:(intros c' IN; apply H; right; exact IN)).
      destruct (mapM G r) as [vs|]; [|reflexivity]. cbn. rewrite <- app_assoc. reflexivity.
    + destruct HC as (v & p & e & ->). reflexivity.
Qed.

Lemma collect_obj_agree : forall (read1 : call -> rres) (G : call -> option jv) calls acc,
  (forall c, In c calls -> match G c with
                           | Some v => exists p, read1 c = Some (v, p, None)
                           | None => exists v p e, read1 c = Some (v, p, Some e)
                           end /\ exists out, decode_content (c_key c) = Some out) ->
  collect_obj 10000 unescape_spec read1 calls acc =
  match mapM G calls with Some vs => build_obj (combine (map c_key calls) vs) acc | None => None end.
Proof.
  intros read1 G. induction calls as [|c r IH]; intros acc H.
  - reflexivity.
  - cbn [collect_obj mapM map]. destruct (H c (or_introl eq_refl)) as (HC & out & D).
    rewrite (key_of_correct _ _ D).
    destruct (G c) as [v|].
    + destruct HC as (p & ->). rewrite (IH (obj_set acc out v) ltac:(intros c' IN; apply H; right; exact IN)).
      destruct (mapM G r) as [vs|]; [|reflexivity]. cbn [combine build_obj]. rewrite D. reflexivity.
    + destruct HC as (v & p & e & ->). reflexivity.
Qed.

(** * 3. the traversal, by induction on the fuel *)
Section Fast.
  Variable readFloat64 : list byte -> Z * Z * option errk.
  Variable num : list byte -> option Z.
  Hypothesis FO : float_ok readFloat64 num.

  Notation MEM := (ValueReader.member 10000 10000 null_spec bool_spec append_spec readFloat64).
  Notation fo := (fast_obj 10000 10000 skip_spec harr_spec hobj_spec null_spec bool_spec append_spec unescape_spec readFloat64).
  Notation fa := (fast_arr 10000 10000 skip_spec harr_spec hobj_spec null_spec bool_spec append_spec unescape_spec readFloat64).

  Definition RdF (obj : bool) (f : nat) (depth : Z) (data : list byte) : rres :=
    if obj then fo f depth data else fa f depth data.

  Definition PspecF (f : nat) : Prop :=
    forall (obj : bool) depth data, 1 <= depth <= 10000 -> len data <= maxint -> (length data < f)%nat ->
      Agree (RdF obj f depth data) (tref num obj (depth - 1) data).

  Section Step.
    Variable f : nat.
    Hypothesis PF : PspecF f.
    Variable depth : Z.
    Variable data : list byte.
    Hypothesis DP : 1 <= depth <= 10000.
    Hypothesis LEN : len data <= maxint.
    Hypothesis LF : (length data < S f)%nat.

    Notation mem := (MEM (fo f (depth + 1)) (fa f (depth + 1)) depth).

    Lemma fmem_agree : forall lv, len lv <= maxint -> (length lv < f)%nat -> Agree (mem lv) (vref num depth lv).
    Proof.
      intros lv LL LFv. apply (member_gen readFloat64 num FO Agree (fun r ref A => A) Agree_lift); [lia| |].
      - intros b r0 L3 OB DL.
        pose proof (PF true (depth + 1) (b :: r0) ltac:(lia) ltac:(unfold len in *; lia) ltac:(lia)) as A.
        replace (depth + 1 - 1) with depth in A by lia. exact A.
      - intros b r0 L3 OB DL.
        pose proof (PF false (depth + 1) (b :: r0) ltac:(lia) ltac:(unfold len in *; lia) ltac:(lia)) as A.
        replace (depth + 1 - 1) with depth in A by lia. exact A.
    Qed.

    (** the member read at a listed offset against the reference tree there *)
    Lemma member_at : forall c, 1 <= c_p c -> data <> [] ->
      match mtree num depth data (callpair c) with
      | Some v => exists p, mem (skipn (Z.to_nat (c_p c)) data) = Some (v, p, None)
      | None => exists v p e, mem (skipn (Z.to_nat (c_p c)) data) = Some (v, p, Some e)
      end.
    Proof.
      intros c P1 NE. unfold mtree, callpair. cbn [fst].
      assert (SH : (length (skipn (Z.to_nat (c_p c)) data) < f)%nat).
      { rewrite skipn_length. destruct data; [contradiction|]. cbn [length] in *. lia. }
      pose proof (fmem_agree (skipn (Z.to_nat (c_p c)) data) (len_skipn_le _ _ LEN) SH) as A.
      destruct (vref num depth (skipn (Z.to_nat (c_p c)) data)) as [[t p]|]; cbn in *; eauto.
    Qed.

    (** where the reference finds no array / object *)
    Lemma tref_none : forall (obj : bool), members_ref obj data = None -> tref num obj (depth - 1) data = None.
    Proof.
      intros obj MR. unfold tref. destruct (skipn (ws data) data) as [|b r] eqn:L; [reflexivity|].
      destruct (isb (if obj then 123 else 91) b) eqn:OB; [|reflexivity]. unfold vref. rewrite L.
      assert (LD : (S (length r) <= length data)%nat).
      { assert (A : length (skipn (ws data) data) = S (length r)) by (rewrite L; reflexivity). rewrite skipn_length in A. lia. }
      pose proof (pvalue_members num data obj b r 10000 (length data + 1) (depth - 1) L OB ltac:(lia)
                    ltac:(apply Z.leb_gt; lia)) as PM.
      rewrite MR in PM. replace (length data + 2)%nat with (S (length data + 1)) by lia. rewrite PM; [reflexivity|].
      intros lv v n LL PV. apply pvalue_len in PV. eapply value_len_unb; [exact PV|lia|]. unfold len. lia.
    Qed.

    Lemma calls_nil : forall (s : st), map callpair (rev (s_calls s)) = [] -> s_calls s = [].
    Proof.
      intros s C. destruct (s_calls s) as [|c0 cs]; [reflexivity|]. cbn [rev] in C.
      rewrite map_app in C. apply app_eq_nil in C. destruct C as [_ C]. discriminate.
    Qed.

    Lemma farr_step : Agree (fa (S f) depth data) (tref num false (depth - 1) data).
    Proof.
      set (read1 := fun c : call => mem (skipn (Z.to_nat (c_p c)) data)).
      assert (UNF : fa (S f) depth data =
                    match of_outcome (prun 10000 harr_spec data (fast_handler data) [] []) with
                    | MDone p (Some e) _ => Some (JNull, p, Some e)
                    | MDone p None s =>
                      match collect_arr read1 (rev (s_calls s)) [] with
                      | Some l => match l with
                                  | [] => if first_is_null data then Some (JNull, p, Some EInvalidArray) else Some (JArr l, p, None)
                                  | _ :: _ => Some (JArr l, p, None)
                                  end
                      | None => Some (JNull, p, Some EOther)
                      end
                    | _ => None
                    end).
      { cbn [fast_arr]. unfold handleArrayValues_m. rewrite prun_c_eq. reflexivity. }
      pose proof (members_spec_correct false data (fast_handler data) [] [] LEN (fast_handler_wb data)) as M.
      rewrite UNF. destruct (members_ref false data) as [[ms e]|] eqn:MR.
      2:{ destruct M as (p & e & s & ->). rewrite (tref_none false MR). cbn. eauto. }
      destruct M as (s & -> & C2). cbn [of_outcome].
      destruct (members_ref_cases false data ms e MR) as (b & r & L & [[BN ->]|[OB FA]]).
      - rewrite (calls_nil s C2). cbn [rev collect_arr].
        assert (FN : first_is_null data = true) by (rewrite first_is_null_spec, L; exact BN). rewrite FN.
        assert (TN : tref num false (depth - 1) data = None).
        { unfold tref. rewrite L. apply Z.eqb_eq in BN. unfold isb. rewrite BN. reflexivity. }
        rewrite TN. cbn. eauto.
      - rewrite (tref_members num depth data DP false b r ms e L OB FA MR).
        assert (FN : first_is_null data = false).
        { rewrite first_is_null_spec, L. apply Z.eqb_eq in OB. unfold isb. rewrite OB. reflexivity. }
        assert (NE : data <> []) by (intros ->; rewrite skipn_nil in L; discriminate).
        rewrite (collect_arr_agree read1 (fun c => mtree num depth data (callpair c)) (rev (s_calls s)) []).
        + rewrite <- mapM_map, C2. destruct (mapM (mtree num depth data) ms) as [vs|]; cbn [option_map app].
          * destruct vs; [rewrite FN|]; reflexivity.
          * cbn. eauto.
        + intros c IN. apply member_at; [|exact NE].
          assert (INM : In (callpair c) ms) by (rewrite <- C2; apply in_map; exact IN).
          rewrite Forall_forall in FA. destruct (FA _ INM) as [P1 _]. exact P1.
    Qed.

    Lemma fobj_step : Agree (fo (S f) depth data) (tref num true (depth - 1) data).
    Proof.
      set (read1 := fun c : call => match key_of 10000 unescape_spec (c_key c) with
                                    | inl (Some _) => mem (skipn (Z.to_nat (c_p c)) data)
                                    | inl None => Some (JNull, 0, Some EInvalidString)
                                    | inr _ => None
                                    end).
      assert (UNF : fo (S f) depth data =
                    match of_outcome (prun 10000 hobj_spec data (fast_handler data) [] []) with
                    | MDone p (Some e) _ => Some (JNull, p, Some e)
                    | MDone p None s =>
                      match collect_obj 10000 unescape_spec read1 (rev (s_calls s)) [] with
                      | Some l => match l with
                                  | [] => if first_is_null data then Some (JNull, p, Some EInvalidObject) else Some (JObj l, p, None)
                                  | _ :: _ => Some (JObj l, p, None)
                                  end
                      | None => Some (JNull, p, Some EOther)
                      end
                    | _ => None
                    end).
      { cbn [fast_obj]. unfold handleObjectValues_m. rewrite prun_c_eq. reflexivity. }
      pose proof (members_spec_correct true data (fast_handler data) [] [] LEN (fast_handler_wb data)) as M.
      rewrite UNF. destruct (members_ref true data) as [[ms e]|] eqn:MR.
      2:{ destruct M as (p & e & s & ->). rewrite (tref_none true MR). cbn. eauto. }
      destruct M as (s & -> & C2). cbn [of_outcome].
      destruct (members_ref_cases true data ms e MR) as (b & r & L & [[BN ->]|[OB FA]]).
      - rewrite (calls_nil s C2). cbn [rev collect_obj].
        assert (FN : first_is_null data = true) by (rewrite first_is_null_spec, L; exact BN). rewrite FN.
        assert (TN : tref num true (depth - 1) data = None).
        { unfold tref. rewrite L. apply Z.eqb_eq in BN. unfold isb. rewrite BN. reflexivity. }
        rewrite TN. cbn. eauto.
      - rewrite (tref_members num depth data DP true b r ms e L OB FA MR).
        assert (FN : first_is_null data = false).
        { rewrite first_is_null_spec, L. apply Z.eqb_eq in OB. unfold isb. rewrite OB. reflexivity. }
        assert (NE : data <> []) by (intros ->; rewrite skipn_nil in L; discriminate).
        pose proof (members_ref_keys data ms e MR) as KD. rewrite Forall_forall in KD.
        rewrite (collect_obj_agree read1 (fun c => mtree num depth data (callpair c)) (rev (s_calls s)) []).
        + rewrite <- mapM_map, C2.
          assert (KS : map c_key (rev (s_calls s)) = map snd ms) by (rewrite <- C2, map_map; reflexivity).
          rewrite KS. destruct (mapM (mtree num depth data) ms) as [vs|]; [|cbn; eauto].
          destruct (build_obj (combine (map snd ms) vs) []) as [m|]; cbn [option_map]; [|cbn; eauto].
          destruct m; [rewrite FN|]; reflexivity.
        + intros c IN.
          assert (INM : In (callpair c) ms) by (rewrite <- C2; apply in_map; exact IN).
          destruct (KD _ INM) as (out & DC). unfold callpair in DC. cbn [snd] in DC.
          split; [|eauto]. unfold read1. rewrite (key_of_correct _ _ DC).
          apply member_at; [|exact NE].
          rewrite Forall_forall in FA. destruct (FA _ INM) as [P1 _]. exact P1.
    Qed.
  End Step.

  Theorem pspecF_all : forall f, PspecF f.
  Proof.
    induction f as [|f IH]; intros obj depth data DP LEN LF; [lia|].
    destruct obj; [apply fobj_step|apply farr_step]; auto.
  Qed.

  Notation RVF := (ReadValue_fast 10000 10000 skip_spec harr_spec hobj_spec null_spec bool_spec append_spec unescape_spec readFloat64).
  Notation ROF := (ReadObject_fast 10000 10000 skip_spec harr_spec hobj_spec null_spec bool_spec append_spec unescape_spec readFloat64).
  Notation RAF := (ReadArray_fast 10000 10000 skip_spec harr_spec hobj_spec null_spec bool_spec append_spec unescape_spec readFloat64).
  Notation RVR := (ReadValue 10000 10000 harr_spec hobj_spec null_spec bool_spec append_spec unescape_spec readFloat64).
  Notation ROR := (ReadObject 10000 10000 harr_spec hobj_spec null_spec bool_spec append_spec unescape_spec readFloat64).
  Notation RAR := (ReadArray 10000 10000 harr_spec hobj_spec null_spec bool_spec append_spec unescape_spec readFloat64).

  Lemma ReadValue_fast_member : forall data,
    RVF data = MEM (fo (vr_fuel data) 1) (fa (vr_fuel data) 1) 0 data.
  Proof.
    intros data. unfold ReadValue_fast, ValueReader.member. destruct (NextTokenType data) as [[tp p] [e|]]; reflexivity.
  Qed.

  (** the accelerated evaluator returns the reference tree and the offset just after the value, or an
      error when the reference assigns no tree: the specification of the model of record *)
  Theorem read_value_fast_tree : forall data, len data <= maxint ->
    match parse_ref num data with
    | Some (t, p) => RVF data = Some (t, p, None)
    | None => exists v p e, RVF data = Some (v, p, Some e)
    end.
  Proof.
    intros data LEN. rewrite ReadValue_fast_member. rewrite <- vref_parse.
    change (Agree (MEM (fo (vr_fuel data) 1) (fa (vr_fuel data) 1) 0 data) (vref num 0 data)).
    apply (member_gen readFloat64 num FO Agree (fun r ref A => A) Agree_lift); [lia| |].
    - intros b r0 LL OB _.
      apply (pspecF_all (vr_fuel data) true 1 (b :: r0)); [lia|unfold len in *; lia|unfold vr_fuel; lia].
    - intros b r0 LL OB _.
      apply (pspecF_all (vr_fuel data) false 1 (b :: r0)); [lia|unfold len in *; lia|unfold vr_fuel; lia].
  Qed.

  Theorem read_object_fast_tree : forall data, len data <= maxint ->
    match parse_typed_ref num true data with
    | Some (t, p) => ROF data = Some (t, p, None)
    | None => exists v p e, ROF data = Some (v, p, Some e)
    end.
  Proof.
    intros data LEN. rewrite <- tref_parse.
    apply (pspecF_all (vr_fuel data) true 1 data); [lia|exact LEN|unfold vr_fuel; lia].
  Qed.

  Theorem read_array_fast_tree : forall data, len data <= maxint ->
    match parse_typed_ref num false data with
    | Some (t, p) => RAF data = Some (t, p, None)
    | None => exists v p e, RAF data = Some (v, p, Some e)
    end.
  Proof.
    intros data LEN. rewrite <- tref_parse.
    apply (pspecF_all (vr_fuel data) false 1 data); [lia|exact LEN|unfold vr_fuel; lia].
  Qed.

  (** two results that satisfy the same specification agree on success and on failure *)
  Lemma agree_both : forall (r1 r2 : rres) (ref : option (jv * Z)), Agree r1 ref -> Agree r2 ref ->
    (forall t p, r1 = Some (t, p, None) <-> r2 = Some (t, p, None)) /\
    ((exists v p e, r1 = Some (v, p, Some e)) <-> (exists v p e, r2 = Some (v, p, Some e))).
  Proof.
    intros r1 r2 [[t p]|] A1 A2; cbn in A1, A2.
    - subst. split; [intros; tauto|]. split; intros (v & p0 & e & H); discriminate.
    - destruct A1 as (v1 & p1 & e1 & ->). destruct A2 as (v2 & p2 & e2 & ->).
      split; [intros t p; split; discriminate|]. split; intros _; eauto.
  Qed.

  (** the accelerated evaluator and the model of record agree: same successes (tree and offset), and
      one fails exactly when the other does *)
  Corollary fast_agrees_with_record : forall data, len data <= maxint ->
    (forall t p, RVR data = Some (t, p, None) <-> RVF data = Some (t, p, None)) /\
    ((exists v p e, RVR data = Some (v, p, Some e)) <-> (exists v p e, RVF data = Some (v, p, Some e))).
  Proof.
    intros data LEN. apply (agree_both _ _ (parse_ref num data)).
    - apply (read_value_tree readFloat64 num FO data LEN).
    - apply (read_value_fast_tree data LEN).
  Qed.

  Corollary fast_object_agrees_with_record : forall data, len data <= maxint ->
    (forall t p, ROR data = Some (t, p, None) <-> ROF data = Some (t, p, None)) /\
    ((exists v p e, ROR data = Some (v, p, Some e)) <-> (exists v p e, ROF data = Some (v, p, Some e))).
  Proof.
    intros data LEN. apply (agree_both _ _ (parse_typed_ref num true data)).
    - apply (read_object_tree readFloat64 num FO data LEN).
    - apply (read_object_fast_tree data LEN).
  Qed.

  Corollary fast_array_agrees_with_record : forall data, len data <= maxint ->
    (forall t p, RAR data = Some (t, p, None) <-> RAF data = Some (t, p, None)) /\
    ((exists v p e, RAR data = Some (v, p, Some e)) <-> (exists v p e, RAF data = Some (v, p, Some e))).
  Proof.
    intros data LEN. apply (agree_both _ _ (parse_typed_ref num false data)).
    - apply (read_array_tree readFloat64 num FO data LEN).
    - apply (read_array_fast_tree data LEN).
  Qed.

  (** the offset the accelerated evaluator returns is a correct place to resume (C08) *)
  Corollary read_value_fast_offset_is_skip : forall data t p, len data <= maxint ->
    RVF data = Some (t, p, None) -> skip_ref data = Some p.
  Proof.
    intros data t p LEN H. apply (read_value_offset_is_skip readFloat64 num FO data t p LEN).
    apply (fast_agrees_with_record data LEN). exact H.
  Qed.
End Fast.

(** * 4. Examples *)
Definition RVF := ReadValue_fast 10000 10000 skip_spec harr_spec hobj_spec null_spec bool_spec append_spec unescape_spec.

Definition samef (data : list byte) : bool :=
  match parse_ref toy_num data, RVF toy_readFloat64 data with
  | Some (t, p), Some (t', p', None) => (p =? p') && jv_eqb t t'
  | None, Some (_, _, Some _) => true
  | _, _ => false
  end.

(** the documents of TreeFacts.v *)
Example fast_agree_ex :
  forallb samef [doc1; doc2; doc3; doc4; doc5; doc6; doc7; doc8; doc9; doc10; doc11; doc12; doc13; doc14;
                 doc15; doc16; doc17; doc18] = true.
Proof. vm_compute. reflexivity. Qed.

(** the depth boundary with small limits (skipMaxDepth = valueReaderMaxDepth = 3, reference budget 3):
    three nested arrays are read, four are rejected by the reader's own depth check although the
    traversal itself has no limit and the skipper (limit counted from the member) accepts each member *)
Definition nest (n : nat) : list byte := repeat x5b n ++ repeat x5d n.
Definition RVF3 := ReadValue_fast 3 3 skip_spec harr_spec hobj_spec null_spec bool_spec append_spec unescape_spec toy_readFloat64.
Definition ref3 (data : list byte) := option_map fst (pvalue toy_num 3 (length data + 2) 0 data).
Example fast_boundary_small_ex :
  RVF3 (nest 3) = Some (JArr [JArr [JArr []]], 6, None) /\ ref3 (nest 3) = Some (JArr [JArr [JArr []]]) /\
  RVF3 (nest 4) = Some (JNull, 8, Some EOther) /\ ref3 (nest 4) = None /\
  RVF3 (nest 5) = Some (JNull, 10, Some EOther) /\ ref3 (nest 5) = None.
Proof. vm_compute. repeat split; reflexivity. Qed.

(** an instance of the theorem *)
Example read_value_fast_tree_ex :
  RVF toy_readFloat64 doc1 = Some (JObj [([x61], JArr [JBool true; JNull]); ([x62; x0a], JStr [x78; x41])], 39, None).
Proof.
  pose proof (read_value_fast_tree toy_readFloat64 toy_num toy_float_ok doc1 ltac:(vm_compute; discriminate)) as T.
  rewrite parse_ref_ex1 in T. exact T.
Qed.

Print Assumptions read_value_fast_tree.
Print Assumptions read_object_fast_tree.
Print Assumptions read_array_fast_tree.
Print Assumptions fast_agrees_with_record.
Print Assumptions fast_object_agrees_with_record.
Print Assumptions fast_array_agrees_with_record.
Print Assumptions read_value_fast_offset_is_skip.
