(** C01 / C02 against the RFC 8259 grammar (Grammar.v), on the current tables, for ALL inputs. *)
From Coq Require Import List ZArith Bool Lia.
From Coq Require Import Strings.Byte.
From Rjson Require Import Base BaseFacts Helpers Machine Api Ref SpecFacts Grammar.
From RjsonRun Require Import Inst PropsC02.
Import ListNotations.
Local Open Scope Z_scope.

(** C01: Valid reports true exactly when the input is one RFC 8259 value, optionally
    surrounded by JSON whitespace, nested no deeper than 10,000 levels -- whatever buffer *)
Theorem C01_Valid_iff_rfc8259 : forall data b, len data <= maxint ->
  (fst (i_Valid data b) = Some true <-> json_text 10000 data).
Proof.
  intros data b L. rewrite (C01_Valid_exact data b L). rewrite <- valid_ref_iff.
  split; intro H; [inversion H; reflexivity|rewrite H; reflexivity].
Qed.

Corollary C01_Valid_false_otherwise : forall data b, len data <= maxint ->
  ~ json_text 10000 data -> fst (i_Valid data b) = Some false.
Proof.
  intros data b L N. rewrite (C01_Valid_exact data b L).
  destruct (valid_ref data) eqn:V; [|reflexivity].
  exfalso. apply N. apply valid_ref_iff. exact V.
Qed.

(** C02, soundness: a reported offset is the end of a whitespace prefix followed by a value *)
Theorem C02_SkipValue_sound : forall data b n, len data <= maxint ->
  fst (i_SkipValue data b) = inl (n, None) ->
  exists w v rest, data = w ++ v ++ rest /\ ws_str w /\ jvalue_upto 10000 v /\ n = len (w ++ v).
Proof.
  intros data b n L H. apply skip_ref_sound.
  pose proof (C02_SkipValue_exact data b L) as C. destruct (skip_ref data) as [m|].
  - rewrite C in H. inversion H. reflexivity.
  - destruct C as (p & e & C). rewrite C in H. discriminate.
Qed.

(** C02, completeness: whitespace, a value nested at most 10,000 deep, then anything that does
    not continue a number token: success with the offset just after the value *)
Theorem C02_SkipValue_complete : forall w v rest b, len (w ++ v ++ rest) <= maxint ->
  ws_str w -> jvalue_upto 10000 v -> follows_ok v rest ->
  fst (i_SkipValue (w ++ v ++ rest) b) = inl (len (w ++ v), None).
Proof.
  intros w v rest b L W J F.
  pose proof (C02_SkipValue_exact (w ++ v ++ rest) b L) as C.
  rewrite (skip_ref_complete w v rest W J F) in C. exact C.
Qed.

Print Assumptions C01_Valid_iff_rfc8259.
Print Assumptions C02_SkipValue_sound.
Print Assumptions C02_SkipValue_complete.
