(** The executable twins [x_f] (indexed tables) of run/Inst.v equal the definitions [i_f] the
    theorems are about.  Uses functional extensionality (only here: it transports the
    evaluator, no property theorem depends on it). *)
From Rjson Require Import Machine MachineFast.
From RjsonRun Require Import Inst.

Ltac fast_eq := unfold x_skipValue, x_skipValueFast, x_handleArrayValues, x_handleObjectValues, x_SkipValue, x_SkipValueFast, x_Valid, x_HandleArrayValues, x_HandleObjectValues, x_ReadNull, x_ReadBool, x_appendRemainderOfString, x_UnescapeStringContent, x_ReadStringBytes, x_ReadString, x_DecodeInt64, x_DecodeInt32, x_DecodeInt, x_DecodeUint64, x_DecodeUint32, x_DecodeUint, x_DecodeBool, x_DecodeString, x_ReadFloat64, x_DecodeFloat64, x_ReadValue, x_ReadObject, x_ReadArray, x_ReadValue_fast, x_ReadObject_fast, x_ReadArray_fast, i_skipValue, i_skipValueFast, i_handleArrayValues, i_handleObjectValues, i_SkipValue, i_SkipValueFast, i_Valid, i_HandleArrayValues, i_HandleObjectValues, i_ReadNull, i_ReadBool, i_appendRemainderOfString, i_UnescapeStringContent, i_ReadStringBytes, i_ReadString, i_DecodeInt64, i_DecodeInt32, i_DecodeInt, i_DecodeUint64, i_DecodeUint32, i_DecodeUint, i_DecodeBool, i_DecodeString, i_ReadFloat64, i_DecodeFloat64, i_ReadValue, i_ReadObject, i_ReadArray, i_ReadValue_fast, i_ReadObject_fast, i_ReadArray_fast, xSkip, xSkipFast, xArr, xObj, xNull, xBool, xAppend, xUnescape, mSkip, mSkipFast, mArr, mObj, mNull, mBool, mAppend, mUnescape; rewrite ?of_raw_fast_eq; reflexivity.
Lemma x_skipValue_eq : x_skipValue = i_skipValue.
Proof. fast_eq. Qed.
Lemma x_skipValueFast_eq : x_skipValueFast = i_skipValueFast.
Proof. fast_eq. Qed.
Lemma x_handleArrayValues_eq : x_handleArrayValues = i_handleArrayValues.
Proof. fast_eq. Qed.
Lemma x_handleObjectValues_eq : x_handleObjectValues = i_handleObjectValues.
Proof. fast_eq. Qed.
Lemma x_SkipValue_eq : x_SkipValue = i_SkipValue.
Proof. fast_eq. Qed.
Lemma x_SkipValueFast_eq : x_SkipValueFast = i_SkipValueFast.
Proof. fast_eq. Qed.
Lemma x_Valid_eq : x_Valid = i_Valid.
Proof. fast_eq. Qed.
Lemma x_HandleArrayValues_eq : x_HandleArrayValues = i_HandleArrayValues.
Proof. fast_eq. Qed.
Lemma x_HandleObjectValues_eq : x_HandleObjectValues = i_HandleObjectValues.
Proof. fast_eq. Qed.
Lemma x_ReadNull_eq : x_ReadNull = i_ReadNull.
Proof. fast_eq. Qed.
Lemma x_ReadBool_eq : x_ReadBool = i_ReadBool.
Proof. fast_eq. Qed.
Lemma x_appendRemainderOfString_eq : x_appendRemainderOfString = i_appendRemainderOfString.
Proof. fast_eq. Qed.
Lemma x_UnescapeStringContent_eq : x_UnescapeStringContent = i_UnescapeStringContent.
Proof. fast_eq. Qed.
Lemma x_ReadStringBytes_eq : x_ReadStringBytes = i_ReadStringBytes.
Proof. fast_eq. Qed.
Lemma x_ReadString_eq : x_ReadString = i_ReadString.
Proof. fast_eq. Qed.
Lemma x_DecodeInt64_eq : x_DecodeInt64 = i_DecodeInt64.
Proof. fast_eq. Qed.
Lemma x_DecodeInt32_eq : x_DecodeInt32 = i_DecodeInt32.
Proof. fast_eq. Qed.
Lemma x_DecodeInt_eq : x_DecodeInt = i_DecodeInt.
Proof. fast_eq. Qed.
Lemma x_DecodeUint64_eq : x_DecodeUint64 = i_DecodeUint64.
Proof. fast_eq. Qed.
Lemma x_DecodeUint32_eq : x_DecodeUint32 = i_DecodeUint32.
Proof. fast_eq. Qed.
Lemma x_DecodeUint_eq : x_DecodeUint = i_DecodeUint.
Proof. fast_eq. Qed.
Lemma x_DecodeBool_eq : x_DecodeBool = i_DecodeBool.
Proof. fast_eq. Qed.
Lemma x_DecodeString_eq : x_DecodeString = i_DecodeString.
Proof. fast_eq. Qed.
Lemma x_ReadFloat64_eq : x_ReadFloat64 = i_ReadFloat64.
Proof. fast_eq. Qed.
Lemma x_DecodeFloat64_eq : x_DecodeFloat64 = i_DecodeFloat64.
Proof. fast_eq. Qed.
Lemma x_ReadValue_eq : x_ReadValue = i_ReadValue.
Proof. fast_eq. Qed.
Lemma x_ReadObject_eq : x_ReadObject = i_ReadObject.
Proof. fast_eq. Qed.
Lemma x_ReadArray_eq : x_ReadArray = i_ReadArray.
Proof. fast_eq. Qed.
Lemma x_ReadValue_fast_eq : x_ReadValue_fast = i_ReadValue_fast.
Proof. fast_eq. Qed.
Lemma x_ReadObject_fast_eq : x_ReadObject_fast = i_ReadObject_fast.
Proof. fast_eq. Qed.
Lemma x_ReadArray_fast_eq : x_ReadArray_fast = i_ReadArray_fast.
Proof. fast_eq. Qed.

Print Assumptions x_SkipValue_eq.
