(** C03 / C08 on the current tables, for ALL inputs.

    The generic value reader (Api.ReadValue / ReadObject / ReadArray: the model of
    complex_readers.go, validated against the code by the correspondence check) instantiated with
    the REGENERATED machines and the regenerated float tables returns exactly the reference value
    tree (TreeFacts.parse_ref: RFC 8259 grammar, strings decoded as Ref says, objects as key/value
    lists in document order, numbers as the float parser's value of the number token) together with
    the offset just after the value; it returns an error wherever the reference assigns no tree.

    The chain: TieWf (well-formed tables) + TieSim (tables observationally equal to the
    specification machines) + TreeTie.ReadValue_congr (the reader depends on its machines only
    through what is observable) + TreeFacts.read_value_tree (specification machines vs reference).

    C08: every successful read ends exactly where the reference skipper (hence, PropsC02,
    SkipValue) ends; a traversal whose handler answers with offsets of successful nested reads
    ends at that offset too, so decoding through handlers composes with decoding directly. *)
From Coq Require Import List ZArith Bool Lia.
From Coq Require Import Strings.Byte.
From Rjson Require Import Base BaseFacts Helpers Machine MachineFacts Wf Safety Sim Api ApiFacts SpecMachines Ref
  SpecFacts SpecFacts2 SpecFacts3 Fp FpSpec FpFacts ValueReader FloatTok OffsetFacts TreeFacts TreeTie.
From RjsonGen Require Import GenTables.
From RjsonRun Require Import Inst Tie TieWf TieSim PropsC02.
Import ListNotations.
Local Open Scope Z_scope.

Lemma vrMax_10000 : vrMax = 10000.
Proof. exact tie_valueReaderMaxDepth. Qed.

Lemma so_arr : same_obs_m mArr harr_spec.
Proof. intros md data h stack dst L. exact (handleArrayValues_is_spec wf_handleArrayValues md data h stack dst L). Qed.
Lemma so_obj : same_obs_m mObj hobj_spec.
Proof. intros md data h stack dst L. exact (handleObjectValues_is_spec wf_handleObjectValues md data h stack dst L). Qed.
Lemma so_null : same_obs_m mNull null_spec.
Proof. intros md data h stack dst L. exact (readNull_is_spec wf_readNull md data h stack dst L). Qed.
Lemma so_bool : same_obs_m mBool bool_spec.
Proof. intros md data h stack dst L. exact (readBool_is_spec wf_readBool md data h stack dst L). Qed.
Lemma so_append : same_obs_m mAppend append_spec.
Proof. intros md data h stack dst L. exact (appendRemainderOfString_is_spec wf_appendRemainderOfString md data h stack dst L). Qed.
Lemma so_unescape : same_obs_m mUnescape unescape_spec.
Proof. intros md data h stack dst L. exact (unescapeStringContent_is_spec wf_unescapeStringContent md data h stack dst L). Qed.

(** the float layer of the instance is the model's float layer over the regenerated tables *)
Lemma float_inst : float_ok i_ReadFloat64 (num_model fpT).
Proof. exact (float_ok_model fpT). Qed.

Lemma i_ReadValue_eq : i_ReadValue = ReadValue 10000 10000 mArr mObj mNull mBool mAppend mUnescape i_ReadFloat64.
Proof. unfold i_ReadValue. rewrite maxDepth_10000, vrMax_10000. reflexivity. Qed.
Lemma i_ReadObject_eq : i_ReadObject = ReadObject 10000 10000 mArr mObj mNull mBool mAppend mUnescape i_ReadFloat64.
Proof. unfold i_ReadObject. rewrite maxDepth_10000, vrMax_10000. reflexivity. Qed.
Lemma i_ReadArray_eq : i_ReadArray = ReadArray 10000 10000 mArr mObj mNull mBool mAppend mUnescape i_ReadFloat64.
Proof. unfold i_ReadArray. rewrite maxDepth_10000, vrMax_10000. reflexivity. Qed.

(** C03: the value tree *)
Theorem C03_ReadValue_tree : forall data, len data <= maxint ->
  match parse_ref (num_model fpT) data with
  | Some (t, p) => i_ReadValue data = Some (t, p, None)
  | None => exists v p e, i_ReadValue data = Some (v, p, Some e)
  end.
Proof.
  intros data L. rewrite i_ReadValue_eq.
  exact (read_value_tree_impl mArr mObj mNull mBool mAppend mUnescape so_arr so_obj so_null so_bool so_append so_unescape
           i_ReadFloat64 (num_model fpT) float_inst data L).
Qed.

Theorem C03_ReadObject_tree : forall data, len data <= maxint ->
  match parse_typed_ref (num_model fpT) true data with
  | Some (t, p) => i_ReadObject data = Some (t, p, None)
  | None => exists v p e, i_ReadObject data = Some (v, p, Some e)
  end.
Proof.
  intros data L. rewrite i_ReadObject_eq.
  exact (read_object_tree_impl mArr mObj mNull mBool mAppend mUnescape so_arr so_obj so_null so_bool so_append so_unescape
           i_ReadFloat64 (num_model fpT) float_inst data L).
Qed.

Theorem C03_ReadArray_tree : forall data, len data <= maxint ->
  match parse_typed_ref (num_model fpT) false data with
  | Some (t, p) => i_ReadArray data = Some (t, p, None)
  | None => exists v p e, i_ReadArray data = Some (v, p, Some e)
  end.
Proof.
  intros data L. rewrite i_ReadArray_eq.
  exact (read_array_tree_impl mArr mObj mNull mBool mAppend mUnescape so_arr so_obj so_null so_bool so_append so_unescape
           i_ReadFloat64 (num_model fpT) float_inst data L).
Qed.

(** the reader never runs out of fuel and never panics in the model (part of C10/C15) *)
Theorem C03_ReadValue_total : forall data, len data <= maxint -> i_ReadValue data <> None.
Proof.
  intros data L. rewrite i_ReadValue_eq.
  exact (read_value_total_impl mArr mObj mNull mBool mAppend mUnescape so_arr so_obj so_null so_bool so_append so_unescape
           i_ReadFloat64 (num_model fpT) float_inst data L).
Qed.

(** C08: a successful generic read ends exactly where SkipValue ends *)
Theorem C08_ReadValue_offset_is_SkipValue : forall data t p b, len data <= maxint ->
  i_ReadValue data = Some (t, p, None) -> fst (i_SkipValue data b) = inl (p, None).
Proof.
  intros data t p b L H. rewrite i_ReadValue_eq in H.
  pose proof (read_value_offset_is_skip_impl mArr mObj mNull mBool mAppend mUnescape so_arr so_obj so_null so_bool so_append
                so_unescape i_ReadFloat64 (num_model fpT) float_inst data t p L H) as S.
  pose proof (C02_SkipValue_exact data b L) as C. rewrite S in C. exact C.
Qed.

(** C08, composition: wherever direct decoding succeeds, the tree is the reference tree and its
    offset is SkipValue's offset; wherever SkipValue rejects, direct decoding fails *)
Corollary C08_direct_fails_where_SkipValue_fails : forall data b, len data <= maxint ->
  (forall p, fst (i_SkipValue data b) <> inl (p, None)) ->
  exists v p e, i_ReadValue data = Some (v, p, Some e).
Proof.
  intros data b L NS. pose proof (C03_ReadValue_tree data L) as T.
  destruct (parse_ref (num_model fpT) data) as [[t p]|]; [|exact T].
  exfalso. apply (NS p). eapply C08_ReadValue_offset_is_SkipValue; eauto.
Qed.

(** C08, traversal: HandleArrayValues / HandleObjectValues over the regenerated handler machines,
    with a handler that answers each call either with an error or with the end offset of a
    successful nested read (ValueReader style: [vr_style]), end - on success - at the offset of the
    reference skipper without depth bound, which is SkipValue's offset whenever SkipValue accepts *)
Lemma handle_transport : forall (obj : bool) data h b, len data <= maxint ->
  fst ((if obj then i_HandleObjectValues else i_HandleArrayValues) data h b) = fst (HandleValues obj data h b).
Proof.
  intros obj data h b L. rewrite HandleValues_prun.
  destruct obj; unfold i_HandleObjectValues, i_HandleArrayValues, HandleObjectValues, HandleArrayValues,
    handleObjectValues_m, handleArrayValues_m; cbn [fst]; rewrite prun_c_eq, maxDepth_10000.
  - pose proof (so_obj 10000 data h (buf_stack b) [] L) as S. unfold mObj in *.
    destruct (prun 10000 (of_raw handleObjectValues_raw) data h (buf_stack b) []) as [p1 e1 s1| |];
      destruct (prun 10000 hobj_spec data h (buf_stack b) []) as [p2 e2 s2| |]; cbn in S; try discriminate; try reflexivity.
    inversion S; subst. reflexivity.
  - pose proof (so_arr 10000 data h (buf_stack b) [] L) as S. unfold mArr in *.
    destruct (prun 10000 (of_raw handleArrayValues_raw) data h (buf_stack b) []) as [p1 e1 s1| |];
      destruct (prun 10000 harr_spec data h (buf_stack b) []) as [p2 e2 s2| |]; cbn in S; try discriminate; try reflexivity.
    inversion S; subst. reflexivity.
Qed.

Theorem C08_traversal_offset : forall (obj : bool) data h b p, len data <= maxint -> vr_style data h ->
  fst ((if obj then i_HandleObjectValues else i_HandleArrayValues) data h b) = inl (p, None) ->
  skip_unb data = Some p /\ (forall b' p', fst (i_SkipValue data b') = inl (p', None) -> p' = p).
Proof.
  intros obj data h b p L V H. rewrite (handle_transport obj data h b L) in H.
  destruct (handle_offset_is_skip obj data h b p L V H) as [U F]. split; [exact U|].
  intros b' p' S. apply F. pose proof (C02_SkipValue_exact data b' L) as C.
  destruct (skip_ref data) as [m|].
  - rewrite C in S. inversion S. reflexivity.
  - destruct C as (q & e & C). rewrite C in S. discriminate.
Qed.

(** and conversely: on an array / object SkipValue accepts, the traversal with such a handler ends
    at SkipValue's offset or with the handler's own error (C09), never anywhere else *)
Theorem C08_traversal_exact : forall (obj : bool) data h b b' bb r p, len data <= maxint -> vr_style data h ->
  skipn (ws data) data = bb :: r -> isb (if obj then 123 else 91) bb = true ->
  fst (i_SkipValue data b') = inl (p, None) ->
  fst ((if obj then i_HandleObjectValues else i_HandleArrayValues) data h b) = inl (p, None) \/
  exists p' tok, fst ((if obj then i_HandleObjectValues else i_HandleArrayValues) data h b) = inl (p', Some (EHandler tok)).
Proof.
  intros obj data h b b' bb r p L V SK OB S. rewrite (handle_transport obj data h b L).
  apply (handle_offset_exact obj data h b bb r p L V SK OB).
  pose proof (C02_SkipValue_exact data b' L) as C.
  destruct (skip_ref data) as [m|].
  - rewrite C in S. inversion S. reflexivity.
  - destruct C as (q & e & C). rewrite C in S. discriminate.
Qed.

(** non-vacuity: a concrete document on the current tables *)
Example C03_example :
  exists t, i_ReadValue (map B [123; 34; 97; 34; 58; 91; 49; 44; 116; 114; 117; 101; 93; 125]) = Some (t, 14, None).
Proof. vm_compute. eexists. reflexivity. Qed.

Print Assumptions C03_ReadValue_tree.
Print Assumptions C03_ReadObject_tree.
Print Assumptions C03_ReadArray_tree.
Print Assumptions C03_ReadValue_total.
Print Assumptions C08_ReadValue_offset_is_SkipValue.
Print Assumptions C08_direct_fails_where_SkipValue_fails.
Print Assumptions C08_traversal_offset.
Print Assumptions C08_traversal_exact.
