(** C01 / C02 / C13 (literals) on the current tables, for ALL inputs: the regenerated machines
    are observationally equal to the specification machines (certified simulation, TieSim),
    which are proved equal to the reference semantics of Ref.v (SpecFacts.v). *)
From Coq Require Import List ZArith Bool Lia.
From Coq Require Import Strings.Byte.
From Rjson Require Import Base BaseFacts Helpers Machine MachineFacts Wf Safety Sim Api ApiFacts SpecMachines Ref SpecFacts.
From RjsonGen Require Import GenTables.
From RjsonRun Require Import Inst Tie TieWf TieSim.
Import ListNotations.
Local Open Scope Z_scope.

Lemma maxDepth_10000 : maxDepth = 10000.
Proof. exact tie_skipMaxDepth. Qed.

(** the wrapper results depend only on the observation of the machine run *)
Lemma pub_of_obs : forall o1 o2, obs o1 = obs o2 -> pub (of_outcome o1) = pub (of_outcome o2).
Proof. intros o1 o2 H. apply pub_pubc. apply pubc_obs. exact H. Qed.

(** C02: SkipValue returns exactly the reference end offset, or an error, whatever the buffer *)
Theorem C02_SkipValue_exact : forall data b, len data <= maxint ->
  match skip_ref data with
  | Some n => fst (i_SkipValue data b) = inl (n, None)
  | None => exists p e, fst (i_SkipValue data b) = inl (p, Some e)
  end.
Proof.
  intros data b L.
  assert (E : fst (i_SkipValue data b) = fst (SkipValue 10000 skip_spec data b)).
  { unfold i_SkipValue, SkipValue, skipValue_m. cbn [fst]. rewrite maxDepth_10000, !prun_c_eq.
    apply pub_of_obs. apply (skipValue_is_spec wf_skipValue); exact L. }
  rewrite E. apply SkipValue_spec_correct.
Qed.

(** C01: Valid is exactly the reference validity predicate, whatever the buffer *)
Theorem C01_Valid_exact : forall data b, len data <= maxint ->
  fst (i_Valid data b) = Some (valid_ref data).
Proof.
  intros data b L. rewrite <- (valid_spec_correct data b).
  unfold i_Valid, Valid, skipValue_m. cbn [fst]. rewrite maxDepth_10000, !prun_c_eq.
  apply Valid_of_pubc. apply pubc_obs. apply (skipValue_is_spec wf_skipValue); exact L.
Qed.

(** C13: ReadNull / ReadBool succeed exactly on the literals after optional whitespace *)
Theorem C13_ReadNull_exact : forall data, len data <= maxint ->
  match read_lit_ref lit_null data with
  | Some p => i_ReadNull data = inl (p, None)
  | None => exists p, i_ReadNull data = inl (p, Some ENotNull)
  end.
Proof.
  intros data L. unfold i_ReadNull, ReadNull, mNull. rewrite prun_c_eq.
  pose proof (readNull_is_spec wf_readNull maxDepth data no_handler [] [] L) as S.
  pose proof (null_spec_correct maxDepth data no_handler [] []) as N.
  destruct (read_lit_ref lit_null data) as [p|].
  - rewrite <- S in N. destruct (prun maxDepth (of_raw readNull_raw) data no_handler [] []) as [p' e' s'| |]; cbn in N; try discriminate.
    inversion N; subst. reflexivity.
  - destruct N as (p & N). rewrite <- S in N. exists p.
    destruct (prun maxDepth (of_raw readNull_raw) data no_handler [] []) as [p' e' s'| |]; cbn in N; try discriminate.
    inversion N; subst. reflexivity.
Qed.

Theorem C13_ReadBool_exact : forall data, len data <= maxint ->
  match read_bool_ref data with
  | Some (v, p) => i_ReadBool data = inl (v, p, None)
  | None => exists p, i_ReadBool data = inl (false, p, Some ENotBool)
  end.
Proof.
  intros data L. unfold i_ReadBool, ReadBool, mBool. rewrite prun_c_eq.
  pose proof (readBool_is_spec wf_readBool maxDepth data no_handler [] [] L) as S.
  pose proof (bool_spec_correct maxDepth data no_handler [] []) as N.
  destruct (read_bool_ref data) as [[v p]|].
  - rewrite <- S in N. destruct (prun maxDepth (of_raw readBool_raw) data no_handler [] []) as [p' e' s'| |]; cbn in N; try discriminate.
    inversion N; subst. reflexivity.
  - destruct N as (p & N). rewrite <- S in N. exists p.
    destruct (prun maxDepth (of_raw readBool_raw) data no_handler [] []) as [p' e' s'| |]; cbn in N; try discriminate.
    inversion N; subst. reflexivity.
Qed.

Print Assumptions C02_SkipValue_exact.
Print Assumptions C01_Valid_exact.
Print Assumptions C13_ReadNull_exact.
Print Assumptions C13_ReadBool_exact.
