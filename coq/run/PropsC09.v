(** C09 on the current tables: a handler error is returned by identity, whatever offset came
    with it, and no further handler call is made. *)
From Coq Require Import List ZArith.
From Coq Require Import Strings.Byte.
From Rjson Require Import Base Helpers Machine MachineFacts Wf Safety Api ApiFacts.
From RjsonGen Require Import GenTables.
From RjsonRun Require Import Inst TieWf.
Import ListNotations.
Local Open Scope Z_scope.

Lemma maxDepth_nonneg : 0 <= maxDepth. Proof. vm_compute. discriminate. Qed.

Theorem C09_HandleArrayValues : forall data h stack p e s, len data <= maxint ->
  i_handleArrayValues data h stack = MDone p e s ->
  (forall pre c cs, s_calls s = pre ++ c :: cs -> pre <> [] -> h_err (h (c :: cs)) = None) /\
  (forall tok, e = Some (EHandler tok) <->
               exists c cs, s_calls s = c :: cs /\ h_err (h (c :: cs)) = Some tok).
Proof. exact (HandleArrayValues_handler_error maxDepth maxDepth_nonneg handleArrayValues_raw wf_handleArrayValues). Qed.

Theorem C09_HandleObjectValues : forall data h stack p e s, len data <= maxint ->
  i_handleObjectValues data h stack = MDone p e s ->
  (forall pre c cs, s_calls s = pre ++ c :: cs -> pre <> [] -> h_err (h (c :: cs)) = None) /\
  (forall tok, e = Some (EHandler tok) <->
               exists c cs, s_calls s = c :: cs /\ h_err (h (c :: cs)) = Some tok).
Proof. exact (HandleObjectValues_handler_error maxDepth maxDepth_nonneg handleObjectValues_raw wf_handleObjectValues). Qed.

Print Assumptions C09_HandleArrayValues.
Print Assumptions C09_HandleObjectValues.
