(** The evaluator the correspondence check actually runs on large documents.

    The model of record of the generic reader (Api.ReadValue: the handler answers with a nested
    read, and the members are read again when the result is collected - exponential in the depth)
    is evaluated by the OCaml driver only on small documents; on the others it runs the
    ACCELERATED evaluator ReadValue_fast (the handler answers with SkipValue's offset, members are
    read once).  This file proves, on the REGENERATED tables and for ALL inputs, that the two agree:
    same tree and offset on success, failure exactly together - so what the correspondence check
    compares the implementation with IS the model the C03 theorems are about.  (The driver's
    table-indexed twins x_* are tied to these i_* definitions in TieFast.v.) *)
From Coq Require Import List ZArith Bool Lia.
From Coq Require Import Strings.Byte.
From Rjson Require Import Base BaseFacts Helpers Machine MachineFacts Wf Safety Sim Api ApiFacts SpecMachines Ref
  SpecFacts Fp ValueReader FloatTok OffsetFacts TreeFacts TreeTie TreeFast TreeFastTie.
From RjsonGen Require Import GenTables.
From RjsonRun Require Import Inst Tie TieWf TieSim PropsC02 PropsC03.
Import ListNotations.
Local Open Scope Z_scope.

Lemma so_skip : same_obs_m mSkip skip_spec.
Proof. intros md data h stack dst L. exact (skipValue_is_spec wf_skipValue md data h stack dst L). Qed.

Lemma i_ReadValue_fast_eq : i_ReadValue_fast = ReadValue_fast 10000 10000 mSkip mArr mObj mNull mBool mAppend mUnescape i_ReadFloat64.
Proof. unfold i_ReadValue_fast. rewrite maxDepth_10000, vrMax_10000. reflexivity. Qed.
Lemma i_ReadObject_fast_eq : i_ReadObject_fast = ReadObject_fast 10000 10000 mSkip mArr mObj mNull mBool mAppend mUnescape i_ReadFloat64.
Proof. unfold i_ReadObject_fast. rewrite maxDepth_10000, vrMax_10000. reflexivity. Qed.
Lemma i_ReadArray_fast_eq : i_ReadArray_fast = ReadArray_fast 10000 10000 mSkip mArr mObj mNull mBool mAppend mUnescape i_ReadFloat64.
Proof. unfold i_ReadArray_fast. rewrite maxDepth_10000, vrMax_10000. reflexivity. Qed.

Theorem C03_fast_evaluator_tree : forall data, len data <= maxint ->
  match parse_ref (num_model fpT) data with
  | Some (t, p) => i_ReadValue_fast data = Some (t, p, None)
  | None => exists v p e, i_ReadValue_fast data = Some (v, p, Some e)
  end.
Proof.
  intros data L. rewrite i_ReadValue_fast_eq.
  exact (read_value_fast_tree_impl mSkip mArr mObj mNull mBool mAppend mUnescape so_skip so_arr so_obj so_null so_bool so_append so_unescape
           i_ReadFloat64 (num_model fpT) float_inst data L).
Qed.

Theorem C03_fast_evaluator_agrees : forall data, len data <= maxint ->
  (forall t p, i_ReadValue data = Some (t, p, None) <-> i_ReadValue_fast data = Some (t, p, None)) /\
  ((exists v p e, i_ReadValue data = Some (v, p, Some e)) <-> (exists v p e, i_ReadValue_fast data = Some (v, p, Some e))).
Proof.
  intros data L. rewrite i_ReadValue_eq, i_ReadValue_fast_eq.
  exact (fast_agrees_with_record_impl mSkip mArr mObj mNull mBool mAppend mUnescape so_skip so_arr so_obj so_null so_bool so_append so_unescape
           i_ReadFloat64 (num_model fpT) float_inst data L).
Qed.

Theorem C03_fast_object_agrees : forall data, len data <= maxint ->
  (forall t p, i_ReadObject data = Some (t, p, None) <-> i_ReadObject_fast data = Some (t, p, None)) /\
  ((exists v p e, i_ReadObject data = Some (v, p, Some e)) <-> (exists v p e, i_ReadObject_fast data = Some (v, p, Some e))).
Proof.
  intros data L. rewrite i_ReadObject_eq, i_ReadObject_fast_eq.
  exact (fast_object_agrees_with_record_impl mSkip mArr mObj mNull mBool mAppend mUnescape so_skip so_arr so_obj so_null so_bool so_append so_unescape
           i_ReadFloat64 (num_model fpT) float_inst data L).
Qed.

Theorem C03_fast_array_agrees : forall data, len data <= maxint ->
  (forall t p, i_ReadArray data = Some (t, p, None) <-> i_ReadArray_fast data = Some (t, p, None)) /\
  ((exists v p e, i_ReadArray data = Some (v, p, Some e)) <-> (exists v p e, i_ReadArray_fast data = Some (v, p, Some e))).
Proof.
  intros data L. rewrite i_ReadArray_eq, i_ReadArray_fast_eq.
  exact (fast_array_agrees_with_record_impl mSkip mArr mObj mNull mBool mAppend mUnescape so_skip so_arr so_obj so_null so_bool so_append so_unescape
           i_ReadFloat64 (num_model fpT) float_inst data L).
Qed.

Print Assumptions C03_fast_evaluator_tree.
Print Assumptions C03_fast_evaluator_agrees.
Print Assumptions C03_fast_object_agrees.
Print Assumptions C03_fast_array_agrees.
