(** C07 / C11 / C06 on the current tables, for ALL inputs: the regenerated handler, fast-skip and
    escape machines are observationally equal to their specification machines (TieSim), which
    are proved against the reference semantics (SpecFacts2.v, SpecFacts3.v). *)
From Coq Require Import List ZArith Bool Lia.
From Coq Require Import Strings.Byte.
From Rjson Require Import Base BaseFacts Helpers Machine MachineFacts Wf Safety Sim Api ApiFacts SpecMachines Ref SpecFacts SpecFacts2 SpecFacts3.
From RjsonGen Require Import GenTables.
From RjsonRun Require Import Inst Tie TieWf TieSim PropsC02.
Import ListNotations.
Local Open Scope Z_scope.

(** C11: wherever the reference (hence, by C02_SkipValue_exact, SkipValue) accepts with end
    offset n, SkipValueFast accepts with the same offset, whatever the buffers *)
Theorem C11_fast_agrees : forall data b n, len data <= maxint ->
  skip_ref data = Some n -> fst (i_SkipValueFast data b) = inl (n, None).
Proof.
  intros data b n L H.
  destruct (fast_agrees_spec data (buf_stack b) n H) as (s & E).
  unfold i_SkipValueFast, SkipValueFast, skipValueFast_m. cbn [fst]. rewrite maxDepth_10000, prun_c_eq.
  pose proof (skipValueFast_is_spec wf_skipValueFast 10000 data no_handler (buf_stack b) [] L) as S.
  rewrite E in S. unfold mSkipFast.
  destruct (prun 10000 (of_raw skipValueFast_raw) data no_handler (buf_stack b) []) as [p' e' s'| |]; cbn in S; try discriminate.
  inversion S; subst. reflexivity.
Qed.

Corollary C11_SkipValueFast_agrees_with_SkipValue : forall data b b' n, len data <= maxint ->
  fst (i_SkipValue data b) = inl (n, None) -> fst (i_SkipValueFast data b') = inl (n, None).
Proof.
  intros data b b' n L H. apply C11_fast_agrees; [exact L|].
  pose proof (C02_SkipValue_exact data b L) as C. destruct (skip_ref data) as [m|].
  - rewrite C in H. inversion H. reflexivity.
  - destruct C as (p & e & C). rewrite C in H. discriminate.
Qed.

(** C07: with a well-behaved handler (each call answered 0 or the exact end of the value it was
    given, no error) the traversal succeeds exactly on null / a well-formed array (object), the
    handler is called once per member in document order at the first byte of the member's value
    (and with the raw key bytes), and the offset is just after the closing bracket *)
Lemma C07_generic : forall rm spec (obj : bool) data h stack, len data <= maxint ->
  (forall md data h stack dst, len data <= maxint ->
      obs (prun md (of_raw rm) data h stack dst) = obs (prun md spec data h stack dst)) ->
  match members_ref obj data with
  | Some (ms, e) => exists s, prun 10000 spec data h stack [] = ODone e None s /\ map callpair (rev (s_calls s)) = ms
  | None => exists p e s, prun 10000 spec data h stack [] = ODone p (Some e) s
  end ->
  match members_ref obj data with
  | Some (ms, e) => exists s, of_outcome (prun_c maxDepth (of_raw rm) data h stack []) = MDone e None s /\ map callpair (rev (s_calls s)) = ms
  | None => exists p e s, of_outcome (prun_c maxDepth (of_raw rm) data h stack []) = MDone p (Some e) s
  end.
Proof.
  intros rm spec obj data h stack L SIM M.
  rewrite prun_c_eq, maxDepth_10000.
  pose proof (SIM 10000 data h stack [] L) as S.
  destruct (members_ref obj data) as [[ms e]|].
  - destruct M as (s & E & C). rewrite E in S.
    destruct (prun 10000 (of_raw rm) data h stack []) as [p' e' s'| |]; cbn in S; try discriminate.
    inversion S; subst. exists s'. split; [reflexivity|]. congruence.
  - destruct M as (p & e & s & E). rewrite E in S.
    destruct (prun 10000 (of_raw rm) data h stack []) as [p' e' s'| |]; cbn in S; try discriminate.
    inversion S; subst. do 3 eexists. reflexivity.
Qed.

Theorem C07_array_traversal : forall data h stack, len data <= maxint -> well_behaved data h ->
  match members_ref false data with
  | Some (ms, e) => exists s, i_handleArrayValues data h stack = MDone e None s /\ map callpair (rev (s_calls s)) = ms
  | None => exists p e s, i_handleArrayValues data h stack = MDone p (Some e) s
  end.
Proof.
  intros data h stack L WB.
  exact (C07_generic handleArrayValues_raw harr_spec false data h stack L
           (handleArrayValues_is_spec wf_handleArrayValues) (members_spec_correct false data h stack [] L WB)).
Qed.

Theorem C07_object_traversal : forall data h stack, len data <= maxint -> well_behaved data h ->
  match members_ref true data with
  | Some (ms, e) => exists s, i_handleObjectValues data h stack = MDone e None s /\ map callpair (rev (s_calls s)) = ms
  | None => exists p e s, i_handleObjectValues data h stack = MDone p (Some e) s
  end.
Proof.
  intros data h stack L WB.
  exact (C07_generic handleObjectValues_raw hobj_spec true data h stack L
           (handleObjectValues_is_spec wf_handleObjectValues) (members_spec_correct true data h stack [] L WB)).
Qed.

(** C06 / C16: ReadStringBytes succeeds exactly when the reference string reader does, with the
    offset after the closing quote and the value = destination ++ decoded content *)
Theorem C06_ReadStringBytes_exact : forall data buf, len data <= maxint ->
  match read_string_ref data buf with
  | Some (v, p) => i_ReadStringBytes data buf = Some (v, p, None)
  | None => exists v p e, i_ReadStringBytes data buf = Some (v, p, Some e)
  end.
Proof.
  intros data buf L.
  assert (E : i_ReadStringBytes data buf = ReadStringBytes maxDepth append_spec data buf).
  { assert (A : forall d dst, len d <= maxint -> appendRemainderOfString maxDepth mAppend d dst = appendRemainderOfString maxDepth append_spec d dst).
    { intros d dst Ld. unfold appendRemainderOfString, str_machine, mAppend. rewrite !prun_c_eq.
      pose proof (appendRemainderOfString_is_spec wf_appendRemainderOfString maxDepth d no_handler [] dst Ld) as S.
      destruct (prun maxDepth (of_raw appendRemainderOfString_raw) d no_handler [] dst) as [p1 e1 s1| |];
        destruct (prun maxDepth append_spec d no_handler [] dst) as [p2 e2 s2| |]; cbn in S; try discriminate; try reflexivity.
      inversion S; subst. reflexivity. }
    assert (SL : forall (k : nat) (l : list byte), len (skipn k l) <= len l).
    { intros k l. unfold len. rewrite skipn_length. lia. }
    unfold i_ReadStringBytes, ReadStringBytes.
    destruct (skipn (Z.to_nat (countWhitespace data)) data) as [|q body] eqn:SK0; [reflexivity|].
    destruct (negb (bz q =? 34)); [reflexivity|].
    set (n := count_while (fun b : byte => negb (str_stop b)) body).
    destruct (skipn n body) as [|c rest] eqn:SK; [reflexivity|].
    destruct (bz c =? 34); [reflexivity|].
    rewrite A; [reflexivity|].
    pose proof (SL n body) as H1. rewrite SK in H1.
    pose proof (SL (Z.to_nat (countWhitespace data)) data) as H2. rewrite SK0 in H2.
    unfold len in *. cbn [length] in *. lia. }
  rewrite E. apply ReadStringBytes_spec_correct.
Qed.

Print Assumptions C11_fast_agrees.
Print Assumptions C07_array_traversal.
Print Assumptions C07_object_traversal.
Print Assumptions C06_ReadStringBytes_exact.
