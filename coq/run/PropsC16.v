(** C16 (the part a pure model can carry) and C19 (the stack-growth logic) on the current tables. *)
From Coq Require Import List ZArith Bool.
From Coq Require Import Strings.Byte.
From Rjson Require Import Base Helpers Machine MachineFacts Wf Safety Api ApiFacts Frame.
From RjsonGen Require Import GenTables.
From RjsonRun Require Import Inst TieWf.
Import ListNotations.
Local Open Scope Z_scope.

(** append semantics: ReadStringBytes with destination [buf] = [buf] followed by exactly what it
    produces with an empty destination, same offset; errors and abnormal outcomes coincide *)
Theorem C16_ReadStringBytes_append : forall data buf,
  match i_ReadStringBytes data [] with
  | Some (v0, p, None) => i_ReadStringBytes data buf = Some (buf ++ v0, p, None)
  | Some (v0, p, Some e) => exists v, i_ReadStringBytes data buf = Some (v, p, Some e)
  | None => i_ReadStringBytes data buf = None
  end.
Proof. exact (ReadStringBytes_frame maxDepth mAppend). Qed.

Theorem C16_UnescapeStringContent_append : forall data dst,
  i_UnescapeStringContent data dst = option_map (with_dst dst) (i_UnescapeStringContent data []).
Proof. exact (UnescapeStringContent_frame maxDepth mUnescape). Qed.

(** scratch independence: what ReadString returns does not depend on the scratch buffer *)
Theorem C16_ReadString_scratch_irrelevant : forall data b1 b2,
  rs_proj (i_ReadString data b1) = rs_proj (i_ReadString data b2).
Proof. exact (ReadString_scratch_irrelevant maxDepth mAppend). Qed.

(** C19 (logic part): calling a machine again on the same document with the stack it returned
    (what the wrappers store back into the Buffer) grows nothing: same length, zero growth events *)
Lemma maxDepth_nonneg' : 0 <= maxDepth. Proof. vm_compute. discriminate. Qed.

Theorem C19_skipValue_rerun_no_growth : forall data stack p e s, len data <= maxint ->
  prun maxDepth mSkip data no_handler stack [] = ODone p e s ->
  exists p' e' s', prun maxDepth mSkip data no_handler (s_stack s) [] = ODone p' e' s' /\
    s_cap s' = s_cap s /\ len (s_stack s') = len (s_stack s) /\
    prun_grows maxDepth mSkip data no_handler (s_stack s) [] = O.
Proof.
  intros data stack p e s L E.
  exact (rerun_no_growth skipValue_raw maxDepth data no_handler stack [] p e s [] wf_skipValue maxDepth_nonneg' L E).
Qed.

Theorem C19_handlers_rerun_no_growth : forall rm, In rm [handleArrayValues_raw; handleObjectValues_raw; skipValueFast_raw] ->
  forall data h stack p e s, len data <= maxint ->
  prun maxDepth (of_raw rm) data h stack [] = ODone p e s ->
  exists p' e' s', prun maxDepth (of_raw rm) data h (s_stack s) [] = ODone p' e' s' /\
    s_cap s' = s_cap s /\ len (s_stack s') = len (s_stack s) /\
    prun_grows maxDepth (of_raw rm) data h (s_stack s) [] = O.
Proof.
  intros rm H data h stack p e s L E. cbn [In] in H. destruct H as [<-|[<-|[<-|[]]]].
  - exact (rerun_no_growth _ maxDepth data h stack [] p e s [] wf_handleArrayValues maxDepth_nonneg' L E).
  - exact (rerun_no_growth _ maxDepth data h stack [] p e s [] wf_handleObjectValues maxDepth_nonneg' L E).
  - exact (rerun_no_growth _ maxDepth data h stack [] p e s [] wf_skipValueFast maxDepth_nonneg' L E).
Qed.

Print Assumptions C16_ReadStringBytes_append.
Print Assumptions C16_ReadString_scratch_irrelevant.
Print Assumptions C19_skipValue_rerun_no_growth.
Print Assumptions C19_handlers_rerun_no_growth.
