(** C13, type exclusivity on the current tables: a typed reader (model over the REGENERATED
    literal tables, resp. the generic reader over all regenerated tables) succeeds only on an
    input whose first token NextTokenType classifies as the reader's own type - null included:
    ReadArray / ReadObject refuse null, ReadNull accepts nothing else.  The integer, float and
    string readers are covered by ExclusiveFacts.accepts_classified (hand models, no tables
    involved except the string machine, which TieSim ties to its specification). *)
From Coq Require Import List ZArith Bool Lia.
From Coq Require Import Strings.Byte.
From Rjson Require Import Base BaseFacts Helpers Machine MachineFacts Wf Safety Sim Api ApiFacts SpecMachines Ref
  SpecFacts ExclusiveFacts Fp ValueReader FloatTok OffsetFacts TreeFacts TreeTie.
From RjsonGen Require Import GenTables.
From RjsonRun Require Import Inst Tie TieWf TieSim PropsC02 PropsC03.
Import ListNotations.
Local Open Scope Z_scope.

Theorem C13_ReadNull_exclusive : forall data p, len data <= maxint ->
  i_ReadNull data = inl (p, None) -> fst (fst (NextTokenType data)) = NullType.
Proof.
  intros data p L H. pose proof (C13_ReadNull_exact data L) as C.
  destruct (read_lit_ref lit_null data) as [p0|] eqn:R.
  - destruct (read_lit_ref_head _ _ _ _ R) as (b & r & E & B).
    rewrite (classified data b r E). apply n_tok_null. exact B.
  - destruct C as (p' & C). rewrite C in H. discriminate.
Qed.

Theorem C13_ReadBool_exclusive : forall data v p, len data <= maxint ->
  i_ReadBool data = inl (v, p, None) ->
  fst (fst (NextTokenType data)) = (if v then TrueType else FalseType).
Proof.
  intros data v p L H. pose proof (C13_ReadBool_exact data L) as C. unfold read_bool_ref in C.
  destruct (read_lit_ref lit_true data) as [pt|] eqn:RT.
  - rewrite C in H. inversion H; subst.
    destruct (read_lit_ref_head _ _ _ _ RT) as (b & r & E & B).
    rewrite (classified data b r E). apply t_tok_true. exact B.
  - destruct (read_lit_ref lit_false data) as [pf|] eqn:RF; cbn [option_map] in C.
    + rewrite C in H. inversion H; subst.
      destruct (read_lit_ref_head _ _ _ _ RF) as (b & r & E & B).
      rewrite (classified data b r E). apply f_tok_false. exact B.
    + destruct C as (p' & C). rewrite C in H. discriminate.
Qed.

Lemma bracket_tok : forall b, isb 91 b = true -> tok_type b = ArrayStartType.
Proof. intros b; destruct b; intros H; try reflexivity; discriminate H. Qed.
Lemma brace_tok : forall b, isb 123 b = true -> tok_type b = ObjectStartType.
Proof. intros b; destruct b; intros H; try reflexivity; discriminate H. Qed.

Theorem C13_ReadArray_exclusive : forall data t p, len data <= maxint ->
  i_ReadArray data = Some (t, p, None) -> fst (fst (NextTokenType data)) = ArrayStartType.
Proof.
  intros data t p L H. pose proof (C03_ReadArray_tree data L) as C. unfold parse_typed_ref in C.
  unfold ws in C. destruct (skipn (count_while is_ws data) data) as [|b r] eqn:E.
  - destruct C as (v & q & e & C). rewrite C in H. discriminate.
  - destruct (isb 91 b) eqn:B.
    + rewrite (classified data b r E). apply bracket_tok. exact B.
    + destruct C as (v & q & e & C). rewrite C in H. discriminate.
Qed.

Theorem C13_ReadObject_exclusive : forall data t p, len data <= maxint ->
  i_ReadObject data = Some (t, p, None) -> fst (fst (NextTokenType data)) = ObjectStartType.
Proof.
  intros data t p L H. pose proof (C03_ReadObject_tree data L) as C. unfold parse_typed_ref in C.
  unfold ws in C. destruct (skipn (count_while is_ws data) data) as [|b r] eqn:E.
  - destruct C as (v & q & e & C). rewrite C in H. discriminate.
  - destruct (isb 123 b) eqn:B.
    + rewrite (classified data b r E). apply brace_tok. exact B.
    + destruct C as (v & q & e & C). rewrite C in H. discriminate.
Qed.

(** hence no input is accepted by two of them *)
Corollary C13_null_not_array_not_object : forall data p, len data <= maxint ->
  i_ReadNull data = inl (p, None) ->
  (forall t q, i_ReadArray data <> Some (t, q, None)) /\ (forall t q, i_ReadObject data <> Some (t, q, None)).
Proof.
  intros data p L H. pose proof (C13_ReadNull_exclusive data p L H) as N. split; intros t q A.
  - rewrite (C13_ReadArray_exclusive data t q L A) in N. discriminate.
  - rewrite (C13_ReadObject_exclusive data t q L A) in N. discriminate.
Qed.

Print Assumptions C13_ReadNull_exclusive.
Print Assumptions C13_ReadBool_exclusive.
Print Assumptions C13_ReadArray_exclusive.
Print Assumptions C13_ReadObject_exclusive.
Print Assumptions C13_null_not_array_not_object.
