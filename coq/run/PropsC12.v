(** C12 on the current tables, for ALL inputs and ALL initial target values: each Decode function
    (model of decode.go over the REGENERATED readNull / readBool / string tables)
      - stores the reader's value and returns the reader's offset when its reader succeeds;
      - otherwise, when the input is optional whitespace followed by the literal null
        (Ref.read_lit_ref lit_null: the reference for ReadNull, C13), returns the offset just after
        null, no error, and leaves the target as it was;
      - otherwise returns the reader's own error (offset 0) and leaves the target as it was.
    In particular the target is written only on success, and a Decode function never ends
    abnormally. *)
From Coq Require Import List ZArith Bool Lia.
From Coq Require Import Strings.Byte.
From Rjson Require Import Base BaseFacts Helpers Machine MachineFacts Wf Safety Sim Api ApiFacts DecodeFacts SpecMachines Ref SpecFacts.
From RjsonGen Require Import GenTables.
From RjsonRun Require Import Inst Tie TieWf TieSim PropsC02.
Import ListNotations.
Local Open Scope Z_scope.

(** the closed form, with the reference for null in place of the machine *)
Definition decode_closed {T} (rd : list byte -> T * Z * option errk) (data : list byte) (v0 : T)
  : option (Z * option errk * T) :=
  match rd data with
  | (v, p, None) => Some (p, None, v)
  | (_, _, Some e) =>
    match read_lit_ref lit_null data with
    | Some pn => Some (pn, None, v0)
    | None => Some (0, Some e, v0)
    end
  end.

Lemma nullOrBust_closed : forall {T} data e (v0 : T), len data <= maxint ->
  nullOrBust maxDepth mNull data e v0 =
  match read_lit_ref lit_null data with Some pn => Some (pn, None, v0) | None => Some (0, Some e, v0) end.
Proof.
  intros T data e v0 L. unfold nullOrBust. pose proof (C13_ReadNull_exact data L) as N. unfold i_ReadNull in N.
  destruct (read_lit_ref lit_null data) as [pn|].
  - rewrite N. reflexivity.
  - destruct N as (p & N). rewrite N. reflexivity.
Qed.

Theorem C12_decode_with : forall {T} (rd : list byte -> T * Z * option errk) data v0, len data <= maxint ->
  decode_with maxDepth mNull rd data v0 = decode_closed rd data v0.
Proof.
  intros T rd data v0 L. unfold decode_with, decode_closed.
  destruct (rd data) as [[v p] [e|]]; [|reflexivity]. apply nullOrBust_closed. exact L.
Qed.

Theorem C12_DecodeInt64 : forall data v0, len data <= maxint -> i_DecodeInt64 data v0 = decode_closed ReadInt64 data v0.
Proof. intros. apply C12_decode_with; assumption. Qed.
Theorem C12_DecodeInt32 : forall data v0, len data <= maxint -> i_DecodeInt32 data v0 = decode_closed ReadInt32 data v0.
Proof. intros. apply C12_decode_with; assumption. Qed.
Theorem C12_DecodeInt : forall data v0, len data <= maxint -> i_DecodeInt data v0 = decode_closed ReadInt data v0.
Proof. intros. apply C12_decode_with; assumption. Qed.
Theorem C12_DecodeUint64 : forall data v0, len data <= maxint -> i_DecodeUint64 data v0 = decode_closed ReadUint64 data v0.
Proof. intros. apply C12_decode_with; assumption. Qed.
Theorem C12_DecodeUint32 : forall data v0, len data <= maxint -> i_DecodeUint32 data v0 = decode_closed ReadUint32 data v0.
Proof. intros. apply C12_decode_with; assumption. Qed.
Theorem C12_DecodeUint : forall data v0, len data <= maxint -> i_DecodeUint data v0 = decode_closed ReadUint data v0.
Proof. intros. apply C12_decode_with; assumption. Qed.
Theorem C12_DecodeFloat64 : forall data v0, len data <= maxint -> i_DecodeFloat64 data v0 = decode_closed i_ReadFloat64 data v0.
Proof. intros. apply C12_decode_with; assumption. Qed.

Theorem C12_DecodeBool : forall data v0, len data <= maxint ->
  i_DecodeBool data v0 =
  match i_ReadBool data with
  | inl (v, p, None) => Some (p, None, v)
  | inl (_, _, Some e) =>
    match read_lit_ref lit_null data with Some pn => Some (pn, None, v0) | None => Some (0, Some e, v0) end
  | inr _ => None
  end.
Proof.
  intros data v0 L. unfold i_DecodeBool, DecodeBool, i_ReadBool.
  destruct (ReadBool maxDepth mBool data) as [[[v p] [e|]]|]; try reflexivity.
  apply nullOrBust_closed. exact L.
Qed.

Theorem C12_DecodeString : forall data v0 buf, len data <= maxint ->
  i_DecodeString data v0 buf =
  match i_ReadString data buf with
  | Some (v, p, None, _) => Some (p, None, v)
  | Some (_, _, Some e, _) =>
    match read_lit_ref lit_null data with Some pn => Some (pn, None, v0) | None => Some (0, Some e, v0) end
  | None => None
  end.
Proof.
  intros data v0 buf L. unfold i_DecodeString, DecodeString, i_ReadString.
  destruct (ReadString maxDepth mAppend data buf) as [[[[v p] [e|]] b]|]; try reflexivity.
  apply nullOrBust_closed. exact L.
Qed.

(** the target is written only on success *)
Corollary C12_target_unchanged_unless_reader_succeeds : forall {T} (rd : list byte -> T * Z * option errk) data v0 p e v,
  len data <= maxint -> decode_with maxDepth mNull rd data v0 = Some (p, e, v) ->
  (exists v', rd data = (v', p, None) /\ v = v' /\ e = None) \/ v = v0.
Proof. intros T rd data v0 p e v _ H. exact (decode_target_written_only_on_success maxDepth mNull rd data v0 p e v H). Qed.

(** never abnormal *)
Corollary C12_decode_total : forall {T} (rd : list byte -> T * Z * option errk) data v0,
  decode_with maxDepth mNull rd data v0 <> None.
Proof. intros T rd data v0. exact (decode_with_total maxDepth readNull_raw wf_readNull nj_readNull T rd data v0). Qed.

Print Assumptions C12_decode_with.
Print Assumptions C12_DecodeInt64.
Print Assumptions C12_DecodeFloat64.
Print Assumptions C12_DecodeBool.
Print Assumptions C12_DecodeString.
Print Assumptions C12_target_unchanged_unless_reader_succeeds.
Print Assumptions C12_decode_total.
