(** C04 on the current tables: for every JSON number literal whose integer part has at most 800
    significant digits (the fraction may be arbitrarily long) and whose exponent is written with at
    most 5 significant digits, ReadFloat64 / ParseJSONFloatPrefix over the REGENERATED tables
    (128-bit powers of ten, float64 powers of ten, left-shift cheat table, constants; proved exact
    row by row in TieFp on every run) consume exactly the literal and return the float64 that
    round-to-nearest-even (Round.round_ne, over exact integers) assigns to its exact value, or the
    range error exactly when that overflows.  No hypothesis about which path (exact, Eisel-Lemire,
    decimal) the literal takes, and none about truncation inside the decimal path (FpFull.v,
    FpFull2.v: the sticky-flag invariant).  The two excluded shapes are the recorded findings
    (> 800 significant integer digits; exponents of >= 6 digits), for which the statement is
    refuted on the model (FpFacts.parse_correct_full_false). *)
From Coq Require Import List ZArith Bool Lia.
From Coq Require Import Strings.Byte.
From Rjson Require Import Base Helpers Round Fp FpSpec FpTables FpScan FpFacts FpFull FpFull2 FloatTok TreeFacts.
From RjsonGen Require Import GenTables GenFp.
From RjsonRun Require Import Inst Tie TieFp.
Import ListNotations.
Local Open Scope Z_scope.

Theorem C04_parse_correctly_rounded : forall j rest v n err,
  jn_wf j = true -> FpScan.exp_small j -> FpScan.rest_ok j rest ->
  len (strip0 (j_int j)) <= 800 ->
  ParseJSONFloatPrefix_m fpT (jn_bytes j ++ rest) = Some (v, n, err) ->
  n = len (jn_bytes j) /\ FpFacts.parse_result_ok j v err.
Proof. intros j rest v n err. exact (parse_correct_int800 fpT j rest v n err fp_tables_ok). Qed.

Theorem C04_ReadFloat64_correctly_rounded : forall ws j rest v p err,
  forallb is_ws ws = true ->
  jn_wf j = true -> FpScan.exp_small j -> FpScan.rest_ok j rest ->
  len (strip0 (j_int j)) <= 800 ->
  ReadFloat64_m fpT (ws ++ jn_bytes j ++ rest) = Some (v, p, err) ->
  p = len ws + len (jn_bytes j) /\
  exists e, err = option_map RfFp e /\ FpFacts.parse_result_ok j v e.
Proof. intros ws j rest v p err. exact (ReadFloat64_correct_int800 fpT ws j rest v p err fp_tables_ok). Qed.

(** the number leaves of the C03 value tree: the value [num_model fpT] gives a number token is its
    correctly rounded float64 (no value when it overflows) *)
Corollary C04_tree_numbers_correctly_rounded : forall j v n err,
  jn_wf j = true -> FpScan.exp_small j -> len (strip0 (j_int j)) <= 800 ->
  ParseJSONFloatPrefix_m fpT (jn_bytes j) = Some (v, n, err) ->
  num_model fpT (jn_bytes j) = if snd (jn_round j) then None else Some (fst (jn_round j)).
Proof.
  intros j v n err Hwf Hes H800 P.
  pose proof (C04_parse_correctly_rounded j [] v n err Hwf Hes I H800) as C. rewrite app_nil_r in C.
  destruct (C P) as [_ R]. unfold num_model. rewrite P. unfold FpFacts.parse_result_ok in R.
  destruct (snd (jn_round j)).
  - destruct R as [_ ->]. reflexivity.
  - destruct R as [-> ->]. reflexivity.
Qed.

Print Assumptions C04_parse_correctly_rounded.
Print Assumptions C04_ReadFloat64_correctly_rounded.
Print Assumptions C04_tree_numbers_correctly_rounded.
