(** Extraction of the executable model (ExtrOcamlBasic only; numbers stay positive/N/Z). *)
Require Extraction.
Require Import ExtrOcamlBasic.
From Coq Require Import List ZArith.
From Rjson Require Import Base Helpers Machine Api Compat Round Fp FpSpec ValueReader Cost.
From RjsonRun Require Import Inst.
Extraction "model.ml"
  Z.add Z.mul Z.sub Z.opp Z.div_eucl Z.of_nat Z.to_nat Z.eqb Z.ltb Z.leb Z.of_N
  bz zb wrap64 get len stack_of
  skipFloatDec skipFloatExp getu4 unescapeUnicodeChar
  NextToken NextTokenType ReadUint64 ReadUint32 ReadUint ReadInt64 ReadInt32 ReadInt
  x_skipValue x_skipValueFast x_handleArrayValues x_handleObjectValues
  x_SkipValue x_SkipValueFast x_Valid x_HandleArrayValues x_HandleObjectValues
  x_ReadNull x_ReadBool x_appendRemainderOfString x_UnescapeStringContent x_ReadStringBytes x_ReadString
  StdLibCompatibleString StdLibCompatibleStringBytes sanitize compat_tree
  fpT x_ReadFloat64 x_DecodeFloat64 x_ReadValue x_ReadObject x_ReadArray x_ReadValue_fast x_ReadObject_fast x_ReadArray_fast
  readFloat_m atof64exact_m eiselLemire64_m set_m floatBits_m ParseJSONFloatPrefix_m parse_spec_fast remembered_prev hints_prev
  x_DecodeInt64 x_DecodeInt32 x_DecodeInt x_DecodeUint64 x_DecodeUint32 x_DecodeUint x_DecodeBool x_DecodeString.
