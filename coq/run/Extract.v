(** Extraction of the executable model (ExtrOcamlBasic only; numbers stay positive/N/Z). *)
Require Extraction.
Require Import ExtrOcamlBasic.
From Coq Require Import List ZArith.
From Rjson Require Import Base Helpers Machine Api Compat.
From RjsonRun Require Import Inst.
Extraction "model.ml"
  Z.add Z.mul Z.sub Z.opp Z.div_eucl Z.of_nat Z.to_nat Z.eqb Z.ltb Z.leb Z.of_N
  bz zb wrap64 get len stack_of
  skipFloatDec skipFloatExp getu4 unescapeUnicodeChar
  NextToken NextTokenType ReadUint64 ReadUint32 ReadUint ReadInt64 ReadInt32 ReadInt
  i_skipValue i_skipValueFast i_handleArrayValues i_handleObjectValues
  i_SkipValue i_SkipValueFast i_Valid i_HandleArrayValues i_HandleObjectValues
  i_ReadNull i_ReadBool i_appendRemainderOfString i_UnescapeStringContent i_ReadStringBytes i_ReadString
  StdLibCompatibleString StdLibCompatibleStringBytes sanitize
  i_DecodeInt64 i_DecodeInt32 i_DecodeInt i_DecodeUint64 i_DecodeUint32 i_DecodeUint i_DecodeBool i_DecodeString.
