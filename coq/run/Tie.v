(** Tie lemmas over the regenerated data tables (compiled on every run): the spec-level
    predicates the hand models use are exactly what the code's 256-entry tables say, and
    the constants have the values the properties name.  All by finite computation. *)
From Coq Require Import List ZArith Bool Lia.
From Coq Require Import Strings.Byte.
From Rjson Require Import Base BaseFacts Helpers Machine Api.
From RjsonGen Require Import GenTables.
Import ListNotations.
Local Open Scope Z_scope.

Ltac sweep f g :=
  let b := fresh "b" in
  intro b; apply Bool.eqb_prop;
  exact (forall_bytes (fun b => Bool.eqb (f b) (g b)) ltac:(vm_compute; reflexivity) b).

Lemma tie_whitespace : forall b, zmem (bz b) tab_whitespace = is_ws b.
Proof. sweep (fun b => zmem (bz b) tab_whitespace) is_ws. Qed.
Lemma tie_digits : forall b, zmem (bz b) tab_digits = is_digit b.
Proof. sweep (fun b => zmem (bz b) tab_digits) is_digit. Qed.
Lemma tie_signBytes : forall b, zmem (bz b) tab_signBytes = is_sign b.
Proof. sweep (fun b => zmem (bz b) tab_signBytes) is_sign. Qed.
Lemma tie_expBytes : forall b, zmem (bz b) tab_expBytes = is_exp b.
Proof. sweep (fun b => zmem (bz b) tab_expBytes) is_exp. Qed.
Lemma tie_fp_digits : forall b, zmem (bz b) tab_fp_digits = is_digit b.
Proof. sweep (fun b => zmem (bz b) tab_fp_digits) is_digit. Qed.

Lemma tie_tokenTypes : forall b, nth (Z.to_nat (bz b)) tab_tokenTypes (-1) = tok_type b.
Proof.
  intro b. apply Z.eqb_eq.
  exact (forall_bytes (fun b => nth (Z.to_nat (bz b)) tab_tokenTypes (-1) =? tok_type b)
                      ltac:(vm_compute; reflexivity) b).
Qed.
Lemma tie_tokenTypes_len : length tab_tokenTypes = 256%nat.
Proof. vm_compute. reflexivity. Qed.

Lemma tie_token_consts :
  [const_tok_InvalidType; const_tok_NullType; const_tok_StringType; const_tok_NumberType;
   const_tok_TrueType; const_tok_FalseType; const_tok_ObjectStartType; const_tok_ObjectEndType;
   const_tok_ArrayStartType; const_tok_ArrayEndType; const_tok_CommaType; const_tok_ColonType]
  = [InvalidType; NullType; StringType; NumberType; TrueType; FalseType; ObjectStartType;
     ObjectEndType; ArrayStartType; ArrayEndType; CommaType; ColonType].
Proof. vm_compute. reflexivity. Qed.

Lemma tie_skipMaxDepth : const_skipMaxDepth = 10000.
Proof. reflexivity. Qed.
Lemma tie_valueReaderMaxDepth : const_valueReaderMaxDepth = 10000.
Proof. reflexivity. Qed.

(** the translator met nothing it could not interpret outside the machines *)
Lemma tie_no_issues : gen_issues = 0.
Proof. reflexivity. Qed.

(** every machine has the -G2 skeleton and the recorded prologue/epilogue *)
Lemma tie_skeletons :
  forallb (fun rm => rm_skel_ok rm && rm_frame_ok rm)
          [skipValue_raw; skipValueFast_raw; handleArrayValues_raw; handleObjectValues_raw;
           readNull_raw; readBool_raw; appendRemainderOfString_raw; unescapeStringContent_raw;
           skipStringFast_raw] = true.
Proof. vm_compute. reflexivity. Qed.
