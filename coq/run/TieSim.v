(** Per-run tie of the regenerated implementation tables to the hand-written specification
    machines of SpecMachines.v, by the certified simulation checker of Sim.v: for every
    machine the checker finds a relation between Ragel's states and specification states
    (context, position) under which both sides fire the same action units on every byte and
    at end of input.  With [sim_sound] (and TieWf's [wf_check]) every run of the
    implementation table equals, as an observation, the run of the specification machine. *)
From Coq Require Import List ZArith Bool.
From Coq Require Import Strings.Byte.
From Rjson Require Import Base Helpers Machine Sim SpecMachines.
From RjsonGen Require Import GenTables.
Import ListNotations.
Local Open Scope Z_scope.

Lemma sim_skipValue : sim_check skipValue_raw skip_spec [] = true.
Proof. vm_compute. reflexivity. Qed.
Lemma sim_skipValueFast : sim_check skipValueFast_raw skipfast_spec [] = true.
Proof. vm_compute. reflexivity. Qed.
Lemma sim_handleArrayValues : sim_check handleArrayValues_raw harr_spec [] = true.
Proof. vm_compute. reflexivity. Qed.
Lemma sim_handleObjectValues : sim_check handleObjectValues_raw hobj_spec [] = true.
Proof. vm_compute. reflexivity. Qed.
Lemma sim_readNull : sim_check readNull_raw null_spec [] = true.
Proof. vm_compute. reflexivity. Qed.
Lemma sim_readBool : sim_check readBool_raw bool_spec [] = true.
Proof. vm_compute. reflexivity. Qed.
Lemma sim_appendRemainderOfString : sim_check appendRemainderOfString_raw append_spec [] = true.
Proof. vm_compute. reflexivity. Qed.
Lemma sim_unescapeStringContent : sim_check unescapeStringContent_raw unescape_spec [] = true.
Proof. vm_compute. reflexivity. Qed.
(** dead code in /repo, tied for completeness *)
Lemma sim_skipStringFast : sim_check skipStringFast_raw skipstring_spec [] = true.
Proof. vm_compute. reflexivity. Qed.

(** the number of related pairs per machine (documentation: impl states x spec partners) *)
Example sim_pair_counts :
  map (fun p => length p)
      [sim_pairs skipValue_raw skip_spec []; sim_pairs skipValueFast_raw skipfast_spec [];
       sim_pairs handleArrayValues_raw harr_spec []; sim_pairs handleObjectValues_raw hobj_spec []]
  = map (fun rm => (length (rm_rows rm)))
      [skipValue_raw; skipValueFast_raw; handleArrayValues_raw; handleObjectValues_raw].
Proof. vm_compute. reflexivity. Qed.

(** the observational equalities, for all inputs, buffers and handlers (given TieWf's wf_check) *)
Section Transport.
  Variable wf : Machine.rawmachine -> bool.
  Theorem skipValue_is_spec : Wf.wf_check skipValue_raw = true ->
    forall md data h stack dst, len data <= maxint ->
    Safety.obs (prun md (of_raw skipValue_raw) data h stack dst) = Safety.obs (prun md skip_spec data h stack dst).
  Proof. intros W. apply (sim_sound _ _ [] sim_skipValue W). Qed.
End Transport.
