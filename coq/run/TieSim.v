(** Per-run tie of the regenerated implementation tables to the hand-written specification
    machines of SpecMachines.v, by the certified simulation checker of Sim.v: for every
    machine the checker finds a relation between Ragel's states and specification states
    (context, position) under which both sides fire the same action units on every byte and
    at end of input.  With [sim_sound] (and TieWf's [wf_check]) every run of the
    implementation table equals, as an observation, the run of the specification machine. *)
From Coq Require Import List ZArith Bool.
From Coq Require Import Strings.Byte.
From Rjson Require Import Base Helpers Machine Sim SpecMachines.
From RjsonGen Require Import GenTables.
Import ListNotations.
Local Open Scope Z_scope.

Lemma sim_skipValue : sim_check skipValue_raw skip_spec [] = true.
Proof. vm_compute. reflexivity. Qed.
Lemma sim_skipValueFast : sim_check skipValueFast_raw skipfast_spec [] = true.
Proof. vm_compute. reflexivity. Qed.
Lemma sim_handleArrayValues : sim_check handleArrayValues_raw harr_spec [] = true.
Proof. vm_compute. reflexivity. Qed.
Lemma sim_handleObjectValues : sim_check handleObjectValues_raw hobj_spec [] = true.
Proof. vm_compute. reflexivity. Qed.
Lemma sim_readNull : sim_check readNull_raw null_spec [] = true.
Proof. vm_compute. reflexivity. Qed.
Lemma sim_readBool : sim_check readBool_raw bool_spec [] = true.
Proof. vm_compute. reflexivity. Qed.
Lemma sim_appendRemainderOfString : sim_check appendRemainderOfString_raw append_spec [] = true.
Proof. vm_compute. reflexivity. Qed.
Lemma sim_unescapeStringContent : sim_check unescapeStringContent_raw unescape_spec [] = true.
Proof. vm_compute. reflexivity. Qed.
(** dead code in /repo, tied for completeness *)
Lemma sim_skipStringFast : sim_check skipStringFast_raw skipstring_spec [] = true.
Proof. vm_compute. reflexivity. Qed.

(** the checker does reject: a machine against the wrong specification *)
Example sim_rejects :
  sim_check readNull_raw bool_spec [] = false /\ sim_check skipValueFast_raw skip_spec [] = false.
Proof. vm_compute. auto. Qed.

(** the observational equalities, for all inputs, buffers and handlers; the hypothesis is
    TieWf's lemma of the same machine (kept as a hypothesis so that this file depends on Gen only) *)
Ltac transport L := intros W md data h stack dst LE; exact (sim_sound _ _ [] L W md data h stack dst LE).
Notation same_obs rm mS :=
  (Wf.wf_check rm = true -> forall md data h stack dst, len data <= maxint ->
   Safety.obs (prun md (of_raw rm) data h stack dst) = Safety.obs (prun md mS data h stack dst)).
Theorem skipValue_is_spec : same_obs skipValue_raw skip_spec. Proof. transport sim_skipValue. Qed.
Theorem skipValueFast_is_spec : same_obs skipValueFast_raw skipfast_spec. Proof. transport sim_skipValueFast. Qed.
Theorem handleArrayValues_is_spec : same_obs handleArrayValues_raw harr_spec. Proof. transport sim_handleArrayValues. Qed.
Theorem handleObjectValues_is_spec : same_obs handleObjectValues_raw hobj_spec. Proof. transport sim_handleObjectValues. Qed.
Theorem readNull_is_spec : same_obs readNull_raw null_spec. Proof. transport sim_readNull. Qed.
Theorem readBool_is_spec : same_obs readBool_raw bool_spec. Proof. transport sim_readBool. Qed.
Theorem appendRemainderOfString_is_spec : same_obs appendRemainderOfString_raw append_spec. Proof. transport sim_appendRemainderOfString. Qed.
Theorem unescapeStringContent_is_spec : same_obs unescapeStringContent_raw unescape_spec. Proof. transport sim_unescapeStringContent. Qed.
Print Assumptions skipValue_is_spec.
Print Assumptions handleObjectValues_is_spec.
