(** C10 for the two large hand-written readers, on the current tables, for ALL byte strings:
    the float reader (ParseJSONFloatPrefix / ReadFloat64 over the regenerated tables) never reaches
    the model's "panic or out of fuel" value and its offset always lies inside the input (FpTotal.v:
    every loop of scanner, decimal.set, both shifts and floatBits terminates within its bound, every
    table index is in range because the table lengths are part of tables_ok, which TieFp proves for
    the regenerated tables); the generic value reader never does either (TreeTie.read_value_total_impl
    through PropsC03). *)
From Coq Require Import List ZArith Bool Lia.
From Coq Require Import Strings.Byte.
From Rjson Require Import Base Helpers Round Fp FpSpec FpTables FpTotal Api.
From RjsonGen Require Import GenTables GenFp.
From RjsonRun Require Import Inst Tie TieFp TieWf TieSim PropsC02 PropsC03.
Import ListNotations.
Local Open Scope Z_scope.

Theorem C10_ParseJSONFloatPrefix_total : forall data, ParseJSONFloatPrefix_m fpT data <> None.
Proof. intros data. exact (parse_total fpT data fp_tables_ok). Qed.

Theorem C10_ReadFloat64_total : forall data, ReadFloat64_m fpT data <> None.
Proof. intros data. exact (ReadFloat64_total fpT data fp_tables_ok). Qed.

Theorem C10_ReadFloat64_offset : forall data v p e, i_ReadFloat64 data = (v, p, e) -> 0 <= p <= len data.
Proof.
  intros data v p e H. unfold i_ReadFloat64 in H.
  destruct (ReadFloat64_m fpT data) as [[[v' p'] e']|] eqn:E.
  - pose proof (ReadFloat64_offset fpT data v' p' e' E) as B.
    assert (P : p = p') by (destruct e'; inversion H; reflexivity). subst p'. lia.
  - exfalso. exact (C10_ReadFloat64_total data E).
Qed.

Theorem C10_ReadValue_total : forall data, len data <= maxint -> i_ReadValue data <> None.
Proof. exact C03_ReadValue_total. Qed.

Print Assumptions C10_ParseJSONFloatPrefix_total.
Print Assumptions C10_ReadFloat64_total.
Print Assumptions C10_ReadFloat64_offset.
Print Assumptions C10_ReadValue_total.
