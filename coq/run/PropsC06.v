(** C06, the clause "unescaping the bytes between the quotes on their own gives the same content":
    for ALL contents the reference decodes (Ref.decode_content: RFC 8259 escapes, surrogate pairs
    combined, lone surrogates replaced, raw bytes kept as they are) UnescapeStringContent over the
    REGENERATED unescapeStringContent table consumes the whole content and appends exactly the
    decoded bytes to its destination.  (The token form is PropsC07.C06_ReadStringBytes_exact.) *)
From Coq Require Import List ZArith Bool Lia.
From Coq Require Import Strings.Byte.
From Rjson Require Import Base BaseFacts Helpers Machine MachineFacts Wf Safety Sim Api ApiFacts SpecMachines Ref SpecFacts SpecFacts3.
From RjsonGen Require Import GenTables.
From RjsonRun Require Import Inst Tie TieWf TieSim PropsC02.
Import ListNotations.
Local Open Scope Z_scope.

Theorem C06_UnescapeStringContent_decodes : forall c out dst, len c <= maxint ->
  decode_content c = Some out ->
  i_UnescapeStringContent c dst = Some (dst ++ out, len c, None).
Proof.
  intros c out dst L D. unfold i_UnescapeStringContent, UnescapeStringContent, str_machine, mUnescape.
  rewrite prun_c_eq.
  pose proof (unescapeStringContent_is_spec wf_unescapeStringContent maxDepth c no_handler [] dst L) as S.
  rewrite (unescape_spec_correct maxDepth c out no_handler [] dst D) in S.
  destruct (prun maxDepth (of_raw unescapeStringContent_raw) c no_handler [] dst) as [p e s| |]; cbn in S; try discriminate.
  inversion S; subst. reflexivity.
Qed.

Print Assumptions C06_UnescapeStringContent_decodes.
