(** C10 on the current tables: every machine-backed entry point returns normally (no panic,
    terminates within the built-in fuel 2*|data|+2), and an offset reported with a nil error
    lies in [0, len data].  [len data <= maxint] holds for every Go slice. *)
From Coq Require Import List ZArith.
From Coq Require Import Strings.Byte.
From Rjson Require Import Base Helpers Machine MachineFacts Wf Safety Api ApiFacts.
From RjsonGen Require Import GenTables.
From RjsonRun Require Import Inst TieWf.
Import ListNotations.
Local Open Scope Z_scope.

Theorem C10_SkipValue : forall data b,
  exists p e b', i_SkipValue data b = (inl (p, e), b') /\ (e = None -> 0 <= p <= len data).
Proof. exact (SkipValue_total maxDepth skipValue_raw wf_skipValue nj_skipValue). Qed.

Theorem C10_SkipValueFast : forall data b,
  exists p e b', i_SkipValueFast data b = (inl (p, e), b') /\ (e = None -> 0 <= p <= len data).
Proof. exact (SkipValueFast_total maxDepth skipValueFast_raw wf_skipValueFast nj_skipValueFast). Qed.

Theorem C10_Valid : forall data b, exists v b', i_Valid data b = (Some v, b').
Proof. exact (Valid_total maxDepth skipValue_raw wf_skipValue nj_skipValue). Qed.

Theorem C10_HandleArrayValues : forall data h b, len data <= maxint ->
  exists p e b', i_HandleArrayValues data h b = (inl (p, e), b') /\ (e = None -> 0 <= p <= len data).
Proof. exact (HandleArrayValues_total maxDepth handleArrayValues_raw wf_handleArrayValues). Qed.

Theorem C10_HandleObjectValues : forall data h b, len data <= maxint ->
  exists p e b', i_HandleObjectValues data h b = (inl (p, e), b') /\ (e = None -> 0 <= p <= len data).
Proof. exact (HandleObjectValues_total maxDepth handleObjectValues_raw wf_handleObjectValues). Qed.

(** the literal and string machines: never panic, never run out of fuel, offsets in range *)
Theorem C10_literal_and_string_machines :
  forall rm, In rm [readNull_raw; readBool_raw; appendRemainderOfString_raw; unescapeStringContent_raw] ->
  forall data h stack dst,
  exists p e s, prun maxDepth (of_raw rm) data h stack dst = ODone p e s /\ (e = None -> 0 <= p <= len data).
Proof.
  intros rm H data h stack dst.
  assert (Hmd : 0 <= maxDepth) by (vm_compute; discriminate).
  cbn [In] in H. destruct H as [<-|[<-|[<-|[<-|[]]]]].
  - exact (machines_safe_nojump _ maxDepth data h stack dst wf_readNull nj_readNull Hmd).
  - exact (machines_safe_nojump _ maxDepth data h stack dst wf_readBool nj_readBool Hmd).
  - exact (machines_safe_nojump _ maxDepth data h stack dst wf_appendRemainderOfString nj_appendRemainderOfString Hmd).
  - exact (machines_safe_nojump _ maxDepth data h stack dst wf_unescapeStringContent nj_unescapeStringContent Hmd).
Qed.

(** a handler offset that does not fit inside the input is reported as errPOutOfRange and no
    further call is made -- for values whose handler offset the code consumes (strings, arrays,
    objects).  For numbers and literals the code discards the offset (known finding). *)
Theorem C10_offsets_out_of_range : forall data h stack p e s, len data <= maxint ->
  prun maxDepth mArr data h stack [] = ODone p e s ->
  forall pre c cs b, s_calls s = pre ++ c :: cs -> h_err (h (c :: cs)) = None ->
    get data (c_p c) = Some b -> ignores_pp handleArrayValues_raw (bz b) = false ->
    (wrap64 (h_pp (h (c :: cs))) < 0 \/ c_p c + wrap64 (h_pp (h (c :: cs))) > len data) ->
    pre = [] /\ e = Some EPOutOfRange.
Proof.
  intros data h stack p e s L E.
  assert (Hmd : 0 <= maxDepth) by (vm_compute; discriminate).
  exact (handler_offset_out_of_range_is_error handleArrayValues_raw maxDepth data h stack [] p e s wf_handleArrayValues Hmd L E).
Qed.

(** exactly which first bytes make the code discard the handler's offset *)

Print Assumptions C10_SkipValue.
Print Assumptions C10_HandleObjectValues.
Print Assumptions C10_literal_and_string_machines.
Print Assumptions C10_offsets_out_of_range.
