(** C18 tie (compiled on every run): every syntactic access to a package-level variable in the
    current sources of /repo (both packages) is read-only -- a plain read, an indexed read, a
    range, or len/cap.  Any assignment, ++/--, address-of, slicing, passing to a function,
    method call on, or un-indexed copy of a reference-typed package-level variable fails this
    lemma (conservatively: it is then a potential shared write). *)
From Coq Require Import List String.
From Rjson Require Import Footprint.
From RjsonGen Require Import GenGlobals.

Lemma tie_no_global_writes : no_global_writes gen_accesses = true.
Proof. vm_compute. reflexivity. Qed.

(** the inventory is not empty (the check is not vacuous) *)
Lemma tie_globals_nonempty : (10 <= List.length gen_accesses)%nat /\ (10 <= List.length gen_globals)%nat.
Proof. vm_compute. split; repeat constructor. Qed.
