(** C19 tie: the regenerated inventory of allocation-capable expressions and call targets of
    every function covered by the zero-allocation claim is exactly the recorded one. *)
From Coq Require Import List String Bool.
From Rjson Require Import AllocSpec.
From RjsonGen Require Import GenFacts.
Lemma tie_alloc_sites : alloc_sites_ok gen_alloc_sites = true.
Proof. vm_compute. reflexivity. Qed.
