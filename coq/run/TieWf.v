(** Tie lemmas for the regenerated machines (compiled on every run): every table passes the
    certified well-formedness check of Wf.v, by computation. A changed transition, action
    unit, skeleton or frame that breaks safety makes one of these fail. *)
From Coq Require Import List ZArith.
From Rjson Require Import Machine Wf Safety.
From RjsonGen Require Import GenTables.

Lemma wf_skipValue : wf_check skipValue_raw = true. Proof. vm_compute. reflexivity. Qed.
Lemma wf_skipValueFast : wf_check skipValueFast_raw = true. Proof. vm_compute. reflexivity. Qed.
Lemma wf_handleArrayValues : wf_check handleArrayValues_raw = true. Proof. vm_compute. reflexivity. Qed.
Lemma wf_handleObjectValues : wf_check handleObjectValues_raw = true. Proof. vm_compute. reflexivity. Qed.
Lemma wf_readNull : wf_check readNull_raw = true. Proof. vm_compute. reflexivity. Qed.
Lemma wf_readBool : wf_check readBool_raw = true. Proof. vm_compute. reflexivity. Qed.
Lemma wf_appendRemainderOfString : wf_check appendRemainderOfString_raw = true. Proof. vm_compute. reflexivity. Qed.
Lemma wf_unescapeStringContent : wf_check unescapeStringContent_raw = true. Proof. vm_compute. reflexivity. Qed.
Lemma wf_skipStringFast : wf_check skipStringFast_raw = true. Proof. vm_compute. reflexivity. Qed.

(** handler offsets are consumed only by the two handler machines *)
Lemma nj_skipValue : no_jumps skipValue_raw = true. Proof. vm_compute. reflexivity. Qed.
Lemma nj_skipValueFast : no_jumps skipValueFast_raw = true. Proof. vm_compute. reflexivity. Qed.
Lemma nj_readNull : no_jumps readNull_raw = true. Proof. vm_compute. reflexivity. Qed.
Lemma nj_readBool : no_jumps readBool_raw = true. Proof. vm_compute. reflexivity. Qed.
Lemma nj_appendRemainderOfString : no_jumps appendRemainderOfString_raw = true. Proof. vm_compute. reflexivity. Qed.
Lemma nj_unescapeStringContent : no_jumps unescapeStringContent_raw = true. Proof. vm_compute. reflexivity. Qed.
