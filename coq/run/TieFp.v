(** TieFp.v -- compiled on every run against the tables regenerated from /repo (Gen):
    finite proofs, by computation, that the float-parser tables are what the static theorems
    of FpFacts.v assume ([tables_ok]).  A single flipped bit in any table makes a lemma fail. *)
From Coq Require Import List ZArith Lia Bool.
From Rjson Require Import Base Helpers Round Fp FpSpec FpTables.
From RjsonGen Require Import GenTables GenFp.
From RjsonRun Require Import Inst.
Import ListNotations.
Local Open Scope Z_scope.

(** every row of detailedPowersOfTen is the 128-bit normalised truncation of 10^q, q = MinExp10 + index:
    W = hi*2^64+lo in [2^127,2^128) and W*2^(L-127) <= 10^q < (W+1)*2^(L-127), L = 217706*q>>16 *)
Lemma pow10_table_exact : pow10_rows_ok const_detailedPowersOfTenMinExp10 gen_pow10 = true /\ length gen_pow10 = 696%nat.
Proof. split; vm_compute; reflexivity. Qed.

(** 217706*q >> 16 = floor (log2 (10^q)) for all 696 exponents of the table *)
Lemma log2_approx_exact : forallb log2_pow10_ok (zrange const_detailedPowersOfTenMinExp10 696) = true.
Proof. vm_compute. reflexivity. Qed.

(** the bounds of the table: MaxExp10 = MinExp10 + len - 1 *)
Lemma pow10_bounds :
  const_detailedPowersOfTenMinExp10 = -348 /\
  t_maxexp10 fpT = const_detailedPowersOfTenMinExp10 + len gen_pow10 - 1.
Proof. split; vm_compute; reflexivity. Qed.

(** float64pow10 = {1e0, ..., 1e22} *)
Lemma float64pow10_exact : gen_float64pow10_exps = zrange 0 23.
Proof. vm_compute. reflexivity. Qed.

(** powtab[0] = 1, powtab[i] = floor (log2 (10^i)) for i = 1..8 *)
Lemma powtab_exact : powtab_rows_ok 0 gen_powtab = true /\ length gen_powtab = 9%nat.
Proof. split; vm_compute; reflexivity. Qed.

(** leftcheats[k] = (number of digits of 2^k, digits of 5^k), k = 1..60; leftcheats[0] = (0, "") *)
Lemma leftcheats_exact : cheat_rows_ok 0 gen_leftcheats = true /\ length gen_leftcheats = 61%nat.
Proof. split; vm_compute; reflexivity. Qed.

(** the format constants of binary64 *)
Lemma fp_consts : const_mantbits = 52 /\ const_expbits = 11 /\ const_bias = -1023.
Proof. repeat split. Qed.

(** all of the above in the form the static theorems take as hypothesis *)
Theorem fp_tables_ok : tables_ok fpT.
Proof.
  unfold tables_ok, tables_okb.
  cbn [fpT t_pow10 t_minexp10 t_maxexp10 t_f64pow10 t_powtab t_leftcheats t_mantbits t_expbits t_bias].
  rewrite (proj1 pow10_table_exact), (proj2 pow10_table_exact), log2_approx_exact.
  rewrite (proj1 powtab_exact), (proj1 leftcheats_exact), float64pow10_exact.
  unfold len. rewrite (proj2 pow10_table_exact), (proj2 powtab_exact), (proj2 leftcheats_exact).
  reflexivity.
Qed.

(** the checker is not vacuous: flipping the lowest bit of the low word of one row, changing one
    digit of a cutoff, or one delta, is detected *)
Definition flip_row (i : nat) (rows : list (Z * Z)) : list (Z * Z) :=
  firstn i rows ++ (match nth i rows (0, 0) with (lo, hi) => (Z.lxor lo 1, hi) end) :: skipn (S i) rows.
Example flipped_bit_detected_first : pow10_rows_ok (-348) (flip_row 0 gen_pow10) = false.
Proof. vm_compute. reflexivity. Qed.
Example flipped_bit_detected_mid : pow10_rows_ok (-348) (flip_row 348 gen_pow10) = false.
Proof. vm_compute. reflexivity. Qed.
Example cheat_digit_detected :
  cheat_rows_ok 0 (firstn 60 gen_leftcheats ++ [(19, 867361737988403547205962240695953369140626, 42)]) = false.
Proof. vm_compute. reflexivity. Qed.
Example cheat_delta_detected :
  cheat_rows_ok 0 (firstn 60 gen_leftcheats ++ [(18, 867361737988403547205962240695953369140625, 42)]) = false.
Proof. vm_compute. reflexivity. Qed.

Print Assumptions fp_tables_ok.
Print Assumptions pow10_table_exact.
