(** C14 on the current tables: for every finite call history on one Buffer -- any initial
    contents, any earlier calls (failing, depth-limited, aborted by a handler error), any
    handler including ones that re-enter the library with the same Buffer and overwrite its
    backing array -- each call's outcome (offset, error, handler calls with their keys) is the
    outcome of the same call with no buffer at all. *)
From Coq Require Import List ZArith.
From Coq Require Import Strings.Byte.
From Rjson Require Import Base Helpers Machine MachineFacts Wf Safety Api ApiFacts.
From RjsonGen Require Import GenTables.
From RjsonRun Require Import Inst TieWf.
Import ListNotations.
Local Open Scope Z_scope.

Definition run_history := run_calls maxDepth skipValue_raw skipValueFast_raw handleArrayValues_raw handleObjectValues_raw.
Definition solo_call := solo maxDepth skipValue_raw skipValueFast_raw handleArrayValues_raw handleObjectValues_raw.

Theorem C14_history_irrelevant : forall cs b,
  Forall (fun c => len (call_data c) <= maxint) cs ->
  run_history cs b = map solo_call cs.
Proof.
  exact (history_irrelevant maxDepth skipValue_raw skipValueFast_raw handleArrayValues_raw handleObjectValues_raw
           wf_skipValue wf_skipValueFast wf_handleArrayValues wf_handleObjectValues nj_skipValue nj_skipValueFast).
Qed.

Theorem C14_SkipValue : forall data b, fst (i_SkipValue data b) = fst (i_SkipValue data None).
Proof. exact (SkipValue_buffer_irrelevant maxDepth skipValue_raw wf_skipValue nj_skipValue). Qed.
Theorem C14_SkipValueFast : forall data b, fst (i_SkipValueFast data b) = fst (i_SkipValueFast data None).
Proof. exact (SkipValueFast_buffer_irrelevant maxDepth skipValueFast_raw wf_skipValueFast nj_skipValueFast). Qed.
Theorem C14_Valid : forall data b, fst (i_Valid data b) = fst (i_Valid data None).
Proof. exact (Valid_buffer_irrelevant maxDepth skipValue_raw wf_skipValue nj_skipValue). Qed.

(** non-vacuity: a concrete history with a junk buffer, a failing call and a scribbling handler *)
Example C14_example :
  let d := map zb [91; 91; 49; 93; 44; 34; 97; 34; 93] in          (* [[1],"a"] *)
  let h : handler := fun calls => {| h_pp := 0; h_err := None; h_havoc := [7; 7; 7; 7] |} in
  run_history [CSkip d; CArr d h; CValid (map zb [91]); CSkipFast d] (Some [5; 5; 5])
  = map solo_call [CSkip d; CArr d h; CValid (map zb [91]); CSkipFast d].
Proof. vm_compute. reflexivity. Qed.

Print Assumptions C14_history_irrelevant.
