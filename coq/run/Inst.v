(** Instantiation of the hand models with the regenerated tables (compiled on every run,
    after Gen): the executable model of the *current* /repo. *)
From Coq Require Import List ZArith Bool.
From Coq Require Import Strings.Byte.
From Rjson Require Import Base Helpers Machine Api Compat.
From RjsonGen Require Import GenTables.
Import ListNotations.
Local Open Scope Z_scope.

Definition mSkip := of_raw skipValue_raw.
Definition mSkipFast := of_raw skipValueFast_raw.
Definition mArr := of_raw handleArrayValues_raw.
Definition mObj := of_raw handleObjectValues_raw.
Definition mNull := of_raw readNull_raw.
Definition mBool := of_raw readBool_raw.
Definition mAppend := of_raw appendRemainderOfString_raw.
Definition mUnescape := of_raw unescapeStringContent_raw.
Definition maxDepth := const_skipMaxDepth.

Definition i_skipValue := skipValue_m maxDepth mSkip.
Definition i_skipValueFast := skipValueFast_m maxDepth mSkipFast.
Definition i_handleArrayValues := handleArrayValues_m maxDepth mArr.
Definition i_handleObjectValues := handleObjectValues_m maxDepth mObj.
Definition i_SkipValue := SkipValue maxDepth mSkip.
Definition i_SkipValueFast := SkipValueFast maxDepth mSkipFast.
Definition i_Valid := Valid maxDepth mSkip.
Definition i_HandleArrayValues := HandleArrayValues maxDepth mArr.
Definition i_HandleObjectValues := HandleObjectValues maxDepth mObj.
Definition i_ReadNull := ReadNull maxDepth mNull.
Definition i_ReadBool := ReadBool maxDepth mBool.
Definition i_appendRemainderOfString := appendRemainderOfString maxDepth mAppend.
Definition i_UnescapeStringContent := UnescapeStringContent maxDepth mUnescape.
Definition i_ReadStringBytes := ReadStringBytes maxDepth mAppend.
Definition i_ReadString := ReadString maxDepth mAppend.
Definition i_DecodeInt64 := DecodeInt64 maxDepth mNull.
Definition i_DecodeInt32 := DecodeInt32 maxDepth mNull.
Definition i_DecodeInt := DecodeInt maxDepth mNull.
Definition i_DecodeUint64 := DecodeUint64 maxDepth mNull.
Definition i_DecodeUint32 := DecodeUint32 maxDepth mNull.
Definition i_DecodeUint := DecodeUint maxDepth mNull.
Definition i_DecodeBool := DecodeBool maxDepth mNull mBool.
Definition i_DecodeString := DecodeString maxDepth mNull mAppend.
