(** Instantiation of the hand models with the regenerated tables (compiled on every run,
    after Gen): the executable model of the *current* /repo. *)
From Coq Require Import List ZArith Bool.
From Coq Require Import Strings.Byte.
From Rjson Require Import Base Helpers Machine MachineFast Api Compat Round Fp ValueReader.
From RjsonGen Require Import GenTables GenFp.
Import ListNotations.
Local Open Scope Z_scope.

Definition mSkip := of_raw skipValue_raw.
Definition mSkipFast := of_raw skipValueFast_raw.
Definition mArr := of_raw handleArrayValues_raw.
Definition mObj := of_raw handleObjectValues_raw.
Definition mNull := of_raw readNull_raw.
Definition mBool := of_raw readBool_raw.
Definition mAppend := of_raw appendRemainderOfString_raw.
Definition mUnescape := of_raw unescapeStringContent_raw.
Definition maxDepth := const_skipMaxDepth.

Definition i_skipValue := skipValue_m maxDepth mSkip.
Definition i_skipValueFast := skipValueFast_m maxDepth mSkipFast.
Definition i_handleArrayValues := handleArrayValues_m maxDepth mArr.
Definition i_handleObjectValues := handleObjectValues_m maxDepth mObj.
Definition i_SkipValue := SkipValue maxDepth mSkip.
Definition i_SkipValueFast := SkipValueFast maxDepth mSkipFast.
Definition i_Valid := Valid maxDepth mSkip.
Definition i_HandleArrayValues := HandleArrayValues maxDepth mArr.
Definition i_HandleObjectValues := HandleObjectValues maxDepth mObj.
Definition i_ReadNull := ReadNull maxDepth mNull.
Definition i_ReadBool := ReadBool maxDepth mBool.
Definition i_appendRemainderOfString := appendRemainderOfString maxDepth mAppend.
Definition i_UnescapeStringContent := UnescapeStringContent maxDepth mUnescape.
Definition i_ReadStringBytes := ReadStringBytes maxDepth mAppend.
Definition i_ReadString := ReadString maxDepth mAppend.
Definition i_DecodeInt64 := DecodeInt64 maxDepth mNull.
Definition i_DecodeInt32 := DecodeInt32 maxDepth mNull.
Definition i_DecodeInt := DecodeInt maxDepth mNull.
Definition i_DecodeUint64 := DecodeUint64 maxDepth mNull.
Definition i_DecodeUint32 := DecodeUint32 maxDepth mNull.
Definition i_DecodeUint := DecodeUint maxDepth mNull.
Definition i_DecodeBool := DecodeBool maxDepth mNull mBool.
Definition i_DecodeString := DecodeString maxDepth mNull mAppend.

(** the float parser over the regenerated tables *)
Definition fpT : fp_tables :=
  {| t_pow10 := gen_pow10; t_minexp10 := const_detailedPowersOfTenMinExp10;
     t_maxexp10 := const_detailedPowersOfTenMaxExp10; t_f64pow10 := gen_float64pow10_exps;
     t_powtab := gen_powtab; t_leftcheats := gen_leftcheats;
     t_mantbits := const_mantbits; t_expbits := const_expbits; t_bias := const_bias |}.

(** ReadFloat64 as (bits, p, err); the model's out-of-fuel value (never observed, excluded by
    the theorems) is reported as an error of class EOther *)
Definition i_ReadFloat64 (data : list byte) : Z * Z * option errk :=
  match ReadFloat64_m fpT data with
  | Some (v, p, None) => (v, p, None)
  | Some (_, p, Some _) => (0, p, Some EInvalidNumber)
  | None => (0, 0, Some EOther)
  end.
Definition i_DecodeFloat64 := decode_with maxDepth mNull i_ReadFloat64.

(** the generic value reader *)
Definition vrMax := const_valueReaderMaxDepth.
Definition i_ReadValue := ReadValue maxDepth vrMax mArr mObj mNull mBool mAppend mUnescape i_ReadFloat64.
Definition i_ReadObject := ReadObject maxDepth vrMax mArr mObj mNull mBool mAppend mUnescape i_ReadFloat64.
Definition i_ReadArray := ReadArray maxDepth vrMax mArr mObj mNull mBool mAppend mUnescape i_ReadFloat64.
Definition i_ReadValue_fast := ReadValue_fast maxDepth vrMax mSkip mArr mObj mNull mBool mAppend mUnescape i_ReadFloat64.
Definition i_ReadObject_fast := ReadObject_fast maxDepth vrMax mSkip mArr mObj mNull mBool mAppend mUnescape i_ReadFloat64.
Definition i_ReadArray_fast := ReadArray_fast maxDepth vrMax mSkip mArr mObj mNull mBool mAppend mUnescape i_ReadFloat64.

(** ** The same definitions over the indexed tables [of_raw_fast]: what the extracted driver
    executes.  [run/TieFast.v] proves each [x_f] equal to its [i_f]. (generated from the part above) *)
Definition xSkip := of_raw_fast skipValue_raw.
Definition xSkipFast := of_raw_fast skipValueFast_raw.
Definition xArr := of_raw_fast handleArrayValues_raw.
Definition xObj := of_raw_fast handleObjectValues_raw.
Definition xNull := of_raw_fast readNull_raw.
Definition xBool := of_raw_fast readBool_raw.
Definition xAppend := of_raw_fast appendRemainderOfString_raw.
Definition xUnescape := of_raw_fast unescapeStringContent_raw.
Definition x_skipValue := skipValue_m maxDepth xSkip.
Definition x_skipValueFast := skipValueFast_m maxDepth xSkipFast.
Definition x_handleArrayValues := handleArrayValues_m maxDepth xArr.
Definition x_handleObjectValues := handleObjectValues_m maxDepth xObj.
Definition x_SkipValue := SkipValue maxDepth xSkip.
Definition x_SkipValueFast := SkipValueFast maxDepth xSkipFast.
Definition x_Valid := Valid maxDepth xSkip.
Definition x_HandleArrayValues := HandleArrayValues maxDepth xArr.
Definition x_HandleObjectValues := HandleObjectValues maxDepth xObj.
Definition x_ReadNull := ReadNull maxDepth xNull.
Definition x_ReadBool := ReadBool maxDepth xBool.
Definition x_appendRemainderOfString := appendRemainderOfString maxDepth xAppend.
Definition x_UnescapeStringContent := UnescapeStringContent maxDepth xUnescape.
Definition x_ReadStringBytes := ReadStringBytes maxDepth xAppend.
Definition x_ReadString := ReadString maxDepth xAppend.
Definition x_DecodeInt64 := DecodeInt64 maxDepth xNull.
Definition x_DecodeInt32 := DecodeInt32 maxDepth xNull.
Definition x_DecodeInt := DecodeInt maxDepth xNull.
Definition x_DecodeUint64 := DecodeUint64 maxDepth xNull.
Definition x_DecodeUint32 := DecodeUint32 maxDepth xNull.
Definition x_DecodeUint := DecodeUint maxDepth xNull.
Definition x_DecodeBool := DecodeBool maxDepth xNull xBool.
Definition x_DecodeString := DecodeString maxDepth xNull xAppend.
Definition x_ReadFloat64 (data : list byte) : Z * Z * option errk :=
  match ReadFloat64_m fpT data with
  | Some (v, p, None) => (v, p, None)
  | Some (_, p, Some _) => (0, p, Some EInvalidNumber)
  | None => (0, 0, Some EOther)
  end.
Definition x_DecodeFloat64 := decode_with maxDepth xNull x_ReadFloat64.
Definition x_ReadValue := ReadValue maxDepth vrMax xArr xObj xNull xBool xAppend xUnescape x_ReadFloat64.
Definition x_ReadObject := ReadObject maxDepth vrMax xArr xObj xNull xBool xAppend xUnescape x_ReadFloat64.
Definition x_ReadArray := ReadArray maxDepth vrMax xArr xObj xNull xBool xAppend xUnescape x_ReadFloat64.
Definition x_ReadValue_fast := ReadValue_fast maxDepth vrMax xSkip xArr xObj xNull xBool xAppend xUnescape x_ReadFloat64.
Definition x_ReadObject_fast := ReadObject_fast maxDepth vrMax xSkip xArr xObj xNull xBool xAppend xUnescape x_ReadFloat64.
Definition x_ReadArray_fast := ReadArray_fast maxDepth vrMax xSkip xArr xObj xNull xBool xAppend xUnescape x_ReadFloat64.
