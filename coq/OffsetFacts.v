(** Property C08 (core): every offset a reader returns on success is the offset at which the
    reference skipper [skip_ref] ends, i.e. a correct place to resume parsing the enclosing
    document; conversely, on an input whose first value the reference accepts, the reader of the
    matching type ends exactly there.  Over the specification machines (the regenerated tables
    are tied to them per run).  The traversal form (HandleArrayValues / HandleObjectValues with a
    ValueReader-style handler, which may also report errors) is in Part 5. *)
From Coq Require Import List ZArith Bool Lia.
From Coq Require Import Strings.Byte.
From Rjson Require Import Base BaseFacts Helpers Machine MachineFacts Safety Api IntSpec IntFacts
  SpecMachines Ref SpecFacts SpecFacts2 SpecFacts3.
Import ListNotations.
Local Open Scope Z_scope.

(** * 0. scalar tokens and [skip_ref] *)

Lemma scalar_not_open : forall b r n, scalar_tok (b :: r) = Some n -> isb 91 b = false /\ isb 123 b = false.
Proof.
  intros b r n H. unfold scalar_tok in H. split.
  - destruct (isb 91 b) eqn:A; [|reflexivity]. exfalso. apply Z.eqb_eq in A.
    unfold isb, is_digit in H. rewrite A in H. cbn in H. discriminate.
  - destruct (isb 123 b) eqn:A; [|reflexivity]. exfalso. apply Z.eqb_eq in A.
    unfold isb, is_digit in H. rewrite A in H. cbn in H. discriminate.
Qed.

(** a value that is a scalar token: its length, whatever the fuel and the depth *)
Lemma value_len_scalar : forall md f d l n, scalar_tok l = Some n -> value_len md (S f) d l = Some n.
Proof.
  intros md f d l n H. destruct l as [|b r]; [discriminate|].
  destruct (scalar_not_open b r n H) as [A B]. cbn [value_len]. rewrite A, B. exact H.
Qed.

(** white space, then a scalar token: the reference skipper ends just after the token *)
Lemma skip_ref_scalar : forall data n, scalar_tok (skipn (ws data) data) = Some n ->
  skip_ref data = Some (Z.of_nat (ws data + n)).
Proof.
  intros data n H. unfold skip_ref, skip_ref_md.
  replace (length data + 2)%nat with (S (length data + 1)) by lia.
  rewrite (value_len_scalar _ _ _ _ _ H). reflexivity.
Qed.

(** the converse reading of [skip_ref] on a first byte that is not an opening bracket *)
Lemma skip_ref_scalar_inv : forall data b r p, skipn (ws data) data = b :: r ->
  isb 91 b = false -> isb 123 b = false -> skip_ref data = Some p ->
  exists n, scalar_tok (b :: r) = Some n /\ p = Z.of_nat (ws data + n).
Proof.
  intros data b r p L A B H. unfold skip_ref, skip_ref_md in H. rewrite L in H.
  replace (length data + 2)%nat with (S (length data + 1)) in H by lia. cbn [value_len] in H.
  rewrite A, B in H. destruct (scalar_tok (b :: r)) as [n|]; [|discriminate].
  cbn in H. inversion H. eauto.
Qed.

(** * 1. the integer readers *)

Lemma frac_start_split : forall d, is_frac_start d = false -> isb 46 d = false /\ is_exp d = false.
Proof.
  intros d H. unfold is_frac_start in H. apply orb_false_iff in H. destruct H as [H H3].
  apply orb_false_iff in H. destruct H as [H1 H2]. unfold isb, is_exp. rewrite H1, H2, H3. auto.
Qed.

Lemma tail_none : forall rest, starts_frac rest = false -> frac_part rest = Some 0%nat /\ exp_part rest = Some 0%nat.
Proof.
  intros [|d t] H; [split; reflexivity|]. cbn in H. destruct (frac_start_split d H) as [A B].
  cbn [frac_part exp_part]. rewrite A, B. split; reflexivity.
Qed.

(** the integer token of IntSpec is a number token of the reference when no fraction or exponent follows *)
Lemma uint_token_unsigned : forall l ds rest, uint_token l = Some (ds, rest) -> starts_frac rest = false ->
  unsigned_tok l = Some (length ds) /\ exists c r, l = c :: r /\ is_digit c = true.
Proof.
  intros l ds rest U SF. destruct l as [|c r]; [discriminate|]. cbn [uint_token] in U.
  destruct (tail_none rest SF) as [FP EP].
  destruct (bz c =? 48) eqn:Z0.
  - inversion U; subst ds rest. split.
    + unfold unsigned_tok. cbn [int_part]. unfold isb. rewrite Z0. cbn [skipn]. rewrite FP. cbn [Nat.add skipn].
      rewrite EP. reflexivity.
    + exists c, r. split; [reflexivity|]. rewrite digit_split, Z0. reflexivity.
  - destruct (is_digit c) eqn:D; [|discriminate].
    assert (D19 : r_is_digit19 c = true) by (rewrite digit_split, Z0 in D; exact D).
    assert (CW : count_while is_digit (c :: r) = S (digits r)) by (cbn [count_while]; rewrite D; reflexivity).
    remember (count_while is_digit (c :: r)) as n eqn:EN. cbv zeta in U.
    inversion U as [[E1 E2]].
    split; [|exists c, r; auto].
    unfold unsigned_tok. cbn [int_part]. unfold isb at 1. rewrite Z0, D19.
    rewrite <- CW. rewrite E2, FP. rewrite Nat.add_0_r, E2, EP.
    rewrite firstn_length. f_equal. pose proof (cw_le is_digit (c :: r)). cbn [length] in *. lia.
Qed.

Lemma digit_not_minus : forall c, is_digit c = true -> isb 45 c = false.
Proof. intros c H. apply digit_not_quote_minus in H. tauto. Qed.

Lemma digit_not_quote : forall c, is_digit c = true -> isb 34 c = false.
Proof. intros c H. apply digit_not_quote_minus in H. tauto. Qed.

(** C08 for the specification of the unsigned readers *)
Lemma uint_spec_offset : forall bound data v p, uint_spec bound data = Some (v, p) -> skip_ref data = Some p.
Proof.
  intros bound data v p H. unfold uint_spec in H. fold (ws data) in H.
  destruct (uint_token (skipn (ws data) data)) as [[ds rest]|] eqn:U; [|discriminate].
  destruct (starts_frac rest) eqn:SF; [discriminate|].
  destruct (digits_value ds 0 <? bound); [|discriminate]. inversion H; subst v p.
  destruct (uint_token_unsigned _ _ _ U SF) as (UT & c & r & L & D).
  rewrite (skip_ref_scalar data (length ds)).
  - f_equal. unfold len. lia.
  - rewrite L in *. unfold scalar_tok. rewrite (digit_not_quote c D), D, orb_true_r.
    unfold number_tok. rewrite (digit_not_minus c D). exact UT.
Qed.

(** C08 for the specification of the signed readers *)
Lemma int_spec_offset : forall lo hi data v p, int_spec lo hi data = Some (v, p) -> skip_ref data = Some p.
Proof.
  intros lo hi data v p H. unfold int_spec in H. fold (ws data) in H.
  destruct (skipn (ws data) data) as [|c r] eqn:L; [discriminate|].
  destruct (uint_token (if bz c =? 45 then r else c :: r)) as [[ds rest]|] eqn:U; [|discriminate].
  destruct (starts_frac rest) eqn:SF; [discriminate|].
  destruct ((lo <=? _) && _); [|discriminate]. inversion H; subst v p.
  destruct (uint_token_unsigned _ _ _ U SF) as (UT & c' & r' & L' & D).
  change (bz c =? 45) with (isb 45 c) in *.
  destruct (isb 45 c) eqn:M.
  - rewrite (skip_ref_scalar data (S (length ds))).
    + f_equal. unfold len. lia.
    + rewrite L. unfold scalar_tok. rewrite M.
      assert (Q : isb 34 c = false) by (apply Z.eqb_eq in M; unfold isb; rewrite M; reflexivity).
      rewrite Q. cbn [orb]. unfold number_tok. rewrite M, UT. reflexivity.
  - inversion L'; subst c' r'.
    rewrite (skip_ref_scalar data (length ds)).
    + f_equal. unfold len. lia.
    + rewrite L. unfold scalar_tok. rewrite (digit_not_quote c D), D, orb_true_r.
      unfold number_tok. rewrite M. exact UT.
Qed.

(** ReadUint64: the offset returned with a value is where the reference skipper ends *)
Theorem uint64_offset_is_skip : forall data v p, ok_proj (ReadUint64 data) = Some (v, p) -> skip_ref data = Some p.
Proof. intros data v p H. rewrite read_uint64_exact in H. eapply uint_spec_offset; eauto. Qed.
Theorem uint32_offset_is_skip : forall data v p, ok_proj (ReadUint32 data) = Some (v, p) -> skip_ref data = Some p.
Proof. intros data v p H. rewrite read_uint32_exact in H. eapply uint_spec_offset; eauto. Qed.
Theorem uint_offset_is_skip : forall data v p, ok_proj (ReadUint data) = Some (v, p) -> skip_ref data = Some p.
Proof. intros data v p H. rewrite read_uint_exact in H. eapply uint_spec_offset; eauto. Qed.
Theorem int64_offset_is_skip : forall data v p, ok_proj (ReadInt64 data) = Some (v, p) -> skip_ref data = Some p.
Proof. intros data v p H. rewrite read_int64_exact in H. eapply int_spec_offset; eauto. Qed.
Theorem int32_offset_is_skip : forall data v p, ok_proj (ReadInt32 data) = Some (v, p) -> skip_ref data = Some p.
Proof. intros data v p H. rewrite read_int32_exact in H. eapply int_spec_offset; eauto. Qed.
Theorem int_offset_is_skip : forall data v p, ok_proj (ReadInt data) = Some (v, p) -> skip_ref data = Some p.
Proof. intros data v p H. rewrite read_int_exact in H. eapply int_spec_offset; eauto. Qed.

(** 12 then a comma; 01 reads as 0 and both stop after the 0; 1.5 and 1e5 are rejected by the
    integer readers (the reference skips the whole number) *)
Example int_offset_ex :
  ok_proj (ReadUint64 [x20; x31; x32; x2c]) = Some (12, 3) /\ skip_ref [x20; x31; x32; x2c] = Some 3 /\
  ok_proj (ReadInt64 [x2d; x37; x5d]) = Some (-7, 2) /\ skip_ref [x2d; x37; x5d] = Some 2 /\
  ok_proj (ReadUint64 [x30; x31]) = Some (0, 1) /\ skip_ref [x30; x31] = Some 1 /\
  ok_proj (ReadUint64 [x31; x2e; x35]) = None /\ skip_ref [x31; x2e; x35] = Some 3 /\
  ok_proj (ReadInt64 [x31; x65; x35]) = None /\ skip_ref [x31; x65; x35] = Some 3.
Proof. vm_compute. repeat split; reflexivity. Qed.
Print Assumptions uint64_offset_is_skip.
Print Assumptions int64_offset_is_skip.
Print Assumptions int32_offset_is_skip.

(** * 2. the literal readers *)

Lemma prefix_head : forall x w l, is_prefix (x :: w) l = true -> exists b r, l = b :: r /\ bz b = bz x.
Proof.
  intros x w [|b r] H; [discriminate|]. cbn [is_prefix] in H. apply andb_true_iff in H. destruct H as [H _].
  apply Z.eqb_eq in H. eauto.
Qed.

(** a literal at the head is a scalar token of the reference *)
Lemma lit_scalar : forall w l n, (w = lit_null \/ w = lit_true \/ w = lit_false) ->
  lit_ref w l = Some n -> scalar_tok l = Some n.
Proof.
  intros w l n W H. pose proof H as H0. unfold lit_ref in H.
  destruct (is_prefix w l) eqn:P; [|discriminate].
  destruct W as [->|[->| ->]]; destruct (prefix_head _ _ _ P) as (b & r & -> & B);
    unfold scalar_tok, isb, is_digit; rewrite B; cbn; exact H0.
Qed.

Lemma read_lit_skip : forall w data p, (w = lit_null \/ w = lit_true \/ w = lit_false) ->
  read_lit_ref w data = Some p -> skip_ref data = Some p.
Proof.
  intros w data p W H. unfold read_lit_ref in H.
  destruct (lit_ref w (skipn (ws data) data)) as [n|] eqn:L; [|discriminate]. cbn in H. inversion H.
  apply skip_ref_scalar. eapply lit_scalar; eauto.
Qed.

(** ReadNull over its specification machine, as a function of the reference *)
Lemma ReadNull_exact : forall md data,
  match read_lit_ref lit_null data with
  | Some p => ReadNull md null_spec data = inl (p, None)
  | None => exists p e, ReadNull md null_spec data = inl (p, Some e)
  end.
Proof.
  intros md data. unfold ReadNull. rewrite prun_c_eq.
  pose proof (null_spec_correct md data no_handler [] []) as C.
  destruct (read_lit_ref lit_null data) as [p|].
  - destruct (obs_done _ _ _ C) as (s & -> & _). reflexivity.
  - destruct C as (p & C). destruct (prun md null_spec data no_handler [] []) as [p1 e1 s1| |]; cbn in C; try discriminate.
    inversion C; subst. cbn. eauto.
Qed.

(** ReadBool over its specification machine, as a function of the reference *)
Lemma ReadBool_exact : forall md data,
  match read_bool_ref data with
  | Some (v, p) => ReadBool md bool_spec data = inl (v, p, None)
  | None => exists p e, ReadBool md bool_spec data = inl (false, p, Some e)
  end.
Proof.
  intros md data. unfold ReadBool. rewrite prun_c_eq.
  pose proof (bool_spec_correct md data no_handler [] []) as C.
  destruct (read_bool_ref data) as [[v p]|].
  - destruct (prun md bool_spec data no_handler [] []) as [p1 e1 s1| |]; cbn in C; try discriminate.
    inversion C; subst. reflexivity.
  - destruct C as (p & C). destruct (prun md bool_spec data no_handler [] []) as [p1 e1 s1| |]; cbn in C; try discriminate.
    inversion C; subst. eauto.
Qed.

(** ReadNull: the offset returned on success is where the reference skipper ends *)
Theorem null_offset_is_skip : forall md data p, ReadNull md null_spec data = inl (p, None) -> skip_ref data = Some p.
Proof.
  intros md data p H. pose proof (ReadNull_exact md data) as E.
  destruct (read_lit_ref lit_null data) as [p0|] eqn:R.
  - rewrite E in H. inversion H; subst p0. eapply (read_lit_skip lit_null); [auto|exact R].
  - destruct E as (p1 & e & E). rewrite E in H. discriminate.
Qed.

(** ReadBool: the offset returned on success is where the reference skipper ends *)
Theorem bool_offset_is_skip : forall md data v p, ReadBool md bool_spec data = inl (v, p, None) -> skip_ref data = Some p.
Proof.
  intros md data v p H. pose proof (ReadBool_exact md data) as E. unfold read_bool_ref in E.
  destruct (read_lit_ref lit_true data) as [pt|] eqn:RT.
  - rewrite E in H. inversion H; subst. eapply (read_lit_skip lit_true); [auto|exact RT].
  - destruct (read_lit_ref lit_false data) as [pf|] eqn:RF; cbn in E.
    + rewrite E in H. inversion H; subst. eapply (read_lit_skip lit_false); [auto|exact RF].
    + destruct E as (p1 & e & E). rewrite E in H. discriminate.
Qed.

(** " null," and "true]" *)
Example lit_offset_ex :
  ReadNull 10000 null_spec [x20; x6e; x75; x6c; x6c; x2c] = inl (5, None) /\ skip_ref [x20; x6e; x75; x6c; x6c; x2c] = Some 5 /\
  ReadBool 10000 bool_spec [x74; x72; x75; x65; x5d] = inl (true, 4, None) /\ skip_ref [x74; x72; x75; x65; x5d] = Some 4.
Proof. vm_compute. repeat split; reflexivity. Qed.
Print Assumptions null_offset_is_skip.
Print Assumptions bool_offset_is_skip.

(** * 3. the string reader *)

Lemma string_tok_head : forall l n, string_tok l = Some n -> exists q r, l = q :: r /\ isb 34 q = true.
Proof. intros [|q r] n H; [discriminate|]. cbn in H. destruct (isb 34 q) eqn:Q; [eauto|discriminate]. Qed.

Lemma string_scalar : forall l n, string_tok l = Some n -> scalar_tok l = Some n.
Proof. intros l n H. destruct (string_tok_head l n H) as (q & r & -> & Q). unfold scalar_tok. rewrite Q. exact H. Qed.

(** every string token the reference accepts has a decoding *)
Lemma string_tok_decodes : forall l n, string_tok l = Some n -> exists c, decode_string_ref l = Some (c, n).
Proof.
  intros l n H. unfold decode_string_ref. rewrite H.
  destruct (string_tok_head l n H) as (q & r & -> & Q). cbn [string_tok] in H. rewrite Q in H.
  destruct (string_body r) as [k|] eqn:SB; [|discriminate]. cbn in H. inversion H; subst n.
  destruct (string_body_split r k SB) as (c & q2 & rest & out & -> & Q2 & -> & D).
  exists out. cbn [skipn]. replace (S (S (length c)) - 2)%nat with (length c) by lia.
  rewrite firstn_app, Nat.sub_diag, firstn_all. cbn [firstn]. rewrite app_nil_r, D. reflexivity.
Qed.

Lemma read_string_skip : forall data buf v p, read_string_ref data buf = Some (v, p) -> skip_ref data = Some p.
Proof.
  intros data buf v p H. unfold read_string_ref, decode_string_ref in H.
  destruct (string_tok (skipn (ws data) data)) as [n|] eqn:ST; [|discriminate].
  destruct (decode_content _) as [c|]; [|discriminate]. cbn in H. inversion H.
  apply skip_ref_scalar. apply string_scalar. exact ST.
Qed.

(** ReadStringBytes: the offset returned on success is where the reference skipper ends *)
Theorem string_offset_is_skip : forall md data buf v p,
  ReadStringBytes md append_spec data buf = Some (v, p, None) -> skip_ref data = Some p.
Proof.
  intros md data buf v p H. pose proof (ReadStringBytes_spec_correct md data buf) as E.
  destruct (read_string_ref data buf) as [[v0 p0]|] eqn:R.
  - rewrite E in H. inversion H; subst. eapply read_string_skip; eauto.
  - destruct E as (v1 & p1 & e & E). rewrite E in H. discriminate.
Qed.

Example string_offset_ex :
  ReadStringBytes 10000 append_spec ex_str [] = Some ([x61; x0a; xf0; x9f; x98; x80], 18, None) /\ skip_ref ex_str = Some 18.
Proof. vm_compute. split; reflexivity. Qed.
Print Assumptions string_offset_is_skip.

(** * 4. SkipValue and SkipValueFast *)

(** SkipValue succeeds exactly where the reference does, with the reference offset *)
Theorem skip_offset_is_skip : forall data b p,
  fst (SkipValue 10000 skip_spec data b) = inl (p, None) <-> skip_ref data = Some p.
Proof.
  intros data b p. pose proof (SkipValue_spec_correct data b) as E.
  destruct (skip_ref data) as [n|].
  - rewrite E. split; intros H; inversion H; reflexivity.
  - destruct E as (p1 & e & E). rewrite E. split; discriminate.
Qed.

(** SkipValueFast: wherever the reference finds a value it returns the reference offset (the
    converse is not claimed: the fast skipper also accepts malformed input) *)
Theorem skipfast_offset_is_skip : forall data b p, skip_ref data = Some p ->
  fst (SkipValueFast 10000 skipfast_spec data b) = inl (p, None).
Proof.
  intros data b p H. destruct (fast_agrees_spec data (buf_stack b) p H) as (s & E).
  unfold SkipValueFast, skipValueFast_m. cbn [fst]. rewrite prun_c_eq, E. reflexivity.
Qed.

Corollary skipfast_offset_unique : forall data b p p', skip_ref data = Some p ->
  fst (SkipValueFast 10000 skipfast_spec data b) = inl (p', None) -> p' = p.
Proof. intros data b p p' H F. rewrite (skipfast_offset_is_skip data b p H) in F. inversion F. reflexivity. Qed.

Example skipfast_offset_ex :
  skip_ref ex_fast = Some 14 /\ fst (SkipValueFast 10000 skipfast_spec ex_fast None) = inl (14, None) /\
  (* malformed: [1 2] *) skip_ref [x5b; x31; x20; x32; x5d] = None /\
  fst (SkipValueFast 10000 skipfast_spec [x5b; x31; x20; x32; x5d] None) = inl (5, None).
Proof. vm_compute. repeat split; reflexivity. Qed.
Print Assumptions skip_offset_is_skip.
Print Assumptions skipfast_offset_is_skip.

(** * 4b. the converse: on an input whose first value the reference accepts, the reader of the
    matching type succeeds and ends at the reference offset ("reader_offset_exact") *)

Lemma first_byte_cases : forall data b r p, skipn (ws data) data = b :: r -> skip_ref data = Some p ->
  isb 91 b = false -> isb 123 b = false ->
  exists n, scalar_tok (b :: r) = Some n /\ p = Z.of_nat (ws data + n).
Proof. intros. eapply skip_ref_scalar_inv; eauto. Qed.

Theorem null_offset_exact : forall md data b r p, skipn (ws data) data = b :: r -> isb 110 b = true ->
  skip_ref data = Some p -> ReadNull md null_spec data = inl (p, None).
Proof.
  intros md data b r p L B H.
  assert (A1 : isb 91 b = false) by (apply Z.eqb_eq in B; unfold isb; rewrite B; reflexivity).
  assert (A2 : isb 123 b = false) by (apply Z.eqb_eq in B; unfold isb; rewrite B; reflexivity).
  destruct (skip_ref_scalar_inv data b r p L A1 A2 H) as (n & ST & ->).
  pose proof (ReadNull_exact md data) as E. unfold read_lit_ref in E. rewrite L in E.
  assert (LR : lit_ref lit_null (b :: r) = Some n).
  { unfold scalar_tok in ST. apply Z.eqb_eq in B. unfold isb, is_digit in ST. rewrite B in ST. cbn in ST. exact ST. }
  rewrite LR in E. exact E.
Qed.

Theorem bool_offset_exact : forall md data b r p, skipn (ws data) data = b :: r -> isb 116 b = true \/ isb 102 b = true ->
  skip_ref data = Some p -> ReadBool md bool_spec data = inl (isb 116 b, p, None).
Proof.
  intros md data b r p L B H.
  assert (A1 : isb 91 b = false) by (destruct B as [B|B]; apply Z.eqb_eq in B; unfold isb; rewrite B; reflexivity).
  assert (A2 : isb 123 b = false) by (destruct B as [B|B]; apply Z.eqb_eq in B; unfold isb; rewrite B; reflexivity).
  destruct (skip_ref_scalar_inv data b r p L A1 A2 H) as (n & ST & ->).
  pose proof (ReadBool_exact md data) as E. unfold read_bool_ref, read_lit_ref in E. rewrite L in E.
  destruct B as [B|B].
  - assert (LR : lit_ref lit_true (b :: r) = Some n).
    { unfold scalar_tok in ST. pose proof B as B'. apply Z.eqb_eq in B'. unfold isb, is_digit in ST. rewrite B' in ST. cbn in ST. exact ST. }
    rewrite LR in E. rewrite B. exact E.
  - assert (LR : lit_ref lit_false (b :: r) = Some n).
    { unfold scalar_tok in ST. pose proof B as B'. apply Z.eqb_eq in B'. unfold isb, is_digit in ST. rewrite B' in ST. cbn in ST. exact ST. }
    assert (LT : lit_ref lit_true (b :: r) = None).
    { unfold lit_ref. cbn [is_prefix lit_true]. apply Z.eqb_eq in B. rewrite B. reflexivity. }
    rewrite LT, LR in E. cbn in E.
    assert (T : isb 116 b = false) by (apply Z.eqb_eq in B; unfold isb; rewrite B; reflexivity). rewrite T. exact E.
Qed.

Theorem string_offset_exact : forall md data buf b r p, skipn (ws data) data = b :: r -> isb 34 b = true ->
  skip_ref data = Some p ->
  exists c n, decode_string_ref (b :: r) = Some (c, n) /\ p = Z.of_nat (ws data + n) /\
              ReadStringBytes md append_spec data buf = Some (buf ++ c, p, None).
Proof.
  intros md data buf b r p L B H.
  assert (A1 : isb 91 b = false) by (apply Z.eqb_eq in B; unfold isb; rewrite B; reflexivity).
  assert (A2 : isb 123 b = false) by (apply Z.eqb_eq in B; unfold isb; rewrite B; reflexivity).
  destruct (skip_ref_scalar_inv data b r p L A1 A2 H) as (n & ST & ->).
  unfold scalar_tok in ST. rewrite B in ST. destruct (string_tok_decodes _ _ ST) as (c & D).
  exists c, n. split; [exact D|]. split; [reflexivity|].
  pose proof (ReadStringBytes_spec_correct md data buf) as E. unfold read_string_ref in E. rewrite L, D in E. exact E.
Qed.
Print Assumptions null_offset_exact.
Print Assumptions bool_offset_exact.
Print Assumptions string_offset_exact.

(** * 5. handlers that may report errors

    [members_spec_correct] (SpecFacts2.v) is about handlers that never report an error.  The
    ValueReader's handler reports the error of a failed nested read.  This part shows, for any
    machine whose blocks call the handler only as [UHandle; UHandlerErrRet] at the head of a block
    (all specification machines), that a run with a handler [h] either coincides with the run
    with a handler [h2] that agrees with [h] wherever [h] is "good", or stops with the error of
    the first call where [h] is not good, provided [h] reports an error (and does not scribble)
    whenever it is not good. *)

Definition suffix {A} (L M : list A) : Prop := exists pre, M = pre ++ L.

Lemma suffix_refl : forall {A} (L : list A), suffix L L.
Proof. intros A L. exists []. reflexivity. Qed.
Lemma suffix_trans : forall {A} (L M N : list A), suffix L M -> suffix M N -> suffix L N.
Proof. intros A L M N [p1 ->] [p2 ->]. exists (p2 ++ p1). rewrite app_assoc. reflexivity. Qed.
Lemma suffix_cons : forall {A} (c : A) L, suffix L (c :: L).
Proof. intros A c L. exists [c]. reflexivity. Qed.
Lemma suffix_len : forall {A} (L M : list A), suffix L M -> (length L <= length M)%nat.
Proof. intros A L M [p ->]. rewrite app_length. lia. Qed.
Lemma app_inv_len : forall {A} (p p' L L' : list A), p ++ L = p' ++ L' -> length L = length L' -> L = L'.
Proof.
  intros A p. induction p as [|x p IH]; intros [|y p'] L L' E LL; cbn in E.
  - exact E.
  - exfalso. rewrite E in LL. cbn in LL. rewrite app_length in LL. lia.
  - exfalso. rewrite <- E in LL. cbn in LL. rewrite app_length in LL. lia.
  - inversion E. eapply IH; eauto.
Qed.
Lemma suffix_same_len : forall {A} (L L' M : list A), suffix L M -> suffix L' M -> length L = length L' -> L = L'.
Proof. intros A L L' M [p ->] [p' E] LL. eapply app_inv_len; eauto. Qed.
Lemma suffix_nil_inv : forall {A} (L : list A), suffix L [] -> L = [].
Proof. intros A L [p E]. symmetry in E. apply app_eq_nil in E. tauto. Qed.

Definition nohandle (us : list unit_) : bool := forallb (fun u => negb (is_handle u)) us.
Definition hblock (us : list unit_) : bool :=
  match us with
  | UHandle _ _ :: UHandlerErrRet _ :: r => nohandle r
  | _ => nohandle us
  end.

Lemma hblock_inv : forall us, hblock us = true ->
  nohandle us = true \/ exists o k a r, us = UHandle o k :: UHandlerErrRet a :: r /\ nohandle r = true.
Proof.
  intros us H. destruct us as [|u us']; [left; exact H|]. destruct u; try (left; exact H).
  destruct us' as [|u2 r]; [left; exact H|]. destruct u2; try (left; exact H).
  right. do 4 eexists. split; [reflexivity|exact H].
Qed.

Definition ures_st (r : ures) : option st :=
  match r with RCont s | RGoto s _ | ROut s | RRet _ _ s => Some s | RPanic _ => None end.

Section Dich.
  Variable md : Z.
  Variable m : machine.
  Variable data : list byte.
  Variable pe : Z.
  Variables h h2 : handler.
  Variable good : list call -> bool.
  Hypothesis AGREE : forall L, good L = true -> h L = h2 L.
  Hypothesis BAD : forall L, good L = false -> exists tok, h_err (h L) = Some tok /\ h_havoc (h L) = [].
  Hypothesis TRANS_OK : forall z b, hblock (fst (m_trans m z b)) = true.
  Hypothesis EOF_OK : forall z, nohandle (m_eof m z) = true.

  Lemma unit_nh : forall u s, is_handle u = false ->
    exec_unit md data h pe u s = exec_unit md data h2 pe u s.
  Proof. destruct u; intros; try reflexivity; discriminate. Qed.

  Lemma units_nh : forall us s, nohandle us = true ->
    exec_units md data h pe us s = exec_units md data h2 pe us s.
  Proof.
    induction us as [|u r IH]; intros s N; [reflexivity|]. cbn in N. apply andb_true_iff in N.
    destruct N as [N1 N2]. apply negb_true_iff in N1. cbn [exec_units]. rewrite (unit_nh u s N1).
    destruct (exec_unit md data h2 pe u s); try reflexivity. apply IH; auto.
  Qed.

  Lemma unit_calls_nh : forall hh u s s', is_handle u = false ->
    ures_st (exec_unit md data hh pe u s) = Some s' -> s_calls s' = s_calls s.
  Proof.
    intros hh u s s' N H.
    destruct u; try discriminate; cbn [exec_unit] in H; unfold Machine.brk in H;
      repeat match type of H with
      | context [match ?x with _ => _ end] => destruct x
      | context [if ?x then _ else _] => destruct x
      end; cbn in H; try discriminate; inversion H; subst; reflexivity.
  Qed.

  Lemma units_calls_nh : forall hh us s s', nohandle us = true ->
    ures_st (exec_units md data hh pe us s) = Some s' -> s_calls s' = s_calls s.
  Proof.
    intros hh. induction us as [|u r IH]; intros s s' N H.
    - cbn in H. inversion H. reflexivity.
    - cbn in N. apply andb_true_iff in N. destruct N as [N1 N2]. apply negb_true_iff in N1.
      cbn [exec_units] in H. pose proof (unit_calls_nh hh u s) as U.
      destruct (exec_unit md data hh pe u s) as [s1|s1 d|s1|p1 e1 s1|k]; cbn in H; try discriminate;
        try (inversion H; subst; apply (U s' N1 eq_refl)).
      rewrite (IH s1 s' N2 H). apply (U s1 N1 eq_refl).
  Qed.

  (** the head of a handling block *)
  Definition hcall (o : bool) (s : st) : option call :=
    match (if o then slice data (s_fs s + 1) (s_fe s - 1) else Some []) with
    | None => None
    | Some kb => if (0 <=? s_p s) && (s_p s <=? pe) then Some {| c_p := s_p s; c_key := kb; c_obj := o |} else None
    end.

  Lemma hblock_none : forall hh o k a r s, hcall o s = None ->
    exec_units md data hh pe (UHandle o k :: UHandlerErrRet a :: r) s = RPanic PSlice.
  Proof.
    intros hh o k a r s H. unfold hcall in H. cbn [exec_units exec_unit].
    destruct (if o then slice data (s_fs s + 1) (s_fe s - 1) else Some []) as [kb|]; [|reflexivity].
    destruct ((0 <=? s_p s) && (s_p s <=? pe)); [discriminate|reflexivity].
  Qed.

  Lemma hblock_calls : forall hh o k a r s c s', hcall o s = Some c -> nohandle r = true ->
    ures_st (exec_units md data hh pe (UHandle o k :: UHandlerErrRet a :: r) s) = Some s' ->
    s_calls s' = c :: s_calls s.
  Proof.
    intros hh o k a r s c s' HC N H. unfold hcall in HC. cbn [exec_units exec_unit] in H.
    destruct (if o then slice data (s_fs s + 1) (s_fe s - 1) else Some []) as [kb|]; [|discriminate].
    destruct ((0 <=? s_p s) && (s_p s <=? pe)); [|discriminate]. inversion HC; subst c. clear HC.
    set (c := {| c_p := s_p s; c_key := kb; c_obj := o |}) in *.
    set (s3 := if k then _ else _) in H.
    assert (C3 : s_calls s3 = c :: s_calls s) by (subst s3; destruct k; reflexivity).
    destruct (h_havoc (hh (c :: s_calls s))) as [|hv0 hv].
    - cbn [exec_unit] in H. destruct (s_err s3).
      + cbn in H. inversion H; subst. exact C3.
      + rewrite (units_calls_nh hh r s3 s' N H). exact C3.
    - set (s4 := set_stk s3 _ _ _ _) in H. assert (C4 : s_calls s4 = c :: s_calls s) by (subst s4; cbn; exact C3).
      cbn [exec_unit] in H. destruct (s_err s4).
      + cbn in H. inversion H; subst. exact C4.
      + rewrite (units_calls_nh hh r s4 s' N H). exact C4.
  Qed.

  Lemma hblock_good : forall o k a r s c, hcall o s = Some c -> nohandle r = true -> good (c :: s_calls s) = true ->
    exec_units md data h pe (UHandle o k :: UHandlerErrRet a :: r) s =
    exec_units md data h2 pe (UHandle o k :: UHandlerErrRet a :: r) s.
  Proof.
    intros o k a r s c HC N G. unfold hcall in HC. cbn [exec_units exec_unit].
    destruct (if o then slice data (s_fs s + 1) (s_fe s - 1) else Some []) as [kb|]; [|reflexivity].
    destruct ((0 <=? s_p s) && (s_p s <=? pe)); [|reflexivity]. inversion HC; subst c. clear HC.
    rewrite (AGREE _ G).
    match goal with |- match ?X with _ => _ end = _ => destruct X; try reflexivity end.
    cbn [exec_unit]. destruct (s_err s0); [reflexivity|]. apply units_nh. exact N.
  Qed.

  Lemma hblock_bad : forall o k a r s c, hcall o s = Some c -> good (c :: s_calls s) = false ->
    exists p tok s', exec_units md data h pe (UHandle o k :: UHandlerErrRet a :: r) s = RRet p (EHandler tok) s'.
  Proof.
    intros o k a r s c HC G. unfold hcall in HC. cbn [exec_units exec_unit].
    destruct (if o then slice data (s_fs s + 1) (s_fe s - 1) else Some []) as [kb|]; [|discriminate].
    destruct ((0 <=? s_p s) && (s_p s <=? pe)); [|discriminate]. inversion HC; subst c. clear HC.
    destruct (BAD _ G) as (tok & E & HV). rewrite HV, E. cbn [option_map].
    destruct k; cbn; eauto.
  Qed.

  (** what follows a block *)
  Definition tail (hh : handler) (f : nat) (r : ures) (d : Z) : outcome :=
    let go s' d' := match goto_step md m data hh pe s' d' with
                    | SDone o => o
                    | SNext z' s'' => run md m data hh pe f z' s''
                    end in
    match r with
    | RCont s' => go s' d
    | RGoto s' d' => go s' d'
    | ROut s' => ODone (s_p s') (s_err s') s'
    | RRet p e s' => ODone p (Some e) s'
    | RPanic k => OPanic k
    end.

  Lemma run_tail : forall hh f z s,
    run md m data hh pe (S f) z s =
    match get data (s_p s) with
    | None => OPanic PData
    | Some b => tail hh f (exec_units md data hh pe (fst (m_trans m z b)) s) (snd (m_trans m z b))
    end.
  Proof.
    intros hh f z s. rewrite run_step. unfold step, tail.
    destruct (get data (s_p s)); [|reflexivity]. destruct (m_trans m z b) as [us d]. cbn [fst snd].
    destruct (exec_units md data hh pe us s); reflexivity.
  Qed.

  Lemma eof_same : forall z s, eof_phase md m data h pe z s = eof_phase md m data h2 pe z s.
  Proof. intros z s. unfold eof_phase. rewrite (units_nh _ _ (EOF_OK z)). reflexivity. Qed.

  Lemma eof_calls : forall hh z s p e sf, eof_phase md m data hh pe z s = ODone p e sf -> s_calls sf = s_calls s.
  Proof.
    intros hh z s p e sf H. unfold eof_phase in H. pose proof (units_calls_nh hh (m_eof m z) s) as U.
    destruct (exec_units md data hh pe (m_eof m z) s); try discriminate; inversion H; subst; apply U; auto.
  Qed.

  Lemma goto_same : forall s' d', goto_step md m data h pe s' d' = goto_step md m data h2 pe s' d'.
  Proof.
    intros s' d'. unfold goto_step. destruct (d' =? 0); [reflexivity|]. destruct (negb (m_is_state m d')); [reflexivity|].
    destruct (_ =? pe); [|reflexivity]. rewrite eof_same. reflexivity.
  Qed.

  (** calls are only ever added in front *)
  Lemma run_calls : forall hh f z s p e sf, run md m data hh pe f z s = ODone p e sf -> suffix (s_calls s) (s_calls sf).
  Proof.
    intros hh. induction f as [|f IH]; intros z s p e sf H; [discriminate|].
    rewrite run_tail in H. destruct (get data (s_p s)) as [b|]; [|discriminate].
    set (us := fst (m_trans m z b)) in *. set (d := snd (m_trans m z b)) in *.
    assert (BL : forall s1, ures_st (exec_units md data hh pe us s) = Some s1 -> suffix (s_calls s) (s_calls s1)).
    { intros s1 E. destruct (hblock_inv us (TRANS_OK z b)) as [N|(o & k & a & r & EU & N)].
      - rewrite (units_calls_nh hh us s s1 N E). apply suffix_refl.
      - rewrite EU in E. destruct (hcall o s) as [c|] eqn:HC.
        + rewrite (hblock_calls hh o k a r s c s1 HC N E). apply suffix_cons.
        + rewrite (hblock_none hh o k a r s HC) in E. discriminate. }
    assert (GO : forall s1 d1, match goto_step md m data hh pe s1 d1 with
                               | SDone o => o | SNext z' s'' => run md m data hh pe f z' s'' end = ODone p e sf ->
                               suffix (s_calls s1) (s_calls sf)).
    { intros s1 d1 G. unfold goto_step in G. destruct (d1 =? 0); [inversion G; subst; apply suffix_refl|].
      destruct (negb (m_is_state m d1)); [discriminate|].
      destruct (_ =? pe).
      - apply eof_calls in G. rewrite G. apply suffix_refl.
      - apply IH in G. exact G. }
    unfold tail in H. destruct (exec_units md data hh pe us s) as [s1|s1 d1|s1|p1 e1 s1|k] eqn:E; try discriminate.
    - eapply suffix_trans; [apply BL; reflexivity|]. eapply GO; eauto.
    - eapply suffix_trans; [apply BL; reflexivity|]. eapply GO; eauto.
    - inversion H; subst. apply BL. reflexivity.
    - inversion H; subst. apply BL. reflexivity.
  Qed.

  Definition AllGood (base final : list call) : Prop :=
    forall L, suffix L final -> (length base < length L)%nat -> good L = true.

  Lemma AllGood_same : forall base, AllGood base base.
  Proof. intros base L S LL. apply suffix_len in S. lia. Qed.

  Definition HErr (o : outcome) : Prop := exists p tok s', o = ODone p (Some (EHandler tok)) s'.

  (** the dichotomy *)
  Theorem run_dich : forall f z s p e sf, run md m data h2 pe f z s = ODone p e sf ->
    (AllGood (s_calls s) (s_calls sf) /\ run md m data h pe f z s = ODone p e sf) \/
    (~ AllGood (s_calls s) (s_calls sf) /\ HErr (run md m data h pe f z s)).
  Proof.
    induction f as [|f IH]; intros z s p e sf H; [discriminate|].
    pose proof H as H0. rewrite run_tail in H. rewrite run_tail.
    destruct (get data (s_p s)) as [b|]; [|discriminate].
    set (us := fst (m_trans m z b)) in *. set (d := snd (m_trans m z b)) in *.
    (* the rest of the run after the block, from a state with the calls [C1] *)
    assert (AFTER : forall r, exec_units md data h2 pe us s = r -> exec_units md data h pe us s = r ->
              (forall s1, ures_st r = Some s1 ->
                 s_calls s1 = s_calls s \/ exists c, s_calls s1 = c :: s_calls s /\ good (c :: s_calls s) = true) ->
              (AllGood (s_calls s) (s_calls sf) /\ tail h f r d = ODone p e sf) \/
              (~ AllGood (s_calls s) (s_calls sf) /\ HErr (tail h f r d))).
    { intros r E2 E1 CS. rewrite E2 in H.
      assert (STEP : forall s1, ures_st r = Some s1 -> AllGood (s_calls s1) (s_calls sf) -> suffix (s_calls s1) (s_calls sf) ->
                     AllGood (s_calls s) (s_calls sf)).
      { intros s1 R1 AG SF L SL LL. destruct (CS s1 R1) as [C|(c & C & G)].
        - apply AG; [exact SL|]. rewrite C. exact LL.
        - destruct (Nat.eq_dec (length L) (length (s_calls s1))) as [EQ|NE].
          + rewrite (suffix_same_len L (s_calls s1) _ SL SF EQ), C. exact G.
          + apply AG; [exact SL|]. rewrite C in *. cbn [length] in *. lia. }
      assert (STEPN : forall s1, ures_st r = Some s1 -> ~ AllGood (s_calls s1) (s_calls sf) -> ~ AllGood (s_calls s) (s_calls sf)).
      { intros s1 R1 NAG AG. apply NAG. intros L SL LL. apply AG; [exact SL|].
        destruct (CS s1 R1) as [C|(c & C & G)]; rewrite C in LL; cbn [length] in LL; lia. }
      assert (GO : forall s1 d1, ures_st r = Some s1 ->
                match goto_step md m data h2 pe s1 d1 with
                | SDone o => o | SNext z' s'' => run md m data h2 pe f z' s'' end = ODone p e sf ->
                let o := match goto_step md m data h pe s1 d1 with
                         | SDone o => o | SNext z' s'' => run md m data h pe f z' s'' end in
                (AllGood (s_calls s) (s_calls sf) /\ o = ODone p e sf) \/ (~ AllGood (s_calls s) (s_calls sf) /\ HErr o)).
      { intros s1 d1 R1 G. cbv zeta. rewrite goto_same. unfold goto_step in *.
        destruct (d1 =? 0).
        { left. split; [|exact G]. inversion G; subst. apply (STEP sf R1); [apply AllGood_same|apply suffix_refl]. }
        destruct (negb (m_is_state m d1)); [discriminate|].
        destruct (_ =? pe).
        - left. split; [|exact G]. pose proof (eof_calls _ _ _ _ _ _ G) as C.
          apply (STEP s1 R1); cbn in C; rewrite C; [apply AllGood_same|apply suffix_refl].
        - destruct (IH _ _ _ _ _ G) as [[AG EQ]|[NAG HE]].
          + left. split; [|exact EQ]. apply (STEP s1 R1); [exact AG|]. apply (run_calls _ _ _ _ _ _ _ G).
          + right. split; [|exact HE]. apply (STEPN s1 R1). exact NAG. }
      unfold tail in *. destruct r as [s1|s1 d1|s1|p1 e1 s1|k]; try discriminate.
      - apply GO; [reflexivity|exact H].
      - apply GO; [reflexivity|exact H].
      - left. split; [|exact H]. inversion H; subst. apply (STEP sf eq_refl); [apply AllGood_same|apply suffix_refl].
      - left. split; [|exact H]. inversion H; subst. apply (STEP sf eq_refl); [apply AllGood_same|apply suffix_refl]. }
    destruct (hblock_inv us (TRANS_OK z b)) as [N|(o & k & a & r & EU & N)].
    - (* no handler call in this block *)
      rewrite (units_nh us s N). apply (AFTER _ eq_refl (units_nh us s N)).
      intros s1 R1. left. apply (units_calls_nh h2 us s s1 N R1).
    - destruct (hcall o s) as [c|] eqn:HC.
      2:{ rewrite EU, (hblock_none h2 o k a r s HC) in H. discriminate. }
      destruct (good (c :: s_calls s)) eqn:G.
      + assert (E1 : exec_units md data h pe us s = exec_units md data h2 pe us s)
          by (rewrite EU; apply hblock_good with (c := c); auto).
        rewrite E1. apply (AFTER _ eq_refl E1).
        intros s1 R1. right. exists c. split; [|exact G]. rewrite EU in R1. eapply hblock_calls; eauto.
      + right. split.
        * intros AG. assert (SF : suffix (c :: s_calls s) (s_calls sf)).
          { rewrite EU in H. pose proof (hblock_calls h2 o k a r s c) as HCs.
            unfold tail in H.
            assert (GOc : forall s1 d1, s_calls s1 = c :: s_calls s ->
                      match goto_step md m data h2 pe s1 d1 with
                      | SDone o => o | SNext z' s'' => run md m data h2 pe f z' s'' end = ODone p e sf ->
                      suffix (c :: s_calls s) (s_calls sf)).
            { intros s1 d1 C1 GG. rewrite <- C1. unfold goto_step in GG. destruct (d1 =? 0); [inversion GG; subst; apply suffix_refl|].
              destruct (negb (m_is_state m d1)); [discriminate|]. destruct (_ =? pe).
              - apply eof_calls in GG. cbn in GG. rewrite GG. apply suffix_refl.
              - apply run_calls in GG. exact GG. }
            destruct (exec_units md data h2 pe (UHandle o k :: UHandlerErrRet a :: r) s) as [s1|s1 d1|s1|p1 e1 s1|k1];
              try discriminate.
            - eapply GOc; [|exact H]. apply HCs; auto.
            - eapply GOc; [|exact H]. apply HCs; auto.
            - inversion H; subst. rewrite <- (HCs sf HC N eq_refl). apply suffix_refl.
            - inversion H; subst. rewrite <- (HCs sf HC N eq_refl). apply suffix_refl. }
          specialize (AG _ SF ltac:(cbn [length]; lia)). congruence.
        * rewrite EU. destruct (hblock_bad o k a r s c HC G) as (p1 & tok & s1 & E). rewrite E.
          cbn [tail]. exists p1, tok, s1. reflexivity.
  Qed.

  (** the same for a whole run *)
  Theorem prun_dich : forall stack dst p e sf, prun md m data h2 stack dst = ODone p e sf -> pe = len data ->
    (AllGood [] (s_calls sf) /\ prun md m data h stack dst = ODone p e sf) \/
    (~ AllGood [] (s_calls sf) /\ HErr (prun md m data h stack dst)).
  Proof.
    intros stack dst p e sf H PE. unfold prun in *. rewrite <- PE in *.
    destruct (0 =? pe).
    - left. rewrite eof_same. split; [|exact H]. apply eof_calls in H. cbn in H. rewrite H. apply AllGood_same.
    - apply (run_dich _ _ _ _ _ _ H).
  Qed.
End Dich.

(** ** the specification machines call the handler only at the head of a block *)
Lemma nh_app : forall a b, nohandle a = true -> nohandle b = true -> nohandle (a ++ b) = true.
Proof. intros a b A B. unfold nohandle in *. rewrite forallb_app, A, B. reflexivity. Qed.
Lemma nh_hblock : forall us, nohandle us = true -> hblock us = true.
Proof.
  intros us H. destruct us as [|u us']; [exact H|]. destruct u; try exact H.
  cbn in H. discriminate.
Qed.
Lemma nh_err_units : forall c, nohandle (err_units c) = true.
Proof. destruct c; reflexivity. Qed.
Lemma nh_eof_units : forall c, nohandle (eof_units c) = true.
Proof. destruct c; reflexivity. Qed.
Lemma hb_handler_units : forall c f r, nohandle r = true -> hblock (handler_units c f ++ r) = true.
Proof. intros c f r N. destruct c, f; cbn [handler_units is_objctx app]; try (apply nh_hblock; exact N); exact N. Qed.

Lemma hb_value_start : forall chk c b, hblock (fst (value_start chk c b)) = true.
Proof.
  intros chk c b. unfold value_start.
  destruct (is ch_lbrack b); [cbn [fst]; apply hb_handler_units; reflexivity|].
  destruct (is ch_lbrace b); [cbn [fst]; apply hb_handler_units; reflexivity|].
  destruct (tok_first b); cbn [fst fail].
  - rewrite <- (app_nil_r (handler_units c _)). apply hb_handler_units. reflexivity.
  - apply nh_hblock, nh_err_units.
Qed.

Lemma hb_struct_step : forall chk c p b, hblock (fst (struct_step chk c p b)) = true.
Proof.
  intros chk c p b.
  destruct p; destruct c; cbn -[value_start];
    repeat match goal with |- context [if ?x then _ else _] => destruct x end;
    try reflexivity; apply hb_value_start.
Qed.

Lemma hb_strans : forall chk q b, hblock (fst (strans chk q b)) = true.
Proof.
  intros chk [c p] b. unfold strans.
  destruct p; try apply hb_struct_step.
  - destruct (scans c && in_intpart t && is ch_dot b); [reflexivity|].
    destruct (scans c && in_intpart t && is_exp b); [reflexivity|].
    destruct (tok_step t b); cbn [fst fail]; try reflexivity; try (apply nh_hblock, nh_err_units); try apply hb_struct_step.
    destruct c, t; reflexivity.
  - destruct (tok_step t b); cbn [fst fail]; try reflexivity; apply nh_hblock, nh_err_units.
Qed.

Lemma nh_seof : forall q, nohandle (seof q) = true.
Proof.
  intros [c p]. destruct p; cbn; try apply nh_eof_units; try reflexivity.
  destruct (tok_complete t); [destruct (after c); try reflexivity; apply nh_eof_units|apply nh_eof_units].
Qed.

Lemma spec_trans_ok : forall chk start z b, hblock (fst (m_trans (spec_machine chk start) z b)) = true.
Proof.
  intros chk start z b. cbn [m_trans spec_machine]. destruct (dec z) as [q|]; [|reflexivity].
  pose proof (hb_strans chk q b) as H. destruct (strans chk q b) as [us d]. exact H.
Qed.
Lemma spec_eof_ok : forall chk start z, nohandle (m_eof (spec_machine chk start) z) = true.
Proof. intros chk start z. cbn [m_eof spec_machine]. destruct (dec z) as [q|]; [apply nh_seof|reflexivity]. Qed.

(** ** [members_ref] lists the items of the container the reference skipper walks through *)

Lemma skipn_next : forall {A} w (r : list A) c r1, skipn w r = c :: r1 -> skipn (S w) r = r1.
Proof.
  intros A w r c r1 H. change (S w) with (1 + w)%nat. rewrite <- skipn_skipn, H. reflexivity.
Qed.

(** one item = key part + value *)
Lemma item_key : forall (value : list byte -> option nat) (obj : bool) l,
  (if obj then member value else value) l =
  match keypart obj l with
  | None => None
  | Some (kb, kl) => option_map (fun n => (kl + n)%nat) (value (skipn kl l))
  end.
Proof.
  intros value obj l. destruct obj; cbn [keypart].
  - unfold member. destruct (string_tok l) as [n|]; [|reflexivity]. cbv zeta.
    destruct (skipn (ws (skipn n l)) (skipn n l)) as [|c r1] eqn:K; [reflexivity|].
    destruct (isb 58 c); [|reflexivity].
    assert (E : skipn (n + ws (skipn n l) + 1 + ws r1) l = skipn (ws r1) r1).
    { apply skipn_next in K. rewrite skipn_skipn in K. rewrite <- K, skipn_skipn. f_equal. lia. }
    rewrite E. reflexivity.
  - cbn [skipn]. destruct (value l); reflexivity.
Qed.

Lemma members_from_key : forall (value : list byte -> option nat) k obj off l,
  members_from value (S k) obj off l =
  match keypart obj l with
  | None => None
  | Some (kbytes, kl) =>
    let lv := skipn kl l in
    match value lv with
    | None => None
    | Some n =>
      let here := (Z.of_nat (off + kl), kbytes) in
      let r := skipn n lv in
      let w := ws r in
      match skipn w r with
      | c :: r1 =>
        if isb 44 c then
          let w1 := ws r1 in
          match members_from value k obj (off + kl + n + w + 1 + w1) (skipn w1 r1) with
          | Some (ms, e) => Some (here :: ms, e)
          | None => None
          end
        else if isb (if obj then 125 else 93) c then Some ([here], Z.of_nat (off + kl + n + w + 1))
        else None
      | [] => None
      end
    end
  end.
Proof. intros value k obj off l. destruct obj; reflexivity. Qed.

(** the members listed are the items walked through, and the end offset is the same *)
Lemma items_members : forall (value : list byte -> option nat) k obj off l,
  match members_from value k obj off l with
  | Some (ms, e) => exists n, items k (if obj then member value else value) (if obj then 125 else 93) l = Some n /\
                              e = Z.of_nat (off + n)
  | None => items k (if obj then member value else value) (if obj then 125 else 93) l = None
  end.
Proof.
  intros value. induction k as [|k IH]; intros obj off l; [reflexivity|].
  rewrite members_from_key. cbn [items]. rewrite item_key.
  destruct (keypart obj l) as [[kb kl]|]; [|reflexivity].
  destruct (value (skipn kl l)) as [n|]; [|reflexivity]. cbn [option_map]. cbv zeta.
  assert (E : skipn n (skipn kl l) = skipn (kl + n) l) by (rewrite skipn_skipn; f_equal; lia).
  rewrite E. set (r := skipn (kl + n) l). set (w := ws r).
  destruct (skipn w r) as [|c r1]; [reflexivity|].
  destruct (isb 44 c).
  - specialize (IH obj (off + kl + n + w + 1 + ws r1)%nat (skipn (ws r1) r1)).
    destruct (members_from value k obj _ _) as [[ms e]|].
    + destruct IH as (m & -> & ->). eexists. split; [reflexivity|]. f_equal. lia.
    + rewrite IH. reflexivity.
  - destruct (isb (if obj then 125 else 93) c); [|reflexivity].
    eexists. split; [reflexivity|]. f_equal. lia.
Qed.

(** the reference skipper without a bound on the nesting (more containers than bytes cannot be open) *)
Definition skip_unb (data : list byte) : option Z := skip_ref_md (len data) data.

Lemma skip_ref_unb : forall data p, skip_ref data = Some p -> skip_unb data = Some p.
Proof.
  intros data p H. unfold skip_unb, skip_ref, skip_ref_md in *.
  destruct (value_len max_depth_ref (length data + 2) 0 (skipn (ws data) data)) as [n|] eqn:V; [|discriminate].
  rewrite (value_len_unb _ _ _ _ _ V (length data + 2)%nat (len data) 0); [exact H| |].
  - rewrite skipn_length. lia.
  - unfold len. rewrite skipn_length. lia.
Qed.

(** what [members_ref] reports as the end is where the unbounded reference skipper ends *)
Theorem members_ref_end : forall obj data ms e, members_ref obj data = Some (ms, e) -> skip_unb data = Some e.
Proof.
  intros obj data ms e M. unfold members_ref in M. unfold skip_unb, skip_ref_md.
  set (w := ws data) in *. set (l := skipn w data) in *.
  destruct (lit_ref lit_null l) as [n|] eqn:LN.
  { inversion M; subst. replace (length data + 2)%nat with (S (length data + 1)) by lia.
    rewrite (value_len_scalar _ _ _ _ _ (lit_scalar lit_null l n ltac:(auto) LN)). reflexivity. }
  destruct l as [|b r] eqn:L; [discriminate|].
  destruct (isb (if obj then 123 else 91) b) eqn:OB; [|discriminate].
  assert (LD : (S (length r) <= length data)%nat).
  { assert (A : length l = S (length r)) by (rewrite L; reflexivity). unfold l in A. rewrite skipn_length in A. lia. }
  assert (MDP : (len data <=? 0) = false) by (apply Z.leb_gt; unfold len; lia).
  assert (HEAD : value_len (len data) (length data + 2) 0 (b :: r) =
                 option_map S (container (length data + 1)
                                 (if obj then member (value_len (len data) (length data + 1) (0 + 1)) else value_len (len data) (length data + 1) (0 + 1))
                                 (if obj then 125 else 93) r)).
  { replace (length data + 2)%nat with (S (length data + 1)) by lia. cbn [value_len]. rewrite MDP.
    destruct obj.
    - assert (A : isb 91 b = false) by (apply Z.eqb_eq in OB; unfold isb; rewrite OB; reflexivity). rewrite A, OB. reflexivity.
    - rewrite OB. reflexivity. }
  rewrite HEAD. unfold container. set (w1 := ws r) in *.
  destruct (skipn w1 r) as [|c r1] eqn:K; [discriminate|].
  destruct (isb (if obj then 125 else 93) c).
  { inversion M; subst. cbn [option_map]. f_equal. lia. }
  pose proof (items_members (value_len (len data) (length data + 2) 0) (S (length data)) obj (w + 1 + w1) (c :: r1)) as IM.
  change (Z.of_nat (length data)) with (len data) in M. rewrite M in IM. destruct IM as (n & IT & ->).
  (* the items of the unbounded reference at depth 0 are items at depth 1 *)
  assert (LC : (length (c :: r1) <= length r)%nat).
  { rewrite <- K, skipn_length. lia. }
  assert (EXT : forall l' n', (length l' <= length (c :: r1))%nat ->
            value_len (len data) (length data + 2) 0 l' = Some n' ->
            value_len (len data) (length data + 1) (0 + 1) l' = Some n').
  { intros l' n' LL V. eapply value_len_unb; [exact V|lia|]. unfold len. lia. }
  assert (IT2 : items (length data + 1)
                  (if obj then member (value_len (len data) (length data + 1) (0 + 1)) else value_len (len data) (length data + 1) (0 + 1))
                  (if obj then 125 else 93) (c :: r1) = Some n).
  { eapply items_ext; [exact IT| |lia].
    intros l' n' LL I. destruct obj; [|apply EXT; assumption].
    eapply member_ext; [exact I|]. intros l2 n2 L2 V2. apply EXT; [lia|exact V2]. }
  rewrite IT2. cbn [option_map]. f_equal. lia.
Qed.

(** conversely, where the reference skipper finds an array / object, [members_ref] lists its members
    and ends at the same offset *)
Theorem skip_members_ref : forall (obj : bool) data b r p, skipn (ws data) data = b :: r ->
  isb (if obj then 123 else 91) b = true -> skip_ref data = Some p ->
  exists ms, members_ref obj data = Some (ms, p).
Proof.
  intros obj data b r p L OB SR. apply skip_ref_unb in SR.
  unfold skip_unb, skip_ref_md in SR. unfold members_ref. rewrite L in *.
  set (w := ws data) in *.
  assert (NL : lit_ref lit_null (b :: r) = None).
  { unfold lit_ref. cbn [is_prefix lit_null]. apply Z.eqb_eq in OB. rewrite OB. destruct obj; reflexivity. }
  rewrite NL, OB.
  assert (LD : (S (length r) <= length data)%nat).
  { assert (A : length (skipn w data) = S (length r)) by (rewrite L; reflexivity). rewrite skipn_length in A. lia. }
  assert (MDP : (len data <=? 0) = false) by (apply Z.leb_gt; unfold len; lia).
  replace (length data + 2)%nat with (S (length data + 1)) in SR by lia. cbn [value_len] in SR. rewrite MDP in SR.
  assert (C : exists m, container (length data + 1)
                 (if obj then member (value_len (len data) (length data + 1) (0 + 1)) else value_len (len data) (length data + 1) (0 + 1))
                 (if obj then 125 else 93) r = Some m /\ p = Z.of_nat (w + S m)).
  { destruct obj.
    - assert (A : isb 91 b = false) by (apply Z.eqb_eq in OB; unfold isb; rewrite OB; reflexivity). rewrite A, OB in SR.
      destruct (container _ _ 125 r) as [m|]; [|discriminate]. cbn in SR. inversion SR. eauto.
    - rewrite OB in SR. destruct (container _ _ 93 r) as [m|]; [|discriminate]. cbn in SR. inversion SR. eauto. }
  destruct C as (m & C & ->). unfold container in C. set (w1 := ws r) in *.
  destruct (skipn w1 r) as [|c r1] eqn:K; [discriminate|].
  destruct (isb (if obj then 125 else 93) c).
  { inversion C; subst. eexists. do 2 f_equal. lia. }
  destruct (items (length data + 1) _ _ (c :: r1)) as [n|] eqn:IT; [|discriminate]. cbn in C. inversion C; subst m.
  assert (LC : (length (c :: r1) <= length r)%nat) by (rewrite <- K, skipn_length; lia).
  assert (EXT : forall l' n', (length l' <= length (c :: r1))%nat ->
            value_len (len data) (length data + 1) (0 + 1) l' = Some n' ->
            value_len (len data) (length data + 2) 0 l' = Some n').
  { intros l' n' LL V. eapply value_len_unb; [exact V|lia|]. unfold len. lia. }
  assert (IT2 : items (S (length data))
                  (if obj then member (value_len (len data) (length data + 2) 0) else value_len (len data) (length data + 2) 0)
                  (if obj then 125 else 93) (c :: r1) = Some n).
  { eapply items_ext; [exact IT| |lia].
    intros l' n' LL I. destruct obj; [|apply EXT; assumption].
    eapply member_ext; [exact I|]. intros l2 n2 L2 V2. apply EXT; [lia|exact V2]. }
  pose proof (items_members (value_len (len data) (length data + 2) 0) (S (length data)) obj (w + 1 + w1) (c :: r1)) as IM.
  change (Z.of_nat (length data)) with (len data).
  destruct (members_from _ _ obj _ (c :: r1)) as [[ms e]|].
  - destruct IM as (n' & IT' & ->). rewrite IT2 in IT'. inversion IT'; subst n'. exists ms. do 2 f_equal. lia.
  - rewrite IT2 in IM. discriminate.
Qed.

(** ** the handler machines with handlers that may report errors *)

(** the answer to the newest call is a good one: no error, no scribbling, and 0 or the exact
    length of the value according to the reference *)
Definition goodh (data : list byte) (h : handler) (L : list call) : bool :=
  match L with
  | c :: _ =>
    let r := h L in
    match h_err r, h_havoc r with
    | None, [] => (h_pp r =? 0) ||
                  match skip_ref (skipn (Z.to_nat (c_p c)) data) with Some n => n =? h_pp r | None => false end
    | _, _ => false
    end
  | [] => true
  end.

(** [h] where it is good, the handler that answers 0 elsewhere *)
Definition patch (data : list byte) (h : handler) : handler :=
  fun L => if goodh data h L then h L else h_zero L.

Lemma patch_wb : forall data h, well_behaved data (patch data h).
Proof.
  intros data h c calls. unfold patch. destruct (goodh data h (c :: calls)) eqn:G; [|cbn; auto].
  unfold goodh in G. cbv zeta in G.
  destruct (h_err (h (c :: calls))); [discriminate|]. destruct (h_havoc (h (c :: calls))); [|discriminate].
  split; [reflexivity|]. split; [reflexivity|].
  apply orb_true_iff in G. destruct G as [G|G]; [left; apply Z.eqb_eq; exact G|right].
  destruct (skip_ref _) as [n|]; [|discriminate]. apply Z.eqb_eq in G. subst. reflexivity.
Qed.

Definition reports_when_bad (data : list byte) (h : handler) : Prop :=
  forall L, goodh data h L = false -> exists tok, h_err (h L) = Some tok /\ h_havoc (h L) = [].

(** HandleArrayValues / HandleObjectValues over their specification machines with a handler that
    reports an error (without scribbling) whenever its answer is not good: the run is an error when the
    reference finds no array / object; otherwise either every call (they are the members the reference
    lists, in order) got a good answer and the run ends after the closing bracket, or the run stops
    with the handler's error at the first call whose answer is not good *)
Theorem members_spec_err : forall (obj : bool) data h stack dst,
  len data <= maxint -> reports_when_bad data h ->
  let mach := if obj then hobj_spec else harr_spec in
  match members_ref obj data with
  | Some (ms, e) =>
    exists s2, prun 10000 mach data (patch data h) stack dst = ODone e None s2 /\
               map callpair (rev (s_calls s2)) = ms /\
               ((AllGood (goodh data h) [] (s_calls s2) /\ prun 10000 mach data h stack dst = ODone e None s2) \/
                (~ AllGood (goodh data h) [] (s_calls s2) /\ HErr (prun 10000 mach data h stack dst)))
  | None => exists p e s, prun 10000 mach data h stack dst = ODone p (Some e) s
  end.
Proof.
  intros obj data h stack dst LEN RB mach.
  pose proof (members_spec_correct obj data (patch data h) stack dst LEN (patch_wb data h)) as M. fold mach in M.
  assert (MEQ : mach = spec_machine false (if obj then (CHOTop, PStart) else (CHATop, PStart))) by (destruct obj; reflexivity).
  assert (D : forall p e sf, prun 10000 mach data (patch data h) stack dst = ODone p e sf ->
              (AllGood (goodh data h) [] (s_calls sf) /\ prun 10000 mach data h stack dst = ODone p e sf) \/
              (~ AllGood (goodh data h) [] (s_calls sf) /\ HErr (prun 10000 mach data h stack dst))).
  { intros p e sf H. apply (prun_dich 10000 mach data (len data) h (patch data h) (goodh data h)); auto.
    - intros L G. unfold patch. rewrite G. reflexivity.
    - intros z b. rewrite MEQ. apply spec_trans_ok.
    - intros z. rewrite MEQ. apply spec_eof_ok. }
  destruct (members_ref obj data) as [[ms e]|].
  - destruct M as (s2 & E & C). exists s2. split; [exact E|]. split; [exact C|]. apply D. exact E.
  - destruct M as (p & e & s & E). destruct (D _ _ _ E) as [[_ E2]|[_ (p' & tok & s' & E2)]]; eauto.
Qed.

(** C08, traversal form.  A ValueReader-style handler: it never scribbles, and whenever it reports no
    error its answer is the exact offset of a successful nested read, i.e. (Parts 1-4) the offset of the
    reference skipper on the member *)
Definition vr_style (data : list byte) (h : handler) : Prop :=
  forall c calls, h_havoc (h (c :: calls)) = [] /\
                  (h_err (h (c :: calls)) = None ->
                   skip_ref (skipn (Z.to_nat (c_p c)) data) = Some (h_pp (h (c :: calls)))).

Lemma vr_style_reports : forall data h, vr_style data h -> reports_when_bad data h.
Proof.
  intros data h V [|c calls] G; [discriminate|]. destruct (V c calls) as [HV SK].
  unfold goodh in G. cbv zeta in G. rewrite HV in G.
  destruct (h_err (h (c :: calls))) as [tok|]; [eauto|].
  rewrite (SK eq_refl), Z.eqb_refl, orb_true_r in G. discriminate.
Qed.

Definition HandleValues (obj : bool) :=
  if obj then HandleObjectValues 10000 hobj_spec else HandleArrayValues 10000 harr_spec.

Lemma HandleValues_prun : forall obj data h b,
  fst (HandleValues obj data h b) = pub (of_outcome (prun 10000 (if obj then hobj_spec else harr_spec) data h (buf_stack b) [])).
Proof.
  intros obj data h b. destruct obj; unfold HandleValues, HandleObjectValues, HandleArrayValues,
    handleObjectValues_m, handleArrayValues_m; cbn [fst]; rewrite prun_c_eq; reflexivity.
Qed.

(** with a ValueReader-style handler, the offset HandleArrayValues / HandleObjectValues return on success
    is the offset of the reference skipper that puts no bound on the nesting; hence the offset of
    [skip_ref] whenever that accepts the document.  (At the depth boundary [skip_ref] may reject a
    document whose members it accepts one by one: see [handle_offset_boundary_ex].) *)
Theorem handle_offset_is_skip : forall (obj : bool) data h b p,
  len data <= maxint -> vr_style data h ->
  fst (HandleValues obj data h b) = inl (p, None) ->
  skip_unb data = Some p /\ (forall p', skip_ref data = Some p' -> p' = p).
Proof.
  intros obj data h b p LEN V H. rewrite HandleValues_prun in H.
  pose proof (members_spec_err obj data h (buf_stack b) [] LEN (vr_style_reports data h V)) as M. cbv zeta in M.
  assert (U : skip_unb data = Some p).
  { destruct (members_ref obj data) as [[ms e]|] eqn:MR.
    - destruct M as (s2 & _ & _ & [[_ E]|[_ (p' & tok & s' & E)]]); rewrite E in H; cbn in H; inversion H; subst.
      eapply members_ref_end; eauto.
    - destruct M as (p' & e & s & E). rewrite E in H. discriminate. }
  split; [exact U|]. intros p' S. apply skip_ref_unb in S. congruence.
Qed.

(** conversely: on an array / object the reference skipper accepts, the traversal with a ValueReader-style
    handler ends at the reference offset, or with the handler's error *)
Theorem handle_offset_exact : forall (obj : bool) data h b bb r p,
  len data <= maxint -> vr_style data h ->
  skipn (ws data) data = bb :: r -> isb (if obj then 123 else 91) bb = true -> skip_ref data = Some p ->
  fst (HandleValues obj data h b) = inl (p, None) \/
  exists p' tok, fst (HandleValues obj data h b) = inl (p', Some (EHandler tok)).
Proof.
  intros obj data h b bb r p LEN V L OB S. rewrite HandleValues_prun.
  destruct (skip_members_ref obj data bb r p L OB S) as (ms & MR).
  pose proof (members_spec_err obj data h (buf_stack b) [] LEN (vr_style_reports data h V)) as M. cbv zeta in M.
  rewrite MR in M. destruct M as (s2 & _ & _ & [[_ E]|[_ (p' & tok & s' & E)]]); rewrite E; cbn; eauto.
Qed.

(** a handler that answers every call with what SkipValue's reference says (an error where it rejects) *)
Definition h_skip (data : list byte) : handler := fun calls =>
  match calls with
  | c :: _ => match skip_ref (skipn (Z.to_nat (c_p c)) data) with
              | Some n => {| h_pp := n; h_err := None; h_havoc := [] |}
              | None => {| h_pp := 0; h_err := Some 1; h_havoc := [] |}
              end
  | [] => {| h_pp := 0; h_err := None; h_havoc := [] |}
  end.
Lemma h_skip_vr : forall data, vr_style data (h_skip data).
Proof. intros data c calls. cbn. destruct (skip_ref _); cbn; split; auto; discriminate. Qed.

(** { "k" : [1], "b":"x" } ; and with a malformed member: [1,[2,],3] *)
Example handle_offset_ex :
  fst (HandleValues true ex_obj (h_skip ex_obj) None) = inl (22, None) /\ skip_ref ex_obj = Some 22 /\
  (let d := [x5b; x31; x2c; x5b; x32; x2c; x5d; x2c; x33; x5d] in
   fst (HandleValues false d (h_skip d) None) = inl (3, Some (EHandler 1)) /\ skip_ref d = None).
Proof. vm_compute. repeat split; reflexivity. Qed.

Definition nest (n : nat) : list byte := repeat x5b n ++ repeat x5d n.
(** the depth boundary: 10001 nested arrays.  [skip_ref] accepts the only member (10000 levels) but not
    the document; the traversal with the handler that answers what [skip_ref] says succeeds at the end
    of the document, which is the offset of the unbounded reference *)
Example handle_offset_boundary_ex :
  let d := nest 10001 in
  skip_ref d = None /\ skip_unb d = Some 20002 /\ skip_ref (skipn 1 d) = Some 20000 /\
  fst (HandleValues false d (h_skip d) None) = inl (20002, None).
Proof. vm_compute. repeat split; reflexivity. Qed.
(** [members_ref] and the reference skippers on { "k" : [1], "b":"x" } *)
Example members_ref_end_ex :
  members_ref true ex_obj = Some ([(8, [x6b]); (17, [x62])], 22) /\ skip_unb ex_obj = Some 22 /\ skip_ref ex_obj = Some 22.
Proof. vm_compute. repeat split; reflexivity. Qed.
Print Assumptions uint32_offset_is_skip.
Print Assumptions uint_offset_is_skip.
Print Assumptions int_offset_is_skip.
Print Assumptions skipfast_offset_unique.
Print Assumptions run_dich.
Print Assumptions prun_dich.
Print Assumptions items_members.
Print Assumptions members_ref_end.
Print Assumptions skip_members_ref.
Print Assumptions members_spec_err.
Print Assumptions handle_offset_is_skip.
Print Assumptions handle_offset_exact.

(** * 6. the float reader
    (uses FloatTok.v: ReadFloat64 as a function of the reference number token, without the
    [exp_small] hypothesis of FpScan.v) *)
From Rjson Require Import Fp FloatTok.

(** ReadFloat64: the offset returned on success is where the reference skipper ends *)
Theorem float_offset_is_skip : forall T data v p, ReadFloat64_m T data = Some (v, p, None) -> skip_ref data = Some p.
Proof.
  intros T data v p H. pose proof (ReadFloat64_tok T data) as R. cbv zeta in R.
  destruct (number_tok (skipn (ws data) data)) as [n|] eqn:NT.
  - rewrite R in H. destruct (ParseJSONFloatPrefix_m T _) as [[[v' pp] err]|]; [|discriminate].
    inversion H; subst. apply skip_ref_scalar. apply number_tok_scalar. exact NT.
  - destruct R as (p' & e & R). rewrite R in H. discriminate.
Qed.

(** conversely: on an input whose first value is a number the reference accepts with offset [p], every
    normal result of ReadFloat64 (value, or range error) carries the offset [p] *)
Theorem float_offset_exact : forall T data b r p, skipn (ws data) data = b :: r ->
  isb 45 b || is_digit b = true -> skip_ref data = Some p ->
  forall v p' e, ReadFloat64_m T data = Some (v, p', e) -> p' = p.
Proof.
  intros T data b r p L NB S v p' e H.
  assert (A1 : isb 91 b = false /\ isb 123 b = false).
  { apply orb_true_iff in NB. destruct NB as [NB|NB].
    - apply Z.eqb_eq in NB. unfold isb. rewrite NB. auto.
    - unfold is_digit in NB. apply andb_true_iff in NB. destruct NB as [N1 N2]. apply Z.leb_le in N1, N2.
      unfold isb. split; apply Z.eqb_neq; lia. }
  destruct A1 as [A1 A2].
  destruct (skip_ref_scalar_inv data b r p L A1 A2 S) as (n & ST & ->).
  assert (NT : number_tok (b :: r) = Some n).
  { unfold scalar_tok in ST. rewrite NB in ST.
    destruct (isb 34 b) eqn:Q; [|exact ST]. exfalso. apply Z.eqb_eq in Q. unfold isb, is_digit in NB. rewrite Q in NB. discriminate. }
  pose proof (ReadFloat64_tok T data) as R. cbv zeta in R. rewrite L, NT in R. rewrite R in H.
  destruct (ParseJSONFloatPrefix_m T _) as [[[v' pp] err]|]; [|discriminate]. inversion H. reflexivity.
Qed.

(** -1.5e3 then a comma; an exponent with six digits (outside FpScan's exp_small) *)
Example float_offset_ex :
  skip_ref [x2d; x31; x2e; x35; x65; x33; x2c] = Some 6 /\
  rf_p (readFloat_m [x2d; x31; x2e; x35; x65; x33; x2c]) = 6 /\
  skip_ref [x31; x65; x31; x30; x30; x30; x30; x30; x5d] = Some 8 /\
  rf_p (readFloat_m [x31; x65; x31; x30; x30; x30; x30; x30; x5d]) = 8.
Proof. vm_compute. repeat split; reflexivity. Qed.
Print Assumptions float_offset_is_skip.
Print Assumptions float_offset_exact.
