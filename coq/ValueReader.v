(** Hand model of complex_readers.go (ValueReader.ReadValue / ReadObject / ReadArray):
    the value tree, the ValueReader acting as array/object handler of the regenerated handler
    machines, recursion through child readers with the depth counter, key unescaping only when
    a backslash occurs, null rejected by the typed entry points.  Definitions only.

    Two evaluators:
    - [read_value] follows the Go code: the handler of a level reads the member it is given
      (recursively) to produce its (offset, error) answer, and the values are collected after
      the run from the recorded calls.  Because a handler in this machine model is a function of
      the call history, the values are recomputed when collected, so evaluation costs 2^depth;
      it is the model of record and is compared with the implementation on documents up to a
      moderate depth.
    - [read_value_fast] answers each call with the offset SkipValue reports for the member
      (error none), lets the machine finish, and reads the members afterwards, failing if any
      member read fails.  Same (success, tree, offset) provided a successful member read ends
      where SkipValue ends; linear in depth; compared with the implementation on all documents
      (including nesting around the 10,000 limit). *)
From Coq Require Import List ZArith Bool.
From Coq Require Import Strings.Byte.
From Rjson Require Import Base Helpers Machine Api.
Import ListNotations.
Local Open Scope Z_scope.

Inductive jv :=
| JNull
| JBool (b : bool)
| JNum (bits : Z)                     (* float64 bit pattern *)
| JStr (s : list byte)
| JArr (l : list jv)
| JObj (m : list (list byte * jv)).   (* keys distinct; order of first insertion *)

Fixpoint bytes_eqb (a b : list byte) : bool :=
  match a, b with
  | [], [] => true
  | x :: a', y :: b' => (bz x =? bz y) && bytes_eqb a' b'
  | _, _ => false
  end.

(** Go map assignment m[k] = v: the last duplicate wins *)
Fixpoint obj_set (m : list (list byte * jv)) (k : list byte) (v : jv) : list (list byte * jv) :=
  match m with
  | [] => [(k, v)]
  | (k', v') :: r => if bytes_eqb k k' then (k', v) :: r else (k', v') :: obj_set r k v
  end.

Section VR.
  Variable md : Z.                     (* skipMaxDepth *)
  Variable vr_max : Z.                 (* valueReaderMaxDepth *)
  Variables mSkip mArr mObj mNull mBool mAppend mUnescape : machine.
  Variable readFloat64 : list byte -> Z * Z * option errk.   (* (bits, p, err) *)

  (** result of a read: value, offset, error; [None] = abnormal (machine panic / fuel) *)
  Definition rres := option (jv * Z * option errk).

  Definition readSimpleValue (data : list byte) (tp : Z) : rres :=
    if tp =? NullType then
      match ReadNull md mNull data with
      | inl (p, e) => Some (JNull, p, e)
      | inr _ => None
      end
    else if tp =? StringType then
      match ReadStringBytes md mAppend data [] with
      | Some (v, p, e) => Some (JStr v, p, e)
      | None => None
      end
    else if tp =? NumberType then
      let '(b, p, e) := readFloat64 data in Some (JNum b, p, e)
    else if (tp =? TrueType) || (tp =? FalseType) then
      match ReadBool md mBool data with
      | inl (v, p, e) => Some (JBool v, p, e)
      | inr _ => None
      end
    else Some (JNull, 0, Some EOther).

  (** HandleObjectValue's key handling: unescape only when a backslash occurs *)
  Definition has_backslash (k : list byte) : bool := existsb (fun b => bz b =? 92) k.
  Definition key_of (raw : list byte) : option (list byte) + unit :=
    (* inl (Some k) = key, inl None = unescape error, inr = abnormal *)
    if has_backslash raw then
      let n := count_while (fun b => negb (bz b =? 92)) raw in
      match UnescapeStringContent md mUnescape (skipn n raw) (firstn n raw) with
      | Some (k, _, None) => inl (Some k)
      | Some (_, _, Some _) => inl None
      | None => inr tt
      end
    else inl (Some raw).

  Definition err_tok : Z := 1.

  (** one member as seen by HandleArrayValue / HandleObjectValue after the key:
      [rd] reads a nested container one level down *)
  Definition member (rd_obj rd_arr : list byte -> rres) (depth : Z) (data : list byte) : rres :=
    let '(tp, p, e) := NextTokenType data in
    match e with
    | Some err => Some (JNull, p, Some err)
    | None =>
      let p := p - 1 in
      let d := skipn (Z.to_nat p) data in
      let lift (r : rres) : rres :=
          match r with Some (v, pp, e) => Some (v, p + pp, e) | None => None end in
      if tp =? ObjectStartType then
        if depth + 1 >? vr_max then Some (JNull, p, Some EMaxDepth) else lift (rd_obj d)
      else if tp =? ArrayStartType then
        if depth + 1 >? vr_max then Some (JNull, p, Some EMaxDepth) else lift (rd_arr d)
      else lift (readSimpleValue d tp)
    end.

  Definition answer (r : rres) : hres :=
    match r with
    | Some (_, p, None) => {| h_pp := p; h_err := None; h_havoc := [] |}
    | Some (_, p, Some _) => {| h_pp := p; h_err := Some err_tok; h_havoc := [] |}
    | None => {| h_pp := 0; h_err := Some (err_tok + 1); h_havoc := [] |}   (* abnormal: flagged below *)
    end.

  Definition first_is_null (data : list byte) : bool :=
    let '(tp, _, e) := NextTokenType data in
    match e with None => tp =? NullType | Some _ => false end.

  (** collect the member values of a finished traversal from its calls (oldest first) *)
  Fixpoint collect_arr (read1 : call -> rres) (calls : list call) (acc : list jv) : option (list jv) :=
    match calls with
    | [] => Some acc
    | c :: r => match read1 c with
                | Some (v, _, None) => collect_arr read1 r (acc ++ [v])
                | _ => None
                end
    end.

  Fixpoint collect_obj (read1 : call -> rres) (calls : list call) (acc : list (list byte * jv))
    : option (list (list byte * jv)) :=
    match calls with
    | [] => Some acc
    | c :: r => match key_of (c_key c), read1 c with
                | inl (Some k), Some (v, _, None) => collect_obj read1 r (obj_set acc k v)
                | _, _ => None
                end
    end.

  (** ** the model of record: follows the Go code; [depth] is the reader's depth field *)
  Fixpoint read_obj (fuel : nat) (depth : Z) (data : list byte) : rres :=
    match fuel with
    | O => None
    | S f =>
      let read1 (c : call) : rres :=
          match key_of (c_key c) with
          | inl (Some _) => member (read_obj f (depth + 1)) (read_arr f (depth + 1)) depth (skipn (Z.to_nat (c_p c)) data)
          | inl None => Some (JNull, 0, Some EInvalidString)
          | inr _ => None
          end in
      let h : handler := fun calls => match calls with c :: _ => answer (read1 c) | [] => answer None end in
      match handleObjectValues_m md mObj data h [] with
      | MDone p (Some e) _ => Some (JNull, p, Some e)
      | MDone p None s =>
        match collect_obj read1 (rev (s_calls s)) [] with
        | Some m =>
          match m with
          | [] => if first_is_null data then Some (JNull, p, Some EInvalidObject) else Some (JObj m, p, None)
          | _ => Some (JObj m, p, None)
          end
        | None => None
        end
      | _ => None
      end
    end
  with read_arr (fuel : nat) (depth : Z) (data : list byte) : rres :=
    match fuel with
    | O => None
    | S f =>
      let read1 (c : call) : rres :=
          member (read_obj f (depth + 1)) (read_arr f (depth + 1)) depth (skipn (Z.to_nat (c_p c)) data) in
      let h : handler := fun calls => match calls with c :: _ => answer (read1 c) | [] => answer None end in
      match handleArrayValues_m md mArr data h [] with
      | MDone p (Some e) _ => Some (JNull, p, Some e)
      | MDone p None s =>
        match collect_arr read1 (rev (s_calls s)) [] with
        | Some l =>
          match l with
          | [] => if first_is_null data then Some (JNull, p, Some EInvalidArray) else Some (JArr l, p, None)
          | _ => Some (JArr l, p, None)
          end
        | None => None
        end
      | _ => None
      end
    end.

  Definition vr_fuel (data : list byte) : nat := S (S (length data)).

  (** ValueReader.ReadObject / ReadArray on a fresh reader (depth 0 becomes 1) *)
  Definition ReadObject (data : list byte) : rres := read_obj (vr_fuel data) 1 data.
  Definition ReadArray (data : list byte) : rres := read_arr (vr_fuel data) 1 data.

  (** ValueReader.ReadValue on a fresh reader *)
  Definition ReadValue (data : list byte) : rres :=
    let '(tp, p, e) := NextTokenType data in
    match e with
    | Some err => Some (JNull, p, Some err)
    | None =>
      let p := p - 1 in
      let d := skipn (Z.to_nat p) data in
      let lift (r : rres) : rres :=
          match r with Some (v, pp, e) => Some (v, p + pp, e) | None => None end in
      if tp =? ObjectStartType then lift (read_obj (vr_fuel data) 1 d)
      else if tp =? ArrayStartType then lift (read_arr (vr_fuel data) 1 d)
      else lift (readSimpleValue d tp)
    end.

  (** ** the accelerated evaluator *)
  Definition skip_answer (data : list byte) (c : call) : hres :=
    match skipValue_m md mSkip (skipn (Z.to_nat (c_p c)) data) [] with
    | MDone p None _ => {| h_pp := p; h_err := None; h_havoc := [] |}
    | _ => {| h_pp := 0; h_err := None; h_havoc := [] |}
    end.

  Fixpoint fast_obj (fuel : nat) (depth : Z) (data : list byte) : rres :=
    match fuel with
    | O => None
    | S f =>
      let read1 (c : call) : rres :=
          match key_of (c_key c) with
          | inl (Some _) => member (fast_obj f (depth + 1)) (fast_arr f (depth + 1)) depth (skipn (Z.to_nat (c_p c)) data)
          | inl None => Some (JNull, 0, Some EInvalidString)
          | inr _ => None
          end in
      let h : handler := fun calls => match calls with c :: _ => skip_answer data c | [] => answer None end in
      match handleObjectValues_m md mObj data h [] with
      | MDone p (Some e) _ => Some (JNull, p, Some e)
      | MDone p None s =>
        match collect_obj read1 (rev (s_calls s)) [] with
        | Some m =>
          match m with
          | [] => if first_is_null data then Some (JNull, p, Some EInvalidObject) else Some (JObj m, p, None)
          | _ => Some (JObj m, p, None)
          end
        | None => Some (JNull, p, Some EOther)      (* some member read failed *)
        end
      | _ => None
      end
    end
  with fast_arr (fuel : nat) (depth : Z) (data : list byte) : rres :=
    match fuel with
    | O => None
    | S f =>
      let read1 (c : call) : rres :=
          member (fast_obj f (depth + 1)) (fast_arr f (depth + 1)) depth (skipn (Z.to_nat (c_p c)) data) in
      let h : handler := fun calls => match calls with c :: _ => skip_answer data c | [] => answer None end in
      match handleArrayValues_m md mArr data h [] with
      | MDone p (Some e) _ => Some (JNull, p, Some e)
      | MDone p None s =>
        match collect_arr read1 (rev (s_calls s)) [] with
        | Some l =>
          match l with
          | [] => if first_is_null data then Some (JNull, p, Some EInvalidArray) else Some (JArr l, p, None)
          | _ => Some (JArr l, p, None)
          end
        | None => Some (JNull, p, Some EOther)
        end
      | _ => None
      end
    end.

  Definition ReadObject_fast (data : list byte) : rres := fast_obj (vr_fuel data) 1 data.
  Definition ReadArray_fast (data : list byte) : rres := fast_arr (vr_fuel data) 1 data.
  Definition ReadValue_fast (data : list byte) : rres :=
    let '(tp, p, e) := NextTokenType data in
    match e with
    | Some err => Some (JNull, p, Some err)
    | None =>
      let p := p - 1 in
      let d := skipn (Z.to_nat p) data in
      let lift (r : rres) : rres :=
          match r with Some (v, pp, e) => Some (v, p + pp, e) | None => None end in
      if tp =? ObjectStartType then lift (fast_obj (vr_fuel data) 1 d)
      else if tp =? ArrayStartType then lift (fast_arr (vr_fuel data) 1 d)
      else lift (readSimpleValue d tp)
    end.
End VR.

(** ** StdLibCompatibleSlice / StdLibCompatibleMap on trees *)
From Rjson Require Import Compat.

Fixpoint compat_tree (fuel : nat) (v : jv) : jv :=
  match fuel with
  | O => v
  | S f =>
    match v with
    | JStr s => JStr (StdLibCompatibleString s)
    | JArr l => JArr (map (compat_tree f) l)
    | JObj m => JObj (fold_left (fun acc kv => obj_set acc (StdLibCompatibleString (fst kv)) (compat_tree f (snd kv))) m [])
    | other => other
    end
  end.
