(** Base definitions shared by the whole development: bytes as [Coq.Init.Byte.byte],
    Go [int] wrap-around, bounds-checked slice access.  Definitions only (executable);
    lemmas live in [BaseFacts.v] so that the model still runs when a proof breaks. *)
From Coq Require Import List ZArith Bool.
From Coq Require Import Strings.Byte.
Import ListNotations.
Local Open Scope Z_scope.

Definition bz (b : byte) : Z := Z.of_N (Byte.to_N b).
Definition zb (z : Z) : byte :=
  match Byte.of_N (Z.to_N z) with Some b => b | None => x00 end.

(** all 256 bytes, for finite sweeps *)
Definition all_bytes : list byte :=
  map (fun n => zb (Z.of_nat n)) (seq 0 256).

(** Go's 64-bit [int]: wrap-around to two's complement. *)
Definition two63 : Z := 9223372036854775808.
Definition two64 : Z := 18446744073709551616.
Definition wrap64 (x : Z) : Z := ((x + two63) mod two64) - two63.
Definition maxint : Z := two63 - 1.
Definition minint : Z := - two63.

(** data[p] with Go's bounds check: [None] models the run-time panic *)
Definition get (data : list byte) (p : Z) : option byte :=
  if (p <? 0) then None else nth_error data (Z.to_nat p).

Definition len {A} (l : list A) : Z := Z.of_nat (length l).

(** data[a:b] with Go's bounds check against len (cap is not modelled: conservative) *)
Definition slice (data : list byte) (a b : Z) : option (list byte) :=
  if (0 <=? a) && (a <=? b) && (b <=? len data)
  then Some (firstn (Z.to_nat (b - a)) (skipn (Z.to_nat a) data))
  else None.

Definition zmem (x : Z) (l : list Z) : bool := existsb (Z.eqb x) l.

Fixpoint assocZ {A} (k : Z) (l : list (Z * A)) : option A :=
  match l with
  | [] => None
  | (k', v) :: r => if k =? k' then Some v else assocZ k r
  end.

(** list update at index (no-op when out of range; callers check the range first) *)
Fixpoint upd (l : list Z) (i : nat) (v : Z) : list Z :=
  match l, i with
  | [], _ => []
  | _ :: r, O => v :: r
  | x :: r, S j => x :: upd r j v
  end.

(** overwrite a prefix of [l] by [junk], keeping the length of [l] *)
Fixpoint overwrite (l junk : list Z) : list Z :=
  match l, junk with
  | [], _ => []
  | _, [] => l
  | _ :: r, j :: js => j :: overwrite r js
  end.

Fixpoint zrepeat (n : nat) : list Z := match n with O => [] | S k => 0 :: zrepeat k end.
