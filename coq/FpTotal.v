(** FpTotal.v -- totality of the float reader model: ParseJSONFloatPrefix_m and ReadFloat64_m
    never return [None] (Go: no index-out-of-range panic in the digit buffer or the tables, no
    fuel exhaustion) on ANY byte string, for tables satisfying [tables_ok]. *)
From Coq Require Import List ZArith Lia Bool QArith Qpower Lqa.
From Coq Require Import Strings.Byte.
From Rjson Require Import Base Helpers Round Fp FpSpec FpTables FpDecDefs FpDecShift FpDecTrunc FpDecInv.
From Rjson Require FpDecBits FpFull FpFull2.
Import ListNotations.
Local Open Scope Z_scope.

(** * rightShift never fails *)

Lemma rs_pad_total k : 1 <= k <= 60 -> forall fuel r n,
  1 <= n < 10 * 2 ^ k -> 2 ^ k <= n * 10 ^ Z.of_nat fuel -> rs_pad fuel k r n <> None.
Proof.
  intros Hk. destruct (K_bounds k Hk) as [K2 K64].
  induction fuel as [|f IH]; intros r n Hn Hf; cbn [rs_pad].
  - destruct (shr n k =? 0) eqn:Z0; cbn [negb]; [|discriminate].
    apply shr_zero_iff in Z0; [|lia|lia]. change (10 ^ Z.of_nat 0) with 1 in Hf. lia.
  - destruct (shr n k =? 0) eqn:Z0; cbn [negb]; [|discriminate].
    apply shr_zero_iff in Z0; [|lia|lia]. rewrite u64_small by lia.
    apply IH; [lia|]. rewrite Nat2Z.inj_succ, Z.pow_succ_r in Hf by lia. lia.
Qed.

Lemma rs_pick_total k : 1 <= k <= 60 -> forall l r n,
  digs_ok l -> 0 <= n < 10 * 2 ^ k -> rs_pick l k r n <> None.
Proof.
  intros Hk. destruct (K_bounds k Hk) as [K2 K64].
  induction l as [|c l IH]; intros r n Hl Hn; cbn [rs_pick].
  - destruct (shr n k =? 0) eqn:Z0; cbn [negb]; [|discriminate].
    destruct (Z.eqb_spec n 0) as [|N0]; [discriminate|].
    apply shr_zero_iff in Z0; [|lia|lia].
    destruct (rs_pad 64 k r n) as [[r' n']|] eqn:Hp; cbn [obind]; [discriminate|].
    exfalso. revert Hp. apply (rs_pad_total k Hk); [lia|].
    assert (2 ^ k <= 2 ^ 60) by (apply pow2_le60; lia).
    assert (2 ^ 60 <= 10 ^ Z.of_nat 64) by (apply Z.leb_le; vm_compute; reflexivity).
    assert (0 < 10 ^ Z.of_nat 64) by lia. nia.
  - destruct (shr n k =? 0) eqn:Z0; cbn [negb]; [|discriminate].
    apply shr_zero_iff in Z0; [|lia|lia].
    apply digs_ok_inv in Hl as [Hc Hl].
    destruct (rs_pick_step k n c Hk ltac:(lia) Hc) as [E B]. rewrite E.
    apply IH; assumption.
Qed.

(** the third loop stops because the remainder gains a factor 2 at every step *)
Lemma rs_extra_total k : 1 <= k <= 60 -> forall fuel n w out tr i,
  0 <= n < 10 * 2 ^ k -> 0 <= i <= k -> (2 ^ i | n) -> (k - i < Z.of_nat fuel) ->
  rs_extra fuel k n w out tr <> None.
Proof.
  intros Hk. destruct (K_bounds k Hk) as [K2 K64].
  assert (Zero : forall fuel w out tr, rs_extra fuel k 0 w out tr <> None).
  { intros [|f] w out tr; cbn [rs_extra]; discriminate. }
  induction fuel as [|f IH]; intros n w out tr i Hn Hi Hdiv Hf; [lia|].
  cbn [rs_extra]. destruct (Z.eqb_spec n 0) as [|N0]; [discriminate|].
  rewrite lowbits_mod by lia.
  pose proof (Z.mod_pos_bound n (2 ^ k) ltac:(lia)) as B.
  rewrite (u64_small (n mod 2 ^ k * 10)) by lia.
  assert (Next : rs_extra f k (n mod 2 ^ k * 10) (w + 1) (shr n k :: out) tr <> None /\
                 rs_extra f k (n mod 2 ^ k * 10) w out (tr || (0 <? shr n k)) <> None).
  { destruct (Z.eq_dec i k) as [->|Ni].
    - assert (n mod 2 ^ k = 0) by (apply Z.mod_divide; [lia|exact Hdiv]).
      rewrite H. split; apply Zero.
    - assert (Hd' : (2 ^ (i + 1) | n mod 2 ^ k * 10)).
      { rewrite Z.pow_add_r by lia. change (2 ^ 1) with 2.
        replace (n mod 2 ^ k * 10) with ((n mod 2 ^ k) * (2 * 5)) by ring.
        rewrite Z.mul_assoc. apply Z.divide_mul_l. apply Z.mul_divide_mono_r.
        destruct Hdiv as [q Hq].
        assert (E2 : 2 ^ k = 2 ^ (k - i) * 2 ^ i) by (rewrite <- Z.pow_add_r by lia; f_equal; lia).
        exists (q mod 2 ^ (k - i)). rewrite Hq, E2.
        rewrite Z.mul_mod_distr_r; [reflexivity| |]; apply Z.pow_nonzero; lia. }
      split; apply (IH _ _ _ _ (i + 1)); try assumption; lia. }
  destruct (w <? dec_cap); apply Next.
Qed.

Theorem rightShift_total a k :
  dec_wf a -> d_d a <> [] -> 1 <= k <= 60 -> exists a', rightShift_m a k = Some a'.
Proof.
  intros (Hdig & Hcap & Hlead) Hne Hk. destruct (K_bounds k Hk) as [K2 K64].
  unfold rightShift_m.
  destruct (rs_pick (d_d a) k 0 0) as [pk|] eqn:Hp.
  2:{ exfalso. revert Hp. apply (rs_pick_total k Hk); [exact Hdig|lia]. }
  cbn [obind]. destruct pk as [u|[[l r] n0]]; [eexists; reflexivity|].
  apply (rs_pick_spec k Hk (d_d a) [] 0 0 _ Hdig) in Hp; [|reflexivity|reflexivity|lia].
  destruct Hp as (pre & j & Hj & Eds & En0 & Er & Hjl & Hn0). simpl app in Eds.
  destruct (rs_main l k n0 []) as [n1 out1] eqn:Hm.
  assert (Hdl : digs_ok l). { assert (digs_ok (pre ++ l)) by (rewrite Eds; exact Hdig). apply digs_ok_app in H. tauto. }
  apply (rs_main_spec k Hk) in Hm; [|assumption|apply digs_ok_nil|lia].
  destruct Hm as (_ & Hn1 & _ & _).
  destruct (rs_extra 128 k n1 (len out1) out1 (d_trunc a)) as [[out2 tr2]|] eqn:He.
  - cbn [obind]. eexists; reflexivity.
  - exfalso. revert He. apply (rs_extra_total k Hk 128 n1 _ _ _ 0); try lia.
    change (2 ^ 0) with 1. apply Z.divide_1_l.
Qed.

(** * leftShift never fails *)

Lemma ls_extra_total : forall fuel n w out tr,
  0 <= n < 10 ^ Z.of_nat fuel -> ls_extra fuel n w out tr <> None.
Proof.
  induction fuel as [|f IH]; intros n w out tr Hn; cbn [ls_extra].
  - change (10 ^ Z.of_nat 0) with 1 in Hn. destruct (Z.ltb_spec 0 n); [lia|]. discriminate.
  - destruct (Z.ltb_spec 0 n); cbn [negb]; [|discriminate].
    rewrite Nat2Z.inj_succ, Z.pow_succ_r in Hn by lia.
    assert (0 <= n / 10 < 10 ^ Z.of_nat f).
    { split; [apply Z.div_pos; lia|apply Z.div_lt_upper_bound; lia]. }
    destruct (w - 1 <? dec_cap); apply IH; assumption.
Qed.

Theorem leftShift_total T a k :
  tables_ok T -> dec_wf a -> d_d a <> [] -> 1 <= k <= 60 -> exists a', leftShift_m T a k = Some a'.
Proof.
  intros HT (Hdig & Hcap & Hlead) Hne Hk.
  destruct (K_bounds k Hk) as [K2 K64].
  assert (Hnd : 1 <= len (d_d a)).
  { destruct (d_d a); [congruence|]. rewrite zlen_cons. pose proof (zlen_nonneg l). lia. }
  assert (HNlb : 10 ^ (len (d_d a) - 1) <= dval_z (d_d a)).
  { destruct (d_d a) as [|d t] eqn:Ed; [congruence|].
    rewrite zlen_cons. replace (len t + 1 - 1) with (len t) by lia.
    apply dval_lead_lb; assumption. }
  pose proof (cheat_count T k (d_d a) HT Hk Hdig Hnd HNlb) as CC.
  unfold leftShift_m.
  destruct (nth (Z.to_nat k) (t_leftcheats T) (0, 0, 0)) as [[delta0 cutoff] clen].
  set (delta := if prefixIsLessThan (d_d a) (digits_of (Z.to_nat clen) cutoff)
                then delta0 - 1 else delta0) in *.
  cbv zeta in CC. destruct CC as (Hdelta & HPlb & HPub).
  destruct (Z.ltb_spec delta 0) as [|_]; [lia|].
  unfold d_nd.
  set (nd := len (d_d a)) in *. set (W0 := nd + delta) in *.
  set (N := dval_z (d_d a)) in *.
  destruct (ls_main (rev (d_d a)) k 0 W0 [] (d_trunc a)) as [[[n1 w1] out1] tr1] eqn:Hm.
  assert (St0 : ls_struct W0 0 W0 []).
  { unfold ls_struct. change (len (@nil Z)) with 0. repeat split; try lia. apply digs_ok_nil. }
  apply (ls_main_spec_t k W0 (d_trunc a) Hk (rev (d_d a)) 0 _ _ _ _ 0) in Hm;
    [|apply digs_ok_rev; assumption|assumption|lia|change (10 ^ (0 - len (@nil Z))) with 1; lia
     |rewrite orb_false_r; reflexivity].
  destruct Hm as (St1 & Hn1 & Lo1 & HLo1 & Et1 & Hv1).
  rewrite zlen_rev, rev_involutive in *. rewrite Z.add_0_l in *. fold nd N in St1, Hv1, HLo1.
  assert (Hv1' : ls_val nd n1 out1 + Lo1 = N * 2 ^ k).
  { rewrite Hv1. unfold ls_val. change (dval_z []) with 0. change (10 ^ 0) with 1. ring. }
  destruct (ls_extra 64 n1 w1 out1 tr1) as [[[w2 out2] tr2]|] eqn:He.
  2:{ exfalso. revert He. apply ls_extra_total.
      assert (2 ^ k <= 2 ^ 60) by (apply pow2_le60; lia).
      assert (2 ^ 60 < 10 ^ Z.of_nat 64) by (apply Z.ltb_lt; vm_compute; reflexivity). lia. }
  cbn [obind].
  apply (ls_extra_spec_t (2 ^ k) W0 (d_trunc a) ltac:(lia) K64 64%nat nd _ _ _ _ Lo1) in He;
    [|assumption|assumption|assumption|assumption].
  destruct He as (j2 & Lo2 & Hj2 & St2 & HLo2 & Et2 & Hv2 & Hlb2 & Hz2).
  rewrite Hv1' in Hv2, Hlb2.
  pose proof (ls_struct_len _ _ _ _ St2) as Hlen2.
  destruct St2 as (_ & Ew2 & Ho2 & _ & Hl2).
  unfold ls_val in Hv2. rewrite Z.mul_0_l, Z.add_0_l in Hv2.
  set (L := len out2) in *. set (z := j2 - L) in *.
  pose proof (dval_bound out2 Ho2) as BO. fold L in BO.
  pose proof (pow10_pos z ltac:(unfold z; lia)) as Pz.
  pose proof (pow2_pos k ltac:(lia)) as PK.
  assert (Pnd1 : 0 < 10 ^ (nd - 1)) by (apply pow10_pos; lia).
  assert (Hlow : 10 ^ (j2 - 1) <= N * 2 ^ k).
  { destruct (Z.eq_dec n1 0) as [E0|N0].
    - rewrite (Hz2 E0). clear - HNlb PK Pnd1. nia.
    - apply Hlb2. lia. }
  assert (Hup : N * 2 ^ k < 10 ^ j2).
  { rewrite <- Hv2. replace j2 with (L + z) by (unfold z; lia).
    rewrite pow10_add by (unfold z; lia). clear - BO HLo2 Pz. nia. }
  assert (Ej2 : j2 = W0).
  { assert (j2 - 1 < W0) by (apply pow10_lt_inv; unfold W0 in *; lia).
    assert (W0 - 1 < j2) by (apply pow10_lt_inv; unfold W0 in *; lia). lia. }
  destruct (Z.ltb_spec w2 0) as [|_]; [lia|]. eexists; reflexivity.
Qed.

(** * Shift never fails (shift amounts up to 60 * 65 bits) *)

Lemma shift_left_loop_total T : tables_ok T -> forall fuel a k,
  dec_wf a -> d_d a <> [] -> 1 <= k <= 60 * (Z.of_nat fuel + 1) ->
  exists a', shift_left_loop T fuel a k = Some a'.
Proof.
  intros HT. induction fuel as [|f IH]; intros a k Hwf Hne Hk; cbn [shift_left_loop]; unfold maxShift.
  - destruct (Z.ltb_spec 60 k); [lia|]. apply leftShift_total; try assumption; lia.
  - destruct (Z.ltb_spec 60 k); [|apply leftShift_total; try assumption; lia].
    destruct (leftShift_total T a 60 HT Hwf Hne ltac:(lia)) as (b & Hb). rewrite Hb. cbn [obind].
    destruct (leftShift_trunc T a 60 b HT Hwf Hne ltac:(lia) Hb) as (Hwfb & _ & Hneb & _).
    apply IH; try assumption. lia.
Qed.

Lemma shift_right_loop_total : forall fuel a k,
  dec_wf a -> d_d a <> [] -> - (60 * (Z.of_nat fuel + 1)) <= k <= -1 ->
  exists a', shift_right_loop fuel a k = Some a'.
Proof.
  induction fuel as [|f IH]; intros a k Hwf Hne Hk; cbn [shift_right_loop].
  - destruct (Z.ltb_spec k (- maxShift)) as [H|H]; unfold maxShift in H; [lia|]. apply rightShift_total; try assumption; lia.
  - destruct (Z.ltb_spec k (- maxShift)) as [H|H]; unfold maxShift in *; [|apply rightShift_total; try assumption; lia].
    destruct (rightShift_total a 60 Hwf Hne ltac:(lia)) as (b & Hb). rewrite Hb. cbn [obind].
    destruct (rightShift_trunc a 60 b Hwf Hne ltac:(lia) Hb) as (Hwfb & _ & Hneb & _).
    apply IH; try assumption. lia.
Qed.

Theorem Shift_total T a k :
  tables_ok T -> dec_wf a -> -3900 <= k <= 3900 -> exists a', Shift_m T a k = Some a'.
Proof.
  intros HT Hwf Hk. unfold Shift_m, d_nd.
  destruct (Z.eqb_spec (len (d_d a)) 0) as [E|E]; [eexists; reflexivity|].
  assert (Hne : d_d a <> []) by (intros E0; rewrite E0 in E; apply E; reflexivity).
  destruct (Z.ltb_spec 0 k).
  - apply shift_left_loop_total; try assumption. lia.
  - destruct (Z.ltb_spec k 0); [|eexists; reflexivity].
    apply shift_right_loop_total; try assumption. lia.
Qed.

(** * decimal.set yields a well-formed decimal on any input *)

Lemma set_loop_wf : forall l rd nd dp sd sg tr rest rd' nd' dp' sd' sg' tr',
  FpDecBits.st_wf rd nd ->
  set_loop l rd nd dp sd sg tr = Some (rest, rd', nd', dp', sd', sg', tr') ->
  FpDecBits.st_wf rd' nd'.
Proof.
  induction l as [|c l IH]; intros rd nd dp sd sg tr rest rd' nd' dp' sd' sg' tr' Hwf H; cbn [set_loop] in H.
  - injection H as <- <- <- <- <- <- <-. exact Hwf.
  - destruct (bz c =? c_dot).
    { destruct sd; [discriminate|]. eapply IH; eassumption. }
    destruct (is_digit c) eqn:Hc.
    2:{ injection H as <- <- <- <- <- <- <-. exact Hwf. }
    pose proof (FpDecBits.is_digit_range c Hc) as Rc.
    destruct Hwf as (Hnd & Hcap & Hok & Hlead).
    destruct ((bz c =? c_0) && (nd =? 0)) eqn:Ez.
    { eapply IH; [|exact H]. repeat split; assumption. }
    destruct (Z.ltb_spec nd dec_cap) as [Hlt|Hge].
    2:{ eapply IH; [|exact H]. repeat split; assumption. }
    eapply IH; [|exact H]. unfold c_0 in *.
    split; [rewrite zlen_cons; lia|]. split; [lia|].
    split; [apply digs_ok_cons; [lia|exact Hok]|].
    cbn [rev]. destruct (rev rd) as [|x t] eqn:Er; [|exact Hlead].
    apply (f_equal (@rev Z)) in Er. rewrite rev_involutive in Er. subst rd. cbn [rev app].
    change (len (@nil Z)) with 0 in Hnd. subst nd.
    apply andb_false_iff in Ez as [Ez|Ez]; [apply Z.eqb_neq in Ez; lia|discriminate].
Qed.

Lemma set_tail_mk mk dp rest a : FpDecBits.set_tail mk dp rest = Some a -> exists dp', a = mk dp'.
Proof.
  unfold FpDecBits.set_tail. intros H. destruct rest as [|c r1]; [injection H as <-; eauto|].
  destruct (is_e c); [|discriminate]. destruct r1 as [|c1 r2]; [discriminate|].
  destruct (if bz c1 =? c_plus then (1, r2) else if bz c1 =? c_minus then (-1, r2) else (1, c1 :: r2)) as [esign r3].
  destruct r3 as [|c2 r4]; [discriminate|]. destruct (negb (is_digit c2)); [discriminate|].
  destruct (exp_loop (c2 :: r4) 0 0) as [[p e] rest']. destruct rest'; [|discriminate].
  injection H as <-. eauto.
Qed.

Theorem set_m_wf data a : set_m data = Some a -> dec_wf a.
Proof.
  rewrite FpDecBits.set_m_unfold. destruct data as [|c0 r0]; [discriminate|]. cbv zeta.
  destruct (set_loop (if bz c0 =? c_minus then r0 else c0 :: r0) [] 0 0 false false false)
    as [[[[[[[rest rd] nd] dp] sd] sg] tr]|] eqn:E; cbn [obind]; [|discriminate].
  assert (W : FpDecBits.st_wf rd nd).
  { eapply set_loop_wf; [|exact E]. split; [reflexivity|]. split; [unfold dec_cap; lia|]. split; [constructor|exact I]. }
  unfold FpDecBits.set_k. destruct (negb sg); [discriminate|]. intros H.
  apply set_tail_mk in H as (dp' & ->). destruct W as (Hnd & Hcap & Hok & Hlead).
  unfold dec_wf. cbn [d_d]. split; [apply digs_ok_rev; exact Hok|]. split; [rewrite zlen_rev; lia|exact Hlead].
Qed.

(** * The loops of floatBits have enough fuel *)

Lemma powtab_n_ge3 T i : tables_ok T -> 1 <= i -> 3 <= powtab_n T i.
Proof.
  intros HT Hi. unfold powtab_n. rewrite (tf_ptlen T (tables_ok_facts T HT)).
  destruct (Z.leb_spec 9 i) as [H9|H9]; [lia|].
  pose proof (powtab_spec T i HT ltac:(lia)) as H. cbv zeta in H.
  set (p := nth (Z.to_nat i) (t_powtab T) 0) in *.
  destruct (Z.eqb_spec i 0) as [E0|N0]; [lia|].
  destruct (Z_le_gt_dec 3 p) as [|G]; [assumption|exfalso].
  assert (10 ^ 1 <= 10 ^ i) by (apply Z.pow_le_mono_r; lia). change (10 ^ 1) with 10 in H0.
  destruct (Z_le_gt_dec 0 (p + 1)) as [G0|G0].
  - assert (2 ^ (p + 1) <= 2 ^ 3) by (apply Z.pow_le_mono_r; lia). change (2 ^ 3) with 8 in H1. lia.
  - rewrite (Z.pow_neg_r 2 (p + 1)) in H by lia. lia.
Qed.

Lemma Q_ilog (x : Q) : (0 < x)%Q -> exists lam, (p2 lam <= x /\ x < p2 (lam + 1))%Q.
Proof.
  intros Hx. destruct x as [n d]. assert (Hn : 0 < n) by (unfold Qlt in Hx; cbn in Hx; lia).
  exists (ilog2 n (Z.pos d)). apply (FpFull.ilog2_Q n (Z.pos d)); [lia|apply ilog2_spec; lia|].
  unfold Qeq. cbn. lia.
Qed.

Lemma p10_310 : (p10 310 <= p2 1030)%Q.
Proof. rewrite p10_Z, p2_Z by lia. apply izle_fw. apply Z.leb_le. vm_compute. reflexivity. Qed.

Section Tot.
Variable T : fp_tables.
Hypothesis HT : tables_ok T.
Variable x0 : Q.
Variable lam : Z.
Hypothesis Hlam : (p2 lam <= x0 /\ x0 < p2 (lam + 1))%Q.
Hypothesis Hlo : -1139 <= lam.

Let A := 1 - lam.
Lemma HA1 : A <= 490 - lam /\ 10 * A <= 7987 - 3 * lam.
Proof. unfold A. lia. Qed.

Lemma xat_lt e : (xat x0 e < p2 (lam + 1 - e))%Q.
Proof.
  unfold xat. replace (lam + 1 - e) with ((lam + 1) + - e) by lia. rewrite p2_add.
  apply Qmul_lt_r; [apply p2_pos|apply Hlam].
Qed.

Lemma xat_ge e : (p2 (lam - e) <= xat x0 e)%Q.
Proof.
  unfold xat. replace (lam - e) with (lam + - e) by lia. rewrite p2_add.
  apply Qmul_le_r; [apply Qlt_le_weak, p2_pos|apply Hlam].
Qed.

(** the stored value is more than half the exact one *)
Lemma St_two a e : St x0 A a e -> (xat x0 e < 2 * dq a)%Q.
Proof.
  intros (_ & _ & (_ & _ & _ & I4) & _). unfold A in *.
  set (G := 1 - lam + e) in *. pose proof (p2_pos G) as PG.
  assert (E : (xat x0 e * p2 G == x0 * p2 (1 - lam))%Q).
  { unfold xat. rewrite <- Qmult_assoc, <- p2_add. replace (- e + G) with (1 - lam) by (unfold G; lia). reflexivity. }
  assert (H2 : (inject_Z 2 <= xat x0 e * p2 G)%Q).
  { rewrite E. change (inject_Z 2) with (p2 1). replace 1 with (lam + (1 - lam)) at 1 by lia. rewrite p2_add.
    apply Qmul_le_r; [apply Qlt_le_weak, p2_pos|apply Hlam]. }
  apply I4 in H2.
  assert (H4 : (xat x0 e * p2 G < inject_Z 4)%Q).
  { rewrite E. change (inject_Z 4) with (p2 2). replace 2 with ((lam + 1) + (1 - lam)) by lia. rewrite p2_add.
    apply Qmul_lt_r; [apply p2_pos|apply Hlam]. }
  apply (Qmul_lt_r_inv _ _ (p2 G)); [exact PG|].
  setoid_replace (2 * dq a * p2 G)%Q with (2 * (dq a * p2 G))%Q by ring.
  change (inject_Z 2) with 2%Q in H2. change (inject_Z 4) with 4%Q in H4.
  set (u := (dq a * p2 G)%Q) in *. set (v := (xat x0 e * p2 G)%Q) in *. clearbody u v. lra.
Qed.

Lemma loop_pos a e : St x0 A a e -> (2 * dq a < 1)%Q -> lam < e.
Proof.
  intros HS Hh. pose proof (St_two a e HS). pose proof (xat_ge e).
  assert (p2 (lam - e) < p2 0)%Q by (change (p2 0) with 1%Q; lra). apply p2_lt_inv in H1. lia.
Qed.

Lemma dp0_close a e : St x0 A a e -> d_dp a = 0 -> e - lam <= 4.
Proof.
  intros HS Hdp. pose proof HS as (Hwf & Hne & (I1 & _) & _).
  destruct (dq_bounds a Hwf Hne) as [Hlb _]. rewrite Hdp in Hlb.
  pose proof (xat_lt e). assert (p2 (-4) < p10 (0 - 1))%Q by reflexivity.
  assert (p2 (-4) < p2 (lam + 1 - e))%Q by lra. apply p2_lt_inv in H1. lia.
Qed.

Lemma dp_pos_e a e : St x0 A a e -> 1 <= d_dp a -> e <= lam.
Proof.
  intros HS Hdp. pose proof HS as (Hwf & Hne & (I1 & _) & _).
  destruct (dq_bounds a Hwf Hne) as [Hlb _].
  assert (p10 0 <= p10 (d_dp a - 1))%Q by (apply p10_le; lia). change (p10 0) with (p2 0) in H.
  pose proof (xat_lt e). assert (p2 0 < p2 (lam + 1 - e))%Q by lra. apply p2_lt_inv in H1. lia.
Qed.

Lemma fb_down_total : forall fuel a e,
  St x0 A a e -> lam - e < 3 * Z.of_nat fuel -> exists r, fb_down T fuel a e = Some r.
Proof.
  induction fuel as [|f IH]; intros a e HS Hf; cbn [fb_down];
    destruct (Z.ltb_spec 0 (d_dp a)) as [Hdp|Hdp]; try (eexists; reflexivity).
  - pose proof (dp_pos_e a e HS ltac:(lia)). lia.
  - pose proof HS as (Hwf & Hne & _).
    destruct (FpDecBits.powtab_n_spec T (d_dp a) HT ltac:(lia)) as (Hn0 & _ & Hn2). specialize (Hn2 ltac:(lia)).
    pose proof (FpFull.powtab_n_le T (d_dp a) HT ltac:(lia)) as Hn27.
    pose proof (powtab_n_ge3 T (d_dp a) HT ltac:(lia)) as Hn3.
    set (n := powtab_n T (d_dp a)) in *.
    destruct (Shift_total T a (- n) HT Hwf ltac:(lia)) as (a1 & E). rewrite E. cbn [obind].
    assert (Hg : (p10 (-1) <= dq a * p2 (- n))%Q).
    { destruct (dq_bounds a Hwf Hne) as [Hlb _].
      assert (Hp : (p10 (- d_dp a) <= p2 (- n))%Q).
      { apply (Qmul_le_r_inv _ _ (p10 (d_dp a) * p2 n)); [apply Qmult_lt_0_compat; [apply p10_pos|apply p2_pos]|].
        setoid_replace (p10 (- d_dp a) * (p10 (d_dp a) * p2 n))%Q with ((p10 (d_dp a) * p10 (- d_dp a)) * p2 n)%Q by ring.
        setoid_replace (p2 (- n) * (p10 (d_dp a) * p2 n))%Q with ((p2 n * p2 (- n)) * p10 (d_dp a))%Q by ring.
        rewrite p10_inv, p2_inv, !Qmult_1_l, p2_Z, p10_Z by lia. apply izle_fw. exact Hn2. }
      replace (-1) with ((d_dp a - 1) + - d_dp a) by lia. rewrite p10_add.
      eapply Qle_trans; [apply Qmul_le_r; [apply Qlt_le_weak, p10_pos|exact Hlb]|].
      rewrite !(Qmult_comm (dq a)). apply Qmul_le_r; [apply Qlt_le_weak, dq_pos; assumption|exact Hp]. }
    destruct (Shift_inv T HT x0 lam A Hlam HA1 a (- n) a1 e HS ltac:(lia) E ltac:(lia)
                ltac:(intros _; right; split; [lia|exact Hg])) as (HS1 & _).
    replace (e - - n) with (e + n) in HS1 by lia.
    apply IH; [exact HS1|lia].
Qed.

Lemma fb_up_total : forall fuel a e,
  St x0 A a e -> d_dp a <= 0 ->
  (d_dp a = 0 -> e - lam <= Z.of_nat fuel) -> (d_dp a < 0 -> e - lam + 12 <= 3 * Z.of_nat fuel) ->
  exists r, fb_up T fuel a e = Some r.
Proof.
  induction fuel as [|f IH]; intros a e HS Hdp R0 R1; cbn [fb_up];
    destruct ((d_dp a <? 0) || (d_dp a =? 0) && (dnth a 0 <? 5)) eqn:C; try (eexists; reflexivity).
  - (* no fuel but the loop wants to go on: impossible *)
    exfalso. pose proof HS as (Hwf & Hne & _).
    assert (Hh : (2 * dq a < 1)%Q).
    { pose proof (FpDecBits.dec_den_pos a) as HD. pose proof (dq_frac a) as Es.
      assert (2 * fst (dec_frac a) < snd (dec_frac a)).
      { apply orb_true_iff in C as [C|C].
        - apply Z.ltb_lt in C. pose proof (FpDecBits.dec_upper a 1 Hwf ltac:(lia) ltac:(lia)) as HU.
          change (10 ^ 1) with 10 in HU. pose proof (FpDecBits.dec_num_pos a Hwf Hne). lia.
        - apply andb_true_iff in C as [C1 C2]. apply Z.eqb_eq in C1. apply Z.ltb_lt in C2.
          destruct (FpDecBits.dec_half a Hwf Hne C1) as [HH _]. exact (HH C2). }
      apply (FpFull.cross_lt_inv (2 * dq a) 1 (2 * fst (dec_frac a)) (snd (dec_frac a)) 1 1); try lia.
      - rewrite inject_Z_mult, <- Es. change (inject_Z 2) with 2%Q. ring.
      - reflexivity. }
    pose proof (loop_pos a e HS Hh).
    destruct (Z.eq_dec (d_dp a) 0) as [E0|N0]; [specialize (R0 E0)|specialize (R1 ltac:(lia))]; lia.
  - pose proof HS as (Hwf & Hne & _).
    destruct (FpDecBits.powtab_n_spec T (- d_dp a) HT ltac:(lia)) as (Hn0 & Hn1 & Hn2).
    pose proof (FpFull.powtab_n_le T (- d_dp a) HT ltac:(lia)) as Hn27.
    set (n := powtab_n T (- d_dp a)) in *.
    assert (HK : fst (dec_frac a) * 2 ^ n < snd (dec_frac a) /\ 2 * fst (dec_frac a) < snd (dec_frac a)).
    { pose proof (FpDecBits.dec_den_pos a) as HD. pose proof (FpDecBits.dec_num_pos a Hwf Hne) as HN.
      apply orb_true_iff in C as [C|C].
      - apply Z.ltb_lt in C. pose proof (FpDecBits.dec_upper a (- d_dp a) Hwf ltac:(lia) ltac:(lia)) as HU.
        specialize (Hn2 ltac:(lia)).
        pose proof (FpDecBits.dec_upper a 1 Hwf ltac:(lia) ltac:(lia)) as HU1. change (10 ^ 1) with 10 in HU1.
        split; [nia|lia].
      - apply andb_true_iff in C as [C1 C2]. apply Z.eqb_eq in C1. apply Z.ltb_lt in C2.
        destruct (FpDecBits.dec_half a Hwf Hne C1) as [HH _]. specialize (HH C2).
        rewrite Hn1 by lia. change (2 ^ 1) with 2. lia. }
    destruct HK as [HK HK2].
    pose proof (FpFull.frac_lt_one a n ltac:(lia) HK) as Hlt1.
    assert (Hh : (2 * dq a < 1)%Q).
    { pose proof (FpDecBits.dec_den_pos a) as HD. pose proof (dq_frac a) as Es.
      apply (FpFull.cross_lt_inv (2 * dq a) 1 (2 * fst (dec_frac a)) (snd (dec_frac a)) 1 1); try lia.
      - rewrite inject_Z_mult, <- Es. change (inject_Z 2) with 2%Q. ring.
      - reflexivity. }
    pose proof (loop_pos a e HS Hh) as Hpos.
    assert (Hg : (dq a * p2 n < p10 310)%Q).
    { assert (p10 0 <= p10 310)%Q by (apply p10_le; lia). change (p10 0) with 1%Q in H. lra. }
    destruct (Shift_total T a n HT Hwf ltac:(lia)) as (a1 & E). rewrite E. cbn [obind].
    destruct (Shift_inv T HT x0 lam A Hlam HA1 a n a1 e HS ltac:(lia) E ltac:(intros _; exact Hg) ltac:(lia))
      as (HS1 & _ & _ & Hle1).
    pose proof HS1 as (Hwf1 & Hne1 & _).
    assert (Hdp1 : d_dp a1 <= 0).
    { apply (FpFull.dq_lt_dp a1 0 Hwf1 Hne1). change (p10 0) with 1%Q. lra. }
    apply IH; [exact HS1|exact Hdp1| |].
    + intros E1. pose proof (dp0_close a1 (e - n) HS1 E1).
      destruct (Z.eq_dec (d_dp a) 0) as [E0|N0].
      * specialize (R0 E0). rewrite (Hn1 ltac:(lia)) in *. lia.
      * specialize (R1 ltac:(lia)). lia.
    + intros L1.
      destruct (Z.eq_dec (d_dp a) 0) as [E0|N0].
      * (* from dp = 0 the point cannot move left *)
        exfalso. pose proof (St_two a1 (e - n) HS1) as T1.
        pose proof HS as (_ & _ & (I1 & _) & _).
        destruct (dq_bounds a Hwf Hne) as [Hlb _]. rewrite E0 in Hlb.
        destruct (dq_bounds a1 Hwf1 Hne1) as [_ Hub1].
        assert (EX : (xat x0 (e - n) == xat x0 e * p2 n)%Q) by (symmetry; apply xat_shift).
        rewrite (Hn1 ltac:(lia)) in *. change (p2 1) with 2%Q in EX.
        assert (p10 (d_dp a1) <= p10 (0 - 1))%Q by (apply p10_le; lia).
        lra.
      * pose proof (powtab_n_ge3 T (- d_dp a) HT ltac:(lia)). fold n in H.
        specialize (R1 ltac:(lia)). lia.
Qed.

End Tot.

(** * floatBits never fails on a well-formed decimal *)

(** an "exact value" compatible with the trunc flag of an arbitrary well-formed decimal: the
    decimal itself when the flag is clear, half a unit of the 800th place above it otherwise *)
Lemma exists_x0 a : dec_wf a -> d_d a <> [] -> d_dp a <= dec_cap ->
  exists x0 : Q, (dq a <= x0 /\ x0 < p10 (d_dp a))%Q /\ forall G, G <= dec_cap - d_dp a -> Inv a x0 G.
Proof.
  intros Hwf Hne Hdp. destruct (dq_bounds a Hwf Hne) as [Hlb Hub].
  destruct (d_trunc a) eqn:Et.
  2:{ exists (dq a). split; [split; [apply Qle_refl|exact Hub]|]. intros G _. apply Inv_exact; [reflexivity|exact Et]. }
  destruct Hwf as (Hok & Hcap & Hlead).
  pose proof (dval_bound _ Hok) as HB. pose proof (zlen_nonneg (d_d a)) as Hl0.
  set (nd := len (d_d a)) in *. set (N := dval_z (d_d a)) in *.
  set (O := N * 10 ^ (dec_cap - nd)).
  set (x0 := ((inject_Z O * p10 1 + inject_Z 5) * p10 (d_dp a - 801))%Q).
  assert (Es : (dq a == inject_Z O * p10 (1 + (d_dp a - 801)))%Q).
  { unfold dq, dexp, O. fold nd N. rewrite inject_Z_mult, <- p10_Z by (unfold dec_cap in *; lia).
    rewrite <- Qmult_assoc, <- p10_add. replace (dec_cap - nd + (1 + (d_dp a - 801))) with (d_dp a - nd) by (unfold dec_cap; lia).
    reflexivity. }
  assert (P1 : (0 < p10 (d_dp a - 801))%Q) by apply p10_pos.
  exists x0. split; [split|].
  - rewrite Es. unfold x0. rewrite p10_add. change (inject_Z 5) with 5%Q.
    setoid_replace ((inject_Z O * p10 1 + 5) * p10 (d_dp a - 801))%Q
      with (inject_Z O * (p10 1 * p10 (d_dp a - 801)) + 5 * p10 (d_dp a - 801))%Q by ring.
    set (u := p10 (d_dp a - 801)) in *. set (w := (inject_Z O * (p10 1 * u))%Q). clearbody u w. lra.
  - unfold x0. replace (d_dp a) with (801 + (d_dp a - 801)) at 2 by lia. rewrite p10_add.
    apply Qmul_lt_r; [exact P1|]. rewrite (p10_Z 1), (p10_Z 801) by lia.
    rewrite <- inject_Z_mult, <- inject_Z_plus. apply izlt_fw.
    assert (O < 10 ^ 800).
    { unfold O. replace 800 with (nd + (dec_cap - nd)) by (unfold dec_cap; lia).
      rewrite Z.pow_add_r by (unfold dec_cap in *; lia).
      apply Z.mul_lt_mono_pos_r; [apply Z.pow_pos_nonneg; unfold dec_cap in *; lia|lia]. }
    change (10 ^ 801) with (10 ^ 800 * 10). change (10 ^ 1) with 10. lia.
  - intros G HG. apply (FpFull2.Inv_floor a x0 O 1 5 (d_dp a - 801) G); try assumption; try lia.
    + reflexivity.
    + intros _. unfold dec_cap. lia.
Qed.

Lemma fb_final_some T neg a e : FpDecBits.fb_final T neg a e <> None.
Proof.
  unfold FpDecBits.fb_final, FpDecBits.fb_ovf, FpDecBits.fb_out.
  destruct (RoundedInteger_m a =? 2 * 2 ^ t_mantbits T); [destruct (_ <=? _)|]; discriminate.
Qed.

Theorem floatBits_total T a : tables_ok T -> dec_wf a -> floatBits_m T a <> None.
Proof.
  intros HT Hwf. rewrite FpDecBits.floatBits_tr_fst.
  assert (G : FpDecBits.floatBits_tr T a <> None); [|destruct (FpDecBits.floatBits_tr T a); [discriminate|congruence]].
  destruct (tables_ok_facts T HT) as [_ _ _ _ _ _ _ _ _ Hmb Heb Hbias].
  unfold FpDecBits.floatBits_tr, d_nd.
  destruct (Z.eqb_spec (len (d_d a)) 0) as [Hz|Hnz]; [discriminate|].
  assert (Hne : d_d a <> []) by (intros E0; rewrite E0 in Hnz; apply Hnz; reflexivity).
  destruct (Z.ltb_spec 310 (d_dp a)) as [Hbig|Hbig]; [discriminate|].
  destruct (Z.ltb_spec (d_dp a) (-330)) as [Hsm|Hsm]; [discriminate|].
  destruct (exists_x0 a Hwf Hne ltac:(unfold dec_cap; lia)) as (x0 & [Hsx Hxub] & Hinit).
  destruct (dq_bounds a Hwf Hne) as [Hlb Hub].
  assert (Hx0pos : (0 < x0)%Q) by (pose proof (dq_pos a Hwf Hne); lra).
  destruct (Q_ilog x0 Hx0pos) as (lam & Hlam).
  assert (Hlamlb : -1101 <= lam).
  { assert (p2 (-1100) < p2 (lam + 1))%Q.
    { eapply Qle_lt_trans; [apply FpFull.p2_1100|]. eapply Qle_lt_trans; [|apply Hlam].
      eapply Qle_trans; [|exact Hsx]. eapply Qle_trans; [|exact Hlb]. apply p10_le. lia. }
    apply p2_lt_inv in H. lia. }
  assert (Hlamub : lam < 1030).
  { assert (p2 lam < p2 1030)%Q.
    { eapply Qle_lt_trans; [apply Hlam|]. eapply Qlt_le_trans; [exact Hxub|].
      eapply Qle_trans; [|apply p10_310]. apply p10_le. lia. }
    apply p2_lt_inv in H. exact H. }
  pose proof (HA1 lam ltac:(lia)) as HA.
  assert (Hx0 : (dq a <= xat x0 0)%Q).
  { unfold xat. change (p2 (- 0)) with 1%Q. rewrite Qmult_1_r. exact Hsx. }
  assert (Start : St x0 (1 - lam) a 0).
  { destruct (stage_bound x0 lam (1 - lam) Hlam HA a 0 Hwf Hne Hx0 Hbig ltac:(left; lia)) as [B1 B2].
    split; [exact Hwf|]. split; [exact Hne|]. split; [|split; [exact Hbig|left; lia]].
    apply (Inv_comp a x0).
    - unfold xat. change (p2 (- 0)) with 1%Q. rewrite Qmult_1_r. reflexivity.
    - apply Hinit. lia. }
  destruct (fb_down_total T HT x0 lam Hlam ltac:(lia) 400%nat a 0 Start ltac:(lia)) as ([a1 e1] & E1).
  rewrite E1. cbn [obind].
  destruct (FpFull.fb_down_St T HT x0 lam (1 - lam) Hlam HA _ _ _ _ _ E1 Start) as (S1 & D1 & _).
  assert (R1 : d_dp a1 < 0 -> e1 <= 0).
  { intros L. destruct S1 as (_ & _ & _ & _ & [P|P]); lia. }
  destruct (fb_up_total T HT x0 lam Hlam ltac:(lia) 400%nat a1 e1 S1 D1) as ([a2 e2] & E2).
  { intros E0. pose proof (dp0_close x0 lam Hlam a1 e1 S1 E0). lia. }
  { intros L. specialize (R1 L). lia. }
  rewrite E2. cbn [obind].
  destruct (FpFull.fb_up_St T HT x0 lam (1 - lam) Hlam HA _ _ _ _ _ E2 S1 D1) as (S2 & D2 & F2 & _).
  pose proof (FpFull.stage2_ilog x0 lam a2 e2 Hlam S2 D2 F2) as Ee2.
  pose proof S2 as (Hwf2 & Hne2 & _).
  unfold FpDecBits.fb_tail. rewrite Hmb, Heb, Hbias.
  replace (e2 - 1) with lam by lia.
  change (-1023 + 1) with (-1022). change (2 ^ 11 - 1) with 2047. change (1 + 52) with 53.
  destruct (Z.ltb_spec lam (-1022)) as [Hsub|Hnorm].
  - destruct (Shift_total T a2 (- (-1022 - lam)) HT Hwf2 ltac:(lia)) as (a3 & E3). rewrite E3. cbn [obind].
    destruct (Z.leb_spec 2047 (lam + (-1022 - lam) - -1023)) as [|_]; [unfold FpDecBits.fb_ovf; discriminate|].
    destruct (Shift_inv T HT x0 lam (1 - lam) Hlam HA a2 (- (-1022 - lam)) a3 e2 S2 ltac:(lia) E3 ltac:(lia)
                ltac:(intros _; left; lia)) as ((Hwf3 & _) & _).
    destruct (Shift_total T a3 53 HT Hwf3 ltac:(lia)) as (a4 & E4). rewrite E4. cbn [obind].
    apply fb_final_some.
  - cbn [obind].
    destruct (Z.leb_spec 2047 (lam - -1023)) as [|_]; [unfold FpDecBits.fb_ovf; discriminate|].
    destruct (Shift_total T a2 53 HT Hwf2 ltac:(lia)) as (a4 & E4). rewrite E4. cbn [obind].
    apply fb_final_some.
Qed.

(** * The float reader is total *)

Theorem parse_total T data : tables_ok T -> ParseJSONFloatPrefix_m T data <> None.
Proof.
  intros HT. unfold ParseJSONFloatPrefix_m. cbv zeta.
  destruct (negb (rf_ok (readFloat_m data))); [discriminate|].
  destruct ((0 <? rf_p (readFloat_m data)) && _); [discriminate|].
  destruct (if rf_trunc (readFloat_m data) then None else _); [discriminate|].
  match goal with |- match ?el with _ => _ end <> None => destruct el; [discriminate|] end.
  destruct (set_m (firstn (Z.to_nat (rf_p (readFloat_m data))) data)) as [d|] eqn:Es; [|discriminate].
  pose proof (floatBits_total T d HT (set_m_wf _ _ Es)) as Hf.
  destruct (floatBits_m T d) as [[b ovf]|]; [|congruence]. cbn [obind]. destruct ovf; discriminate.
Qed.

Theorem ReadFloat64_total T data : tables_ok T -> ReadFloat64_m T data <> None.
Proof.
  intros HT. unfold ReadFloat64_m. cbv zeta.
  destruct (_ =? _); [discriminate|].
  pose proof (parse_total T (skipn (Z.to_nat (Z.of_nat (count_while is_ws data))) data) HT) as Hp.
  destruct (ParseJSONFloatPrefix_m T _) as [[[v pp] err]|]; [|congruence]. cbn [obind]. discriminate.
Qed.

(** * The returned offset lies inside the input *)

Lemma rf_loop_p : forall l p s s' p' rest,
  rf_loop l p s = (s', p', rest) -> p' + len rest = p + len l /\ p <= p'.
Proof.
  induction l as [|c l IH]; intros p s s' p' rest H; cbn [rf_loop] in H.
  - injection H as <- <- <-. split; lia.
  - rewrite zlen_cons. pose proof (zlen_nonneg l).
    destruct (digits_tab c).
    + destruct (maxMantDigits <=? s_ndMant s); apply IH in H; lia.
    + destruct (bz c =? c_dot).
      * destruct (s_sawdot s); [injection H as <- <- <-; rewrite zlen_cons; lia|]. apply IH in H. lia.
      * injection H as <- <- <-. rewrite zlen_cons. lia.
Qed.

Lemma exp_loop_p : forall l p e p' e' rest,
  exp_loop l p e = (p', e', rest) -> p' + len rest = p + len l /\ p <= p'.
Proof.
  induction l as [|c l IH]; intros p e p' e' rest H; cbn [exp_loop] in H.
  - injection H as <- <- <-. split; lia.
  - rewrite zlen_cons. pose proof (zlen_nonneg l).
    destruct (is_digit c).
    + apply IH in H. lia.
    + injection H as <- <- <-. rewrite zlen_cons. lia.
Qed.

Lemma rf_finish_p data neg sd s p rest : 0 <= p -> p + len rest = len data ->
  0 <= rf_p (rf_finish data neg sd s p rest) <= len data.
Proof.
  intros Hp Hl. pose proof (zlen_nonneg rest) as Hr. unfold rf_finish. cbv zeta.
  destruct (negb sd); cbn [rf_p]; [lia|].
  destruct rest as [|c r1]; cbn [rf_p]; [lia|]. rewrite zlen_cons in *. pose proof (zlen_nonneg r1).
  destruct (is_e c); cbn [rf_p]; [|lia].
  destruct (match get data (p - 1) with Some b => bz b =? c_dot | None => false end); cbn [rf_p]; [lia|].
  destruct r1 as [|c1 r2]; cbn [rf_p]; [change (len (@nil byte)) with 0 in *; lia|].
  rewrite zlen_cons in *. pose proof (zlen_nonneg r2).
  destruct (bz c1 =? c_plus).
  - destruct r2 as [|c2 r4]; cbn [rf_p]; [change (len (@nil byte)) with 0 in *; lia|].
    destruct (negb (is_digit c2)); cbn [rf_p]; [lia|].
    destruct (exp_loop (c2 :: r4) (p + 1 + 1) 0) as [[p0 e] rest'] eqn:E. cbn [rf_p].
    apply exp_loop_p in E. pose proof (zlen_nonneg rest'). lia.
  - destruct (bz c1 =? c_minus).
    + destruct r2 as [|c2 r4]; cbn [rf_p]; [change (len (@nil byte)) with 0 in *; lia|].
      destruct (negb (is_digit c2)); cbn [rf_p]; [lia|].
      destruct (exp_loop (c2 :: r4) (p + 1 + 1) 0) as [[p0 e] rest'] eqn:E. cbn [rf_p].
      apply exp_loop_p in E. pose proof (zlen_nonneg rest'). lia.
    + destruct (negb (is_digit c1)); cbn [rf_p]; [lia|].
      destruct (exp_loop (c1 :: r2) (p + 1) 0) as [[p0 e] rest'] eqn:E. cbn [rf_p].
      apply exp_loop_p in E. rewrite zlen_cons in E. pose proof (zlen_nonneg rest'). lia.
Qed.

(** the body of readFloat after the sign *)
Definition rf_body (data : list byte) (neg : bool) (p : Z) (l1 : list byte) : rf_res :=
  match l1 with
  | [] => {| rf_mant := 0; rf_exp := 0; rf_neg := false; rf_trunc := false; rf_p := p; rf_ok := false |}
  | c :: l2 =>
    let st0 := {| s_mant := 0; s_nd := 0; s_ndMant := 0; s_dp := 0; s_sawdot := false; s_trunc := false |} in
    if bz c =? c_dot then
      {| rf_mant := 0; rf_exp := 0; rf_neg := neg; rf_trunc := false; rf_p := p; rf_ok := false |}
    else if is_digit c then
      let st1 := {| s_mant := u64 (bz c - c_0); s_nd := 1; s_ndMant := 1; s_dp := 0;
                    s_sawdot := false; s_trunc := false |} in
      let p := p + 1 in
      match l2 with
      | [] => rf_finish data neg true st1 p []
      | c' :: l3 =>
        if bz c' =? c_dot then
          let st2 := {| s_mant := s_mant st1; s_nd := 1; s_ndMant := 1; s_dp := 1;
                        s_sawdot := true; s_trunc := false |} in
          let '(s, p', rest) := rf_loop l3 (p + 1) st2 in
          rf_finish data neg true s p' rest
        else if is_digit c' then
          if s_mant st1 =? 0 then rf_finish data neg true st1 p l2
          else
            let st2 := {| s_mant := u64 (u64 (s_mant st1 * 10) + (bz c' - c_0)); s_nd := 2; s_ndMant := 2;
                          s_dp := 0; s_sawdot := false; s_trunc := false |} in
            let '(s, p', rest) := rf_loop l3 (p + 1) st2 in
            rf_finish data neg true s p' rest
        else rf_finish data neg true st1 p l2
      end
    else rf_finish data neg false st0 p l1
  end.

Lemma readFloat_unfold data :
  readFloat_m data = match data with
                     | [] => {| rf_mant := 0; rf_exp := 0; rf_neg := false; rf_trunc := false; rf_p := 0; rf_ok := false |}
                     | c0 :: r0 => let neg := bz c0 =? c_minus in
                                   rf_body data neg (if neg then 1 else 0) (if neg then r0 else data)
                     end.
Proof. destruct data; reflexivity. Qed.

Lemma rf_body_p data neg p l1 : 0 <= p -> p + len l1 = len data -> 0 <= rf_p (rf_body data neg p l1) <= len data.
Proof.
  intros Hp Hl. unfold rf_body. cbv zeta. destruct l1 as [|c l2]; [cbn [rf_p]; change (len (@nil byte)) with 0 in *; lia|].
  rewrite (zlen_cons c l2) in Hl. pose proof (zlen_nonneg l2).
  destruct (bz c =? c_dot); [cbn [rf_p]; lia|].
  destruct (is_digit c).
  2:{ apply rf_finish_p; [lia|rewrite zlen_cons; lia]. }
  destruct l2 as [|c' l3]; [apply rf_finish_p; [lia|change (len (@nil byte)) with 0 in *; lia]|].
  rewrite (zlen_cons c' l3) in Hl. pose proof (zlen_nonneg l3).
  destruct (bz c' =? c_dot).
  - match goal with |- context [rf_loop l3 ?q ?st] => destruct (rf_loop l3 q st) as [[s p'] rest] eqn:E end.
    apply rf_loop_p in E. apply rf_finish_p; lia.
  - destruct (is_digit c').
    + match goal with |- context [if ?b then _ else _] => destruct b end.
      * apply rf_finish_p; [lia|rewrite zlen_cons; lia].
      * match goal with |- context [rf_loop l3 ?q ?st] => destruct (rf_loop l3 q st) as [[s p'] rest] eqn:E end.
        apply rf_loop_p in E. apply rf_finish_p; lia.
    + apply rf_finish_p; [lia|rewrite zlen_cons; lia].
Qed.

(** the scanner's offset is inside its input, on any input *)
Theorem readFloat_p data : 0 <= rf_p (readFloat_m data) <= len data.
Proof.
  rewrite readFloat_unfold. destruct data as [|c0 r0]; [cbn; lia|]. cbv zeta.
  pose proof (zlen_nonneg r0). destruct (bz c0 =? c_minus); apply rf_body_p; rewrite ?zlen_cons; lia.
Qed.

Theorem parse_offset T data v n err :
  ParseJSONFloatPrefix_m T data = Some (v, n, err) -> 0 <= n <= len data.
Proof.
  unfold ParseJSONFloatPrefix_m. cbv zeta. pose proof (readFloat_p data) as Hp. pose proof (zlen_nonneg data).
  destruct (negb (rf_ok (readFloat_m data))); [intros E; injection E as _ <- _; lia|].
  destruct ((0 <? rf_p (readFloat_m data)) && _); [intros E; injection E as _ <- _; lia|].
  destruct (if rf_trunc (readFloat_m data) then None else _); [intros E; injection E as _ <- _; lia|].
  match goal with |- match ?el with _ => _ end = _ -> _ => destruct el; [intros E; injection E as _ <- _; lia|] end.
  destruct (set_m _); [|intros E; injection E as _ <- _; lia].
  destruct (floatBits_m T d) as [[b ovf]|]; cbn [obind]; [|discriminate].
  destruct ovf; intros E; injection E as _ <- _; lia.
Qed.

Lemma count_while_le f l : (count_while f l <= length l)%nat.
Proof. induction l as [|c l IH]; cbn; [lia|]. destruct (f c); lia. Qed.

(** ReadFloat64: the returned offset lies inside the input, whatever the error *)
Theorem ReadFloat64_offset T data v p err :
  ReadFloat64_m T data = Some (v, p, err) ->
  Z.of_nat (count_while is_ws data) <= p <= len data.
Proof.
  unfold ReadFloat64_m. cbv zeta. pose proof (count_while_le is_ws data) as Hc.
  set (w := count_while is_ws data) in *.
  destruct (Z.eqb_spec (Z.of_nat w) (len data)) as [E|_]; [intros H; injection H as _ <- _; lia|].
  rewrite Nat2Z.id.
  destruct (ParseJSONFloatPrefix_m T (skipn w data)) as [[[v' pp] e]|] eqn:HP; cbn [obind]; [|discriminate].
  apply parse_offset in HP. intros H; injection H as _ <- _.
  unfold len in *. rewrite skipn_length in HP. lia.
Qed.

Print Assumptions readFloat_p.
Print Assumptions ReadFloat64_offset.
Print Assumptions parse_total.
Print Assumptions ReadFloat64_total.
