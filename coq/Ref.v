(** Reference semantics of the JSON-level functions of rjson, written as executable
    recursive-descent functions over byte lists, independent of any state machine:
    what SkipValue must return ([skip_ref]), what Valid must answer ([valid_ref]), which
    members the handler functions must present ([members_ref]), what a string token decodes
    to ([decode_string_ref]).  Lengths are [nat] (number of bytes of the token / value at the
    head of the list), public results are offsets in [Z].  Definitions only; validated against
    the implementation (Go harness) and encoding/json through the extracted code. *)
From Coq Require Import List ZArith Bool.
From Coq Require Import Strings.Byte.
From Rjson Require Import Base Helpers.
Import ListNotations.

(** * Bytes *)
Definition isb (c : Z) (b : byte) : bool := Z.eqb (bz b) c.
Definition r_is_hex (b : byte) : bool := Z.leb 0 (hexval b).
Definition r_is_ctl (b : byte) : bool := Z.ltb (bz b) 32.          (* raw bytes below 0x20 *)
Definition r_is_digit19 (b : byte) : bool := Z.leb 49 (bz b) && Z.leb (bz b) 57.

(** the one-letter escapes (backslash followed by a quote, a backslash, a slash, b, f, n, r or t)
    and the byte each stands for *)
Definition simple_escape (b : byte) : option Z :=
  let c := bz b in
  if Z.eqb c 34 then Some 34%Z else if Z.eqb c 92 then Some 92%Z else if Z.eqb c 47 then Some 47%Z
  else if Z.eqb c 98 then Some 8%Z else if Z.eqb c 102 then Some 12%Z else if Z.eqb c 110 then Some 10%Z
  else if Z.eqb c 114 then Some 13%Z else if Z.eqb c 116 then Some 9%Z
  else None.

(** * Tokens *)
(** JSON white space: space, tab, CR, LF *)
Definition ws (l : list byte) : nat := count_while is_ws l.
Definition digits (l : list byte) : nat := count_while is_digit l.

(** ** strings *)
(** [l] is the input after the opening quote: number of bytes up to and including the closing
    quote.  No raw byte below 0x20; a backslash is followed by a one-letter escape or by
    'u' and four hex digits. *)
Fixpoint string_body (l : list byte) : option nat :=
  match l with
  | [] => None
  | b :: r =>
    if isb 34 b then Some 1%nat
    else if isb 92 b then
      match r with
      | e :: r1 =>
        match simple_escape e with
        | Some _ => option_map (fun n => (2 + n)%nat) (string_body r1)
        | None =>
          if isb 117 e then
            match r1 with
            | h1 :: h2 :: h3 :: h4 :: r2 =>
              if r_is_hex h1 && r_is_hex h2 && r_is_hex h3 && r_is_hex h4
              then option_map (fun n => (6 + n)%nat) (string_body r2) else None
            | _ => None
            end
          else None
        end
      | [] => None
      end
    else if r_is_ctl b then None
    else option_map S (string_body r)
  end.

(** length, quotes included, of the well-formed string token at the head *)
Definition string_tok (l : list byte) : option nat :=
  match l with
  | q :: r => if isb 34 q then option_map S (string_body r) else None
  | [] => None
  end.

(** ** numbers: optional '-'; integer part: 0, or a non-zero digit and any more digits;
    optional fraction: '.' and at least one digit; optional exponent: 'e' or 'E', optional sign,
    at least one digit.  Maximal munch; a '.' or an 'e' / 'E' after the integer part commits:
    what follows must complete the number (no backtracking) *)
Definition int_part (l : list byte) : option nat :=
  match l with
  | d :: r => if isb 48 d then Some 1%nat
              else if r_is_digit19 d then Some (S (digits r)) else None
  | [] => None
  end.

(** [Some 0]: no fraction; [None]: a '.' without a digit after it *)
Definition frac_part (l : list byte) : option nat :=
  match l with
  | c :: r => if isb 46 c then (let n := digits r in if Nat.eqb n 0 then None else Some (S n))
              else Some 0%nat
  | [] => Some 0%nat
  end.

Definition exp_part (l : list byte) : option nat :=
  match l with
  | c :: r =>
    if is_exp c then
      match r with
      | s :: r1 =>
        if is_sign s then (let n := digits r1 in if Nat.eqb n 0 then None else Some (2 + n)%nat)
        else (let n := digits r in if Nat.eqb n 0 then None else Some (1 + n)%nat)
      | [] => None
      end
    else Some 0%nat
  | [] => Some 0%nat
  end.

(** the number token at the head, starting at its integer part (after the optional '-') *)
Definition unsigned_tok (l : list byte) : option nat :=
  match int_part l with
  | None => None
  | Some i =>
    match frac_part (skipn i l) with
    | None => None
    | Some f =>
      match exp_part (skipn (i + f) l) with
      | None => None
      | Some e => Some (i + f + e)%nat
      end
    end
  end.

Definition number_tok (l : list byte) : option nat :=
  match l with
  | c :: r => if isb 45 c then option_map S (unsigned_tok r) else unsigned_tok l
  | [] => None
  end.

(** ** literals *)
Fixpoint is_prefix (w l : list byte) : bool :=
  match w, l with
  | [], _ => true
  | x :: w', y :: l' => Z.eqb (bz y) (bz x) && is_prefix w' l'
  | _ :: _, [] => false
  end.

Definition lit_null : list byte := [x6e; x75; x6c; x6c].
Definition lit_true : list byte := [x74; x72; x75; x65].
Definition lit_false : list byte := [x66; x61; x6c; x73; x65].

(** the literal [w] at the head *)
Definition lit_ref (w l : list byte) : option nat :=
  if is_prefix w l then Some (length w) else None.

(** white space, then the literal: the offset after it (ReadNull) *)
Definition read_lit_ref (w data : list byte) : option Z :=
  option_map (fun n => Z.of_nat (ws data + n)) (lit_ref w (skipn (ws data) data)).

(** ReadBool: value and offset *)
Definition read_bool_ref (data : list byte) : option (bool * Z) :=
  match read_lit_ref lit_true data with
  | Some p => Some (true, p)
  | None => option_map (fun p => (false, p)) (read_lit_ref lit_false data)
  end.

(** ** a scalar token, chosen by its first byte *)
Definition scalar_tok (l : list byte) : option nat :=
  match l with
  | b :: _ =>
    if isb 34 b then string_tok l
    else if isb 45 b || is_digit b then number_tok l
    else if isb 116 b then lit_ref lit_true l
    else if isb 102 b then lit_ref lit_false l
    else if isb 110 b then lit_ref lit_null l
    else None
  | [] => None
  end.

(** * Values *)

(** [item (, item)* close] with white space around the commas and before the closing byte.
    [l] starts at the first item; the result includes the closing byte.  [fuel]: any number
    larger than the number of items. *)
Fixpoint items (fuel : nat) (item : list byte -> option nat) (close : Z) (l : list byte) : option nat :=
  match fuel with
  | O => None
  | S k =>
    match item l with
    | None => None
    | Some n =>
      let r := skipn n l in
      let w := ws r in
      match skipn w r with
      | c :: r1 =>
        if isb 44 c then
          let w1 := ws r1 in
          option_map (fun m => (n + w + 1 + w1 + m)%nat) (items k item close (skipn w1 r1))
        else if isb close c then Some (w + 1 + n)%nat
        else None
      | [] => None
      end
    end
  end.

(** what follows an opening bracket: white space, then the closing byte or items
    ([fuel]: any number larger than the length of [r]) *)
Definition container (fuel : nat) (item : list byte -> option nat) (close : Z) (r : list byte) : option nat :=
  let w := ws r in
  match skipn w r with
  | c :: _ =>
    if isb close c then Some (w + 1)%nat
    else option_map (fun n => (w + n)%nat) (items fuel item close (skipn w r))
  | [] => None
  end.

(** an object member: string key, ':', value, with white space around the colon *)
Definition member (value : list byte -> option nat) (l : list byte) : option nat :=
  match string_tok l with
  | None => None
  | Some k =>
    let r := skipn k l in
    let w := ws r in
    match skipn w r with
    | c :: r1 =>
      if isb 58 c then
        let w1 := ws r1 in
        option_map (fun n => (k + w + 1 + w1 + n)%nat) (value (skipn w1 r1))
      else None
    | [] => None
    end
  end.

(** the value at the head of [l] (no leading white space): its length.
    [md]: the maximal number of containers that may be open at the same time;
    [d]: the number of containers open around this value;
    [fuel]: any number larger than the length of [l]. *)
Fixpoint value_len (md : Z) (fuel : nat) (d : Z) (l : list byte) : option nat :=
  match fuel with
  | O => None
  | S f =>
    match l with
    | [] => None
    | b :: r =>
      if isb 91 b then
        if Z.leb md d then None
        else option_map S (container f (value_len md f (d + 1)) 93 r)
      else if isb 123 b then
        if Z.leb md d then None
        else option_map S (container f (member (value_len md f (d + 1))) 125 r)
      else scalar_tok l
    end
  end.

Definition max_depth_ref : Z := 10000.

(** SkipValue: optional white space, one value; the offset just after it.  Whatever follows
    is ignored (but number tokens are maximal). *)
Definition skip_ref_md (md : Z) (data : list byte) : option Z :=
  let w := ws data in
  option_map (fun n => Z.of_nat (w + n)) (value_len md (length data + 2) 0 (skipn w data)).

Definition skip_ref : list byte -> option Z := skip_ref_md max_depth_ref.

(** Valid: one value and nothing but white space after it *)
Definition valid_ref (data : list byte) : bool :=
  match skip_ref data with
  | Some p => let r := skipn (Z.to_nat p) data in Nat.eqb (ws r) (length r)
  | None => false
  end.

(** * Members (HandleArrayValues / HandleObjectValues with well-behaved handlers)
    The handler functions themselves put no bound on the nesting. *)
Section Members.
  Variable value : list byte -> option nat.

  (** [l] (at offset [off]) starts at a member; the members up to the closing byte, and the
      offset after it.  A member is (offset of its value, raw key bytes). *)
  Fixpoint members_from (fuel : nat) (obj : bool) (off : nat) (l : list byte)
    : option (list (Z * list byte) * Z) :=
    match fuel with
    | O => None
    | S k =>
      (* the key part of an object member: its raw bytes and the length up to the value *)
      let key :=
          if obj then
            match string_tok l with
            | None => None
            | Some n =>
              let r := skipn n l in
              let w := ws r in
              match skipn w r with
              | c :: r1 => if isb 58 c then Some (firstn (n - 2) (skipn 1 l), (n + w + 1 + ws r1)%nat) else None
              | [] => None
              end
            end
          else Some ([], 0%nat) in
      match key with
      | None => None
      | Some (kbytes, kl) =>
        let lv := skipn kl l in
        match value lv with
        | None => None
        | Some n =>
          let here := (Z.of_nat (off + kl), kbytes) in
          let r := skipn n lv in
          let w := ws r in
          match skipn w r with
          | c :: r1 =>
            if isb 44 c then
              let w1 := ws r1 in
              match members_from k obj (off + kl + n + w + 1 + w1) (skipn w1 r1) with
              | Some (ms, e) => Some (here :: ms, e)
              | None => None
              end
            else if isb (if obj then 125%Z else 93%Z) c then Some ([here], Z.of_nat (off + kl + n + w + 1))
            else None
          | [] => None
          end
        end
      end
    end.
End Members.

Definition members_ref (obj : bool) (data : list byte) : option (list (Z * list byte) * Z) :=
  let w := ws data in
  let l := skipn w data in
  match lit_ref lit_null l with
  | Some n => Some ([], Z.of_nat (w + n))
  | None =>
    match l with
    | b :: r =>
      if isb (if obj then 123%Z else 91%Z) b then
        let w1 := ws r in
        match skipn w1 r with
        | c :: _ =>
          if isb (if obj then 125%Z else 93%Z) c then Some ([], Z.of_nat (w + 1 + w1 + 1))
          else
            (* no bound on the nesting: more containers than bytes cannot be open *)
            members_from (value_len (Z.of_nat (length data)) (length data + 2) 0)
                         (S (length data)) obj (w + 1 + w1) (skipn w1 r)
        | [] => None
        end
      else None
    | [] => None
    end
  end.

(** * Decoding of string tokens (C06) *)
Definition hex4 (h1 h2 h3 h4 : byte) : option Z :=
  if r_is_hex h1 && r_is_hex h2 && r_is_hex h3 && r_is_hex h4
  then Some (((hexval h1 * 16 + hexval h2) * 16 + hexval h3) * 16 + hexval h4)%Z else None.

Definition is_high (u : Z) : bool := Z.leb 55296 u && Z.ltb u 56320.    (* D800..DBFF *)
Definition is_low (u : Z) : bool := Z.leb 56320 u && Z.ltb u 57344.     (* DC00..DFFF *)

(** UTF-8 of a code point that is not a surrogate (0..0x10FFFF) *)
Definition utf8 (r : Z) : list byte :=
  (if r <? 128 then [zb r]
   else if r <? 2048 then [zb (192 + r / 64); zb (128 + r mod 64)]
   else if r <? 65536 then [zb (224 + r / 4096); zb (128 + (r / 64) mod 64); zb (128 + r mod 64)]
   else [zb (240 + r / 262144); zb (128 + (r / 4096) mod 64); zb (128 + (r / 64) mod 64); zb (128 + r mod 64)])%Z.

Definition replacement : list byte := [xef; xbf; xbd].                  (* U+FFFD *)

(** the content of a string token (the bytes between the quotes) with the escapes resolved:
    a high surrogate escape immediately followed by a low surrogate escape is one code point,
    any other surrogate escape is U+FFFD, every other byte is copied as it is.
    [None]: the content is not well formed. *)
Fixpoint decode_content (l : list byte) : option (list byte) :=
  match l with
  | [] => Some []
  | b :: r =>
    if isb 92 b then
      match r with
      | e :: r1 =>
        match simple_escape e with
        | Some x => option_map (cons (zb x)) (decode_content r1)
        | None =>
          if isb 117 e then
            match r1 with
            | h1 :: h2 :: h3 :: h4 :: r2 =>
              match hex4 h1 h2 h3 h4 with
              | None => None
              | Some u =>
                if is_high u then
                  match r2 with
                  | b2 :: e2 :: g1 :: g2 :: g3 :: g4 :: r3 =>
                    match (if isb 92 b2 && isb 117 e2 then hex4 g1 g2 g3 g4 else None) with
                    | Some v =>
                      if is_low v
                      then option_map (app (utf8 ((u - 55296) * 1024 + (v - 56320) + 65536)%Z)) (decode_content r3)
                      else option_map (app replacement) (decode_content r2)
                    | None => option_map (app replacement) (decode_content r2)
                    end
                  | _ => option_map (app replacement) (decode_content r2)
                  end
                else if is_low u then option_map (app replacement) (decode_content r2)
                else option_map (app (utf8 u)) (decode_content r2)
              end
            | _ => None
            end
          else None
        end
      | [] => None
      end
    else if isb 34 b || r_is_ctl b then None
    else option_map (cons b) (decode_content r)
  end.

(** the string token at the head of [l] (no leading white space): decoded content and length *)
Definition decode_string_ref (l : list byte) : option (list byte * nat) :=
  match string_tok l with
  | None => None
  | Some n => option_map (fun c => (c, n)) (decode_content (firstn (n - 2) (skipn 1 l)))
  end.

(** ReadStringBytes: white space, string token; dst ++ content and the offset after the token *)
Definition read_string_ref (data dst : list byte) : option (list byte * Z) :=
  let w := ws data in
  option_map (fun cn => (dst ++ fst cn, Z.of_nat (w + snd cn))) (decode_string_ref (skipn w data)).
