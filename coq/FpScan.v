(** FpScan.v -- the scanner [readFloat_m] (Fp.v, model of readFloat in /repo/internal/fp/fp.go)
    against the number grammar of FpSpec.v.

    Main result [readFloat_spec]: on a well-formed literal [jn_bytes j] followed by bytes [rest]
    that neither extend the token nor hit one of the strict cases of the code, readFloat
    succeeds, consumes exactly the literal, returns its sign, the first 19 digits of
    int ++ frac (leading zeros count, as in the Go code) and the decimal exponent that goes with
    them; [rf_trunc] is set iff digits were dropped (possibly all zero).
    [readFloat_exact] is the same result in closed form (mantissa = first 19 digits, t = max 0 (nd-19),
    trunc iff t > 0).  Secondary results: [readFloat_no_digit], [readFloat_bad_exp], [readFloat_trailing_dot],
    [readFloat_strict] (strictness / leniency relative to the tokenizer [jnum_lex]),
    [parse_syntax_ok], [parse_second_check] (the trailing-'.' test of ParseJSONFloatPrefix),
    [jnum_lex_sound] (the tokenizer returns a well-formed prefix), [readFloat_lex].
    No axioms: [Print Assumptions readFloat_spec] at the end. *)
From Coq Require Import List ZArith Bool Lia.
From Coq Require Import Strings.Byte.
From Rjson Require Import Base BaseFacts Helpers Round Fp FpSpec FpTables.
Import ListNotations.
Local Open Scope Z_scope.

(** * 1. lists, bytes, [dval] *)

(** length of a cons, in Z *)
Lemma len_cons {A} (x : A) (l : list A) : len (x :: l) = 1 + len l.
Proof. unfold len. simpl length. lia. Qed.

(** length of the empty list, in Z *)
Lemma len_nil {A} : len (@nil A) = 0.
Proof. reflexivity. Qed.

(** [is_digit] as an interval of byte values *)
Lemma is_digit_range c : is_digit c = true -> 48 <= bz c <= 57.
Proof.
  unfold is_digit. intros H. apply andb_true_iff in H as [H1 H2].
  apply Z.leb_le in H1. apply Z.leb_le in H2. lia.
Qed.

(** [all_digits] over an append *)
Lemma all_digits_app l1 l2 : all_digits (l1 ++ l2) = all_digits l1 && all_digits l2.
Proof. unfold all_digits. apply forallb_app. Qed.

(** [all_digits] over a cons *)
Lemma all_digits_cons c l : all_digits (c :: l) = is_digit c && all_digits l.
Proof. reflexivity. Qed.

(** one step of [dval]: append a decimal digit to the accumulator *)
Definition dstep (acc : Z) (c : byte) : Z := acc * 10 + (bz c - 48).

(** [dval] is the fold of [dstep] from 0 *)
Lemma dval_fold l : dval l = fold_left dstep l 0.
Proof. reflexivity. Qed.

(** [dval] with one more digit on the right *)
Lemma dval_snoc l c : dval (l ++ [c]) = dval l * 10 + (bz c - 48).
Proof. unfold dval. rewrite fold_left_app. reflexivity. Qed.

(** the accumulator of the fold is shifted by the number of digits read *)
Lemma fold_dstep_acc l : forall a, fold_left dstep l a = a * 10 ^ len l + fold_left dstep l 0.
Proof.
  induction l as [|c l IH]; intros a.
  - cbn [fold_left]. change (10 ^ len (@nil byte)) with 1. lia.
  - cbn [fold_left]. rewrite IH. rewrite (IH (dstep 0 c)). rewrite len_cons.
    rewrite Z.pow_add_r by (pose proof (len_nonneg l); lia). rewrite Z.pow_1_r.
    unfold dstep. ring.
Qed.

(** [dval] of an append: shift the left part by the length of the right part *)
Lemma dval_app l1 l2 : dval (l1 ++ l2) = dval l1 * 10 ^ len l2 + dval l2.
Proof. unfold dval. rewrite fold_left_app. apply (fold_dstep_acc l2). Qed.

(** a string of n digits denotes a number in [0, 10^n) *)
Lemma dval_bound l : all_digits l = true -> 0 <= dval l < 10 ^ len l.
Proof.
  induction l as [|c l IH] using rev_ind; intros H.
  - change (10 ^ len (@nil byte)) with 1. unfold dval. cbn [fold_left]. lia.
  - rewrite all_digits_app in H. apply andb_true_iff in H as [H1 H2].
    rewrite all_digits_cons in H2. apply andb_true_iff in H2 as [H2 _].
    apply is_digit_range in H2. specialize (IH H1).
    rewrite dval_snoc, len_app, len_cons. change (len (@nil byte)) with 0.
    rewrite Z.pow_add_r by (pose proof (len_nonneg l); lia).
    change (10 ^ (1 + 0)) with 10. lia.
Qed.

(** reading more digits never decreases a non-negative accumulator *)
Lemma fold_dstep_ge l a : all_digits l = true -> 0 <= a -> a <= fold_left dstep l a.
Proof.
  intros H Ha. rewrite fold_dstep_acc. pose proof (dval_bound l H) as Hb. change (dval l) with (fold_left dstep l 0) in Hb.
  assert (0 < 10 ^ len l) by (pose proof (len_nonneg l); apply Z.pow_pos_nonneg; lia). nia.
Qed.

(** * 2. the digit loop *)

(** loop invariant: the state after the digits [Ds] (leading zeros included) have been consumed *)
Definition Inv (Ds : list byte) (s : rf_st) : Prop :=
  s_nd s = len Ds /\ s_ndMant s = Z.min 19 (len Ds) /\
  s_mant s = dval (firstn 19 Ds) /\ s_trunc s = (19 <? len Ds).

(** at most 19 digits: all are kept *)
Lemma firstn19_small (Ds : list byte) : len Ds <= 19 -> firstn 19 Ds = Ds.
Proof. unfold len. intros H. apply firstn_all2. lia. Qed.

(** 19 digits or more already: a further digit is dropped *)
Lemma firstn19_snoc_big (Ds : list byte) c : 19 <= len Ds -> firstn 19 (Ds ++ [c]) = firstn 19 Ds.
Proof.
  unfold len. intros H. rewrite firstn_app.
  replace (19 - length Ds)%nat with 0%nat by lia. rewrite firstn_O. apply app_nil_r.
Qed.

(** 10^n <= 10^19 for n <= 19 *)
Lemma pow10_le_19 n : 0 <= n <= 19 -> 10 ^ n <= 10 ^ 19.
Proof. intros H. apply Z.pow_le_mono_r; lia. Qed.

(** 19 decimal digits fit in a uint64 *)
Lemma ten19_lt_two64 : 10 ^ 19 < two64.
Proof. reflexivity. Qed.

(** one digit consumed by the loop *)
Lemma loop_digit_step c r p s Ds :
  is_digit c = true -> all_digits Ds = true -> Inv Ds s ->
  exists s', rf_loop (c :: r) p s = rf_loop r (p + 1) s' /\ Inv (Ds ++ [c]) s' /\
             s_dp s' = s_dp s /\ s_sawdot s' = s_sawdot s.
Proof.
  intros Hc HDs (Hnd & Hnm & Hm & Htr).
  cbn [rf_loop]. unfold digits_tab. rewrite Hc. unfold maxMantDigits.
  pose proof (len_nonneg Ds) as Hl0.
  destruct (19 <=? s_ndMant s) eqn:E.
  - apply Z.leb_le in E. eexists. split; [reflexivity|].
    split; [|split; reflexivity].
    unfold Inv. cbn [s_nd s_ndMant s_mant s_trunc]. rewrite len_app, len_cons.
    change (len (@nil byte)) with 0.
    repeat split.
    + lia.
    + lia.
    + rewrite firstn19_snoc_big by lia. exact Hm.
    + symmetry. apply Z.ltb_lt. lia.
  - apply Z.leb_gt in E. eexists. split; [reflexivity|].
    split; [|split; reflexivity].
    assert (Hlt : len Ds < 19) by lia.
    unfold Inv. cbn [s_nd s_ndMant s_mant s_trunc]. rewrite len_app, len_cons.
    change (len (@nil byte)) with 0.
    rewrite firstn19_small in Hm by lia.
    pose proof (dval_bound Ds HDs) as Hb.
    pose proof (pow10_le_19 (len Ds + 1) ltac:(lia)) as Hp.
    rewrite Z.pow_add_r, Z.pow_1_r in Hp by lia.
    pose proof ten19_lt_two64 as H64.
    apply is_digit_range in Hc.
    repeat split.
    + lia.
    + lia.
    + rewrite firstn19_small by (rewrite len_app, len_cons; change (len (@nil byte)) with 0; lia).
      rewrite dval_snoc. rewrite Hm. unfold c_0.
      rewrite (u64_small (dval Ds * 10)) by lia.
      rewrite u64_small by lia. reflexivity.
    + rewrite Htr. destruct (Z.ltb_spec 19 (len Ds)); destruct (Z.ltb_spec 19 (len Ds + (1 + 0))); try reflexivity; lia.
Qed.

(** a run of digits consumed by the loop *)
Lemma loop_digits ds : forall Ds s p t,
  all_digits ds = true -> all_digits Ds = true -> Inv Ds s ->
  exists s', rf_loop (ds ++ t) p s = rf_loop t (p + len ds) s' /\ Inv (Ds ++ ds) s' /\
             s_dp s' = s_dp s /\ s_sawdot s' = s_sawdot s.
Proof.
  induction ds as [|c ds IH]; intros Ds s p t Hds HDs HI.
  - exists s. change (len (@nil byte)) with 0. rewrite Z.add_0_r, app_nil_r.
    split; [reflexivity|]. split; [exact HI|]. split; reflexivity.
  - rewrite all_digits_cons in Hds. apply andb_true_iff in Hds as [Hc Hds].
    destruct (loop_digit_step c (ds ++ t) p s Ds Hc HDs HI) as (s1 & E1 & I1 & D1 & W1).
    assert (HDs1 : all_digits (Ds ++ [c]) = true).
    { rewrite all_digits_app, HDs, all_digits_cons, Hc. reflexivity. }
    destruct (IH (Ds ++ [c]) s1 (p + 1) t Hds HDs1 I1) as (s2 & E2 & I2 & D2 & W2).
    exists s2. rewrite <- app_comm_cons, E1, E2. rewrite <- app_assoc in I2. cbn [app] in I2.
    rewrite len_cons. replace (p + (1 + len ds)) with (p + 1 + len ds) by lia.
    split; [reflexivity|]. split; [exact I2|]. split; congruence.
Qed.

(** the loop stops on end of input, on a byte that is neither digit nor '.', and on a second '.' *)
Lemma loop_stop t p s :
  match t with
  | [] => True
  | c :: _ => is_digit c = false /\ (bz c <> 46 \/ s_sawdot s = true)
  end ->
  rf_loop t p s = (s, p, t).
Proof.
  destruct t as [|c t]; intros H; [reflexivity|].
  destruct H as [Hd Hs]. cbn [rf_loop]. unfold digits_tab. rewrite Hd. unfold c_dot.
  destruct (Z.eqb_spec (bz c) 46) as [E|E]; [|reflexivity].
  destruct Hs as [Hs|Hs]; [contradiction|]. rewrite Hs. reflexivity.
Qed.

(** the fraction digits, once the '.' has been seen *)
Lemma loop_frac f : forall Ds s p t,
  all_digits f = true -> all_digits Ds = true -> Inv Ds s -> s_sawdot s = true ->
  match t with [] => True | c :: _ => is_digit c = false end ->
  exists s', rf_loop (f ++ t) p s = (s', p + len f, t) /\ Inv (Ds ++ f) s' /\
             s_dp s' = s_dp s /\ s_sawdot s' = true.
Proof.
  intros Ds s p t Hf HDs HI Hsd Ht.
  destruct (loop_digits f Ds s p t Hf HDs HI) as (s1 & E1 & I1 & D1 & W1).
  exists s1. rewrite E1. rewrite loop_stop.
  - split; [reflexivity|]. split; [exact I1|]. split; congruence.
  - destruct t as [|c t]; [exact I|]. split; [exact Ht|]. right. congruence.
Qed.

(** the bytes of the fraction part: '.' and the digits *)
Definition fracpart (fr : option (list byte)) : list byte :=
  match fr with None => [] | Some f => B 46 :: f end.
(** the digits of the fraction part *)
Definition fracdigits (fr : option (list byte)) : list byte :=
  match fr with None => [] | Some f => f end.
(** is there a fraction part *)
Definition hasfrac (fr : option (list byte)) : bool :=
  match fr with None => false | Some _ => true end.
(** the fraction part of a well-formed literal: non-empty, all digits *)
Definition frac_wf (fr : option (list byte)) : Prop :=
  match fr with None => True | Some f => all_digits f = true /\ f <> [] end.
(** the weaker condition that suffices for the scan (an empty fraction is scanned too) *)
Definition frac_dig (fr : option (list byte)) : Prop :=
  match fr with None => True | Some f => all_digits f = true end.

(** a well-formed fraction satisfies the weaker scan condition *)
Lemma frac_wf_dig fr : frac_wf fr -> frac_dig fr.
Proof. destruct fr as [f|]; [intros [H _]; exact H|intros _; exact I]. Qed.

(** where the digit scan stops: [tl] is what follows the integer and fraction parts *)
Definition stop_ok (ip : list byte) (fr : option (list byte)) (tl : list byte) : Prop :=
  match tl with
  | [] => True
  | c :: _ =>
    match fr with
    | Some _ => is_digit c = false
    | None => bz c <> 46 /\ (is_digit c = true -> ip = [B 48])
    end
  end.

(** from the end of the integer part (no '.' seen yet) to the end of the digit scan *)
Lemma loop_tail fr : forall Ds s p tl,
  frac_dig fr -> all_digits Ds = true -> Inv Ds s -> s_sawdot s = false ->
  match tl with
  | [] => True
  | c :: _ => is_digit c = false /\ (fr = None -> bz c <> 46)
  end ->
  exists s', rf_loop (fracpart fr ++ tl) p s = (s', p + len (fracpart fr), tl) /\
             Inv (Ds ++ fracdigits fr) s' /\ s_sawdot s' = hasfrac fr /\
             (hasfrac fr = true -> s_dp s' = len Ds).
Proof.
  intros Ds s p tl Hfr HDs HI Hsd Htl. destruct fr as [f|].
  - pose proof Hfr as Hf. cbn [frac_dig] in Hf. cbn [fracpart fracdigits hasfrac].
    rewrite <- app_comm_cons. cbn [rf_loop]. unfold digits_tab.
    replace (is_digit (B 46)) with false by reflexivity.
    replace (bz (B 46) =? c_dot) with true by reflexivity. rewrite Hsd.
    set (s1 := {| s_mant := s_mant s; s_nd := s_nd s; s_ndMant := s_ndMant s; s_dp := s_nd s;
                  s_sawdot := true; s_trunc := s_trunc s |}).
    assert (I1 : Inv Ds s1) by exact HI.
    destruct (loop_frac f Ds s1 (p + 1) tl Hf HDs I1 eq_refl) as (s2 & E2 & I2 & D2 & W2).
    { destruct tl as [|c tl]; [exact I|]. apply Htl. }
    exists s2. rewrite E2. rewrite len_cons. replace (p + 1 + len f) with (p + (1 + len f)) by lia.
    split; [reflexivity|]. split; [exact I2|]. split; [exact W2|].
    intros _. rewrite D2. subst s1. cbn [s_dp]. apply HI.
  - cbn [fracpart fracdigits hasfrac]. cbn [app]. rewrite app_nil_r.
    exists s. rewrite loop_stop.
    + change (len (@nil byte)) with 0. rewrite Z.add_0_r.
      split; [reflexivity|]. split; [exact HI|]. split; [exact Hsd|]. discriminate.
    + destruct tl as [|c tl]; [exact I|]. destruct Htl as [H1 H2]. split; [exact H1|].
      left. apply H2. reflexivity.
Qed.

(** * 3. the exponent loop *)

(** a run of exponent digits, while the accumulated value stays <= 99999 *)
Lemma exp_loop_run e : forall a p t,
  all_digits e = true -> 0 <= a -> fold_left dstep e a <= 99999 ->
  exp_loop (e ++ t) p a = exp_loop t (p + len e) (fold_left dstep e a).
Proof.
  induction e as [|c e IH]; intros a p t He Ha Hb.
  - change (len (@nil byte)) with 0. rewrite Z.add_0_r. reflexivity.
  - rewrite all_digits_cons in He. apply andb_true_iff in He as [Hc He].
    cbn [fold_left] in Hb |- *. rewrite <- app_comm_cons. cbn [exp_loop]. rewrite Hc.
    pose proof (is_digit_range c Hc) as Hr.
    assert (Ha1 : 0 <= dstep a c) by (unfold dstep; lia).
    pose proof (fold_dstep_ge e (dstep a c) He Ha1) as Hge.
    assert (Hd9 : dstep a c <= 99999) by lia.
    assert (Hlt : a <? 10000 = true) by (apply Z.ltb_lt; unfold dstep in Hd9; lia).
    rewrite Hlt. unfold c_0. replace (a * 10 + bz c - 48) with (dstep a c) by (unfold dstep; lia).
    rewrite IH by assumption. rewrite len_cons. f_equal. lia.
Qed.

(** the exponent loop stops on end of input or a non-digit *)
Lemma exp_loop_stop t p a :
  match t with [] => True | c :: _ => is_digit c = false end -> exp_loop t p a = (p, a, t).
Proof. destruct t as [|c t]; intros H; [reflexivity|]. cbn [exp_loop]. rewrite H. reflexivity. Qed.

(** the exponent digits are accumulated exactly when they denote at most 99999 *)
Lemma exp_loop_spec e p t :
  all_digits e = true -> dval e <= 99999 ->
  match t with [] => True | c :: _ => is_digit c = false end ->
  exp_loop (e ++ t) p 0 = (p + len e, dval e, t).
Proof.
  intros He Hb Ht. rewrite exp_loop_run by (try assumption; lia). apply exp_loop_stop. exact Ht.
Qed.

(** * 4. readFloat, piece by piece *)

(** the early failure result of readFloat *)
Definition rf_bad (p : Z) : rf_res :=
  {| rf_mant := 0; rf_exp := 0; rf_neg := false; rf_trunc := false; rf_p := p; rf_ok := false |}.

(** the body of readFloat after the optional sign: [l1] = data[p:] *)
Definition rf_body (data : list byte) (neg : bool) (p : Z) (l1 : list byte) : rf_res :=
    match l1 with
    | [] => rf_bad p
    | c :: l2 =>
      let st0 := {| s_mant := 0; s_nd := 0; s_ndMant := 0; s_dp := 0; s_sawdot := false; s_trunc := false |} in
      if bz c =? c_dot then
        {| rf_mant := 0; rf_exp := 0; rf_neg := neg; rf_trunc := false; rf_p := p; rf_ok := false |}
      else if is_digit c then
        let st1 := {| s_mant := u64 (bz c - c_0); s_nd := 1; s_ndMant := 1; s_dp := 0;
                      s_sawdot := false; s_trunc := false |} in
        let p := p + 1 in
        match l2 with
        | [] => rf_finish data neg true st1 p []
        | c' :: l3 =>
          if bz c' =? c_dot then
            let st2 := {| s_mant := s_mant st1; s_nd := 1; s_ndMant := 1; s_dp := 1;
                          s_sawdot := true; s_trunc := false |} in
            let '(s, p', rest) := rf_loop l3 (p + 1) st2 in
            rf_finish data neg true s p' rest
          else if is_digit c' then
            if s_mant st1 =? 0 then rf_finish data neg true st1 p l2
            else
              let st2 := {| s_mant := u64 (u64 (s_mant st1 * 10) + (bz c' - c_0)); s_nd := 2; s_ndMant := 2;
                            s_dp := 0; s_sawdot := false; s_trunc := false |} in
              let '(s, p', rest) := rf_loop l3 (p + 1) st2 in
              rf_finish data neg true s p' rest
          else rf_finish data neg true st1 p l2
        end
      else rf_finish data neg false st0 p l1
    end.

(** readFloat is the sign test followed by [rf_body] *)
Lemma readFloat_unfold data :
  readFloat_m data =
  match data with
  | [] => rf_bad 0
  | c0 :: r0 => let neg := bz c0 =? c_minus in
                rf_body data neg (if neg then 1 else 0) (if neg then r0 else data)
  end.
Proof. destruct data; reflexivity. Qed.

(** the integer part of a well-formed literal: a digit, then digits, no leading zero unless alone *)
Lemma int_wf_inv ip : int_wf ip = true ->
  exists c r, ip = c :: r /\ is_digit c = true /\ all_digits r = true /\ (bz c <> 48 \/ r = []).
Proof.
  destruct ip as [|c r]; [discriminate|]. unfold int_wf. intros H.
  apply andb_true_iff in H as [H1 H2]. rewrite all_digits_cons in H1.
  apply andb_true_iff in H1 as [Hc Hr]. exists c, r. repeat split; try assumption.
  apply orb_true_iff in H2 as [H2|H2].
  - left. apply negb_true_iff in H2. apply Z.eqb_neq in H2. exact H2.
  - right. destruct r; [reflexivity|discriminate].
Qed.

(** the invariant after the first digit *)
Lemma Inv_one c : is_digit c = true ->
  Inv [c] {| s_mant := u64 (bz c - c_0); s_nd := 1; s_ndMant := 1; s_dp := 0; s_sawdot := false; s_trunc := false |}.
Proof.
  intros Hc. apply is_digit_range in Hc. unfold Inv. cbn [s_nd s_ndMant s_mant s_trunc].
  change (len [c]) with 1. change (firstn 19 [c]) with [c].
  repeat split; try reflexivity.
  unfold dval, c_0. cbn [fold_left]. apply u64_small. unfold two64. lia.
Qed.

(** the digit scan: sign already consumed, [tl] = the exponent part and whatever follows *)
Lemma body_scan data neg p0 ip fr tl :
  int_wf ip = true -> frac_dig fr -> stop_ok ip fr tl ->
  exists s, rf_body data neg p0 (ip ++ fracpart fr ++ tl)
            = rf_finish data neg true s (p0 + len ip + len (fracpart fr)) tl /\
            Inv (ip ++ fracdigits fr) s /\ s_sawdot s = hasfrac fr /\
            (hasfrac fr = true -> s_dp s = len ip).
Proof.
  intros Hip Hfr Hstop.
  destruct (int_wf_inv ip Hip) as (c & ri & -> & Hc & Hri & Hz).
  pose proof (is_digit_range c Hc) as Hcr.
  rewrite <- app_comm_cons. unfold rf_body.
  replace (bz c =? c_dot) with false by (symmetry; apply Z.eqb_neq; unfold c_dot; lia).
  rewrite Hc. cbv zeta.
  set (st1 := {| s_mant := u64 (bz c - c_0); s_nd := 1; s_ndMant := 1; s_dp := 0; s_sawdot := false; s_trunc := false |}).
  assert (I1 : Inv [c] st1) by (apply Inv_one; exact Hc).
  assert (HD1 : all_digits [c] = true) by (rewrite all_digits_cons, Hc; reflexivity).
  assert (Hm1 : s_mant st1 = bz c - 48).
  { subst st1. cbn [s_mant]. unfold c_0. apply u64_small. unfold two64. lia. }
  destruct ri as [|c' ri].
  - (* one-digit integer part *)
    cbn [app]. rewrite len_cons. change (len (@nil byte)) with 0.
    destruct fr as [f|].
    + (* '.' is handled by the "second digit" switch *)
      pose proof Hfr as Hf. cbn [frac_dig] in Hf. cbn [fracpart fracdigits hasfrac]. rewrite <- app_comm_cons.
      replace (bz (B 46) =? c_dot) with true by reflexivity.
      set (st2 := {| s_mant := s_mant st1; s_nd := 1; s_ndMant := 1; s_dp := 1; s_sawdot := true; s_trunc := false |}).
      assert (I2 : Inv [c] st2) by exact I1.
      destruct (loop_frac f [c] st2 (p0 + 1 + 1) tl Hf HD1 I2 eq_refl) as (s & E & Is & Ds & Ws).
      { destruct tl as [|x tl]; [exact I|]. exact Hstop. }
      exists s. rewrite E. rewrite len_cons.
      replace (p0 + 1 + 1 + len f) with (p0 + (1 + 0) + (1 + len f)) by lia.
      split; [reflexivity|]. split; [exact Is|]. split; [exact Ws|].
      intros _. rewrite Ds. reflexivity.
    + cbn [fracpart fracdigits hasfrac]. cbn [app]. change (len (@nil byte)) with 0.
      exists st1. replace (p0 + (1 + 0) + 0) with (p0 + 1) by lia.
      split; [|split; [exact I1|split; [reflexivity|discriminate]]].
      destruct tl as [|x tl]; [reflexivity|].
      destruct Hstop as [Hx46 Hx0].
      replace (bz x =? c_dot) with false by (symmetry; apply Z.eqb_neq; exact Hx46).
      destruct (is_digit x) eqn:Hx; [|reflexivity].
      specialize (Hx0 eq_refl). injection Hx0 as ->.
      replace (s_mant st1 =? 0) with true by (symmetry; apply Z.eqb_eq; rewrite Hm1; reflexivity).
      reflexivity.
  - (* at least two digits: the first one is not '0' *)
    destruct Hz as [Hz|Hz]; [|discriminate].
    rewrite all_digits_cons in Hri. apply andb_true_iff in Hri as [Hc' Hri].
    pose proof (is_digit_range c' Hc') as Hcr'.
    rewrite <- app_comm_cons.
    replace (bz c' =? c_dot) with false by (symmetry; apply Z.eqb_neq; unfold c_dot; lia).
    rewrite Hc'.
    replace (s_mant st1 =? 0) with false by (symmetry; apply Z.eqb_neq; rewrite Hm1; lia).
    set (st2 := {| s_mant := u64 (u64 (s_mant st1 * 10) + (bz c' - c_0)); s_nd := 2; s_ndMant := 2;
                   s_dp := 0; s_sawdot := false; s_trunc := false |}).
    assert (I2 : Inv [c; c'] st2).
    { unfold Inv. subst st2. cbn [s_nd s_ndMant s_mant s_trunc].
      change (len [c; c']) with 2. change (firstn 19 [c; c']) with [c; c'].
      repeat split; try reflexivity.
      rewrite Hm1. unfold dval, c_0. cbn [fold_left].
      rewrite (u64_small ((bz c - 48) * 10)) by (unfold two64; lia).
      rewrite u64_small by (unfold two64; lia). lia. }
    assert (HD2 : all_digits [c; c'] = true).
    { rewrite !all_digits_cons, Hc, Hc'. reflexivity. }
    destruct (loop_digits ri [c; c'] st2 (p0 + 1 + 1) (fracpart fr ++ tl) Hri HD2 I2)
      as (s3 & E3 & I3 & D3 & W3).
    cbn [app] in I3.
    assert (HD3 : all_digits (c :: c' :: ri) = true).
    { rewrite !all_digits_cons, Hc, Hc', Hri. reflexivity. }
    destruct (loop_tail fr (c :: c' :: ri) s3 (p0 + 1 + 1 + len ri) tl Hfr HD3 I3) as (s & E & Is & Ws & Ds).
    { rewrite W3. reflexivity. }
    { destruct tl as [|x tl]; [exact I|]. unfold stop_ok in Hstop. destruct fr as [f|].
      - split; [exact Hstop|]. discriminate.
      - destruct Hstop as [Hx46 Hx0]. split.
        + destruct (is_digit x); [|reflexivity]. specialize (Hx0 eq_refl). discriminate.
        + intros _. exact Hx46. }
    exists s. rewrite E3, E. rewrite !len_cons.
    replace (p0 + 1 + 1 + len ri + len (fracpart fr)) with (p0 + (1 + (1 + len ri)) + len (fracpart fr)) by lia.
    split; [reflexivity|]. split; [exact Is|]. split; [exact Ws|].
    intros Hh. rewrite (Ds Hh), !len_cons. reflexivity.
Qed.

(** * 5. the code after finishUp *)

(** the bytes of the exponent sign *)
Definition expsign (sg : esign) : list byte :=
  match sg with ENone => [] | EPlus => [B 43] | EMinus => [B 45] end.
(** the bytes of the exponent part: e/E, sign, digits *)
Definition exppart (ex : option (bool * esign * list byte)) : list byte :=
  match ex with
  | None => []
  | Some (cap, sg, e) => (if cap then B 69 else B 101) :: expsign sg ++ e
  end.
(** the written exponent, signed ([jn_exp10] on the component) *)
Definition exp10 (ex : option (bool * esign * list byte)) : Z :=
  match ex with
  | None => 0
  | Some (_, EMinus, e) => - dval e
  | Some (_, _, e) => dval e
  end.
(** the exponent part of a well-formed literal with [exp_small] *)
Definition exp_wf (ex : option (bool * esign * list byte)) : Prop :=
  match ex with None => True | Some (_, _, e) => all_digits e = true /\ e <> [] /\ dval e <= 99999 end.

(** [jn_bytes] as sign ++ int ++ fraction part ++ exponent part *)
Lemma jn_bytes_eq j :
  jn_bytes j = (if j_neg j then [B 45] else []) ++ j_int j ++ fracpart (j_frac j) ++ exppart (j_exp j).
Proof. unfold jn_bytes, fracpart, exppart, expsign. destruct (j_exp j) as [[[cap sg] e]|]; reflexivity. Qed.

(** [jn_exp10] is [exp10] of the exponent component *)
Lemma jn_exp10_eq j : jn_exp10 j = exp10 (j_exp j).
Proof. reflexivity. Qed.

(** the model's [is_e] is the spec's [is_e_byte] *)
Lemma is_e_eq c : is_e c = is_e_byte c.
Proof. reflexivity. Qed.

(** [rf_finish] on the exponent part [exppart ex] followed by [rest] *)
Lemma finish_spec data neg s p ex rest :
  exp_wf ex ->
  (ex <> None -> exists b, get data (p - 1) = Some b /\ bz b <> 46) ->
  match rest with
  | [] => True
  | c :: _ => match ex with Some _ => is_digit c = false | None => is_e_byte c = false end
  end ->
  rf_finish data neg true s p (exppart ex ++ rest) =
  {| rf_mant := s_mant s;
     rf_exp := if s_mant s =? 0 then 0
               else (if s_sawdot s then s_dp s else s_nd s) + exp10 ex - s_ndMant s;
     rf_neg := neg; rf_trunc := s_trunc s; rf_p := p + len (exppart ex); rf_ok := true |}.
Proof.
  intros Hex Hget Hrest. destruct ex as [[[cap sg] e]|].
  - destruct Hex as (He & Hne & Hsmall).
    destruct (Hget ltac:(discriminate)) as (b & Hb & Hb46).
    destruct e as [|c2 e']; [contradiction|].
    pose proof He as He2. rewrite all_digits_cons in He2. apply andb_true_iff in He2 as [Hc2 _].
    pose proof (is_digit_range c2 Hc2) as Hr2.
    assert (Hrest' : match rest with [] => True | c :: _ => is_digit c = false end).
    { destruct rest; [exact I|exact Hrest]. }
    cbn [exppart]. rewrite <- app_comm_cons. unfold rf_finish. cbn [negb].
    replace (is_e (if cap then B 69 else B 101)) with true by (destruct cap; reflexivity).
    rewrite Hb. replace (bz b =? c_dot) with false by (symmetry; apply Z.eqb_neq; exact Hb46).
    assert (Hexp : forall q, exp_loop ((c2 :: e') ++ rest) q 0 = (q + len (c2 :: e'), dval (c2 :: e'), rest)).
    { intros q. apply exp_loop_spec; assumption. }
    destruct sg; cbn [expsign exp10].
    + (* no sign *)
      cbn [app]. cbn [app] in Hexp.
      replace (bz c2 =? c_plus) with false by (symmetry; apply Z.eqb_neq; unfold c_plus; lia).
      replace (bz c2 =? c_minus) with false by (symmetry; apply Z.eqb_neq; unfold c_minus; lia).
      rewrite Hc2. cbn [negb]. rewrite Hexp.
      f_equal.
      * destruct (s_mant s =? 0); [reflexivity|]. lia.
      * rewrite !len_cons. lia.
    + (* '+' *)
      cbn [app]. cbn [app] in Hexp.
      replace (bz (B 43) =? c_plus) with true by reflexivity.
      rewrite Hc2. cbn [negb]. rewrite Hexp.
      f_equal.
      * destruct (s_mant s =? 0); [reflexivity|]. lia.
      * rewrite !len_cons. lia.
    + (* '-' *)
      cbn [app]. cbn [app] in Hexp.
      replace (bz (B 45) =? c_plus) with false by reflexivity.
      replace (bz (B 45) =? c_minus) with true by reflexivity.
      rewrite Hc2. cbn [negb]. rewrite Hexp.
      f_equal.
      * destruct (s_mant s =? 0); [reflexivity|]. lia.
      * rewrite !len_cons. lia.
  - cbn [exppart exp10 app]. change (len (@nil byte)) with 0. unfold rf_finish. cbn [negb].
    destruct rest as [|c r1].
    + f_equal.
      * destruct (s_mant s =? 0); [reflexivity|]. lia.
      * lia.
    + rewrite is_e_eq, Hrest. f_equal.
      * destruct (s_mant s =? 0); [reflexivity|]. lia.
      * lia.
Qed.

(** * 6. the last byte of a literal is a digit *)

(** the list is non-empty and its last byte is a digit *)
Definition ends_digit (l : list byte) : Prop := exists l' b, l = l' ++ [b] /\ is_digit b = true.

(** a non-empty digit string ends with a digit *)
Lemma ends_digit_all l : all_digits l = true -> l <> [] -> ends_digit l.
Proof.
  intros H Hne. destruct (exists_last Hne) as (l' & b & ->). exists l', b. split; [reflexivity|].
  rewrite all_digits_app in H. apply andb_true_iff in H as [_ H].
  rewrite all_digits_cons in H. apply andb_true_iff in H as [H _]. exact H.
Qed.

(** [ends_digit] only depends on the right part of an append *)
Lemma ends_digit_app l1 l2 : ends_digit l2 -> ends_digit (l1 ++ l2).
Proof. intros (l' & b & -> & Hb). exists (l1 ++ l'), b. rewrite app_assoc. split; [reflexivity|exact Hb]. Qed.

(** reading the last byte of a prefix of the data *)
Lemma get_last_app (l : list byte) b t : get ((l ++ [b]) ++ t) (len (l ++ [b]) - 1) = Some b.
Proof.
  rewrite len_app, len_cons. change (len (@nil byte)) with 0.
  replace (len l + (1 + 0) - 1) with (len l) by lia. unfold get.
  pose proof (len_nonneg l) as H0.
  destruct (Z.ltb_spec (len l) 0) as [H|H]; [lia|].
  unfold len. rewrite Nat2Z.id. rewrite <- app_assoc. rewrite nth_error_app2 by lia.
  rewrite Nat.sub_diag. reflexivity.
Qed.

(** the byte before position [len l] in [l ++ t] is a digit when [l] ends with a digit *)
Lemma ends_digit_get l t : ends_digit l ->
  exists b, get (l ++ t) (len l - 1) = Some b /\ is_digit b = true.
Proof. intros (l' & b & -> & Hb). exists b. split; [apply get_last_app|exact Hb]. Qed.

(** a well-formed integer part ends with a digit *)
Lemma int_wf_ends ip : int_wf ip = true -> ends_digit ip.
Proof.
  intros H. destruct (int_wf_inv ip H) as (c & r & -> & Hc & Hr & _).
  apply ends_digit_all; [rewrite all_digits_cons, Hc, Hr; reflexivity|discriminate].
Qed.

(** integer part followed by a well-formed fraction part ends with a digit *)
Lemma int_frac_ends ip fr : int_wf ip = true -> frac_wf fr -> ends_digit (ip ++ fracpart fr).
Proof.
  intros Hip Hfr. destruct fr as [f|].
  - destruct Hfr as [Hf Hne]. apply ends_digit_app. cbn [fracpart].
    apply (ends_digit_app [B 46]). apply ends_digit_all; assumption.
  - cbn [fracpart]. rewrite app_nil_r. apply int_wf_ends. exact Hip.
Qed.

(** * 7. the kept digits against the whole digit string *)

(** the first 19 digits m of Ds and the t dropped ones: m*10^t <= dval Ds < (m+1)*10^t *)
Lemma mant_bounds Ds : all_digits Ds = true ->
  let m := dval (firstn 19 Ds) in
  let t := Z.max 0 (len Ds - 19) in
  0 <= m < 10 ^ 19 /\ m * 10 ^ t <= dval Ds < (m + 1) * 10 ^ t.
Proof.
  intros H m t.
  assert (Hsplit : Ds = firstn 19 Ds ++ skipn 19 Ds) by (symmetry; apply firstn_skipn).
  assert (HF : all_digits (firstn 19 Ds) = true /\ all_digits (skipn 19 Ds) = true).
  { rewrite Hsplit in H. rewrite all_digits_app in H. apply andb_true_iff in H. exact H. }
  destruct HF as [HF HS].
  assert (HlF : 0 <= len (firstn 19 Ds) <= 19).
  { unfold len. pose proof (firstn_le_length 19 Ds). lia. }
  assert (HlS : len (skipn 19 Ds) = t).
  { unfold len, t. rewrite skipn_length. unfold len. lia. }
  pose proof (dval_bound _ HF) as BF. pose proof (dval_bound _ HS) as BS.
  pose proof (pow10_le_19 _ HlF) as HP.
  fold m in BF. rewrite HlS in BS.
  assert (HD : dval Ds = m * 10 ^ t + dval (skipn 19 Ds)).
  { rewrite Hsplit at 1. rewrite dval_app, HlS. reflexivity. }
  rewrite HD. split; [lia|]. lia.
Qed.

(** * 8. the main theorem *)

(* the written exponent has at most 5 significant digits: the code's `if e < 10000` accumulation is then exact *)
Definition exp_small (j : jnum) : Prop :=
  match j_exp j with None => True | Some (_, _, e) => dval e <= 99999 end.

(* [rest] neither extends the number token nor hits one of the code's strict cases *)
Definition rest_ok (j : jnum) (rest : list byte) : Prop :=
  match rest with
  | [] => True
  | c :: _ =>
    match j_exp j, j_frac j with
    | Some _, _ => is_digit c = false
    | None, Some _ => is_digit c = false /\ is_e_byte c = false
    | None, None => is_e_byte c = false /\ bz c <> 46 /\ (is_digit c = true -> j_int j = [B 48])
    end
  end.

(** the result of the scan, as a relation between the literal and [r] *)
Definition scan_post (ip : list byte) (fr : option (list byte)) (ex : option (bool * esign * list byte))
           (neg : bool) (pend : Z) (r : rf_res) : Prop :=
  let Ds := ip ++ fracdigits fr in
  let t := Z.max 0 (len Ds - 19) in
  rf_ok r = true /\ rf_p r = pend /\ rf_neg r = neg /\
  rf_mant r = dval (firstn 19 Ds) /\ rf_trunc r = (0 <? t) /\
  rf_exp r = (if rf_mant r =? 0 then 0 else exp10 ex - len (fracdigits fr) + t).

(** readFloat after the sign, on the components of a well-formed literal *)
Lemma body_spec pre neg ip fr ex rest :
  int_wf ip = true -> frac_wf fr -> exp_wf ex ->
  match rest with
  | [] => True
  | c :: _ =>
    match ex, fr with
    | Some _, _ => is_digit c = false
    | None, Some _ => is_digit c = false /\ is_e_byte c = false
    | None, None => is_e_byte c = false /\ bz c <> 46 /\ (is_digit c = true -> ip = [B 48])
    end
  end ->
  scan_post ip fr ex neg (len (pre ++ ip ++ fracpart fr ++ exppart ex))
    (rf_body (pre ++ ip ++ fracpart fr ++ exppart ex ++ rest) neg (len pre)
             (ip ++ fracpart fr ++ exppart ex ++ rest)).
Proof.
  intros Hip Hfr Hex Hrest.
  set (data := pre ++ ip ++ fracpart fr ++ exppart ex ++ rest).
  assert (Hstop : stop_ok ip fr (exppart ex ++ rest)).
  { destruct ex as [[[cap sg] e]|].
    - cbn [exppart]. rewrite <- app_comm_cons. unfold stop_ok.
      destruct fr; destruct cap; (reflexivity || (split; [intros HH; vm_compute in HH; discriminate|intros HH; discriminate])).
    - cbn [exppart app]. unfold stop_ok. destruct rest as [|c rest]; [exact I|].
      destruct fr as [f|]; [apply Hrest|]. destruct Hrest as (_ & H1 & H2). split; assumption. }
  destruct (body_scan data neg (len pre) ip fr (exppart ex ++ rest) Hip (frac_wf_dig fr Hfr) Hstop)
    as (s & E & (Hnd & Hnm & Hm & Htr) & Hsd & Hdp).
  rewrite E.
  assert (Hget : ex <> None ->
                 exists b, get data (len pre + len ip + len (fracpart fr) - 1) = Some b /\ bz b <> 46).
  { intros _.
    pose proof (ends_digit_app pre _ (int_frac_ends ip fr Hip Hfr)) as Hend.
    destruct (ends_digit_get _ (exppart ex ++ rest) Hend) as (b & Hb & Hbd).
    exists b. split.
    - rewrite <- Hb. unfold data. rewrite !len_app. rewrite <- !app_assoc.
      f_equal. lia.
    - apply is_digit_range in Hbd. lia. }
  assert (Hrest' : match rest with
                   | [] => True
                   | c :: _ => match ex with Some _ => is_digit c = false | None => is_e_byte c = false end
                   end).
  { destruct rest as [|c rest]; [exact I|]. destruct ex as [x|]; [exact Hrest|].
    destruct fr; apply Hrest. }
  rewrite (finish_spec data neg s _ ex rest Hex Hget Hrest').
  unfold scan_post. cbn [rf_ok rf_p rf_neg rf_mant rf_trunc rf_exp].
  split; [reflexivity|]. split; [rewrite !len_app; lia|]. split; [reflexivity|].
  split; [exact Hm|]. split.
  { rewrite Htr. destruct (Z.ltb_spec 19 (len (ip ++ fracdigits fr)));
      destruct (Z.ltb_spec 0 (Z.max 0 (len (ip ++ fracdigits fr) - 19))); try reflexivity; lia. }
  assert (Hdpv : (if s_sawdot s then s_dp s else s_nd s) = len ip).
  { rewrite Hsd. destruct fr as [f|]; cbn [hasfrac].
    - apply Hdp. reflexivity.
    - rewrite Hnd. cbn [fracdigits]. rewrite app_nil_r. reflexivity. }
  rewrite Hdpv, Hnm. destruct (s_mant s =? 0); [reflexivity|]. rewrite len_app.
  pose proof (len_nonneg ip). pose proof (len_nonneg (fracdigits fr)). lia.
Qed.

(** [jn_wf] unpacked component by component *)
Lemma jn_wf_inv j : jn_wf j = true ->
  int_wf (j_int j) = true /\ frac_wf (j_frac j) /\
  match j_exp j with None => True | Some (_, _, e) => all_digits e = true /\ e <> [] end.
Proof.
  unfold jn_wf. intros H. apply andb_true_iff in H as [H H3]. apply andb_true_iff in H as [H1 H2].
  split; [exact H1|]. split.
  - destruct (j_frac j) as [f|]; [|exact I]. apply andb_true_iff in H2 as [Ha Hb].
    split; [exact Ha|]. intros ->. discriminate.
  - destruct (j_exp j) as [[[cap sg] e]|]; [|exact I]. apply andb_true_iff in H3 as [Ha Hb].
    split; [exact Ha|]. intros ->. discriminate.
Qed.

(** the optional sign: readFloat on ['-'] ++ ip ++ tl is the body on ip ++ tl at offset 0 or 1 *)
Lemma readFloat_signed (neg : bool) (ip tl : list byte) :
  int_wf ip = true ->
  readFloat_m ((if neg then [B 45] else []) ++ ip ++ tl) =
  rf_body ((if neg then [B 45] else []) ++ ip ++ tl) neg (len (if neg then [B 45] else [])) (ip ++ tl).
Proof.
  intros Hip. rewrite readFloat_unfold. destruct neg.
  - cbn [app]. replace (bz (B 45) =? c_minus) with true by reflexivity. reflexivity.
  - cbn [app]. destruct (int_wf_inv _ Hip) as (c & ri & -> & Hc & _ & _).
    pose proof (is_digit_range c Hc) as Hcr. rewrite <- !app_comm_cons.
    replace (bz c =? c_minus) with false by (symmetry; apply Z.eqb_neq; unfold c_minus; lia).
    reflexivity.
Qed.

(** all the digits of a well-formed literal are digits *)
Lemma jn_digits_all j : jn_wf j = true -> all_digits (j_int j ++ jn_frac_digits j) = true.
Proof.
  intros Hwf. destruct (jn_wf_inv j Hwf) as (Hip & Hfr & _).
  rewrite all_digits_app. apply andb_true_iff. split.
  - destruct (int_wf_inv _ Hip) as (c & r & -> & Hc & Hr & _).
    rewrite all_digits_cons, Hc, Hr. reflexivity.
  - unfold jn_frac_digits. destruct (j_frac j) as [f|]; [apply Hfr|reflexivity].
Qed.

(** readFloat on a well-formed literal followed by [rest], exact form: the mantissa is the first 19 digits of int ++ frac, t = max 0 (nd - 19) digits are dropped, trunc iff t > 0 *)
Theorem readFloat_exact : forall j rest,
  jn_wf j = true -> exp_small j -> rest_ok j rest ->
  let r := readFloat_m (jn_bytes j ++ rest) in
  let Ds := j_int j ++ jn_frac_digits j in
  let t := Z.max 0 (len Ds - 19) in
  rf_ok r = true /\ rf_p r = len (jn_bytes j) /\ rf_neg r = j_neg j /\
  rf_mant r = dval (firstn 19 Ds) /\ rf_trunc r = (0 <? t) /\
  rf_exp r = (if rf_mant r =? 0 then 0 else jn_exp10 j - len (jn_frac_digits j) + t).
Proof.
  intros j rest Hwf Hsmall Hrest.
  destruct (jn_wf_inv j Hwf) as (Hip & Hfr & Hex0).
  assert (Hex : exp_wf (j_exp j)).
  { unfold exp_wf. unfold exp_small in Hsmall. destruct (j_exp j) as [[[cap sg] e]|]; [|exact I].
    destruct Hex0 as [Ha Hb]. repeat split; assumption. }
  change (scan_post (j_int j) (j_frac j) (j_exp j) (j_neg j) (len (jn_bytes j))
                    (readFloat_m (jn_bytes j ++ rest))).
  rewrite jn_bytes_eq. rewrite <- !app_assoc.
  rewrite (readFloat_signed (j_neg j) (j_int j) _ Hip).
  apply body_spec; assumption.
Qed.

(** readFloat on a well-formed JSON number literal followed by [rest]: it consumes exactly the literal and returns its sign, its first 19 digits and the matching decimal exponent *)
Theorem readFloat_spec : forall j rest,
  jn_wf j = true -> exp_small j -> rest_ok j rest ->
  let r := readFloat_m (jn_bytes j ++ rest) in
  let D := dval (j_int j ++ jn_frac_digits j) in
  let k := jn_exp10 j - len (jn_frac_digits j) in
  rf_ok r = true /\ rf_p r = len (jn_bytes j) /\ rf_neg r = j_neg j /\
  0 <= rf_mant r < 10 ^ 19 /\
  exists t, 0 <= t /\ (rf_trunc r = false -> t = 0) /\
            rf_mant r * 10 ^ t <= D < (rf_mant r + 1) * 10 ^ t /\
            (rf_mant r <> 0 -> rf_exp r = k + t) /\
            (rf_mant r = 0 -> rf_exp r = 0).
Proof.
  intros j rest Hwf Hsmall Hrest.
  destruct (readFloat_exact j rest Hwf Hsmall Hrest) as (Hok & Hp & Hn & Hm & Htr & He).
  pose proof (mant_bounds _ (jn_digits_all j Hwf)) as [HB1 HB2].
  cbv zeta. rewrite Hm in *.
  split; [exact Hok|]. split; [exact Hp|]. split; [exact Hn|]. split; [exact HB1|].
  exists (Z.max 0 (len (j_int j ++ jn_frac_digits j) - 19)).
  split; [lia|]. split.
  { rewrite Htr. intros HH. apply Z.ltb_ge in HH. lia. }
  split; [exact HB2|]. rewrite He. split.
  - intros Hne. apply Z.eqb_neq in Hne. rewrite Hne. reflexivity.
  - intros Heq. apply Z.eqb_eq in Heq. rewrite Heq. reflexivity.
Qed.

(** the hypotheses are satisfiable: 12.5e3 followed by a comma *)
Example readFloat_spec_ex :
  let j := {| j_neg := false; j_int := [B 49; B 50]; j_frac := Some [B 53];
              j_exp := Some (false, ENone, [B 51]) |} in
  jn_wf j = true /\ exp_small j /\ rest_ok j [B 44] /\
  jn_bytes j ++ [B 44] = map B [49; 50; 46; 53; 101; 51; 44] /\
  readFloat_m (jn_bytes j ++ [B 44])
  = {| rf_mant := 125; rf_exp := 2; rf_neg := false; rf_trunc := false; rf_p := 6; rf_ok := true |}.
Proof. vm_compute. repeat split; try reflexivity. intros H; discriminate. Qed.

(** * 9. strictness and leniency of readFloat relative to the maximal-munch tokenizer *)

(** no digit after the optional '-' (empty input, "-", ".5", "+1", "x"): not a number *)
Theorem readFloat_no_digit data :
  match (match data with c0 :: r0 => if bz c0 =? 45 then r0 else data | [] => data end) with
  | [] => True
  | c :: _ => is_digit c = false
  end ->
  rf_ok (readFloat_m data) = false.
Proof.
  rewrite readFloat_unfold. destruct data as [|c0 r0]; [reflexivity|].
  cbv zeta. unfold c_minus. destruct (bz c0 =? 45).
  - destruct r0 as [|c l2]; [reflexivity|]. intros H. unfold rf_body.
    destruct (bz c =? c_dot); [reflexivity|]. rewrite H. reflexivity.
  - intros H. unfold rf_body. destruct (bz c0 =? c_dot); [reflexivity|]. rewrite H. reflexivity.
Qed.

(** what follows an 'e'/'E' is not [+-]?digit *)
Definition exp_tail_bad (r : list byte) : Prop :=
  match r with
  | [] => True
  | c1 :: r2 =>
    if (bz c1 =? 43) || (bz c1 =? 45)
    then match r2 with [] => True | c2 :: _ => is_digit c2 = false end
    else is_digit c1 = false
  end.

(** the code after finishUp rejects an exponent marker without exponent digits *)
Lemma finish_bad_exp data neg sd s p c r :
  is_e c = true -> exp_tail_bad r -> rf_ok (rf_finish data neg sd s p (c :: r)) = false.
Proof.
  intros Hc Hr. unfold rf_finish. destruct sd; [|reflexivity]. cbn [negb]. rewrite Hc.
  destruct (match get data (p - 1) with Some b => bz b =? c_dot | None => false end); [reflexivity|].
  destruct r as [|c1 r2]; [reflexivity|].
  unfold exp_tail_bad in Hr. unfold c_plus, c_minus.
  destruct (bz c1 =? 43) eqn:E1.
  - cbn [orb] in Hr. destruct r2 as [|c2 r3]; [reflexivity|]. cbv beta iota zeta. rewrite Hr. reflexivity.
  - destruct (bz c1 =? 45) eqn:E2.
    + cbn [orb] in Hr. destruct r2 as [|c2 r3]; [reflexivity|]. cbv beta iota zeta. rewrite Hr. reflexivity.
    + cbn [orb] in Hr. cbv beta iota zeta. rewrite Hr. reflexivity.
Qed.

(** a literal without exponent followed by e/E and then no [+-]?digit ("1e", "1e+", "1.5e-x"): rejected, where the tokenizer stops before the 'e' *)
Theorem readFloat_bad_exp j c r :
  jn_wf j = true -> j_exp j = None -> is_e_byte c = true -> exp_tail_bad r ->
  rf_ok (readFloat_m (jn_bytes j ++ c :: r)) = false.
Proof.
  intros Hwf Hex Hc Hr. destruct (jn_wf_inv j Hwf) as (Hip & Hfr & _).
  rewrite jn_bytes_eq, Hex. cbn [exppart]. rewrite app_nil_r. rewrite <- !app_assoc.
  rewrite (readFloat_signed (j_neg j) (j_int j) _ Hip).
  assert (Hstop : stop_ok (j_int j) (j_frac j) (c :: r)).
  { unfold stop_ok. unfold is_e_byte in Hc. unfold is_digit.
    assert (bz c = 101 \/ bz c = 69) as Hv.
    { apply orb_true_iff in Hc as [Hc|Hc]; apply Z.eqb_eq in Hc; lia. }
    assert (Hd : (48 <=? bz c) && (bz c <=? 57) = false).
    { apply andb_false_iff. right. apply Z.leb_gt. lia. }
    destruct (j_frac j); [exact Hd|]. split; [lia|]. rewrite Hd. discriminate. }
  destruct (body_scan ((if j_neg j then [B 45] else []) ++ j_int j ++ fracpart (j_frac j) ++ c :: r)
                      (j_neg j) (len (if j_neg j then [B 45] else [])) (j_int j) (j_frac j) (c :: r)
                      Hip (frac_wf_dig _ Hfr) Hstop) as (s & E & _).
  rewrite E. apply finish_bad_exp; assumption.
Qed.

(** reading the byte just after a prefix *)
Lemma get_mid (l : list byte) b t : get (l ++ b :: t) (len l) = Some b.
Proof.
  pose proof (get_last_app l b t) as H. rewrite <- app_assoc in H. cbn [app] in H.
  rewrite len_app, len_cons in H. change (len (@nil byte)) with 0 in H.
  replace (len l + (1 + 0) - 1) with (len l) in H by lia. exact H.
Qed.

(** ParseJSONFloatPrefix: readFloat failed *)
Lemma parse_prefix_fail T data :
  rf_ok (readFloat_m data) = false -> ParseJSONFloatPrefix_m T data = Some (0, 0, Some FpSyntax).
Proof. intros H. unfold ParseJSONFloatPrefix_m. cbv zeta. rewrite H. reflexivity. Qed.

(** ParseJSONFloatPrefix: readFloat stopped just after a '.' *)
Lemma parse_prefix_dot T data :
  0 < rf_p (readFloat_m data) -> get data (rf_p (readFloat_m data) - 1) = Some (B 46) ->
  ParseJSONFloatPrefix_m T data = Some (0, 0, Some FpSyntax).
Proof.
  intros Hp Hg. unfold ParseJSONFloatPrefix_m. cbv zeta.
  destruct (rf_ok (readFloat_m data)); [|reflexivity]. cbn [negb].
  rewrite Hg. apply Z.ltb_lt in Hp. rewrite Hp. reflexivity.
Qed.

(** does the list start with e/E *)
Definition starts_e (l : list byte) : bool := match l with c :: _ => is_e_byte c | [] => false end.

(** an integer literal followed by '.' and no digit ("1.", "1.x", "1.e5"): readFloat consumes the '.' (or fails on ".e"), and ParseJSONFloatPrefix reports a syntax error, where the tokenizer returns the integer *)
Theorem readFloat_trailing_dot j rest :
  jn_wf j = true -> j_frac j = None -> j_exp j = None ->
  match rest with [] => True | c :: _ => is_digit c = false end ->
  let data := jn_bytes j ++ B 46 :: rest in
  let r := readFloat_m data in
  (if starts_e rest then rf_ok r = false
   else rf_ok r = true /\ rf_p r = len (jn_bytes j) + 1) /\
  forall T, ParseJSONFloatPrefix_m T data = Some (0, 0, Some FpSyntax).
Proof.
  intros Hwf Hfr Hex Hrest. destruct (jn_wf_inv j Hwf) as (Hip & _ & _).
  cbv zeta. rewrite jn_bytes_eq, Hfr, Hex. cbn [fracpart exppart]. rewrite !app_nil_r.
  set (pre := if j_neg j then [B 45] else []).
  set (data := (pre ++ j_int j) ++ B 46 :: rest).
  assert (Hdata : data = pre ++ j_int j ++ fracpart (Some []) ++ rest).
  { unfold data. rewrite <- app_assoc. reflexivity. }
  assert (Hstop : stop_ok (j_int j) (Some []) rest).
  { unfold stop_ok. destruct rest; [exact I|exact Hrest]. }
  destruct (body_scan data (j_neg j) (len pre) (j_int j) (Some []) rest Hip eq_refl Hstop)
    as (s & E & _).
  assert (Hr : readFloat_m data = rf_finish data (j_neg j) true s (len pre + len (j_int j) + 1) rest).
  { rewrite Hdata at 1. unfold pre. rewrite (readFloat_signed (j_neg j) (j_int j) _ Hip).
    fold pre. rewrite <- Hdata. exact E. }
  assert (Hg : get data (len pre + len (j_int j) + 1 - 1) = Some (B 46)).
  { replace (len pre + len (j_int j) + 1 - 1) with (len (pre ++ j_int j)) by (rewrite len_app; lia).
    apply get_mid. }
  rewrite Hr.
  pose proof (len_nonneg pre) as Hp0. pose proof (len_nonneg (j_int j)) as Hi0.
  destruct (starts_e rest) eqn:Hse.
  - destruct rest as [|c r1]; [discriminate|]. cbn [starts_e] in Hse.
    assert (Hf : rf_ok (rf_finish data (j_neg j) true s (len pre + len (j_int j) + 1) (c :: r1)) = false).
    { unfold rf_finish. cbn [negb]. rewrite is_e_eq, Hse, Hg.
      replace (bz (B 46) =? c_dot) with true by reflexivity. reflexivity. }
    split; [exact Hf|]. intros T. apply parse_prefix_fail. rewrite Hr. exact Hf.
  - assert (Hrest' : match rest with
                     | [] => True
                     | c :: _ => match @None (bool * esign * list byte) with
                                 | Some _ => is_digit c = false | None => is_e_byte c = false end
                     end).
    { destruct rest; [exact I|exact Hse]. }
    pose proof (finish_spec data (j_neg j) s (len pre + len (j_int j) + 1) None rest I
                            ltac:(intros HH; contradiction) Hrest') as HF.
    cbn [exppart app] in HF. change (len (@nil byte)) with 0 in HF.
    split.
    + rewrite HF. cbn [rf_ok rf_p]. split; [reflexivity|]. rewrite len_app. lia.
    + intros T. apply parse_prefix_dot; rewrite Hr, HF; cbn [rf_p].
      * lia.
      * rewrite Z.add_0_r. exact Hg.
Qed.

(** the documented cases, by computation: "1." "1.x" accepted up to and including the '.', "1.e5" "1e" "1e+" "1.5e-x" "-" ".5" "+1" "" rejected, "01" accepted as the token "0" *)
Example readFloat_strict :
  let rf l := let r := readFloat_m (map B l) in (rf_ok r, rf_p r) in
  rf [49; 46] = (true, 2) /\ rf [49; 46; 120] = (true, 2) /\
  fst (rf [49; 46; 101; 53]) = false /\
  fst (rf [49; 101]) = false /\ fst (rf [49; 101; 43]) = false /\
  fst (rf [49; 46; 53; 101; 45; 120]) = false /\
  rf [48; 49] = (true, 1) /\
  fst (rf [45]) = false /\ fst (rf [46; 53]) = false /\ fst (rf [43; 49]) = false /\ fst (rf []) = false /\
  (forall T, ParseJSONFloatPrefix_m T (map B [49; 46]) = Some (0, 0, Some FpSyntax)) /\
  (forall T, ParseJSONFloatPrefix_m T (map B [49; 46; 120]) = Some (0, 0, Some FpSyntax)).
Proof.
  cbv zeta. repeat split; vm_compute; reflexivity.
Qed.

(** * 10. the second check of ParseJSONFloatPrefix *)

(** a well-formed literal ends with a digit *)
Lemma jn_bytes_ends j : jn_wf j = true -> ends_digit (jn_bytes j).
Proof.
  intros Hwf. destruct (jn_wf_inv j Hwf) as (Hip & Hfr & Hex).
  rewrite jn_bytes_eq. apply ends_digit_app.
  destruct (j_exp j) as [[[cap sg] e]|].
  - destruct Hex as [He Hne]. apply ends_digit_app. apply ends_digit_app. cbn [exppart].
    apply (ends_digit_app [_]). apply ends_digit_app. apply ends_digit_all; assumption.
  - cbn [exppart]. rewrite app_nil_r. apply int_frac_ends; assumption.
Qed.

(** the last byte of a well-formed literal is a digit, hence not '.' *)
Theorem parse_syntax_ok j rest :
  jn_wf j = true ->
  exists b, get (jn_bytes j ++ rest) (len (jn_bytes j) - 1) = Some b /\ is_digit b = true /\ bz b <> 46.
Proof.
  intros Hwf. destruct (ends_digit_get _ rest (jn_bytes_ends j Hwf)) as (b & Hb & Hd).
  exists b. split; [exact Hb|]. split; [exact Hd|]. apply is_digit_range in Hd. lia.
Qed.

(** under the hypotheses of [readFloat_spec], the trailing-'.' test of ParseJSONFloatPrefix is false *)
Theorem parse_second_check j rest :
  jn_wf j = true -> exp_small j -> rest_ok j rest ->
  let data := jn_bytes j ++ rest in
  let n := rf_p (readFloat_m data) in
  (0 <? n) && (match get data (n - 1) with Some b => bz b =? c_dot | None => false end) = false.
Proof.
  intros Hwf Hs Hr. cbv zeta.
  destruct (readFloat_spec j rest Hwf Hs Hr) as (_ & Hp & _). rewrite Hp.
  destruct (parse_syntax_ok j rest Hwf) as (b & Hb & _ & Hb46). rewrite Hb.
  apply andb_false_iff. right. apply Z.eqb_neq. exact Hb46.
Qed.

(** * 11. soundness of the tokenizer *)

(** [span_digits] splits the input into a digit string and the rest *)
Lemma span_digits_spec l : forall d rest,
  span_digits l = (d, rest) -> l = d ++ rest /\ all_digits d = true.
Proof.
  induction l as [|c r IH]; intros d rest H.
  - cbn [span_digits] in H. injection H as <- <-. split; reflexivity.
  - cbn [span_digits] in H. destruct (is_digit c) eqn:Hc.
    + destruct (span_digits r) as [d' rest'] eqn:E. injection H as <- <-.
      destruct (IH d' rest' eq_refl) as [H1 H2]. split.
      * cbn [app]. f_equal. exact H1.
      * rewrite all_digits_cons, Hc, H2. reflexivity.
    + injection H as <- <-. split; reflexivity.
Qed.

(** a byte is determined by its value *)
Lemma bz_inj_B c z : bz c = z -> c = B z.
Proof. intros <-. unfold B. symmetry. apply zb_bz. Qed.

(** [lex_frac] returns a well-formed fraction part that prefixes its input *)
Lemma lex_frac_spec l fr l2 :
  lex_frac l = (fr, l2) ->
  l = fracpart fr ++ l2 /\
  match fr with None => True | Some f => all_digits f && negb (len f =? 0) = true end.
Proof.
  unfold lex_frac. destruct l as [|c r].
  - intros H. injection H as <- <-. split; [reflexivity|exact I].
  - destruct (Z.eqb_spec (bz c) 46) as [E|E].
    + destruct (span_digits r) as [d rest] eqn:Es.
      destruct (span_digits_spec r d rest Es) as [H1 H2].
      destruct d as [|x d].
      * intros H. injection H as <- <-. split; [reflexivity|exact I].
      * intros H. injection H as <- <-. split.
        -- cbn [fracpart]. rewrite <- app_comm_cons. f_equal; [apply bz_inj_B; exact E|exact H1].
        -- rewrite H2. rewrite len_cons.
           replace (1 + len d =? 0) with false
             by (symmetry; apply Z.eqb_neq; pose proof (len_nonneg d); lia).
           reflexivity.
    + intros H. injection H as <- <-. split; [reflexivity|exact I].
Qed.

(** [lex_exp] returns a well-formed exponent part that prefixes its input *)
Lemma lex_exp_spec l ex l3 :
  lex_exp l = (ex, l3) ->
  l = exppart ex ++ l3 /\
  match ex with None => True | Some (_, _, e) => all_digits e && negb (len e =? 0) = true end.
Proof.
  unfold lex_exp. destruct l as [|c r].
  - intros H. injection H as <- <-. split; [reflexivity|exact I].
  - destruct (is_e_byte c) eqn:Hc.
    + assert (Hcap : c = if bz c =? 69 then B 69 else B 101).
      { unfold is_e_byte in Hc. destruct (Z.eqb_spec (bz c) 69) as [E|E].
        - apply bz_inj_B. exact E.
        - destruct (Z.eqb_spec (bz c) 101) as [E'|E']; [|discriminate]. apply bz_inj_B. exact E'. }
      assert (Hsign : exists sg r1, (match r with
                        | c1 :: r' => if bz c1 =? 43 then (EPlus, r') else if bz c1 =? 45 then (EMinus, r') else (ENone, r)
                        | [] => (ENone, r)
                        end) = (sg, r1) /\ r = expsign sg ++ r1).
      { destruct r as [|c1 r'].
        - exists ENone, []. split; reflexivity.
        - destruct (Z.eqb_spec (bz c1) 43) as [E|E].
          + exists EPlus, r'. split; [reflexivity|]. cbn [expsign app]. f_equal. apply bz_inj_B. exact E.
          + destruct (Z.eqb_spec (bz c1) 45) as [E'|E'].
            * exists EMinus, r'. split; [reflexivity|]. cbn [expsign app]. f_equal. apply bz_inj_B. exact E'.
            * exists ENone, (c1 :: r'). split; reflexivity. }
      destruct Hsign as (sg & r1 & -> & Hr).
      destruct (span_digits r1) as [d rest] eqn:Es.
      destruct (span_digits_spec r1 d rest Es) as [H1 H2].
      destruct d as [|x d].
      * intros H. injection H as <- <-. split; [reflexivity|exact I].
      * intros H. injection H as <- <-. split.
        -- cbn [exppart]. rewrite <- app_comm_cons. f_equal; [exact Hcap|].
           rewrite Hr, H1. rewrite app_assoc. reflexivity.
        -- rewrite H2. rewrite len_cons.
           replace (1 + len d =? 0) with false
             by (symmetry; apply Z.eqb_neq; pose proof (len_nonneg d); lia).
           reflexivity.
    + intros H. injection H as <- <-. split; [reflexivity|exact I].
Qed.

(** the tokenizer returns a well-formed literal that is a prefix of the input *)
Theorem jnum_lex_sound data j rest :
  jnum_lex data = Some (j, rest) -> data = jn_bytes j ++ rest /\ jn_wf j = true.
Proof.
  unfold jnum_lex.
  assert (Hs : exists neg l,
             (match data with
              | c :: r => if bz c =? 45 then (true, r) else (false, data)
              | [] => (false, data)
              end) = (neg, l) /\ data = (if neg then [B 45] else []) ++ l).
  { destruct data as [|c r].
    - exists false, []. split; reflexivity.
    - destruct (Z.eqb_spec (bz c) 45) as [E|E].
      + exists true, r. split; [reflexivity|]. cbn [app]. f_equal. apply bz_inj_B. exact E.
      + exists false, (c :: r). split; reflexivity. }
  destruct Hs as (neg & l & -> & Hdata).
  destruct l as [|c r]; [discriminate|].
  destruct (is_digit c) eqn:Hc; [|discriminate].
  assert (Hint : exists ip l1,
             (if bz c =? 48 then ([c], r) else let '(d, rest) := span_digits r in (c :: d, rest)) = (ip, l1)
             /\ c :: r = ip ++ l1 /\ int_wf ip = true).
  { destruct (Z.eqb_spec (bz c) 48) as [E|E].
    - exists [c], r. split; [reflexivity|]. split; [reflexivity|].
      unfold int_wf. rewrite all_digits_cons, Hc. cbn [all_digits forallb andb]. apply orb_true_r.
    - destruct (span_digits r) as [d rest'] eqn:Es.
      destruct (span_digits_spec r d rest' Es) as [H1 H2].
      exists (c :: d), rest'. split; [reflexivity|]. split; [cbn [app]; f_equal; exact H1|].
      unfold int_wf. rewrite all_digits_cons, Hc, H2.
      replace (bz c =? 48) with false by (symmetry; apply Z.eqb_neq; exact E). reflexivity. }
  destruct Hint as (ip & l1 & -> & Hl & Hip).
  destruct (lex_frac l1) as [fr l2] eqn:Ef.
  destruct (lex_exp l2) as [ex l3] eqn:Ee.
  destruct (lex_frac_spec l1 fr l2 Ef) as [Hl1 Hfr].
  destruct (lex_exp_spec l2 ex l3 Ee) as [Hl2 Hex].
  intros H. injection H as <- <-. split.
  - rewrite jn_bytes_eq. cbn [j_neg j_int j_frac j_exp].
    rewrite Hdata, Hl, Hl1, Hl2. rewrite <- !app_assoc. reflexivity.
  - unfold jn_wf. cbn [j_int j_frac j_exp]. rewrite Hip.
    apply andb_true_iff. split.
    + destruct fr as [f|]; [exact Hfr|reflexivity].
    + destruct ex as [[[cap sg] e]|]; [exact Hex|reflexivity].
Qed.

(** [readFloat_spec] applied to the output of the tokenizer *)
Corollary readFloat_lex data j rest :
  jnum_lex data = Some (j, rest) -> exp_small j -> rest_ok j rest ->
  let r := readFloat_m data in
  rf_ok r = true /\ rf_p r = len data - len rest /\ rf_neg r = j_neg j.
Proof.
  intros Hl Hs Hr. destruct (jnum_lex_sound data j rest Hl) as [-> Hwf].
  destruct (readFloat_spec j rest Hwf Hs Hr) as (H1 & H2 & H3 & _).
  cbv zeta. rewrite len_app. split; [exact H1|]. split; [lia|exact H3].
Qed.

Print Assumptions readFloat_spec.
