(** Hand-written, readable SPECIFICATION machines, one per Ragel machine of /repo.

    A specification state is a pair (context, position):
      - the context says which piece of JSON structure is being read (top-level value, strict
        array body, strict object body, fast bracket-matching body, handled array/object, ...);
      - the position says where inside that piece the machine stands (before the first item,
        inside a token, after a value, after a comma, inside a key, before the colon, ...).
    The lexical level is ONE token automaton [tok_step] (JSON strings with escapes, the three
    literals, JSON numbers) shared by every context; the structural glue is [strans].
    A state is presented to the generic run semantics of Machine.v as the number
    [1000 * context + position] ([enc], [dec]).

    The regenerated implementation tables are tied to these machines on every run by the
    certified simulation checker of Sim.v (run/TieSim.v); what Ragel numbers, merges or splits
    does not matter, only the action units per (state, byte) and per eof.  Definitions and two
    coding lemmas only; the language-level theorems are in SpecFacts.v. *)
From Coq Require Import List ZArith Bool.
From Coq Require Import Strings.Byte.
From Rjson Require Import Base Helpers Machine.
Import ListNotations.
Local Open Scope Z_scope.

(** * Bytes *)
Definition ch_quote := 34.   Definition ch_bslash := 92.  Definition ch_slash := 47.
Definition ch_comma := 44.   Definition ch_colon := 58.   Definition ch_minus := 45.
Definition ch_dot := 46.     Definition ch_zero := 48.
Definition ch_lbrack := 91.  Definition ch_rbrack := 93.
Definition ch_lbrace := 123. Definition ch_rbrace := 125.
Definition ch_squote := 39.

Definition is_ctl (b : byte) : bool := bz b <? 32.
Definition is_hex (b : byte) : bool := 0 <=? hexval b.
Definition is_digit19 (b : byte) : bool := (49 <=? bz b) && (bz b <=? 57).
Definition is (c : Z) (b : byte) : bool := bz b =? c.
(** the bytes that may follow a backslash in a JSON string, except 'u' *)
Definition is_simple_escape (b : byte) : bool :=
  let c := bz b in
  (c =? 34) || (c =? 92) || (c =? 47) || (c =? 98) || (c =? 102) || (c =? 110) || (c =? 114) || (c =? 116).

(** * The token automaton *)
Inductive tok :=
(* strings: after the opening quote *)
| TStr                       (* inside the string, not in an escape *)
| TEsc                       (* after a backslash *)
| TU4 | TU3 | TU2 | TU1      (* after \u: 4, 3, 2, 1 hex digits still to come *)
(* literals: the letters read so far *)
| T_t | T_tr | T_tru
| T_f | T_fa | T_fal | T_fals
| T_n | T_nu | T_nul
(* numbers: optional '-', integer part (0, or a non-zero digit and more digits), optional
   fraction ('.' and one or more digits), optional exponent (e or E, optional sign, digits) *)
| TNeg                       (* after '-' *)
| TZero                      (* after the integer part "0"                 (complete) *)
| TInt                       (* inside the integer part [1-9][0-9]*        (complete) *)
| TFrac0                     (* after '.', no digit yet *)
| TFrac                      (* inside the fraction digits                  (complete) *)
| TExp0                      (* after 'e' / 'E' *)
| TExpS                      (* after the exponent sign *)
| TExp.                      (* inside the exponent digits                  (complete) *)

(** what one more byte does to a token *)
Inductive tres :=
| TGo (t : tok)   (* the byte belongs to the token, which goes on *)
| TEnd            (* the byte is the LAST byte of the token (closing quote, last letter) *)
| TStop           (* the token was complete BEFORE this byte; the byte belongs to what follows *)
| TErr.           (* the byte cannot follow here *)

(** for a literal state: the letter expected next and the state after it ([None]: literal complete) *)
Definition lit_next (t : tok) : option (Z * option tok) :=
  match t with
  | T_t => Some (114, Some T_tr) | T_tr => Some (117, Some T_tru) | T_tru => Some (101, None)
  | T_f => Some (97, Some T_fa) | T_fa => Some (108, Some T_fal) | T_fal => Some (115, Some T_fals)
  | T_fals => Some (101, None)
  | T_n => Some (117, Some T_nu) | T_nu => Some (108, Some T_nul) | T_nul => Some (108, None)
  | _ => None
  end.

Definition hex_step (next : tok) (b : byte) : tres := if is_hex b then TGo next else TErr.

Definition tok_step (t : tok) (b : byte) : tres :=
  match t with
  | TStr => if is ch_quote b then TEnd
            else if is ch_bslash b then TGo TEsc
            else if is_ctl b then TErr
            else TGo TStr
  | TEsc => if is_simple_escape b then TGo TStr
            else if is 117 b then TGo TU4
            else TErr
  | TU4 => hex_step TU3 b | TU3 => hex_step TU2 b | TU2 => hex_step TU1 b | TU1 => hex_step TStr b
  | TNeg => if is ch_zero b then TGo TZero else if is_digit19 b then TGo TInt else TErr
  | TZero => if is ch_dot b then TGo TFrac0 else if is_exp b then TGo TExp0 else TStop
  | TInt => if is_digit b then TGo TInt
            else if is ch_dot b then TGo TFrac0 else if is_exp b then TGo TExp0 else TStop
  | TFrac0 => if is_digit b then TGo TFrac else TErr
  | TFrac => if is_digit b then TGo TFrac else if is_exp b then TGo TExp0 else TStop
  | TExp0 => if is_sign b then TGo TExpS else if is_digit b then TGo TExp else TErr
  | TExpS => if is_digit b then TGo TExp else TErr
  | TExp => if is_digit b then TGo TExp else TStop
  | _ => match lit_next t with
         | Some (c, nxt) => if is c b then match nxt with Some t' => TGo t' | None => TEnd end else TErr
         | None => TErr
         end
  end.

(** the token read so far is a complete token (numbers only: the others end with [TEnd]) *)
Definition tok_complete (t : tok) : bool :=
  match t with TZero | TInt | TFrac | TExp => true | _ => false end.

(** the token state after the first byte of a value token *)
Definition tok_first (b : byte) : option tok :=
  if is ch_quote b then Some TStr
  else if is ch_minus b then Some TNeg
  else if is ch_zero b then Some TZero
  else if is_digit19 b then Some TInt
  else if is 116 b then Some T_t
  else if is 102 b then Some T_f
  else if is 110 b then Some T_n
  else None.

(** * Contexts and positions *)
Inductive ctx :=
| CTop           (* skipValue: the top-level value *)
| CFTop          (* skipValueFast: the top-level value *)
| CArr | CObj    (* strict array / object body (sub-machines skip_array, skip_object) *)
| CFArr | CFObj  (* fast bodies: bracket matching that only looks at strings and its own brackets *)
| CHATop | CHOTop(* handleArrayValues / handleObjectValues: before the '[' / '{' (or "null") *)
| CHArr | CHObj  (* the handled array / object: the handler is called at the start of every member value *)
| CNull | CBool. (* readNull, readBool *)

Inductive pos :=
| PStart           (* before the first item: white space, then an item or the closing bracket *)
| PTok (t : tok)   (* inside a value token *)
| PAfter           (* after a value: white space, then ',' or the closing bracket *)
| PNext            (* after ',': white space, then an item *)
| PKey (t : tok)   (* objects: inside the key string *)
| PKeyEnd          (* handled object: just after the key's closing quote *)
| PColon           (* objects: after the key: white space, then ':' *)
| PVal             (* objects: after ':': white space, then a value *)
| PBody            (* fast bodies: between strings *)
| PDone.           (* complete (final): nothing more is read *)

Definition sstate := (ctx * pos)%type.

(** ** coding of states as numbers *)
Definition enc_tok (t : tok) : Z :=
  match t with
  | TStr => 1 | TEsc => 2 | TU4 => 3 | TU3 => 4 | TU2 => 5 | TU1 => 6
  | T_t => 7 | T_tr => 8 | T_tru => 9
  | T_f => 10 | T_fa => 11 | T_fal => 12 | T_fals => 13
  | T_n => 14 | T_nu => 15 | T_nul => 16
  | TNeg => 17 | TZero => 18 | TInt => 19 | TFrac0 => 20 | TFrac => 21
  | TExp0 => 22 | TExpS => 23 | TExp => 24
  end.

Definition dec_tok (z : Z) : option tok :=
  match z with
  | 1 => Some TStr | 2 => Some TEsc | 3 => Some TU4 | 4 => Some TU3 | 5 => Some TU2 | 6 => Some TU1
  | 7 => Some T_t | 8 => Some T_tr | 9 => Some T_tru
  | 10 => Some T_f | 11 => Some T_fa | 12 => Some T_fal | 13 => Some T_fals
  | 14 => Some T_n | 15 => Some T_nu | 16 => Some T_nul
  | 17 => Some TNeg | 18 => Some TZero | 19 => Some TInt | 20 => Some TFrac0 | 21 => Some TFrac
  | 22 => Some TExp0 | 23 => Some TExpS | 24 => Some TExp
  | _ => None
  end.

Definition enc_ctx (c : ctx) : Z :=
  match c with
  | CTop => 1 | CFTop => 2 | CArr => 3 | CObj => 4 | CFArr => 5 | CFObj => 6
  | CHATop => 7 | CHOTop => 8 | CHArr => 9 | CHObj => 10 | CNull => 11 | CBool => 12
  end.

Definition dec_ctx (z : Z) : option ctx :=
  match z with
  | 1 => Some CTop | 2 => Some CFTop | 3 => Some CArr | 4 => Some CObj | 5 => Some CFArr | 6 => Some CFObj
  | 7 => Some CHATop | 8 => Some CHOTop | 9 => Some CHArr | 10 => Some CHObj | 11 => Some CNull | 12 => Some CBool
  | _ => None
  end.

Definition enc_pos (p : pos) : Z :=
  match p with
  | PStart => 1 | PAfter => 2 | PNext => 3 | PKeyEnd => 4 | PColon => 5 | PVal => 6 | PBody => 7 | PDone => 8
  | PTok t => 100 + enc_tok t
  | PKey t => 200 + enc_tok t
  end.

Definition dec_pos (z : Z) : option pos :=
  match z with
  | 1 => Some PStart | 2 => Some PAfter | 3 => Some PNext | 4 => Some PKeyEnd | 5 => Some PColon
  | 6 => Some PVal | 7 => Some PBody | 8 => Some PDone
  | _ => if z <? 200 then option_map PTok (dec_tok (z - 100)) else option_map PKey (dec_tok (z - 200))
  end.

Definition enc (s : sstate) : Z := 1000 * enc_ctx (fst s) + enc_pos (snd s).

Definition dec (z : Z) : option sstate :=
  match dec_ctx (z / 1000), dec_pos (z mod 1000) with
  | Some c, Some p => Some (c, p)
  | _, _ => None
  end.

(** [None] is the error state 0 *)
Definition enc_o (d : option sstate) : Z := match d with Some s => enc s | None => 0 end.

(** * The structural glue *)

(** ** what each context does on an unexpected byte and at an unexpected end of input *)
Definition err_units (c : ctx) : list unit_ :=
  match c with
  | CTop | CFTop => [UReturnErr ENoValidToken]
  | CArr | CFArr => [USetErr EInvalidArray; UBreak 0]
  | CObj | CFObj => [USetErr EInvalidObject; UBreak 0]
  | CHATop | CHArr => [UReturnErr EInvalidArray]
  | CHOTop | CHObj => [UReturnErr EInvalidObject]
  | CNull => [UReturnErr ENotNull]
  | CBool => [UReturnErr ENotBool]
  end.

Definition eof_units (c : ctx) : list unit_ :=
  match c with
  | CArr | CFArr => [USetErr EUnexpectedEOF; UBreak 0; USetErr EInvalidArray; UBreak 0]
  | CObj | CFObj => [USetErr EUnexpectedEOF; UBreak 0; USetErr EInvalidObject; UBreak 0]
  | _ => err_units c
  end.

Definition fail (c : ctx) : list unit_ * option sstate := (err_units c, None).

(** ** shape of the contexts *)
(** the position after a complete value *)
Definition after (c : ctx) : pos :=
  match c with
  | CTop | CFTop | CHATop | CHOTop | CNull | CBool => PDone
  | CFArr | CFObj => PBody
  | _ => PAfter
  end.

(** the closing bracket of a container context *)
Definition closer (c : ctx) : Z :=
  match c with
  | CArr | CFArr | CHArr => ch_rbrack
  | _ => ch_rbrace
  end.

(** sub-machine bodies return to their caller on the closing bracket; the handled
    array / object is the main machine and just finishes *)
Definition close_units (c : ctx) : list unit_ :=
  match c with CHArr | CHObj => [] | _ => [URet] end.

(** members of objects are key : value, members of arrays are values *)
Definition is_objctx (c : ctx) : bool :=
  match c with CObj | CHObj => true | _ => false end.

(** number tails: the strict machines hand "." and "e" to the scanners skipFloatDec /
    skipFloatExp; skipValueFast and the values handed to handlers use the plain automaton *)
Definition scans (c : ctx) : bool :=
  match c with CTop | CArr | CObj => true | _ => false end.

(** nested containers are skipped by the strict bodies, except in skipValueFast *)
Definition sub_arr (c : ctx) : ctx := match c with CFTop => CFArr | _ => CArr end.
Definition sub_obj (c : ctx) : ctx := match c with CFTop => CFObj | _ => CObj end.
Definition body_start (c : ctx) : pos := match c with CFArr | CFObj => PBody | _ => PStart end.

(** the handler call at the first byte of a member value of the handled array / object:
    strings and containers may be consumed by the handler ([full]: the returned offset is
    used), scalars are only announced *)
Definition handler_units (c : ctx) (full : bool) : list unit_ :=
  match c with
  | CHArr | CHObj =>
    let o := is_objctx c in
    if full then [UHandle o true; UHandlerErrRet true; UPPNeg 0; UPPJump true 0]
    else [UHandle o false; UHandlerErrRet false]
  | _ => []
  end.

(** ** the first byte of a value in context [c] ([chk]: nested containers count against the
    depth limit).  A nested container is a call of the body sub-machine that returns to the
    after-value position of [c]. *)
Definition value_start (chk : bool) (c : ctx) (b : byte) : list unit_ * option sstate :=
  let call (sub : ctx) :=
      (handler_units c true ++ [UCall chk 0 (enc (c, after c)) (enc (sub, body_start sub))],
       Some (c, after c)) in
  if is ch_lbrack b then call (sub_arr c)
  else if is ch_lbrace b then call (sub_obj c)
  else match tok_first b with
       | Some t => (handler_units c (is ch_quote b), Some (c, PTok t))
       | None => fail c
       end.

(** ** inside a token *)
(** units on the last byte of a token: readBool records the value *)
Definition end_units (c : ctx) (t : tok) : list unit_ :=
  match c, t with
  | CBool, T_tru => [USetVal true]
  | CBool, T_fals => [USetVal false]
  | _, _ => []
  end.

(** ** the transition function *)
(** between tokens: everything but the inside of a value token or key *)
Definition struct_step (chk : bool) (c : ctx) (p : pos) (b : byte) : list unit_ * option sstate :=
  match p with
  | PDone => ([], None)                        (* final: silent stop *)
  | PStart =>
    if is_ws b then ([], Some (c, PStart)) else
    match c with
    | CTop | CFTop => value_start chk c b
    | CArr | CHArr =>
      if is (closer c) b then (close_units c, Some (c, PDone)) else value_start chk c b
    | CObj | CHObj =>
      if is (closer c) b then (close_units c, Some (c, PDone))
      else if is ch_quote b then (match c with CHObj => [UFieldStart] | _ => [] end, Some (c, PKey TStr))
      else fail c
    | CHATop =>
      if is ch_lbrack b then ([], Some (CHArr, PStart))
      else if is 110 b then ([], Some (c, PTok T_n)) else fail c
    | CHOTop =>
      if is ch_lbrace b then ([], Some (CHObj, PStart))
      else if is 110 b then ([], Some (c, PTok T_n)) else fail c
    | CNull => if is 110 b then ([], Some (c, PTok T_n)) else fail c
    | CBool => if is 116 b then ([], Some (c, PTok T_t))
               else if is 102 b then ([], Some (c, PTok T_f)) else fail c
    | CFArr | CFObj => fail c
    end
  | PAfter =>
    if is_ws b then ([], Some (c, PAfter))
    else if is ch_comma b then ([], Some (c, PNext))
    else if is (closer c) b then (close_units c, Some (c, PDone))
    else fail c
  | PNext =>
    if is_ws b then ([], Some (c, PNext))
    else if is_objctx c then
      if is ch_quote b then (match c with CHObj => [UFieldStart] | _ => [] end, Some (c, PKey TStr))
      else fail c
    else value_start chk c b
  | PKeyEnd =>
    if is_ws b then ([UFieldEnd], Some (c, PColon))
    else if is ch_colon b then ([UFieldEnd], Some (c, PVal))
    else fail c
  | PColon =>
    if is_ws b then ([], Some (c, PColon))
    else if is ch_colon b then ([], Some (c, PVal))
    else fail c
  | PVal =>
    if is_ws b then ([], Some (c, PVal)) else value_start chk c b
  | PBody =>                                    (* CFArr, CFObj: only strings and the own brackets matter *)
    if is ch_quote b then ([], Some (c, PTok TStr))
    else if is (closer c) b then ([URet], Some (c, PDone))
    else if is (match c with CFArr => ch_lbrack | _ => ch_lbrace end) b
    then ([UCall chk 0 (enc (c, PBody)) (enc (c, PBody))], Some (c, PBody))
    else ([], Some (c, PBody))
  | PTok _ | PKey _ => fail c                   (* not used: see [strans] *)
  end.

Definition in_intpart (t : tok) : bool := match t with TZero | TInt => true | _ => false end.

Definition strans (chk : bool) (s : sstate) (b : byte) : list unit_ * option sstate :=
  let '(c, p) := s in
  match p with
  | PTok t =>
    if scans c && in_intpart t && is ch_dot b then ([UScanDec; UBreakIfErr 0], Some (c, after c))
    else if scans c && in_intpart t && is_exp b then ([UScanExp; UBreakIfErr 0], Some (c, after c))
    else
    match tok_step t b with
    | TGo t' => ([], Some (c, PTok t'))
    | TEnd => (end_units c t, Some (c, after c))
    | TStop => struct_step chk c (after c) b   (* the byte is read in the after-value position *)
    | TErr => fail c
    end
  | PKey t =>
    match tok_step t b with
    | TGo t' => ([], Some (c, PKey t'))
    | TEnd => ([], Some (c, match c with CHObj => PKeyEnd | _ => PColon end))
    | _ => fail c
    end
  | _ => struct_step chk c p b
  end.

(** ** end of input *)
Definition seof (s : sstate) : list unit_ :=
  let '(c, p) := s in
  match p with
  | PDone => []
  | PTok t => if tok_complete t then match after c with PDone => [] | _ => eof_units c end else eof_units c
  | _ => eof_units c
  end.

(** * The machines *)
Definition spec_machine (chk : bool) (start : sstate) : machine :=
  {| m_start := enc start;
     m_trans := fun z b =>
       match dec z with
       | Some s => let '(us, d) := strans chk s b in (us, enc_o d)
       | None => ([UUnknown], 0)
       end;
     m_eof := fun z => match dec z with Some s => seof s | None => [] end;
     m_is_state := fun z => (z =? 0) || match dec z with Some _ => true | None => false end |}.

Definition skip_spec : machine := spec_machine true (CTop, PStart).          (* skipValue *)
Definition skipfast_spec : machine := spec_machine true (CFTop, PStart).     (* skipValueFast *)
Definition harr_spec : machine := spec_machine false (CHATop, PStart).       (* handleArrayValues *)
Definition hobj_spec : machine := spec_machine false (CHOTop, PStart).       (* handleObjectValues *)
Definition null_spec : machine := spec_machine false (CNull, PStart).        (* readNull *)
Definition bool_spec : machine := spec_machine false (CBool, PStart).        (* readBool *)

(** * The two escape-resolving machines
    [rem = true]: appendRemainderOfString (string content up to and including the closing
    quote); [rem = false]: unescapeStringContent (content only, stops silently at a quote or
    a control byte, also accepts \').  Plain bytes are appended one at a time: entering a
    plain byte records the segment start, leaving it appends the segment. *)
Inductive epos :=
| EStart          (* at the beginning or after a complete escape *)
| EPlain          (* after a plain byte (a segment is open) *)
| EEsc            (* after a backslash *)
| EU4 | EU3 | EU2 | EU1   (* after \u: hex digits still to come *)
| EDone.          (* appendRemainderOfString: after the closing quote *)

Definition enc_e (e : epos) : Z :=
  match e with EStart => 1 | EPlain => 2 | EEsc => 3 | EU4 => 4 | EU3 => 5 | EU2 => 6 | EU1 => 7 | EDone => 8 end.
Definition dec_e (z : Z) : option epos :=
  match z with
  | 1 => Some EStart | 2 => Some EPlain | 3 => Some EEsc | 4 => Some EU4 | 5 => Some EU3
  | 6 => Some EU2 | 7 => Some EU1 | 8 => Some EDone | _ => None
  end.
Definition enc_eo (d : option epos) : Z := match d with Some e => enc_e e | None => 0 end.

(** the byte appended for a one-letter escape *)
Definition escape_byte (rem : bool) (b : byte) : option Z :=
  let c := bz b in
  if c =? 34 then Some 34 else if c =? 92 then Some 92 else if c =? 47 then Some 47
  else if c =? 98 then Some 8 else if c =? 102 then Some 12 else if c =? 110 then Some 10
  else if c =? 114 then Some 13 else if c =? 116 then Some 9
  else if negb rem && (c =? ch_squote) then Some ch_squote
  else None.

Definition etrans (rem : bool) (e : epos) (b : byte) : list unit_ * option epos :=
  let bad := if rem then ([UReturnErr EInvalidString], None) else ([], None) in
  let hex (next : epos) (us : list unit_) :=
      if is_hex b then (us, Some next) else ([UReturnErr EInvalidString], None) in
  (* leaving a plain byte closes the open segment *)
  let close := match e with EPlain => [UAppendSeg] | _ => [] end in
  match e with
  | EStart | EPlain =>
    if is ch_bslash b then (close ++ [USegStart], Some EEsc)
    else if is ch_quote b then (if rem then (close, Some EDone) else ([], None))
    else if is_ctl b then bad
    else (close ++ [USegStart], Some EPlain)
  | EEsc =>
    match escape_byte rem b with
    | Some x => ([UAppendByte x], Some EStart)
    | None => if is 117 b then ([], Some EU4) else ([UReturnErr EInvalidString], None)
    end
  | EU4 => hex EU3 [] | EU3 => hex EU2 [] | EU2 => hex EU1 []
  | EU1 => hex EStart [UUnescapeU; UNotOkRet; UAdvanceU]
  | EDone => ([], None)
  end.

Definition eeof (rem : bool) (e : epos) : list unit_ :=
  match e with
  | EDone => []
  | EStart => if rem then [UReturnErr EInvalidString] else []
  | EPlain => if rem then [UReturnErr EInvalidString] else [UAppendSeg]
  | _ => [UReturnErr EInvalidString]
  end.

Definition esc_machine (rem : bool) : machine :=
  {| m_start := enc_e EStart;
     m_trans := fun z b =>
       match dec_e z with
       | Some e => let '(us, d) := etrans rem e b in (us, enc_eo d)
       | None => ([UUnknown], 0)
       end;
     m_eof := fun z => match dec_e z with Some e => eeof rem e | None => [] end;
     m_is_state := fun z => (z =? 0) || match dec_e z with Some _ => true | None => false end |}.

Definition append_spec : machine := esc_machine true.       (* appendRemainderOfString *)
Definition unescape_spec : machine := esc_machine false.    (* unescapeStringContent *)

(** * skipStringFast (dead code in /repo): a quote, then any bytes where a backslash
    protects the byte after it, up to the next unprotected quote *)
Inductive fpos := FOpen | FIn | FEsc | FDone.
Definition enc_f (f : fpos) : Z := match f with FOpen => 1 | FIn => 2 | FEsc => 3 | FDone => 4 end.
Definition dec_f (z : Z) : option fpos :=
  match z with 1 => Some FOpen | 2 => Some FIn | 3 => Some FEsc | 4 => Some FDone | _ => None end.
Definition ftrans (f : fpos) (b : byte) : list unit_ * Z :=
  match f with
  | FOpen => if is ch_quote b then ([], enc_f FIn) else ([USetErr EInvalidString], 0)
  | FIn => if is ch_quote b then ([], enc_f FDone)
           else if is ch_bslash b then ([], enc_f FEsc) else ([], enc_f FIn)
  | FEsc => ([], enc_f FIn)
  | FDone => ([], 0)
  end.
Definition skipstring_spec : machine :=
  {| m_start := enc_f FOpen;
     m_trans := fun z b => match dec_f z with Some f => ftrans f b | None => ([UUnknown], 0) end;
     m_eof := fun z => match dec_f z with Some FDone | None => [] | Some _ => [USetErr EInvalidString] end;
     m_is_state := fun z => (z =? 0) || match dec_f z with Some _ => true | None => false end |}.

(** * Coding lemmas *)
Lemma dec_enc : forall s, dec (enc s) = Some s.
Proof. intros [c p]. destruct c; destruct p as [|t| | |t| | | | |]; try destruct t; reflexivity. Qed.

Lemma enc_nonzero : forall s, enc s <> 0.
Proof. intros [c p]. destruct c; destruct p as [|t| | |t| | | | |]; try destruct t; discriminate. Qed.

Lemma dec_e_enc : forall e, dec_e (enc_e e) = Some e.
Proof. destruct e; reflexivity. Qed.
