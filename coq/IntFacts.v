(** Exactness of the integer readers (property C05): the hand model of
    ReadUint64/ReadUint32/ReadUint/ReadInt64/ReadInt32/ReadInt (Api.v) agrees with the
    loop-free specification of IntSpec.v on every input: value, offset, and error/no error. *)
From Coq Require Import List ZArith Bool Lia.
From Coq Require Import Strings.Byte.
From Rjson Require Import Base BaseFacts Helpers Api IntSpec.
Import ListNotations.
Local Open Scope Z_scope.

(** * small list / byte-class lemmas *)

Lemma is_digit_range : forall c, is_digit c = true -> 0 <= bz c - 48 <= 9.
Proof. intros c. unfold is_digit. rewrite andb_true_iff, !Z.leb_le. lia. Qed.

Lemma is_ws_not_digit : forall c, is_ws c = true -> (bz c =? 48) = false /\ is_digit c = false.
Proof.
  intros c. unfold is_ws, is_digit. rewrite !orb_true_iff, !Z.eqb_eq. intro H.
  split.
  - apply Z.eqb_neq. lia.
  - apply andb_false_iff. rewrite Z.leb_gt. lia.
Qed.

Lemma cw_le : forall f l, (count_while f l <= length l)%nat.
Proof. induction l as [|a l IH]; cbn [count_while length]; [lia|]. destruct (f a); lia. Qed.

Lemma skipn_cw_head : forall f l c r, skipn (count_while f l) l = c :: r -> f c = false.
Proof.
  induction l as [|a l IH]; intros c r; cbn [count_while].
  - discriminate.
  - destruct (f a) eqn:E; cbn [skipn].
    + apply IH.
    + intro H. inversion H; subst. exact E.
Qed.

Lemma cw_head_false : forall f c r, f c = false -> count_while f (c :: r) = 0%nat.
Proof. intros f c r H. cbn [count_while]. rewrite H. reflexivity. Qed.

Lemma len_firstn_cw : forall f l, len (firstn (count_while f l) l) = Z.of_nat (count_while f l).
Proof. intros. unfold len. rewrite firstn_length_le by apply cw_le. reflexivity. Qed.

Lemma len_skipn_cw : forall f l, len l = Z.of_nat (count_while f l) + len (skipn (count_while f l) l).
Proof.
  intros. unfold len. rewrite skipn_length. pose proof (cw_le f l). lia.
Qed.

(** * the digit run at the head of a list *)

Definition drun (l : list byte) (acc : Z) : Z :=
  digits_value (firstn (count_while is_digit l) l) acc.
Definition drest (l : list byte) : list byte := skipn (count_while is_digit l) l.
Definition dcnt (l : list byte) : Z := Z.of_nat (count_while is_digit l).

Lemma drun_nil : forall acc, drun [] acc = acc.
Proof. reflexivity. Qed.

Lemma drun_digit : forall c r acc, is_digit c = true ->
  drun (c :: r) acc = drun r (acc * 10 + (bz c - 48)).
Proof. intros. unfold drun. cbn [count_while]. rewrite H. reflexivity. Qed.

Lemma drun_nondigit : forall c r acc, is_digit c = false -> drun (c :: r) acc = acc.
Proof. intros. unfold drun. cbn [count_while]. rewrite H. reflexivity. Qed.

Lemma drest_digit : forall c r, is_digit c = true -> drest (c :: r) = drest r.
Proof. intros. unfold drest. cbn [count_while]. rewrite H. reflexivity. Qed.

Lemma drest_nondigit : forall c r, is_digit c = false -> drest (c :: r) = c :: r.
Proof. intros. unfold drest. cbn [count_while]. rewrite H. reflexivity. Qed.

Lemma dcnt_digit : forall c r, is_digit c = true -> dcnt (c :: r) = 1 + dcnt r.
Proof. intros. unfold dcnt. cbn [count_while]. rewrite H. lia. Qed.

Lemma dcnt_nondigit : forall c r, is_digit c = false -> dcnt (c :: r) = 0.
Proof. intros. unfold dcnt. cbn [count_while]. rewrite H. reflexivity. Qed.

Lemma dcnt_nonneg : forall l, 0 <= dcnt l.
Proof. intros. unfold dcnt. lia. Qed.

Lemma dcnt_zero : forall l v, dcnt l = 0 -> drun l v = v /\ drest l = l.
Proof.
  intros l v H. unfold dcnt in H. assert (count_while is_digit l = 0%nat) as E by lia.
  unfold drun, drest. rewrite E. split; reflexivity.
Qed.

(** the value of a digit run never decreases the accumulator *)
Lemma drun_ge : forall l acc, 0 <= acc -> acc <= drun l acc.
Proof.
  induction l as [|c r IH]; intros acc H.
  - rewrite drun_nil. lia.
  - destruct (is_digit c) eqn:E.
    + rewrite drun_digit by assumption. pose proof (is_digit_range c E).
      specialize (IH (acc * 10 + (bz c - 48))). lia.
    + rewrite drun_nondigit by assumption. lia.
Qed.

(** * the two loops *)

(** first loop: consumes min(k, run length) digits exactly *)
Lemma uloop1_spec : forall k l val cnt l1 v1 c1,
  uloop1 l k val cnt = (l1, v1, c1) ->
  drun l1 v1 = drun l val /\ drest l1 = drest l /\ c1 + dcnt l1 = cnt + dcnt l /\
  cnt <= c1 <= cnt + Z.of_nat k /\
  (c1 < cnt + Z.of_nat k -> dcnt l1 = 0) /\
  (0 <= val -> 0 <= v1 < (val + 1) * 10 ^ Z.of_nat k).
Proof.
  induction k as [|k IH]; intros l val cnt l1 v1 c1 H.
  - destruct l; cbn [uloop1] in H; inversion H; subst;
    change (10 ^ Z.of_nat 0) with 1; repeat split; lia.
  - assert (0 < 10 ^ Z.of_nat k) as Hp by (apply Z.pow_pos_nonneg; lia).
    assert (10 ^ Z.of_nat (S k) = 10 * 10 ^ Z.of_nat k) as Hs
      by (rewrite Nat2Z.inj_succ, Z.pow_succ_r by lia; reflexivity).
    destruct l as [|c r].
    + cbn [uloop1] in H. inversion H; subst. repeat split; try lia.
      rewrite Hs. nia.
    + cbn [uloop1] in H. destruct (is_digit c) eqn:E.
      * apply IH in H. destruct H as (Hv & Hr & Hc & Hb & Hz & Hbd).
        pose proof (is_digit_range c E) as Hd.
        rewrite drun_digit, drest_digit, dcnt_digit by assumption.
        repeat split; try assumption; try lia.
        specialize (Hbd ltac:(lia)). rewrite Hs. nia.
      * inversion H; subst.
        repeat split; try lia; try (intros _; apply dcnt_nondigit; assumption).
        rewrite Hs. nia.
Qed.

(** second loop: from an exact, in-range accumulator, either finishes the run with the exact
    value (still < 2^64) or reports a range error, the latter exactly when the exact value
    of the whole run is >= 2^64 *)
Lemma uloop2_spec : forall l val cnt, 0 <= val < two64 ->
  match uloop2 l val cnt with
  | inl (l2, v2, c2) =>
      l2 = drest l /\ v2 = drun l val /\ c2 = cnt + dcnt l /\ 0 <= v2 < two64
  | inr _ => two64 <= drun l val
  end.
Proof.
  induction l as [|c r IH]; intros val cnt H.
  - cbn [uloop2]. rewrite drun_nil. repeat split; try lia. unfold dcnt. cbn. lia.
  - cbn [uloop2]. destruct (is_digit c) eqn:E.
    + pose proof (is_digit_range c E) as Hd.
      rewrite drun_digit, drest_digit, dcnt_digit by assumption.
      pose proof (drun_ge r (val * 10 + (bz c - 48)) ltac:(lia)) as Hge.
      destruct (val >? u64_cutoff) eqn:G.
      * apply Z.gtb_lt in G. unfold two64, u64_cutoff in *. lia.
      * rewrite Z.gtb_ltb in G. apply Z.ltb_ge in G. cbv zeta.
        destruct (Z_lt_le_dec (val * 10 + (bz c - 48)) two64) as [Hlt|Hle].
        -- rewrite Z.mod_small by lia.
           destruct (val * 10 + (bz c - 48) <? val) eqn:G2.
           ++ apply Z.ltb_lt in G2. lia.
           ++ specialize (IH (val * 10 + (bz c - 48)) (cnt + 1) ltac:(lia)).
              destruct (uloop2 r (val * 10 + (bz c - 48)) (cnt + 1)) as [[[l2 v2] c2]|cx].
              ** destruct IH as (? & ? & ? & ?). repeat split; try assumption; lia.
              ** assumption.
        -- assert ((val * 10 + (bz c - 48)) mod two64 = val * 10 + (bz c - 48) - two64) as Hm.
           { symmetry. apply Zmod_unique with 1; unfold two64, u64_cutoff in *; lia. }
           rewrite Hm.
           destruct (val * 10 + (bz c - 48) - two64 <? val) eqn:G2.
           ++ lia.
           ++ apply Z.ltb_ge in G2. unfold two64, u64_cutoff in *. lia.
    + rewrite drun_nondigit, drest_nondigit, dcnt_nondigit by assumption.
      repeat split; lia.
Qed.

(** * ReadUint64 *)

Lemma uint_spec_digit : forall bound data c r,
  skipn (count_while is_ws data) data = c :: r -> (bz c =? 48) = false -> is_digit c = true ->
  uint_spec bound data =
    if starts_frac (drest (c :: r)) then None
    else if drun (c :: r) 0 <? bound
         then Some (drun (c :: r) 0, Z.of_nat (count_while is_ws data) + dcnt (c :: r))
         else None.
Proof.
  intros bound data c r Hs E0 Ed. unfold uint_spec. rewrite Hs. cbn [uint_token].
  rewrite E0, Ed. cbv zeta. rewrite len_firstn_cw. reflexivity.
Qed.

Lemma fin_ok : forall (p : Z) (l : list byte) (v cnt : Z), 1 <= cnt ->
  ok_proj (if cnt =? 0 then (0, p + cnt, Some EInvalidUInt)
           else match l with
                | [] => (v, p + cnt, None)
                | d :: _ => if is_frac_start d then (0, p + cnt, Some EInvalidUInt)
                            else (v, p + cnt, None)
                end)
  = if starts_frac l then None else Some (v, p + cnt).
Proof.
  intros p l v cnt H. destruct (cnt =? 0) eqn:E; [apply Z.eqb_eq in E; lia|].
  destruct l as [|d t]; cbn [starts_frac]; [reflexivity|].
  destruct (is_frac_start d); reflexivity.
Qed.

Theorem read_uint64_exact : forall data, ok_proj (ReadUint64 data) = uint_spec two64 data.
Proof.
  intro data. unfold ReadUint64, countWhitespace. rewrite Nat2Z.id.
  destruct (skipn (count_while is_ws data) data) as [|c r] eqn:Hs.
  - unfold uint_spec. rewrite Hs. reflexivity.
  - destruct (bz c =? 48) eqn:E0.
    + unfold uint_spec. rewrite Hs. cbn [uint_token]. rewrite E0.
      apply Z.eqb_eq in E0. cbn [digits_value]. rewrite E0.
      destruct r as [|d t]; cbn [starts_frac]; [reflexivity|].
      destruct (is_frac_start d); reflexivity.
    + destruct (is_digit c) eqn:Ed.
      2:{ unfold uint_spec. rewrite Hs. cbn [uint_token uloop1]. rewrite E0, Ed. reflexivity. }
      rewrite (uint_spec_digit two64 data c r Hs E0 Ed).
      destruct (uloop1 (c :: r) 18 0 0) as [[l1 v1] c1] eqn:H1.
      apply uloop1_spec in H1. destruct H1 as (Hv & Hr & Hc & Hb & Hz & Hbd).
      specialize (Hbd ltac:(lia)).
      change (10 ^ Z.of_nat 18) with 1000000000000000000 in Hbd.
      change (Z.of_nat 18) with 18 in *.
      pose proof (dcnt_digit c r Ed) as Hn. pose proof (dcnt_nonneg r) as Hn'.
      pose proof (dcnt_nonneg l1) as Hn1.
      cbv beta zeta.
      destruct (c1 =? 18) eqn:E18.
      * apply Z.eqb_eq in E18.
        pose proof (uloop2_spec l1 v1 c1 ltac:(unfold two64; lia)) as H2.
        destruct (uloop2 l1 v1 c1) as [[[l2 v2] c2]|cx].
        -- destruct H2 as (-> & -> & -> & Hr2). rewrite Hv, Hr in *.
           rewrite fin_ok by lia.
           destruct (starts_frac (drest (c :: r))); [reflexivity|].
           rewrite (proj2 (Z.ltb_lt _ _)) by lia.
           do 2 f_equal. lia.
        -- rewrite Hv in H2. cbn [ok_proj].
           destruct (starts_frac (drest (c :: r))); [reflexivity|].
           rewrite (proj2 (Z.ltb_ge _ _)) by lia. reflexivity.
      * apply Z.eqb_neq in E18.
        destruct (dcnt_zero l1 v1 (Hz ltac:(lia))) as (Hv1 & Hr1).
        rewrite Hv1 in Hv. rewrite Hr1 in Hr. subst l1 v1.
        rewrite fin_ok by lia.
        destruct (starts_frac (drest (c :: r))); [reflexivity|].
        rewrite (proj2 (Z.ltb_lt _ _)) by (unfold two64; lia).
        do 2 f_equal. lia.
Qed.

Theorem read_uint_exact : forall data, ok_proj (ReadUint data) = uint_spec two64 data.
Proof. exact read_uint64_exact. Qed.

(** * facts about the token of the specification *)

Lemma digits_value_digits_nonneg : forall l acc, 0 <= acc -> 0 <= drun l acc.
Proof. intros l acc H. pose proof (drun_ge l acc H). lia. Qed.

Lemma uint_token_facts : forall l ds rest, uint_token l = Some (ds, rest) ->
  ds ++ rest = l /\ 0 <= digits_value ds 0 /\ 1 <= len ds.
Proof.
  intros l ds rest H. destruct l as [|c r]; [discriminate|]. cbn [uint_token] in H.
  destruct (bz c =? 48) eqn:E0.
  - inversion H; subst. apply Z.eqb_eq in E0. cbn [digits_value]. rewrite E0.
    repeat split; cbn; lia.
  - destruct (is_digit c) eqn:Ed; [|discriminate]. cbv zeta in H. inversion H; subst.
    split; [apply firstn_skipn|]. split.
    + apply (digits_value_digits_nonneg (c :: r) 0). lia.
    + change (1 <= len (firstn (count_while is_digit (c :: r)) (c :: r))).
      rewrite len_firstn_cw. cbn [count_while]. rewrite Ed. lia.
Qed.

Lemma uint_token_ws : forall d t, is_ws d = true -> uint_token (d :: t) = None.
Proof.
  intros d t H. destruct (is_ws_not_digit d H) as (E0 & Ed).
  cbn [uint_token]. rewrite E0, Ed. reflexivity.
Qed.

(** the unsigned spec for a narrower bound, from the 64-bit one *)
Lemma uint_spec_narrow : forall b data, b <= two64 ->
  uint_spec b data =
    match uint_spec two64 data with
    | Some (v, p) => if v <? b then Some (v, p) else None
    | None => None
    end.
Proof.
  intros b data Hb. unfold uint_spec.
  destruct (uint_token (skipn (count_while is_ws data) data)) as [[ds rest]|]; [|reflexivity].
  destruct (starts_frac rest); [reflexivity|]. cbv zeta.
  destruct (Z.ltb_spec (digits_value ds 0) two64) as [H1|H1].
  - reflexivity.
  - destruct (Z.ltb_spec (digits_value ds 0) b); [lia|reflexivity].
Qed.

Theorem read_uint32_exact : forall data, ok_proj (ReadUint32 data) = uint_spec 4294967296 data.
Proof.
  intro data. rewrite uint_spec_narrow by (unfold two64; lia).
  rewrite <- read_uint64_exact. unfold ReadUint32.
  destruct (ReadUint64 data) as [[v p] [e|]]; cbn [ok_proj]; [reflexivity|].
  rewrite Z.gtb_ltb.
  destruct (Z.ltb_spec 4294967295 v), (Z.ltb_spec v 4294967296); try lia; reflexivity.
Qed.

(** * ReadInt64 *)

Lemma uint_spec_nows : forall bound body, count_while is_ws body = 0%nat ->
  uint_spec bound body =
    match uint_token body with
    | None => None
    | Some (ds, rest) =>
      if starts_frac rest then None
      else if digits_value ds 0 <? bound then Some (digits_value ds 0, len ds) else None
    end.
Proof.
  intros bound body H. unfold uint_spec. rewrite H. cbn [skipn].
  destruct (uint_token body) as [[ds rest]|]; [|reflexivity].
  destruct (starts_frac rest); [reflexivity|]. cbv zeta.
  change (Z.of_nat 0) with 0. rewrite Z.add_0_l. reflexivity.
Qed.

Lemma int_core : forall body (neg : bool) (p1 : Z), count_while is_ws body = 0%nat ->
  ok_proj (let '(u, pp, e) := ReadUint64 body in
           let p2 := p1 + pp in
           match e with
           | Some _ => (0, p2, e)
           | None =>
             if neg then
               if u >? two63 then (0, p2, Some EOther) else (wrap64 (- u), p2, None)
             else
               if u >=? two63 then (0, p2, Some EOther) else (u, p2, None)
           end)
  = match uint_token body with
    | None => None
    | Some (ds, rest) =>
      if starts_frac rest then None
      else
        let v := if neg then - digits_value ds 0 else digits_value ds 0 in
        if (- two63 <=? v) && (v <=? two63 - 1) then Some (v, p1 + len ds) else None
    end.
Proof.
  intros body neg p1 Hw.
  pose proof (read_uint64_exact body) as HU. rewrite (uint_spec_nows _ _ Hw) in HU.
  destruct (ReadUint64 body) as [[u pp] [e|]]; cbn [ok_proj] in HU; cbv zeta;
    destruct (uint_token body) as [[ds rest]|] eqn:Ht; try discriminate; try reflexivity.
  - (* unsigned reader failed *)
    cbn [ok_proj].
    destruct (starts_frac rest); [reflexivity|].
    destruct (Z.ltb_spec (digits_value ds 0) two64) as [H1|H1]; [discriminate|].
    destruct neg;
      destruct (Z.leb_spec (- two63) (- digits_value ds 0)),
               (Z.leb_spec (- digits_value ds 0) (two63 - 1)),
               (Z.leb_spec (- two63) (digits_value ds 0)),
               (Z.leb_spec (digits_value ds 0) (two63 - 1));
      cbn [andb]; try reflexivity; unfold two63, two64 in *; lia.
  - (* unsigned reader succeeded *)
    destruct (uint_token_facts _ _ _ Ht) as (_ & Hnn & _).
    destruct (starts_frac rest); [discriminate|].
    destruct (Z.ltb_spec (digits_value ds 0) two64) as [H1|H1]; [|discriminate].
    inversion HU; subst u pp. clear HU.
    set (dv := digits_value ds 0) in *.
    rewrite Z.gtb_ltb, Z.geb_leb.
    destruct neg.
    + destruct (Z.ltb_spec two63 dv);
        destruct (Z.leb_spec (- two63) (- dv)), (Z.leb_spec (- dv) (two63 - 1));
        cbn [andb ok_proj]; try reflexivity; try (unfold two63, two64 in *; lia).
      rewrite wrap64_id by (unfold two63 in *; lia). reflexivity.
    + destruct (Z.leb_spec two63 dv);
        destruct (Z.leb_spec (- two63) dv), (Z.leb_spec dv (two63 - 1));
        cbn [andb ok_proj]; try reflexivity; unfold two63, two64 in *; lia.
Qed.

Theorem read_int64_exact : forall data,
  ok_proj (ReadInt64 data) = int_spec (- two63) (two63 - 1) data.
Proof.
  intro data. unfold ReadInt64, int_spec, countWhitespace. rewrite Nat2Z.id.
  destruct (skipn (count_while is_ws data) data) as [|c r] eqn:Hs; [reflexivity|].
  pose proof (skipn_cw_head _ _ _ _ Hs) as Hc.
  cbv zeta. destruct (bz c =? 45) eqn:Eneg.
  - destruct r as [|d t]; [reflexivity|].
    destruct (is_ws d) eqn:Ed.
    + rewrite (uint_token_ws d t Ed). reflexivity.
    + exact (int_core (d :: t) true _ (cw_head_false _ d t Ed)).
  - rewrite Z.add_0_r.
    exact (int_core (c :: r) false _ (cw_head_false _ c r Hc)).
Qed.

Theorem read_int_exact : forall data,
  ok_proj (ReadInt data) = int_spec (- two63) (two63 - 1) data.
Proof. exact read_int64_exact. Qed.

Lemma int_spec_narrow : forall lo hi data, - two63 <= lo -> hi <= two63 - 1 ->
  int_spec lo hi data =
    match int_spec (- two63) (two63 - 1) data with
    | Some (v, p) => if (lo <=? v) && (v <=? hi) then Some (v, p) else None
    | None => None
    end.
Proof.
  intros lo hi data Hlo Hhi. unfold int_spec.
  destruct (skipn (count_while is_ws data) data) as [|c r]; [reflexivity|]. cbv zeta.
  destruct (uint_token (if bz c =? 45 then r else c :: r)) as [[ds rest]|]; [|reflexivity].
  destruct (starts_frac rest); [reflexivity|].
  set (v := if bz c =? 45 then - digits_value ds 0 else digits_value ds 0).
  destruct (Z.leb_spec (- two63) v), (Z.leb_spec v (two63 - 1)); cbn [andb];
    destruct (Z.leb_spec lo v), (Z.leb_spec v hi); cbn [andb]; try reflexivity;
    unfold two63 in *; lia.
Qed.

Theorem read_int32_exact : forall data,
  ok_proj (ReadInt32 data) = int_spec (-2147483648) 2147483647 data.
Proof.
  intro data. rewrite int_spec_narrow by (unfold two63; lia).
  rewrite <- read_int64_exact. unfold ReadInt32.
  destruct (ReadInt64 data) as [[v p] [e|]]; cbn [ok_proj]; [reflexivity|].
  rewrite Z.gtb_ltb.
  destruct (Z.ltb_spec 2147483647 v), (Z.ltb_spec v (-2147483648)),
           (Z.leb_spec (-2147483648) v), (Z.leb_spec v 2147483647);
    cbn [orb andb ok_proj]; try reflexivity; lia.
Qed.

(** * structural corollaries *)

Lemma uint_spec_range : forall bound data v p, uint_spec bound data = Some (v, p) ->
  0 <= p <= len data /\ 0 <= v < bound.
Proof.
  intros bound data v p H. unfold uint_spec in H.
  destruct (uint_token (skipn (count_while is_ws data) data)) as [[ds rest]|] eqn:Ht;
    [|discriminate].
  destruct (starts_frac rest); [discriminate|]. cbv zeta in H.
  destruct (Z.ltb_spec (digits_value ds 0) bound); [|discriminate].
  inversion H; subst. clear H.
  destruct (uint_token_facts _ _ _ Ht) as (Happ & Hnn & Hlen).
  pose proof (len_skipn_cw is_ws data) as Hl. rewrite <- Happ, len_app in Hl.
  pose proof (len_nonneg rest). lia.
Qed.

Corollary read_uint64_offset_le : forall data v p,
  ok_proj (ReadUint64 data) = Some (v, p) -> 0 <= p <= len data /\ 0 <= v < two64.
Proof. intros data v p H. rewrite read_uint64_exact in H. eapply uint_spec_range; eauto. Qed.

Corollary read_uint32_offset_le : forall data v p,
  ok_proj (ReadUint32 data) = Some (v, p) -> 0 <= p <= len data /\ 0 <= v < 4294967296.
Proof. intros data v p H. rewrite read_uint32_exact in H. eapply uint_spec_range; eauto. Qed.

Lemma int_spec_range : forall lo hi data v p, int_spec lo hi data = Some (v, p) ->
  0 <= p <= len data /\ lo <= v <= hi.
Proof.
  intros lo hi data v p H. unfold int_spec in H.
  pose proof (len_skipn_cw is_ws data) as Hl.
  destruct (skipn (count_while is_ws data) data) as [|c r]; [discriminate|]. cbv zeta in H.
  destruct (uint_token (if bz c =? 45 then r else c :: r)) as [[ds rest]|] eqn:Ht;
    [|discriminate].
  destruct (starts_frac rest); [discriminate|].
  destruct (uint_token_facts _ _ _ Ht) as (Happ & Hnn & Hlen).
  pose proof (len_nonneg rest) as Hr.
  assert (len (if bz c =? 45 then r else c :: r) = len ds + len rest) as Hb
    by (rewrite <- Happ; apply len_app).
  assert (len (c :: r) = 1 + len r) as Hcr by (unfold len; cbn [length]; lia).
  set (v0 := if bz c =? 45 then - digits_value ds 0 else digits_value ds 0) in *.
  destruct (Z.leb_spec lo v0), (Z.leb_spec v0 hi); cbn [andb] in H; try discriminate.
  inversion H; subst. clear H.
  split; [|lia].
  destruct (bz c =? 45); lia.
Qed.

Corollary read_int64_range : forall data v p,
  ok_proj (ReadInt64 data) = Some (v, p) -> 0 <= p <= len data /\ - two63 <= v < two63.
Proof.
  intros data v p H. rewrite read_int64_exact in H.
  apply int_spec_range in H. lia.
Qed.

Corollary read_int32_range : forall data v p,
  ok_proj (ReadInt32 data) = Some (v, p) ->
  0 <= p <= len data /\ -2147483648 <= v <= 2147483647.
Proof. intros data v p H. rewrite read_int32_exact in H. apply int_spec_range in H. lia. Qed.

(** on failure the specification fails too (no spurious error), and conversely *)
Corollary read_uint64_error_iff : forall data,
  (exists e, snd (ReadUint64 data) = Some e) <-> uint_spec two64 data = None.
Proof.
  intro data. rewrite <- read_uint64_exact.
  destruct (ReadUint64 data) as [[v p] [e|]]; cbn [snd ok_proj]; split; intro H;
    try reflexivity; try discriminate; eauto.
  destruct H as (e & He). discriminate.
Qed.

(** * concrete instances *)
Module Examples.
  Import Coq.Strings.String.
  Local Open Scope string_scope.
  Definition b (s : string) : list byte := list_byte_of_string s.

  Example u64_max : ReadUint64 (b "18446744073709551615") = (18446744073709551615, 20, None).
  Proof. vm_compute. reflexivity. Qed.
  Example u64_max_plus_1 : ReadUint64 (b "18446744073709551616") = (0, 19, Some EOther).
  Proof. vm_compute. reflexivity. Qed.
  (** 10 * cutoff: caught only by the wrap test [newVal < val] *)
  Example u64_cutoff_times_10 : ReadUint64 (b "18446744073709551620") = (0, 19, Some EOther).
  Proof. vm_compute. reflexivity. Qed.
  (** caught by [val > cutoff] one digit later *)
  Example u64_21_digits : ReadUint64 (b "184467440737095516150") = (0, 20, Some EOther).
  Proof. vm_compute. reflexivity. Qed.
  Example u64_spec_max_plus_1 : uint_spec two64 (b "18446744073709551616") = None.
  Proof. vm_compute. reflexivity. Qed.
  Example u64_18_digits : ReadUint64 (b "  999999999999999999,") = (999999999999999999, 20, None).
  Proof. vm_compute. reflexivity. Qed.
  Example u64_leading_zero : ReadUint64 (b "0123") = (0, 1, None).
  Proof. vm_compute. reflexivity. Qed.
  Example u64_frac : ok_proj (ReadUint64 (b "12.5")) = None.
  Proof. vm_compute. reflexivity. Qed.
  Example u32_max : ReadUint32 (b "4294967295") = (4294967295, 10, None).
  Proof. vm_compute. reflexivity. Qed.
  Example u32_max_plus_1 : ok_proj (ReadUint32 (b "4294967296")) = None.
  Proof. vm_compute. reflexivity. Qed.
  Example i64_min : ReadInt64 (b "-9223372036854775808") = (-9223372036854775808, 20, None).
  Proof. vm_compute. reflexivity. Qed.
  Example i64_min_minus_1 : ReadInt64 (b "-9223372036854775809") = (0, 20, Some EOther).
  Proof. vm_compute. reflexivity. Qed.
  Example i64_max : ReadInt64 (b " 9223372036854775807]") = (9223372036854775807, 20, None).
  Proof. vm_compute. reflexivity. Qed.
  Example i64_max_plus_1 : ReadInt64 (b "9223372036854775808") = (0, 19, Some EOther).
  Proof. vm_compute. reflexivity. Qed.
  Example i64_minus_space : ok_proj (ReadInt64 (b "- 1")) = None.
  Proof. vm_compute. reflexivity. Qed.
  Example i64_minus_zero : ReadInt64 (b "-0") = (0, 2, None).
  Proof. vm_compute. reflexivity. Qed.
  Example i32_min : ReadInt32 (b "-2147483648") = (-2147483648, 11, None).
  Proof. vm_compute. reflexivity. Qed.
  Example i32_min_minus_1 : ok_proj (ReadInt32 (b "-2147483649")) = None.
  Proof. vm_compute. reflexivity. Qed.
End Examples.

Print Assumptions read_uint64_exact.
Print Assumptions read_int64_exact.
