(** Hand models of the hand-written helper functions in machine_helpers.go that the
    Ragel action units call: skipFloatDec, skipFloatExp, getu4, unescapeUnicodeChar, and
    of the Go library functions they use (utf8.EncodeRune, utf16.DecodeRune/IsSurrogate).
    Definitions only.  Validated against the implementation by the correspondence check
    (hooks VerifSkipFloatDec, VerifSkipFloatExp, VerifGetu4, VerifUnescapeUnicodeChar). *)
From Coq Require Import List ZArith Bool.
From Coq Require Import Strings.Byte.
From Rjson Require Import Base.
Import ListNotations.
Local Open Scope Z_scope.

(** error values (sentinels of machine_helpers.go + classes for the others) *)
Inductive errk :=
| EMaxDepth | EUnexpectedEOF | EInvalidString | EInvalidArray | EInvalidObject
| EInvalidUInt | EInvalidInt | EInvalidNumber | ENoValidToken | ENotNull | ENotBool
| EPOutOfRange
| EByteInString          (* errUnexpectedByteInString(data[p]) *)
| EEOF                   (* io.EOF *)
| EOther                 (* fmt.Errorf values of hand-written functions *)
| EHandler (tok : Z).    (* an error value produced by the caller's handler, by identity *)

Definition is_digit (b : byte) : bool := (48 <=? bz b) && (bz b <=? 57).
Definition is_sign (b : byte) : bool := (bz b =? 43) || (bz b =? 45).
Definition is_exp (b : byte) : bool := (bz b =? 101) || (bz b =? 69).
Definition is_ws (b : byte) : bool :=
  (bz b =? 32) || (bz b =? 9) || (bz b =? 13) || (bz b =? 10).

Fixpoint count_while (f : byte -> bool) (l : list byte) : nat :=
  match l with
  | c :: r => if f c then S (count_while f r) else O
  | [] => O
  end.

(** skipFloatExp(data, p, pe) with pe = len(data) *)
Definition skipFloatExp (data : list byte) (p : Z) : Z * option errk :=
  match skipn (Z.to_nat p) data with
  | [] => (p - 1, Some EInvalidNumber)
  | c :: r =>
    if p <? 0 then (p - 1, Some EInvalidNumber) else
    if is_sign c then
      let n := Z.of_nat (count_while is_digit r) in
      (p + 1 + n - 1, if n =? 0 then Some EInvalidNumber else None)
    else
      let n := Z.of_nat (count_while is_digit (c :: r)) in
      (p + n - 1, if n =? 0 then Some EInvalidNumber else None)
  end.

(** skipFloatDec(data, p, pe) with pe = len(data) *)
Definition skipFloatDec (data : list byte) (p : Z) : Z * option errk :=
  match skipn (Z.to_nat p) data with
  | [] => (p - 1, Some EInvalidNumber)
  | c :: r =>
    if p <? 0 then (p - 1, Some EInvalidNumber) else
    if negb (is_digit c) then (p - 1, Some EInvalidNumber) else
    let n := count_while is_digit r in
    let p' := p + 1 + Z.of_nat n in
    match skipn n r with
    | [] => (p' - 1, None)
    | c2 :: _ => if is_exp c2 then skipFloatExp data (p' + 1) else (p' - 1, None)
    end
  end.

(** hex digit value, or -1 *)
Definition hexval (b : byte) : Z :=
  let c := bz b in
  if (48 <=? c) && (c <=? 57) then c - 48
  else if (97 <=? c) && (c <=? 102) then c - 97 + 10
  else if (65 <=? c) && (c <=? 70) then c - 65 + 10
  else -1.

(** getu4: decodes \uXXXX at the beginning of s, or -1 *)
Definition getu4 (s : list byte) : Z :=
  match s with
  | b0 :: b1 :: h1 :: h2 :: h3 :: h4 :: _ =>
    if (bz b0 =? 92) && (bz b1 =? 117) then
      let v1 := hexval h1 in let v2 := hexval h2 in let v3 := hexval h3 in let v4 := hexval h4 in
      if (v1 <? 0) || (v2 <? 0) || (v3 <? 0) || (v4 <? 0) then -1
      else ((v1 * 16 + v2) * 16 + v3) * 16 + v4
    else -1
  | _ => -1
  end.

(** utf8.EncodeRune: invalid runes (surrogates, out of range, negative) encode U+FFFD *)
Definition utf8_encode (r : Z) : list byte :=
  if (0 <=? r) && (r <? 128) then [zb r]
  else if (128 <=? r) && (r <? 2048) then [zb (192 + r / 64); zb (128 + r mod 64)]
  else if (r <? 0) || (1114111 <? r) || ((55296 <=? r) && (r <=? 57343))
       then [zb 239; zb 191; zb 189]
  else if r <? 65536 then [zb (224 + r / 4096); zb (128 + (r / 64) mod 64); zb (128 + r mod 64)]
  else [zb (240 + r / 262144); zb (128 + (r / 4096) mod 64); zb (128 + (r / 64) mod 64); zb (128 + r mod 64)].

Definition is_surrogate (r : Z) : bool := (55296 <=? r) && (r <? 57344).

(** utf16.DecodeRune *)
Definition utf16_decode (r1 r2 : Z) : Z :=
  if (55296 <=? r1) && (r1 <? 56320) && (56320 <=? r2) && (r2 <? 57344)
  then (r1 - 55296) * 1024 + (r2 - 56320) + 65536
  else 65533.

(** unescapeUnicodeChar(s, dst) = (dst', bytesHandled, ok) *)
Definition unescapeUnicodeChar (s dst : list byte) : list byte * Z * bool :=
  let rr := getu4 s in
  if rr <? 0 then (dst, 0, false) else
  if is_surrogate rr then
    let rr1 := getu4 (skipn 6 s) in
    let dec := utf16_decode rr rr1 in
    if negb (dec =? 65533) then (dst ++ utf8_encode dec, 12, true)
    else (dst ++ utf8_encode 65533, 6, true)
  else (dst ++ utf8_encode rr, 6, true).
