(** C20, the logic part: the size-hint bookkeeping of ValueReader (complex_readers.go) as a
    pure model over the sizes of sibling containers, and the amortised bound it gives.

    When a reader at some level meets its k-th nested object it creates the map with capacity
    hint h_k and then fills it with n_k entries; the allocation this causes is bounded by
    c1*h_k + c2*n_k for runtime constants c1, c2 (bytes per pre-sized slot, amortised growth of
    maps/slices: measured, not modelled).  The code (after fix 4ca475d) sets the hint of the
    next sibling to the size of the previous one: h_{k+1} = n_k; the first hint h_1 is whatever
    the reader remembered (its own maxMapSize field, persisting across calls).
    Before the fix the hint was the running maximum: h_{k+1} = max h_k n_k.

    [prev_sibling_linear]: with previous-sibling hints the sum of all hints is at most the first
    hint plus the sum of all sizes -- linear in the input, and a remembered large hint is paid
    once ([reuse_pays_once]).  [running_max_quadratic] / [running_max_never_forgets]: with the
    running maximum one object of n keys followed by n empty siblings costs n*n slots for an
    input of about 3n tokens, and a reused reader pays the largest size on every later call. *)
From Coq Require Import List Arith Lia.
Import ListNotations.

Fixpoint sum (l : list nat) : nat := match l with [] => 0 | x :: r => x + sum r end.

(** hints handed to the siblings, given the remembered hint [h] and the sibling sizes *)
Fixpoint hints_prev (h : nat) (sizes : list nat) : list nat :=
  match sizes with
  | [] => []
  | n :: r => h :: hints_prev n r
  end.

Fixpoint hints_max (h : nat) (sizes : list nat) : list nat :=
  match sizes with
  | [] => []
  | n :: r => h :: hints_max (Nat.max h n) r
  end.

(** the hint the reader remembers after the siblings (its maxMapSize field) *)
Fixpoint remembered_prev (h : nat) (sizes : list nat) : nat :=
  match sizes with [] => h | n :: r => remembered_prev n r end.
Fixpoint remembered_max (h : nat) (sizes : list nat) : nat :=
  match sizes with [] => h | n :: r => remembered_max (Nat.max h n) r end.

Theorem prev_sibling_linear : forall sizes h, sum (hints_prev h sizes) <= h + sum sizes.
Proof.
  induction sizes as [|n r IH]; intros h; cbn [hints_prev sum]; [lia|].
  specialize (IH n). lia.
Qed.

(** over a whole history of calls on one reader (each call = a list of sibling sizes, the
    remembered hint carried from call to call) the total of all hints is bounded by the first
    remembered hint plus the total of all sizes: a large document is paid for once *)
Fixpoint history_hints (h : nat) (calls : list (list nat)) : nat :=
  match calls with
  | [] => 0
  | c :: r => sum (hints_prev h c) + history_hints (remembered_prev h c) r
  end.
Fixpoint history_sizes (calls : list (list nat)) : nat :=
  match calls with [] => 0 | c :: r => sum c + history_sizes r end.

Lemma remembered_prev_le : forall sizes h, remembered_prev h sizes <= h + sum sizes.
Proof. induction sizes as [|n r IH]; intros h; cbn; [lia|]. specialize (IH n). lia. Qed.

Lemma hints_plus_remembered : forall sizes h, sum (hints_prev h sizes) + remembered_prev h sizes <= h + sum sizes.
Proof.
  induction sizes as [|n r IH]; intros h; cbn [hints_prev sum remembered_prev]; [lia|].
  specialize (IH n). lia.
Qed.

Theorem reuse_pays_once : forall calls h, history_hints h calls <= h + history_sizes calls.
Proof.
  induction calls as [|c r IH]; intros h; cbn [history_hints history_sizes]; [lia|].
  specialize (IH (remembered_prev h c)). pose proof (hints_plus_remembered c h). lia.
Qed.

(** the running maximum: quadratic on one document ... *)
Lemma hints_max_repeat0 : forall k h, sum (hints_max h (repeat 0 k)) = k * h.
Proof.
  induction k as [|k IH]; intros h; cbn [repeat hints_max sum]; [lia|].
  rewrite Nat.max_0_r, IH. lia.
Qed.

Theorem running_max_quadratic : forall n, sum (hints_max 0 (n :: repeat 0 n)) = n * n /\ sum (n :: repeat 0 n) = n.
Proof.
  intro n. cbn [hints_max sum]. rewrite Nat.max_0_l, hints_max_repeat0. split; [lia|].
  induction n as [|k IH]; [reflexivity|]. assert (sum (repeat 0 (S k)) = 0) by (clear; induction (S k); cbn; auto). lia.
Qed.

(** ... and never forgotten by a reused reader: after one call with a sibling of size n, every
    later call with k small siblings pays at least k*n *)
Lemma remembered_max_ge : forall sizes h, h <= remembered_max h sizes.
Proof. induction sizes as [|n r IH]; intros h; cbn; [lia|]. specialize (IH (Nat.max h n)). lia. Qed.

Lemma hints_max_ge : forall sizes h, length sizes * h <= sum (hints_max h sizes).
Proof.
  induction sizes as [|n r IH]; intros h; cbn [length hints_max sum]; [lia|].
  specialize (IH (Nat.max h n)). nia.
Qed.

Theorem running_max_never_forgets : forall first later h n,
  In n first -> length later * n <= sum (hints_max (remembered_max h first) later).
Proof.
  intros first later h n Hin.
  assert (n <= remembered_max h first).
  { revert h. induction first as [|x r IH]; intros h; [contradiction|]. cbn [remembered_max].
    destruct Hin as [->|Hin]; [|apply IH; exact Hin].
    pose proof (remembered_max_ge r (Nat.max h n)). lia. }
  pose proof (hints_max_ge later (remembered_max h first)). nia.
Qed.

(** with previous-sibling hints the same history is cheap: the large hint is used once *)
Example reuse_after_fix : history_hints 0 [[1000]; [1; 2]; [1; 2]; [1; 2]] = 1000 + 1 + 2 + 1 + 2 + 1.
Proof. reflexivity. Qed.
Example reuse_before_fix : sum (hints_max (remembered_max 0 [1000]) [1; 2]) = 2000.
Proof. reflexivity. Qed.
