(** The accelerated evaluator depends on its seven machines only through what can be observed of their
    runs ([ReadValue_fast_congr], [ReadObject_fast_congr], [ReadArray_fast_congr], in the style of
    TreeTie.v); hence the theorems of TreeFast.v hold verbatim over any implementation machines that are
    observationally equal to the specification machines on inputs of at most [maxint] bytes. *)
From Coq Require Import List ZArith Bool Lia.
From Coq Require Import Strings.Byte.
From Rjson Require Import Base BaseFacts Helpers Machine MachineFacts Safety Api ValueReader
  SpecMachines Ref OffsetFacts TreeFacts TreeTie TreeFast.
Import ListNotations.
Local Open Scope Z_scope.

Section FastCongr.
  Variables md vr : Z.
  Variables mSkip mArr mObj mNull mBool mAppend mUnescape : machine.
  Variables mSkip' mArr' mObj' mNull' mBool' mAppend' mUnescape' : machine.
  Variable rf : list byte -> Z * Z * option errk.
  Hypothesis SS : same_obs_m mSkip mSkip'.
  Hypothesis SA : same_obs_m mArr mArr'.
  Hypothesis SO : same_obs_m mObj mObj'.
  Hypothesis SN : same_obs_m mNull mNull'.
  Hypothesis SB : same_obs_m mBool mBool'.
  Hypothesis SP : same_obs_m mAppend mAppend'.
  Hypothesis SU : same_obs_m mUnescape mUnescape'.

  Lemma skip_answer_congr : forall data c, len data <= maxint ->
    skip_answer md mSkip data c = skip_answer md mSkip' data c.
  Proof.
    intros data c L. unfold skip_answer, skipValue_m. rewrite !prun_c_eq.
    assert (LL : len (skipn (Z.to_nat (c_p c)) data) <= maxint) by (eapply Z.le_trans; [apply len_skipn|exact L]).
    pose proof (obs_done_inv _ _ (SS md _ no_handler [] [] LL)) as H.
    destruct (prun md mSkip (skipn (Z.to_nat (c_p c)) data) no_handler [] []),
             (prun md mSkip' (skipn (Z.to_nat (c_p c)) data) no_handler [] []); try contradiction; try reflexivity.
    destruct H as (-> & -> & _). reflexivity.
  Qed.

  (** one level of ReadObject_fast / ReadArray_fast, for abstract member readers *)
  Lemma fobj_level_congr : forall data (r1 r1' : call -> rres), len data <= maxint ->
    (forall c, okc data c -> r1 c = r1' c /\ key_of md mUnescape (c_key c) = key_of md mUnescape' (c_key c)) ->
    match handleObjectValues_m md mObj data (fun calls => match calls with c :: _ => skip_answer md mSkip data c | [] => answer None end) [] with
    | MDone p (Some e) _ => Some (JNull, p, Some e)
    | MDone p None s =>
      match collect_obj md mUnescape r1 (rev (s_calls s)) [] with
      | Some m => match m with
                  | [] => if first_is_null data then Some (JNull, p, Some EInvalidObject) else Some (JObj m, p, None)
                  | _ :: _ => Some (JObj m, p, None)
                  end
      | None => Some (JNull, p, Some EOther)
      end
    | _ => None
    end =
    match handleObjectValues_m md mObj' data (fun calls => match calls with c :: _ => skip_answer md mSkip' data c | [] => answer None end) [] with
    | MDone p (Some e) _ => Some (JNull, p, Some e)
    | MDone p None s =>
      match collect_obj md mUnescape' r1' (rev (s_calls s)) [] with
      | Some m => match m with
                  | [] => if first_is_null data then Some (JNull, p, Some EInvalidObject) else Some (JObj m, p, None)
                  | _ :: _ => Some (JObj m, p, None)
                  end
      | None => Some (JNull, p, Some EOther)
      end
    | _ => None
    end.
  Proof.
    intros data r1 r1' L R1. unfold handleObjectValues_m. rewrite !prun_c_eq.
    set (h := fun calls : list call => match calls with c :: _ => skip_answer md mSkip data c | [] => answer None end).
    set (h' := fun calls : list call => match calls with c :: _ => skip_answer md mSkip' data c | [] => answer None end).
    assert (HE : forall L0, Forall (okc data) L0 -> h L0 = h' L0).
    { intros [|c L0] F; [reflexivity|]. unfold h, h'. apply skip_answer_congr. exact L. }
    pose proof (handle_congr md mObj mObj' SO data h h' L HE) as HC.
    destruct (prun md mObj data h [] []) as [p e s|k|], (prun md mObj' data h' [] []) as [p' e' s'|k'|];
      try contradiction; try reflexivity.
    destruct HC as (-> & -> & C & F). cbn [of_outcome]. destruct e'; [reflexivity|]. rewrite <- C.
    rewrite (collect_obj_congr md mUnescape mUnescape' r1 r1' (rev (s_calls s)) []); [reflexivity|].
    intros c IN. apply R1. rewrite Forall_forall in F. apply F. apply in_rev. exact IN.
  Qed.

  Lemma farr_level_congr : forall data (r1 r1' : call -> rres), len data <= maxint ->
    (forall c, r1 c = r1' c) ->
    match handleArrayValues_m md mArr data (fun calls => match calls with c :: _ => skip_answer md mSkip data c | [] => answer None end) [] with
    | MDone p (Some e) _ => Some (JNull, p, Some e)
    | MDone p None s =>
      match collect_arr r1 (rev (s_calls s)) [] with
      | Some l => match l with
                  | [] => if first_is_null data then Some (JNull, p, Some EInvalidArray) else Some (JArr l, p, None)
                  | _ :: _ => Some (JArr l, p, None)
                  end
      | None => Some (JNull, p, Some EOther)
      end
    | _ => None
    end =
    match handleArrayValues_m md mArr' data (fun calls => match calls with c :: _ => skip_answer md mSkip' data c | [] => answer None end) [] with
    | MDone p (Some e) _ => Some (JNull, p, Some e)
    | MDone p None s =>
      match collect_arr r1' (rev (s_calls s)) [] with
      | Some l => match l with
                  | [] => if first_is_null data then Some (JNull, p, Some EInvalidArray) else Some (JArr l, p, None)
                  | _ :: _ => Some (JArr l, p, None)
                  end
      | None => Some (JNull, p, Some EOther)
      end
    | _ => None
    end.
  Proof.
    intros data r1 r1' L R1. unfold handleArrayValues_m. rewrite !prun_c_eq.
    set (h := fun calls : list call => match calls with c :: _ => skip_answer md mSkip data c | [] => answer None end).
    set (h' := fun calls : list call => match calls with c :: _ => skip_answer md mSkip' data c | [] => answer None end).
    assert (HE : forall L0, Forall (okc data) L0 -> h L0 = h' L0).
    { intros [|c L0] F; [reflexivity|]. unfold h, h'. apply skip_answer_congr. exact L. }
    pose proof (handle_congr md mArr mArr' SA data h h' L HE) as HC.
    destruct (prun md mArr data h [] []) as [p e s|k|], (prun md mArr' data h' [] []) as [p' e' s'|k'|];
      try contradiction; try reflexivity.
    destruct HC as (-> & -> & C & F). cbn [of_outcome]. destruct e'; [reflexivity|]. rewrite <- C.
    rewrite (collect_arr_congr r1 r1' (rev (s_calls s)) []); [reflexivity|].
    intros c IN. apply R1.
  Qed.

  Notation fo := (fast_obj md vr mSkip mArr mObj mNull mBool mAppend mUnescape rf).
  Notation fa := (fast_arr md vr mSkip mArr mObj mNull mBool mAppend mUnescape rf).
  Notation fo' := (fast_obj md vr mSkip' mArr' mObj' mNull' mBool' mAppend' mUnescape' rf).
  Notation fa' := (fast_arr md vr mSkip' mArr' mObj' mNull' mBool' mAppend' mUnescape' rf).

  Theorem fast_congr : forall f depth data, len data <= maxint ->
    fo f depth data = fo' f depth data /\ fa f depth data = fa' f depth data.
  Proof.
    induction f as [|f IH]; intros depth data L; [split; reflexivity|].
    assert (MEM : forall c, ValueReader.member md vr mNull mBool mAppend rf (fo f (depth + 1)) (fa f (depth + 1)) depth
                               (skipn (Z.to_nat (c_p c)) data) =
                            ValueReader.member md vr mNull' mBool' mAppend' rf (fo' f (depth + 1)) (fa' f (depth + 1)) depth
                               (skipn (Z.to_nat (c_p c)) data)).
    { intros c. apply (member_congr md vr mNull mBool mAppend mNull' mBool' mAppend' rf SN SB SP).
      - eapply Z.le_trans; [apply len_skipn|exact L].
      - intros d LD. apply IH. exact LD.
      - intros d LD. apply IH. exact LD. }
    split.
    - cbn [fast_obj].
      apply (fobj_level_congr data
               (fun c : call => match key_of md mUnescape (c_key c) with
                                | inl (Some _) => ValueReader.member md vr mNull mBool mAppend rf (fo f (depth + 1)) (fa f (depth + 1)) depth (skipn (Z.to_nat (c_p c)) data)
                                | inl None => Some (JNull, 0, Some EInvalidString)
                                | inr _ => None
                                end)
               (fun c : call => match key_of md mUnescape' (c_key c) with
                                | inl (Some _) => ValueReader.member md vr mNull' mBool' mAppend' rf (fo' f (depth + 1)) (fa' f (depth + 1)) depth (skipn (Z.to_nat (c_p c)) data)
                                | inl None => Some (JNull, 0, Some EInvalidString)
                                | inr _ => None
                                end) L).
      intros c OK. assert (KE : key_of md mUnescape (c_key c) = key_of md mUnescape' (c_key c))
        by (apply (key_of_congr md mUnescape mUnescape' SU); unfold okc in OK; lia).
      split; [|exact KE]. rewrite <- KE, MEM. reflexivity.
    - cbn [fast_arr].
      apply (farr_level_congr data
               (fun c : call => ValueReader.member md vr mNull mBool mAppend rf (fo f (depth + 1)) (fa f (depth + 1)) depth (skipn (Z.to_nat (c_p c)) data))
               (fun c : call => ValueReader.member md vr mNull' mBool' mAppend' rf (fo' f (depth + 1)) (fa' f (depth + 1)) depth (skipn (Z.to_nat (c_p c)) data)) L).
      exact MEM.
  Qed.

  (** ReadValue_fast / ReadObject_fast / ReadArray_fast depend on the seven machines only through the
      observations of their runs *)
  Theorem ReadValue_fast_congr : forall data, len data <= maxint ->
    ReadValue_fast md vr mSkip mArr mObj mNull mBool mAppend mUnescape rf data =
    ReadValue_fast md vr mSkip' mArr' mObj' mNull' mBool' mAppend' mUnescape' rf data.
  Proof.
    intros data L. unfold ReadValue_fast. destruct (NextTokenType data) as [[tp p] [e|]]; [reflexivity|].
    assert (LD : len (skipn (Z.to_nat (p - 1)) data) <= maxint) by (eapply Z.le_trans; [apply len_skipn|exact L]).
    destruct (fast_congr (vr_fuel data) 1 _ LD) as [-> ->].
    rewrite (readSimpleValue_congr md mNull mBool mAppend mNull' mBool' mAppend' rf SN SB SP _ tp LD). reflexivity.
  Qed.

  Theorem ReadObject_fast_congr : forall data, len data <= maxint ->
    ReadObject_fast md vr mSkip mArr mObj mNull mBool mAppend mUnescape rf data =
    ReadObject_fast md vr mSkip' mArr' mObj' mNull' mBool' mAppend' mUnescape' rf data.
  Proof. intros data L. unfold ReadObject_fast. apply fast_congr. exact L. Qed.

  Theorem ReadArray_fast_congr : forall data, len data <= maxint ->
    ReadArray_fast md vr mSkip mArr mObj mNull mBool mAppend mUnescape rf data =
    ReadArray_fast md vr mSkip' mArr' mObj' mNull' mBool' mAppend' mUnescape' rf data.
  Proof. intros data L. unfold ReadArray_fast. apply fast_congr. exact L. Qed.
End FastCongr.

(** * the theorems of TreeFast.v over implementation machines *)
Section FastImpl.
  Variables mSkip mArr mObj mNull mBool mAppend mUnescape : machine.
  Hypothesis TS : same_obs_m mSkip skip_spec.
  Hypothesis TA : same_obs_m mArr harr_spec.
  Hypothesis TO : same_obs_m mObj hobj_spec.
  Hypothesis TN : same_obs_m mNull null_spec.
  Hypothesis TB : same_obs_m mBool bool_spec.
  Hypothesis TP : same_obs_m mAppend append_spec.
  Hypothesis TU : same_obs_m mUnescape unescape_spec.
  Variable readFloat64 : list byte -> Z * Z * option errk.
  Variable num : list byte -> option Z.
  Hypothesis FO : float_ok readFloat64 num.

  Notation RVF := (ReadValue_fast 10000 10000 mSkip mArr mObj mNull mBool mAppend mUnescape readFloat64).
  Notation ROF := (ReadObject_fast 10000 10000 mSkip mArr mObj mNull mBool mAppend mUnescape readFloat64).
  Notation RAF := (ReadArray_fast 10000 10000 mSkip mArr mObj mNull mBool mAppend mUnescape readFloat64).
  Notation RVR := (ReadValue 10000 10000 mArr mObj mNull mBool mAppend mUnescape readFloat64).
  Notation ROR := (ReadObject 10000 10000 mArr mObj mNull mBool mAppend mUnescape readFloat64).
  Notation RAR := (ReadArray 10000 10000 mArr mObj mNull mBool mAppend mUnescape readFloat64).

  Theorem read_value_fast_tree_impl : forall data, len data <= maxint ->
    match parse_ref num data with
    | Some (t, p) => RVF data = Some (t, p, None)
    | None => exists v p e, RVF data = Some (v, p, Some e)
    end.
  Proof.
    intros data L. rewrite (ReadValue_fast_congr 10000 10000 _ _ _ _ _ _ _ _ _ _ _ _ _ _ readFloat64 TS TA TO TN TB TP TU data L).
    apply read_value_fast_tree; assumption.
  Qed.

  Theorem read_object_fast_tree_impl : forall data, len data <= maxint ->
    match parse_typed_ref num true data with
    | Some (t, p) => ROF data = Some (t, p, None)
    | None => exists v p e, ROF data = Some (v, p, Some e)
    end.
  Proof.
    intros data L. rewrite (ReadObject_fast_congr 10000 10000 _ _ _ _ _ _ _ _ _ _ _ _ _ _ readFloat64 TS TA TO TN TB TP TU data L).
    apply read_object_fast_tree; assumption.
  Qed.

  Theorem read_array_fast_tree_impl : forall data, len data <= maxint ->
    match parse_typed_ref num false data with
    | Some (t, p) => RAF data = Some (t, p, None)
    | None => exists v p e, RAF data = Some (v, p, Some e)
    end.
  Proof.
    intros data L. rewrite (ReadArray_fast_congr 10000 10000 _ _ _ _ _ _ _ _ _ _ _ _ _ _ readFloat64 TS TA TO TN TB TP TU data L).
    apply read_array_fast_tree; assumption.
  Qed.

  (** over the implementation machines the accelerated evaluator and the model of record agree *)
  Theorem fast_agrees_with_record_impl : forall data, len data <= maxint ->
    (forall t p, RVR data = Some (t, p, None) <-> RVF data = Some (t, p, None)) /\
    ((exists v p e, RVR data = Some (v, p, Some e)) <-> (exists v p e, RVF data = Some (v, p, Some e))).
  Proof.
    intros data L. apply (agree_both _ _ (parse_ref num data)).
    - apply (read_value_tree_impl mArr mObj mNull mBool mAppend mUnescape TA TO TN TB TP TU readFloat64 num FO data L).
    - apply (read_value_fast_tree_impl data L).
  Qed.

  Theorem fast_object_agrees_with_record_impl : forall data, len data <= maxint ->
    (forall t p, ROR data = Some (t, p, None) <-> ROF data = Some (t, p, None)) /\
    ((exists v p e, ROR data = Some (v, p, Some e)) <-> (exists v p e, ROF data = Some (v, p, Some e))).
  Proof.
    intros data L. apply (agree_both _ _ (parse_typed_ref num true data)).
    - apply (read_object_tree_impl mArr mObj mNull mBool mAppend mUnescape TA TO TN TB TP TU readFloat64 num FO data L).
    - apply (read_object_fast_tree_impl data L).
  Qed.

  Theorem fast_array_agrees_with_record_impl : forall data, len data <= maxint ->
    (forall t p, RAR data = Some (t, p, None) <-> RAF data = Some (t, p, None)) /\
    ((exists v p e, RAR data = Some (v, p, Some e)) <-> (exists v p e, RAF data = Some (v, p, Some e))).
  Proof.
    intros data L. apply (agree_both _ _ (parse_typed_ref num false data)).
    - apply (read_array_tree_impl mArr mObj mNull mBool mAppend mUnescape TA TO TN TB TP TU readFloat64 num FO data L).
    - apply (read_array_fast_tree_impl data L).
  Qed.

  Theorem read_value_fast_offset_is_skip_impl : forall data t p, len data <= maxint ->
    RVF data = Some (t, p, None) -> skip_ref data = Some p.
  Proof.
    intros data t p L H. rewrite (ReadValue_fast_congr 10000 10000 _ _ _ _ _ _ _ _ _ _ _ _ _ _ readFloat64 TS TA TO TN TB TP TU data L) in H.
    eapply read_value_fast_offset_is_skip; eauto.
  Qed.
End FastImpl.

(** sanity: the specification machines themselves are an instance *)
Example read_value_fast_tree_impl_ex :
  RVF toy_readFloat64 doc1 = Some (JObj [([x61], JArr [JBool true; JNull]); ([x62; x0a], JStr [x78; x41])], 39, None).
Proof.
  pose proof (read_value_fast_tree_impl skip_spec harr_spec hobj_spec null_spec bool_spec append_spec unescape_spec
                (same_obs_m_refl _) (same_obs_m_refl _) (same_obs_m_refl _) (same_obs_m_refl _) (same_obs_m_refl _)
                (same_obs_m_refl _) (same_obs_m_refl _)
                toy_readFloat64 toy_num toy_float_ok doc1 ltac:(vm_compute; discriminate)) as T.
  rewrite parse_ref_ex1 in T. exact T.
Qed.

Print Assumptions ReadValue_fast_congr.
Print Assumptions ReadObject_fast_congr.
Print Assumptions ReadArray_fast_congr.
Print Assumptions read_value_fast_tree_impl.
Print Assumptions read_object_fast_tree_impl.
Print Assumptions read_array_fast_tree_impl.
Print Assumptions fast_agrees_with_record_impl.
Print Assumptions fast_object_agrees_with_record_impl.
Print Assumptions fast_array_agrees_with_record_impl.
Print Assumptions read_value_fast_offset_is_skip_impl.
