(** Third part of the language-level theorems: the string machines (C06).
    appendRemainderOfString and unescapeStringContent over their specification machines
    ([append_spec], [unescape_spec]) against [string_body] / [decode_content] of Ref.v, and the
    composition for the ReadStringBytes model of Api.v. *)
From Coq Require Import List ZArith Bool Lia.
From Coq Require Import Strings.Byte.
From Rjson Require Import Base BaseFacts Helpers Machine MachineFacts Safety Api SpecMachines Ref SpecFacts.
Import ListNotations.
Local Open Scope Z_scope.

(** * Running an escape machine (same discipline as Part 1 of SpecFacts.v, for [esc_machine]) *)
Section ERun.
  Variable md : Z.
  Variable rem_ : bool.          (* true: appendRemainderOfString; false: unescapeStringContent *)
  Variable data : list byte.
  Variable h : handler.
  Let m := esc_machine rem_.
  Let pe := len data.

  Definition econt (f : nat) (e : epos) (s : st) : outcome :=
    if s_p s =? pe then eof_phase md m data h pe (enc_e e) s else run md m data h pe f (enc_e e) s.

  (** the outcome of one transition whose units ran to [r] *)
  Definition efinish (f : nat) (r : ures) (d : option epos) : outcome :=
    match r with
    | RCont s' => match d with Some e' => econt f e' (adv s' 1) | None => ODone (s_p s') (s_err s') s' end
    | RGoto _ _ => OPanic PUnknown
    | ROut s' => ODone (s_p s') (s_err s') s'
    | RRet p e s' => ODone p (Some e) s'
    | RPanic k => OPanic k
    end.

  Lemma enc_e_nonzero : forall e, enc_e e <> 0.
  Proof. destruct e; discriminate. Qed.

  Lemma econt_S : forall f e s b r, At data s (b :: r) ->
    (forall s' z, exec_units md data h pe (fst (etrans rem_ e b)) s <> RGoto s' z) ->
    econt (S f) e s = efinish f (exec_units md data h pe (fst (etrans rem_ e b)) s) (snd (etrans rem_ e b)).
  Proof.
    intros f e s b r H NG. destruct (AtP_cons data _ _ _ H) as (NE & G & _). fold pe in NE.
    unfold econt. apply Z.eqb_neq in NE. rewrite NE. rewrite run_step. unfold step. rewrite G.
    cbn [m_trans m esc_machine]. rewrite dec_e_enc. destruct (etrans rem_ e b) as [us d]. cbn [fst snd] in *.
    destruct (exec_units md data h pe us s) as [s'|s' d'|s'|p' e' s'|k]; cbn [efinish]; try reflexivity.
    - destruct d as [e'|]; cbn [enc_eo].
      + unfold goto_step. pose proof (enc_e_nonzero e') as N. apply Z.eqb_neq in N. rewrite N.
        cbn [m_is_state m esc_machine]. rewrite dec_e_enc, orb_true_r. cbn [negb].
        unfold econt, adv. change (Z.of_nat 1) with 1. cbn [s_p set_p].
        destruct (s_p s' + 1 =? pe); reflexivity.
      + reflexivity.
    - exfalso. exact (NG s' d' eq_refl).
  Qed.

  Lemma econt_eof : forall f e s, At data s [] ->
    econt f e s = match exec_units md data h pe (eeof rem_ e) s with
                  | RCont s' | ROut s' => ODone (s_p s') (s_err s') s'
                  | RRet p e s' => ODone p (Some e) s'
                  | RGoto _ _ => OPanic PUnknown
                  | RPanic k => OPanic k
                  end.
  Proof.
    intros f e s H. unfold econt. pose proof (AtP_nil data _ H) as E. fold pe in E. apply Z.eqb_eq in E. rewrite E.
    unfold eof_phase. cbn [m_eof m esc_machine]. rewrite dec_e_enc. reflexivity.
  Qed.

  Definition EReach (e : epos) (s : st) (e' : epos) (s' : st) : Prop :=
    forall f, (rem data s <= f)%nat -> exists f', (rem data s' <= f')%nat /\ econt f e s = econt f' e' s'.
  Definition EEnds (e : epos) (s : st) (P : outcome -> Prop) : Prop :=
    forall f, (rem data s <= f)%nat -> P (econt f e s).

  Lemma EReach_refl : forall e s, EReach e s e s.
  Proof. intros e s f Fu. exists f. auto. Qed.
  Lemma EReach_trans : forall e1 s1 e2 s2 e3 s3, EReach e1 s1 e2 s2 -> EReach e2 s2 e3 s3 -> EReach e1 s1 e3 s3.
  Proof.
    intros e1 s1 e2 s2 e3 s3 A B f Fu. destruct (A f Fu) as (f1 & F1 & E1).
    destruct (B f1 F1) as (f2 & F2 & E2). exists f2. split; auto. congruence.
  Qed.
  Lemma EReach_Ends : forall e s e' s' P, EReach e s e' s' -> EEnds e' s' P -> EEnds e s P.
  Proof. intros e s e' s' P A B f Fu. destruct (A f Fu) as (f1 & F1 & E1). rewrite E1. apply B; auto. Qed.

  (** one transition whose units run through and do not move backwards *)
  Lemma EReach_step : forall e e' s s1 b r us, At data s (b :: r) -> etrans rem_ e b = (us, Some e') ->
    exec_units md data h pe us s = RCont s1 -> s_p s <= s_p s1 -> EReach e s e' (adv s1 1).
  Proof.
    intros e e' s s1 b r us H T X P f Fu. pose proof (rem_cons data _ _ _ H) as RC. rewrite RC in Fu.
    destruct f as [|f]; [lia|]. exists f. split.
    - unfold rem in *. rewrite s_p_adv in *. lia.
    - rewrite (econt_S f e s b r H); rewrite T; cbn [fst snd]; rewrite X; [reflexivity|discriminate].
  Qed.

  Lemma EEnds_step : forall e s b r (P : outcome -> Prop), At data s (b :: r) ->
    (forall s' z, exec_units md data h pe (fst (etrans rem_ e b)) s <> RGoto s' z) ->
    (forall f, P (efinish f (exec_units md data h pe (fst (etrans rem_ e b)) s) (snd (etrans rem_ e b)))) ->
    EEnds e s P.
  Proof.
    intros e s b r P H NG X f Fu. rewrite (rem_cons data _ _ _ H) in Fu.
    destruct f as [|f]; [lia|]. rewrite (econt_S f e s b r H NG). apply X.
  Qed.

  Lemma eprun_cont : forall stack dst, prun md m data h stack dst = econt (fuel_for data) EStart (init_st stack dst).
  Proof. intros. reflexivity. Qed.
  Lemma EEnds_prun : forall stack dst (P : outcome -> Prop),
    EEnds EStart (init_st stack dst) P -> P (prun md m data h stack dst).
  Proof.
    intros stack dst P E. rewrite eprun_cont. apply E. unfold rem, fuel_for, len. cbn [s_p init_st]. lia.
  Qed.
End ERun.

(** * The \u escape: Helpers.unescapeUnicodeChar against the reference decoding *)
Definition pair_of (u : Z) (r2 : list byte) : option Z :=
  if is_high u then
    match r2 with
    | b2 :: e2 :: g1 :: g2 :: g3 :: g4 :: _ =>
      match (if isb 92 b2 && isb 117 e2 then hex4 g1 g2 g3 g4 else None) with
      | Some v => if is_low v then Some v else None
      | None => None
      end
    | _ => None
    end
  else None.

Definition pair_cp (u v : Z) : Z := (u - 55296) * 1024 + (v - 56320) + 65536.
Definition single_bytes (u : Z) : list byte := if is_high u || is_low u then replacement else utf8 u.

Lemma decode_u : forall bs e h1 h2 h3 h4 r2 u, isb 92 bs = true -> isb 117 e = true ->
  hex4 h1 h2 h3 h4 = Some u ->
  decode_content (bs :: e :: h1 :: h2 :: h3 :: h4 :: r2) =
  match pair_of u r2 with
  | Some v => option_map (app (utf8 (pair_cp u v))) (decode_content (skipn 6 r2))
  | None => option_map (app (single_bytes u)) (decode_content r2)
  end.
Proof.
  intros bs e h1 h2 h3 h4 r2 u B E HX. cbn [decode_content]. rewrite B.
  assert (SE : simple_escape e = None).
  { apply Z.eqb_eq in E. unfold simple_escape. rewrite E. reflexivity. }
  rewrite SE, E, HX. unfold pair_of, single_bytes.
  destruct (is_high u) eqn:HI.
  - cbn [orb]. destruct r2 as [|b2 [|e2 [|g1 [|g2 [|g3 [|g4 r3]]]]]]; try reflexivity.
    destruct (if isb 92 b2 && isb 117 e2 then hex4 g1 g2 g3 g4 else None) as [v|]; [|reflexivity].
    destruct (is_low v); reflexivity.
  - cbn [orb]. destruct (is_low u); reflexivity.
Qed.

Lemma hexval_range : forall b, r_is_hex b = true -> 0 <= hexval b <= 15.
Proof.
  intro b. pose proof (forall_bytes (fun b => negb (r_is_hex b) || ((0 <=? hexval b) && (hexval b <=? 15))) ltac:(vm_compute; reflexivity) b) as H.
  intros X. cbn beta in H. rewrite X in H. cbn in H. apply andb_true_iff in H. destruct H as [A B].
  apply Z.leb_le in A, B. lia.
Qed.

Lemma hex4_getu4 : forall bs e h1 h2 h3 h4 r u, isb 92 bs = true -> isb 117 e = true ->
  hex4 h1 h2 h3 h4 = Some u -> getu4 (bs :: e :: h1 :: h2 :: h3 :: h4 :: r) = u /\ 0 <= u < 65536.
Proof.
  intros bs e h1 h2 h3 h4 r u B E HX. unfold hex4 in HX.
  destruct (r_is_hex h1) eqn:X1; [|discriminate]. destruct (r_is_hex h2) eqn:X2; [|discriminate].
  destruct (r_is_hex h3) eqn:X3; [|discriminate]. destruct (r_is_hex h4) eqn:X4; [|discriminate].
  cbn in HX. inversion HX as [U].
  pose proof (hexval_range _ X1). pose proof (hexval_range _ X2). pose proof (hexval_range _ X3). pose proof (hexval_range _ X4).
  split; [|lia].
  unfold getu4. change (bz bs =? 92) with (isb 92 bs). change (bz e =? 117) with (isb 117 e). rewrite B, E. cbn [andb].
  assert (N : forall x, 0 <= x -> (x <? 0) = false) by (intros; apply Z.ltb_ge; lia).
  rewrite !N by lia. reflexivity.
Qed.

(** getu4 on what follows: the code unit of a well-formed \uXXXX, or -1 *)
Lemma getu4_follow : forall r2,
  getu4 r2 = match r2 with
             | b2 :: e2 :: g1 :: g2 :: g3 :: g4 :: _ =>
               match (if isb 92 b2 && isb 117 e2 then hex4 g1 g2 g3 g4 else None) with Some v => v | None => -1 end
             | _ => -1
             end.
Proof.
  intros r2. destruct r2 as [|b2 [|e2 [|g1 [|g2 [|g3 [|g4 r3]]]]]]; try reflexivity.
  unfold getu4. change (bz b2 =? 92) with (isb 92 b2). change (bz e2 =? 117) with (isb 117 e2).
  destruct (isb 92 b2 && isb 117 e2); [|reflexivity].
  unfold hex4, r_is_hex.
  destruct (0 <=? hexval g1) eqn:X1; destruct (0 <=? hexval g2) eqn:X2; destruct (0 <=? hexval g3) eqn:X3; destruct (0 <=? hexval g4) eqn:X4;
    cbn [andb];
    repeat match goal with H : (0 <=? _) = true |- _ => apply Z.leb_le in H | H : (0 <=? _) = false |- _ => apply Z.leb_gt in H end;
    repeat match goal with |- context [?x <? 0] => let E := fresh in destruct (x <? 0) eqn:E; [apply Z.ltb_lt in E|apply Z.ltb_ge in E]; try lia end;
    cbn [orb]; try reflexivity.
Qed.

Lemma utf8_encode_ref : forall r, 0 <= r <= 1114111 -> is_high r || is_low r = false -> utf8_encode r = utf8 r.
Proof.
  intros r R S. unfold utf8_encode, utf8. apply orb_false_iff in S. destruct S as [S1 S2]. unfold is_high, is_low in *.
  destruct (r <? 128) eqn:A.
  - apply Z.ltb_lt in A. assert (B : (0 <=? r) && true = true) by (apply andb_true_iff; split; [apply Z.leb_le; lia|reflexivity]).
    rewrite andb_true_r in B. rewrite B. reflexivity.
  - apply Z.ltb_ge in A. rewrite andb_false_r.
    destruct (r <? 2048) eqn:B.
    + apply Z.ltb_lt in B. assert (C : (128 <=? r) = true) by (apply Z.leb_le; lia). rewrite C. reflexivity.
    + apply Z.ltb_ge in B. rewrite andb_false_r.
      assert (N1 : (r <? 0) = false) by (apply Z.ltb_ge; lia).
      assert (N2 : (1114111 <? r) = false) by (apply Z.ltb_ge; lia).
      assert (N3 : (55296 <=? r) && (r <=? 57343) = false).
      { destruct (55296 <=? r) eqn:L1; [|reflexivity]. cbn [andb] in *.
        destruct (r <? 56320) eqn:L2; [discriminate|]. apply Z.ltb_ge in L2.
        assert (L3 : (56320 <=? r) = true) by (apply Z.leb_le; lia). rewrite L3 in S2. cbn [andb] in S2.
        apply Z.ltb_ge in S2. apply Z.leb_gt. lia. }
      rewrite N1, N2, N3. reflexivity.
Qed.

Lemma replacement_encode : utf8_encode 65533 = replacement.
Proof. reflexivity. Qed.

(** unescapeUnicodeChar on a well-formed \uXXXX at the head *)
Lemma uuc_ref : forall bs e h1 h2 h3 h4 r2 u dst, isb 92 bs = true -> isb 117 e = true ->
  hex4 h1 h2 h3 h4 = Some u ->
  unescapeUnicodeChar (bs :: e :: h1 :: h2 :: h3 :: h4 :: r2) dst =
  match pair_of u r2 with
  | Some v => (dst ++ utf8 (pair_cp u v), 12, true)
  | None => (dst ++ single_bytes u, 6, true)
  end.
Proof.
  intros bs e h1 h2 h3 h4 r2 u dst B E HX.
  destruct (hex4_getu4 bs e h1 h2 h3 h4 r2 u B E HX) as [G R].
  unfold unescapeUnicodeChar. rewrite G.
  assert (N : (u <? 0) = false) by (apply Z.ltb_ge; lia). rewrite N.
  change (skipn 6 (bs :: e :: h1 :: h2 :: h3 :: h4 :: r2)) with r2.
  unfold is_surrogate, pair_of, single_bytes, is_high, is_low, utf16_decode.
  destruct (55296 <=? u) eqn:L1; cbn [andb].
  2:{ (* below the surrogates *)
      apply Z.leb_gt in L1. assert (L2 : (56320 <=? u) = false) by (apply Z.leb_gt; lia). rewrite L2. cbn [andb orb].
      rewrite utf8_encode_ref; [reflexivity|lia|]. unfold is_high, is_low. apply Z.leb_gt in L2.
      assert (A : (55296 <=? u) = false) by (apply Z.leb_gt; lia). assert (A2 : (56320 <=? u) = false) by (apply Z.leb_gt; lia).
      rewrite A, A2. reflexivity. }
  apply Z.leb_le in L1.
  destruct (u <? 57344) eqn:L3.
  2:{ (* above the surrogates *)
      apply Z.ltb_ge in L3. assert (L4 : (u <? 56320) = false) by (apply Z.ltb_ge; lia). rewrite L4. cbn [andb orb].
      assert (L5 : (56320 <=? u) = true) by (apply Z.leb_le; lia). rewrite L5. cbn [andb orb].
      rewrite utf8_encode_ref; [reflexivity|lia|]. unfold is_high, is_low.
      assert (A1 : (u <? 56320) = false) by (apply Z.ltb_ge; lia). assert (A2 : (u <? 57344) = false) by (apply Z.ltb_ge; lia).
      rewrite A1, A2, !andb_false_r. reflexivity. }
  apply Z.ltb_lt in L3. rewrite getu4_follow.
  destruct (u <? 56320) eqn:HI; cbn [andb orb].
  - (* high surrogate *)
    apply Z.ltb_lt in HI.
    destruct r2 as [|b2 [|e2 [|g1 [|g2 [|g3 [|g4 r3]]]]]]; try (cbn; reflexivity).
    destruct (if isb 92 b2 && isb 117 e2 then hex4 g1 g2 g3 g4 else None) as [v|] eqn:HV; [|cbn; reflexivity].
    destruct (56320 <=? v) eqn:V1; cbn [andb]; [|cbn; reflexivity].
    destruct (v <? 57344) eqn:V2; cbn [andb]; [|cbn; reflexivity].
    apply Z.leb_le in V1. apply Z.ltb_lt in V2.
    assert (NE : ((u - 55296) * 1024 + (v - 56320) + 65536 =? 65533) = false) by (apply Z.eqb_neq; lia).
    rewrite NE. cbn [negb]. unfold pair_cp.
    rewrite utf8_encode_ref; [reflexivity|lia|]. unfold is_high, is_low.
    assert (A1 : ((u - 55296) * 1024 + (v - 56320) + 65536 <? 56320) = false) by (apply Z.ltb_ge; lia).
    assert (A2 : ((u - 55296) * 1024 + (v - 56320) + 65536 <? 57344) = false) by (apply Z.ltb_ge; lia).
    rewrite A1, A2, !andb_false_r. reflexivity.
  - (* low surrogate *)
    apply Z.ltb_ge in HI. assert (L5 : (56320 <=? u) = true) by (apply Z.leb_le; lia). rewrite L5. cbn. reflexivity.
Qed.
