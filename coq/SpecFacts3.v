(** Third part of the language-level theorems: the string machines (C06).
    appendRemainderOfString and unescapeStringContent over their specification machines
    ([append_spec], [unescape_spec]) against [string_body] / [decode_content] of Ref.v, and the
    composition for the ReadStringBytes model of Api.v. *)
From Coq Require Import List ZArith Bool Lia.
From Coq Require Import Strings.Byte.
From Rjson Require Import Base BaseFacts Helpers Machine MachineFacts Safety Api SpecMachines Ref SpecFacts.
Import ListNotations.
Local Open Scope Z_scope.

(** * Running an escape machine (same discipline as Part 1 of SpecFacts.v, for [esc_machine]) *)
Section ERun.
  Variable md : Z.
  Variable rem_ : bool.          (* true: appendRemainderOfString; false: unescapeStringContent *)
  Variable data : list byte.
  Variable h : handler.
  Let m := esc_machine rem_.
  Let pe := len data.

  Definition econt (f : nat) (e : epos) (s : st) : outcome :=
    if s_p s =? pe then eof_phase md m data h pe (enc_e e) s else run md m data h pe f (enc_e e) s.

  (** the outcome of one transition whose units ran to [r] *)
  Definition efinish (f : nat) (r : ures) (d : option epos) : outcome :=
    match r with
    | RCont s' => match d with Some e' => econt f e' (adv s' 1) | None => ODone (s_p s') (s_err s') s' end
    | RGoto _ _ => OPanic PUnknown
    | ROut s' => ODone (s_p s') (s_err s') s'
    | RRet p e s' => ODone p (Some e) s'
    | RPanic k => OPanic k
    end.

  Lemma enc_e_nonzero : forall e, enc_e e <> 0.
  Proof. destruct e; discriminate. Qed.

  Lemma econt_S : forall f e s b r, At data s (b :: r) ->
    (forall s' z, exec_units md data h pe (fst (etrans rem_ e b)) s <> RGoto s' z) ->
    econt (S f) e s = efinish f (exec_units md data h pe (fst (etrans rem_ e b)) s) (snd (etrans rem_ e b)).
  Proof.
    intros f e s b r H NG. destruct (AtP_cons data _ _ _ H) as (NE & G & _). fold pe in NE.
    unfold econt. apply Z.eqb_neq in NE. rewrite NE. rewrite run_step. unfold step. rewrite G.
    cbn [m_trans m esc_machine]. rewrite dec_e_enc. destruct (etrans rem_ e b) as [us d]. cbn [fst snd] in *.
    destruct (exec_units md data h pe us s) as [s'|s' d'|s'|p' e' s'|k]; cbn [efinish]; try reflexivity.
    - destruct d as [e'|]; cbn [enc_eo].
      + unfold goto_step. pose proof (enc_e_nonzero e') as N. apply Z.eqb_neq in N. rewrite N.
        cbn [m_is_state m esc_machine]. rewrite dec_e_enc, orb_true_r. cbn [negb].
        unfold econt, adv. change (Z.of_nat 1) with 1. cbn [s_p set_p].
        destruct (s_p s' + 1 =? pe); reflexivity.
      + reflexivity.
    - exfalso. exact (NG s' d' eq_refl).
  Qed.

  Lemma econt_eof : forall f e s, At data s [] ->
    econt f e s = match exec_units md data h pe (eeof rem_ e) s with
                  | RCont s' | ROut s' => ODone (s_p s') (s_err s') s'
                  | RRet p e s' => ODone p (Some e) s'
                  | RGoto _ _ => OPanic PUnknown
                  | RPanic k => OPanic k
                  end.
  Proof.
    intros f e s H. unfold econt. pose proof (AtP_nil data _ H) as E. fold pe in E. apply Z.eqb_eq in E. rewrite E.
    unfold eof_phase. cbn [m_eof m esc_machine]. rewrite dec_e_enc. reflexivity.
  Qed.

  Definition EReach (e : epos) (s : st) (e' : epos) (s' : st) : Prop :=
    forall f, (rem data s <= f)%nat -> exists f', (rem data s' <= f')%nat /\ econt f e s = econt f' e' s'.
  Definition EEnds (e : epos) (s : st) (P : outcome -> Prop) : Prop :=
    forall f, (rem data s <= f)%nat -> P (econt f e s).

  Lemma EReach_refl : forall e s, EReach e s e s.
  Proof. intros e s f Fu. exists f. auto. Qed.
  Lemma EReach_trans : forall e1 s1 e2 s2 e3 s3, EReach e1 s1 e2 s2 -> EReach e2 s2 e3 s3 -> EReach e1 s1 e3 s3.
  Proof.
    intros e1 s1 e2 s2 e3 s3 A B f Fu. destruct (A f Fu) as (f1 & F1 & E1).
    destruct (B f1 F1) as (f2 & F2 & E2). exists f2. split; auto. congruence.
  Qed.
  Lemma EReach_Ends : forall e s e' s' P, EReach e s e' s' -> EEnds e' s' P -> EEnds e s P.
  Proof. intros e s e' s' P A B f Fu. destruct (A f Fu) as (f1 & F1 & E1). rewrite E1. apply B; auto. Qed.

  (** one transition whose units run through and do not move backwards *)
  Lemma EReach_step : forall e e' s s1 b r us, At data s (b :: r) -> etrans rem_ e b = (us, Some e') ->
    exec_units md data h pe us s = RCont s1 -> s_p s <= s_p s1 -> EReach e s e' (adv s1 1).
  Proof.
    intros e e' s s1 b r us H T X P f Fu. pose proof (rem_cons data _ _ _ H) as RC. rewrite RC in Fu.
    destruct f as [|f]; [lia|]. exists f. split.
    - unfold rem in *. rewrite s_p_adv in *. lia.
    - rewrite (econt_S f e s b r H); rewrite T; cbn [fst snd]; rewrite X; [reflexivity|discriminate].
  Qed.

  Lemma EEnds_step : forall e s b r (P : outcome -> Prop), At data s (b :: r) ->
    (forall s' z, exec_units md data h pe (fst (etrans rem_ e b)) s <> RGoto s' z) ->
    (forall f, P (efinish f (exec_units md data h pe (fst (etrans rem_ e b)) s) (snd (etrans rem_ e b)))) ->
    EEnds e s P.
  Proof.
    intros e s b r P H NG X f Fu. rewrite (rem_cons data _ _ _ H) in Fu.
    destruct f as [|f]; [lia|]. rewrite (econt_S f e s b r H NG). apply X.
  Qed.

  Lemma eprun_cont : forall stack dst, prun md m data h stack dst = econt (fuel_for data) EStart (init_st stack dst).
  Proof. intros. reflexivity. Qed.
  Lemma EEnds_prun : forall stack dst (P : outcome -> Prop),
    EEnds EStart (init_st stack dst) P -> P (prun md m data h stack dst).
  Proof.
    intros stack dst P E. rewrite eprun_cont. apply E. unfold rem, fuel_for, len. cbn [s_p init_st]. lia.
  Qed.
End ERun.

(** * The \u escape: Helpers.unescapeUnicodeChar against the reference decoding *)
Definition pair_of (u : Z) (r2 : list byte) : option Z :=
  if is_high u then
    match r2 with
    | b2 :: e2 :: g1 :: g2 :: g3 :: g4 :: _ =>
      match (if isb 92 b2 && isb 117 e2 then hex4 g1 g2 g3 g4 else None) with
      | Some v => if is_low v then Some v else None
      | None => None
      end
    | _ => None
    end
  else None.

Definition pair_cp (u v : Z) : Z := (u - 55296) * 1024 + (v - 56320) + 65536.
Definition single_bytes (u : Z) : list byte := if is_high u || is_low u then replacement else utf8 u.

Lemma decode_u : forall bs e h1 h2 h3 h4 r2 u, isb 92 bs = true -> isb 117 e = true ->
  hex4 h1 h2 h3 h4 = Some u ->
  decode_content (bs :: e :: h1 :: h2 :: h3 :: h4 :: r2) =
  match pair_of u r2 with
  | Some v => option_map (app (utf8 (pair_cp u v))) (decode_content (skipn 6 r2))
  | None => option_map (app (single_bytes u)) (decode_content r2)
  end.
Proof.
  intros bs e h1 h2 h3 h4 r2 u B E HX. cbn [decode_content]. rewrite B.
  assert (SE : simple_escape e = None).
  { apply Z.eqb_eq in E. unfold simple_escape. rewrite E. reflexivity. }
  rewrite SE, E, HX. unfold pair_of, single_bytes.
  destruct (is_high u) eqn:HI.
  - cbn [orb]. destruct r2 as [|b2 [|e2 [|g1 [|g2 [|g3 [|g4 r3]]]]]]; try reflexivity.
    destruct (if isb 92 b2 && isb 117 e2 then hex4 g1 g2 g3 g4 else None) as [v|]; [|reflexivity].
    destruct (is_low v); reflexivity.
  - cbn [orb]. destruct (is_low u); reflexivity.
Qed.

Lemma hexval_range : forall b, r_is_hex b = true -> 0 <= hexval b <= 15.
Proof.
  intro b. pose proof (forall_bytes (fun b => negb (r_is_hex b) || ((0 <=? hexval b) && (hexval b <=? 15))) ltac:(vm_compute; reflexivity) b) as H.
  intros X. cbn beta in H. rewrite X in H. cbn in H. apply andb_true_iff in H. destruct H as [A B].
  apply Z.leb_le in A, B. lia.
Qed.

Lemma hex4_getu4 : forall bs e h1 h2 h3 h4 r u, isb 92 bs = true -> isb 117 e = true ->
  hex4 h1 h2 h3 h4 = Some u -> getu4 (bs :: e :: h1 :: h2 :: h3 :: h4 :: r) = u /\ 0 <= u < 65536.
Proof.
  intros bs e h1 h2 h3 h4 r u B E HX. unfold hex4 in HX.
  destruct (r_is_hex h1) eqn:X1; [|discriminate]. destruct (r_is_hex h2) eqn:X2; [|discriminate].
  destruct (r_is_hex h3) eqn:X3; [|discriminate]. destruct (r_is_hex h4) eqn:X4; [|discriminate].
  cbn in HX. inversion HX as [U].
  pose proof (hexval_range _ X1). pose proof (hexval_range _ X2). pose proof (hexval_range _ X3). pose proof (hexval_range _ X4).
  split; [|lia].
  unfold getu4. change (bz bs =? 92) with (isb 92 bs). change (bz e =? 117) with (isb 117 e). rewrite B, E. cbn [andb].
  assert (N : forall x, 0 <= x -> (x <? 0) = false) by (intros; apply Z.ltb_ge; lia).
  rewrite !N by lia. reflexivity.
Qed.

(** getu4 on what follows: the code unit of a well-formed \uXXXX, or -1 *)
Lemma getu4_follow : forall r2,
  getu4 r2 = match r2 with
             | b2 :: e2 :: g1 :: g2 :: g3 :: g4 :: _ =>
               match (if isb 92 b2 && isb 117 e2 then hex4 g1 g2 g3 g4 else None) with Some v => v | None => -1 end
             | _ => -1
             end.
Proof.
  intros r2. destruct r2 as [|b2 [|e2 [|g1 [|g2 [|g3 [|g4 r3]]]]]]; try reflexivity.
  unfold getu4. change (bz b2 =? 92) with (isb 92 b2). change (bz e2 =? 117) with (isb 117 e2).
  destruct (isb 92 b2 && isb 117 e2); [|reflexivity].
  unfold hex4, r_is_hex.
  destruct (0 <=? hexval g1) eqn:X1; destruct (0 <=? hexval g2) eqn:X2; destruct (0 <=? hexval g3) eqn:X3; destruct (0 <=? hexval g4) eqn:X4;
    cbn [andb];
    repeat match goal with H : (0 <=? _) = true |- _ => apply Z.leb_le in H | H : (0 <=? _) = false |- _ => apply Z.leb_gt in H end;
    repeat match goal with |- context [?x <? 0] => let E := fresh in destruct (x <? 0) eqn:E; [apply Z.ltb_lt in E|apply Z.ltb_ge in E]; try lia end;
    cbn [orb]; try reflexivity.
Qed.

Lemma utf8_encode_ref : forall r, 0 <= r <= 1114111 -> is_high r || is_low r = false -> utf8_encode r = utf8 r.
Proof.
  intros r R S. unfold utf8_encode, utf8. apply orb_false_iff in S. destruct S as [S1 S2]. unfold is_high, is_low in *.
  destruct (r <? 128) eqn:A.
  - apply Z.ltb_lt in A. assert (B : (0 <=? r) && true = true) by (apply andb_true_iff; split; [apply Z.leb_le; lia|reflexivity]).
    rewrite andb_true_r in B. rewrite B. reflexivity.
  - apply Z.ltb_ge in A. rewrite andb_false_r.
    destruct (r <? 2048) eqn:B.
    + apply Z.ltb_lt in B. assert (C : (128 <=? r) = true) by (apply Z.leb_le; lia). rewrite C. reflexivity.
    + apply Z.ltb_ge in B. rewrite andb_false_r.
      assert (N1 : (r <? 0) = false) by (apply Z.ltb_ge; lia).
      assert (N2 : (1114111 <? r) = false) by (apply Z.ltb_ge; lia).
      assert (N3 : (55296 <=? r) && (r <=? 57343) = false).
      { destruct (55296 <=? r) eqn:L1; [|reflexivity]. cbn [andb] in *.
        destruct (r <? 56320) eqn:L2; [discriminate|]. apply Z.ltb_ge in L2.
        assert (L3 : (56320 <=? r) = true) by (apply Z.leb_le; lia). rewrite L3 in S2. cbn [andb] in S2.
        apply Z.ltb_ge in S2. apply Z.leb_gt. lia. }
      rewrite N1, N2, N3. reflexivity.
Qed.

Lemma replacement_encode : utf8_encode 65533 = replacement.
Proof. reflexivity. Qed.

(** unescapeUnicodeChar on a well-formed \uXXXX at the head *)
Lemma uuc_ref : forall bs e h1 h2 h3 h4 r2 u dst, isb 92 bs = true -> isb 117 e = true ->
  hex4 h1 h2 h3 h4 = Some u ->
  unescapeUnicodeChar (bs :: e :: h1 :: h2 :: h3 :: h4 :: r2) dst =
  match pair_of u r2 with
  | Some v => (dst ++ utf8 (pair_cp u v), 12, true)
  | None => (dst ++ single_bytes u, 6, true)
  end.
Proof.
  intros bs e h1 h2 h3 h4 r2 u dst B E HX.
  destruct (hex4_getu4 bs e h1 h2 h3 h4 r2 u B E HX) as [G R].
  unfold unescapeUnicodeChar. rewrite G.
  assert (N : (u <? 0) = false) by (apply Z.ltb_ge; lia). rewrite N.
  change (skipn 6 (bs :: e :: h1 :: h2 :: h3 :: h4 :: r2)) with r2.
  unfold is_surrogate, pair_of, single_bytes, is_high, is_low, utf16_decode.
  destruct (55296 <=? u) eqn:L1; cbn [andb].
  2:{ (* below the surrogates *)
      apply Z.leb_gt in L1. assert (L2 : (56320 <=? u) = false) by (apply Z.leb_gt; lia). rewrite L2. cbn [andb orb].
      rewrite utf8_encode_ref; [reflexivity|lia|]. unfold is_high, is_low. apply Z.leb_gt in L2.
      assert (A : (55296 <=? u) = false) by (apply Z.leb_gt; lia). assert (A2 : (56320 <=? u) = false) by (apply Z.leb_gt; lia).
      rewrite A, A2. reflexivity. }
  apply Z.leb_le in L1.
  destruct (u <? 57344) eqn:L3.
  2:{ (* above the surrogates *)
      apply Z.ltb_ge in L3. assert (L4 : (u <? 56320) = false) by (apply Z.ltb_ge; lia). rewrite L4. cbn [andb orb].
      assert (L5 : (56320 <=? u) = true) by (apply Z.leb_le; lia). rewrite L5. cbn [andb orb].
      rewrite utf8_encode_ref; [reflexivity|lia|]. unfold is_high, is_low.
      assert (A1 : (u <? 56320) = false) by (apply Z.ltb_ge; lia). assert (A2 : (u <? 57344) = false) by (apply Z.ltb_ge; lia).
      rewrite A1, A2, !andb_false_r. reflexivity. }
  apply Z.ltb_lt in L3. rewrite getu4_follow.
  destruct (u <? 56320) eqn:HI; cbn [andb orb].
  - (* high surrogate *)
    apply Z.ltb_lt in HI.
    destruct r2 as [|b2 [|e2 [|g1 [|g2 [|g3 [|g4 r3]]]]]]; try (cbn; reflexivity).
    destruct (if isb 92 b2 && isb 117 e2 then hex4 g1 g2 g3 g4 else None) as [v|] eqn:HV; [|cbn; reflexivity].
    destruct (56320 <=? v) eqn:V1; cbn [andb]; [|cbn; reflexivity].
    destruct (v <? 57344) eqn:V2; cbn [andb]; [|cbn; reflexivity].
    apply Z.leb_le in V1. apply Z.ltb_lt in V2.
    assert (NE : ((u - 55296) * 1024 + (v - 56320) + 65536 =? 65533) = false) by (apply Z.eqb_neq; lia).
    rewrite NE. cbn [negb]. unfold pair_cp.
    rewrite utf8_encode_ref; [reflexivity|lia|]. unfold is_high, is_low.
    assert (A1 : ((u - 55296) * 1024 + (v - 56320) + 65536 <? 56320) = false) by (apply Z.ltb_ge; lia).
    assert (A2 : ((u - 55296) * 1024 + (v - 56320) + 65536 <? 57344) = false) by (apply Z.ltb_ge; lia).
    rewrite A1, A2, !andb_false_r. reflexivity.
  - (* low surrogate *)
    apply Z.ltb_ge in HI. assert (L5 : (56320 <=? u) = true) by (apply Z.leb_le; lia). rewrite L5. cbn. reflexivity.
Qed.

(** * Steps of the escape machines over string content *)
Definition IsErr (o : outcome) : Prop := exists p e s', o = ODone p (Some e) s'.

Section Esc.
  Variable md : Z.
  Variable rem_ : bool.
  Variable data : list byte.
  Variable h : handler.
  Let pe := len data.

  Notation ER := (EReach md rem_ data h).
  Notation EE := (EEnds md rem_ data h).
  Notation AtS := (At data).

  (** plain bytes are appended one step late: [pend] is the byte read but not yet appended *)
  Definition est (pend : option byte) : epos := match pend with None => EStart | Some _ => EPlain end.
  Definition ldst (s : st) (pend : option byte) : list byte :=
    match pend with None => s_dst s | Some b => s_dst s ++ [b] end.
  Definition flushed (s : st) (pend : option byte) : st :=
    match pend with None => s | Some b => set_dst s (s_dst s ++ [b]) end.
  Definition Pend (s : st) (pend : option byte) (l : list byte) : Prop :=
    match pend with None => True | Some pb => s_seg s = s_p s - 1 /\ AtP data (s_p s - 1) (pb :: l) end.
  Definition closeu (pend : option byte) : list unit_ := match pend with Some _ => [UAppendSeg] | None => [] end.

  (** what is unchanged along the way *)
  Definition Same (s s' : st) : Prop := s_calls s' = s_calls s /\ s_val s' = s_val s /\ s_err s' = s_err s.
  Lemma Same_refl : forall s, Same s s. Proof. intros s. repeat split. Qed.
  Lemma Same_trans : forall a b c, Same a b -> Same b c -> Same a c.
  Proof. intros a b c (A1 & A2 & A3) (B1 & B2 & B3). repeat split; congruence. Qed.

  Lemma etrans_content : forall pend b,
    etrans rem_ (est pend) b =
    if isb 92 b then (closeu pend ++ [USegStart], Some EEsc)
    else if isb 34 b then (if rem_ then (closeu pend, Some EDone) else ([], None))
    else if r_is_ctl b then (if rem_ then ([UReturnErr EInvalidString], None) else ([], None))
    else (closeu pend ++ [USegStart], Some EPlain).
  Proof. intros [pb|] b; reflexivity. Qed.

  Lemma close_exec : forall s pend l us, AtS s l -> Pend s pend l ->
    exec_units md data h pe (closeu pend ++ us) s = exec_units md data h pe us (flushed s pend).
  Proof.
    intros s [pb|] l us H P; [|reflexivity]. destruct P as [SG [[A0 A1] SK]]. destruct H as [[P0 P1] _].
    cbn [closeu app exec_units exec_unit flushed]. unfold slice. rewrite SG.
    assert (C : (0 <=? s_p s - 1) && (s_p s - 1 <=? s_p s) && (s_p s <=? len data) = true).
    { repeat (apply andb_true_iff; split); apply Z.leb_le; lia. }
    rewrite C, SK. replace (Z.to_nat (s_p s - (s_p s - 1))) with 1%nat by lia. reflexivity.
  Qed.

  Lemma s_p_flushed : forall s pend, s_p (flushed s pend) = s_p s.
  Proof. intros s [pb|]; reflexivity. Qed.
  Lemma s_dst_flushed : forall s pend, s_dst (flushed s pend) = ldst s pend.
  Proof. intros s [pb|]; reflexivity. Qed.
  Lemma Same_flushed : forall s pend, Same s (flushed s pend).
  Proof. intros s [pb|]; repeat split. Qed.

  (** a plain content byte *)
  Lemma step_plain : forall s pend b r, AtS s (b :: r) -> Pend s pend (b :: r) ->
    isb 92 b = false -> isb 34 b = false -> r_is_ctl b = false ->
    exists s', ER (est pend) s EPlain s' /\ AtS s' r /\ Pend s' (Some b) r /\ s_p s' = s_p s + 1 /\
               ldst s' (Some b) = ldst s pend ++ [b] /\ Same s s'.
  Proof.
    intros s pend b r H P B Q C.
    exists (adv (set_seg (flushed s pend) (s_p s)) 1).
    assert (T : etrans rem_ (est pend) b = (closeu pend ++ [USegStart], Some EPlain)) by (rewrite etrans_content, B, Q, C; reflexivity).
    split; [|split; [|split; [|split; [|split]]]].
    - eapply EReach_step; [exact H|exact T| |cbn; rewrite s_p_flushed; lia].
      fold pe. rewrite (close_exec s pend _ _ H P). cbn [exec_units exec_unit]. rewrite s_p_flushed. reflexivity.
    - unfold At. cbn [s_p adv set_p set_seg]. rewrite s_p_flushed. destruct (AtP_cons data _ _ _ H) as (_ & _ & A). exact A.
    - cbn [Pend s_seg s_p adv set_p set_seg]. rewrite s_p_flushed. split; [cbn; lia|].
      replace (s_p s + Z.of_nat 1 - 1) with (s_p s) by (cbn; lia). exact H.
    - cbn [s_p adv set_p set_seg]. rewrite s_p_flushed. reflexivity.
    - cbn [ldst s_dst adv set_p set_seg]. rewrite s_dst_flushed. reflexivity.
    - destruct (Same_flushed s pend) as (A1 & A2 & A3). repeat split; cbn; auto.
  Qed.

  (** a backslash: the pending byte is appended, the escape starts *)
  Lemma step_bslash : forall s pend b r, AtS s (b :: r) -> Pend s pend (b :: r) -> isb 92 b = true ->
    exists s', ER (est pend) s EEsc s' /\ AtS s' r /\ s_seg s' = s_p s' - 1 /\ AtP data (s_p s' - 1) (b :: r) /\
               s_p s' = s_p s + 1 /\ s_dst s' = ldst s pend /\ Same s s'.
  Proof.
    intros s pend b r H P B.
    exists (adv (set_seg (flushed s pend) (s_p s)) 1).
    assert (T : etrans rem_ (est pend) b = (closeu pend ++ [USegStart], Some EEsc)) by (rewrite etrans_content, B; reflexivity).
    split; [|split; [|split; [|split; [|split; [|split]]]]].
    - eapply EReach_step; [exact H|exact T| |cbn; rewrite s_p_flushed; lia].
      fold pe. rewrite (close_exec s pend _ _ H P). cbn [exec_units exec_unit]. rewrite s_p_flushed. reflexivity.
    - unfold At. cbn [s_p adv set_p set_seg]. rewrite s_p_flushed. destruct (AtP_cons data _ _ _ H) as (_ & _ & A). exact A.
    - cbn [s_seg s_p adv set_p set_seg]. rewrite s_p_flushed. cbn. lia.
    - cbn [s_p adv set_p set_seg]. rewrite s_p_flushed. replace (s_p s + Z.of_nat 1 - 1) with (s_p s) by (cbn; lia). exact H.
    - cbn [s_p adv set_p set_seg]. rewrite s_p_flushed. reflexivity.
    - cbn [s_dst adv set_p set_seg]. apply s_dst_flushed.
    - destruct (Same_flushed s pend) as (A1 & A2 & A3). repeat split; cbn; auto.
  Qed.

  Lemma escape_byte_simple : forall e x, simple_escape e = Some x -> escape_byte rem_ e = Some x.
  Proof.
    intros e x H. unfold simple_escape in H. unfold escape_byte. cbv zeta in *.
    destruct (bz e =? 34); [exact H|]. destruct (bz e =? 92); [exact H|]. destruct (bz e =? 47); [exact H|].
    destruct (bz e =? 98); [exact H|]. destruct (bz e =? 102); [exact H|]. destruct (bz e =? 110); [exact H|].
    destruct (bz e =? 114); [exact H|]. destruct (bz e =? 116); [exact H|]. discriminate.
  Qed.

  (** a one-letter escape *)
  Lemma step_simple : forall s e r1 x, AtS s (e :: r1) -> simple_escape e = Some x ->
    ER EEsc s EStart (adv (set_dst s (s_dst s ++ [zb x])) 1).
  Proof.
    intros s e r1 x H SE.
    assert (T : etrans rem_ EEsc e = ([UAppendByte x], Some EStart)) by (cbn [etrans]; rewrite (escape_byte_simple e x SE); reflexivity).
    eapply EReach_step; [exact H|exact T|reflexivity|cbn; lia].
  Qed.

  (** a \uXXXX escape (and the low surrogate escape after it when they form a pair) *)
  Lemma step_unicode : forall s bs e h1 h2 h3 h4 r2 u, AtS s (e :: h1 :: h2 :: h3 :: h4 :: r2) ->
    s_seg s = s_p s - 1 -> AtP data (s_p s - 1) (bs :: e :: h1 :: h2 :: h3 :: h4 :: r2) ->
    isb 92 bs = true -> isb 117 e = true -> hex4 h1 h2 h3 h4 = Some u ->
    let bytes := match pair_of u r2 with Some v => utf8 (pair_cp u v) | None => single_bytes u end in
    let extra := match pair_of u r2 with Some _ => 6%nat | None => 0%nat end in
    exists s', ER EEsc s EStart s' /\ s_p s' = s_p s + Z.of_nat (5 + extra) /\ AtS s' (skipn extra r2) /\
               s_dst s' = s_dst s ++ bytes /\ Same s s'.
  Proof.
    intros s bs e h1 h2 h3 h4 r2 u H SG AB B E HX bytes extra.
    assert (SE : simple_escape e = None) by (apply Z.eqb_eq in E; unfold simple_escape; rewrite E; reflexivity).
    assert (EB : escape_byte rem_ e = None).
    { apply Z.eqb_eq in E. unfold escape_byte. rewrite E. destruct rem_; reflexivity. }
    unfold hex4 in HX.
    destruct (r_is_hex h1) eqn:X1; [|discriminate]. destruct (r_is_hex h2) eqn:X2; [|discriminate].
    destruct (r_is_hex h3) eqn:X3; [|discriminate]. destruct (r_is_hex h4) eqn:X4; [|discriminate].
    assert (HX' : hex4 h1 h2 h3 h4 = Some u) by (unfold hex4; rewrite X1, X2, X3, X4; exact HX).
    assert (R1 : ER EEsc s EU4 (adv s 1)).
    { assert (T : etrans rem_ EEsc e = ([], Some EU4)) by (cbn [etrans]; rewrite EB; unfold is; change (bz e =? 117) with (isb 117 e); rewrite E; reflexivity).
      eapply EReach_step; [exact H|exact T|reflexivity|cbn; lia]. }
    pose proof (At_adv1 data _ _ _ H) as H1.
    assert (HS : forall s0 x rest e0 e1, AtS s0 (x :: rest) -> r_is_hex x = true ->
               (e0 = EU4 /\ e1 = EU3) \/ (e0 = EU3 /\ e1 = EU2) \/ (e0 = EU2 /\ e1 = EU1) -> ER e0 s0 e1 (adv s0 1)).
    { intros s0 x rest e0 e1 H0 X EQ.
      assert (T : etrans rem_ e0 x = ([], Some e1))
        by (destruct EQ as [[-> ->]|[[-> ->]|[-> ->]]]; cbn [etrans]; change (is_hex x) with (r_is_hex x); rewrite X; reflexivity).
      eapply EReach_step; [exact H0|exact T|reflexivity|cbn; lia]. }
    pose proof (HS _ _ _ EU4 EU3 H1 X1 ltac:(auto)) as R2. pose proof (At_adv1 data _ _ _ H1) as H2.
    pose proof (HS _ _ _ EU3 EU2 H2 X2 ltac:(auto)) as R3. pose proof (At_adv1 data _ _ _ H2) as H3.
    pose proof (HS _ _ _ EU2 EU1 H3 X3 ltac:(auto)) as R4. pose proof (At_adv1 data _ _ _ H3) as H4.
    rewrite !adv_adv in *. cbn [Nat.add] in *.
    (* the last hex digit: unescape *)
    set (s4 := adv s 4) in *.
    assert (SK : skipn (Z.to_nat (s_seg s4)) data = bs :: e :: h1 :: h2 :: h3 :: h4 :: r2).
    { unfold s4. cbn [s_seg adv set_p]. rewrite SG. destruct AB as [_ SK]. exact SK. }
    assert (SR : (0 <=? s_seg s4) && (s_seg s4 <=? pe) = true).
    { unfold s4. cbn [s_seg adv set_p]. rewrite SG. destruct AB as [[A0 A1] _]. fold pe in A1.
      apply andb_true_iff; split; apply Z.leb_le; lia. }
    pose proof (uuc_ref bs e h1 h2 h3 h4 r2 u (s_dst s4) B E HX') as UU.
    assert (T4 : etrans rem_ EU1 h4 = ([UUnescapeU; UNotOkRet; UAdvanceU], Some EStart)).
    { cbn [etrans]. change (is_hex h4) with (r_is_hex h4). rewrite X4. reflexivity. }
    assert (LEN6 : pair_of u r2 <> None -> (6 <= length r2)%nat).
    { unfold pair_of. destruct (is_high u); [|congruence].
      destruct r2 as [|b2 [|e2 [|g1 [|g2 [|g3 [|g4 r3]]]]]]; try congruence. intros _. cbn. lia. }
    destruct (pair_of u r2) as [v|] eqn:PO; subst bytes extra.
    - set (s5 := set_p (set_ub s4 (s_dst s4 ++ utf8 (pair_cp u v)) 12 true) (s_p s4 + (12 - 6))).
      assert (R5 : ER EU1 s4 EStart (adv s5 1)).
      { eapply EReach_step; [exact H4|exact T4| |unfold s5; cbn; lia].
        cbn [exec_units exec_unit]. fold pe. rewrite SR, SK, UU. reflexivity. }
      exists (adv s5 1). split; [|split; [|split; [|split]]].
      + eapply EReach_trans; [exact R1|]. eapply EReach_trans; [exact R2|]. eapply EReach_trans; [exact R3|].
        eapply EReach_trans; [exact R4|exact R5].
      + unfold s5, s4. cbn. lia.
      + assert (L6 := LEN6 ltac:(congruence)).
        pose proof (At_adv data s4 (h4 :: r2) 7 H4 ltac:(cbn [length]; lia)) as A7. cbn [skipn] in A7.
        unfold At in *. replace (s_p (adv s5 1)) with (s_p (adv s4 7)) by (unfold s5, s4; cbn; lia). exact A7.
      + unfold s5, s4. cbn. reflexivity.
      + unfold s5, s4. repeat split.
    - set (s5 := set_ub s4 (s_dst s4 ++ single_bytes u) 6 true).
      assert (R5 : ER EU1 s4 EStart (adv s5 1)).
      { eapply EReach_step; [exact H4|exact T4| |unfold s5; cbn; lia].
        cbn [exec_units exec_unit]. fold pe. rewrite SR, SK, UU. reflexivity. }
      exists (adv s5 1). split; [|split; [|split; [|split]]].
      + eapply EReach_trans; [exact R1|]. eapply EReach_trans; [exact R2|]. eapply EReach_trans; [exact R3|].
        eapply EReach_trans; [exact R4|exact R5].
      + unfold s5, s4. cbn. lia.
      + cbn [skipn]. pose proof (At_adv1 data _ _ _ H4) as A5.
        unfold At in *. replace (s_p (adv s5 1)) with (s_p (adv s4 1)) by (unfold s5, s4; cbn; lia). exact A5.
      + unfold s5, s4. cbn. reflexivity.
      + unfold s5, s4. repeat split.
  Qed.
End Esc.

(** * appendRemainderOfString *)
Lemma string_body_pos : forall l k, string_body l = Some k -> k = S (pred k).
Proof.
  intros [|b r] k H; [discriminate|]. cbn [string_body] in H.
  destruct (isb 34 b); [inversion H; reflexivity|].
  destruct (isb 92 b).
  - destruct r as [|e r1]; [discriminate|]. destruct (simple_escape e).
    + destruct (string_body r1); [|discriminate]. inversion H; reflexivity.
    + destruct (isb 117 e); [|discriminate]. destruct r1 as [|h1 [|h2 [|h3 [|h4 r2]]]]; try discriminate.
      destruct (r_is_hex h1 && r_is_hex h2 && r_is_hex h3 && r_is_hex h4); [|discriminate].
      destruct (string_body r2); [|discriminate]. inversion H; reflexivity.
  - destruct (r_is_ctl b); [discriminate|]. destruct (string_body r); [|discriminate]. inversion H; reflexivity.
Qed.

Lemma pair_string_body : forall u r2 v, pair_of u r2 = Some v ->
  string_body r2 = option_map (fun n => (6 + n)%nat) (string_body (skipn 6 r2)).
Proof.
  intros u r2 v P. unfold pair_of in P. destruct (is_high u); [|discriminate].
  destruct r2 as [|b2 [|e2 [|g1 [|g2 [|g3 [|g4 r3]]]]]]; try discriminate.
  destruct (isb 92 b2) eqn:B; [|discriminate]. destruct (isb 117 e2) eqn:E; [|discriminate]. cbn [andb] in P.
  destruct (hex4 g1 g2 g3 g4) as [x|] eqn:HX; [|discriminate].
  cbn [string_body skipn].
  assert (Q : isb 34 b2 = false) by (apply Z.eqb_eq in B; unfold isb; rewrite B; reflexivity).
  assert (SE : simple_escape e2 = None) by (apply Z.eqb_eq in E; unfold simple_escape; rewrite E; reflexivity).
  rewrite Q, B, SE, E. unfold hex4 in HX. destruct (r_is_hex g1 && r_is_hex g2 && r_is_hex g3 && r_is_hex g4); [reflexivity|discriminate].
Qed.

Section Append.
  Variable md : Z.
  Variable data : list byte.
  Variable h : handler.
  Let pe := len data.
  Notation ER := (EReach md true data h).
  Notation EE := (EEnds md true data h).
  Notation AtS := (At data).

  Lemma err_step : forall e s b r, AtS s (b :: r) -> etrans true e b = ([UReturnErr EInvalidString], None) -> EE e s IsErr.
  Proof.
    intros e s b r H T. eapply EEnds_step; [exact H| |]; rewrite T; cbn; [discriminate|].
    intros f. do 3 eexists. reflexivity.
  Qed.
  Lemma err_eof : forall e s, AtS s [] -> eeof true e = [UReturnErr EInvalidString] -> EE e s IsErr.
  Proof. intros e s H T f _. rewrite (econt_eof md true data h f e s H), T. cbn. do 3 eexists. reflexivity. Qed.

  Lemma done_e : forall s l, AtS s l -> EE EDone s (fun o => o = ODone (s_p s) (s_err s) s).
  Proof.
    intros s [|b r] H.
    - intros f _. rewrite (econt_eof md true data h f EDone s H). reflexivity.
    - eapply EEnds_step; [exact H| |]; cbn; [discriminate|]. intros f. reflexivity.
  Qed.

  (** \u followed by something that is not four hex digits *)
  Lemma esc_u_fail : forall s e r1, AtS s (e :: r1) -> isb 117 e = true ->
    match r1 with
    | h1 :: h2 :: h3 :: h4 :: _ => r_is_hex h1 && r_is_hex h2 && r_is_hex h3 && r_is_hex h4 = false
    | _ => True
    end -> EE EEsc s IsErr.
  Proof.
    intros s e r1 H E C.
    assert (EB : escape_byte true e = None) by (apply Z.eqb_eq in E; unfold escape_byte; rewrite E; reflexivity).
    assert (T0 : etrans true EEsc e = ([], Some EU4))
      by (cbn [etrans]; rewrite EB; unfold is; change (bz e =? 117) with (isb 117 e); rewrite E; reflexivity).
    assert (R1 : ER EEsc s EU4 (adv s 1)) by (eapply EReach_step; [exact H|exact T0|reflexivity|cbn; lia]).
    pose proof (At_adv1 data _ _ _ H) as H1.
    assert (GO : forall s0 x rest e0 e1, AtS s0 (x :: rest) -> r_is_hex x = true ->
               (e0 = EU4 /\ e1 = EU3) \/ (e0 = EU3 /\ e1 = EU2) \/ (e0 = EU2 /\ e1 = EU1) -> ER e0 s0 e1 (adv s0 1)).
    { intros s0 x rest e0 e1 H0 X EQ.
      assert (T : etrans true e0 x = ([], Some e1))
        by (destruct EQ as [[-> ->]|[[-> ->]|[-> ->]]]; cbn [etrans]; change (is_hex x) with (r_is_hex x); rewrite X; reflexivity).
      eapply EReach_step; [exact H0|exact T|reflexivity|cbn; lia]. }
    assert (BAD : forall s0 x rest e0, AtS s0 (x :: rest) -> r_is_hex x = false ->
               (e0 = EU4 \/ e0 = EU3 \/ e0 = EU2 \/ e0 = EU1) -> EE e0 s0 IsErr).
    { intros s0 x rest e0 H0 X EQ. eapply err_step; [exact H0|].
      destruct EQ as [->|[->|[->| ->]]]; cbn [etrans]; change (is_hex x) with (r_is_hex x); rewrite X; reflexivity. }
    assert (EOFU : forall s0 e0, AtS s0 [] -> (e0 = EU4 \/ e0 = EU3 \/ e0 = EU2 \/ e0 = EU1) -> EE e0 s0 IsErr).
    { intros s0 e0 H0 EQ. apply err_eof; [exact H0|]. destruct EQ as [->|[->|[->| ->]]]; reflexivity. }
    eapply EReach_Ends; [exact R1|].
    destruct r1 as [|h1 r]; [apply EOFU; auto|].
    destruct (r_is_hex h1) eqn:X1; [|eapply BAD; eauto].
    eapply EReach_Ends; [eapply (GO _ _ _ EU4 EU3); eauto|]. pose proof (At_adv1 data _ _ _ H1) as H2.
    destruct r as [|h2 r]; [apply EOFU; auto|].
    destruct (r_is_hex h2) eqn:X2; [|eapply BAD; eauto].
    eapply EReach_Ends; [eapply (GO _ _ _ EU3 EU2); eauto|]. pose proof (At_adv1 data _ _ _ H2) as H3.
    destruct r as [|h3 r]; [apply EOFU; auto|].
    destruct (r_is_hex h3) eqn:X3; [|eapply BAD; eauto].
    eapply EReach_Ends; [eapply (GO _ _ _ EU2 EU1); eauto|]. pose proof (At_adv1 data _ _ _ H3) as H4.
    destruct r as [|h4 r]; [apply EOFU; auto 6|].
    cbn [andb] in C. destruct (r_is_hex h4) eqn:X4; [discriminate|]. eapply BAD; eauto 6.
  Qed.

  (** malformed string content is refused *)
  Lemma append_fail : forall n l s pend, (length l <= n)%nat -> AtS s l -> Pend data s pend l ->
    string_body l = None -> EE (est pend) s IsErr.
  Proof.
    induction n as [|n IH]; intros l s pend L H P SBN.
    - destruct l; [|cbn in L; lia]. apply err_eof; [exact H|destruct pend; reflexivity].
    - destruct l as [|b r]; [apply err_eof; [exact H|destruct pend; reflexivity]|].
      cbn [string_body] in SBN. cbn [length] in L. pose proof (etrans_content true pend b) as TC.
      destruct (isb 34 b) eqn:Q; [discriminate|].
      destruct (isb 92 b) eqn:B.
      { destruct (step_bslash md true data h s pend b r H P B) as (s1 & R1 & H1 & SG1 & AB1 & P1 & D1 & S1).
        eapply EReach_Ends; [exact R1|].
        destruct r as [|e r1]; [apply err_eof; [exact H1|reflexivity]|].
        destruct (simple_escape e) as [x|] eqn:SE.
        - pose proof (step_simple md true data h s1 e r1 x H1 SE) as R2.
          eapply EReach_Ends; [exact R2|].
          apply (IH r1 _ None); [cbn [length] in L; lia| |exact I|].
          + apply (At_adv1 data (set_dst s1 (s_dst s1 ++ [zb x])) e r1); exact H1.
          + destruct (string_body r1); [discriminate|reflexivity].
        - destruct (isb 117 e) eqn:E.
          2:{ eapply err_step; [exact H1|].
              assert (EB : escape_byte true e = None).
              { unfold simple_escape in SE. unfold escape_byte. cbv zeta in *.
                destruct (bz e =? 34); [discriminate|]. destruct (bz e =? 92); [discriminate|]. destruct (bz e =? 47); [discriminate|].
                destruct (bz e =? 98); [discriminate|]. destruct (bz e =? 102); [discriminate|]. destruct (bz e =? 110); [discriminate|].
                destruct (bz e =? 114); [discriminate|]. destruct (bz e =? 116); [discriminate|]. reflexivity. }
              cbn [etrans]. rewrite EB. unfold is. change (bz e =? 117) with (isb 117 e). rewrite E. reflexivity. }
          destruct r1 as [|h1 [|h2 [|h3 [|h4 r2]]]];
            try (eapply esc_u_fail; [exact H1|exact E|exact I]).
          destruct (r_is_hex h1 && r_is_hex h2 && r_is_hex h3 && r_is_hex h4) eqn:HX.
          2:{ eapply esc_u_fail; [exact H1|exact E|exact HX]. }
          assert (HX4 : exists u, hex4 h1 h2 h3 h4 = Some u) by (unfold hex4; rewrite HX; eauto).
          destruct HX4 as [u HX4].
          destruct (step_unicode md true data h s1 b e h1 h2 h3 h4 r2 u H1 SG1 AB1 B E HX4) as (s2 & R2 & P2 & H2 & D2 & S2).
          eapply EReach_Ends; [exact R2|].
          assert (SB2 : string_body r2 = None) by (destruct (string_body r2); [discriminate|reflexivity]).
          destruct (pair_of u r2) as [v|] eqn:PO.
          + rewrite (pair_string_body u r2 v PO) in SB2.
            apply (IH (skipn 6 r2) _ None); [rewrite skipn_length; cbn [length] in L; lia|exact H2|exact I|].
            destruct (string_body (skipn 6 r2)); [discriminate|reflexivity].
          + apply (IH r2 _ None); [cbn [length] in L; lia|exact H2|exact I|exact SB2]. }
      destruct (r_is_ctl b) eqn:C.
      { eapply err_step; [exact H|exact TC]. }
      destruct (step_plain md true data h s pend b r H P B Q C) as (s1 & R1 & H1 & P1 & PP1 & D1 & S1).
      eapply EReach_Ends; [exact R1|].
      apply (IH r s1 (Some b)); [lia|exact H1|exact P1|]. destruct (string_body r); [discriminate|reflexivity].
  Qed.
End Append.

(** * Well-formed content: pure facts *)
Definition quote_or_end (tail : list byte) : Prop := tail = [] \/ exists q rest, tail = q :: rest /\ isb 34 q = true.

Lemma quote_not : forall q, isb 34 q = true -> isb 92 q = false /\ isb 117 q = false /\ r_is_hex q = false.
Proof. intros q H. apply Z.eqb_eq in H. unfold isb, r_is_hex, hexval. rewrite H. auto. Qed.

Lemma pair_of_app : forall u c2 tail, quote_or_end tail -> pair_of u (c2 ++ tail) = pair_of u c2.
Proof.
  intros u c2 tail [->|(q & rest & -> & Q)]; [rewrite app_nil_r; reflexivity|].
  destruct (quote_not q Q) as (N1 & N2 & N3).
  unfold pair_of. destruct (is_high u); [|reflexivity].
  destruct c2 as [|x1 [|x2 [|x3 [|x4 [|x5 [|x6 c3]]]]]]; cbn [app]; try reflexivity;
    destruct rest as [|y1 [|y2 [|y3 [|y4 [|y5 rest']]]]]; try reflexivity;
    unfold hex4; rewrite ?N1, ?N2, ?N3, ?andb_false_r; cbn [andb];
    repeat match goal with |- context [if ?c then _ else _] => destruct c end; reflexivity.
Qed.

Lemma low_not_high : forall v, is_low v = true -> is_high v = false.
Proof.
  intros v H. unfold is_low, is_high in *. apply andb_true_iff in H. destruct H as [A _]. apply Z.leb_le in A.
  destruct (55296 <=? v); [|reflexivity]. cbn. apply Z.ltb_ge. lia.
Qed.

Lemma pair_of_shape : forall u r2 v, pair_of u r2 = Some v ->
  exists b2 e2 g1 g2 g3 g4 r3, r2 = b2 :: e2 :: g1 :: g2 :: g3 :: g4 :: r3 /\ isb 92 b2 = true /\ isb 117 e2 = true /\
                               hex4 g1 g2 g3 g4 = Some v /\ is_low v = true.
Proof.
  intros u r2 v P. unfold pair_of in P. destruct (is_high u); [|discriminate].
  destruct r2 as [|b2 [|e2 [|g1 [|g2 [|g3 [|g4 r3]]]]]]; try discriminate.
  destruct (isb 92 b2) eqn:B; [|discriminate]. destruct (isb 117 e2) eqn:E; [|discriminate]. cbn [andb] in P.
  destruct (hex4 g1 g2 g3 g4) as [x|] eqn:HX; [|discriminate]. destruct (is_low x) eqn:LO; [|discriminate]. inversion P; subst x.
  exists b2, e2, g1, g2, g3, g4, r3. auto.
Qed.

(** after a pair, the content behind the second escape is well formed too *)
Lemma decode_after_pair : forall u c2 v out2, pair_of u c2 = Some v -> decode_content c2 = Some out2 ->
  exists o3, decode_content (skipn 6 c2) = Some o3.
Proof.
  intros u c2 v out2 P D. destruct (pair_of_shape u c2 v P) as (b2 & e2 & g1 & g2 & g3 & g4 & r3 & -> & B & E & HX & LO).
  rewrite (decode_u b2 e2 g1 g2 g3 g4 r3 v B E HX) in D.
  assert (PN : pair_of v r3 = None) by (unfold pair_of; rewrite (low_not_high v LO); reflexivity).
  rewrite PN in D. cbn [skipn]. destruct (decode_content r3) as [o3|]; [eauto|discriminate].
Qed.

(** a string body is well-formed content followed by the closing quote *)
Lemma string_body_split : forall l k, string_body l = Some k ->
  exists c q rest out, l = c ++ q :: rest /\ isb 34 q = true /\ k = S (length c) /\ decode_content c = Some out.
Proof.
  assert (G : forall n l k, (length l <= n)%nat -> string_body l = Some k ->
              exists c q rest out, l = c ++ q :: rest /\ isb 34 q = true /\ k = S (length c) /\ decode_content c = Some out).
  { induction n as [|n IH]; intros l k L E.
    - destruct l; [discriminate|cbn in L; lia].
    - destruct l as [|b r]; [discriminate|]. cbn [string_body] in E. cbn [length] in L.
      destruct (isb 34 b) eqn:Q.
      { inversion E. exists [], b, r, []. auto. }
      destruct (isb 92 b) eqn:B.
      + destruct r as [|e r1]; [discriminate|].
        destruct (simple_escape e) as [x|] eqn:SE.
        * destruct (string_body r1) as [k1|] eqn:E1; [|discriminate]. inversion E.
          destruct (IH r1 k1 ltac:(cbn [length] in L; lia) E1) as (c1 & q & rest & o1 & -> & QQ & -> & D1).
          exists (b :: e :: c1), q, rest, (zb x :: o1). split; [reflexivity|]. split; [exact QQ|]. split; [reflexivity|].
          cbn [decode_content]. rewrite B, SE, D1. reflexivity.
        * destruct (isb 117 e) eqn:EU; [|discriminate].
          destruct r1 as [|h1 [|h2 [|h3 [|h4 r2]]]]; try discriminate.
          destruct (r_is_hex h1 && r_is_hex h2 && r_is_hex h3 && r_is_hex h4) eqn:HX; [|discriminate].
          destruct (string_body r2) as [k2|] eqn:E2; [|discriminate]. inversion E.
          destruct (IH r2 k2 ltac:(cbn [length] in L; lia) E2) as (c2 & q & rest & o2 & -> & QQ & -> & D2).
          assert (HX4 : exists u, hex4 h1 h2 h3 h4 = Some u) by (unfold hex4; rewrite HX; eauto). destruct HX4 as [u HX4].
          pose proof (decode_u b e h1 h2 h3 h4 c2 u B EU HX4) as DU.
          exists (b :: e :: h1 :: h2 :: h3 :: h4 :: c2), q, rest.
          destruct (pair_of u c2) as [v|] eqn:PO.
          -- destruct (decode_after_pair u c2 v o2 PO D2) as (o3 & D3). rewrite D3 in DU.
             eexists. split; [reflexivity|]. split; [exact QQ|]. split; [reflexivity|exact DU].
          -- rewrite D2 in DU. eexists. split; [reflexivity|]. split; [exact QQ|]. split; [reflexivity|exact DU].
      + destruct (r_is_ctl b) eqn:C; [discriminate|].
        destruct (string_body r) as [k1|] eqn:E1; [|discriminate]. inversion E.
        destruct (IH r k1 ltac:(lia) E1) as (c1 & q & rest & o1 & -> & QQ & -> & D1).
        exists (b :: c1), q, rest, (b :: o1). split; [reflexivity|]. split; [exact QQ|]. split; [reflexivity|].
        cbn [decode_content]. rewrite B, Q, C, D1. reflexivity. }
  intros l k E. exact (G (length l) l k (le_n _) E).
Qed.

(** and conversely *)
Lemma content_string_body : forall c out q rest, decode_content c = Some out -> isb 34 q = true ->
  string_body (c ++ q :: rest) = Some (S (length c)).
Proof.
  assert (G : forall n c out q rest, (length c <= n)%nat -> decode_content c = Some out -> isb 34 q = true ->
              string_body (c ++ q :: rest) = Some (S (length c))).
  { induction n as [|n IH]; intros c out q rest L D Q.
    - destruct c; [|cbn in L; lia]. cbn. rewrite Q. reflexivity.
    - destruct c as [|b c1]; [cbn; rewrite Q; reflexivity|]. cbn [app string_body]. cbn [decode_content] in D. cbn [length] in L.
      destruct (isb 92 b) eqn:B.
      + assert (Q0 : isb 34 b = false) by (apply Z.eqb_eq in B; unfold isb; rewrite B; reflexivity). rewrite Q0.
        destruct c1 as [|e c2]; [discriminate|]. cbn [app].
        destruct (simple_escape e) as [x|] eqn:SE.
        * destruct (decode_content c2) as [o2|] eqn:D2; [|discriminate].
          rewrite (IH c2 o2 q rest ltac:(cbn [length] in L; lia) D2 Q). reflexivity.
        * destruct (isb 117 e) eqn:EU; [|discriminate].
          destruct c2 as [|h1 [|h2 [|h3 [|h4 c3]]]]; try discriminate. cbn [app].
          destruct (hex4 h1 h2 h3 h4) as [u|] eqn:HX4; [|discriminate].
          assert (HX : r_is_hex h1 && r_is_hex h2 && r_is_hex h3 && r_is_hex h4 = true).
          { unfold hex4 in HX4. destruct (r_is_hex h1 && r_is_hex h2 && r_is_hex h3 && r_is_hex h4); [reflexivity|discriminate]. }
          rewrite HX.
          assert (D3 : exists o3, decode_content c3 = Some o3).
          { assert (DU := decode_u b e h1 h2 h3 h4 c3 u B EU HX4). cbn [decode_content] in DU. rewrite B, SE, EU, HX4 in DU.
            rewrite DU in D. destruct (pair_of u c3) as [v|] eqn:PO.
            - destruct (pair_of_shape u c3 v PO) as (b2 & e2 & g1 & g2 & g3 & g4 & r3 & -> & B2 & E2 & HV & LO).
              cbn [skipn] in D. destruct (decode_content r3) as [o4|] eqn:D4; [|discriminate].
              rewrite (decode_u b2 e2 g1 g2 g3 g4 r3 v B2 E2 HV).
              assert (PN : pair_of v r3 = None) by (unfold pair_of; rewrite (low_not_high v LO); reflexivity).
              rewrite PN, D4. cbn. eauto.
            - destruct (decode_content c3) as [o3|]; [eauto|discriminate]. }
          destruct D3 as [o3 D3].
          rewrite (IH c3 o3 q rest ltac:(cbn [length] in L; lia) D3 Q). reflexivity.
      + destruct (isb 34 b) eqn:Q0; [discriminate|]. destruct (r_is_ctl b) eqn:C; [cbn [orb] in D; discriminate|]. cbn [orb] in D.
        destruct (decode_content c1) as [o1|] eqn:D1; [|discriminate].
        rewrite (IH c1 o1 q rest ltac:(lia) D1 Q). reflexivity. }
  intros c out q rest D Q. exact (G (length c) c out q rest (le_n _) D Q).
Qed.

Lemma skipn_app_ge : forall {A} n (l t : list A), (n <= length l)%nat -> skipn n (l ++ t) = skipn n l ++ t.
Proof. intros A n. induction n as [|n IH]; intros [|x l] t L; cbn in *; auto; try lia. apply IH. lia. Qed.

(** * Both escape machines walk through well-formed content and produce its decoding *)
Section Walk.
  Variable md : Z.
  Variable rem_ : bool.
  Variable data : list byte.
  Variable h : handler.
  Notation ER := (EReach md rem_ data h).
  Notation AtS := (At data).

  Lemma walk : forall n c s pend out tail, (length c <= n)%nat -> AtS s (c ++ tail) -> Pend data s pend (c ++ tail) ->
    decode_content c = Some out -> quote_or_end tail ->
    exists pend' s', ER (est pend) s (est pend') s' /\ AtS s' tail /\ Pend data s' pend' tail /\
                     s_p s' = s_p s + Z.of_nat (length c) /\ ldst s' pend' = ldst s pend ++ out /\ Same s s'.
  Proof.
    induction n as [|n IH]; intros c s pend out tail L H P D QE.
    - destruct c; [|cbn in L; lia]. cbn in D. inversion D. exists pend, s.
      split; [apply EReach_refl|]. split; [exact H|]. split; [exact P|]. split; [cbn; lia|]. split; [rewrite app_nil_r; reflexivity|apply Same_refl].
    - destruct c as [|b c1].
      { cbn in D. inversion D. exists pend, s.
        split; [apply EReach_refl|]. split; [exact H|]. split; [exact P|]. split; [cbn; lia|]. split; [rewrite app_nil_r; reflexivity|apply Same_refl]. }
      cbn [app] in H, P. cbn [decode_content] in D. cbn [length] in L.
      destruct (isb 92 b) eqn:B.
      + destruct (step_bslash md rem_ data h s pend b (c1 ++ tail) H P B) as (s1 & R1 & H1 & SG1 & AB1 & P1 & D1 & S1).
        destruct c1 as [|e c2]; [discriminate|]. cbn [app] in *.
        destruct (simple_escape e) as [x|] eqn:SE.
        * destruct (decode_content c2) as [o2|] eqn:D2; [|discriminate]. cbn in D. inversion D; subst out.
          pose proof (step_simple md rem_ data h s1 e (c2 ++ tail) x H1 SE) as R2.
          set (s2 := adv (set_dst s1 (s_dst s1 ++ [zb x])) 1) in *.
          assert (H2 : AtS s2 (c2 ++ tail)) by (apply (At_adv1 data (set_dst s1 (s_dst s1 ++ [zb x])) e _); exact H1).
          destruct (IH c2 s2 None o2 tail ltac:(cbn [length] in L; lia) H2 I D2 QE) as (pend' & s' & R3 & H3 & P3 & PP3 & D3 & S3).
          exists pend', s'. split; [eapply EReach_trans; [exact R1|]; eapply EReach_trans; [exact R2|exact R3]|].
          split; [exact H3|]. split; [exact P3|].
          split; [rewrite PP3; unfold s2; cbn [s_p adv set_p set_dst length]; rewrite P1; lia|].
          split; [rewrite D3; unfold s2; cbn [ldst s_dst adv set_p set_dst]; rewrite D1, <- app_assoc; reflexivity|].
          eapply Same_trans; [exact S1|]. eapply Same_trans; [|exact S3]. unfold s2. repeat split.
        * destruct (isb 117 e) eqn:E; [|discriminate].
          destruct c2 as [|h1 [|h2 [|h3 [|h4 c3]]]]; try discriminate. cbn [app] in *.
          destruct (hex4 h1 h2 h3 h4) as [u|] eqn:HX4; [|discriminate].
          destruct (step_unicode md rem_ data h s1 b e h1 h2 h3 h4 (c3 ++ tail) u H1 SG1 AB1 B E HX4) as (s2 & R2 & P2 & H2 & D2 & S2).
          rewrite (pair_of_app u c3 tail QE) in P2, H2, D2.
          assert (DU := decode_u b e h1 h2 h3 h4 c3 u B E HX4). cbn [decode_content] in DU. rewrite B, SE, E, HX4 in DU.
          rewrite DU in D. clear DU.
          destruct (pair_of u c3) as [v|] eqn:PO.
          -- destruct (pair_of_shape u c3 v PO) as (b2 & e2 & g1 & g2 & g3 & g4 & r3 & EQ & _).
             assert (L6 : (6 <= length c3)%nat) by (rewrite EQ; cbn; lia).
             rewrite (skipn_app_ge 6 c3 tail L6) in H2.
             destruct (decode_content (skipn 6 c3)) as [o3|] eqn:D3; [|discriminate]. cbn in D. inversion D; subst out.
             destruct (IH (skipn 6 c3) s2 None o3 tail ltac:(rewrite skipn_length; cbn [length] in L; lia) H2 I D3 QE)
               as (pend' & s' & R3 & H3 & P3 & PP3 & DD3 & S3).
             exists pend', s'. split; [eapply EReach_trans; [exact R1|]; eapply EReach_trans; [exact R2|exact R3]|].
             split; [exact H3|]. split; [exact P3|].
             split; [rewrite PP3, P2, P1, skipn_length; cbn [length]; lia|].
             split; [rewrite DD3; cbn [ldst]; rewrite D2, D1, <- app_assoc; reflexivity|].
             eapply Same_trans; [exact S1|]. eapply Same_trans; [exact S2|exact S3].
          -- cbn [skipn] in H2.
             destruct (decode_content c3) as [o3|] eqn:D3; [|discriminate]. cbn in D. inversion D; subst out.
             destruct (IH c3 s2 None o3 tail ltac:(cbn [length] in L; lia) H2 I D3 QE) as (pend' & s' & R3 & H3 & P3 & PP3 & DD3 & S3).
             exists pend', s'. split; [eapply EReach_trans; [exact R1|]; eapply EReach_trans; [exact R2|exact R3]|].
             split; [exact H3|]. split; [exact P3|].
             split; [rewrite PP3, P2, P1; cbn [length]; lia|].
             split; [rewrite DD3; cbn [ldst]; rewrite D2, D1, <- app_assoc; reflexivity|].
             eapply Same_trans; [exact S1|]. eapply Same_trans; [exact S2|exact S3].
      + destruct (isb 34 b) eqn:Q; [discriminate|]. destruct (r_is_ctl b) eqn:C; [discriminate|]. cbn [orb] in D.
        destruct (decode_content c1) as [o1|] eqn:D1; [|discriminate]. cbn in D. inversion D; subst out.
        destruct (step_plain md rem_ data h s pend b (c1 ++ tail) H P B Q C) as (s1 & R1 & H1 & P1 & PP1 & DD1 & S1).
        destruct (IH c1 s1 (Some b) o1 tail ltac:(lia) H1 P1 D1 QE) as (pend' & s' & R3 & H3 & P3 & PP3 & DD3 & S3).
        exists pend', s'. split; [eapply EReach_trans; [exact R1|exact R3]|].
        split; [exact H3|]. split; [exact P3|]. split; [rewrite PP3, PP1; cbn [length]; lia|].
        split; [rewrite DD3, DD1, <- app_assoc; reflexivity|]. eapply Same_trans; eauto.
  Qed.
End Walk.

(** * The theorems *)
Lemma init_Same : forall stack dst s, Same (init_st stack dst) s -> s_calls s = [] /\ s_val s = false /\ s_err s = None.
Proof. intros stack dst s (A & B & C). cbn in *. auto. Qed.

(** appendRemainderOfString's specification machine, started inside a string: it succeeds exactly on
    well-formed content followed by the closing quote, consumes it through that quote and appends
    the decoded content to [dst] (C06) *)
Theorem append_spec_correct : forall md l h stack dst,
  match string_body l with
  | Some k => exists out, decode_content (firstn (pred k) l) = Some out /\
              obs (prun md append_spec l h stack dst) = ObsDone (Z.of_nat k) None [] (dst ++ out) false
  | None => exists p e s, prun md append_spec l h stack dst = ODone p (Some e) s
  end.
Proof.
  intros md l h stack dst. set (s0 := init_st stack dst).
  pose proof (At_init l stack dst) as H0. fold s0 in H0.
  destruct (string_body l) as [k|] eqn:SB.
  - destruct (string_body_split l k SB) as (c & q & rest & out & EL & Q & -> & D).
    exists out. cbn [pred].
    assert (FC : firstn (length c) l = c) by (rewrite EL, firstn_app, Nat.sub_diag, firstn_all; cbn; apply app_nil_r).
    rewrite FC. split; [exact D|]. clear FC SB. subst l.
    destruct (walk md true (c ++ q :: rest) h (length c) c s0 None out (q :: rest) (le_n _) H0 I D
                ltac:(right; eauto)) as (pend' & s' & R1 & H1 & P1 & PP1 & D1 & S1).
    set (l := c ++ q :: rest) in *.
    pose proof (etrans_content true pend' q) as TC. destruct (quote_not q Q) as (NB & _ & _). rewrite NB, Q in TC.
    assert (R2 : EReach md true l h (est pend') s' EDone (adv (flushed s' pend') 1)).
    { eapply EReach_step; [exact H1|exact TC| |rewrite s_p_flushed; lia].
      rewrite <- (app_nil_r (closeu pend')). rewrite (close_exec md l h s' pend' _ [] H1 P1). reflexivity. }
    assert (H2 : At l (adv (flushed s' pend') 1) rest).
    { unfold At. cbn [s_p adv set_p]. rewrite s_p_flushed. destruct (AtP_cons l _ _ _ H1) as (_ & _ & A). exact A. }
    assert (E : EEnds md true l h EStart s0 (fun o => o = ODone (s_p (adv (flushed s' pend') 1)) (s_err (adv (flushed s' pend') 1)) (adv (flushed s' pend') 1))).
    { eapply EReach_Ends; [exact R1|]. eapply EReach_Ends; [exact R2|]. eapply done_e. exact H2. }
    apply (EEnds_prun md true l h stack dst) in E. unfold append_spec. rewrite E.
    destruct (init_Same stack dst s' S1) as (C1 & V1 & E1). destruct (Same_flushed s' pend') as (C2 & V2 & E2).
    cbn [obs s_p s_err s_calls s_dst s_val adv set_p]. rewrite s_p_flushed, s_dst_flushed, D1, PP1, C2, V2, E2, C1, V1, E1.
    cbn [ldst s_dst s_p s0 init_st]. f_equal. lia.
  - assert (E : EEnds md true l h EStart s0 IsErr) by (apply (append_fail md l h (length l) l s0 None (le_n _) H0 I SB)).
    apply (EEnds_prun md true l h stack dst) in E. exact E.
Qed.

(** unescapeStringContent's specification machine on well-formed content (the bytes between the quotes
    of a string token): it consumes all of it and appends its decoding to [dst] (C06) *)
Theorem unescape_spec_correct : forall md c out h stack dst, decode_content c = Some out ->
  obs (prun md unescape_spec c h stack dst) = ObsDone (len c) None [] (dst ++ out) false.
Proof.
  intros md c out h stack dst D. set (s0 := init_st stack dst).
  pose proof (At_init c stack dst) as H0. fold s0 in H0.
  destruct (walk md false c h (length c) c s0 None out [] (le_n _) ltac:(rewrite app_nil_r; exact H0) I D ltac:(left; reflexivity))
    as (pend' & s' & R1 & H1 & P1 & PP1 & D1 & S1).
  assert (E : EEnds md false c h EStart s0 (fun o => o = ODone (s_p s') (s_err s') (flushed s' pend'))).
  { eapply EReach_Ends; [exact R1|]. intros f _. rewrite (econt_eof md false c h f _ s' H1).
    assert (EO : eeof false (est pend') = closeu pend' ++ []) by (destruct pend'; reflexivity).
    rewrite EO, (close_exec md c h s' pend' _ [] H1 P1). cbn [exec_units]. rewrite s_p_flushed.
    destruct (Same_flushed s' pend') as (_ & _ & E2). rewrite E2. reflexivity. }
  apply (EEnds_prun md false c h stack dst) in E. unfold unescape_spec. rewrite E.
  destruct (init_Same stack dst s' S1) as (C1 & V1 & E1). destruct (Same_flushed s' pend') as (C2 & V2 & E2).
  cbn [obs]. rewrite s_dst_flushed, D1, PP1, C2, V2, C1, V1, E1. cbn [ldst s_dst s_p s0 init_st]. reflexivity.
Qed.

(** the two agree on every string token: unescaping the bytes between the quotes on their own gives
    what reading the token gives, and consumes all of them *)
Corollary unescape_agrees_append : forall md l k h stack dst, string_body l = Some k ->
  exists out, decode_content (firstn (pred k) l) = Some out /\
    obs (prun md append_spec l h stack dst) = ObsDone (Z.of_nat k) None [] (dst ++ out) false /\
    obs (prun md unescape_spec (firstn (pred k) l) h stack dst) = ObsDone (len (firstn (pred k) l)) None [] (dst ++ out) false.
Proof.
  intros md l k h stack dst SB. pose proof (append_spec_correct md l h stack dst) as A. rewrite SB in A.
  destruct A as (out & D & A). exists out. split; [exact D|]. split; [exact A|]. apply unescape_spec_correct. exact D.
Qed.

(** * ReadStringBytes over the specification machine *)
Lemma stop_plain : forall b, negb (str_stop b) = true -> isb 34 b = false /\ isb 92 b = false /\ r_is_ctl b = false.
Proof.
  intros b H. apply negb_true_iff in H. unfold str_stop in H.
  apply orb_false_iff in H. destruct H as [H H3]. apply orb_false_iff in H. destruct H as [H1 H2].
  unfold isb, r_is_ctl. rewrite H2, H3. split; [reflexivity|]. split; [reflexivity|].
  apply Z.leb_gt in H1. apply Z.ltb_ge. lia.
Qed.

(** the fast scan over plain bytes commutes with the reference functions *)
Lemma plain_prefix : forall body,
  let n := count_while (fun b => negb (str_stop b)) body in
  string_body body = option_map (fun k => (n + k)%nat) (string_body (skipn n body)) /\
  forall c', decode_content (firstn n body ++ c') = option_map (app (firstn n body)) (decode_content c').
Proof.
  induction body as [|b r IH]; cbn zeta.
  - cbn. split; [reflexivity|]. intros c'. destruct (decode_content c'); reflexivity.
  - cbn [count_while]. destruct (negb (str_stop b)) eqn:PL.
    + destruct (stop_plain b PL) as (Q & B & C). destruct IH as [IH1 IH2]. cbn [skipn firstn app]. split.
      * cbn [string_body]. rewrite Q, B, C, IH1. destruct (string_body (skipn _ r)); reflexivity.
      * intros c'. cbn [decode_content]. rewrite B, Q, C. cbn [orb]. rewrite IH2. destruct (decode_content c'); reflexivity.
    + cbn [skipn firstn app Nat.add]. split; [destruct (string_body (b :: r)); reflexivity|]. intros c'. destruct (decode_content c'); reflexivity.
Qed.

Lemma firstn_plus : forall {A} a b (l : list A), firstn (a + b) l = firstn a l ++ firstn b (skipn a l).
Proof. intros A a. induction a as [|a IH]; intros b [|x l]; cbn; auto; [destruct b; reflexivity|]. rewrite IH. reflexivity. Qed.

Lemma obs_done : forall o p dst, obs o = ObsDone p None [] dst false -> exists s, o = ODone p None s /\ s_dst s = dst.
Proof. intros [p' e s|k|] p dst H; cbn in H; try discriminate. inversion H; subst. eauto. Qed.

(** ReadStringBytes succeeds exactly when the reference finds a string token, with the offset after
    the closing quote and the decoded content appended to the buffer (C06; and C16: the result is
    [buf ++] the result for an empty buffer) *)
Theorem ReadStringBytes_spec_correct : forall md data buf,
  match read_string_ref data buf with
  | Some (v, p) => ReadStringBytes md append_spec data buf = Some (v, p, None)
  | None => exists v p e, ReadStringBytes md append_spec data buf = Some (v, p, Some e)
  end.
Proof.
  intros md data buf. unfold read_string_ref, decode_string_ref, ReadStringBytes, countWhitespace.
  fold (ws data). rewrite Nat2Z.id. set (w := ws data).
  destruct (skipn w data) as [|q body] eqn:L; [cbn; eauto|].
  unfold string_tok. change (bz q =? 34) with (isb 34 q).
  destruct (isb 34 q) eqn:Q; cbn [negb]; [|cbn; eauto].
  destruct (plain_prefix body) as [PP1 PP2].
  set (n := count_while (fun b => negb (str_stop b)) body) in *.
  rewrite PP1.
  destruct (skipn n body) as [|c rest] eqn:K; [cbn; eauto|].
  assert (FB : firstn n body ++ c :: rest = body) by (rewrite <- K; apply firstn_skipn).
  change (bz c =? 34) with (isb 34 c).
  destruct (isb 34 c) eqn:QC.
  - (* the closing quote right after the plain bytes *)
    cbn [string_body]. rewrite QC. cbn [option_map]. replace (S (n + 1) - 2)%nat with n by lia. cbn [skipn].
    pose proof (PP2 []) as D. rewrite app_nil_r in D. cbn in D. rewrite D. cbn [option_map fst snd].
    rewrite app_nil_r. do 3 f_equal. lia.
  - pose proof (append_spec_correct md (c :: rest) no_handler [] (if bz c =? 92 then buf ++ firstn n body else buf)) as A.
    unfold appendRemainderOfString, str_machine. rewrite prun_c_eq.
    destruct (string_body (c :: rest)) as [k|] eqn:SB; cbn [option_map].
    + destruct A as (out & D & A). destruct (obs_done _ _ _ A) as (s & -> & DS).
      assert (BC : (bz c =? 92) = true).
      { change (bz c =? 92) with (isb 92 c). destruct (isb 92 c) eqn:B2; [reflexivity|exfalso].
        assert (ST : str_stop c = true).
        { pose proof (while_next (fun b => negb (str_stop b)) body c rest K) as W. apply negb_false_iff in W. exact W. }
        unfold str_stop in ST. change (bz c =? 34) with (isb 34 c) in ST. change (bz c =? 92) with (isb 92 c) in ST.
        rewrite QC, B2, !orb_false_r in ST.
        assert (C : r_is_ctl c = true) by (unfold r_is_ctl; apply Z.leb_le in ST; apply Z.ltb_lt; lia).
        cbn [string_body] in SB. rewrite QC, B2, C in SB. discriminate. }
      rewrite BC in DS.
      rewrite (string_body_pos _ k SB) in *. cbn [pred] in *.
      replace (S (n + S (pred k)) - 2)%nat with (n + pred k)%nat by lia. cbn [skipn].
      assert (FN : firstn (n + pred k) body = firstn n body ++ firstn (pred k) (c :: rest))
        by (rewrite firstn_plus, K; reflexivity).
      rewrite FN, PP2, D. cbn [option_map fst snd]. rewrite DS, <- app_assoc. repeat f_equal. lia.
    + destruct A as (p & e & s & ->). eauto.
Qed.

(** C16 for ReadStringBytes: reading into a buffer appends what reading into an empty buffer returns *)
Corollary ReadStringBytes_appends : forall md data buf v p,
  ReadStringBytes md append_spec data [] = Some (v, p, None) ->
  ReadStringBytes md append_spec data buf = Some (buf ++ v, p, None).
Proof.
  intros md data buf v p H. pose proof (ReadStringBytes_spec_correct md data []) as A.
  pose proof (ReadStringBytes_spec_correct md data buf) as B. unfold read_string_ref in *.
  destruct (decode_string_ref (skipn (ws data) data)) as [[c n]|]; cbn [option_map fst snd] in *.
  - rewrite A in H. inversion H; subst. cbn in B. exact B.
  - destruct A as (v' & p' & e & A). rewrite A in H. discriminate.
Qed.

(**  "a\n😀" x  *)
Definition ex_str : list byte :=
  [x20; x22; x61; x5c; x6e; x5c; x75; x64; x38; x33; x64; x5c; x75; x64; x65; x30; x30; x22; x78].
Example string_spec_ex :
  read_string_ref ex_str [x70] = Some ([x70; x61; x0a; xf0; x9f; x98; x80], 18) /\
  ReadStringBytes 10000 append_spec ex_str [x70] = Some ([x70; x61; x0a; xf0; x9f; x98; x80], 18, None) /\
  obs (prun 10000 unescape_spec (firstn 15 (skipn 2 ex_str)) no_handler [] []) = ObsDone 15 None [] [x61; x0a; xf0; x9f; x98; x80] false.
Proof. vm_compute. auto. Qed.
Print Assumptions append_spec_correct.
Print Assumptions unescape_spec_correct.
Print Assumptions ReadStringBytes_spec_correct.
Print Assumptions ReadStringBytes_appends.
