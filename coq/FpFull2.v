(** FpFull2.v -- literals with more than 800 significant digits whose INTEGER part has at most
    800: decimal.set keeps the first 800 significant digits and records in the trunc flag
    whether a dropped (fraction) digit was non-zero; floatBits treats the flag as sticky. *)
From Coq Require Import List ZArith Lia Bool QArith Qpower Lqa.
From Coq Require Import Strings.Byte.
From Rjson Require Import Base BaseFacts Helpers Round Fp FpSpec FpTables FpDecDefs FpDecBits FpDecInv FpDecRound FpFull.
From Rjson Require FpScan FpExact FpFacts.
Import ListNotations.
Local Open Scope Z_scope.

(** * decimal.set beyond the capacity *)

(** once 800 digits are stored every further digit is dropped *)
Lemma set_loop_capped : forall Ds, all_digits Ds = true -> forall rest rd nd dp sd sg tr,
  dec_cap <= nd ->
  set_loop (Ds ++ rest) rd nd dp sd sg tr
  = set_loop rest rd nd dp sd (sg || nonempty Ds) (tr || (0 <? dval Ds)).
Proof.
  induction Ds as [|c Ds IH]; intros HD rest rd nd dp sd sg tr Hnd.
  - cbn [app nonempty]. rewrite !orb_false_r. reflexivity.
  - apply all_digits_cons in HD as [Hc HDs]. pose proof (is_digit_range c Hc) as Rc.
    cbn [app set_loop]. unfold c_dot, c_0. rewrite Hc.
    destruct (Z.eqb_spec (bz c) 46) as [|_]; [lia|].
    destruct (Z.eqb_spec nd 0) as [|_]; [unfold dec_cap in Hnd; lia|]. rewrite andb_false_r.
    destruct (Z.ltb_spec nd dec_cap) as [|_]; [lia|].
    rewrite IH by assumption. f_equal.
    + cbn [nonempty]. rewrite !orb_true_r. reflexivity.
    + rewrite dval_cons. pose proof (FpScan.dval_bound Ds HDs) as B. pose proof (pow10_pos (len Ds) (len_ge0 Ds)) as P.
      destruct tr; cbn [orb]; [reflexivity|].
      destruct (Z.eqb_spec (bz c) 48) as [E|E]; cbn [negb orb].
      * rewrite E. replace ((48 - 48) * 10 ^ len Ds + dval Ds) with (dval Ds) by lia. reflexivity.
      * symmetry. apply Z.ltb_lt. nia.
Qed.

(** the digit loop over a run of digits, with the dropped tail [Tl] (t digits) *)
Lemma set_loop_digits_t : forall Ds, all_digits Ds = true -> forall rest rd nd dp sd sg tr,
  st_wf rd nd ->
  exists rd' nd' dp' tr' t Tl,
    set_loop (Ds ++ rest) rd nd dp sd sg tr = set_loop rest rd' nd' dp' sd (sg || nonempty Ds) tr' /\
    st_wf rd' nd' /\ 0 <= t /\ 0 <= Tl < 10 ^ t /\ tr' = (tr || (0 <? Tl)) /\
    dval_z (rev rd') * 10 ^ t + Tl = dval_z (rev rd) * 10 ^ len Ds + dval Ds /\
    nd' + t = nd + len (if nd =? 0 then strip0 Ds else Ds) /\
    (0 < t -> nd' = dec_cap) /\
    dp' = dp - (if nd =? 0 then len Ds - len (strip0 Ds) else 0).
Proof.
  induction Ds as [|c Ds IH]; intros HD rest rd nd dp sd sg tr Hwf.
  - exists rd, nd, dp, tr, 0, 0. cbn [app nonempty]. rewrite !orb_false_r.
    split; [reflexivity|]. split; [exact Hwf|]. split; [lia|]. split; [change (10 ^ 0) with 1; lia|].
    split; [reflexivity|]. cbn [strip0]. change (len (@nil byte)) with 0. change (10 ^ 0) with 1. unfold dval. cbn [fold_left].
    destruct (nd =? 0); change (len (@nil byte)) with 0; repeat split; lia.
  - pose proof HD as HD0. apply all_digits_cons in HD as [Hc HDs]. pose proof (is_digit_range c Hc) as Rc.
    destruct Hwf as (Hnd & Hcap & Hok & Hlead).
    destruct (Z.ltb_spec nd dec_cap) as [Hlt|Hge].
    2:{ (* capped: everything is dropped *)
        exists rd, nd, dp, (tr || (0 <? dval (c :: Ds))), (len (c :: Ds)), (dval (c :: Ds)).
        split; [apply set_loop_capped; [exact HD0|lia]|].
        split; [repeat split; assumption|]. split; [apply len_ge0|].
        split; [apply FpScan.dval_bound; exact HD0|]. split; [reflexivity|]. split; [reflexivity|].
        destruct (Z.eqb_spec nd 0) as [|_]; [unfold dec_cap in *; lia|].
        split; [reflexivity|]. split; [intros; lia|lia]. }
    cbn [app set_loop]. unfold c_dot, c_0. rewrite Hc.
    destruct (Z.eqb_spec (bz c) 46) as [|_]; [lia|].
    destruct (Z.eqb_spec (bz c) 48) as [Ez|Nz]; destruct (Z.eqb_spec nd 0) as [En|Nn]; cbn [andb].
    + (* leading zero *)
      assert (rd = []) by (apply len_0_nil; lia). subst rd. clear Hnd. subst nd.
      destruct (IH HDs rest [] 0 (dp - 1) sd true tr) as (rd' & nd' & dp' & tr' & t & Tl & E & W & Ht & HTl & Etr & V & Nd & Cp & Dp).
      { split; [reflexivity|]. split; [unfold dec_cap; lia|]. split; [constructor|exact I]. }
      exists rd', nd', dp', tr', t, Tl. split.
      { rewrite E. f_equal. cbn [nonempty]. rewrite orb_true_r. reflexivity. }
      split; [exact W|]. split; [exact Ht|]. split; [exact HTl|]. split; [exact Etr|].
      change (0 =? 0) with true in *. cbv iota in *. rewrite strip0_cons.
      destruct (Z.eqb_spec (bz c) 48) as [_|]; [|contradiction].
      split; [rewrite V, dval_cons, Ez; cbn [rev]; rewrite dval_z_nil; lia|].
      split; [exact Nd|]. split; [exact Cp|]. rewrite Dp, len_cons. lia.
    + (* a zero after a non-zero digit *)
      destruct (Z.ltb_spec nd dec_cap) as [_|]; [|lia].
      destruct (IH HDs rest ((bz c - 48) :: rd) (nd + 1) dp sd true tr) as (rd' & nd' & dp' & tr' & t & Tl & E & W & Ht & HTl & Etr & V & Nd & Cp & Dp).
      { repeat split.
        - rewrite len_cons. lia.
        - lia.
        - apply digs_ok_mk; [lia|exact Hok].
        - cbn [rev]. destruct (rev rd) as [|x tt] eqn:Er; [|exact Hlead].
          apply (f_equal (@rev Z)) in Er. rewrite rev_involutive in Er. subst rd. cbn in Hnd. lia. }
      exists rd', nd', dp', tr', t, Tl. split.
      { rewrite E. f_equal. cbn [nonempty]. rewrite orb_true_r. reflexivity. }
      split; [exact W|]. split; [exact Ht|]. split; [exact HTl|]. split; [exact Etr|].
      destruct (Z.eqb_spec (nd + 1) 0) as [|_]; [pose proof (len_ge0 rd); lia|].
      split.
      { rewrite V. cbn [rev]. rewrite dval_z_snoc, dval_cons, len_cons, pow10_succ by apply len_ge0. ring. }
      split; [rewrite Nd, len_cons; lia|]. split; [exact Cp|lia].
    + (* first non-zero digit *)
      assert (rd = []) by (apply len_0_nil; lia). subst rd. clear Hnd. subst nd.
      change (0 <? dec_cap) with true. cbv iota.
      destruct (IH HDs rest [bz c - 48] (0 + 1) dp sd true tr) as (rd' & nd' & dp' & tr' & t & Tl & E & W & Ht & HTl & Etr & V & Nd & Cp & Dp).
      { split; [reflexivity|]. split; [unfold dec_cap; lia|].
        split; [apply digs_ok_mk; [lia|constructor]|]. cbn [rev app]. lia. }
      exists rd', nd', dp', tr', t, Tl. split.
      { rewrite E. f_equal. cbn [nonempty]. rewrite orb_true_r. reflexivity. }
      split; [exact W|]. split; [exact Ht|]. split; [exact HTl|]. split; [exact Etr|].
      change (0 + 1 =? 0) with false in *. change (0 =? 0) with true. cbv iota in *.
      rewrite strip0_cons. destruct (Z.eqb_spec (bz c) 48) as [|_]; [contradiction|].
      split.
      { rewrite V. cbn [rev app]. rewrite dval_z_nil, dval_cons, len_cons, pow10_succ by apply len_ge0.
        change (dval_z [bz c - 48]) with (0 * 10 + (bz c - 48)). ring. }
      split; [rewrite Nd, len_cons; lia|]. split; [exact Cp|]. rewrite len_cons. lia.
    + (* a later non-zero digit *)
      destruct (Z.ltb_spec nd dec_cap) as [_|]; [|lia].
      destruct (IH HDs rest ((bz c - 48) :: rd) (nd + 1) dp sd true tr) as (rd' & nd' & dp' & tr' & t & Tl & E & W & Ht & HTl & Etr & V & Nd & Cp & Dp).
      { repeat split.
        - rewrite len_cons. lia.
        - lia.
        - apply digs_ok_mk; [lia|exact Hok].
        - cbn [rev]. destruct (rev rd) as [|x tt] eqn:Er; [|exact Hlead].
          apply (f_equal (@rev Z)) in Er. rewrite rev_involutive in Er. subst rd. cbn in Hnd. lia. }
      exists rd', nd', dp', tr', t, Tl. split.
      { rewrite E. f_equal. cbn [nonempty]. rewrite orb_true_r. reflexivity. }
      split; [exact W|]. split; [exact Ht|]. split; [exact HTl|]. split; [exact Etr|].
      destruct (Z.eqb_spec (nd + 1) 0) as [|_]; [pose proof (len_ge0 rd); lia|].
      split.
      { rewrite V. cbn [rev]. rewrite dval_z_snoc, dval_cons, len_cons, pow10_succ by apply len_ge0. ring. }
      split; [rewrite Nd, len_cons; lia|]. split; [exact Cp|lia].
Qed.

(** decimal.set on a JSON literal whose integer part has at most 800 significant digits: the
    stored digits are the first 800 significant ones, [Tl] (t digits) is the dropped tail *)
Theorem set_spec_t : forall j,
  jn_wf j = true ->
  (match j_exp j with None => True | Some (_, _, e) => dval e <= 99999 end) ->
  len (strip0 (j_int j)) <= 800 ->
  exists a, set_m (jn_bytes j) = Some a /\ d_neg a = j_neg j /\ dec_wf a /\
    exists t Tl, 0 <= t /\ 0 <= Tl < 10 ^ t /\ d_trunc a = (0 <? Tl) /\
      (0 < t -> len (d_d a) = dec_cap) /\
      dval (j_int j ++ jn_frac_digits j) = dval_z (d_d a) * 10 ^ t + Tl /\
      d_dp a - len (d_d a) - t = jn_exp10 j - len (jn_frac_digits j).
Proof.
  intros j Hwf Hexp H800. unfold jn_wf in Hwf.
  apply andb_true_iff in Hwf as [Hwf Hwe]. apply andb_true_iff in Hwf as [Hwi Hwfr].
  assert (Hi : all_digits (j_int j) = true /\ exists c r, j_int j = c :: r).
  { unfold int_wf in Hwi. destruct (j_int j) as [|c r]; [discriminate|].
    apply andb_true_iff in Hwi as [Hwi _]. split; [exact Hwi|eauto]. }
  destruct Hi as (Hid & c & r & Ei).
  assert (Hexp' : match j_exp j with None => True
                  | Some (_, _, e) => all_digits e = true /\ e <> [] /\ dval e <= 99999 end).
  { destruct (j_exp j) as [[[cap s] e]|]; [|exact I].
    apply andb_true_iff in Hwe as [H1 H2]. split; [exact H1|]. split; [|exact Hexp].
    intros ->. discriminate. }
  assert (Hhead : set_m (jn_bytes j)
                  = obind (set_loop (j_int j ++ frac_bytes j ++ exp_bytes j) [] 0 0 false false false)
                          (set_k (j_neg j))).
  { rewrite jn_bytes_eq, set_m_unfold. destruct (j_neg j).
    - reflexivity.
    - cbn [app]. rewrite Ei. cbn [app]. rewrite Ei in Hid. apply all_digits_cons in Hid as [Hc _].
      apply is_digit_range in Hc. unfold c_minus. destruct (Z.eqb_spec (bz c) 45) as [|_]; [lia|]. reflexivity. }
  assert (W0 : st_wf [] 0).
  { split; [reflexivity|]. split; [unfold dec_cap; lia|]. split; [constructor|exact I]. }
  destruct (set_loop_digits (j_int j) Hid (frac_bytes j ++ exp_bytes j) [] 0 0 false false false W0)
    as (rd1 & nd1 & dp1 & tr1 & E1 & W1 & V1).
  assert (Hsg : false || nonempty (j_int j) = true) by (rewrite Ei; reflexivity).
  rewrite Hsg in E1. change (0 =? 0) with true in V1. cbv iota in V1.
  destruct (V1 eq_refl ltac:(unfold dec_cap; lia)) as (T1 & D1 & N1 & P1).
  cbn [rev] in D1. rewrite dval_z_nil, Z.mul_0_l, Z.add_0_l in D1. subst tr1.
  unfold jn_frac_digits. unfold frac_bytes in *.
  destruct (j_frac j) as [f|].
  - apply andb_true_iff in Hwfr as [Hfd _].
    cbn [app] in E1, Hhead. cbn [set_loop] in E1. change (bz (B 46) =? c_dot) with true in E1. cbv iota in E1.
    destruct (set_loop_digits_t f Hfd (exp_bytes j) rd1 nd1 nd1 true true false W1)
      as (rd2 & nd2 & dp2 & tr2 & t & Tl & E2 & W2 & Ht & HTl & Etr & V2 & Nd2 & Cp2 & Dp2).
    rewrite E2, exp_bytes_stop in E1. rewrite Hhead, E1. cbn [obind set_k negb orb].
    rewrite (set_tail_exp j _ dp2 Hexp').
    eexists. split; [reflexivity|]. cbn [d_neg d_d d_dp d_trunc]. split; [reflexivity|].
    destruct W2 as (Hnd2 & Hcap2 & Hok2 & Hlead2).
    split.
    { unfold dec_wf. cbn [d_d]. split; [apply digs_ok_rev; exact Hok2|]. split; [rewrite len_rev; lia|exact Hlead2]. }
    exists t, Tl. split; [exact Ht|]. split; [exact HTl|]. split; [exact Etr|].
    rewrite len_rev. split; [intros G; rewrite <- Hnd2; apply Cp2; exact G|].
    split; [rewrite V2, D1, <- dval_app; reflexivity|].
    rewrite <- Hnd2. destruct (nd1 =? 0); lia.
  - cbn [app] in E1, Hhead. rewrite exp_bytes_stop in E1. rewrite Hhead, E1. cbn [obind set_k negb].
    rewrite (set_tail_exp j _ nd1 Hexp').
    eexists. split; [reflexivity|]. cbn [d_neg d_d d_dp d_trunc]. split; [reflexivity|].
    destruct W1 as (Hnd1 & Hcap1 & Hok1 & Hlead1).
    split.
    { unfold dec_wf. cbn [d_d]. split; [apply digs_ok_rev; exact Hok1|]. split; [rewrite len_rev; lia|exact Hlead1]. }
    exists 0, 0. split; [lia|]. split; [change (10 ^ 0) with 1; lia|]. split; [reflexivity|].
    split; [intros; lia|]. rewrite app_nil_r, len_rev. change (10 ^ 0) with 1.
    split; [lia|]. change (len (@nil byte)) with 0. lia.
Qed.

(** a decimal that is a floor of x to its 800-digit grid satisfies the invariant *)
Lemma Inv_floor a x O z L c G :
  (0 <= z) -> (0 <= L < 10 ^ z) -> d_trunc a = (0 <? L) ->
  (dq a == inject_Z O * p10 (z + c))%Q -> (x == (inject_Z O * p10 z + inject_Z L) * p10 c)%Q ->
  (0 < z -> z + c = d_dp a - dec_cap) -> G <= dec_cap - d_dp a -> d_dp a <= dec_cap ->
  Inv a x G.
Proof.
  intros Hz HL Etr Es Ex Hcap HG Hdp.
  pose proof (p10_pos c) as Pc. pose proof (p10_pos z) as Pz.
  assert (HL0 : (0 <= inject_Z L)%Q) by (change 0%Q with (inject_Z 0); apply izle_fw; lia).
  assert (Esx : (x == dq a + inject_Z L * p10 c)%Q) by (rewrite Ex, Es, p10_add; ring).
  assert (HLc : (0 <= inject_Z L * p10 c)%Q) by (apply Qmult_le_0_compat; lra).
  split; [lra|]. split; [|split].
  - intros Ht. rewrite Ht in Etr. symmetry in Etr. apply Z.ltb_ge in Etr. assert (L = 0) by lia. subst L.
    rewrite Esx. change (inject_Z 0) with 0%Q. ring.
  - intros Ht. rewrite Ht in Etr. symmetry in Etr. apply Z.ltb_lt in Etr.
    assert (0 < inject_Z L)%Q by (change 0%Q with (inject_Z 0); apply izlt_fw; lia).
    assert (0 < inject_Z L * p10 c)%Q by (apply Qmult_lt_0_compat; assumption). lra.
  - intros h Hh. destruct (Z.eq_dec L 0) as [EL|NL].
    { subst L. eapply Qle_trans; [exact Hh|]. apply Qmul_le_r; [apply Qlt_le_weak, p2_pos|].
      rewrite Esx. change (inject_Z 0) with 0%Q. lra. }
    assert (Hzp : 0 < z).
    { destruct (Z.eq_dec z 0) as [->|]; [|lia]. change (10 ^ 0) with 1 in HL. lia. }
    specialize (Hcap Hzp).
    destruct (grid_sub G (d_dp a) HG Hdp) as (cc & Hcc & Ecc).
    rewrite <- Hcap in Ecc.
    assert (Hh2 : (inject_Z h * p2 (- G) <= x)%Q).
    { apply (Qmul_le_r_inv _ _ (p2 G)); [apply p2_pos|].
      rewrite <- Qmult_assoc, (Qmult_comm (p2 (- G))), p2_inv, Qmult_1_r. exact Hh. }
    rewrite Ecc, Ex, p10_add in Hh2.
    assert (Hh3 : (inject_Z (h * cc) * p10 z <= inject_Z O * p10 z + inject_Z L)%Q).
    { apply (Qmul_le_r_inv _ _ (p10 c)); [exact Pc|]. rewrite inject_Z_mult.
      eapply Qle_trans; [|exact Hh2]. apply Qle_lteq. right. ring. }
    rewrite p10_Z in Hh3 by lia. rewrite <- !inject_Z_mult, <- inject_Z_plus in Hh3.
    apply izle_bw in Hh3.
    assert (Hh4 : h * cc <= O) by nia.
    apply (Qmul_le_r_inv _ _ (p2 (- G))); [apply p2_pos|].
    rewrite <- (Qmult_assoc (dq a)), p2_inv, Qmult_1_r. rewrite Ecc, Es, p10_add.
    apply izle_fw in Hh4. rewrite inject_Z_mult in Hh4.
    setoid_replace (inject_Z h * (inject_Z cc * (p10 z * p10 c)))%Q with ((inject_Z h * inject_Z cc) * (p10 z * p10 c))%Q by ring.
    apply Qmul_le_r; [|exact Hh4]. apply Qlt_le_weak. apply Qmult_lt_0_compat; assumption.
Qed.

(** * The slow path on a literal whose integer part has at most 800 significant digits *)
Theorem slow_path_int800 T j a b ovf :
  tables_ok T -> jn_wf j = true -> FpScan.exp_small j ->
  len (strip0 (j_int j)) <= 800 ->
  set_m (jn_bytes j) = Some a -> floatBits_m T a = Some (b, ovf) ->
  jn_round j = (b, ovf).
Proof.
  intros HT Hwf Hes H800 Hset Hfb.
  destruct (set_spec_t j Hwf Hes H800) as (a' & Hset' & Haneg & Hawf & t & Tl & Ht & HTl & Etr & Hcap & HD & Hexp).
  rewrite Hset in Hset'. injection Hset' as <-.
  unfold jn_round, jn_value. cbn [fst snd].
  set (D := dval (j_int j ++ jn_frac_digits j)) in *.
  set (k := jn_exp10 j - len (jn_frac_digits j)) in *.
  set (O := dval_z (d_d a)) in *.
  assert (Hcase : d_d a = [] \/ d_d a <> []) by (destruct (d_d a); [left; reflexivity|right; discriminate]).
  destruct Hcase as [Ed|Hne].
  - (* the zero decimal *)
    assert (t = 0).
    { destruct (Z_lt_le_dec 0 t) as [G|]; [|lia]. specialize (Hcap G). rewrite Ed in Hcap. change (len (@nil Z)) with 0 in Hcap. unfold dec_cap in Hcap. lia. }
    subst t. change (10 ^ 0) with 1 in *. assert (Tl = 0) by lia. subst Tl.
    assert (D = 0) by (rewrite HD; unfold O; rewrite Ed, dval_z_nil; lia).
    rewrite H, Z.mul_0_l, FpDecBits.round_ne_zero.
    pose proof (floatBits_full T a b ovf HT Hawf Etr Hfb) as R.
    rewrite (dec_num_nil a Ed), FpDecBits.round_ne_zero, Haneg in R. symmetry. exact R.
  - rewrite floatBits_tr_fst in Hfb.
    destruct (floatBits_tr T a) as [[[b' o'] tr]|] eqn:E; cbn [option_map fst] in Hfb; [|discriminate].
    injection Hfb as -> ->.
    destruct Hawf as (Hok & Hcp & Hlead).
    assert (HOlb : 10 ^ (len (d_d a) - 1) <= O /\ O < 10 ^ len (d_d a)).
    { unfold O. destruct (d_d a) as [|c0 l0] eqn:Ed; [congruence|].
      pose proof (dval_z_lower c0 l0 Hok Hlead). pose proof (dval_z_bound _ Hok). rewrite len_cons in *.
      replace (1 + len l0 - 1) with (len l0) by lia. lia. }
    pose proof (len_ge0 (d_d a)) as Hlen0.
    assert (HOpos : 0 < O).
    { assert (0 < len (d_d a)) by (destruct (d_d a); [congruence|rewrite len_cons; pose proof (len_ge0 l); lia]).
      pose proof (pow10_pos (len (d_d a) - 1) ltac:(lia)). lia. }
    pose proof (pow10_pos t Ht) as Pt.
    assert (HDpos : 0 < D) by nia.
    pose proof (FpTables.P10_pos k) as Pk. pose proof (FpTables.P10_pos (- k)) as Pk'.
    set (x0 := (inject_Z D * p10 k)%Q).
    assert (Ex : (x0 * inject_Z (P10 (- k)) == inject_Z (D * P10 k))%Q).
    { unfold x0. rewrite inject_Z_mult, (P10_Q k). ring. }
    assert (Es : (dq a == inject_Z O * p10 (t + k))%Q).
    { unfold dq, FpDecShift.dexp. fold O. replace (d_dp a - len (d_d a)) with (t + k) by lia. reflexivity. }
    assert (Exq : (x0 == (inject_Z O * p10 t + inject_Z Tl) * p10 k)%Q).
    { unfold x0. rewrite HD, inject_Z_plus, inject_Z_mult, (p10_Z t) by lia. reflexivity. }
    pose proof (p10_pos k) as Qk. pose proof (p10_pos t) as Qt.
    assert (HTl0 : (0 <= inject_Z Tl)%Q) by (change 0%Q with (inject_Z 0); apply izle_fw; lia).
    symmetry. rewrite <- Haneg.
    apply (floatBits_tr_inv T a (D * P10 k) (P10 (- k)) x0 b ovf tr HT (conj Hok (conj Hcp Hlead)) Hne
             ltac:(nia) Pk' Ex).
    + rewrite Exq, Es, p10_add. assert (0 <= inject_Z Tl * p10 k)%Q by (apply Qmult_le_0_compat; lra). lra.
    + intros Hdp G HG. apply (Inv_floor a x0 O t Tl k G); try assumption.
      intros Gt. specialize (Hcap Gt). lia.
    + rewrite Exq. replace (d_dp a) with ((len (d_d a) + t) + k) by lia. rewrite p10_add.
      apply Qmul_lt_r; [exact Qk|]. rewrite (p10_Z t), p10_Z by lia.
      rewrite <- inject_Z_mult, <- inject_Z_plus. apply izlt_fw.
      rewrite Z.pow_add_r by lia. nia.
    + exact E.
Qed.

(** C04 for every literal whose integer part has at most 800 significant digits (the fraction
    may be arbitrarily long) and whose written exponent has at most 5 significant digits *)
Theorem parse_correct_int800 T j rest v n err :
  tables_ok T -> jn_wf j = true -> FpScan.exp_small j -> FpScan.rest_ok j rest ->
  len (strip0 (j_int j)) <= 800 ->
  ParseJSONFloatPrefix_m T (jn_bytes j ++ rest) = Some (v, n, err) ->
  n = len (jn_bytes j) /\ FpFacts.parse_result_ok j v err.
Proof.
  intros HT Hwf Hes Hrest H800.
  rewrite FpFacts.parse_unfold. cbv zeta.
  pose proof (FpScan.readFloat_spec j rest Hwf Hes Hrest) as Hscan. cbv zeta in Hscan.
  destruct Hscan as (Hok & Hp & Hneg & Hm & Hex).
  pose proof (FpScan.parse_second_check j rest Hwf Hes Hrest) as Hchk. cbv zeta in Hchk.
  rewrite Hok. cbn [negb]. rewrite Hchk, Hp.
  set (r := readFloat_m (jn_bytes j ++ rest)) in *.
  set (D := dval (j_int j ++ jn_frac_digits j)) in *.
  set (k := jn_exp10 j - len (jn_frac_digits j)) in *.
  assert (Hround : jn_round j = round_ne (j_neg j) (D * P10 k) (P10 (- k))) by reflexivity.
  destruct (FpFacts.fast_path T r) as [f|] eqn:Hfast.
  - intros Hres. injection Hres as <- <- <-. split; [reflexivity|].
    pose proof (FpFacts.fast_path_correct T r D k f HT (conj Hm Hex) Hfast) as Hc. rewrite Hneg in Hc.
    unfold FpFacts.parse_result_ok. rewrite Hround, Hc. cbn [fst snd]. split; reflexivity.
  - unfold FpFacts.slow_path. rewrite FpFacts.firstn_len_app.
    destruct (set_spec_t j Hwf Hes H800) as (a & Hset & _).
    rewrite Hset.
    destruct (floatBits_m T a) as [[b ovf]|] eqn:Hfb; cbn [obind]; [|discriminate].
    pose proof (slow_path_int800 T j a b ovf HT Hwf Hes H800 Hset Hfb) as Hjn.
    intros Hres. unfold FpFacts.parse_result_ok. rewrite Hjn. cbn [fst snd].
    destruct ovf; injection Hres as <- <- <-; repeat split; reflexivity.
Qed.

Theorem ReadFloat64_correct_int800 T ws j rest v p err :
  tables_ok T -> forallb is_ws ws = true ->
  jn_wf j = true -> FpScan.exp_small j -> FpScan.rest_ok j rest ->
  len (strip0 (j_int j)) <= 800 ->
  ReadFloat64_m T (ws ++ jn_bytes j ++ rest) = Some (v, p, err) ->
  p = len ws + len (jn_bytes j) /\
  exists e, err = option_map RfFp e /\ FpFacts.parse_result_ok j v e.
Proof.
  intros HT Hws Hwf Hes Hrest H800.
  destruct (FpFacts.jn_bytes_head j Hwf) as (c & t & Hc & Hcws).
  unfold ReadFloat64_m.
  rewrite (FpFacts.count_ws_app ws (jn_bytes j ++ rest) Hws) by (rewrite Hc; exact Hcws).
  fold (len ws).
  assert (Hlen : len (ws ++ jn_bytes j ++ rest) = len ws + len (jn_bytes j) + len rest).
  { unfold len. rewrite !app_length. lia. }
  destruct (Z.eqb_spec (len ws) (len (ws ++ jn_bytes j ++ rest))) as [E|_].
  { exfalso. rewrite Hlen, Hc in E. unfold len in E. cbn [length] in E. lia. }
  unfold len at 1. rewrite Nat2Z.id, skipn_app, Nat.sub_diag, skipn_all. cbn [skipn app].
  destruct (ParseJSONFloatPrefix_m T (jn_bytes j ++ rest)) as [[[v' pp] e]|] eqn:HP; cbn [obind]; [|discriminate].
  intros Hres. inversion Hres as [[Hv Hp He]]. clear Hres.
  destruct (parse_correct_int800 T j rest v' pp e HT Hwf Hes Hrest H800 HP) as (Hn & Hr).
  split; [lia|]. exists e. split; [destruct e; reflexivity|rewrite <- Hv; exact Hr].
Qed.

(** * The hypotheses are satisfiable, beyond the reach of the earlier theorems *)

(** 9007199254740993.00..01 with 800 zeros: 2^53 + 1 + 10^-801, just above a half-way point.
    817 significant digits; both fast paths refuse; decimal.set drops the final 1 and sets the
    trunc flag; the sticky flag makes RoundedInteger round up, as round_ne specifies. *)
Definition sticky_lit : jnum :=
  {| j_neg := false;
     j_int := map B [57;48;48;55;49;57;57;50;53;52;55;52;48;57;57;51];
     j_frac := Some (repeat (B 48) 800 ++ [B 49]);
     j_exp := None |}.

Example sticky_lit_ex :
  jn_wf sticky_lit = true /\ FpScan.exp_small sticky_lit /\ FpScan.rest_ok sticky_lit [] /\
  len (strip0 (j_int sticky_lit)) <= 800 /\
  len (strip0 (j_int sticky_lit ++ jn_frac_digits sticky_lit)) = 817 /\
  FpFacts.fast_path exT (readFloat_m (jn_bytes sticky_lit ++ [])) = None /\
  FpFacts.slow_ok exT (jn_bytes sticky_lit) = false /\
  ParseJSONFloatPrefix_m exT (jn_bytes sticky_lit ++ []) = Some (4845873199050653697, 818, None) /\
  jn_round sticky_lit = (4845873199050653697, false).
Proof.
  split; [reflexivity|]. split; [exact I|]. split; [exact I|].
  split; [vm_compute; discriminate|]. repeat split; vm_compute; reflexivity.
Qed.

(** the value of the specification on sticky_lit, obtained from the theorem *)
Example sticky_lit_inst : FpFacts.parse_result_ok sticky_lit 4845873199050653697 None.
Proof.
  destruct sticky_lit_ex as (H1 & H2 & H3 & H4 & _ & _ & _ & H8 & _).
  exact (proj2 (parse_correct_int800 exT sticky_lit [] _ _ _ exT_ok H1 H2 H3 H4 H8)).
Qed.

(** 0.77..7e-300 (790 sevens): at most 800 digits, but the left shifts of the slow path drop
    non-zero digits (no_truncation = false), so decimal_exact_partial does not apply;
    floatBits_full does *)
Example trunc_shift_ex :
  let a := ex_dec (repeat 7 790) (-300) false in
  no_truncation exT a = false /\ floatBits_m exT a = Some (117281590732642743, false).
Proof. cbv zeta. split; vm_compute; reflexivity. Qed.

Print Assumptions parse_correct_int800.
Print Assumptions ReadFloat64_correct_int800.
