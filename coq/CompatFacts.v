(** C17: StdLibCompatibleString / StdLibCompatibleStringBytes (models in Compat.v of the
    functions in rjson.go) replace exactly the bytes that are not part of a well-formed
    UTF-8 sequence by U+FFFD and leave everything else unchanged. *)
From Coq Require Import List ZArith Bool Lia.
From Coq Require Import Strings.Byte.
From Rjson Require Import Base BaseFacts Helpers Compat.
Import ListNotations.
Local Open Scope Z_scope.

(** * Bytes <-> Z *)

Lemma bz_zb : forall z, 0 <= z <= 255 -> bz (zb z) = z.
Proof.
  intros z Hz. unfold zb, bz.
  destruct (Byte.of_N (Z.to_N z)) eqn:E.
  - apply Byte.to_of_N in E. rewrite E. apply Z2N.id. lia.
  - apply Byte.of_N_None_iff in E. lia.
Qed.

Lemma bz_inj : forall a b, bz a = bz b -> a = b.
Proof.
  intros a b H. rewrite <- (zb_bz a), <- (zb_bz b), H. reflexivity.
Qed.

(** * Boolean tests to arithmetic *)

Ltac b2p :=
  repeat match goal with
  | H : _ && _ = true |- _ => apply andb_true_iff in H; destruct H
  | H : _ && _ = false |- _ => apply andb_false_iff in H; destruct H
  | H : _ || _ = true |- _ => apply orb_true_iff in H; destruct H
  | H : _ || _ = false |- _ => apply orb_false_iff in H; destruct H
  | H : negb _ = true |- _ => apply negb_true_iff in H
  | H : negb _ = false |- _ => apply negb_false_iff in H
  | H : (_ <? _) = true |- _ => apply Z.ltb_lt in H
  | H : (_ <? _) = false |- _ => apply Z.ltb_ge in H
  | H : (_ <=? _) = true |- _ => apply Z.leb_le in H
  | H : (_ <=? _) = false |- _ => apply Z.leb_gt in H
  | H : (_ =? _) = true |- _ => apply Z.eqb_eq in H
  | H : (_ =? _) = false |- _ => apply Z.eqb_neq in H
  end.

(** split on every [if] of the goal (innermost tests first), pruning the arithmetically impossible branches *)
Ltac split_ifs :=
  repeat match goal with
  | |- context[if ?c then _ else _] =>
      lazymatch c with
      | context[if _ then _ else _] => fail
      | _ => let E := fresh "E" in destruct c eqn:E; b2p; try lia; cbv iota beta
      end
  end.

(** * utf8.EncodeRune inverts the bit-packing of utf8.DecodeRune (on Z) *)

Lemma enc1Z : forall c0, 0 <= c0 < 128 -> utf8_encode c0 = [zb c0].
Proof.
  intros c0 H. unfold utf8_encode. split_ifs. reflexivity.
Qed.

Lemma enc2Z : forall c0 c1, 194 <= c0 <= 223 -> 128 <= c1 <= 191 ->
  utf8_encode ((c0 mod 32) * 64 + c1 mod 64) = [zb c0; zb c1].
Proof.
  intros c0 c1 H0 H1.
  assert (A0 : c0 mod 32 = c0 - 192) by (Z.div_mod_to_equations; lia).
  assert (A1 : c1 mod 64 = c1 - 128) by (Z.div_mod_to_equations; lia).
  rewrite A0, A1.
  remember ((c0 - 192) * 64 + (c1 - 128)) as r eqn:Hr.
  assert (Q0 : r / 64 = c0 - 192) by (Z.div_mod_to_equations; lia).
  assert (Q1 : r mod 64 = c1 - 128) by (Z.div_mod_to_equations; lia).
  unfold utf8_encode; split_ifs;
  rewrite Q0, Q1; repeat f_equal; lia.
Qed.

Lemma enc3Z : forall c0 c1 c2, 224 <= c0 <= 239 -> 128 <= c1 <= 191 -> 128 <= c2 <= 191 ->
  (c0 = 224 -> 160 <= c1) -> (c0 = 237 -> c1 <= 159) ->
  utf8_encode (((c0 mod 16) * 64 + c1 mod 64) * 64 + c2 mod 64) = [zb c0; zb c1; zb c2].
Proof.
  intros c0 c1 c2 H0 H1 H2 Hlo Hhi.
  assert (A0 : c0 mod 16 = c0 - 224) by (Z.div_mod_to_equations; lia).
  assert (A1 : c1 mod 64 = c1 - 128) by (Z.div_mod_to_equations; lia).
  assert (A2 : c2 mod 64 = c2 - 128) by (Z.div_mod_to_equations; lia).
  rewrite A0, A1, A2.
  remember (((c0 - 224) * 64 + (c1 - 128)) * 64 + (c2 - 128)) as r eqn:Hr.
  assert (Q0 : r / 4096 = c0 - 224) by (Z.div_mod_to_equations; lia).
  assert (Q1 : (r / 64) mod 64 = c1 - 128) by (Z.div_mod_to_equations; lia).
  assert (Q2 : r mod 64 = c2 - 128) by (Z.div_mod_to_equations; lia).
  unfold utf8_encode; split_ifs;
  rewrite Q0, Q1, Q2; repeat f_equal; lia.
Qed.

Lemma enc4Z : forall c0 c1 c2 c3, 240 <= c0 <= 244 ->
  128 <= c1 <= 191 -> 128 <= c2 <= 191 -> 128 <= c3 <= 191 ->
  (c0 = 240 -> 144 <= c1) -> (c0 = 244 -> c1 <= 143) ->
  utf8_encode ((((c0 mod 8) * 64 + c1 mod 64) * 64 + c2 mod 64) * 64 + c3 mod 64)
  = [zb c0; zb c1; zb c2; zb c3].
Proof.
  intros c0 c1 c2 c3 H0 H1 H2 H3 Hlo Hhi.
  assert (A0 : c0 mod 8 = c0 - 240) by (Z.div_mod_to_equations; lia).
  assert (A1 : c1 mod 64 = c1 - 128) by (Z.div_mod_to_equations; lia).
  assert (A2 : c2 mod 64 = c2 - 128) by (Z.div_mod_to_equations; lia).
  assert (A3 : c3 mod 64 = c3 - 128) by (Z.div_mod_to_equations; lia).
  rewrite A0, A1, A2, A3.
  remember ((((c0 - 240) * 64 + (c1 - 128)) * 64 + (c2 - 128)) * 64 + (c3 - 128)) as r eqn:Hr.
  assert (Q0 : r / 262144 = c0 - 240) by (Z.div_mod_to_equations; lia).
  assert (Q1 : (r / 4096) mod 64 = c1 - 128) by (Z.div_mod_to_equations; lia).
  assert (Q2 : (r / 64) mod 64 = c2 - 128) by (Z.div_mod_to_equations; lia).
  assert (Q3 : r mod 64 = c3 - 128) by (Z.div_mod_to_equations; lia).
  unfold utf8_encode; split_ifs;
  rewrite Q0, Q1, Q2, Q3; repeat f_equal; lia.
Qed.

Lemma enc_fffd : utf8_encode 65533 = fffd.
Proof. reflexivity. Qed.

(** * The single-step lemma: Go's first[]/acceptRanges decoder vs Unicode Table 3-7 *)

Lemma decode_rune_wf : forall s, s <> [] ->
  match wf_len s with
  | O => decode_rune s = (65533, 1%nat)
  | k => snd (decode_rune s) = k /\ utf8_encode (fst (decode_rune s)) = firstn k s
  end.
Proof.
  intros s Hs. destruct s as [|b0 r]; [congruence|]. clear Hs.
  pose proof (bz_range b0) as R0.
  destruct r as [|b1 r]; [|pose proof (bz_range b1) as R1;
  destruct r as [|b2 r]; [|pose proof (bz_range b2) as R2;
  destruct r as [|b3 r]; [|pose proof (bz_range b3) as R3]]].
  all: unfold wf_len, decode_rune, is_cont, in_rng; cbv zeta; split_ifs;
    try reflexivity; cbn [fst snd firstn]; (split; [reflexivity|]).
  all: first [ rewrite enc1Z by lia | rewrite enc2Z by lia
             | rewrite enc3Z by lia | rewrite enc4Z by lia ];
       rewrite !zb_bz; reflexivity.
Qed.

(** * Facts about [wf_len] *)

Lemma wf_len_le4 : forall s, (wf_len s <= 4)%nat.
Proof.
  intros [|b0 [|b1 [|b2 [|b3 r]]]]; unfold wf_len; cbv zeta;
    repeat match goal with |- context[if ?c then _ else _] => destruct c end; lia.
Qed.

Lemma wf_len_le_length : forall s, (wf_len s <= length s)%nat.
Proof.
  intros [|b0 [|b1 [|b2 [|b3 r]]]]; unfold wf_len; cbv zeta;
    repeat match goal with |- context[if ?c then _ else _] => destruct c end;
    cbn [length]; lia.
Qed.

(** [wf_len] only looks at the bytes of the sequence it recognises *)
Lemma wf_len_prefix : forall s k t,
  wf_len s = S k -> wf_len (firstn (S k) s ++ t) = S k.
Proof.
  intros s k t H.
  destruct s as [|b0 [|b1 [|b2 [|b3 r]]]]; unfold wf_len in H; cbv zeta in H;
    repeat match type of H with context[if ?c then _ else _] =>
      let E := fresh "E" in destruct c eqn:E end;
    try discriminate H; injection H as <-; cbn [firstn app]; unfold wf_len; cbv zeta;
    repeat match goal with E : _ = _ |- _ => rewrite E; clear E end; reflexivity.
Qed.

Lemma decode_rune_width_le : forall s, (snd (decode_rune s) <= length s)%nat.
Proof.
  intros [|b r]; [simpl; lia|].
  pose proof (decode_rune_wf (b :: r) ltac:(discriminate)) as H.
  pose proof (wf_len_le_length (b :: r)) as L.
  destruct (wf_len (b :: r)).
  - rewrite H. simpl. lia.
  - destruct H as [-> _]. exact L.
Qed.

Lemma decode_rune_width_pos : forall s, s <> [] -> (1 <= snd (decode_rune s))%nat.
Proof.
  intros s Hs. pose proof (decode_rune_wf s Hs) as H.
  destruct (wf_len s).
  - rewrite H. simpl. lia.
  - destruct H as [-> _]. lia.
Qed.

(** * The loops do not depend on the fuel, once there is enough of it *)

Lemma list_len_ind {A} (P : list A -> Prop) :
  (forall s, (forall t, (length t < length s)%nat -> P t) -> P s) -> forall s, P s.
Proof.
  intros H s. remember (length s) as n eqn:Hn. revert s Hn.
  induction n as [n IH] using lt_wf_ind. intros s ->.
  apply H. intros t Ht. exact (IH _ Ht t eq_refl).
Qed.

Lemma sanitize_loop_S : forall f b r,
  sanitize_loop (S f) (b :: r) =
  match wf_len (b :: r) with
  | O => fffd ++ sanitize_loop f r
  | S k => firstn (S k) (b :: r) ++ sanitize_loop f (skipn (S k) (b :: r))
  end.
Proof. reflexivity. Qed.

Lemma valid_utf8_loop_S : forall f b r,
  valid_utf8_loop (S f) (b :: r) =
  match wf_len (b :: r) with
  | O => false
  | S k => valid_utf8_loop f (skipn (S k) (b :: r))
  end.
Proof. reflexivity. Qed.

Lemma compat_loop_S : forall f b r,
  compat_loop (S f) (b :: r) =
  utf8_encode (fst (decode_rune (b :: r)))
  ++ compat_loop f (skipn (snd (decode_rune (b :: r))) (b :: r)).
Proof.
  intros. cbn [compat_loop]. destruct (decode_rune (b :: r)). reflexivity.
Qed.

Lemma sanitize_loop_fuel : forall f1 f2 s,
  (length s <= f1)%nat -> (length s <= f2)%nat -> sanitize_loop f1 s = sanitize_loop f2 s.
Proof.
  induction f1 as [|f1 IH]; intros f2 s H1 H2.
  - destruct s; [|simpl in H1; lia]. destruct f2; reflexivity.
  - destruct s as [|b r]; [destruct f2; reflexivity|].
    destruct f2 as [|f2]; [simpl in H2; lia|].
    rewrite !sanitize_loop_S. simpl in H1, H2.
    destruct (wf_len (b :: r)) as [|k]; f_equal; apply IH;
      try rewrite skipn_length; simpl; lia.
Qed.

Lemma valid_utf8_loop_fuel : forall f1 f2 s,
  (length s <= f1)%nat -> (length s <= f2)%nat -> valid_utf8_loop f1 s = valid_utf8_loop f2 s.
Proof.
  induction f1 as [|f1 IH]; intros f2 s H1 H2.
  - destruct s; [|simpl in H1; lia]. destruct f2; reflexivity.
  - destruct s as [|b r]; [destruct f2; reflexivity|].
    destruct f2 as [|f2]; [simpl in H2; lia|].
    rewrite !valid_utf8_loop_S. simpl in H1, H2.
    destruct (wf_len (b :: r)) as [|k]; [reflexivity|]. apply IH;
      rewrite skipn_length; simpl; lia.
Qed.

(** ** Fuel-free unfolding equations of the specification *)

Lemma sanitize_nil : sanitize [] = [].
Proof. reflexivity. Qed.

Lemma sanitize_cons : forall b r,
  sanitize (b :: r) =
  match wf_len (b :: r) with
  | O => fffd ++ sanitize r
  | S k => firstn (S k) (b :: r) ++ sanitize (skipn (S k) (b :: r))
  end.
Proof.
  intros b r. unfold sanitize. cbn [length]. rewrite sanitize_loop_S.
  destruct (wf_len (b :: r)) as [|k]; [reflexivity|]. f_equal.
  apply sanitize_loop_fuel; [rewrite skipn_length; simpl; lia | lia].
Qed.

Lemma valid_utf8_nil : valid_utf8 [] = true.
Proof. reflexivity. Qed.

Lemma valid_utf8_cons : forall b r,
  valid_utf8 (b :: r) =
  match wf_len (b :: r) with
  | O => false
  | S k => valid_utf8 (skipn (S k) (b :: r))
  end.
Proof.
  intros b r. unfold valid_utf8. cbn [length]. rewrite valid_utf8_loop_S.
  destruct (wf_len (b :: r)) as [|k]; [reflexivity|].
  apply valid_utf8_loop_fuel; [rewrite skipn_length; simpl; lia | lia].
Qed.

(** * C17, part 1: the Go loop computes [sanitize] *)

Lemma compat_loop_sanitize_loop : forall fuel s,
  (length s <= fuel)%nat -> compat_loop fuel s = sanitize_loop fuel s.
Proof.
  induction fuel as [|f IH]; intros s Hl; [reflexivity|].
  destruct s as [|b r]; [reflexivity|].
  rewrite compat_loop_S, sanitize_loop_S.
  pose proof (decode_rune_wf (b :: r) ltac:(discriminate)) as H.
  simpl in Hl.
  destruct (wf_len (b :: r)) as [|k].
  - rewrite H. cbn [fst snd]. rewrite enc_fffd. f_equal.
    change (skipn 1 (b :: r)) with r. apply IH. lia.
  - destruct H as [Hw He]. rewrite Hw, He. f_equal.
    apply IH. rewrite skipn_length. simpl. lia.
Qed.

Theorem compat_spec : forall s, StdLibCompatibleString s = sanitize s.
Proof.
  intro s. unfold StdLibCompatibleString, sanitize.
  apply compat_loop_sanitize_loop. lia.
Qed.

Theorem compat_bytes_append : forall s buf,
  StdLibCompatibleStringBytes s buf = buf ++ sanitize s.
Proof.
  intros s buf. unfold StdLibCompatibleStringBytes. rewrite compat_spec. reflexivity.
Qed.

(** * C17, part 2: properties of [sanitize] *)

Lemma wf_len_pos_nonnil : forall s k, wf_len s = S k -> s <> [].
Proof. intros [|b r] k H; [discriminate H | discriminate]. Qed.

Lemma firstn_wf_length : forall s k, wf_len s = S k -> length (firstn (S k) s) = S k.
Proof.
  intros s k H. apply firstn_length_le.
  pose proof (wf_len_le_length s). lia.
Qed.

(** a well-formed sequence in front does not change validity of the rest *)
Lemma valid_utf8_app_wf : forall s k t,
  wf_len s = S k -> valid_utf8 (firstn (S k) s ++ t) = valid_utf8 t.
Proof.
  intros s k t H.
  pose proof (wf_len_prefix s k t H) as Hp.
  pose proof (firstn_wf_length s k H) as Hl.
  destruct (firstn (S k) s ++ t) as [|b r] eqn:E.
  - apply (f_equal (@length _)) in E. rewrite app_length, Hl in E. simpl in E. lia.
  - rewrite valid_utf8_cons, Hp, <- E.
    rewrite skipn_app, Hl, Nat.sub_diag.
    rewrite skipn_all2 by lia. reflexivity.
Qed.

Lemma wf_len_fffd : forall t, wf_len (fffd ++ t) = 3%nat.
Proof. intro t. reflexivity. Qed.

Lemma valid_utf8_fffd_app : forall t, valid_utf8 (fffd ++ t) = valid_utf8 t.
Proof.
  intro t. change (fffd ++ t) with (firstn 3 (fffd ++ t) ++ t).
  apply valid_utf8_app_wf. apply wf_len_fffd.
Qed.

Theorem sanitize_valid : forall s, valid_utf8 (sanitize s) = true.
Proof.
  induction s as [s IH] using list_len_ind.
  destruct s as [|b r]; [reflexivity|].
  rewrite sanitize_cons. destruct (wf_len (b :: r)) as [|k] eqn:E.
  - rewrite valid_utf8_fffd_app. apply IH. simpl. lia.
  - rewrite (valid_utf8_app_wf _ _ _ E). apply IH.
    rewrite skipn_length. simpl. lia.
Qed.

Theorem sanitize_valid_id : forall s, valid_utf8 s = true -> sanitize s = s.
Proof.
  induction s as [s IH] using list_len_ind. intro Hv.
  destruct s as [|b r]; [reflexivity|].
  rewrite sanitize_cons. rewrite valid_utf8_cons in Hv.
  destruct (wf_len (b :: r)) as [|k]; [discriminate Hv|].
  rewrite IH by (try rewrite skipn_length; simpl; try lia; exact Hv).
  apply firstn_skipn.
Qed.

Theorem sanitize_idempotent : forall s, sanitize (sanitize s) = sanitize s.
Proof. intro s. apply sanitize_valid_id, sanitize_valid. Qed.

Theorem sanitize_app_valid : forall a b,
  valid_utf8 a = true -> sanitize (a ++ b) = a ++ sanitize b.
Proof.
  induction a as [a IH] using list_len_ind. intros b Hv.
  destruct a as [|x r]; [reflexivity|].
  rewrite valid_utf8_cons in Hv.
  destruct (wf_len (x :: r)) as [|k] eqn:E; [discriminate Hv|].
  pose proof (wf_len_le_length (x :: r)) as Hle. rewrite E in Hle.
  assert (Hw : wf_len ((x :: r) ++ b) = S k).
  { replace ((x :: r) ++ b) with (firstn (S k) (x :: r) ++ (skipn (S k) (x :: r) ++ b))
      by (rewrite app_assoc, firstn_skipn; reflexivity).
    apply wf_len_prefix. exact E. }
  change ((x :: r) ++ b) with (x :: (r ++ b)) in *.
  rewrite sanitize_cons, Hw.
  change (x :: (r ++ b)) with ((x :: r) ++ b).
  rewrite firstn_app, skipn_app.
  replace (S k - length (x :: r))%nat with O by lia.
  change (firstn 0 b) with (@nil byte). change (skipn 0 b) with b. rewrite app_nil_r.
  rewrite IH by (try rewrite skipn_length; simpl; try lia; exact Hv).
  rewrite app_assoc, firstn_skipn. reflexivity.
Qed.

(** ** Corollaries in terms of the Go functions *)

Corollary compat_valid_id : forall s, valid_utf8 s = true -> StdLibCompatibleString s = s.
Proof. intros s H. rewrite compat_spec. apply sanitize_valid_id, H. Qed.

Corollary compat_valid : forall s, valid_utf8 (StdLibCompatibleString s) = true.
Proof. intro s. rewrite compat_spec. apply sanitize_valid. Qed.

Corollary compat_idempotent : forall s,
  StdLibCompatibleString (StdLibCompatibleString s) = StdLibCompatibleString s.
Proof. intro s. rewrite !compat_spec. apply sanitize_idempotent. Qed.

(** the output is the input exactly when the input is valid UTF-8 *)
Corollary compat_fix_iff : forall s, StdLibCompatibleString s = s <-> valid_utf8 s = true.
Proof.
  intro s. split; [|apply compat_valid_id].
  intro H. rewrite <- H. apply compat_valid.
Qed.

(** * Examples (computed) *)

Definition bs (l : list Z) : list byte := map zb l.

(** a lone continuation byte *)
Example ex_lone_cont : StdLibCompatibleString (bs [128]) = bs [239; 191; 189].
Proof. vm_compute. reflexivity. Qed.

(** overlong encoding of NUL, C0 80: both bytes are invalid *)
Example ex_overlong : StdLibCompatibleString (bs [192; 128]) = bs [239; 191; 189; 239; 191; 189].
Proof. vm_compute. reflexivity. Qed.

(** overlong 3-byte form E0 80 80 *)
Example ex_overlong3 : StdLibCompatibleString (bs [224; 128; 128])
  = bs [239; 191; 189; 239; 191; 189; 239; 191; 189].
Proof. vm_compute. reflexivity. Qed.

(** UTF-8-encoded surrogate U+D800, ED A0 80: three U+FFFD *)
Example ex_surrogate : StdLibCompatibleString (bs [237; 160; 128])
  = bs [239; 191; 189; 239; 191; 189; 239; 191; 189].
Proof. vm_compute. reflexivity. Qed.

(** F4 90 80 80 would be U+110000 > U+10FFFF: four U+FFFD *)
Example ex_too_large : StdLibCompatibleString (bs [244; 144; 128; 128])
  = bs [239; 191; 189; 239; 191; 189; 239; 191; 189; 239; 191; 189].
Proof. vm_compute. reflexivity. Qed.

(** F5 is never a valid head byte *)
Example ex_f5 : StdLibCompatibleString (bs [245; 128]) = bs [239; 191; 189; 239; 191; 189].
Proof. vm_compute. reflexivity. Qed.

(** a 3-byte sequence truncated by the end of the string: "a" E2 82 *)
Example ex_truncated : StdLibCompatibleString (bs [97; 226; 130])
  = bs [97; 239; 191; 189; 239; 191; 189].
Proof. vm_compute. reflexivity. Qed.

(** a 3-byte sequence truncated by an ASCII byte: E2 82 "a" *)
Example ex_truncated_mid : StdLibCompatibleString (bs [226; 130; 97])
  = bs [239; 191; 189; 239; 191; 189; 97].
Proof. vm_compute. reflexivity. Qed.

(** valid 2-, 3- and 4-byte sequences (U+00E9, U+20AC, U+1F600) are unchanged *)
Example ex_valid2 : StdLibCompatibleString (bs [195; 169]) = bs [195; 169].
Proof. vm_compute. reflexivity. Qed.
Example ex_valid3 : StdLibCompatibleString (bs [226; 130; 172]) = bs [226; 130; 172].
Proof. vm_compute. reflexivity. Qed.
Example ex_valid4 : StdLibCompatibleString (bs [240; 159; 152; 128]) = bs [240; 159; 152; 128].
Proof. vm_compute. reflexivity. Qed.

(** boundary code points: U+0080, U+07FF, U+0800, U+D7FF, U+E000, U+FFFF, U+10000, U+10FFFF *)
Example ex_boundaries :
  let s := bs [194; 128; 223; 191; 224; 160; 128; 237; 159; 191; 238; 128; 128;
               239; 191; 191; 240; 144; 128; 128; 244; 143; 191; 191] in
  StdLibCompatibleString s = s /\ valid_utf8 s = true.
Proof. vm_compute. split; reflexivity. Qed.

(** a genuine U+FFFD in the input is valid UTF-8 and is kept *)
Example ex_real_fffd : StdLibCompatibleString (bs [239; 191; 189]) = bs [239; 191; 189]
  /\ valid_utf8 (bs [239; 191; 189]) = true.
Proof. vm_compute. split; reflexivity. Qed.

(** mixed: "A" FF U+00E9 C3 "z" *)
Example ex_mixed : StdLibCompatibleString (bs [65; 255; 195; 169; 195; 122])
  = bs [65; 239; 191; 189; 195; 169; 239; 191; 189; 122].
Proof. vm_compute. reflexivity. Qed.

(** the Bytes variant appends to its destination *)
Example ex_bytes : StdLibCompatibleStringBytes (bs [128; 97]) (bs [120; 121])
  = bs [120; 121; 239; 191; 189; 97].
Proof. vm_compute. reflexivity. Qed.

Example ex_empty : StdLibCompatibleString [] = [] /\ valid_utf8 [] = true.
Proof. vm_compute. split; reflexivity. Qed.

Example ex_invalid_not_valid : valid_utf8 (bs [237; 160; 128]) = false.
Proof. vm_compute. reflexivity. Qed.

(** [decode_rune] agrees with [wf_len] on every 1- and 2-byte input (computed sweep,
    independent of the arithmetic proof above) *)
Example ex_sweep2 :
  forallb (fun b0 =>
    forallb (fun b1 =>
      match wf_len [b0; b1], decode_rune [b0; b1] with
      | O, (r, w) => (r =? 65533) && Nat.eqb w 1
      | S k, (r, w) => Nat.eqb w (S k)
      end) all_bytes) all_bytes = true.
Proof. vm_compute. reflexivity. Qed.

Print Assumptions decode_rune_wf.
Print Assumptions compat_spec.
Print Assumptions sanitize_valid_id.
Print Assumptions sanitize_valid.
Print Assumptions sanitize_idempotent.
Print Assumptions compat_bytes_append.
Print Assumptions sanitize_app_valid.
Print Assumptions compat_fix_iff.
