(** FpDecTrunc.v -- the decimal shifts WITH truncation (decimal.go leftShift / rightShift when
    digits beyond position 800 are dropped): the stored result is the exact result floored to
    800 significant digits, and the trunc flag records whether anything non-zero was dropped. *)
From Coq Require Import List ZArith Lia Bool.
From Rjson Require Import Base Helpers Round Fp FpSpec FpTables FpDecDefs FpDecShift.
Import ListNotations.
Local Open Scope Z_scope.

Lemma orb_pos_sum a b t : 0 <= a -> 0 <= b ->
  ((t || (0 <? a)) || (0 <? b)) = (t || (0 <? a + b)).
Proof.
  intros Ha Hb. destruct t; cbn [orb]; [reflexivity|].
  destruct (Z.ltb_spec 0 a), (Z.ltb_spec 0 b), (Z.ltb_spec 0 (a + b)); cbn [orb]; try reflexivity; lia.
Qed.

Lemma orb_pos_scaled a b P t : 0 <= a -> 0 <= b -> 0 < P ->
  ((t || (0 <? a)) || (0 <? b)) = (t || (0 <? a * P + b)).
Proof.
  intros Ha Hb HP. destruct t; cbn [orb]; [reflexivity|].
  destruct (Z.ltb_spec 0 a), (Z.ltb_spec 0 b), (Z.ltb_spec 0 (a * P + b)); cbn [orb]; try reflexivity; nia.
Qed.

(** * rightShift *)

(** beyond the capacity: the remaining quotient digits [Dr] (q of them) are dropped *)
Lemma rs_extra_cap_t k : 1 <= k <= 60 -> forall fuel n w out trunc out' tr',
  dec_cap <= w -> 0 <= n < 10 * 2 ^ k ->
  rs_extra fuel k n w out trunc = Some (out', tr') ->
  out' = out /\ exists q Dr, 0 <= q /\ 0 <= Dr < 10 ^ q /\ tr' = (trunc || (0 <? Dr)) /\
                             Dr * (10 * 2 ^ k) = n * 10 ^ q.
Proof.
  intros Hk. induction fuel as [|f IH]; intros n w out trunc out' tr' Hw Hn H; cbn [rs_extra] in H.
  - destruct (Z.eqb_spec n 0) as [N0|N0]; [|discriminate]. injection H as <- <-.
    split; [reflexivity|]. exists 0, 0. change (10 ^ 0) with 1. rewrite orb_false_r. repeat split; lia.
  - destruct (Z.eqb_spec n 0) as [N0|N0].
    { injection H as <- <-. split; [reflexivity|]. exists 0, 0. change (10 ^ 0) with 1.
      rewrite orb_false_r. repeat split; lia. }
    destruct (Z.ltb_spec w dec_cap); [lia|].
    destruct (rs_extra_step0 k n Hk Hn) as (Hd & Hn1 & Ex). cbv zeta in Hd, Hn1, Ex.
    apply IH in H; [|assumption|assumption].
    destruct H as (Eo & q & Dr & Hq & HDr & Et & Ev).
    split; [exact Eo|]. exists (q + 1), (shr n k * 10 ^ q + Dr).
    pose proof (pow10_pos q Hq) as Pq. rewrite pow10_succ by lia.
    split; [lia|]. split; [nia|]. split.
    + rewrite Et. apply orb_pos_scaled; lia.
    + set (dig := shr n k) in *. set (n1 := u64 (lowbits n k * 10)) in *.
      replace ((dig * 10 ^ q + Dr) * (10 * 2 ^ k)) with (dig * (10 * 2 ^ k) * 10 ^ q + Dr * (10 * 2 ^ k)) by ring.
      rewrite Ev. replace (n * (10 ^ q * 10)) with (10 * n * 10 ^ q) by ring. rewrite <- Ex. ring.
Qed.

Lemma rs_extra_spec_t k : 1 <= k <= 60 -> forall fuel n w out trunc out' tr',
  w = len out -> w <= dec_cap -> 0 <= n < 10 * 2 ^ k -> digs_ok out ->
  rs_extra fuel k n w out trunc = Some (out', tr') ->
  digs_ok out' /\ len out <= len out' <= dec_cap /\
  exists q Dr, 0 <= q /\ 0 <= Dr < 10 ^ q /\ tr' = (trunc || (0 <? Dr)) /\
    (0 < q -> len out' = dec_cap) /\
    (dval_z (rev out') * 10 ^ q + Dr) * (10 * 2 ^ k)
    = (dval_z (rev out) * (10 * 2 ^ k) + n) * 10 ^ (len out' - len out + q).
Proof.
  intros Hk. induction fuel as [|f IH]; intros n w out trunc out' tr' Ew Hw Hn Ho H.
  - cbn [rs_extra] in H. destruct (Z.eqb_spec n 0) as [N0|N0]; [|discriminate]. injection H as <- <-.
    split; [assumption|]. split; [lia|]. exists 0, 0. rewrite Z.sub_diag. change (10 ^ (0 + 0)) with 1.
    change (10 ^ 0) with 1. rewrite orb_false_r. repeat split; try lia.
  - destruct (Z.eqb_spec n 0) as [N0|N0].
    { cbn [rs_extra] in H. destruct (Z.eqb_spec n 0) as [_|]; [|contradiction].
      injection H as <- <-.
      split; [assumption|]. split; [lia|]. exists 0, 0. rewrite Z.sub_diag. change (10 ^ (0 + 0)) with 1.
      change (10 ^ 0) with 1. rewrite orb_false_r. repeat split; try lia. }
    destruct (Z.ltb_spec w dec_cap) as [Hlt|Hge].
    + cbn [rs_extra] in H. destruct (Z.eqb_spec n 0) as [|_]; [contradiction|].
      destruct (Z.ltb_spec w dec_cap) as [_|]; [|lia].
      destruct (rs_extra_step0 k n Hk Hn) as (Hd & Hn1 & Ex). cbv zeta in Hd, Hn1, Ex.
      apply IH in H; [|rewrite zlen_cons; lia|lia|assumption|apply digs_ok_cons; assumption].
      destruct H as (Ho' & Hlen & q & Dr & Hq & HDr & Et & Hcap & Hv). rewrite zlen_cons in Hlen.
      split; [exact Ho'|]. split; [lia|]. exists q, Dr.
      split; [exact Hq|]. split; [exact HDr|]. split; [exact Et|]. split; [exact Hcap|].
      rewrite Hv. rewrite dval_rev_cons, zlen_cons.
      replace (len out' - len out + q) with ((len out' - (len out + 1) + q) + 1) by lia.
      rewrite pow10_succ by lia.
      set (O := dval_z (rev out)) in *. set (P := 10 ^ (len out' - (len out + 1) + q)) in *.
      set (dig := shr n k) in *. set (n1 := u64 (lowbits n k * 10)) in *.
      replace ((O * 10 + dig) * (10 * 2 ^ k) + n1) with (10 * (O * (10 * 2 ^ k)) + (dig * (10 * 2 ^ k) + n1)) by ring.
      rewrite Ex. ring.
    + apply (rs_extra_cap_t k Hk) in H; [|lia|assumption].
      destruct H as (-> & q & Dr & Hq & HDr & Et & Ev).
      split; [assumption|]. split; [lia|]. exists q, Dr.
      split; [exact Hq|]. split; [exact HDr|]. split; [exact Et|]. split; [intros; lia|].
      rewrite Z.sub_diag, Z.add_0_l. rewrite Z.mul_add_distr_r, Ev. ring.
Qed.

(** * The common post-condition of a (possibly truncating) shift by k bits, k of either sign.
    Y * 10^c with c = dexp a + m' - m is the exact result value(a) * 2^k; the stored digits are
    O = Y / 10^z, the dropped part is L = Y mod 10^z; when something is dropped the stored
    unit is 10^(dp' - 800). *)
Definition shift_tpost (a a' : decimal) (k : Z) : Prop :=
  dec_wf a' /\ dec_trimmed a' /\ d_d a' <> [] /\ d_neg a' = d_neg a /\
  exists Y m m' O z L,
    0 <= m /\ 0 <= m' /\ 0 <= z /\ 0 <= L < 10 ^ z /\
    Y * P2 (- k) * 10 ^ m' = dval_z (d_d a) * P2 k * 10 ^ m /\
    Y = O * 10 ^ z + L /\
    d_trunc a' = (d_trunc a || (0 <? L)) /\
    (forall M, 0 <= z + (dexp a + m' - m) + M ->
       dval_z (d_d a') * 10 ^ (dexp a' + M) = O * 10 ^ (z + (dexp a + m' - m) + M)) /\
    (0 < z -> z + (dexp a + m' - m) = d_dp a' - dec_cap) /\
    1 <= d_dp a' - (dexp a + m' - m) /\
    10 ^ (d_dp a' - (dexp a + m' - m) - 1) <= Y < 10 ^ (d_dp a' - (dexp a + m' - m)).

Theorem rightShift_trunc a k a' :
  dec_wf a -> d_d a <> [] -> 1 <= k <= 60 -> rightShift_m a k = Some a' ->
  shift_tpost a a' (- k).
Proof.
  intros (Hdig & Hcap & Hlead) Hne Hk H.
  destruct (K_bounds k Hk) as [K2 K64].
  assert (HNpos : 10 ^ (len (d_d a) - 1) <= dval_z (d_d a)).
  { destruct (d_d a) as [|d t] eqn:Ed; [congruence|].
    rewrite zlen_cons. replace (len t + 1 - 1) with (len t) by lia.
    apply dval_lead_lb; assumption. }
  assert (HN0 : 0 < dval_z (d_d a)).
  { pose proof (zlen_nonneg (d_d a)).
    assert (0 < len (d_d a)).
    { destruct (d_d a); [congruence|]. rewrite zlen_cons. pose proof (zlen_nonneg l). lia. }
    pose proof (pow10_pos (len (d_d a) - 1) ltac:(lia)). lia. }
  unfold rightShift_m in H.
  destruct (rs_pick (d_d a) k 0 0) as [pk|] eqn:Hp; cbn [obind] in H; [|discriminate].
  apply (rs_pick_spec k Hk (d_d a) [] 0 0 pk Hdig) in Hp; [|reflexivity|reflexivity|lia].
  destruct pk as [u|[[l r] n0]].
  { simpl app in Hp. lia. }
  destruct Hp as (pre & j & Hj & Eds & En0 & Er & Hjl & Hn0). simpl app in Eds.
  destruct (rs_main l k n0 []) as [n1 out1] eqn:Hm.
  assert (Hdl : digs_ok pre /\ digs_ok l). { apply digs_ok_app. rewrite Eds. exact Hdig. }
  destruct Hdl as [Hdpre Hdl].
  apply (rs_main_spec k Hk) in Hm; [|assumption|apply digs_ok_nil|lia].
  destruct Hm as (Ho1 & Hn1 & Hl1 & Hv1).
  change (len (@nil Z)) with 0 in Hl1. change (dval_z (rev [])) with 0 in Hv1.
  destruct (rs_extra 128 k n1 (len out1) out1 (d_trunc a)) as [[out2 tr2]|] eqn:He;
    cbn [obind] in H; [|discriminate].
  injection H as <-.
  pose proof (trim_rev_val out2 (d_dp a - (r - 1)) (d_neg a) tr2) as T. cbv zeta in T.
  set (a' := trim_rev out2 (d_dp a - (r - 1)) (d_neg a) tr2) in *.
  destruct T as (Ttrim & Tneg & Ttr & Tdig & Tlen & Tval & Tnil & Tdp & Tlead).
  assert (Hlen1 : len out1 <= dec_cap).
  { rewrite Hl1. rewrite <- Eds in Hcap. rewrite zlen_app in Hcap. pose proof (zlen_nonneg pre). lia. }
  apply (rs_extra_spec_t k Hk) in He; [|reflexivity|assumption|assumption|assumption].
  destruct He as (Ho2 & Hl2 & q & Dr & Hq & HDr & Etr & Hqcap & Hv2).
  set (N := dval_z (d_d a)) in *. set (O2 := dval_z (rev out2)) in *.
  set (m := len l) in *. set (L2 := len out2) in *.
  set (Y := O2 * 10 ^ q + Dr) in *.
  set (s := j + (L2 - len out1) + q).
  pose proof (zlen_nonneg l) as Hm0. fold m in Hm0.
  assert (HX : Y * (10 * 2 ^ k) = N * 10 ^ s).
  { rewrite Hv2, Hv1. unfold s. replace (j + (L2 - len out1) + q) with (j + (L2 - len out1 + q)) by lia.
    rewrite (pow10_add j) by lia.
    unfold N. rewrite <- Eds, dval_app. fold m. rewrite En0.
    destruct Hjl as [ -> | -> ].
    - change (10 ^ 0) with 1. ring.
    - unfold m. change (len (@nil Z)) with 0. change (dval_z []) with 0. change (10 ^ 0) with 1. ring. }
  pose proof (pow10_pos q Hq) as Pq.
  assert (HLB : 2 ^ k * 10 ^ (L2 + q) <= Y * (10 * 2 ^ k)).
  { rewrite Hv2, Hv1. pose proof (dval_bound l Hdl) as Bl. fold m in Bl.
    pose proof (pow10_pos (L2 - len out1 + q) ltac:(lia)) as Pp.
    pose proof (pow10_pos m Hm0) as Pm.
    replace (L2 + q) with (m + (L2 - len out1 + q)) by lia.
    rewrite pow10_add by lia.
    assert (2 ^ k * 10 ^ m <= (0 * (10 * 2 ^ k) + n0) * 10 ^ m + dval_z l) by nia.
    nia. }
  pose proof (zlen_nonneg out2) as HL2nn. fold L2 in HL2nn.
  pose proof (dval_bound (rev out2) (digs_ok_rev _ Ho2)) as BO2. rewrite zlen_rev in BO2.
  fold O2 L2 in BO2.
  assert (HYlb : 10 ^ (L2 + q) <= Y * 10) by nia.
  assert (HL2pos : 0 < L2).
  { destruct (Z.eq_dec L2 0) as [E0|]; [|lia]. exfalso.
    assert (q = 0) by (destruct (Z_lt_le_dec 0 q) as [G|]; [specialize (Hqcap G); unfold dec_cap in *; lia|lia]).
    subst q. rewrite E0 in BO2, HYlb. change (10 ^ (0 + 0)) with 1 in *. change (10 ^ 0) with 1 in *.
    unfold Y in HYlb. lia. }
  assert (HYlb' : 10 ^ (L2 + q - 1) <= Y).
  { replace (L2 + q) with ((L2 + q - 1) + 1) in HYlb by lia. rewrite pow10_succ in HYlb by lia. lia. }
  assert (HO2lb : 10 ^ (L2 - 1) <= O2).
  { replace (L2 + q - 1) with ((L2 - 1) + q) in HYlb' by lia. rewrite pow10_add in HYlb' by lia.
    unfold Y in HYlb'. assert (Hq' : 10 ^ (L2 - 1) * 10 ^ q < (O2 + 1) * 10 ^ q).
    { rewrite Z.mul_add_distr_r, Z.mul_1_l. clear - HYlb' HDr. lia. }
    apply Z.mul_lt_mono_pos_r in Hq'; [|exact Pq]. clear - Hq'. lia. }
  assert (HYub : Y < 10 ^ (L2 + q)).
  { rewrite pow10_add by lia. unfold Y. clear - BO2 HDr Pq. nia. }
  assert (Hlead2 : exists d t, rev out2 = d :: t /\ d <> 0).
  { destruct (rev out2) as [|d t] eqn:Er2.
    - exfalso. apply (f_equal (@len Z)) in Er2. rewrite zlen_rev in Er2.
      change (len (@nil Z)) with 0 in Er2. fold L2 in Er2. lia.
    - exists d, t. split; [reflexivity|].
      apply (dval_lead_nz d t).
      + rewrite <- Er2. apply digs_ok_rev. exact Ho2.
      + fold O2 in HO2lb. apply (f_equal (@len Z)) in Er2. rewrite zlen_rev, zlen_cons in Er2.
        fold L2 in Er2. replace (len t) with (L2 - 1) by lia. exact HO2lb. }
  destruct Hlead2 as (d & t & Er2 & Hd).
  destruct (Tlead d t Er2 Hd) as (t' & Ea').
  assert (Hne' : d_d a' <> []) by (rewrite Ea'; discriminate).
  assert (Enda : len (d_d a) = len pre + m) by (rewrite <- Eds, zlen_app; reflexivity).
  assert (Ec : q + (dexp a + 1 - s) = d_dp a - (r - 1) - L2).
  { unfold dexp, s. lia. }
  unfold shift_tpost.
  split. { split; [apply Tdig; exact Ho2|]. split; [fold L2 in Tlen; lia|]. rewrite Ea'. exact Hd. }
  split; [exact Ttrim|]. split; [exact Hne'|]. split; [exact Tneg|].
  exists Y, s, 1, O2, q, Dr.
  split; [unfold s; lia|]. split; [lia|]. split; [exact Hq|]. split; [exact HDr|].
  split.
  { rewrite Z.opp_involutive. rewrite (P2_nonneg k), (P2_nonpos (- k)) by lia.
    change (10 ^ 1) with 10. fold N. rewrite Z.mul_1_r. rewrite <- HX. ring. }
  split; [reflexivity|]. split; [rewrite Ttr; exact Etr|].
  split.
  { intros M HM. rewrite Ec in *. fold L2 in Tval. apply Tval. exact HM. }
  split.
  { intros Hz. rewrite Ec. rewrite (Tdp Hne'). specialize (Hqcap Hz). lia. }
  rewrite (Tdp Hne').
  replace (d_dp a - (r - 1) - (dexp a + 1 - s)) with (L2 + q) by lia.
  split; [lia|]. split; assumption.
Qed.

(** * leftShift *)

Lemma orb_pos_scaled' a b P t : 0 <= a -> 0 <= b -> 0 < P ->
  ((t || (0 <? b)) || negb (a =? 0)) = (t || (0 <? b + a * P)).
Proof.
  intros Ha Hb HP. destruct t; cbn [orb]; [reflexivity|].
  destruct (Z.ltb_spec 0 b), (Z.eqb_spec a 0), (Z.ltb_spec 0 (b + a * P)); cbn [orb negb]; try reflexivity; nia.
Qed.

(** one digit put down or dropped; [Lo] is the value of the digits dropped so far *)
Lemma emit_spec_t W0 K j m w out trunc t0 Lo q w' out' tr' :
  ls_struct W0 j w out -> 0 < K -> 10 * K < two64 -> 0 <= m < 10 * K ->
  0 <= Lo < 10 ^ (j - len out) -> trunc = (t0 || (0 <? Lo)) ->
  emit m w out trunc = (q, w', out', tr') ->
  0 <= q < K /\ (m < 10 -> q = 0) /\ ls_struct W0 (j + 1) w' out' /\
  exists Lo', 0 <= Lo' < 10 ^ (j + 1 - len out') /\ tr' = (t0 || (0 <? Lo')) /\
              ls_val (j + 1) q out' + Lo' = ls_val j m out + Lo.
Proof.
  intros St HK K64 Hm HLo Etr H. pose proof (ls_struct_len _ _ _ _ St) as Hlen.
  destruct St as (Hj & Hw & Ho & Hcap & Hl).
  unfold emit in H.
  pose proof (Z.div_mod m 10 ltac:(lia)) as E. pose proof (Z.mod_pos_bound m 10 ltac:(lia)) as B.
  assert (Er : m - 10 * (m / 10) = m mod 10) by lia. rewrite Er in H.
  rewrite u64_small in H by lia.
  assert (Hq : 0 <= m / 10 < K).
  { split; [apply Z.div_pos; lia|apply Z.div_lt_upper_bound; lia]. }
  assert (Hq0 : m < 10 -> m / 10 = 0) by (intros; apply Z.div_small; lia).
  assert (Em : m * 10 ^ j = (10 * (m / 10) + m mod 10) * 10 ^ j) by (rewrite <- E; reflexivity).
  unfold ls_val.
  destruct (Z.ltb_spec (w - 1) dec_cap) as [Hlt|Hge].
  - injection H as <- <- <- <-. split; [exact Hq|]. split; [exact Hq0|].
    split.
    + unfold ls_struct. rewrite zlen_cons. split; [lia|]. split; [lia|].
      split; [apply digs_ok_cons; [lia|assumption]|]. split; [intros; lia|]. lia.
    + exists Lo. rewrite zlen_cons. replace (j + 1 - (len out + 1)) with (j - len out) by lia.
      split; [exact HLo|]. split; [exact Etr|].
      rewrite dval_cons. rewrite pow10_succ by lia.
      assert (E10 : 10 ^ len out * 10 ^ (j - len out) = 10 ^ j).
      { rewrite <- pow10_add by lia. f_equal. lia. }
      replace ((m mod 10 * 10 ^ len out + dval_z out) * 10 ^ (j - len out))
        with (m mod 10 * (10 ^ len out * 10 ^ (j - len out)) + dval_z out * 10 ^ (j - len out)) by ring.
      rewrite E10. rewrite Em. ring.
  - injection H as <- <- <- <-. split; [exact Hq|]. split; [exact Hq0|].
    assert (Eo : out = []) by (apply Hcap; lia). subst out.
    change (len (@nil Z)) with 0 in *. rewrite Z.sub_0_r in *.
    pose proof (pow10_pos j Hj) as Pj.
    split.
    + unfold ls_struct. split; [lia|]. split; [lia|]. split; [assumption|].
      split; [reflexivity|]. change (len (@nil Z)) with 0 in *. lia.
    + exists (Lo + m mod 10 * 10 ^ j). rewrite pow10_succ by lia.
      split; [nia|]. split.
      * rewrite Etr. apply orb_pos_scaled'; lia.
      * change (dval_z []) with 0. rewrite Em. ring.
Qed.

Lemma ls_main_spec_t k W0 t0 : 1 <= k <= 60 -> forall rd j n w out trunc Lo n' w' out' tr',
  digs_ok rd -> ls_struct W0 j w out -> 0 <= n < 2 ^ k ->
  0 <= Lo < 10 ^ (j - len out) -> trunc = (t0 || (0 <? Lo)) ->
  ls_main rd k n w out trunc = (n', w', out', tr') ->
  ls_struct W0 (j + len rd) w' out' /\ 0 <= n' < 2 ^ k /\
  exists Lo', 0 <= Lo' < 10 ^ (j + len rd - len out') /\ tr' = (t0 || (0 <? Lo')) /\
    ls_val (j + len rd) n' out' + Lo' = ls_val j n out + Lo + dval_z (rev rd) * 2 ^ k * 10 ^ j.
Proof.
  intros Hk. destruct (K_bounds k Hk) as [K2 K64].
  induction rd as [|c rd IH]; intros j n w out trunc Lo n' w' out' tr' Hrd St Hn HLo Etr H.
  - cbn [ls_main] in H. injection H as <- <- <- <-. change (len (@nil Z)) with 0.
    rewrite Z.add_0_r. change (dval_z (rev [])) with 0.
    split; [exact St|]. split; [exact Hn|]. exists Lo. split; [exact HLo|]. split; [exact Etr|]. ring.
  - apply digs_ok_inv in Hrd as [Hc Hrd].
    rewrite (ls_main_step k c rd n w out trunc Hk Hn Hc) in H.
    destruct (emit (n + c * 2 ^ k) w out trunc) as [[[q w1] o1] t1] eqn:He.
    apply (emit_spec_t W0 (2 ^ k) j _ _ _ _ t0 Lo) in He; [|assumption|lia|lia|nia|assumption|assumption].
    destruct He as (Hq & _ & St1 & Lo1 & HLo1 & Et1 & Hv1).
    apply (IH (j + 1) _ _ _ _ Lo1) in H; [|assumption|assumption|assumption|assumption|assumption].
    destruct H as (St' & Hn' & Lo' & HLo' & Et' & Hv').
    rewrite zlen_cons. replace (j + (len rd + 1)) with (j + 1 + len rd) by lia.
    split; [exact St'|]. split; [exact Hn'|]. exists Lo'. split; [exact HLo'|]. split; [exact Et'|].
    rewrite Hv', Hv1. rewrite dval_rev_cons.
    destruct St as (Hj & _). rewrite pow10_succ by lia.
    unfold ls_val. ring.
Qed.

Lemma ls_extra_spec_t K W0 t0 : 0 < K -> 10 * K < two64 -> forall fuel j n w out trunc Lo w' out' tr',
  ls_struct W0 j w out -> 0 <= n < K ->
  0 <= Lo < 10 ^ (j - len out) -> trunc = (t0 || (0 <? Lo)) ->
  ls_extra fuel n w out trunc = Some (w', out', tr') ->
  exists j' Lo', j <= j' /\ ls_struct W0 j' w' out' /\
    0 <= Lo' < 10 ^ (j' - len out') /\ tr' = (t0 || (0 <? Lo')) /\
    ls_val j' 0 out' + Lo' = ls_val j n out + Lo /\
    (0 < n -> 10 ^ (j' - 1) <= ls_val j n out + Lo) /\ (n = 0 -> j' = j).
Proof.
  intros HK K64. induction fuel as [|f IH]; intros j n w out trunc Lo w' out' tr' St Hn HLo Etr H.
  - cbn [ls_extra] in H. destruct (Z.ltb_spec 0 n) as [Hp|Hp]; cbn [negb] in H; [discriminate|].
    injection H as <- <- <-. exists j, Lo.
    assert (n = 0) by lia. subst n.
    split; [lia|]. split; [exact St|]. split; [exact HLo|]. split; [exact Etr|].
    split; [reflexivity|]. split; [intros; lia|reflexivity].
  - destruct (Z.ltb_spec 0 n) as [Hp|Hp].
    2:{ cbn [ls_extra] in H. destruct (Z.ltb_spec 0 n) as [Hp'|Hp']; [lia|]. cbn [negb] in H.
        injection H as <- <- <-. exists j, Lo.
        assert (n = 0) by lia. subst n.
        split; [lia|]. split; [exact St|]. split; [exact HLo|]. split; [exact Etr|].
        split; [reflexivity|]. split; [intros; lia|reflexivity]. }
    rewrite (ls_extra_step f n w out trunc Hp) in H.
    destruct (emit n w out trunc) as [[[q w1] o1] t1] eqn:He.
    apply (emit_spec_t W0 K j _ _ _ _ t0 Lo) in He; [|assumption|assumption|assumption|lia|assumption|assumption].
    destruct He as (Hq & Hq0 & St1 & Lo1 & HLo1 & Et1 & Hv1).
    apply (IH (j + 1) _ _ _ _ Lo1) in H; [|assumption|assumption|assumption|assumption].
    destruct H as (j' & Lo' & Hj' & St' & HLo' & Et' & Hv' & Hlb & Hz).
    exists j', Lo'. split; [lia|]. split; [exact St'|]. split; [exact HLo'|]. split; [exact Et'|].
    split; [rewrite Hv', Hv1; reflexivity|]. split; [|lia].
    intros _. destruct (Z.eq_dec q 0) as [Eq|Nq].
    + rewrite (Hz Eq). replace (j + 1 - 1) with j by lia.
      unfold ls_val. pose proof (ls_struct_len _ _ _ _ St) as Hlen.
      destruct St as (Hj & _ & Ho & _).
      pose proof (dval_bound out Ho). pose proof (pow10_pos j Hj).
      pose proof (pow10_pos (j - len out) ltac:(lia)). nia.
    + rewrite <- Hv1. apply Hlb. lia.
Qed.

Theorem leftShift_trunc T a k a' :
  tables_ok T -> dec_wf a -> d_d a <> [] -> 1 <= k <= 60 ->
  leftShift_m T a k = Some a' -> shift_tpost a a' k.
Proof.
  intros HT (Hdig & Hcap & Hlead) Hne Hk H.
  destruct (K_bounds k Hk) as [K2 K64].
  assert (Hnd : 1 <= len (d_d a)).
  { destruct (d_d a); [congruence|]. rewrite zlen_cons. pose proof (zlen_nonneg l). lia. }
  assert (HNlb : 10 ^ (len (d_d a) - 1) <= dval_z (d_d a)).
  { destruct (d_d a) as [|d t] eqn:Ed; [congruence|].
    rewrite zlen_cons. replace (len t + 1 - 1) with (len t) by lia.
    apply dval_lead_lb; assumption. }
  pose proof (cheat_count T k (d_d a) HT Hk Hdig Hnd HNlb) as CC.
  unfold leftShift_m in H.
  destruct (nth (Z.to_nat k) (t_leftcheats T) (0, 0, 0)) as [[delta0 cutoff] clen].
  set (delta := if prefixIsLessThan (d_d a) (digits_of (Z.to_nat clen) cutoff)
                then delta0 - 1 else delta0) in *.
  cbv zeta in CC. destruct CC as (Hdelta & HPlb & HPub).
  destruct (Z.ltb_spec delta 0) as [|_]; [lia|].
  unfold d_nd in H.
  set (nd := len (d_d a)) in *. set (W0 := nd + delta) in *.
  set (N := dval_z (d_d a)) in *.
  destruct (ls_main (rev (d_d a)) k 0 W0 [] (d_trunc a)) as [[[n1 w1] out1] tr1] eqn:Hm.
  destruct (ls_extra 64 n1 w1 out1 tr1) as [[[w2 out2] tr2]|] eqn:He; cbn [obind] in H; [|discriminate].
  destruct (Z.ltb_spec w2 0) as [|Hw2]; [discriminate|].
  injection H as <-.
  set (nd' := if dec_cap <=? W0 then dec_cap else W0) in *.
  set (ds := firstn (Z.to_nat nd') (firstn (Z.to_nat w2) (d_d a) ++ out2)) in *.
  pose proof (trim_rev_val (rev ds) (d_dp a + delta) (d_neg a) tr2) as TT. cbv zeta in TT.
  set (a' := trim_rev (rev ds) (d_dp a + delta) (d_neg a) tr2) in *.
  destruct TT as (Ttrim & Tneg & Ttr & Tdig & Tlen & Tval & Tnil & Tdp & Tlead).
  assert (St0 : ls_struct W0 0 W0 []).
  { unfold ls_struct. change (len (@nil Z)) with 0. repeat split; try lia. apply digs_ok_nil. }
  apply (ls_main_spec_t k W0 (d_trunc a) Hk (rev (d_d a)) 0 _ _ _ _ 0) in Hm;
    [|apply digs_ok_rev; assumption|assumption|lia|change (10 ^ (0 - len (@nil Z))) with 1; lia
     |rewrite orb_false_r; reflexivity].
  destruct Hm as (St1 & Hn1 & Lo1 & HLo1 & Et1 & Hv1).
  rewrite zlen_rev, rev_involutive in *. rewrite Z.add_0_l in *. fold nd N in St1, Hv1, HLo1.
  assert (Hv1' : ls_val nd n1 out1 + Lo1 = N * 2 ^ k).
  { rewrite Hv1. unfold ls_val. change (dval_z []) with 0. change (10 ^ 0) with 1. ring. }
  apply (ls_extra_spec_t (2 ^ k) W0 (d_trunc a) ltac:(lia) K64 64%nat nd _ _ _ _ Lo1) in He;
    [|assumption|assumption|assumption|assumption].
  destruct He as (j2 & Lo2 & Hj2 & St2 & HLo2 & Et2 & Hv2 & Hlb2 & Hz2).
  rewrite Hv1' in Hv2, Hlb2.
  pose proof (ls_struct_len _ _ _ _ St2) as Hlen2.
  destruct St2 as (_ & Ew2 & Ho2 & _ & Hl2).
  unfold ls_val in Hv2. rewrite Z.mul_0_l, Z.add_0_l in Hv2.
  set (L := len out2) in *. set (z := j2 - L) in *.
  pose proof (dval_bound out2 Ho2) as BO. fold L in BO.
  pose proof (pow10_pos z ltac:(unfold z; lia)) as Pz.
  pose proof (pow2_pos k ltac:(lia)) as PK.
  assert (Pnd1 : 0 < 10 ^ (nd - 1)) by (apply pow10_pos; lia).
  assert (Hlow : 10 ^ (j2 - 1) <= N * 2 ^ k).
  { destruct (Z.eq_dec n1 0) as [E0|N0].
    - rewrite (Hz2 E0). clear - HNlb PK Pnd1. nia.
    - apply Hlb2. lia. }
  assert (Hup : N * 2 ^ k < 10 ^ j2).
  { rewrite <- Hv2. replace j2 with (L + z) by (unfold z; lia).
    rewrite pow10_add by (unfold z; lia). clear - BO HLo2 Pz. nia. }
  assert (Ej2 : j2 = W0).
  { assert (j2 - 1 < W0) by (apply pow10_lt_inv; unfold W0 in *; lia).
    assert (W0 - 1 < j2) by (apply pow10_lt_inv; unfold W0 in *; lia). lia. }
  assert (Ew : w2 = 0) by lia.
  assert (Eds : ds = out2).
  { unfold ds. rewrite Ew. change (Z.to_nat 0) with 0%nat. cbn [firstn app].
    apply firstn_all_z. fold L. unfold nd'. destruct (Z.leb_spec dec_cap W0); lia. }
  rewrite Eds in *. fold L in Tlen, Tval.
  assert (HLpos : 1 <= L).
  { unfold dec_cap in *. lia. }
  assert (HOlb : 10 ^ (L - 1) <= dval_z out2).
  { assert (10 ^ (L - 1) * 10 ^ z <= N * 2 ^ k).
    { rewrite <- pow10_add by (unfold z; lia). replace (L - 1 + z) with (j2 - 1) by (unfold z; lia). exact Hlow. }
    assert (Hq : 10 ^ (L - 1) * 10 ^ z < (dval_z out2 + 1) * 10 ^ z).
    { rewrite Z.mul_add_distr_r, Z.mul_1_l. clear - H Hv2 HLo2. lia. }
    apply Z.mul_lt_mono_pos_r in Hq; [|exact Pz]. clear - Hq. lia. }
  destruct out2 as [|d t] eqn:Eo2.
  { exfalso. change (dval_z []) with 0 in HOlb. pose proof (pow10_pos (L - 1) ltac:(lia)). lia. }
  assert (Hd : d <> 0).
  { apply (dval_lead_nz d t Ho2). unfold L in HOlb. rewrite zlen_cons in HOlb.
    replace (len t + 1 - 1) with (len t) in HOlb by lia. exact HOlb. }
  destruct (Tlead d t eq_refl Hd) as (t' & Ea').
  assert (Hne' : d_d a' <> []) by (rewrite Ea'; discriminate).
  assert (Ec : z + (dexp a + 0 - 0) = d_dp a + delta - L).
  { unfold dexp, z. fold nd. unfold W0 in Ej2. lia. }
  unfold shift_tpost.
  split. { split; [apply Tdig; apply digs_ok_rev; exact Ho2|]. split; [lia|]. rewrite Ea'. exact Hd. }
  split; [exact Ttrim|]. split; [exact Hne'|]. split; [exact Tneg|].
  exists (N * 2 ^ k), 0, 0, (dval_z (d :: t)), z, Lo2.
  split; [lia|]. split; [lia|]. split; [unfold z; lia|]. split; [exact HLo2|].
  split. { rewrite (P2_nonneg k), (P2_nonpos (- k)) by lia. unfold N. ring. }
  split; [symmetry; exact Hv2|]. split; [rewrite Ttr; exact Et2|].
  split. { intros M HM. rewrite Ec in *. apply Tval. exact HM. }
  split. { intros Hz. rewrite Ec. rewrite (Tdp Hne'). unfold z in Hz. unfold dec_cap in *. lia. }
  rewrite (Tdp Hne').
  replace (d_dp a + delta - (dexp a + 0 - 0)) with W0 by (unfold dexp, W0; fold nd; lia).
  split; [unfold W0; lia|]. fold W0 in HPlb, HPub. split; assumption.
Qed.

Print Assumptions rightShift_trunc.
Print Assumptions leftShift_trunc.
