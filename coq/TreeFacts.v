(** Property C03 on the model: ValueReader.ReadValue / ReadObject / ReadArray over the specification
    machines return exactly the tree a machine-independent reference parser [parse_ref] (recursive
    descent over the token functions of Ref.v) assigns to the document, with the offset just after the
    value; and an error (never an abnormal outcome, never another tree) when the reference assigns
    none.  The float layer is a parameter: [num] maps a number token to its float64 bit pattern
    ([None]: out of range) and the reader's [readFloat64] is only assumed to agree with it
    ([float_ok]). *)
From Coq Require Import List ZArith Bool Lia.
From Coq Require Import Strings.Byte.
From Rjson Require Import Base BaseFacts Helpers Machine MachineFacts Safety Api ValueReader
  SpecMachines Ref SpecFacts SpecFacts2 SpecFacts3 ExclusiveFacts OffsetFacts.
Import ListNotations.
Local Open Scope Z_scope.

(** * 1. The reference tree parser *)

(** the key part of an object member (nothing for array items): the raw bytes between the quotes of
    the key and the length up to the first byte of the value (key, white space, colon, white space) *)
Definition key_part (obj : bool) (l : list byte) : option (list byte * nat) :=
  if obj then
    match string_tok l with
    | None => None
    | Some n =>
      let r := skipn n l in
      let w := ws r in
      match skipn w r with
      | c :: r1 => if isb 58 c then Some (firstn (n - 2) (skipn 1 l), (n + w + 1 + ws r1)%nat) else None
      | [] => None
      end
    end
  else Some ([], 0%nat).

(** Go map assignment in document order, keys decoded: the last duplicate wins *)
Fixpoint build_obj (ms : list (list byte * jv)) (acc : list (list byte * jv)) : option (list (list byte * jv)) :=
  match ms with
  | [] => Some acc
  | (raw, v) :: r =>
    match decode_content raw with
    | Some k => build_obj r (obj_set acc k v)
    | None => None
    end
  end.

Section Parse.
  (** the float64 bit pattern of a number token; [None]: out of range *)
  Variable num : list byte -> option Z.

  (** a scalar at the head of [l] (no leading white space): value and length *)
  Definition pscalar (l : list byte) : option (jv * nat) :=
    match l with
    | b :: _ =>
      if isb 34 b then option_map (fun cn => (JStr (fst cn), snd cn)) (decode_string_ref l)
      else if isb 45 b || is_digit b then
        match number_tok l with
        | Some n => option_map (fun bits => (JNum bits, n)) (num (firstn n l))
        | None => None
        end
      else if isb 116 b then option_map (fun n => (JBool true, n)) (lit_ref lit_true l)
      else if isb 102 b then option_map (fun n => (JBool false, n)) (lit_ref lit_false l)
      else if isb 110 b then option_map (fun n => (JNull, n)) (lit_ref lit_null l)
      else None
    | [] => None
    end.

  (** [member (, member)* close]: the members (raw key, value) in document order and the length up to
      and including the closing byte.  [l] starts at the first member. *)
  Fixpoint pmembers (value : list byte -> option (jv * nat)) (fuel : nat) (obj : bool) (l : list byte)
    : option (list (list byte * jv) * nat) :=
    match fuel with
    | O => None
    | S k =>
      match key_part obj l with
      | None => None
      | Some (raw, kl) =>
        let lv := skipn kl l in
        match value lv with
        | None => None
        | Some (v, n) =>
          let r := skipn n lv in
          let w := ws r in
          match skipn w r with
          | c :: r1 =>
            if isb 44 c then
              let w1 := ws r1 in
              match pmembers value k obj (skipn w1 r1) with
              | Some (ms, e) => Some ((raw, v) :: ms, (kl + n + w + 1 + w1 + e)%nat)
              | None => None
              end
            else if isb (if obj then 125 else 93) c then Some ([(raw, v)], (kl + n + w + 1)%nat)
            else None
          | [] => None
          end
        end
      end
    end.

  (** what follows an opening bracket *)
  Definition pcontainer (value : list byte -> option (jv * nat)) (fuel : nat) (obj : bool) (r : list byte)
    : option (list (list byte * jv) * nat) :=
    let w := ws r in
    match skipn w r with
    | c :: _ =>
      if isb (if obj then 125 else 93) c then Some ([], (w + 1)%nat)
      else option_map (fun me => (fst me, (w + snd me)%nat)) (pmembers value fuel obj (skipn w r))
    | [] => None
    end.

  (** the value at the head of [l] (no leading white space); [md], [d], [fuel] as in [value_len] *)
  Fixpoint pvalue (md : Z) (fuel : nat) (d : Z) (l : list byte) : option (jv * nat) :=
    match fuel with
    | O => None
    | S f =>
      match l with
      | [] => None
      | b :: r =>
        if isb 91 b then
          if Z.leb md d then None
          else match pcontainer (pvalue md f (d + 1)) f false r with
               | Some (ms, n) => Some (JArr (map snd ms), S n)
               | None => None
               end
        else if isb 123 b then
          if Z.leb md d then None
          else match pcontainer (pvalue md f (d + 1)) f true r with
               | Some (ms, n) => option_map (fun m => (JObj m, S n)) (build_obj ms [])
               | None => None
               end
        else pscalar l
      end
    end.

  (** white space, one value: the tree and the offset just after the value *)
  Definition parse_ref (data : list byte) : option (jv * Z) :=
    let w := ws data in
    option_map (fun tn => (fst tn, Z.of_nat (w + snd tn)))
               (pvalue max_depth_ref (length data + 2) 0 (skipn w data)).

  (** the typed entry points: an object / an array (null and every other type rejected) *)
  Definition parse_typed_ref (obj : bool) (data : list byte) : option (jv * Z) :=
    match skipn (ws data) data with
    | b :: _ => if isb (if obj then 123 else 91) b then parse_ref data else None
    | [] => None
    end.
End Parse.

(** what is assumed of the float reader: on an input that starts (after white space) with a number
    token it returns the bits [num] assigns to the token and the offset after the token, or an error
    when [num] assigns none; on every other input an error *)
Definition float_ok (readFloat64 : list byte -> Z * Z * option errk) (num : list byte -> option Z) : Prop :=
  forall data,
    let w := ws data in
    let l := skipn w data in
    match number_tok l with
    | Some n =>
      match num (firstn n l) with
      | Some bits => readFloat64 data = (bits, Z.of_nat (w + n), None)
      | None => exists b p e, readFloat64 data = (b, p, Some e)
      end
    | None => exists b p e, readFloat64 data = (b, p, Some e)
    end.

(** * 2. Examples: the reference against the model, by computation *)

(** a toy float layer for the examples: the token's bytes as a base-256 number, "out of range" when
    the token is longer than 6 bytes *)
Definition toy_num (t : list byte) : option Z :=
  if (length t <=? 6)%nat then Some (fold_left (fun a c => a * 256 + bz c) t 0) else None.
Definition toy_readFloat64 (data : list byte) : Z * Z * option errk :=
  let w := ws data in
  let l := skipn w data in
  match number_tok l with
  | Some n =>
    match toy_num (firstn n l) with
    | Some bits => (bits, Z.of_nat (w + n), None)
    | None => (0, Z.of_nat (w + n), Some EOther)
    end
  | None => (0, Z.of_nat w, Some EInvalidNumber)
  end.
Lemma toy_float_ok : float_ok toy_readFloat64 toy_num.
Proof.
  intros data. cbv zeta. unfold toy_readFloat64.
  destruct (number_tok _) as [n|]; [|eauto]. destruct (toy_num _); eauto.
Qed.

Definition RV := ReadValue 10000 10000 harr_spec hobj_spec null_spec bool_spec append_spec unescape_spec.
Definition RO := ReadObject 10000 10000 harr_spec hobj_spec null_spec bool_spec append_spec unescape_spec.
Definition RA := ReadArray 10000 10000 harr_spec hobj_spec null_spec bool_spec append_spec unescape_spec.

Definition jv_eqb_list (eqb : jv -> jv -> bool) : list jv -> list jv -> bool :=
  fix go a b := match a, b with [] , [] => true | x :: a', y :: b' => eqb x y && go a' b' | _, _ => false end.
Fixpoint jv_eqb (a b : jv) : bool :=
  match a, b with
  | JNull, JNull => true
  | JBool x, JBool y => Bool.eqb x y
  | JNum x, JNum y => x =? y
  | JStr x, JStr y => bytes_eqb x y
  | JArr x, JArr y => jv_eqb_list jv_eqb x y
  | JObj x, JObj y =>
    (fix go a b := match a, b with
                   | [], [] => true
                   | (k, v) :: a', (k', v') :: b' => bytes_eqb k k' && jv_eqb v v' && go a' b'
                   | _, _ => false
                   end) x y
  | _, _ => false
  end.

Definition same (data : list byte) : bool :=
  match parse_ref toy_num data, RV toy_readFloat64 data with
  | Some (t, p), Some (t', p', None) => (p =? p') && jv_eqb t t'
  | None, Some (_, _, Some _) => true
  | _, _ => false
  end.

Definition s2b (s : list Z) : list byte := map zb s.
(* {"a":1,"a":[true,null],"b\n":"xA"} x *)
Definition doc1 := s2b [123;34;97;34;58;49;44;34;97;34;58;91;116;114;117;101;44;110;117;108;108;93;44;34;98;92;110;34;58;34;120;92;117;48;48;52;49;34;125;32;120].
(* [ [], {}, [{}], -1.5e3 , "" ] *)
Definition doc2 := s2b [32;91;32;91;93;44;32;123;125;44;32;91;123;125;93;44;32;45;49;46;53;101;51;32;44;32;34;34;32;93].
(* {"k":{"k":{"k":[1,2,3]}}} *)
Definition doc3 := s2b [123;34;107;34;58;123;34;107;34;58;123;34;107;34;58;91;49;44;50;44;51;93;125;125;125].
(* [1,2,] malformed *)
Definition doc4 := s2b [91;49;44;50;44;93].
(* [1,12345678] number "out of range" for the toy layer *)
Definition doc5 := s2b [91;49;44;49;50;51;52;53;54;55;56;93].
(* {"aé":1,"aé":2} escaped duplicate keys *)
Definition doc6 := s2b [123;34;97;92;117;48;48;101;57;34;58;49;44;34;97;92;117;48;48;69;57;34;58;50;125].
(* true / null / "s" / 12 / -  *)
Definition doc7 := s2b [116;114;117;101]. Definition doc8 := s2b [32;110;117;108;108;44].
Definition doc9 := s2b [34;115;34]. Definition doc10 := s2b [49;50]. Definition doc11 := s2b [45].
(* {"a":tru} / [1 2] / {"a" 1} / {1:2} / empty / ] *)
Definition doc12 := s2b [123;34;97;34;58;116;114;117;125]. Definition doc13 := s2b [91;49;32;50;93].
Definition doc14 := s2b [123;34;97;34;32;49;125]. Definition doc15 := s2b [123;49;58;50;125].
Definition doc16 : list byte := []. Definition doc17 := s2b [93].
(* {"a":{"b":[{"c":"😀"}]},"a":0} *)
Definition doc18 := s2b [123;34;97;34;58;123;34;98;34;58;91;123;34;99;34;58;34;92;117;100;56;51;100;92;117;100;101;48;48;34;125;93;125;44;34;97;34;58;48;125].

Example parse_ref_ex1 :
  parse_ref toy_num doc1 =
  Some (JObj [([x61], JArr [JBool true; JNull]); ([x62; x0a], JStr [x78; x41])], 39).
Proof. vm_compute. reflexivity. Qed.
Example parse_ref_ex2 :
  parse_ref toy_num doc2 = Some (JArr [JArr []; JObj []; JArr [JObj []]; JNum 49689251898675; JStr []], 30).
Proof. vm_compute. reflexivity. Qed.
Example parse_ref_ex6 : parse_ref toy_num doc6 = Some (JObj [([x61; xc3; xa9], JNum 50)], 25).
Proof. vm_compute. reflexivity. Qed.

(** the model agrees with the reference on all of them (trees and offsets; errors where the reference
    assigns no tree) *)
Example agree_ex :
  forallb same [doc1; doc2; doc3; doc4; doc5; doc6; doc7; doc8; doc9; doc10; doc11; doc12; doc13; doc14;
                doc15; doc16; doc17; doc18] = true.
Proof. vm_compute. reflexivity. Qed.
Example agree_ex_which :
  map (fun d => match parse_ref toy_num d with Some _ => true | None => false end)
      [doc1; doc2; doc3; doc4; doc5; doc6; doc7; doc8; doc9; doc10; doc11; doc12; doc13; doc14; doc15; doc16; doc17; doc18]
  = [true; true; true; false; false; true; true; true; true; true; false; false; false; false; false; false; false; true].
Proof. vm_compute. reflexivity. Qed.
(** the typed entry points *)
Example typed_ex :
  parse_typed_ref toy_num true doc3 = parse_ref toy_num doc3 /\ RO toy_readFloat64 doc3 = RV toy_readFloat64 doc3 /\
  parse_typed_ref toy_num false doc3 = None /\ (exists v p e, RA toy_readFloat64 doc3 = Some (v, p, Some e)) /\
  parse_typed_ref toy_num true doc8 = None /\ RO toy_readFloat64 doc8 = Some (JNull, 5, Some EInvalidObject) /\
  parse_typed_ref toy_num false doc2 = parse_ref toy_num doc2 /\ RA toy_readFloat64 doc2 = RV toy_readFloat64 doc2.
Proof. vm_compute. repeat split; try reflexivity. do 3 eexists. reflexivity. Qed.

(** * 3. The reference parser and the length functions of Ref.v *)

Lemma key_part_eq : forall obj l, key_part obj l = keypart obj l.
Proof. reflexivity. Qed.

Lemma skipn_le : forall {A} n (l : list A), (length (skipn n l) <= length l)%nat.
Proof. intros. rewrite skipn_length. lia. Qed.

Section RefFacts.
  Variable num : list byte -> option Z.

  Lemma pscalar_len : forall l v n, pscalar num l = Some (v, n) -> scalar_tok l = Some n.
  Proof.
    intros [|b r] v n H; [discriminate|]. unfold pscalar in H. unfold scalar_tok.
    destruct (isb 34 b).
    { unfold decode_string_ref in H. destruct (string_tok (b :: r)) as [k|]; [|discriminate].
      destruct (decode_content _); [|discriminate]. cbn in H. inversion H. reflexivity. }
    destruct (isb 45 b || is_digit b).
    { destruct (number_tok (b :: r)) as [k|]; [|discriminate]. destruct (num _); [|discriminate].
      cbn in H. inversion H. reflexivity. }
    destruct (isb 116 b); [destruct (lit_ref lit_true (b :: r)); [cbn in H; inversion H; reflexivity|discriminate]|].
    destruct (isb 102 b); [destruct (lit_ref lit_false (b :: r)); [cbn in H; inversion H; reflexivity|discriminate]|].
    destruct (isb 110 b); [destruct (lit_ref lit_null (b :: r)); [cbn in H; inversion H; reflexivity|discriminate]|].
    discriminate.
  Qed.

  (** erasing the trees from the members gives the items of Ref.v *)
  Lemma pmembers_items : forall (value : list byte -> option (jv * nat)) (val : list byte -> option nat) k (obj : bool) l ms e,
    (forall lv v n, (length lv <= length l)%nat -> value lv = Some (v, n) -> val lv = Some n) ->
    pmembers value k obj l = Some (ms, e) ->
    items k (if obj then member val else val) (if obj then 125 else 93) l = Some e.
  Proof.
    intros value val. induction k as [|k IH]; intros obj l ms e X H; [discriminate|].
    cbn [pmembers] in H. cbn [items]. rewrite item_key. rewrite key_part_eq in H.
    destruct (keypart obj l) as [[raw kl]|]; [|discriminate].
    destruct (value (skipn kl l)) as [[v n]|] eqn:V; [|discriminate].
    rewrite (X _ v n (skipn_le _ _) V). cbn [option_map]. cbv zeta in H.
    assert (E : skipn n (skipn kl l) = skipn (kl + n) l) by (rewrite skipn_skipn; f_equal; lia).
    rewrite E in H. set (r := skipn (kl + n) l) in *. set (w := ws r) in *.
    destruct (skipn w r) as [|c r1] eqn:K; [discriminate|].
    assert (L1 : (length r1 <= length l)%nat).
    { assert (A : length (skipn w r) = S (length r1)) by (rewrite K; reflexivity).
      pose proof (skipn_le w r). pose proof (skipn_le (kl + n) l). fold r in H1. lia. }
    destruct (isb 44 c).
    - destruct (pmembers value k obj (skipn (ws r1) r1)) as [[ms2 e2]|] eqn:P; [|discriminate].
      injection H as H1 H2. rewrite <- H2. rewrite (IH obj _ ms2 e2); [reflexivity| |exact P].
      intros lv v0 n0 LL V0. apply (X lv v0 n0); [|exact V0]. pose proof (skipn_le (ws r1) r1). lia.
    - destruct (isb (if obj then 125 else 93) c); [|discriminate]. injection H as H1 H2. rewrite <- H2. f_equal. lia.
  Qed.

  Lemma pcontainer_len : forall (value : list byte -> option (jv * nat)) (val : list byte -> option nat) k (obj : bool) r ms n,
    (forall lv v n, (length lv <= length r)%nat -> value lv = Some (v, n) -> val lv = Some n) ->
    pcontainer value k obj r = Some (ms, n) ->
    container k (if obj then member val else val) (if obj then 125 else 93) r = Some n.
  Proof.
    intros value val k obj r ms n X H. unfold pcontainer in H. unfold container.
    destruct (skipn (ws r) r) as [|c r1] eqn:K; [discriminate|].
    destruct (isb (if obj then 125 else 93) c); [inversion H; reflexivity|].
    destruct (pmembers value k obj (c :: r1)) as [[ms2 e2]|] eqn:P; [|discriminate]. cbn in H. injection H as H1 H2. rewrite <- H2.
    rewrite (pmembers_items value val k obj (c :: r1) ms2 e2); [reflexivity| |exact P].
    intros lv v0 n0 LL V0. apply (X lv v0 n0); [|exact V0]. rewrite <- K in LL. pose proof (skipn_le (ws r) r). lia.
  Qed.

  (** the length the reference parser reports is the length [value_len] reports *)
  Lemma pvalue_len : forall md f d l v n, pvalue num md f d l = Some (v, n) -> value_len md f d l = Some n.
  Proof.
    intros md. induction f as [|f IH]; intros d l v n H; [discriminate|].
    destruct l as [|b r]; [discriminate|]. cbn [pvalue] in H. cbn [value_len].
    destruct (isb 91 b).
    { destruct (md <=? d); [discriminate|].
      destruct (pcontainer (pvalue num md f (d + 1)) f false r) as [[ms m]|] eqn:C; [|discriminate].
      inversion H; subst.
      rewrite (pcontainer_len _ (value_len md f (d + 1)) f false r ms m ltac:(intros; eapply IH; eauto) C). reflexivity. }
    destruct (isb 123 b).
    { destruct (md <=? d); [discriminate|].
      destruct (pcontainer (pvalue num md f (d + 1)) f true r) as [[ms m]|] eqn:C; [|discriminate].
      destruct (build_obj ms []); [|discriminate]. cbn in H. inversion H; subst.
      rewrite (pcontainer_len _ (value_len md f (d + 1)) f true r ms m ltac:(intros; eapply IH; eauto) C). reflexivity. }
    eapply pscalar_len; eauto.
  Qed.

  (** ** any sufficient fuel gives the same result *)
  Lemma pmembers_ext : forall (value value' : list byte -> option (jv * nat)) k (obj : bool) l k',
    (forall lv, (length lv <= length l)%nat -> value lv = value' lv) ->
    (length l < k)%nat -> (length l < k')%nat ->
    pmembers value k obj l = pmembers value' k' obj l.
  Proof.
    intros value value'. induction k as [|k IH]; intros obj l k' X LK LK'; [lia|].
    destruct k' as [|k']; [lia|]. cbn [pmembers].
    destruct (key_part obj l) as [[raw kl]|]; [|reflexivity].
    rewrite <- (X (skipn kl l) (skipn_le _ _)).
    destruct (value (skipn kl l)) as [[v n]|]; [|reflexivity]. cbv zeta.
    set (r := skipn n (skipn kl l)). set (w := ws r).
    destruct (skipn w r) as [|c r1] eqn:K; [reflexivity|].
    assert (L1 : (length r1 < length l)%nat).
    { assert (A : length (skipn w r) = S (length r1)) by (rewrite K; reflexivity).
      pose proof (skipn_le w r). pose proof (skipn_le n (skipn kl l)). pose proof (skipn_le kl l). fold r in H0. lia. }
    destruct (isb 44 c); [|reflexivity].
    pose proof (skipn_le (ws r1) r1) as L2.
    rewrite (IH obj (skipn (ws r1) r1) k'); [reflexivity| |lia|lia].
    intros lv LL. apply X. lia.
  Qed.

  Lemma pcontainer_ext : forall (value value' : list byte -> option (jv * nat)) k (obj : bool) r k',
    (forall lv, (length lv <= length r)%nat -> value lv = value' lv) ->
    (length r < k)%nat -> (length r < k')%nat ->
    pcontainer value k obj r = pcontainer value' k' obj r.
  Proof.
    intros value value' k obj r k' X LK LK'. unfold pcontainer.
    pose proof (skipn_le (ws r) r) as L1.
    destruct (skipn (ws r) r) as [|c r1] eqn:K; [reflexivity|].
    destruct (isb (if obj then 125 else 93) c); [reflexivity|].
    rewrite (pmembers_ext value value' k obj (c :: r1) k'); [reflexivity| |lia|lia].
    intros lv LL. apply X. lia.
  Qed.

  Lemma pvalue_fuel : forall md f d l f', (length l < f)%nat -> (length l < f')%nat ->
    pvalue num md f d l = pvalue num md f' d l.
  Proof.
    intros md. induction f as [|f IH]; intros d l f' LF LF'; [lia|].
    destruct f' as [|f']; [lia|]. destruct l as [|b r]; [reflexivity|]. cbn [pvalue]. cbn [length] in *.
    assert (C : forall obj, pcontainer (pvalue num md f (d + 1)) f obj r = pcontainer (pvalue num md f' (d + 1)) f' obj r).
    { intros obj. apply pcontainer_ext; [|lia|lia]. intros lv LL. apply IH; lia. }
    rewrite !C. reflexivity.
  Qed.
End RefFacts.

(** a value found at some depth is found at any smaller depth, with any sufficient fuel *)
Lemma value_len_lower : forall k md d l n, value_len md k d l = Some n ->
  forall k' d', (length l < k')%nat -> d' <= d -> value_len md k' d' l = Some n.
Proof.
  induction k as [|k IH]; intros md d l n E k' d' LK LD; [discriminate|].
  destruct k' as [|k']; [lia|]. cbn [value_len] in *. destruct l as [|b r]; [discriminate|].
  cbn [length] in LK.
  assert (SUB : forall l' n', (length l' <= length r)%nat -> value_len md k (d + 1) l' = Some n' ->
                value_len md k' (d' + 1) l' = Some n').
  { intros l' n' L' E'. eapply IH; [exact E'|lia|lia]. }
  destruct (isb 91 b).
  - destruct (md <=? d) eqn:M; [discriminate|].
    assert (NL : (md <=? d') = false) by (apply Z.leb_gt; apply Z.leb_gt in M; lia). rewrite NL.
    destruct (container k (value_len md k (d + 1)) 93 r) as [m|] eqn:C; [|discriminate].
    rewrite (container_ext _ _ 93 k r m C SUB k' ltac:(lia)). exact E.
  - destruct (isb 123 b); [|exact E].
    destruct (md <=? d) eqn:M; [discriminate|].
    assert (NL : (md <=? d') = false) by (apply Z.leb_gt; apply Z.leb_gt in M; lia). rewrite NL.
    destruct (container k (member (value_len md k (d + 1))) 125 r) as [m|] eqn:C; [|discriminate].
    rewrite (container_ext (member (value_len md k (d + 1))) (member (value_len md k' (d' + 1))) 125 k r m C
               ltac:(intros l' n' L' E'; eapply member_ext; [exact E'|]; intros l2 n2 L2 E2; apply SUB; [lia|exact E2])
               k' ltac:(lia)). exact E.
Qed.

(** a value does not start with white space *)
Lemma value_len_nows : forall md k d l n, value_len md k d l = Some n -> ws l = 0%nat.
Proof.
  intros md [|k] d [|b r] n H; try discriminate. cbn [value_len] in H.
  apply ws_cons_false. destruct (is_ws b) eqn:W; [|reflexivity]. exfalso.
  assert (A : isb 91 b = false /\ isb 123 b = false /\ scalar_tok (b :: r) = None).
  { unfold is_ws in W. unfold scalar_tok, isb, is_digit.
    repeat (apply orb_true_iff in W; destruct W as [W|W]); apply Z.eqb_eq in W; rewrite W; cbn; auto. }
  destruct A as (A1 & A2 & A3). rewrite A1, A2, A3 in H. discriminate.
Qed.

(** * 4. The reference parser and [members_ref] *)

Fixpoint mapM {A B} (f : A -> option B) (l : list A) : option (list B) :=
  match l with
  | [] => Some []
  | x :: r => match f x, mapM f r with Some y, Some ys => Some (y :: ys) | _, _ => None end
  end.

Lemma mapM_length : forall {A B} (f : A -> option B) l ys, mapM f l = Some ys -> length ys = length l.
Proof.
  intros A B f. induction l as [|x r IH]; intros ys H; cbn in H.
  - inversion H. reflexivity.
  - destruct (f x); [|discriminate]. destruct (mapM f r) as [ys'|]; [|discriminate]. inversion H. cbn. f_equal. auto.
Qed.

Lemma map_snd_combine : forall {A B} (a : list A) (b : list B), length a = length b -> map snd (combine a b) = b.
Proof. intros A B a. induction a as [|x a IH]; intros [|y b] L; cbn in *; try discriminate; auto. f_equal. apply IH. lia. Qed.

Lemma keypart_decodes : forall l raw kl, keypart true l = Some (raw, kl) -> exists out, decode_content raw = Some out.
Proof.
  intros l raw kl H. cbn [keypart] in H. destruct (string_tok l) as [n|] eqn:ST; [|discriminate].
  destruct (skipn _ _) as [|c r1]; [discriminate|]. destruct (isb 58 c); [|discriminate]. inversion H; subst.
  destruct (string_tok_decodes l n ST) as (out & D). unfold decode_string_ref in D. rewrite ST in D.
  destruct (decode_content _) as [o|]; [eauto|discriminate].
Qed.

(** the raw keys [members_ref] lists are well-formed string contents *)
Lemma members_from_keys : forall (refv : list byte -> option nat) k off l ms e,
  members_from refv k true off l = Some (ms, e) ->
  Forall (fun m => exists out, decode_content (snd m) = Some out) ms.
Proof.
  intros refv. induction k as [|k IH]; intros off l ms e H; [discriminate|].
  rewrite members_from_key in H. destruct (keypart true l) as [[raw kl]|] eqn:KP; [|discriminate].
  cbv zeta in H. destruct (refv (skipn kl l)) as [n|]; [|discriminate].
  destruct (skipn (ws (skipn n (skipn kl l))) (skipn n (skipn kl l))) as [|c r1]; [discriminate|].
  destruct (isb 44 c).
  - destruct (members_from refv k true _ _) as [[ms2 e2]|] eqn:M; [|discriminate]. inversion H; subst.
    constructor; [eapply keypart_decodes; eauto|]. eapply IH; eauto.
  - destruct (isb 125 c); [|discriminate]. inversion H; subst. constructor; [eapply keypart_decodes; eauto|constructor].
Qed.

(** the offsets listed lie after the start *)
Lemma members_from_pos : forall (refv : list byte -> option nat) k obj off l ms e,
  members_from refv k obj off l = Some (ms, e) -> Forall (fun m => Z.of_nat off <= fst m) ms.
Proof.
  intros refv. induction k as [|k IH]; intros obj off l ms e H; [discriminate|].
  rewrite members_from_key in H. destruct (keypart obj l) as [[raw kl]|]; [|discriminate].
  cbv zeta in H. destruct (refv (skipn kl l)) as [n|]; [|discriminate].
  destruct (skipn (ws (skipn n (skipn kl l))) (skipn n (skipn kl l))) as [|c r1]; [discriminate|].
  destruct (isb 44 c).
  - destruct (members_from refv k obj _ _) as [[ms2 e2]|] eqn:M; [|discriminate]. inversion H; subst.
    constructor; [cbn; lia|]. apply IH in M. eapply Forall_impl; [|exact M]. cbn. intros a Ha. lia.
  - destruct (isb _ c); [|discriminate]. inversion H; subst. constructor; [cbn; lia|constructor].
Qed.

Section RefMembers.
  Variable num : list byte -> option Z.
  Variable data : list byte.

  (** the members the reference parser collects are the members [members_from] lists, each parsed at
      its offset *)
  Lemma pmembers_members : forall (value : list byte -> option (jv * nat)) (refv : list byte -> option nat) k (obj : bool) off l,
    l = skipn off data ->
    (forall lv v n, (length lv <= length l)%nat -> value lv = Some (v, n) -> refv lv = Some n) ->
    match members_from refv k obj off l with
    | Some (ms, e) =>
      pmembers value k obj l =
      option_map (fun vs => (combine (map snd ms) vs, (Z.to_nat e - off)%nat))
                 (mapM (fun mm => option_map fst (value (skipn (Z.to_nat (fst mm)) data))) ms)
    | None => pmembers value k obj l = None
    end.
  Proof.
    intros value refv. induction k as [|k IH]; intros obj off l EL X; [reflexivity|].
    pose proof (items_members refv (S k) obj off l) as IM.
    rewrite members_from_key in *. cbn [pmembers]. change (key_part obj l) with (keypart obj l).
    destruct (keypart obj l) as [[raw kl]|]; [|reflexivity].
    set (lv := skipn kl l) in *.
    assert (HERE : skipn (Z.to_nat (Z.of_nat (off + kl))) data = lv).
    { rewrite Nat2Z.id. unfold lv. rewrite EL, skipn_skipn. f_equal. lia. }
    destruct (refv lv) as [n|] eqn:RV.
    2:{ destruct (value lv) as [[v n']|] eqn:V; [|reflexivity].
        rewrite (X lv v n' (skipn_le _ _) V) in RV. discriminate. }
    cbv zeta in *.
    destruct (value lv) as [[v n']|] eqn:V.
    2:{ (* the member does not parse *)
        destruct (skipn (ws (skipn n lv)) (skipn n lv)) as [|c r1]; [reflexivity|].
        destruct (isb 44 c).
        - destruct (members_from refv k obj _ _) as [[ms2 e2]|]; [|reflexivity].
          cbn [mapM fst]. rewrite HERE, V. reflexivity.
        - destruct (isb (if obj then 125 else 93) c); [|reflexivity]. cbn [mapM fst]. rewrite HERE, V. reflexivity. }
    assert (NN : n' = n) by (rewrite (X lv v n' (skipn_le _ _) V) in RV; inversion RV; reflexivity). subst n'.
    set (r := skipn n lv) in *. set (w := ws r) in *.
    destruct (skipn w r) as [|c r1] eqn:K; [reflexivity|].
    destruct (isb 44 c).
    - set (w1 := ws r1) in *. set (off' := (off + kl + n + w + 1 + w1)%nat) in *.
      assert (EL' : skipn w1 r1 = skipn off' data).
      { apply skipn_next in K. rewrite <- K. unfold r, lv. rewrite EL, !skipn_skipn. f_equal. lia. }
      assert (L1 : (length (skipn w1 r1) <= length l)%nat).
      { assert (A : length (skipn w r) = S (length r1)) by (rewrite K; reflexivity).
        pose proof (skipn_le w r). pose proof (skipn_le n lv). pose proof (skipn_le kl l). pose proof (skipn_le w1 r1).
        fold r in H0. fold lv in H1. lia. }
      specialize (IH obj off' (skipn w1 r1) EL' ltac:(intros lv0 v0 n0 LL V0; apply (X lv0 v0 n0); [lia|exact V0])).
      pose proof (items_members refv k obj off' (skipn w1 r1)) as IM'.
      destruct (members_from refv k obj off' (skipn w1 r1)) as [[ms2 e2]|].
      + destruct IM' as (m' & _ & ->). rewrite IH. cbn [mapM fst map snd]. rewrite HERE, V. cbn [option_map fst].
        destruct (mapM _ ms2) as [vs|]; [|reflexivity]. cbn [option_map combine]. do 2 f_equal. unfold off'. lia.
      + rewrite IH. reflexivity.
    - destruct (isb (if obj then 125 else 93) c); [|reflexivity].
      cbn [mapM fst map snd]. rewrite HERE, V. cbn [option_map fst combine]. do 2 f_equal. lia.
  Qed.

  (** an array / object document: the reference parser parses the members [members_ref] lists *)
  Lemma pvalue_members : forall (obj : bool) b r md f d,
    skipn (ws data) data = b :: r -> isb (if obj then 123 else 91) b = true ->
    (length data <= f)%nat -> (md <=? d) = false ->
    (forall lv v n, (length lv <= length r)%nat -> pvalue num md f (d + 1) lv = Some (v, n) ->
                    value_len (len data) (length data + 2) 0 lv = Some n) ->
    match members_ref obj data with
    | Some (ms, e) =>
      pvalue num md (S f) d (b :: r) =
      match mapM (fun mm => option_map fst (pvalue num md f (d + 1) (skipn (Z.to_nat (fst mm)) data))) ms with
      | Some vs => if obj then option_map (fun m => (JObj m, (Z.to_nat e - ws data)%nat)) (build_obj (combine (map snd ms) vs) [])
                   else Some (JArr vs, (Z.to_nat e - ws data)%nat)
      | None => None
      end
    | None => pvalue num md (S f) d (b :: r) = None
    end.
  Proof.
    intros obj b r md f d L OB LF MD X. unfold members_ref. rewrite L. set (w := ws data) in *.
    assert (NL : lit_ref lit_null (b :: r) = None).
    { unfold lit_ref. cbn [is_prefix lit_null]. apply Z.eqb_eq in OB. rewrite OB. destruct obj; reflexivity. }
    rewrite NL, OB.
    assert (LD : (S (length r) <= length data)%nat).
    { assert (A : length (skipn w data) = S (length r)) by (rewrite L; reflexivity). rewrite skipn_length in A. lia. }
    assert (HEAD : pvalue num md (S f) d (b :: r) =
                   match pcontainer (pvalue num md f (d + 1)) f obj r with
                   | Some (ms, n) => if obj then option_map (fun m => (JObj m, S n)) (build_obj ms []) else Some (JArr (map snd ms), S n)
                   | None => None
                   end).
    { cbn [pvalue]. rewrite MD. destruct obj.
      - assert (A : isb 91 b = false) by (apply Z.eqb_eq in OB; unfold isb; rewrite OB; reflexivity). rewrite A, OB. reflexivity.
      - rewrite OB. reflexivity. }
    rewrite HEAD. unfold pcontainer. set (w1 := ws r) in *.
    destruct (skipn w1 r) as [|c r1] eqn:K; [reflexivity|].
    destruct (isb (if obj then 125 else 93) c).
    { cbn [mapM map combine]. destruct obj; cbn [build_obj option_map]; do 2 f_equal; lia. }
    assert (LC : (length (c :: r1) <= length r)%nat) by (rewrite <- K; apply skipn_le).
    assert (EL : c :: r1 = skipn (w + 1 + w1) data).
    { rewrite <- K. apply skipn_next in L. rewrite <- L, skipn_skipn. f_equal. lia. }
    pose proof (pmembers_members (pvalue num md f (d + 1)) (value_len (len data) (length data + 2) 0)
                  (S (length data)) obj (w + 1 + w1) (c :: r1) EL
                  ltac:(intros lv v n LL V; apply (X lv v n); [lia|exact V])) as PM.
    pose proof (items_members (value_len (len data) (length data + 2) 0) (S (length data)) obj (w + 1 + w1) (c :: r1)) as IM.
    rewrite (pmembers_ext (pvalue num md f (d + 1)) (pvalue num md f (d + 1)) (S (length data)) obj (c :: r1) f
               ltac:(reflexivity) ltac:(lia) ltac:(lia)) in PM.
    change (Z.of_nat (length data)) with (len data).
    destruct (members_from _ (S (length data)) obj (w + 1 + w1) (c :: r1)) as [[ms e]|].
    - destruct IM as (m & _ & ->). rewrite PM.
      destruct (mapM _ ms) as [vs|] eqn:MM; [|reflexivity]. cbn [option_map fst snd].
      assert (AR : (S (w1 + (Z.to_nat (Z.of_nat (w + 1 + w1 + m)) - (w + 1 + w1))) = Z.to_nat (Z.of_nat (w + 1 + w1 + m)) - w)%nat) by lia.
      rewrite AR. destruct obj; [reflexivity|].
      rewrite map_snd_combine; [reflexivity|]. rewrite map_length. symmetry. eapply mapM_length; eauto.
    - rewrite PM. reflexivity.
  Qed.
End RefMembers.

(** * 5. The pieces of the reader *)

(** ** keys *)
Lemma decode_split_plain : forall raw out, decode_content raw = Some out ->
  let n := count_while (fun b => negb (bz b =? 92)) raw in
  exists out', decode_content (skipn n raw) = Some out' /\ out = firstn n raw ++ out'.
Proof.
  induction raw as [|b r IH]; intros out D; cbv zeta.
  - exists []. cbn in *. inversion D. auto.
  - cbn [count_while]. destruct (negb (bz b =? 92)) eqn:NB.
    + cbn [skipn firstn]. cbn [decode_content] in D. apply negb_true_iff in NB. unfold isb at 1 in D. rewrite NB in D.
      destruct (isb 34 b || r_is_ctl b); [discriminate|].
      destruct (decode_content r) as [o1|] eqn:D1; [|discriminate]. cbn in D. inversion D; subst out.
      destruct (IH o1 eq_refl) as (out' & D' & E). exists out'. split; [exact D'|]. cbn [app]. rewrite <- E. reflexivity.
    + exists out. split; [exact D|reflexivity].
Qed.

Lemma no_backslash_all : forall raw, has_backslash raw = false ->
  count_while (fun b => negb (bz b =? 92)) raw = length raw.
Proof.
  induction raw as [|b r IH]; intros H; [reflexivity|]. cbn in H. apply orb_false_iff in H. destruct H as [H1 H2].
  cbn [count_while]. rewrite H1. cbn [negb length]. f_equal. apply IH. exact H2.
Qed.

(** the key handling of HandleObjectValue returns the decoding of the raw key *)
Lemma key_of_correct : forall raw out, decode_content raw = Some out -> key_of 10000 unescape_spec raw = inl (Some out).
Proof.
  intros raw out D. unfold key_of. destruct (decode_split_plain raw out D) as (out' & D' & E). cbv zeta in *.
  destruct (has_backslash raw) eqn:HB.
  - unfold UnescapeStringContent, str_machine. rewrite prun_c_eq.
    pose proof (unescape_spec_correct 10000 _ out' no_handler [] (firstn (count_while (fun b => negb (bz b =? 92)) raw) raw) D') as U.
    destruct (obs_done _ _ _ U) as (s & -> & DS). rewrite DS, <- E. reflexivity.
  - rewrite (no_backslash_all raw HB) in *. rewrite skipn_all in D'. cbn in D'. inversion D'; subst out'.
    rewrite firstn_all, app_nil_r in E. subst out. reflexivity.
Qed.

(** ** the token table *)
Lemma tok_type_isb : forall b, tok_type b =
  if isb 110 b then NullType else if isb 34 b then StringType
  else if isb 116 b then TrueType else if isb 102 b then FalseType
  else if isb 123 b then ObjectStartType else if isb 125 b then ObjectEndType
  else if isb 91 b then ArrayStartType else if isb 93 b then ArrayEndType
  else if isb 45 b || is_digit b then NumberType
  else if isb 44 b then CommaType else if isb 58 b then ColonType
  else InvalidType.
Proof. reflexivity. Qed.

Lemma ws0 : forall b r, is_ws b = false -> ws (b :: r) = 0%nat.
Proof. intros. apply ws_cons_false. assumption. Qed.

Lemma digit_facts : forall b, isb 45 b || is_digit b = true ->
  is_ws b = false /\ isb 34 b = false /\ isb 110 b = false /\ isb 116 b = false /\ isb 102 b = false /\
  isb 91 b = false /\ isb 123 b = false.
Proof.
  intros b H. apply orb_true_iff in H. destruct H as [H|H].
  - apply Z.eqb_eq in H. unfold is_ws, isb. rewrite H. cbn. auto 10.
  - unfold is_digit in H. apply andb_true_iff in H. destruct H as [H1 H2]. apply Z.leb_le in H1, H2.
    unfold is_ws, isb. repeat split; try (apply Z.eqb_neq; lia).
    repeat (apply orb_false_iff; split); apply Z.eqb_neq; lia.
Qed.

Section Reader.
  Variable readFloat64 : list byte -> Z * Z * option errk.
  Variable num : list byte -> option Z.
  Hypothesis FO : float_ok readFloat64 num.

  Notation RSV := (readSimpleValue 10000 null_spec bool_spec append_spec readFloat64).
  Notation MEM := (ValueReader.member 10000 10000 null_spec bool_spec append_spec readFloat64).
  Notation rdo := (read_obj 10000 10000 harr_spec hobj_spec null_spec bool_spec append_spec unescape_spec readFloat64).
  Notation rda := (read_arr 10000 10000 harr_spec hobj_spec null_spec bool_spec append_spec unescape_spec readFloat64).

  (** the reader's result [r] is what the reference [ref] says: the value and offset, or an error *)
  Definition Agree (r : rres) (ref : option (jv * Z)) : Prop :=
    match ref with
    | Some (t, p) => r = Some (t, p, None)
    | None => exists v p e, r = Some (v, p, Some e)
    end.

  (** ** scalars: readSimpleValue on the first byte's token type *)
  Lemma simple_correct : forall b r0, isb 91 b = false -> isb 123 b = false ->
    Agree (RSV (b :: r0) (tok_type b))
          (option_map (fun tn => (fst tn, Z.of_nat (snd tn))) (pscalar num (b :: r0))).
  Proof.
    intros b r0 A1 A2. rewrite tok_type_isb, A1, A2. unfold readSimpleValue.
    destruct (isb 110 b) eqn:B110.
    { (* null *)
      pose proof B110 as B. apply Z.eqb_eq in B.
      assert (W : is_ws b = false) by (unfold is_ws; rewrite B; reflexivity).
      assert (PS : pscalar num (b :: r0) = option_map (fun n => (JNull, n)) (lit_ref lit_null (b :: r0))).
      { unfold pscalar, isb, is_digit. rewrite B. reflexivity. }
      rewrite PS. cbn [Z.eqb NullType].
      pose proof (ReadNull_exact 10000 (b :: r0)) as E. unfold read_lit_ref in E. rewrite (ws0 b r0 W) in E. cbn [skipn] in E.
      destruct (lit_ref lit_null (b :: r0)) as [n|]; cbn [option_map] in *.
      - rewrite E. reflexivity.
      - destruct E as (p & e & ->). cbn. eauto. }
    destruct (isb 34 b) eqn:B34.
    { (* string *)
      pose proof B34 as B. apply Z.eqb_eq in B.
      assert (W : is_ws b = false) by (unfold is_ws; rewrite B; reflexivity).
      assert (PS : pscalar num (b :: r0) = option_map (fun cn => (JStr (fst cn), snd cn)) (decode_string_ref (b :: r0))).
      { unfold pscalar. rewrite B34. reflexivity. }
      rewrite PS. cbn [Z.eqb NullType StringType].
      pose proof (ReadStringBytes_spec_correct 10000 (b :: r0) []) as E. unfold read_string_ref in E.
      rewrite (ws0 b r0 W) in E. cbn [skipn] in E.
      destruct (decode_string_ref (b :: r0)) as [[c n]|]; cbn [option_map fst snd app] in *.
      - rewrite E. reflexivity.
      - destruct E as (v & p & e & ->). cbn. eauto. }
    destruct (isb 116 b) eqn:B116.
    { (* true *)
      pose proof B116 as B. apply Z.eqb_eq in B.
      assert (W : is_ws b = false) by (unfold is_ws; rewrite B; reflexivity).
      assert (PS : pscalar num (b :: r0) = option_map (fun n => (JBool true, n)) (lit_ref lit_true (b :: r0))).
      { unfold pscalar, isb, is_digit. rewrite B. reflexivity. }
      rewrite PS. cbn [Z.eqb NullType StringType NumberType TrueType FalseType orb].
      pose proof (ReadBool_exact 10000 (b :: r0)) as E. unfold read_bool_ref, read_lit_ref in E.
      rewrite (ws0 b r0 W) in E. cbn [skipn] in E.
      assert (LF : lit_ref lit_false (b :: r0) = None).
      { unfold lit_ref. cbn [is_prefix lit_false]. rewrite B. reflexivity. }
      rewrite LF in E.
      destruct (lit_ref lit_true (b :: r0)) as [n|]; cbn [option_map] in *.
      - rewrite E. reflexivity.
      - destruct E as (p & e & ->). cbn. eauto. }
    destruct (isb 102 b) eqn:B102.
    { (* false *)
      pose proof B102 as B. apply Z.eqb_eq in B.
      assert (W : is_ws b = false) by (unfold is_ws; rewrite B; reflexivity).
      assert (PS : pscalar num (b :: r0) = option_map (fun n => (JBool false, n)) (lit_ref lit_false (b :: r0))).
      { unfold pscalar, isb, is_digit. rewrite B. reflexivity. }
      rewrite PS. cbn [Z.eqb NullType StringType NumberType TrueType FalseType orb].
      pose proof (ReadBool_exact 10000 (b :: r0)) as E. unfold read_bool_ref, read_lit_ref in E.
      rewrite (ws0 b r0 W) in E. cbn [skipn] in E.
      assert (LT : lit_ref lit_true (b :: r0) = None).
      { unfold lit_ref. cbn [is_prefix lit_true]. rewrite B. reflexivity. }
      rewrite LT in E.
      destruct (lit_ref lit_false (b :: r0)) as [n|]; cbn [option_map] in *.
      - rewrite E. reflexivity.
      - destruct E as (p & e & ->). cbn. eauto. }
    assert (OTHER : forall tp, tp = ObjectEndType \/ tp = ArrayEndType \/ tp = CommaType \/ tp = ColonType \/ tp = InvalidType ->
              isb 45 b || is_digit b = false ->
              Agree (if tp =? NullType then match ReadNull 10000 null_spec (b :: r0) with inl (p, e) => Some (JNull, p, e) | inr _ => None end
                     else if tp =? StringType then match ReadStringBytes 10000 append_spec (b :: r0) [] with Some (v, p, e) => Some (JStr v, p, e) | None => None end
                     else if tp =? NumberType then let '(b0, p, e) := readFloat64 (b :: r0) in Some (JNum b0, p, e)
                     else if (tp =? TrueType) || (tp =? FalseType) then match ReadBool 10000 bool_spec (b :: r0) with inl (v, p, e) => Some (JBool v, p, e) | inr _ => None end
                     else Some (JNull, 0, Some EOther))
                    (option_map (fun tn => (fst tn, Z.of_nat (snd tn))) (pscalar num (b :: r0)))).
    { intros tp TP ND.
      assert (PS : pscalar num (b :: r0) = None) by (unfold pscalar; rewrite B34, ND, B116, B102, B110; reflexivity).
      rewrite PS. destruct TP as [->|[->|[->|[->| ->]]]]; cbn; eauto. }
    destruct (isb 125 b) eqn:B125.
    { apply OTHER; [auto|]. apply Z.eqb_eq in B125. unfold isb, is_digit. rewrite B125. reflexivity. }
    destruct (isb 93 b) eqn:B93.
    { apply OTHER; [auto|]. apply Z.eqb_eq in B93. unfold isb, is_digit. rewrite B93. reflexivity. }
    destruct (isb 45 b || is_digit b) eqn:D.
    { (* number *)
      destruct (digit_facts b D) as (W & _).
      assert (PS : pscalar num (b :: r0) =
                   match number_tok (b :: r0) with
                   | Some n => option_map (fun bits => (JNum bits, n)) (num (firstn n (b :: r0)))
                   | None => None
                   end).
      { unfold pscalar. rewrite B34, D. reflexivity. }
      rewrite PS. cbn [Z.eqb NullType StringType NumberType].
      pose proof (FO (b :: r0)) as E. cbv zeta in E. rewrite (ws0 b r0 W) in E. cbn [skipn] in E.
      destruct (number_tok (b :: r0)) as [n|].
      - destruct (num (firstn n (b :: r0))) as [bits|]; cbn [option_map fst snd].
        + rewrite E. reflexivity.
        + destruct E as (b0 & p & e & ->). cbn. eauto.
      - destruct E as (b0 & p & e & ->). cbn. eauto. }
    destruct (isb 44 b); [apply OTHER; auto|]. destruct (isb 58 b); apply OTHER; auto.
  Qed.

  (** ** one member (and the top-level value): NextTokenType, then a nested reader or readSimpleValue *)
  Definition Sound (r : rres) (ref : option (jv * Z)) : Prop :=
    forall t p, r = Some (t, p, None) -> ref = Some (t, p).

  Lemma Agree_Sound : forall r ref, Agree r ref -> Sound r ref.
  Proof.
    intros r [[t p]|] A t' p' E; cbn in A.
    - rewrite A in E. inversion E. reflexivity.
    - destruct A as (v & p0 & e & A). rewrite A in E. discriminate.
  Qed.

  Definition lift (w : Z) (r : rres) : rres :=
    match r with Some (v, pp, e) => Some (v, w + pp, e) | None => None end.
  Definition shift (w : Z) (ref : option (jv * Z)) : option (jv * Z) :=
    option_map (fun tp => (fst tp, w + snd tp)) ref.

  Lemma Agree_lift : forall w r ref, Agree r ref -> Agree (lift w r) (shift w ref).
  Proof.
    intros w r [[t p]|] A; cbn in *.
    - rewrite A. reflexivity.
    - destruct A as (v & p0 & e & ->). cbn. eauto.
  Qed.
  Lemma Sound_lift : forall w r ref, Sound r ref -> Sound (lift w r) (shift w ref).
  Proof.
    intros w r ref S t p E. destruct r as [[[v pp] e]|]; [|discriminate]. cbn in E. inversion E; subst.
    rewrite (S t pp eq_refl). reflexivity.
  Qed.

  (** the reference for a value at reader depth [depth] (= number of containers open around it) *)
  Definition vref (depth : Z) (lv : list byte) : option (jv * Z) :=
    let w := ws lv in
    option_map (fun tn => (fst tn, Z.of_nat (w + snd tn))) (pvalue num 10000 (length lv + 2) depth (skipn w lv)).
  (** ... and for a value that must be an object / an array *)
  Definition tref (obj : bool) (depth : Z) (lv : list byte) : option (jv * Z) :=
    match skipn (ws lv) lv with
    | b :: _ => if isb (if obj then 123 else 91) b then vref depth lv else None
    | [] => None
    end.

  Lemma vref_parse : forall data, vref 0 data = parse_ref num data.
  Proof. reflexivity. Qed.
  Lemma tref_parse : forall obj data, tref obj 0 data = parse_typed_ref num obj data.
  Proof. reflexivity. Qed.

  Lemma tok_obj : forall b, (tok_type b =? ObjectStartType) = isb 123 b.
  Proof. destruct b; reflexivity. Qed.
  Lemma tok_arr : forall b, (tok_type b =? ArrayStartType) = isb 91 b.
  Proof. destruct b; reflexivity. Qed.
  Lemma open_not_ws : forall b, isb 123 b = true \/ isb 91 b = true -> is_ws b = false.
  Proof. intros b [H|H]; apply Z.eqb_eq in H; unfold is_ws; rewrite H; reflexivity. Qed.

  Lemma member_gen : forall (Rel : rres -> option (jv * Z) -> Prop),
    (forall r ref, Agree r ref -> Rel r ref) ->
    (forall w r ref, Rel r ref -> Rel (lift w r) (shift w ref)) ->
    forall (ro ra : list byte -> rres) depth lv, 0 <= depth <= 10000 ->
    (forall b r0, (length (b :: r0) <= length lv)%nat -> isb 123 b = true -> depth < 10000 ->
                  Rel (ro (b :: r0)) (tref true depth (b :: r0))) ->
    (forall b r0, (length (b :: r0) <= length lv)%nat -> isb 91 b = true -> depth < 10000 ->
                  Rel (ra (b :: r0)) (tref false depth (b :: r0))) ->
    Rel (MEM ro ra depth lv) (vref depth lv).
  Proof.
    intros Rel RA RL ro ra depth lv DP HO HA. unfold ValueReader.member, vref.
    pose proof (next_token_type_spec lv) as NT. cbv zeta in NT. fold (ws lv) in NT. set (w := ws lv) in *.
    destruct (skipn w lv) as [|b r0] eqn:L.
    { rewrite NT. apply RA. replace (length lv + 2)%nat with (S (length lv + 1)) by lia. cbn. eauto. }
    rewrite NT. replace (Z.of_nat w + 1 - 1) with (Z.of_nat w) by lia. rewrite Nat2Z.id, L.
    rewrite tok_obj, tok_arr.
    assert (LL : (length (b :: r0) <= length lv)%nat) by (rewrite <- L; apply skipn_le).
    assert (FUEL : pvalue num 10000 (length lv + 2) depth (b :: r0) = pvalue num 10000 (length (b :: r0) + 2) depth (b :: r0))
      by (apply pvalue_fuel; lia).
    assert (NEST : forall (obj : bool) (rd : list byte -> rres), isb (if obj then 123 else 91) b = true ->
              (depth < 10000 -> Rel (rd (b :: r0)) (tref obj depth (b :: r0))) ->
              Rel (if depth + 1 >? 10000 then Some (JNull, Z.of_nat w, Some EMaxDepth)
                   else match rd (b :: r0) with Some (v, pp, e) => Some (v, Z.of_nat w + pp, e) | None => None end)
                  (option_map (fun tn => (fst tn, Z.of_nat (w + snd tn))) (pvalue num 10000 (length lv + 2) depth (b :: r0)))).
    { intros obj rd OB HR.
      assert (W : is_ws b = false) by (apply open_not_ws; destruct obj; auto).
      destruct (depth + 1 >? 10000) eqn:G.
      - apply RA. apply Z.gtb_lt in G.
        assert (M : (10000 <=? depth) = true) by (apply Z.leb_le; lia).
        replace (length lv + 2)%nat with (S (length lv + 1)) by lia. cbn [pvalue]. rewrite M.
        destruct obj.
        + assert (A : isb 91 b = false) by (apply Z.eqb_eq in OB; unfold isb; rewrite OB; reflexivity).
          rewrite A, OB. cbn. eauto.
        + rewrite OB. cbn. eauto.
      - assert (DL : depth < 10000) by (rewrite Z.gtb_ltb in G; apply Z.ltb_ge in G; lia).
        specialize (HR DL). apply (RL (Z.of_nat w)) in HR.
        unfold tref, vref in HR. rewrite (ws0 b r0 W) in HR. cbn [skipn] in HR. rewrite OB in HR.
        rewrite FUEL.
        assert (E : shift (Z.of_nat w) (option_map (fun tn : jv * nat => (fst tn, Z.of_nat (0 + snd tn)))
                                          (pvalue num 10000 (length (b :: r0) + 2) depth (b :: r0))) =
                    option_map (fun tn => (fst tn, Z.of_nat (w + snd tn))) (pvalue num 10000 (length (b :: r0) + 2) depth (b :: r0))).
        { destruct (pvalue num 10000 (length (b :: r0) + 2) depth (b :: r0)) as [[t n]|]; [|reflexivity]. cbn. do 2 f_equal. lia. }
        rewrite <- E. exact HR. }
    destruct (isb 123 b) eqn:B123.
    { apply (NEST true ro); auto. }
    destruct (isb 91 b) eqn:B91.
    { apply (NEST false ra); auto. }
    pose proof (simple_correct b r0 B91 B123) as SC. apply RA in SC. apply (RL (Z.of_nat w)) in SC.
    assert (E : shift (Z.of_nat w) (option_map (fun tn : jv * nat => (fst tn, Z.of_nat (snd tn))) (pscalar num (b :: r0))) =
                option_map (fun tn => (fst tn, Z.of_nat (w + snd tn))) (pvalue num 10000 (length lv + 2) depth (b :: r0))).
    { replace (length lv + 2)%nat with (S (length lv + 1)) by lia. cbn [pvalue]. rewrite B91, B123.
      destruct (pscalar num (b :: r0)) as [[t n]|]; [|reflexivity]. cbn. do 2 f_equal. lia. }
    rewrite <- E. exact SC.
  Qed.
End Reader.

(** * 6. Helpers for the traversal *)

Lemma tok_null : forall b, (tok_type b =? NullType) = isb 110 b.
Proof. destruct b; reflexivity. Qed.

Lemma first_is_null_spec : forall data,
  first_is_null data = match skipn (ws data) data with b :: _ => isb 110 b | [] => false end.
Proof.
  intros data. unfold first_is_null. pose proof (next_token_type_spec data) as NT. cbv zeta in NT.
  fold (ws data) in NT. destruct (skipn (ws data) data) as [|b r]; rewrite NT; [reflexivity|apply tok_null].
Qed.

(** the two ways [members_ref] succeeds: the literal null (no members), or an array / object whose
    members lie after the opening bracket and are values of the unbounded reference *)
Lemma members_ref_cases : forall (obj : bool) data ms e, members_ref obj data = Some (ms, e) ->
  exists b r, skipn (ws data) data = b :: r /\
    ((isb 110 b = true /\ ms = []) \/
     (isb (if obj then 123 else 91) b = true /\
      Forall (fun m => 1 <= fst m /\ exists n, value_len (len data) (length data + 2) 0 (skipn (Z.to_nat (fst m)) data) = Some n) ms)).
Proof.
  intros obj data ms e M. pose proof (members_ref_values obj data ms e M) as MV. unfold members_ref in M.
  destruct (skipn (ws data) data) as [|b r] eqn:L.
  { unfold lit_ref in M. cbn in M. discriminate. }
  exists b, r. split; [reflexivity|].
  destruct (lit_ref lit_null (b :: r)) as [n|] eqn:LN.
  { left. inversion M; subst. split; [|reflexivity]. unfold lit_ref in LN. cbn [is_prefix lit_null] in LN.
    unfold isb. destruct (bz b =? bz x6e) eqn:B; [exact B|discriminate]. }
  right. destruct (isb (if obj then 123 else 91) b) eqn:OB; [|discriminate]. split; [reflexivity|].
  destruct (skipn (ws r) r) as [|c r1]; [discriminate|].
  destruct (isb (if obj then 125 else 93) c); [inversion M; constructor|].
  apply members_from_pos in M. rewrite Forall_forall in *. intros m IN. split; [|apply MV; exact IN].
  specialize (M m IN). cbn in M. lia.
Qed.

Lemma members_ref_end_ge : forall obj data ms e, members_ref obj data = Some (ms, e) ->
  exists n, e = Z.of_nat (ws data + n).
Proof.
  intros obj data ms e M. apply members_ref_end in M. unfold skip_unb, skip_ref_md in M.
  destruct (value_len _ _ _ _) as [n|]; [|discriminate]. cbn in M. inversion M. eauto.
Qed.

Lemma AllGood_dec : forall (good : list call -> bool) final,
  AllGood good [] final \/ exists L, suffix L final /\ L <> [] /\ good L = false.
Proof.
  intros good. induction final as [|c rest IH].
  - left. intros L S LL. apply suffix_nil_inv in S. subst. cbn in LL. lia.
  - destruct IH as [AG|(L & S & NE & G)].
    + destruct (good (c :: rest)) eqn:G.
      * left. intros L [pre E] LL. destruct pre as [|x pre].
        -- cbn in E. subst L. exact G.
        -- cbn in E. inversion E; subst. apply AG; [exists pre; reflexivity|exact LL].
      * right. exists (c :: rest). split; [apply suffix_refl|]. split; [discriminate|exact G].
    + right. exists L. split; [|auto]. eapply suffix_trans; [exact S|apply suffix_cons].
Qed.

Lemma in_suffix : forall {A} (c : A) l, In c l -> exists rest, suffix (c :: rest) l.
Proof. intros A c l IN. apply in_split in IN. destruct IN as (l1 & l2 & ->). exists l2, l1. reflexivity. Qed.

Lemma suffix_head_in : forall {A} (c : A) rest l, suffix (c :: rest) l -> In c l.
Proof. intros A c rest l [pre ->]. apply in_or_app. right. left. reflexivity. Qed.

Lemma mapM_map : forall {A B C} (g : A -> B) (f : B -> option C) l, mapM f (map g l) = mapM (fun x => f (g x)) l.
Proof. intros A B C g f. induction l as [|x r IH]; [reflexivity|]. cbn. rewrite IH. reflexivity. Qed.

Lemma mapM_ext_in : forall {A B} (f g : A -> option B) l, (forall x, In x l -> f x = g x) -> mapM f l = mapM g l.
Proof.
  intros A B f g. induction l as [|x r IH]; intros H; [reflexivity|]. cbn. rewrite (H x (or_introl eq_refl)).
  rewrite IH; [reflexivity|]. intros y IN. apply H. right. exact IN.
Qed.

Lemma mapM_none : forall {A B} (f : A -> option B) l x, In x l -> f x = None -> mapM f l = None.
Proof.
  intros A B f. induction l as [|y r IH]; intros x IN FX; [destruct IN|]. cbn. destruct IN as [->|IN].
  - rewrite FX. reflexivity.
  - rewrite (IH x IN FX). destruct (f y); reflexivity.
Qed.

Lemma mapM_some_in : forall {A B} (f : A -> option B) l ys x, mapM f l = Some ys -> In x l -> exists y, f x = Some y.
Proof.
  intros A B f. induction l as [|z r IH]; intros ys x M IN; [destruct IN|]. cbn in M.
  destruct (f z) as [y|] eqn:FZ; [|discriminate]. destruct (mapM f r) as [ys'|] eqn:MR; [|discriminate].
  destruct IN as [->|IN]; [eauto|]. eapply IH; eauto.
Qed.

(** collecting array members whose reads all succeed *)
Lemma collect_arr_ok : forall (read1 : call -> rres) (G : call -> option jv) calls acc,
  (forall c, In c calls -> exists v p, read1 c = Some (v, p, None) /\ G c = Some v) ->
  exists vs, mapM G calls = Some vs /\ collect_arr read1 calls acc = Some (acc ++ vs).
Proof.
  intros read1 G. induction calls as [|c r IH]; intros acc H.
  - exists []. cbn. rewrite app_nil_r. auto.
  - destruct (H c (or_introl eq_refl)) as (v & p & R & GV).
    destruct (IH (acc ++ [v]) ltac:(intros c' IN; apply H; right; exact IN)) as (vs & M & C).
    exists (v :: vs). cbn. rewrite GV, M, R, C, <- app_assoc. auto.
Qed.

(** collecting object members whose reads all succeed and whose raw keys decode *)
Lemma collect_obj_ok : forall (read1 : call -> rres) (G : call -> option jv) calls acc,
  (forall c, In c calls -> (exists v p, read1 c = Some (v, p, None) /\ G c = Some v) /\
                           exists out, decode_content (c_key c) = Some out) ->
  exists vs, mapM G calls = Some vs /\
             collect_obj 10000 unescape_spec read1 calls acc = build_obj (combine (map c_key calls) vs) acc /\
             exists m, build_obj (combine (map c_key calls) vs) acc = Some m.
Proof.
  intros read1 G. induction calls as [|c r IH]; intros acc H.
  - exists []. cbn. eauto.
  - destruct (H c (or_introl eq_refl)) as ((v & p & R & GV) & (out & D)).
    destruct (IH (obj_set acc out v) ltac:(intros c' IN; apply H; right; exact IN)) as (vs & M & C & (m & B)).
    exists (v :: vs). cbn. rewrite GV, M, R, (key_of_correct _ _ D), D, C. eauto.
Qed.

(** the raw keys [members_ref] lists for an object are well-formed string contents *)
Lemma members_ref_keys : forall data ms e, members_ref true data = Some (ms, e) ->
  Forall (fun m => exists out, decode_content (snd m) = Some out) ms.
Proof.
  intros data ms e M. unfold members_ref in M.
  destruct (lit_ref lit_null (skipn (ws data) data)); [inversion M; constructor|].
  destruct (skipn (ws data) data) as [|b r]; [discriminate|].
  destruct (isb 123 b); [|discriminate].
  destruct (skipn (ws r) r) as [|c r1]; [discriminate|].
  destruct (isb 125 c); [inversion M; constructor|].
  eapply members_from_keys; eauto.
Qed.

(** * 7. The traversal: ReadArray / ReadObject at every depth, by induction on the fuel *)
Section Main.
  Variable readFloat64 : list byte -> Z * Z * option errk.
  Variable num : list byte -> option Z.
  Hypothesis FO : float_ok readFloat64 num.

  Notation MEM := (ValueReader.member 10000 10000 null_spec bool_spec append_spec readFloat64).
  Notation rdo := (read_obj 10000 10000 harr_spec hobj_spec null_spec bool_spec append_spec unescape_spec readFloat64).
  Notation rda := (read_arr 10000 10000 harr_spec hobj_spec null_spec bool_spec append_spec unescape_spec readFloat64).

  (** the offset of a reference tree is the offset of the reference skipper *)
  Lemma vref_skip : forall depth lv t p, vref num depth lv = Some (t, p) -> 0 <= depth -> skip_ref lv = Some p.
  Proof.
    intros depth lv t p V DP. unfold vref in V.
    destruct (pvalue num 10000 (length lv + 2) depth (skipn (ws lv) lv)) as [[t' n]|] eqn:PV; [|discriminate].
    cbn in V. inversion V; subst. apply pvalue_len in PV.
    unfold skip_ref, skip_ref_md, max_depth_ref.
    rewrite (value_len_lower _ _ _ _ _ PV (length lv + 2)%nat 0); [reflexivity| |lia].
    pose proof (skipn_le (ws lv) lv). lia.
  Qed.

  Lemma vref_nows : forall depth lv F, ws lv = 0%nat -> (length lv < F)%nat ->
    option_map fst (pvalue num 10000 F depth lv) = option_map fst (vref num depth lv).
  Proof.
    intros depth lv F W LF. unfold vref. rewrite W. cbn [skipn].
    rewrite (pvalue_fuel num 10000 F depth lv (length lv + 2)) by lia.
    destruct (pvalue num 10000 (length lv + 2) depth lv) as [[t n]|]; reflexivity.
  Qed.

  Definition Rd (obj : bool) (f : nat) (depth : Z) (data : list byte) : rres :=
    if obj then rdo f depth data else rda f depth data.

  Definition Pspec (f : nat) : Prop :=
    forall (obj : bool) depth data, 1 <= depth <= 10000 -> len data <= maxint ->
      Sound (Rd obj f depth data) (tref num obj (depth - 1) data) /\
      ((length data < f)%nat -> Agree (Rd obj f depth data) (tref num obj (depth - 1) data)).

  Lemma len_skipn_le : forall (data : list byte) k, len data <= maxint -> len (skipn k data) <= maxint.
  Proof. intros data k H. pose proof (skipn_le k data). unfold len in *. lia. Qed.

  Section Step.
    Variable f : nat.
    Hypothesis PF : Pspec f.
    Variable depth : Z.
    Variable data : list byte.
    Hypothesis DP : 1 <= depth <= 10000.
    Hypothesis LEN : len data <= maxint.

    Notation mem := (MEM (rdo f (depth + 1)) (rda f (depth + 1)) depth).

    Lemma mem_sound : forall lv, len lv <= maxint -> Sound (mem lv) (vref num depth lv).
    Proof.
      intros lv LL. apply (member_gen readFloat64 num FO Sound Agree_Sound Sound_lift); [lia| |].
      - intros b r0 L3 OB DL.
        destruct (PF true (depth + 1) (b :: r0) ltac:(lia) ltac:(unfold len in *; lia)) as [S _].
        replace (depth + 1 - 1) with depth in S by lia. exact S.
      - intros b r0 L3 OB DL.
        destruct (PF false (depth + 1) (b :: r0) ltac:(lia) ltac:(unfold len in *; lia)) as [S _].
        replace (depth + 1 - 1) with depth in S by lia. exact S.
    Qed.

    Lemma mem_agree : forall lv, len lv <= maxint -> (length lv < f)%nat -> Agree (mem lv) (vref num depth lv).
    Proof.
      intros lv LL LF. apply (member_gen readFloat64 num FO Agree (fun r ref A => A) Agree_lift); [lia| |].
      - intros b r0 L3 OB DL.
        destruct (PF true (depth + 1) (b :: r0) ltac:(lia) ltac:(unfold len in *; lia)) as [_ A].
        replace (depth + 1 - 1) with depth in A by lia. apply A. lia.
      - intros b r0 L3 OB DL.
        destruct (PF false (depth + 1) (b :: r0) ltac:(lia) ltac:(unfold len in *; lia)) as [_ A].
        replace (depth + 1 - 1) with depth in A by lia. apply A. lia.
    Qed.

    (** the tree the reference assigns to the member at an offset *)
    Definition mtree (m : Z * list byte) : option jv :=
      option_map fst (vref num depth (skipn (Z.to_nat (fst m)) data)).

    (** the reference on an array / object document, through [members_ref] *)
    Lemma tref_members : forall (obj : bool) b r ms e, skipn (ws data) data = b :: r ->
      isb (if obj then 123 else 91) b = true ->
      Forall (fun m => 1 <= fst m /\ exists n, value_len (len data) (length data + 2) 0 (skipn (Z.to_nat (fst m)) data) = Some n) ms ->
      members_ref obj data = Some (ms, e) ->
      tref num obj (depth - 1) data =
      match mapM mtree ms with
      | Some vs => if obj then option_map (fun m => (JObj m, e)) (build_obj (combine (map snd ms) vs) []) else Some (JArr vs, e)
      | None => None
      end.
    Proof.
      intros obj b r ms e L OB FA MR. unfold tref, vref. rewrite L, OB.
      assert (LD : (S (length r) <= length data)%nat).
      { assert (A : length (skipn (ws data) data) = S (length r)) by (rewrite L; reflexivity). rewrite skipn_length in A. lia. }
      pose proof (pvalue_members num data obj b r 10000 (length data + 1) (depth - 1) L OB ltac:(lia)
                    ltac:(apply Z.leb_gt; lia)) as PM.
      rewrite MR in PM. replace (length data + 2)%nat with (S (length data + 1)) by lia. rewrite PM.
      2:{ intros lv v n LL PV. apply pvalue_len in PV.
          eapply value_len_unb; [exact PV|lia|]. unfold len. lia. }
      destruct (members_ref_end_ge obj data ms e MR) as (n & ->).
      assert (MEQ : mapM (fun mm => option_map fst (pvalue num 10000 (length data + 1) (depth - 1 + 1) (skipn (Z.to_nat (fst mm)) data))) ms
                    = mapM mtree ms).
      { apply mapM_ext_in. intros m IN. rewrite Forall_forall in FA. destruct (FA m IN) as (P1 & n0 & VL).
        unfold mtree. replace (depth - 1 + 1) with depth by lia. apply vref_nows.
        - eapply value_len_nows; eauto.
        - rewrite skipn_length. lia. }
      rewrite MEQ. destruct (mapM mtree ms) as [vs|]; [|reflexivity].
      destruct obj.
      - destruct (build_obj _ []); cbn [option_map fst snd]; [do 2 f_equal; lia|reflexivity].
      - cbn [option_map fst snd]. do 2 f_equal. lia.
    Qed.

    (** a member position lies strictly inside the document *)
    Lemma member_short : forall k, 1 <= k -> (length data < S f)%nat -> data <> [] -> (length (skipn (Z.to_nat k) data) < f)%nat.
    Proof. intros k K LF NE. rewrite skipn_length. destruct data; [contradiction|]. cbn [length] in *. lia. Qed.

    (** *** arrays *)
    Lemma arr_step :
      Sound (rda (S f) depth data) (tref num false (depth - 1) data) /\
      ((length data < S f)%nat -> Agree (rda (S f) depth data) (tref num false (depth - 1) data)).
    Proof.
      set (read1 := fun c : call => mem (skipn (Z.to_nat (c_p c)) data)).
      set (h := (fun calls : list call => match calls with c :: _ => answer (read1 c) | [] => answer None end) : handler).
      assert (UNF : rda (S f) depth data =
                    match of_outcome (prun 10000 harr_spec data h [] []) with
                    | MDone p (Some e) _ => Some (JNull, p, Some e)
                    | MDone p None s =>
                      match collect_arr read1 (rev (s_calls s)) [] with
                      | Some l => match l with
                                  | [] => if first_is_null data then Some (JNull, p, Some EInvalidArray) else Some (JArr l, p, None)
                                  | _ :: _ => Some (JArr l, p, None)
                                  end
                      | None => None
                      end
                    | _ => None
                    end).
      { cbn [read_arr]. unfold handleArrayValues_m. rewrite prun_c_eq. reflexivity. }
      assert (RS : forall c, Sound (read1 c) (vref num depth (skipn (Z.to_nat (c_p c)) data))).
      { intros c. apply mem_sound. apply len_skipn_le. exact LEN. }
      assert (GA : forall c calls, goodh data h (c :: calls) =
                   match read1 c with
                   | Some (_, p, None) => (p =? 0) || match skip_ref (skipn (Z.to_nat (c_p c)) data) with Some n => n =? p | None => false end
                   | _ => false
                   end).
      { intros c calls. unfold goodh, h. destruct (read1 c) as [[[v p] [e|]]|]; reflexivity. }
      assert (EXACT : forall c v p, read1 c = Some (v, p, None) -> skip_ref (skipn (Z.to_nat (c_p c)) data) = Some p).
      { intros c v p R. apply (vref_skip depth _ v p); [|lia]. apply (RS c v p R). }
      assert (BAD : reports_when_bad data h).
      { intros [|c calls] G; [discriminate|]. rewrite GA in G. unfold h.
        destruct (read1 c) as [[[v p] [e|]]|] eqn:R; cbn; eauto.
        rewrite (EXACT c v p R), Z.eqb_refl, orb_true_r in G. discriminate. }
      pose proof (members_spec_err false data h [] [] LEN BAD) as M. cbv zeta in M.
      assert (ERR : forall p e, rda (S f) depth data = Some (JNull, p, Some e) ->
                    tref num false (depth - 1) data = None \/ ~ (length data < S f)%nat ->
                    Sound (rda (S f) depth data) (tref num false (depth - 1) data) /\
                    ((length data < S f)%nat -> Agree (rda (S f) depth data) (tref num false (depth - 1) data))).
      { intros p e E TN. rewrite E. split; [intros t p' EQ; discriminate|].
        intros LF. destruct TN as [TN|TN]; [|contradiction]. rewrite TN. cbn. eauto. }
      assert (OKA : forall t p, rda (S f) depth data = Some (t, p, None) -> tref num false (depth - 1) data = Some (t, p) ->
                    Sound (rda (S f) depth data) (tref num false (depth - 1) data) /\
                    ((length data < S f)%nat -> Agree (rda (S f) depth data) (tref num false (depth - 1) data))).
      { intros t p E TR. assert (A : Agree (rda (S f) depth data) (tref num false (depth - 1) data)) by (rewrite TR; exact E).
        split; [apply Agree_Sound; exact A|intros _; exact A]. }
      destruct (members_ref false data) as [[ms e]|] eqn:MR.
      2:{ (* the reference finds no array *)
          destruct M as (p & e & s & E). apply (ERR p e); [rewrite UNF, E; reflexivity|]. left.
          unfold tref. destruct (skipn (ws data) data) as [|b r] eqn:L; [reflexivity|].
          destruct (isb 91 b) eqn:OB; [|reflexivity]. unfold vref. rewrite L.
          assert (LD : (S (length r) <= length data)%nat).
          { assert (A : length (skipn (ws data) data) = S (length r)) by (rewrite L; reflexivity). rewrite skipn_length in A. lia. }
          pose proof (pvalue_members num data false b r 10000 (length data + 1) (depth - 1) L OB ltac:(lia)
                        ltac:(apply Z.leb_gt; lia)) as PM.
          rewrite MR in PM. replace (length data + 2)%nat with (S (length data + 1)) by lia. rewrite PM; [reflexivity|].
          intros lv v n LL PV. apply pvalue_len in PV. eapply value_len_unb; [exact PV|lia|]. unfold len. lia. }
      destruct M as (s2 & E2 & C2 & DI).
      destruct (members_ref_cases false data ms e MR) as (b & r & L & [[BN ->]|[OB FA]]).
      - (* the literal null: rejected *)
        assert (CN : s_calls s2 = []).
        { destruct (s_calls s2) as [|c0 cs] eqn:SC; [reflexivity|]. cbn [rev] in C2.
          rewrite map_app in C2. apply app_eq_nil in C2. destruct C2 as [_ C2]. discriminate. }
        assert (FN : first_is_null data = true) by (rewrite first_is_null_spec, L; exact BN).
        assert (TN : tref num false (depth - 1) data = None).
        { unfold tref. rewrite L. apply Z.eqb_eq in BN. unfold isb. rewrite BN. reflexivity. }
        destruct DI as [[_ E]|[NAG _]].
        + apply (ERR e EInvalidArray); [|left; exact TN]. rewrite UNF, E. cbn [of_outcome]. rewrite CN. cbn. rewrite FN. reflexivity.
        + exfalso. apply NAG. rewrite CN. apply AllGood_same.
      - (* an array *)
        pose proof (tref_members false b r ms e L OB FA MR) as TR. cbv iota in TR.
        assert (FN : first_is_null data = false).
        { rewrite first_is_null_spec, L. apply Z.eqb_eq in OB. unfold isb. rewrite OB. reflexivity. }
        assert (NE : data <> []) by (intros ->; rewrite skipn_nil in L; discriminate).
        destruct DI as [[AG E]|[NAG (p' & tok & s' & E)]].
        + (* every member was read *)
          destruct (collect_arr_ok read1 (fun c => mtree (callpair c)) (rev (s_calls s2)) []) as (vs & MM & CA).
          { intros c IN. apply in_rev in IN. destruct (in_suffix c _ IN) as (rest & SF).
            pose proof (AG (c :: rest) SF ltac:(cbn; lia)) as GD. rewrite GA in GD.
            destruct (read1 c) as [[[v p] [e0|]]|] eqn:R1; try discriminate. exists v, p. split; [reflexivity|].
            unfold mtree, callpair. cbn [fst]. rewrite (RS c v p R1). reflexivity. }
          rewrite <- mapM_map, C2 in MM. rewrite MM in TR. cbn [app] in CA.
          apply (OKA (JArr vs) e); [|exact TR].
          rewrite UNF, E. cbn [of_outcome]. rewrite CA. destruct vs; [rewrite FN|]; reflexivity.
        + (* some member read failed *)
          apply (ERR p' (EHandler tok)); [rewrite UNF, E; reflexivity|].
          destruct (Nat.lt_ge_cases (length data) (S f)) as [LF|LF]; [left|right; lia].
          destruct (AllGood_dec (goodh data h) (s_calls s2)) as [AG|(L0 & SF & NE0 & GB)]; [contradiction|].
          destruct L0 as [|c rest]; [contradiction|].
          assert (IN : In (callpair c) ms).
          { rewrite <- C2. apply in_map. apply -> in_rev. eapply suffix_head_in; eauto. }
          rewrite TR. rewrite Forall_forall in FA. destruct (FA _ IN) as (P1 & _). unfold callpair in P1. cbn [fst] in P1.
          destruct (mtree (callpair c)) as [t|] eqn:GC; [exfalso|rewrite (mapM_none mtree ms _ IN GC); reflexivity].
          unfold mtree, callpair in GC. cbn [fst] in GC.
          destruct (vref num depth (skipn (Z.to_nat (c_p c)) data)) as [[t' p]|] eqn:VR; [|discriminate].
          pose proof (mem_agree (skipn (Z.to_nat (c_p c)) data) (len_skipn_le _ _ LEN) (member_short _ P1 LF NE)) as A.
          rewrite VR in A. cbn in A. rewrite GA in GB. fold (read1 c) in A. rewrite A in GB.
          rewrite (EXACT c t' p A), Z.eqb_refl, orb_true_r in GB. discriminate.
    Qed.

    (** *** objects *)
    Lemma obj_step :
      Sound (rdo (S f) depth data) (tref num true (depth - 1) data) /\
      ((length data < S f)%nat -> Agree (rdo (S f) depth data) (tref num true (depth - 1) data)).
    Proof.
      set (read1 := fun c : call => match key_of 10000 unescape_spec (c_key c) with
                                    | inl (Some _) => mem (skipn (Z.to_nat (c_p c)) data)
                                    | inl None => Some (JNull, 0, Some EInvalidString)
                                    | inr _ => None
                                    end).
      set (h := (fun calls : list call => match calls with c :: _ => answer (read1 c) | [] => answer None end) : handler).
      assert (UNF : rdo (S f) depth data =
                    match of_outcome (prun 10000 hobj_spec data h [] []) with
                    | MDone p (Some e) _ => Some (JNull, p, Some e)
                    | MDone p None s =>
                      match collect_obj 10000 unescape_spec read1 (rev (s_calls s)) [] with
                      | Some l => match l with
                                  | [] => if first_is_null data then Some (JNull, p, Some EInvalidObject) else Some (JObj l, p, None)
                                  | _ :: _ => Some (JObj l, p, None)
                                  end
                      | None => None
                      end
                    | _ => None
                    end).
      { cbn [read_obj]. unfold handleObjectValues_m. rewrite prun_c_eq. reflexivity. }
      assert (RS : forall c, Sound (read1 c) (vref num depth (skipn (Z.to_nat (c_p c)) data))).
      { intros c. unfold read1. destruct (key_of 10000 unescape_spec (c_key c)) as [[k|]|]; try (intros t p EQ; discriminate).
        apply mem_sound. apply len_skipn_le. exact LEN. }
      assert (GA : forall c calls, goodh data h (c :: calls) =
                   match read1 c with
                   | Some (_, p, None) => (p =? 0) || match skip_ref (skipn (Z.to_nat (c_p c)) data) with Some n => n =? p | None => false end
                   | _ => false
                   end).
      { intros c calls. unfold goodh, h. destruct (read1 c) as [[[v p] [e|]]|]; reflexivity. }
      assert (EXACT : forall c v p, read1 c = Some (v, p, None) -> skip_ref (skipn (Z.to_nat (c_p c)) data) = Some p).
      { intros c v p R. apply (vref_skip depth _ v p); [|lia]. apply (RS c v p R). }
      assert (BAD : reports_when_bad data h).
      { intros [|c calls] G; [discriminate|]. rewrite GA in G. unfold h.
        destruct (read1 c) as [[[v p] [e|]]|] eqn:R; cbn; eauto.
        rewrite (EXACT c v p R), Z.eqb_refl, orb_true_r in G. discriminate. }
      pose proof (members_spec_err true data h [] [] LEN BAD) as M. cbv zeta in M.
      assert (ERR : forall p e, rdo (S f) depth data = Some (JNull, p, Some e) ->
                    tref num true (depth - 1) data = None \/ ~ (length data < S f)%nat ->
                    Sound (rdo (S f) depth data) (tref num true (depth - 1) data) /\
                    ((length data < S f)%nat -> Agree (rdo (S f) depth data) (tref num true (depth - 1) data))).
      { intros p e E TN. rewrite E. split; [intros t p' EQ; discriminate|].
        intros LF. destruct TN as [TN|TN]; [|contradiction]. rewrite TN. cbn. eauto. }
      assert (OKA : forall t p, rdo (S f) depth data = Some (t, p, None) -> tref num true (depth - 1) data = Some (t, p) ->
                    Sound (rdo (S f) depth data) (tref num true (depth - 1) data) /\
                    ((length data < S f)%nat -> Agree (rdo (S f) depth data) (tref num true (depth - 1) data))).
      { intros t p E TR. assert (A : Agree (rdo (S f) depth data) (tref num true (depth - 1) data)) by (rewrite TR; exact E).
        split; [apply Agree_Sound; exact A|intros _; exact A]. }
      destruct (members_ref true data) as [[ms e]|] eqn:MR.
      2:{ (* the reference finds no object *)
          destruct M as (p & e & s & E). apply (ERR p e); [rewrite UNF, E; reflexivity|]. left.
          unfold tref. destruct (skipn (ws data) data) as [|b r] eqn:L; [reflexivity|].
          destruct (isb 123 b) eqn:OB; [|reflexivity]. unfold vref. rewrite L.
          assert (LD : (S (length r) <= length data)%nat).
          { assert (A : length (skipn (ws data) data) = S (length r)) by (rewrite L; reflexivity). rewrite skipn_length in A. lia. }
          pose proof (pvalue_members num data true b r 10000 (length data + 1) (depth - 1) L OB ltac:(lia)
                        ltac:(apply Z.leb_gt; lia)) as PM.
          rewrite MR in PM. replace (length data + 2)%nat with (S (length data + 1)) by lia. rewrite PM; [reflexivity|].
          intros lv v n LL PV. apply pvalue_len in PV. eapply value_len_unb; [exact PV|lia|]. unfold len. lia. }
      destruct M as (s2 & E2 & C2 & DI).
      destruct (members_ref_cases true data ms e MR) as (b & r & L & [[BN ->]|[OB FA]]).
      - (* the literal null: rejected *)
        assert (CN : s_calls s2 = []).
        { destruct (s_calls s2) as [|c0 cs] eqn:SC; [reflexivity|]. cbn [rev] in C2.
          rewrite map_app in C2. apply app_eq_nil in C2. destruct C2 as [_ C2]. discriminate. }
        assert (FN : first_is_null data = true) by (rewrite first_is_null_spec, L; exact BN).
        assert (TN : tref num true (depth - 1) data = None).
        { unfold tref. rewrite L. apply Z.eqb_eq in BN. unfold isb. rewrite BN. reflexivity. }
        destruct DI as [[_ E]|[NAG _]].
        + apply (ERR e EInvalidObject); [|left; exact TN]. rewrite UNF, E. cbn [of_outcome]. rewrite CN. cbn. rewrite FN. reflexivity.
        + exfalso. apply NAG. rewrite CN. apply AllGood_same.
      - (* an object *)
        pose proof (tref_members true b r ms e L OB FA MR) as TR. cbv iota in TR.
        assert (FN : first_is_null data = false).
        { rewrite first_is_null_spec, L. apply Z.eqb_eq in OB. unfold isb. rewrite OB. reflexivity. }
        assert (NE : data <> []) by (intros ->; rewrite skipn_nil in L; discriminate).
        destruct DI as [[AG E]|[NAG (p' & tok & s' & E)]].
        + (* every member was read *)
          pose proof (members_ref_keys data ms e MR) as KD. rewrite Forall_forall in KD.
          destruct (collect_obj_ok read1 (fun c => mtree (callpair c)) (rev (s_calls s2)) []) as (vs & MM & CA & (m & BO)).
          { intros c IN. assert (INM : In (callpair c) ms) by (rewrite <- C2; apply in_map; exact IN).
            split; [|apply (KD _ INM)].
            apply in_rev in IN. destruct (in_suffix c _ IN) as (rest & SF).
            pose proof (AG (c :: rest) SF ltac:(cbn; lia)) as GD. rewrite GA in GD.
            destruct (read1 c) as [[[v p] [e0|]]|] eqn:R1; try discriminate. exists v, p. split; [reflexivity|].
            unfold mtree, callpair. cbn [fst]. rewrite (RS c v p R1). reflexivity. }
          rewrite <- mapM_map, C2 in MM. rewrite MM in TR.
          assert (KS : map c_key (rev (s_calls s2)) = map snd ms) by (rewrite <- C2, map_map; reflexivity).
          rewrite KS in *. rewrite BO in TR. cbn [option_map] in TR.
          apply (OKA (JObj m) e); [|exact TR].
          rewrite UNF, E. cbn [of_outcome]. rewrite CA, BO. destruct m; [rewrite FN|]; reflexivity.
        + (* some member read failed *)
          apply (ERR p' (EHandler tok)); [rewrite UNF, E; reflexivity|].
          destruct (Nat.lt_ge_cases (length data) (S f)) as [LF|LF]; [left|right; lia].
          destruct (AllGood_dec (goodh data h) (s_calls s2)) as [AG|(L0 & SF & NE0 & GB)]; [contradiction|].
          destruct L0 as [|c rest]; [contradiction|].
          assert (IN : In (callpair c) ms).
          { rewrite <- C2. apply in_map. apply -> in_rev. eapply suffix_head_in; eauto. }
          rewrite TR. rewrite Forall_forall in FA. destruct (FA _ IN) as (P1 & _). unfold callpair in P1. cbn [fst] in P1.
          destruct (mtree (callpair c)) as [t|] eqn:GC; [exfalso|rewrite (mapM_none mtree ms _ IN GC); reflexivity].
          unfold mtree, callpair in GC. cbn [fst] in GC.
          destruct (vref num depth (skipn (Z.to_nat (c_p c)) data)) as [[t' p]|] eqn:VR; [|discriminate].
          pose proof (mem_agree (skipn (Z.to_nat (c_p c)) data) (len_skipn_le _ _ LEN) (member_short _ P1 LF NE)) as A.
          rewrite VR in A. cbn in A. rewrite GA in GB.
          pose proof (members_ref_keys data ms e MR) as KD. rewrite Forall_forall in KD.
          destruct (KD _ IN) as (out & DC). unfold callpair in DC. cbn [snd] in DC.
          assert (A' : read1 c = Some (t', p, None)) by (unfold read1; rewrite (key_of_correct _ _ DC); exact A).
          clear A. rename A' into A. rewrite A in GB.
          rewrite (EXACT c t' p A), Z.eqb_refl, orb_true_r in GB. discriminate.
    Qed.
  End Step.
End Main.

(** * 8. The theorems *)
Section Theorems.
  Variable readFloat64 : list byte -> Z * Z * option errk.
  Variable num : list byte -> option Z.
  Hypothesis FO : float_ok readFloat64 num.

  Notation MEM := (ValueReader.member 10000 10000 null_spec bool_spec append_spec readFloat64).
  Notation rdo := (read_obj 10000 10000 harr_spec hobj_spec null_spec bool_spec append_spec unescape_spec readFloat64).
  Notation rda := (read_arr 10000 10000 harr_spec hobj_spec null_spec bool_spec append_spec unescape_spec readFloat64).

  (** at every fuel and depth: a successful typed read returns the reference tree and offset; with
      fuel above the length of the input the read agrees with the reference altogether *)
  Theorem pspec_all : forall f, Pspec readFloat64 num f.
  Proof.
    induction f as [|f IH]; intros obj depth data DP LEN.
    - split; [intros t p E; destruct obj; discriminate|intros LF; lia].
    - destruct obj; [apply obj_step|apply arr_step]; auto.
  Qed.

  Lemma ReadValue_member : forall data,
    ReadValue 10000 10000 harr_spec hobj_spec null_spec bool_spec append_spec unescape_spec readFloat64 data =
    MEM (rdo (vr_fuel data) 1) (rda (vr_fuel data) 1) 0 data.
  Proof.
    intros data. unfold ReadValue, ValueReader.member. destruct (NextTokenType data) as [[tp p] [e|]]; reflexivity.
  Qed.

  (** C03: ReadValue returns the reference tree and the offset just after the value, or an error when
      the reference assigns no tree (malformed, nested deeper than 10000, a number out of range):
      never an abnormal outcome, never another tree *)
  Theorem read_value_tree : forall data, len data <= maxint ->
    match parse_ref num data with
    | Some (t, p) =>
      ReadValue 10000 10000 harr_spec hobj_spec null_spec bool_spec append_spec unescape_spec readFloat64 data = Some (t, p, None)
    | None =>
      exists v p e,
        ReadValue 10000 10000 harr_spec hobj_spec null_spec bool_spec append_spec unescape_spec readFloat64 data = Some (v, p, Some e)
    end.
  Proof.
    intros data LEN. rewrite ReadValue_member. rewrite <- vref_parse.
    change (Agree (MEM (rdo (vr_fuel data) 1) (rda (vr_fuel data) 1) 0 data) (vref num 0 data)).
    apply (member_gen readFloat64 num FO Agree (fun r ref A => A) Agree_lift); [lia| |].
    - intros b r0 LL OB _.
      destruct (pspec_all (vr_fuel data) true 1 (b :: r0) ltac:(lia) ltac:(unfold len in *; lia)) as [_ A].
      apply A. unfold vr_fuel. lia.
    - intros b r0 LL OB _.
      destruct (pspec_all (vr_fuel data) false 1 (b :: r0) ltac:(lia) ltac:(unfold len in *; lia)) as [_ A].
      apply A. unfold vr_fuel. lia.
  Qed.

  (** C03 for the typed entry points: ReadObject / ReadArray return the reference tree of an object /
      array document, and an error on every other document (null included) *)
  Theorem read_object_tree : forall data, len data <= maxint ->
    match parse_typed_ref num true data with
    | Some (t, p) =>
      ReadObject 10000 10000 harr_spec hobj_spec null_spec bool_spec append_spec unescape_spec readFloat64 data = Some (t, p, None)
    | None =>
      exists v p e,
        ReadObject 10000 10000 harr_spec hobj_spec null_spec bool_spec append_spec unescape_spec readFloat64 data = Some (v, p, Some e)
    end.
  Proof.
    intros data LEN. destruct (pspec_all (vr_fuel data) true 1 data ltac:(lia) LEN) as [_ A].
    rewrite <- tref_parse. apply A. unfold vr_fuel. lia.
  Qed.

  Theorem read_array_tree : forall data, len data <= maxint ->
    match parse_typed_ref num false data with
    | Some (t, p) =>
      ReadArray 10000 10000 harr_spec hobj_spec null_spec bool_spec append_spec unescape_spec readFloat64 data = Some (t, p, None)
    | None =>
      exists v p e,
        ReadArray 10000 10000 harr_spec hobj_spec null_spec bool_spec append_spec unescape_spec readFloat64 data = Some (v, p, Some e)
    end.
  Proof.
    intros data LEN. destruct (pspec_all (vr_fuel data) false 1 data ltac:(lia) LEN) as [_ A].
    rewrite <- tref_parse. apply A. unfold vr_fuel. lia.
  Qed.

  (** the reference tree parser succeeds only where the reference skipper does, with the same offset;
      so (C08) the offset ReadValue returns is a correct place to resume *)
  Theorem parse_ref_skip : forall data t p, parse_ref num data = Some (t, p) -> skip_ref data = Some p.
  Proof. intros data t p H. rewrite <- vref_parse in H. eapply vref_skip; eauto. lia. Qed.

  Corollary read_value_offset_is_skip : forall data t p, len data <= maxint ->
    ReadValue 10000 10000 harr_spec hobj_spec null_spec bool_spec append_spec unescape_spec readFloat64 data = Some (t, p, None) ->
    skip_ref data = Some p.
  Proof.
    intros data t p LEN H. pose proof (read_value_tree data LEN) as T.
    destruct (parse_ref num data) as [[t' p']|] eqn:PR.
    - rewrite T in H. inversion H; subst. eapply parse_ref_skip; eauto.
    - destruct T as (v & p0 & e & T). rewrite T in H. discriminate.
  Qed.

  (** never abnormal *)
  Corollary read_value_total : forall data, len data <= maxint ->
    ReadValue 10000 10000 harr_spec hobj_spec null_spec bool_spec append_spec unescape_spec readFloat64 data <> None.
  Proof.
    intros data LEN H. pose proof (read_value_tree data LEN) as T. rewrite H in T.
    destruct (parse_ref num data) as [[t p]|]; [discriminate|]. destruct T as (v & p & e & T). discriminate.
  Qed.
End Theorems.

(** the examples of Part 2 are instances (the toy float layer satisfies [float_ok]) *)
Example read_value_tree_ex :
  RV toy_readFloat64 doc1 = Some (JObj [([x61], JArr [JBool true; JNull]); ([x62; x0a], JStr [x78; x41])], 39, None) /\
  (exists v p e, RV toy_readFloat64 doc5 = Some (v, p, Some e)).
Proof.
  split.
  - pose proof (read_value_tree toy_readFloat64 toy_num toy_float_ok doc1 ltac:(vm_compute; discriminate)) as T.
    rewrite parse_ref_ex1 in T. exact T.
  - pose proof (read_value_tree toy_readFloat64 toy_num toy_float_ok doc5 ltac:(vm_compute; discriminate)) as T.
    assert (N : parse_ref toy_num doc5 = None) by (vm_compute; reflexivity). rewrite N in T. exact T.
Qed.

Print Assumptions read_value_tree.
Print Assumptions read_object_tree.
Print Assumptions read_array_tree.
Print Assumptions read_value_offset_is_skip.

(** * 9. The float layer of the model satisfies [float_ok]
    ReadFloat64 of the model (Fp.v), wrapped as in run/Inst.v ([i_ReadFloat64 = rf64 fpT]), with the
    value of a number token given by ParseJSONFloatPrefix on the isolated token ([num_model]):
    token-locality and strictness come from FloatTok.v, the link of [num_model] with the specified
    rounding [jn_round] from FpFacts.parse_correct_partial (under its hypotheses). *)
From Rjson Require Import Fp FpSpec FpTables FpScan FpFacts FloatTok.

Definition rf64 (T : fp_tables) (data : list byte) : Z * Z * option errk :=
  match ReadFloat64_m T data with
  | Some (v, p, None) => (v, p, None)
  | Some (_, p, Some _) => (0, p, Some EInvalidNumber)
  | None => (0, 0, Some EOther)
  end.

Definition num_model (T : fp_tables) (t : list byte) : option Z :=
  match ParseJSONFloatPrefix_m T t with Some (v, _, None) => Some v | _ => None end.

Theorem float_ok_model : forall T, float_ok (rf64 T) (num_model T).
Proof.
  intros T data. cbv zeta. pose proof (ReadFloat64_tok T data) as R. cbv zeta in R. unfold rf64, num_model.
  destruct (number_tok (skipn (ws data) data)) as [n|].
  - rewrite R. destruct (ParseJSONFloatPrefix_m T (firstn n _)) as [[[v pp] [e|]]|]; cbn; eauto.
  - destruct R as (p & e & ->). eauto.
Qed.

(** C03 for the model's own float layer, for any tables *)
Theorem read_value_tree_model : forall T data, len data <= maxint ->
  match parse_ref (num_model T) data with
  | Some (t, p) =>
    ReadValue 10000 10000 harr_spec hobj_spec null_spec bool_spec append_spec unescape_spec (rf64 T) data = Some (t, p, None)
  | None =>
    exists v p e,
      ReadValue 10000 10000 harr_spec hobj_spec null_spec bool_spec append_spec unescape_spec (rf64 T) data = Some (v, p, Some e)
  end.
Proof. intros T data. apply read_value_tree. apply float_ok_model. Qed.

Theorem read_object_tree_model : forall T data, len data <= maxint ->
  match parse_typed_ref (num_model T) true data with
  | Some (t, p) =>
    ReadObject 10000 10000 harr_spec hobj_spec null_spec bool_spec append_spec unescape_spec (rf64 T) data = Some (t, p, None)
  | None =>
    exists v p e,
      ReadObject 10000 10000 harr_spec hobj_spec null_spec bool_spec append_spec unescape_spec (rf64 T) data = Some (v, p, Some e)
  end.
Proof. intros T data. apply read_object_tree. apply float_ok_model. Qed.

Theorem read_array_tree_model : forall T data, len data <= maxint ->
  match parse_typed_ref (num_model T) false data with
  | Some (t, p) =>
    ReadArray 10000 10000 harr_spec hobj_spec null_spec bool_spec append_spec unescape_spec (rf64 T) data = Some (t, p, None)
  | None =>
    exists v p e,
      ReadArray 10000 10000 harr_spec hobj_spec null_spec bool_spec append_spec unescape_spec (rf64 T) data = Some (v, p, Some e)
  end.
Proof. intros T data. apply read_array_tree. apply float_ok_model. Qed.

(** the value [num_model] assigns to a literal is the specified rounding, under the hypotheses of
    FpFacts.parse_correct_partial (exponent of at most 5 significant digits, at most 800 significant
    digits, a slow path that drops no non-zero digit): the bits of round-to-nearest-even, or no value
    when the rounding overflows *)
Corollary num_model_spec : forall T j v n err,
  tables_ok T -> jn_wf j = true -> FpScan.exp_small j ->
  len (strip0 (j_int j ++ jn_frac_digits j)) <= 800 ->
  (fast_path T (readFloat_m (jn_bytes j)) = None -> slow_ok T (jn_bytes j) = true) ->
  ParseJSONFloatPrefix_m T (jn_bytes j) = Some (v, n, err) ->
  num_model T (jn_bytes j) = if snd (jn_round j) then None else Some (fst (jn_round j)).
Proof.
  intros T j v n err HT Hwf Hes H800 Hslow P.
  pose proof (parse_correct_partial T j [] v n err HT Hwf Hes I H800) as C. rewrite app_nil_r in C.
  destruct (C Hslow P) as [_ R]. unfold num_model. rewrite P. unfold parse_result_ok in R.
  destruct (snd (jn_round j)).
  - destruct R as [_ ->]. reflexivity.
  - destruct R as [-> ->]. reflexivity.
Qed.
Print Assumptions float_ok_model.
Print Assumptions read_value_tree_model.
Print Assumptions num_model_spec.

(** an instance with the model's float layer: small integers take the exact path, which needs no table
    entry, so empty tables do.  [1,{"a":-3}] : 1.0 = 0x3FF0000000000000, -3.0 = 0xC008000000000000 *)
Definition T0 : fp_tables :=
  {| t_pow10 := []; t_minexp10 := -348; t_maxexp10 := 347; t_f64pow10 := []; t_powtab := []; t_leftcheats := [];
     t_mantbits := 52; t_expbits := 11; t_bias := -1023 |}.
Definition doc19 := s2b [91;49;44;123;34;97;34;58;45;51;125;93].
Example read_value_tree_model_ex :
  parse_ref (num_model T0) doc19 = Some (JArr [JNum 4607182418800017408; JObj [([x61], JNum 13837309855095848960)]], 12) /\
  RV (rf64 T0) doc19 = Some (JArr [JNum 4607182418800017408; JObj [([x61], JNum 13837309855095848960)]], 12, None).
Proof.
  assert (P : parse_ref (num_model T0) doc19 =
              Some (JArr [JNum 4607182418800017408; JObj [([x61], JNum 13837309855095848960)]], 12)) by (vm_compute; reflexivity).
  split; [exact P|].
  pose proof (read_value_tree_model T0 doc19 ltac:(vm_compute; discriminate)) as T. rewrite P in T. exact T.
Qed.
Example read_value_tree_model_ex_compute :
  RV (rf64 T0) doc19 = Some (JArr [JNum 4607182418800017408; JObj [([x61], JNum 13837309855095848960)]], 12, None).
Proof. vm_compute. reflexivity. Qed.
Print Assumptions pspec_all.
Print Assumptions parse_ref_skip.
Print Assumptions read_value_total.
Print Assumptions read_object_tree_model.
Print Assumptions read_array_tree_model.
