(** Property C17 for the tree helpers StdLibCompatibleValue / Slice / Map, modelled as
    [ValueReader.compat_tree fuel v]: for trees of nesting depth at most [fuel],
    - every string leaf and every object key of the result is valid UTF-8 ([compat_tree_valid]);
    - the result is the structural map of the Table 3-7 sanitiser over all strings and keys, objects
      being rebuilt with [obj_set] in member order, so that of two keys that collide after replacement
      the later one provides the value and the earlier one the position ([compat_tree_spec]);
      numbers, booleans and null are unchanged;
    - a tree whose strings and keys are valid UTF-8 and whose objects have no duplicate keys is
      unchanged ([compat_tree_id], for every fuel);
    - the function is idempotent ([compat_tree_idempotent]); objects built by [obj_set] have no
      duplicate keys ([obj_set_nodup], [compat_tree_nodup]). *)
From Coq Require Import List ZArith Bool Lia.
From Coq Require Import Strings.Byte.
From Rjson Require Import Base Helpers Compat CompatFacts ValueReader.
Import ListNotations.

(** * 1. Definitions *)

(** nesting depth: the fuel [compat_tree] needs (a string needs one step, scalars none) *)
Fixpoint jv_depth (v : jv) : nat :=
  match v with
  | JStr _ => 1
  | JArr l => S (list_max (map jv_depth l))
  | JObj m => S (list_max (map (fun kv => jv_depth (snd kv)) m))
  | _ => 0
  end.

(** Go map assignment of the members in order, from the empty map *)
Definition rebuild (ms : list (list byte * jv)) : list (list byte * jv) :=
  fold_left (fun acc kv => obj_set acc (fst kv) (snd kv)) ms [].

(** [g] applied to every string leaf and every object key; objects rebuilt by assignment in member
    order (last value wins on colliding keys); everything else unchanged *)
Fixpoint jv_map (g : list byte -> list byte) (v : jv) : jv :=
  match v with
  | JStr s => JStr (g s)
  | JArr l => JArr (map (jv_map g) l)
  | JObj m => JObj (rebuild (map (fun kv => (g (fst kv), jv_map g (snd kv))) m))
  | other => other
  end.

(** [P] holds of every string leaf and every object key *)
Fixpoint jv_all (P : list byte -> bool) (v : jv) : bool :=
  match v with
  | JStr s => P s
  | JArr l => forallb (jv_all P) l
  | JObj m => forallb (fun kv => P (fst kv) && jv_all P (snd kv)) m
  | _ => true
  end.

Definition kmem (k : list byte) (ks : list (list byte)) : bool := existsb (bytes_eqb k) ks.
Fixpoint nodupb (ks : list (list byte)) : bool :=
  match ks with
  | [] => true
  | k :: r => negb (kmem k r) && nodupb r
  end.

(** no object of the tree has two equal keys *)
Fixpoint jv_nodup (v : jv) : bool :=
  match v with
  | JArr l => forallb jv_nodup l
  | JObj m => nodupb (map fst m) && forallb (fun kv => jv_nodup (snd kv)) m
  | _ => true
  end.

(** * 2. Keys and [obj_set] *)

Lemma bytes_eqb_sym : forall a b, bytes_eqb a b = bytes_eqb b a.
Proof. induction a as [|x a IH]; intros [|y b]; cbn; auto. rewrite Z.eqb_sym, IH. reflexivity. Qed.

Lemma bytes_eqb_eq : forall a b, bytes_eqb a b = true <-> a = b.
Proof.
  induction a as [|x a IH]; intros [|y b]; cbn; split; intros H; try discriminate; auto.
  - apply andb_true_iff in H. destruct H as [H1 H2]. apply Z.eqb_eq in H1. apply bz_inj in H1.
    apply IH in H2. subst. reflexivity.
  - inversion H; subst. rewrite Z.eqb_refl. cbn. apply IH. reflexivity.
Qed.

Lemma kmem_app : forall k a b, kmem k (a ++ b) = kmem k a || kmem k b.
Proof. intros. unfold kmem. apply existsb_app. Qed.

(** assigning a key that is not there appends the member *)
Lemma obj_set_new : forall acc k v, kmem k (map fst acc) = false -> obj_set acc k v = acc ++ [(k, v)].
Proof.
  induction acc as [|[k' v'] r IH]; intros k v H; [reflexivity|].
  cbn in H. apply orb_false_iff in H. destruct H as [H1 H2]. cbn [obj_set app]. rewrite H1, (IH k v H2). reflexivity.
Qed.

(** the keys after an assignment: unchanged when the key is there, one more at the end otherwise *)
Lemma obj_set_keys : forall acc k v,
  map fst (obj_set acc k v) = if kmem k (map fst acc) then map fst acc else map fst acc ++ [k].
Proof.
  induction acc as [|[k' v'] r IH]; intros k v; [reflexivity|].
  cbn [obj_set map fst kmem existsb]. destruct (bytes_eqb k k') eqn:E; cbn [orb]; [reflexivity|].
  cbn [map fst]. rewrite IH. fold (kmem k (map fst r)). destruct (kmem k (map fst r)); reflexivity.
Qed.

Lemma nodupb_snoc : forall ks k, nodupb ks = true -> kmem k ks = false -> nodupb (ks ++ [k]) = true.
Proof.
  induction ks as [|x r IH]; intros k N M; [reflexivity|].
  cbn in N, M. apply andb_true_iff in N. destruct N as [N1 N2]. apply orb_false_iff in M. destruct M as [M1 M2].
  cbn [app nodupb]. rewrite kmem_app. apply negb_true_iff in N1. rewrite N1. cbn [kmem existsb].
  rewrite bytes_eqb_sym, M1. cbn. apply IH; assumption.
Qed.

(** objects built by [obj_set] have no duplicate keys *)
Lemma obj_set_nodup : forall acc k v, nodupb (map fst acc) = true -> nodupb (map fst (obj_set acc k v)) = true.
Proof.
  intros acc k v N. rewrite obj_set_keys. destruct (kmem k (map fst acc)) eqn:M; [exact N|].
  apply nodupb_snoc; assumption.
Qed.

Lemma fold_obj_set_nodup : forall {A} (gk : A -> list byte) (gv : A -> jv) m acc,
  nodupb (map fst acc) = true ->
  nodupb (map fst (fold_left (fun acc x => obj_set acc (gk x) (gv x)) m acc)) = true.
Proof.
  intros A gk gv. induction m as [|x r IH]; intros acc N; [exact N|].
  cbn [fold_left]. apply IH. apply obj_set_nodup. exact N.
Qed.

Corollary rebuild_nodup : forall ms, nodupb (map fst (rebuild ms)) = true.
Proof. intros ms. unfold rebuild. apply (fold_obj_set_nodup fst snd). reflexivity. Qed.

(** a property of keys and values is kept by assignments *)
Lemma obj_set_forall : forall (pk : list byte -> bool) (pv : jv -> bool) acc k v,
  forallb (fun kv => pk (fst kv) && pv (snd kv)) acc = true -> pk k = true -> pv v = true ->
  forallb (fun kv => pk (fst kv) && pv (snd kv)) (obj_set acc k v) = true.
Proof.
  intros pk pv. induction acc as [|[k' v'] r IH]; intros k v F PK PV.
  - cbn. rewrite PK, PV. reflexivity.
  - cbn [forallb] in F. apply andb_true_iff in F. destruct F as [F1 F2]. cbn [obj_set].
    destruct (bytes_eqb k k').
    + cbn [forallb fst snd]. cbn [fst snd] in F1. apply andb_true_iff in F1. destruct F1 as [A _].
      rewrite A, PV, F2. reflexivity.
    + cbn [forallb]. rewrite F1, (IH k v F2 PK PV). reflexivity.
Qed.

Lemma fold_obj_set_forall : forall {A} (pk : list byte -> bool) (pv : jv -> bool) (gk : A -> list byte) (gv : A -> jv) m acc,
  forallb (fun kv => pk (fst kv) && pv (snd kv)) acc = true ->
  (forall x, In x m -> pk (gk x) = true /\ pv (gv x) = true) ->
  forallb (fun kv => pk (fst kv) && pv (snd kv)) (fold_left (fun acc x => obj_set acc (gk x) (gv x)) m acc) = true.
Proof.
  intros A pk pv gk gv. induction m as [|x r IH]; intros acc F H; [exact F|].
  cbn [fold_left]. apply IH.
  - destruct (H x (or_introl eq_refl)) as [H1 H2]. apply obj_set_forall; assumption.
  - intros y IN. apply H. right. exact IN.
Qed.

Lemma nodupb_app_notin : forall a k r, nodupb (a ++ k :: r) = true -> kmem k a = false.
Proof.
  induction a as [|x a IH]; intros k r N; [reflexivity|].
  cbn [app nodupb] in N. apply andb_true_iff in N. destruct N as [N1 N2]. apply negb_true_iff in N1.
  rewrite kmem_app in N1. apply orb_false_iff in N1. destruct N1 as [_ N1]. cbn in N1. apply orb_false_iff in N1.
  destruct N1 as [N1 _]. cbn [kmem existsb]. rewrite bytes_eqb_sym, N1. cbn. apply (IH k r N2).
Qed.

(** assigning members with pairwise different keys, none of them present, appends them *)
Lemma fold_obj_set_append : forall m acc, nodupb (map fst acc ++ map fst m) = true ->
  fold_left (fun acc kv => obj_set acc (fst kv) (snd kv)) m acc = acc ++ m.
Proof.
  induction m as [|[k v] r IH]; intros acc N; [rewrite app_nil_r; reflexivity|].
  cbn [fold_left fst snd]. cbn [map fst] in N.
  rewrite (obj_set_new acc k v (nodupb_app_notin _ _ _ N)).
  rewrite IH; [rewrite <- app_assoc; reflexivity|].
  rewrite map_app. cbn [map fst]. rewrite <- app_assoc. exact N.
Qed.

Corollary rebuild_id : forall m, nodupb (map fst m) = true -> rebuild m = m.
Proof. intros m N. unfold rebuild. rewrite fold_obj_set_append; [reflexivity|exact N]. Qed.

(** * 3. List plumbing *)
Lemma fold_left_map : forall {A B C} (G : A -> C -> A) (h : B -> C) m acc,
  fold_left G (map h m) acc = fold_left (fun a x => G a (h x)) m acc.
Proof. intros A B C G h. induction m as [|x r IH]; intros acc; [reflexivity|]. cbn. apply IH. Qed.

Lemma fold_left_ext_in : forall {A B} (F G : A -> B -> A) m acc,
  (forall a x, In x m -> F a x = G a x) -> fold_left F m acc = fold_left G m acc.
Proof.
  intros A B F G. induction m as [|x r IH]; intros acc H; [reflexivity|].
  cbn. rewrite (H acc x (or_introl eq_refl)). apply IH. intros a y IN. apply H. right. exact IN.
Qed.

Lemma depth_arr : forall l f x, jv_depth (JArr l) <= S f -> In x l -> jv_depth x <= f.
Proof.
  intros l f x D IN. cbn [jv_depth] in D. apply le_S_n in D. apply list_max_le in D.
  rewrite Forall_forall in D. apply D. apply in_map. exact IN.
Qed.

Lemma depth_obj : forall m f kv, jv_depth (JObj m) <= S f -> In kv m -> jv_depth (snd kv) <= f.
Proof.
  intros m f kv D IN. cbn [jv_depth] in D. apply le_S_n in D. apply list_max_le in D.
  rewrite Forall_forall in D. apply D. apply (in_map (fun kv => jv_depth (snd kv))). exact IN.
Qed.

(** * 4. The theorems *)

(** C17 (2): within its fuel, [compat_tree] is the structural map of the sanitiser: strings and keys
    are replaced by [sanitize], objects are rebuilt by assignment in member order *)
Theorem compat_tree_spec : forall fuel v, jv_depth v <= fuel -> compat_tree fuel v = jv_map sanitize v.
Proof.
  induction fuel as [|f IH]; intros v D.
  - destruct v; cbn in D; try lia; reflexivity.
  - destruct v as [| | |s|l|m]; try reflexivity.
    + cbn. rewrite compat_spec. reflexivity.
    + cbn [compat_tree jv_map]. f_equal. apply map_ext_in. intros x IN. apply IH. eapply depth_arr; eauto.
    + cbn [compat_tree jv_map]. f_equal. unfold rebuild. rewrite fold_left_map. apply fold_left_ext_in.
      intros a kv IN. cbn [fst snd]. rewrite compat_spec, (IH (snd kv)); [reflexivity|]. eapply depth_obj; eauto.
Qed.

(** numbers, booleans and null are unchanged, for every fuel *)
Theorem compat_tree_scalar : forall fuel v,
  match v with JNull | JBool _ | JNum _ => compat_tree fuel v = v | _ => True end.
Proof. intros [|f] v; destruct v; try exact I; reflexivity. Qed.

(** the structural map of a function that produces valid UTF-8 has only valid strings and keys *)
Lemma jv_map_all : forall (g : list byte -> list byte) (P : list byte -> bool), (forall s, P (g s) = true) ->
  forall n v, jv_depth v <= n -> jv_all P (jv_map g v) = true.
Proof.
  intros g P GP. induction n as [|n IH]; intros v D.
  - destruct v; cbn in D; try lia; reflexivity.
  - destruct v as [| | |s|l|m]; try reflexivity.
    + cbn. apply GP.
    + cbn [jv_map jv_all]. rewrite forallb_forall. intros y IN. apply in_map_iff in IN. destruct IN as (x & <- & IN).
      apply IH. eapply depth_arr; eauto.
    + cbn [jv_map jv_all]. unfold rebuild. rewrite fold_left_map.
      apply (fold_obj_set_forall P (jv_all P)); [reflexivity|].
      intros kv IN. cbn [fst snd]. split; [apply GP|]. apply IH. eapply depth_obj; eauto.
Qed.

(** C17 (1): every string leaf and every object key of the result is valid UTF-8 *)
Theorem compat_tree_valid : forall fuel v, jv_depth v <= fuel -> jv_all valid_utf8 (compat_tree fuel v) = true.
Proof.
  intros fuel v D. rewrite (compat_tree_spec fuel v D). apply (jv_map_all sanitize valid_utf8 sanitize_valid fuel v D).
Qed.

(** the objects of the result have no duplicate keys *)
Lemma jv_map_nodup : forall (g : list byte -> list byte) n v, jv_depth v <= n -> jv_nodup (jv_map g v) = true.
Proof.
  intros g. induction n as [|n IH]; intros v D.
  - destruct v; cbn in D; try lia; reflexivity.
  - destruct v as [| | |s|l|m]; try reflexivity.
    + cbn [jv_map jv_nodup]. rewrite forallb_forall. intros y IN. apply in_map_iff in IN. destruct IN as (x & <- & IN).
      apply IH. eapply depth_arr; eauto.
    + cbn [jv_map jv_nodup]. rewrite rebuild_nodup. cbn [andb]. unfold rebuild. rewrite fold_left_map.
      pose proof (fold_obj_set_forall (fun _ => true) jv_nodup (fun kv : list byte * jv => g (fst kv))
                    (fun kv => jv_map g (snd kv)) m [] eq_refl) as F.
      cbn [andb] in F. apply F. intros kv IN. split; [reflexivity|]. apply IH. eapply depth_obj; eauto.
Qed.

Theorem compat_tree_nodup : forall fuel v, jv_depth v <= fuel -> jv_nodup (compat_tree fuel v) = true.
Proof. intros fuel v D. rewrite (compat_tree_spec fuel v D). apply (jv_map_nodup sanitize fuel v D). Qed.

(** C17 (3): a tree whose strings and keys are valid UTF-8 and whose objects have no duplicate keys is
    returned unchanged (whatever the fuel) *)
Theorem compat_tree_id : forall fuel v, jv_all valid_utf8 v = true -> jv_nodup v = true -> compat_tree fuel v = v.
Proof.
  induction fuel as [|f IH]; intros v V N; [reflexivity|].
  destruct v as [| | |s|l|m]; try reflexivity.
  - cbn in *. rewrite (compat_valid_id s V). reflexivity.
  - cbn [compat_tree]. f_equal. cbn [jv_all jv_nodup] in V, N. rewrite forallb_forall in V, N.
    rewrite <- (map_id l) at 2. apply map_ext_in. intros x IN. apply IH; auto.
  - cbn [compat_tree]. f_equal. cbn [jv_all jv_nodup] in V, N. apply andb_true_iff in N. destruct N as [N1 N2].
    rewrite forallb_forall in V, N2.
    rewrite (fold_left_ext_in _ (fun acc kv => obj_set acc (fst kv) (snd kv))).
    + apply rebuild_id. exact N1.
    + intros a kv IN. specialize (V kv IN). apply andb_true_iff in V. destruct V as [V1 V2].
      rewrite (compat_valid_id _ V1), (IH (snd kv) V2 (N2 kv IN)). reflexivity.
Qed.

(** C17 (4): idempotence *)
Theorem compat_tree_idempotent : forall fuel v, jv_depth v <= fuel ->
  compat_tree fuel (compat_tree fuel v) = compat_tree fuel v.
Proof.
  intros fuel v D. apply compat_tree_id; [apply compat_tree_valid|apply compat_tree_nodup]; exact D.
Qed.

(** the depth of the result is not larger, so any fuel that suffices for [v] can be used again *)
Corollary compat_tree_idempotent_any : forall fuel fuel' v, jv_depth v <= fuel ->
  compat_tree fuel' (compat_tree fuel v) = compat_tree fuel v.
Proof.
  intros fuel fuel' v D. apply compat_tree_id; [apply compat_tree_valid|apply compat_tree_nodup]; exact D.
Qed.

(** * 5. Examples *)
Definition k_bad : list byte := [xff].                      (* an invalid byte *)
Definition k_fffd : list byte := [xef; xbf; xbd].           (* U+FFFD, valid *)

(** {"\xff": 1, "\uFFFD": 2, "s": ["a\xc0"]} : the first key becomes U+FFFD and collides with the second;
    the position is the first one's, the value the last one's; the string in the array is repaired *)
Example compat_tree_collision_ex :
  compat_tree 3 (JObj [(k_bad, JNum 1); (k_fffd, JNum 2); ([x73], JArr [JStr [x61; xc0]])]) =
  JObj [(k_fffd, JNum 2); ([x73], JArr [JStr [x61; xef; xbf; xbd]])].
Proof. vm_compute. reflexivity. Qed.

(** the other order: the valid key first, the invalid one last: again the last value wins *)
Example compat_tree_collision_ex2 :
  compat_tree 2 (JObj [(k_fffd, JNum 2); (k_bad, JNum 1)]) = JObj [(k_fffd, JNum 1)] /\
  jv_map sanitize (JObj [(k_fffd, JNum 2); (k_bad, JNum 1)]) = JObj [(k_fffd, JNum 1)] /\
  jv_depth (JObj [(k_bad, JNum 1); (k_fffd, JNum 2); ([x73], JArr [JStr [x61; xc0]])]) = 3 /\
  jv_all valid_utf8 (JObj [(k_fffd, JNum 1)]) = true /\ jv_nodup (JObj [(k_fffd, JNum 2); (k_fffd, JNum 1)]) = false.
Proof. vm_compute. repeat split; reflexivity. Qed.

(** with too little fuel the deep part is left alone (why the theorems carry the depth bound) *)
Example compat_tree_fuel_ex :
  compat_tree 1 (JArr [JStr [xff]]) = JArr [JStr [xff]] /\ compat_tree 2 (JArr [JStr [xff]]) = JArr [JStr k_fffd].
Proof. vm_compute. split; reflexivity. Qed.

Print Assumptions compat_tree_spec.
Print Assumptions compat_tree_scalar.
Print Assumptions compat_tree_valid.
Print Assumptions compat_tree_nodup.
Print Assumptions obj_set_nodup.
Print Assumptions compat_tree_id.
Print Assumptions compat_tree_idempotent.
Print Assumptions compat_tree_idempotent_any.
