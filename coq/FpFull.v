(** FpFull.v -- the slow (decimal) path of the float parser is correct also when its shifts
    drop digits: floatBits returns round_ne of the exact value.  This removes the hypothesis
    [slow_ok] ("the run dropped no non-zero digit") of FpFacts.parse_correct_partial.

    Idea.  Every truncating step stores the exact result floored to 800 significant digits
    (FpDecTrunc.v) and sets the trunc flag iff something non-zero was dropped.  Through a run,
    the stored decimal [a] and the exact value x = x0 * 2^-e satisfy [FpDecInv.Inv a x G]:
    dq a <= x, equality iff the flag is clear, and no point of the dyadic grid of mesh 2^-G
    lies in (dq a, x].  A truncation to the decimal grid of mesh 10^(dp-800) preserves this as
    long as G <= 800 - dp ([grid_sub]); [stage_bound] shows that G = A + e qualifies at every
    stage of floatBits for grid constants A up to about 490 - lam resp. (7987 - 3 lam)/10,
    lam the binary order of magnitude of x0 (this is where 800 > 1075 log10 5 + 17 enters).
    With A = 1 - lam the normalised decimal in [1/2, 1) pins down lam ([stage2_ilog]); with
    A = 53 - lam (normal) or 1075 (subnormal) the last decimal has G = 1, i.e. no half-integer
    between it and the exact scaled value, so RoundedInteger with the flag as sticky bit
    returns the correctly rounded integer ([Inv_round]).

    Main results (all closed under the global context):
      [floatBits_tr_inv]  general form: the initial decimal may itself be a floor of x0;
      [floatBits_full]    exact initial decimal: floatBits = round_ne of its value;
      [parse_correct_800], [ReadFloat64_correct_800]  end to end, at most 800 significant digits.
    FpFull2.v extends this to literals whose integer part has at most 800 significant digits. *)
From Coq Require Import List ZArith Lia Bool QArith Qpower Lqa.
From Coq Require Import Strings.Byte.
From Rjson Require Import Base BaseFacts Helpers Round Fp FpSpec FpTables FpDecDefs FpDecBits FpDecInv FpDecRound.
From Rjson Require FpDecShift FpDecTrunc FpScan FpExact FpFacts.
Import ListNotations.
Local Open Scope Z_scope.

(** * Fractions and Q *)
Lemma cross_le s x N D n d : (s * inject_Z D == inject_Z N)%Q -> (x * inject_Z d == inject_Z n)%Q ->
  0 < D -> 0 < d -> (s <= x)%Q -> N * d <= n * D.
Proof.
  intros Es Ex HD Hd H. apply izle_bw. rewrite !inject_Z_mult, <- Es, <- Ex.
  assert (0 < inject_Z D)%Q by (change 0%Q with (inject_Z 0); apply izlt_fw; lia).
  assert (0 < inject_Z d)%Q by (change 0%Q with (inject_Z 0); apply izlt_fw; lia).
  setoid_replace (s * inject_Z D * inject_Z d)%Q with (s * (inject_Z D * inject_Z d))%Q by ring.
  setoid_replace (x * inject_Z d * inject_Z D)%Q with (x * (inject_Z D * inject_Z d))%Q by ring.
  apply Qmul_le_r; [|exact H]. apply Qlt_le_weak. apply Qmult_lt_0_compat; assumption.
Qed.

Lemma cross_lt s x N D n d : (s * inject_Z D == inject_Z N)%Q -> (x * inject_Z d == inject_Z n)%Q ->
  0 < D -> 0 < d -> (s < x)%Q -> N * d < n * D.
Proof.
  intros Es Ex HD Hd H. apply izlt_bw. rewrite !inject_Z_mult, <- Es, <- Ex.
  assert (0 < inject_Z D)%Q by (change 0%Q with (inject_Z 0); apply izlt_fw; lia).
  assert (0 < inject_Z d)%Q by (change 0%Q with (inject_Z 0); apply izlt_fw; lia).
  setoid_replace (s * inject_Z D * inject_Z d)%Q with (s * (inject_Z D * inject_Z d))%Q by ring.
  setoid_replace (x * inject_Z d * inject_Z D)%Q with (x * (inject_Z D * inject_Z d))%Q by ring.
  apply Qmul_lt_r; [|exact H]. apply Qmult_lt_0_compat; assumption.
Qed.

Lemma cross_eq s x N D n d : (s * inject_Z D == inject_Z N)%Q -> (x * inject_Z d == inject_Z n)%Q ->
  0 < D -> 0 < d -> (s == x)%Q -> N * d = n * D.
Proof.
  intros Es Ex HD Hd H.
  assert (N * d <= n * D) by (apply (cross_le s x); auto; rewrite H; apply Qle_refl).
  assert (n * D <= N * d) by (apply (cross_le x s); auto; rewrite H; apply Qle_refl).
  lia.
Qed.

Lemma cross_le_inv s x N D n d : (s * inject_Z D == inject_Z N)%Q -> (x * inject_Z d == inject_Z n)%Q ->
  0 < D -> 0 < d -> N * d <= n * D -> (s <= x)%Q.
Proof.
  intros Es Ex HD Hd H. destruct (Qlt_le_dec x s) as [G|]; [|assumption]. exfalso.
  pose proof (cross_lt x s n d N D Ex Es Hd HD G). lia.
Qed.

Lemma cross_lt_inv s x N D n d : (s * inject_Z D == inject_Z N)%Q -> (x * inject_Z d == inject_Z n)%Q ->
  0 < D -> 0 < d -> N * d < n * D -> (s < x)%Q.
Proof.
  intros Es Ex HD Hd H. destruct (Qlt_le_dec s x) as [|G]; [assumption|]. exfalso.
  pose proof (cross_le x s n d N D Ex Es Hd HD G). lia.
Qed.

(** * RoundedInteger under the invariant *)
Lemma Inv_round a x G n d :
  dec_wf a -> dec_trimmed a -> d_dp a <= 19 -> Inv a x G -> 1 <= G -> 0 < d ->
  (x * inject_Z d == inject_Z n)%Q ->
  RoundedInteger_m a = rne_div n d.
Proof.
  intros Hwf Htrim Hdp (I1 & I2 & I3 & I4) HG Hd Ex.
  pose proof (dq_frac a) as Es. pose proof (dec_den_pos a) as HD.
  set (N := fst (dec_frac a)) in *. set (D := snd (dec_frac a)) in *.
  assert (E : RoundedInteger_m a = if d_trunc a then rhu_div N D else rne_div N D).
  { destruct (d_trunc a) eqn:Et.
    - apply RoundedInteger_trunc; assumption.
    - apply RoundedInteger_spec; assumption. }
  rewrite E. apply sticky_round; try assumption.
  - apply (cross_le (dq a) x); assumption.
  - intros Ht. apply (cross_eq (dq a) x); auto.
  - intros Ht. apply (cross_lt (dq a) x); auto.
  - intros h Hh.
    assert (H2 : (inject_Z h <= x * p2 1)%Q).
    { apply (cross_le_inv (inject_Z h) (x * p2 1) h 1 (2 * n) d).
      - rewrite Qmult_1_r. reflexivity.
      - rewrite inject_Z_mult, <- Ex. change (p2 1) with (inject_Z 2). ring.
      - lia.
      - exact Hd.
      - lia. }
    assert (H3 : (inject_Z (h * 2 ^ (G - 1)) <= x * p2 G)%Q).
    { rewrite inject_Z_mult, <- p2_Z by lia. replace G with (1 + (G - 1)) at 2 by lia. rewrite p2_add.
      setoid_replace (x * (p2 1 * p2 (G - 1)))%Q with (x * p2 1 * p2 (G - 1))%Q by ring.
      apply Qmul_le_r; [apply Qlt_le_weak, p2_pos|exact H2]. }
    apply I4 in H3. rewrite inject_Z_mult, <- p2_Z in H3 by lia.
    replace G with (1 + (G - 1)) in H3 at 2 by lia. rewrite p2_add in H3.
    assert (H4 : (inject_Z h <= dq a * p2 1)%Q).
    { apply (Qmul_le_r_inv _ _ (p2 (G - 1))); [apply p2_pos|].
      eapply Qle_trans; [exact H3|]. apply Qle_lteq. right. ring. }
    pose proof (cross_le (inject_Z h) (dq a * p2 1) h 1 (2 * N) D) as C.
    assert (h * D <= 2 * N * 1); [|lia]. apply C; try assumption; try lia.
    + rewrite Qmult_1_r. reflexivity.
    + rewrite inject_Z_mult, <- Es. change (p2 1) with (inject_Z 2). ring.
Qed.

(** binary order of magnitude, in Q *)
Lemma ilog2_Q N D e x : 0 < D -> is_ilog2 N D e -> (x * inject_Z D == inject_Z N)%Q ->
  (p2 e <= x /\ x < p2 (e + 1))%Q.
Proof.
  intros HD [H1 H2] Ex.
  assert (PD : (0 < inject_Z D)%Q) by (change 0%Q with (inject_Z 0); apply izlt_fw; lia).
  assert (PP : (0 < inject_Z (P2 (- e)))%Q) by (change 0%Q with (inject_Z 0); apply izlt_fw; apply P2_pos).
  split.
  - apply (Qmul_le_r_inv _ _ (inject_Z D * inject_Z (P2 (- e)))); [apply Qmult_lt_0_compat; assumption|].
    setoid_replace (x * (inject_Z D * inject_Z (P2 (- e))))%Q with ((x * inject_Z D) * inject_Z (P2 (- e)))%Q by ring.
    setoid_replace (p2 e * (inject_Z D * inject_Z (P2 (- e))))%Q with (inject_Z D * (p2 e * inject_Z (P2 (- e))))%Q by ring.
    rewrite Ex, <- P2_Q, <- !inject_Z_mult. apply izle_fw. exact H1.
  - apply (Qmul_lt_r_inv _ _ (inject_Z D * inject_Z (P2 (- e)))); [apply Qmult_lt_0_compat; assumption|].
    setoid_replace (x * (inject_Z D * inject_Z (P2 (- e))))%Q with ((x * inject_Z D) * inject_Z (P2 (- e)))%Q by ring.
    rewrite p2_add. change (p2 1) with (inject_Z 2).
    setoid_replace (p2 e * inject_Z 2 * (inject_Z D * inject_Z (P2 (- e))))%Q
      with (inject_Z 2 * inject_Z D * (p2 e * inject_Z (P2 (- e))))%Q by ring.
    rewrite Ex, <- P2_Q, <- !inject_Z_mult. apply izlt_fw. exact H2.
Qed.

Lemma powtab_n_le T i : tables_ok T -> 0 <= i -> powtab_n T i <= 27.
Proof.
  intros HT Hi. unfold powtab_n. rewrite (tf_ptlen T (tables_ok_facts T HT)).
  destruct (Z.leb_spec 9 i) as [H9|H9]; [lia|].
  pose proof (powtab_spec T i HT ltac:(lia)) as H. cbv zeta in H.
  set (p := nth (Z.to_nat i) (t_powtab T) 0) in *.
  destruct (Z.eqb_spec i 0) as [E0|N0]; [lia|].
  destruct (Z_le_gt_dec p 27) as [|G]; [assumption|exfalso].
  assert (10 ^ i <= 10 ^ 8) by (apply pow10_le; lia).
  assert (2 ^ 28 <= 2 ^ p) by (apply Z.pow_le_mono_r; lia).
  assert (10 ^ 8 < 2 ^ 28) by reflexivity. lia.
Qed.

Lemma frac_lt_one a n : 0 <= n -> fst (dec_frac a) * 2 ^ n < snd (dec_frac a) -> (dq a * p2 n < 1)%Q.
Proof.
  intros Hn H. pose proof (dq_frac a) as Es. pose proof (dec_den_pos a) as HD.
  apply (cross_lt_inv (dq a * p2 n) 1 (fst (dec_frac a) * 2 ^ n) (snd (dec_frac a)) 1 1); try lia.
  - rewrite inject_Z_mult, <- Es, p2_Z by lia. ring.
  - reflexivity.
Qed.

Lemma dq_lt_dp a c : dec_wf a -> d_d a <> [] -> (dq a < p10 c)%Q -> d_dp a <= c.
Proof.
  intros Hwf Hne H. destruct (dq_bounds a Hwf Hne) as [Hlb _].
  assert (p10 (d_dp a - 1) < p10 c)%Q by lra. apply p10_lt_inv in H0. lia.
Qed.

(** * The two normalisation loops under the stage invariant *)
Section Loops.
Variable T : fp_tables.
Hypothesis HT : tables_ok T.
Variable x0 : Q.
Variable lam A : Z.
Hypothesis Hlam : (p2 lam <= x0 /\ x0 < p2 (lam + 1))%Q.
Hypothesis HA : A <= 490 - lam /\ 10 * A <= 7987 - 3 * lam.

Lemma fb_down_St : forall fuel a e a' e',
  fb_down T fuel a e = Some (a', e') -> St x0 A a e ->
  St x0 A a' e' /\ d_dp a' <= 0 /\ d_neg a' = d_neg a.
Proof.
  induction fuel as [|f IH]; intros a e a' e' H HS; cbn [fb_down] in H;
    destruct (Z.ltb_spec 0 (d_dp a)) as [Hdp|Hdp].
  - discriminate.
  - inversion H; subst. auto.
  - destruct (Shift_m T a (- powtab_n T (d_dp a))) as [a1|] eqn:E; cbn [obind] in H; [|discriminate].
    destruct (powtab_n_spec T (d_dp a) HT ltac:(lia)) as (Hn0 & _ & Hn2). specialize (Hn2 ltac:(lia)).
    pose proof (powtab_n_le T (d_dp a) HT ltac:(lia)) as Hn27.
    set (n := powtab_n T (d_dp a)) in *.
    pose proof HS as (Hwf & Hne & _).
    assert (Hg : (p10 (-1) <= dq a * p2 (- n))%Q).
    { destruct (dq_bounds a Hwf Hne) as [Hlb _].
      assert (Hp : (p10 (- d_dp a) <= p2 (- n))%Q).
      { apply (Qmul_le_r_inv _ _ (p10 (d_dp a) * p2 n)); [apply Qmult_lt_0_compat; [apply p10_pos|apply p2_pos]|].
        setoid_replace (p10 (- d_dp a) * (p10 (d_dp a) * p2 n))%Q with ((p10 (d_dp a) * p10 (- d_dp a)) * p2 n)%Q by ring.
        setoid_replace (p2 (- n) * (p10 (d_dp a) * p2 n))%Q with ((p2 n * p2 (- n)) * p10 (d_dp a))%Q by ring.
        rewrite p10_inv, p2_inv, !Qmult_1_l, p2_Z, p10_Z by lia. apply izle_fw. exact Hn2. }
      replace (-1) with ((d_dp a - 1) + - d_dp a) by lia. rewrite p10_add.
      eapply Qle_trans; [apply Qmul_le_r; [apply Qlt_le_weak, p10_pos|exact Hlb]|].
      rewrite !(Qmult_comm (dq a)). apply Qmul_le_r; [apply Qlt_le_weak, dq_pos; assumption|exact Hp]. }
    destruct (Shift_inv T HT x0 lam A Hlam HA a (- n) a1 e HS ltac:(lia) E ltac:(lia)
                ltac:(intros _; right; split; [lia|exact Hg])) as (HS1 & _ & Hn1 & _).
    replace (e - - n) with (e + n) in HS1 by lia.
    destruct (IH a1 (e + n) a' e' H HS1) as (R1 & R2 & R3).
    split; [exact R1|]. split; [exact R2|congruence].
  - inversion H; subst. auto.
Qed.

Lemma fb_up_St : forall fuel a e a' e',
  fb_up T fuel a e = Some (a', e') -> St x0 A a e -> d_dp a <= 0 ->
  St x0 A a' e' /\ d_dp a' = 0 /\ 5 <= dnth a' 0 /\ d_neg a' = d_neg a.
Proof.
  induction fuel as [|f IH]; intros a e a' e' H HS Hdp; cbn [fb_up] in H;
    destruct ((d_dp a <? 0) || (d_dp a =? 0) && (dnth a 0 <? 5)) eqn:C.
  - discriminate.
  - inversion H; subst. apply orb_false_iff in C as [C1 C2]. apply Z.ltb_ge in C1.
    assert (Ez : d_dp a' = 0) by lia. rewrite Ez in C2. change (0 =? 0) with true in C2. cbn [andb] in C2.
    apply Z.ltb_ge in C2. auto.
  - destruct (Shift_m T a (powtab_n T (- d_dp a))) as [a1|] eqn:E; cbn [obind] in H; [|discriminate].
    destruct (powtab_n_spec T (- d_dp a) HT ltac:(lia)) as (Hn0 & Hn1 & Hn2).
    set (n := powtab_n T (- d_dp a)) in *.
    pose proof HS as (Hwf & Hne & _).
    assert (HK : fst (dec_frac a) * 2 ^ n < snd (dec_frac a)).
    { pose proof (dec_den_pos a) as HD. pose proof (dec_num_pos a Hwf Hne) as HN.
      apply orb_true_iff in C as [C|C].
      - apply Z.ltb_lt in C. pose proof (dec_upper a (- d_dp a) Hwf ltac:(lia) ltac:(lia)) as HU.
        specialize (Hn2 ltac:(lia)). nia.
      - apply andb_true_iff in C as [C1 C2]. apply Z.eqb_eq in C1. apply Z.ltb_lt in C2.
        destruct (dec_half a Hwf Hne C1) as [HH _]. specialize (HH C2).
        rewrite Hn1 by lia. change (2 ^ 1) with 2. lia. }
    pose proof (frac_lt_one a n ltac:(lia) HK) as Hlt1.
    assert (Hg : (dq a * p2 n < p10 310)%Q).
    { assert (p10 0 <= p10 310)%Q by (apply p10_le; lia). change (p10 0) with 1%Q in H0. lra. }
    destruct (Shift_inv T HT x0 lam A Hlam HA a n a1 e HS ltac:(lia) E ltac:(intros _; exact Hg) ltac:(lia))
      as (HS1 & _ & Hn1' & Hle1).
    pose proof HS1 as (Hwf1 & Hne1 & _).
    assert (Hdp1 : d_dp a1 <= 0).
    { apply (dq_lt_dp a1 0 Hwf1 Hne1). change (p10 0) with 1%Q. lra. }
    destruct (IH a1 (e - n) a' e' H HS1 Hdp1) as (R1 & R2 & R3 & R4).
    split; [exact R1|]. split; [exact R2|]. split; [exact R3|congruence].
  - inversion H; subst. apply orb_false_iff in C as [C1 C2]. apply Z.ltb_ge in C1.
    assert (Ez : d_dp a' = 0) by lia. rewrite Ez in C2. change (0 =? 0) with true in C2. cbn [andb] in C2.
    apply Z.ltb_ge in C2. auto.
Qed.

End Loops.

(** * After the loops *)

(** with the grid constant 1 - lam the normalised decimal pins down the binary order of magnitude *)
Lemma stage2_ilog x0 lam a2 e2 :
  (p2 lam <= x0 /\ x0 < p2 (lam + 1))%Q ->
  St x0 (1 - lam) a2 e2 -> d_dp a2 = 0 -> 5 <= dnth a2 0 -> lam = e2 - 1.
Proof.
  intros [Hl1 Hl2] (Hwf & Hne & (I1 & _ & _ & I4) & _) Hdp Hd5.
  destruct (dec_half a2 Hwf Hne Hdp) as [_ Hh]. specialize (Hh Hd5).
  destruct (dq_bounds a2 Hwf Hne) as [_ Hub]. rewrite Hdp in Hub. change (p10 0) with 1%Q in Hub.
  pose proof (dq_frac a2) as Es. pose proof (dec_den_pos a2) as HD.
  assert (Hhalf : (p2 (-1) <= dq a2)%Q).
  { apply (cross_le_inv (p2 (-1)) (dq a2) 1 2 (fst (dec_frac a2)) (snd (dec_frac a2))); try lia; try assumption.
    reflexivity. }
  unfold xat in *.
  assert (Ha : e2 <= lam + 1).
  { assert (p2 (-1) < p2 (lam + 1 - e2))%Q.
    { eapply Qle_lt_trans; [exact Hhalf|]. eapply Qle_lt_trans; [exact I1|].
      replace (lam + 1 - e2) with ((lam + 1) + - e2) by lia. rewrite p2_add.
      apply Qmul_lt_r; [apply p2_pos|exact Hl2]. }
    apply p2_lt_inv in H. lia. }
  destruct (Z_le_gt_dec e2 lam) as [Hb|Hb]; [exfalso|lia].
  assert (H2 : (inject_Z 2 <= x0 * p2 (- e2) * p2 (1 - lam + e2))%Q).
  { setoid_replace (x0 * p2 (- e2) * p2 (1 - lam + e2))%Q with (x0 * p2 (1 - lam))%Q.
    2:{ rewrite <- Qmult_assoc, <- p2_add. replace (- e2 + (1 - lam + e2)) with (1 - lam) by lia. reflexivity. }
    change (inject_Z 2) with (p2 1). replace 1 with (lam + (1 - lam)) at 1 by lia. rewrite p2_add.
    apply Qmul_le_r; [apply Qlt_le_weak, p2_pos|exact Hl1]. }
  apply I4 in H2.
  assert (p2 (1 - lam + e2) <= p2 1)%Q by (apply p2_le; lia). change (p2 1) with (inject_Z 2) in H.
  pose proof (p2_pos (1 - lam + e2)).
  assert (dq a2 * p2 (1 - lam + e2) < p2 (1 - lam + e2))%Q.
  { rewrite <- (Qmult_1_l (p2 (1 - lam + e2))) at 2. apply Qmul_lt_r; assumption. }
  lra.
Qed.

(** the grid constant for the final rounding *)
Definition A2 (lam : Z) : Z := if -1022 <=? lam then 53 - lam else 1075.

Lemma A2_ok lam : A2 lam <= 490 - lam /\ 10 * A2 lam <= 7987 - 3 * lam.
Proof. unfold A2. destruct (Z.leb_spec (-1022) lam); lia. Qed.

Lemma xat_frac x0 N0 D0 e : (x0 * inject_Z D0 == inject_Z N0)%Q ->
  (xat x0 e * inject_Z (D0 * P2 e) == inject_Z (N0 * P2 (- e)))%Q.
Proof.
  intros Ex. unfold xat. rewrite !inject_Z_mult, <- Ex, (P2_Q (- e)). rewrite Z.opp_involutive. ring.
Qed.

(** rounding and assembly, given that RoundedInteger returned the correctly rounded integer
    (copy of FpDecBits.fb_final_ok with the hypothesis on the decimal replaced) *)
Lemma fb_final_core T neg a E N0 D0 e b ovf tr :
  tables_ok T -> 0 < N0 -> 0 < D0 -> is_ilog2 N0 D0 e -> E = Z.max e (-1022) -> E <= 1023 ->
  RoundedInteger_m a = rne_div (N0 * P2 (52 - E)) (D0 * P2 (E - 52)) ->
  fb_final T neg a E = Some (b, ovf, tr) -> (b, ovf) = round_ne neg N0 D0.
Proof.
  intros HT HN0 HD0 Hlog HE HE1 HR H.
  destruct (scaled_bounds N0 D0 e HN0 HD0 Hlog) as (Hd & Hn & Hu & Hnorm & Hsub).
  cbv zeta in Hd, Hn, Hu, Hnorm, Hsub. rewrite <- HE in *.
  set (n := N0 * P2 (52 - E)) in *. set (d := D0 * P2 (E - 52)) in *.
  pose proof (rne_div_spec n d Hd) as Hrne.
  assert (HM : 0 <= rne_div n d <= two53) by (apply rne_div_bounds; [assumption|lia]).
  assert (HMn : -1022 <= e -> two52 <= rne_div n d).
  { intros G. apply (rne_div_bounds n d two52 two53 Hd). split; [auto|lia]. }
  assert (HMs : e < -1022 -> rne_div n d <= two52).
  { intros G. apply (rne_div_bounds n d 0 two52 Hd). specialize (Hsub G). lia. }
  set (M := rne_div n d) in *.
  assert (Hrp : round_pos N0 D0 = (E + 1022) * two52 + M).
  { rewrite HE. apply (round_pos_eq N0 D0 e M HN0 HD0 Hlog). cbv zeta. rewrite <- HE. exact Hrne. }
  rewrite round_ne_pos, Hrp by assumption.
  assert (HEl : -1022 <= E) by lia.
  destruct (tables_ok_facts T HT) as [_ _ _ _ _ _ _ _ _ Hmb Heb Hbias].
  unfold fb_final in H. rewrite HR, Hmb, Heb, Hbias in H.
  change (2 * 2 ^ 52) with two53 in H. change (2 ^ 52) with two52 in H. change (2 ^ 11 - 1) with 2047 in H.
  assert (T52 : two53 = 2 * two52) by reflexivity.
  assert (I52 : inf_bits = 2047 * two52) by reflexivity.
  assert (P52 : 0 < two52) by (unfold two52; lia).
  destruct (Z.eqb_spec M two53) as [EM|NM].
  - destruct (Z.leb_spec 2047 (E + 1 - -1023)) as [Ho|Ho].
    + assert (E1023 : E = 1023) by lia. clear HE. subst E.
      unfold fb_ovf in H. rewrite Heb, Hbias in H. change (2 ^ 11 - 1 + -1023) with 1024 in H.
      rewrite (assemble_val T neg 0 1024 HT ltac:(lia)) in H. apply some3_inj in H as (Hb & Hov & Htr'); subst b ovf tr.
      destruct (Z.leb_spec inf_bits ((1023 + 1022) * two52 + M)) as [_|]; [|zc].
      f_equal. rewrite Z.mod_0_l by zc. zc.
    + assert (Hq : M / 2 / two52 = 1).
      { rewrite EM. reflexivity. }
      rewrite Hq in H. change (1 mod 2 =? 0) with false in H. cbv iota in H.
      unfold fb_out in H. rewrite (assemble_val T neg (M / 2) (E + 1) HT ltac:(lia)) in H.
      apply some3_inj in H as (Hb & Hov & Htr'); subst b ovf tr.
      destruct (Z.leb_spec inf_bits ((E + 1022) * two52 + M)) as [|_]; [zc|].
      f_equal. rewrite EM. change (two53 / 2 mod two52) with 0. zc.
  - assert (HM2 : M < two53) by lia.
    destruct (Z_lt_le_dec M two52) as [Hs|Hnm].
    + assert (Em : E = -1022) by lia. clear HE. subst E.
      rewrite (Z.div_small M two52) in H by lia. change (0 mod 2 =? 0) with true in H. cbv iota in H.
      unfold fb_out in H. rewrite (assemble_val T neg M (-1023) HT ltac:(lia)) in H.
      apply some3_inj in H as (Hb & Hov & Htr'); subst b ovf tr.
      destruct (Z.leb_spec inf_bits ((-1022 + 1022) * two52 + M)) as [|_]; [zc|].
      f_equal. rewrite Z.mod_small by lia. zc.
    + assert (Hq : M / two52 = 1) by (symmetry; apply (Z.div_unique M two52 1 (M - two52)); lia).
      assert (Hr : M mod two52 = M - two52) by (symmetry; apply (Z.mod_unique M two52 1 (M - two52)); lia).
      rewrite Hq in H. change (1 mod 2 =? 0) with false in H. cbv iota in H.
      unfold fb_out in H. rewrite (assemble_val T neg M E HT ltac:(lia)) in H.
      apply some3_inj in H as (Hb & Hov & Htr'); subst b ovf tr.
      destruct (Z.leb_spec inf_bits ((E + 1022) * two52 + M)) as [|_]; [zc|].
      f_equal. rewrite Hr. zc.
Qed.

Lemma two53_lt_p10 : (inject_Z (2 ^ 53) < p10 16)%Q.
Proof. rewrite p10_Z by lia. apply izlt_fw. reflexivity. Qed.

(** the code after the loops, with truncating shifts *)
Lemma fb_tail_full T neg N0 D0 x0 lam a2 e2 b ovf tr :
  tables_ok T -> 0 < N0 -> 0 < D0 -> (x0 * inject_Z D0 == inject_Z N0)%Q ->
  is_ilog2 N0 D0 lam -> e2 = lam + 1 ->
  St x0 (A2 lam) a2 e2 -> d_dp a2 = 0 ->
  fb_tail T neg a2 e2 = Some (b, ovf, tr) ->
  (b, ovf) = round_ne neg N0 D0.
Proof.
  intros HT HN0 HD0 Ex Hlog He2 HS2 Hdp2 H.
  pose proof (ilog2_Q N0 D0 lam x0 HD0 Hlog Ex) as Hlam.
  pose proof (A2_ok lam) as HA.
  pose proof HS2 as (Hwf2 & Hne2 & _).
  destruct (dq_bounds a2 Hwf2 Hne2) as [_ Hub2]. rewrite Hdp2 in Hub2. change (p10 0) with 1%Q in Hub2.
  pose proof (dq_pos a2 Hwf2 Hne2) as Hpos2.
  destruct (tables_ok_facts T HT) as [_ _ _ _ _ _ _ _ _ Hmb Heb Hbias].
  unfold fb_tail in H. rewrite Hmb, Heb, Hbias in H. subst e2.
  replace (lam + 1 - 1) with lam in H by lia.
  change (-1023 + 1) with (-1022) in H. change (2 ^ 11 - 1) with 2047 in H. change (1 + 52) with 53 in H.
  assert (P53 : (p2 53 < p10 310)%Q).
  { rewrite p2_Z by lia. eapply Qlt_le_trans; [apply two53_lt_p10|]. apply p10_le. lia. }
  assert (Last : forall a3 e3 a4, St x0 (A2 lam) a3 e3 -> (dq a3 < 1)%Q -> Shift_m T a3 53 = Some a4 ->
            1 <= A2 lam + (e3 - 53) ->
            RoundedInteger_m a4 = rne_div (N0 * P2 (- (e3 - 53))) (D0 * P2 (e3 - 53))).
  { intros a3 e3 a4 HS3 Hlt3 E4 HG.
    pose proof HS3 as (Hwf3 & Hne3 & _). pose proof (dq_pos a3 Hwf3 Hne3) as Hpos3.
    assert (Hg : (dq a3 * p2 53 < p10 310)%Q).
    { eapply Qlt_trans; [|exact P53]. rewrite <- (Qmult_1_l (p2 53)) at 2. apply Qmul_lt_r; [apply p2_pos|exact Hlt3]. }
    destruct (Shift_inv T HT x0 lam (A2 lam) Hlam HA a3 53 a4 e3 HS3 ltac:(lia) E4 ltac:(intros _; exact Hg) ltac:(lia))
      as ((Hwf4 & Hne4 & HI4 & _) & Htrim4 & _ & Hle4).
    assert (Hdp4 : d_dp a4 <= 19).
    { assert (d_dp a4 <= 16); [|lia]. apply (dq_lt_dp a4 16 Hwf4 Hne4).
      eapply Qle_lt_trans; [exact Hle4|]. eapply Qlt_trans; [|apply two53_lt_p10].
      rewrite <- p2_Z by lia. rewrite <- (Qmult_1_l (p2 53)) at 2. apply Qmul_lt_r; [apply p2_pos|exact Hlt3]. }
    apply (Inv_round a4 (xat x0 (e3 - 53)) (A2 lam + (e3 - 53))); try assumption.
    - pose proof (P2_pos (e3 - 53)). nia.
    - apply xat_frac. exact Ex. }
  destruct (Z.ltb_spec lam (-1022)) as [Hsub|Hnorm].
  - (* subnormal *)
    destruct (Shift_m T a2 (- (-1022 - lam))) as [a3|] eqn:E3; cbn [obind] in H; [|discriminate].
    replace (lam + (-1022 - lam)) with (-1022) in H by lia.
    destruct (Z.leb_spec 2047 (-1022 - -1023)) as [|_]; [lia|].
    destruct (Shift_m T a3 53) as [a4|] eqn:E4; cbn [obind] in H; [|discriminate].
    destruct (Shift_inv T HT x0 lam (A2 lam) Hlam HA a2 (- (-1022 - lam)) a3 (lam + 1) HS2 ltac:(lia) E3 ltac:(lia)
                ltac:(intros _; left; lia)) as (HS3 & _ & _ & Hle3).
    replace (lam + 1 - - (-1022 - lam)) with (-1021) in HS3 by lia.
    assert (Hlt3 : (dq a3 < 1)%Q).
    { eapply Qle_lt_trans; [exact Hle3|].
      assert (p2 (- (-1022 - lam)) <= p2 0)%Q by (apply p2_le; lia). change (p2 0) with 1%Q in H0.
      assert (dq a2 * p2 (- (-1022 - lam)) <= dq a2 * 1)%Q.
      { rewrite !(Qmult_comm (dq a2)). apply Qmul_le_r; [apply Qlt_le_weak; exact Hpos2|exact H0]. }
      lra. }
    assert (EA : A2 lam = 1075) by (unfold A2; destruct (Z.leb_spec (-1022) lam); lia).
    pose proof (Last a3 (-1021) a4 HS3 Hlt3 E4 ltac:(lia)) as HR.
    apply (fb_final_core T neg a4 (-1022) N0 D0 lam b ovf tr HT HN0 HD0 Hlog ltac:(lia) ltac:(lia)); [|exact H].
    exact HR.
  - cbn [obind] in H.
    destruct (Z.leb_spec 2047 (lam - -1023)) as [Ho|Ho].
    + (* at least 2^1024 *)
      unfold fb_ovf in H. rewrite Heb, Hbias in H. change (2 ^ 11 - 1 + -1023) with 1024 in H.
      rewrite (assemble_val T neg 0 1024 HT ltac:(lia)) in H. apply some3_inj in H as (Hb & Hov & _); subst b ovf.
      rewrite round_ne_pos by assumption.
      destruct (round_pos_mant N0 D0 HN0 HD0) as (Hb & _ & Hn & _). cbv zeta in Hb, Hn.
      unfold binade in Hb, Hn.
      rewrite (ilog2_unique N0 D0 _ lam HN0 HD0 (ilog2_spec N0 D0 HN0 HD0) Hlog) in Hb, Hn.
      specialize (Hn ltac:(lia)). rewrite Z.max_l in Hb, Hn by lia.
      assert (I52 : inf_bits = 2047 * two52) by reflexivity.
      assert (P52 : 0 < two52) by (unfold two52; lia).
      destruct (Z.leb_spec inf_bits (round_pos N0 D0)) as [_|]; [|rewrite Hb in *; zc].
      f_equal. rewrite Z.mod_0_l by zc. zc.
    + destruct (Shift_m T a2 53) as [a4|] eqn:E4; cbn [obind] in H; [|discriminate].
      assert (EA : A2 lam = 53 - lam) by (unfold A2; destruct (Z.leb_spec (-1022) lam); lia).
      pose proof (Last a2 (lam + 1) a4 HS2 Hub2 E4 ltac:(lia)) as HR.
      apply (fb_final_core T neg a4 lam N0 D0 lam b ovf tr HT HN0 HD0 Hlog ltac:(lia) ltac:(lia)); [|exact H].
      replace (- (lam + 1 - 53)) with (52 - lam) in HR by lia. replace (lam + 1 - 53) with (lam - 52) in HR by lia.
      exact HR.
Qed.

Lemma p2_1100 : (p2 (-1100) <= p10 (-331))%Q.
Proof.
  apply (Qmul_le_r_inv _ _ (p2 1100 * p10 331)); [apply Qmult_lt_0_compat; [apply p2_pos|apply p10_pos]|].
  setoid_replace (p2 (-1100) * (p2 1100 * p10 331))%Q with ((p2 1100 * p2 (- 1100)) * p10 331)%Q by ring.
  setoid_replace (p10 (-331) * (p2 1100 * p10 331))%Q with ((p10 331 * p10 (- 331)) * p2 1100)%Q by ring.
  rewrite p2_inv, p10_inv, !Qmult_1_l, p2_Z, p10_Z by lia. apply izle_fw.
  apply Z.leb_le. vm_compute. reflexivity.
Qed.

(** * floatBits with truncating shifts: the flag-returning variant computes round_ne of the
    exact value N0/D0 that the initial decimal approximates from below *)
Theorem floatBits_tr_inv T a N0 D0 x0 b ovf tr :
  tables_ok T -> dec_wf a -> d_d a <> [] -> 0 < N0 -> 0 < D0 ->
  (x0 * inject_Z D0 == inject_Z N0)%Q ->
  (dq a <= x0)%Q ->
  (d_dp a <= dec_cap -> forall G, G <= dec_cap - d_dp a -> Inv a x0 G) -> (x0 < p10 (d_dp a))%Q ->
  floatBits_tr T a = Some (b, ovf, tr) ->
  (b, ovf) = round_ne (d_neg a) N0 D0.
Proof.
  intros HT Hwf Hne HN0 HD0 Ex Hsx Hinit Hxub H.
  destruct (tables_ok_facts T HT) as [_ _ _ _ _ _ _ _ _ Hmb Heb Hbias].
  destruct (dq_bounds a Hwf Hne) as [Hlb Hub].
  unfold floatBits_tr in H. unfold d_nd in H.
  destruct (Z.eqb_spec (len (d_d a)) 0) as [Hz|_]; [apply len_0_nil in Hz; contradiction|].
  destruct (Z.ltb_spec 310 (d_dp a)) as [Hbig|Hbig].
  - (* at least 10^310 *)
    assert (HB : 10 ^ 310 * D0 <= N0).
    { assert (p10 310 <= x0)%Q.
      { eapply Qle_trans; [|exact Hsx]. eapply Qle_trans; [|exact Hlb]. apply p10_le. lia. }
      pose proof (cross_le (p10 310) x0 (10 ^ 310) 1 N0 D0) as C. rewrite Z.mul_1_r in C. apply C; try lia; try assumption.
      rewrite p10_Z by lia. ring. }
    rewrite (round_ne_big _ _ _ HN0 HD0 HB).
    unfold fb_ovf in H. rewrite Heb, Hbias in H. change (2 ^ 11 - 1 + -1023) with 1024 in H.
    rewrite (assemble_val T _ 0 1024 HT ltac:(lia)) in H.
    apply some3_inj in H as (Hb & Hov & _); subst b ovf. f_equal; try (rewrite Z.mod_0_l by (unfold two52; lia); zc).
  - destruct (Z.ltb_spec (d_dp a) (-330)) as [Hsm|Hsm].
    + (* below 10^-330 *)
      assert (HS : N0 * 10 ^ 330 <= D0).
      { assert (x0 <= p10 (-330))%Q.
        { apply Qlt_le_weak. eapply Qlt_le_trans; [exact Hxub|]. apply p10_le. lia. }
        assert (x0 * p10 330 <= 1)%Q.
        { setoid_replace 1%Q with (p10 (-330) * p10 330)%Q by (symmetry; rewrite Qmult_comm; apply p10_inv).
          apply Qmul_le_r; [apply Qlt_le_weak, p10_pos|exact H0]. }
        pose proof (cross_le (x0 * p10 330) 1 (N0 * 10 ^ 330) D0 1 1) as C.
        rewrite Z.mul_1_r, Z.mul_1_l in C. apply C; try lia; try assumption.
        - rewrite inject_Z_mult, <- Ex, p10_Z by lia. ring.
        - reflexivity. }
      rewrite (round_ne_tiny _ _ _ HN0 HD0 HS).
      unfold fb_out in H. rewrite Hbias, (assemble_val T _ 0 (-1023) HT ltac:(lia)) in H.
      apply some3_inj in H as (Hb & Hov & _); subst b ovf. f_equal; try (rewrite Z.mod_0_l by (unfold two52; lia); zc).
    + destruct (fb_down T 400 a 0) as [[a1 e1]|] eqn:E1; cbn [obind] in H; [|discriminate].
      destruct (fb_up T 400 a1 e1) as [[a2 e2]|] eqn:E2; cbn [obind] in H; [|discriminate].
      set (lam := ilog2 N0 D0).
      pose proof (ilog2_spec N0 D0 HN0 HD0) as Hlog. fold lam in Hlog.
      pose proof (ilog2_Q N0 D0 lam x0 HD0 Hlog Ex) as Hlam.
      assert (Hlamlb : -1101 <= lam).
      { assert (p2 (-1100) < p2 (lam + 1))%Q.
        { eapply Qle_lt_trans; [apply p2_1100|]. eapply Qle_lt_trans; [|apply Hlam].
          eapply Qle_trans; [|exact Hsx]. eapply Qle_trans; [|exact Hlb]. apply p10_le. lia. }
        apply p2_lt_inv in H0. lia. }
      assert (Hx0 : (dq a <= xat x0 0)%Q).
      { unfold xat. change (p2 (- 0)) with 1%Q. rewrite Qmult_1_r. exact Hsx. }
      assert (Start : forall A, A <= 490 - lam /\ 10 * A <= 7987 - 3 * lam -> St x0 A a 0).
      { intros A HA.
        destruct (stage_bound x0 lam A Hlam HA a 0 Hwf Hne Hx0 Hbig ltac:(left; lia)) as [B1 B2].
        split; [exact Hwf|]. split; [exact Hne|]. split; [|split; [exact Hbig|left; lia]].
        apply (Inv_comp a x0).
        - unfold xat. change (p2 (- 0)) with 1%Q. rewrite Qmult_1_r. reflexivity.
        - apply Hinit; lia. }
      assert (HA1 : 1 - lam <= 490 - lam /\ 10 * (1 - lam) <= 7987 - 3 * lam) by lia.
      destruct (fb_down_St T HT x0 lam (1 - lam) Hlam HA1 _ _ _ _ _ E1 (Start _ HA1)) as (S1 & D1 & _).
      destruct (fb_up_St T HT x0 lam (1 - lam) Hlam HA1 _ _ _ _ _ E2 S1 D1) as (S2 & D2 & F2 & _).
      pose proof (stage2_ilog x0 lam a2 e2 Hlam S2 D2 F2) as Ee2.
      pose proof (A2_ok lam) as HA2.
      destruct (fb_down_St T HT x0 lam (A2 lam) Hlam HA2 _ _ _ _ _ E1 (Start _ HA2)) as (S1' & _ & N1).
      destruct (fb_up_St T HT x0 lam (A2 lam) Hlam HA2 _ _ _ _ _ E2 S1' D1) as (S2' & _ & _ & N2).
      apply (fb_tail_full T (d_neg a) N0 D0 x0 lam a2 e2 b ovf tr HT HN0 HD0 Ex Hlog ltac:(lia) S2' D2 H).
Qed.

(** exact initial decimal: floatBits returns round_ne of its value, whatever the shifts drop *)
Theorem floatBits_full T a b ovf :
  tables_ok T -> dec_wf a -> d_trunc a = false -> floatBits_m T a = Some (b, ovf) ->
  (b, ovf) = round_ne (d_neg a) (fst (dec_frac a)) (snd (dec_frac a)).
Proof.
  intros HT Hwf Htr H. rewrite floatBits_tr_fst in H.
  destruct (floatBits_tr T a) as [[[b' o'] tr]|] eqn:E; cbn [option_map fst] in H; [|discriminate].
  injection H as -> ->.
  destruct (d_d a) as [|c l] eqn:Ed.
  - (* zero *)
    destruct (tables_ok_facts T HT) as [_ _ _ _ _ _ _ _ _ Hmb Heb Hbias].
    rewrite (dec_num_nil a Ed), round_ne_zero.
    unfold floatBits_tr, d_nd in E. rewrite Ed in E. change (len (@nil Z) =? 0) with true in E. cbv iota in E.
    unfold fb_out in E. rewrite Hbias, (assemble_val T _ 0 (-1023) HT ltac:(lia)) in E.
    apply some3_inj in E as (Hb & Hov & _); subst b ovf. f_equal; try (rewrite Z.mod_0_l by (unfold two52; lia); zc).
  - assert (Hne : d_d a <> []) by (rewrite Ed; discriminate).
    apply (floatBits_tr_inv T a _ _ (dq a) b ovf tr HT Hwf Hne (dec_num_pos a Hwf Hne) (dec_den_pos a)).
    + apply dq_frac.
    + apply Qle_refl.
    + intros _ G _. apply Inv_exact; [reflexivity|exact Htr].
    + apply (dq_bounds a Hwf Hne).
    + exact E.
Qed.

Print Assumptions floatBits_full.

(** * End to end: at most 800 significant digits *)

(** C04 without the "no digit dropped" hypothesis: on a JSON number literal with at most 800
    significant mantissa digits (and a written exponent of at most 5 significant digits),
    followed by bytes that do not extend it, ParseJSONFloatPrefix returns the offset just after
    the literal and exactly the float64 (or the range error) that round_ne specifies. *)
Theorem parse_correct_800 T j rest v n err :
  tables_ok T -> jn_wf j = true -> FpScan.exp_small j -> FpScan.rest_ok j rest ->
  len (strip0 (j_int j ++ jn_frac_digits j)) <= 800 ->
  ParseJSONFloatPrefix_m T (jn_bytes j ++ rest) = Some (v, n, err) ->
  n = len (jn_bytes j) /\ FpFacts.parse_result_ok j v err.
Proof.
  intros HT Hwf Hes Hrest H800.
  rewrite FpFacts.parse_unfold. cbv zeta.
  pose proof (FpScan.readFloat_spec j rest Hwf Hes Hrest) as Hscan. cbv zeta in Hscan.
  destruct Hscan as (Hok & Hp & Hneg & Hm & Hex).
  pose proof (FpScan.parse_second_check j rest Hwf Hes Hrest) as Hchk. cbv zeta in Hchk.
  rewrite Hok. cbn [negb]. rewrite Hchk, Hp.
  set (r := readFloat_m (jn_bytes j ++ rest)) in *.
  set (D := dval (j_int j ++ jn_frac_digits j)) in *.
  set (k := jn_exp10 j - len (jn_frac_digits j)) in *.
  assert (Hround : jn_round j = round_ne (j_neg j) (D * P10 k) (P10 (- k))) by reflexivity.
  destruct (FpFacts.fast_path T r) as [f|] eqn:Hfast.
  - intros Hres. injection Hres as <- <- <-. split; [reflexivity|].
    pose proof (FpFacts.fast_path_correct T r D k f HT (conj Hm Hex) Hfast) as Hc. rewrite Hneg in Hc.
    unfold FpFacts.parse_result_ok. rewrite Hround, Hc. cbn [fst snd]. split; reflexivity.
  - unfold FpFacts.slow_path. rewrite FpFacts.firstn_len_app.
    destruct (set_spec j Hwf Hes) as (a & Hset & Haneg & Hawf & Hval).
    destruct (Hval H800) as (Hatr & Hveq).
    rewrite Hset.
    destruct (floatBits_m T a) as [[b ovf]|] eqn:Hfb; cbn [obind]; [|discriminate].
    pose proof (floatBits_full T a b ovf HT Hawf Hatr Hfb) as Hdec.
    assert (Hjn : jn_round j = (b, ovf)).
    { rewrite Hdec, Haneg. unfold jn_round.
      apply FpExact.round_ne_frac_eq.
      - unfold jn_value. cbn [fst]. fold D. fold k.
        pose proof (dval_nonneg _ (FpScan.jn_digits_all j Hwf)). pose proof (FpTables.P10_pos k). fold D in H. nia.
      - unfold jn_value. cbn [snd]. apply FpTables.P10_pos.
      - destruct (d_d a) eqn:Hd.
        + rewrite (dec_num_nil a Hd). lia.
        + pose proof (dec_num_pos a Hawf ltac:(rewrite Hd; discriminate)). lia.
      - apply dec_den_pos.
      - lia. }
    intros Hres. unfold FpFacts.parse_result_ok. rewrite Hjn. cbn [fst snd].
    destruct ovf; injection Hres as <- <- <-; repeat split; reflexivity.
Qed.

(** the same at the API: ReadFloat64 skips the whitespace, then behaves as parse_correct_800 says *)
Theorem ReadFloat64_correct_800 T ws j rest v p err :
  tables_ok T -> forallb is_ws ws = true ->
  jn_wf j = true -> FpScan.exp_small j -> FpScan.rest_ok j rest ->
  len (strip0 (j_int j ++ jn_frac_digits j)) <= 800 ->
  ReadFloat64_m T (ws ++ jn_bytes j ++ rest) = Some (v, p, err) ->
  p = len ws + len (jn_bytes j) /\
  exists e, err = option_map RfFp e /\ FpFacts.parse_result_ok j v e.
Proof.
  intros HT Hws Hwf Hes Hrest H800.
  destruct (FpFacts.jn_bytes_head j Hwf) as (c & t & Hc & Hcws).
  unfold ReadFloat64_m.
  rewrite (FpFacts.count_ws_app ws (jn_bytes j ++ rest) Hws) by (rewrite Hc; exact Hcws).
  fold (len ws).
  assert (Hlen : len (ws ++ jn_bytes j ++ rest) = len ws + len (jn_bytes j) + len rest).
  { unfold len. rewrite !app_length. lia. }
  destruct (Z.eqb_spec (len ws) (len (ws ++ jn_bytes j ++ rest))) as [E|_].
  { exfalso. rewrite Hlen, Hc in E. unfold len in E. cbn [length] in E. lia. }
  unfold len at 1. rewrite Nat2Z.id, skipn_app, Nat.sub_diag, skipn_all. cbn [skipn app].
  destruct (ParseJSONFloatPrefix_m T (jn_bytes j ++ rest)) as [[[v' pp] e]|] eqn:HP; cbn [obind]; [|discriminate].
  intros Hres. inversion Hres as [[Hv Hp He]]. clear Hres.
  destruct (parse_correct_800 T j rest v' pp e HT Hwf Hes Hrest H800 HP) as (Hn & Hr).
  split; [lia|]. exists e. split; [destruct e; reflexivity|rewrite <- Hv; exact Hr].
Qed.

Print Assumptions ReadFloat64_correct_800.
Print Assumptions parse_correct_800.
