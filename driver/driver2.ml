(* further ops: compat, frame (append semantics), buffer histories, value trees *)
open Model
open Driver_fp.Conv

let dec_case (f : string array) : string =
  match Driver_fp.dec_case f with
  | Some r -> r
  | None ->
    if f.(1) = "f64" then
      (match x_DecodeFloat64 (unhex f.(2)) (z_of_string f.(3)) with
       | None -> "abn # model"
       | Some ((p, None), v) -> Printf.sprintf "ok %s %s" (string_of_z p) (string_of_z v)
       | Some ((_, Some _), v) -> "err " ^ string_of_z v)
    else failwith ("unknown decode type " ^ f.(1))

let str_res (r : ((byte list * z) * errk option) option) : string =
  match r with
  | Some ((v, p), None) -> Printf.sprintf "ok %s %s" (string_of_z p) (hx v)
  | Some (_, Some _) -> "err"
  | None -> "abn # model"

let handler_of = ref (fun (_ : string) (_ : byte list) -> (fun _ -> { h_pp = Z0; h_err = None; h_havoc = [] }))

let handler_obs_ref = ref (fun (_ : mres) (_ : bool) (_ : int) -> "")

let replace_all (s : string) (a : char) (b : char) = String.map (fun c -> if c = a then b else c) s

let run_hist (f : string array) : string =
  let buf = ref (if f.(1) = "nobuf" then None else
                   Some (match parse_stack f.(1) with None -> [] | Some l -> l)) in
  let outs = ref [] in
  for i = 2 to Array.length f - 1 do
    let parts = String.split_on_char ':' f.(i) in
    let op = List.nth parts 0 and d = unhex (List.nth parts 1) in
    let pres_s r = (match r with
        | Inl (p, None) -> "ok_" ^ string_of_z p
        | Inl (_, Some _) -> "err"
        | Inr _ -> "abn") in
    let o = (match op with
        | "skip" -> let (r, b) = x_SkipValue d !buf in buf := b; pres_s r
        | "skipfast" -> let (r, b) = x_SkipValueFast d !buf in buf := b; pres_s r
        | "valid" -> let (r, b) = x_Valid d !buf in buf := b;
          (match r with Some v -> b2s v | None -> "abn")
        | "harr" | "hobj" ->
          let spec = replace_all (List.nth parts 2) ';' ',' in
          let h = !handler_of spec d in
          let st = (match !buf with None -> [] | Some l -> l) in
          let r = if op = "harr" then x_handleArrayValues d h st else x_handleObjectValues d h st in
          (match !buf, r with Some _, MDone (_, _, s) -> buf := Some (stack_of s) | _ -> ());
          let o = !handler_obs_ref r (op = "hobj") (List.length d) in
          let o = (match String.index_opt o '#' with Some i -> String.trim (String.sub o 0 i) | None -> o) in
          replace_all o ' ' '_'
        | _ -> failwith ("bad hist op " ^ op)) in
    outs := o :: !outs
  done;
  String.concat " ; " (List.rev !outs)

(* ---------- value trees ---------- *)
let rec canon (v : jv) : string =
  match v with
  | JNull -> "n"
  | JBool true -> "t"
  | JBool false -> "f"
  | JNum b -> "#" ^ string_of_z b
  | JStr s -> "s" ^ hx s
  | JArr l -> "[" ^ String.concat "," (List.map canon l) ^ "]"
  | JObj m ->
    let items = List.map (fun (k, v) -> (hx k, canon v)) m in
    let items = List.sort (fun (a, _) (b, _) -> compare (if a = "-" then "" else a) (if b = "-" then "" else b)) items in
    "{" ^ String.concat "," (List.map (fun (k, v) -> k ^ ":" ^ v) items) ^ "}"

let rec drop n l = if n <= 0 then l else match l with [] -> [] | _ :: r -> drop (n - 1) r

let big_fuel : nat = let rec mk n acc = if n = 0 then acc else mk (n - 1) (S acc) in mk 12000 O

(* does some object have two distinct keys that collide after invalid-UTF-8 replacement? *)
let rec has_collision (v : jv) : bool =
  match v with
  | JArr l -> List.exists has_collision l
  | JObj m ->
    let ks = List.map (fun (k, _) -> hx (stdLibCompatibleString k)) m in
    List.length (List.sort_uniq compare ks) <> List.length ks || List.exists (fun (_, v) -> has_collision v) m
  | _ -> false

let rres_str (compat : bool) (n : int) (r : ((jv * z) * errk option) option) : string =
  match r with
  | None -> "abn # model"
  | Some ((_, _), Some _) -> "err"
  | Some ((v, p), None) ->
    let pi = int_of_z p in
    if pi < 0 || pi > n then Printf.sprintf "ok-out-of-range %s" (string_of_z p)
    else if compat && has_collision v then Printf.sprintf "ok %s # collision" (string_of_z p)
    else Printf.sprintf "ok %s %s" (string_of_z p) (canon (if compat then compat_tree big_fuel v else v))

(* bracket nesting outside strings (upper bound) *)
let max_depth (d : byte list) : int =
  let depth = ref 0 and mx = ref 0 and in_str = ref false and esc = ref false in
  List.iter (fun b ->
      let c = int_of_byte b in
      if !in_str then begin
        if !esc then esc := false
        else if c = 92 then esc := true
        else if c = 34 then in_str := false
      end else begin
        if c = 34 then in_str := true
        else if c = 91 || c = 123 then (incr depth; if !depth > !mx then mx := !depth)
        else if c = 93 || c = 125 then decr depth
      end) d;
  !mx

exception Too_deep

let read_op (op : string) (faithful : bool) (d : byte list) =
  if max_depth d > 2000 then raise Too_deep;
  match op, faithful with
  | "rv", false -> x_ReadValue_fast d | "ro", false -> x_ReadObject_fast d | "ra", false -> x_ReadArray_fast d
  | "rv", true -> x_ReadValue d | "ro", true -> x_ReadObject d | "ra", true -> x_ReadArray d
  | _ -> failwith ("bad read op " ^ op)

let run_rhist (f : string array) : string =
  let outs = ref [] in
  for i = 1 to Array.length f - 1 do
    let parts = String.split_on_char ':' f.(i) in
    let d = unhex (List.nth parts 1) in
    let o = (match read_op (List.nth parts 0) false d with
        | None -> "abn"
        | Some ((_, _), Some _) -> "err"
        | Some ((v, p), None) -> Printf.sprintf "ok_%s_%s" (string_of_z p) (canon v)) in
    outs := o :: !outs
  done;
  String.concat " ; " (List.rev !outs) ^ " ; STABLE"

(* ---------- C08: the composition decoder over the model functions ---------- *)
let choose (seed : int) (off : int) (depth : int) (k : int) : int =
  let open Int64 in
  let x = add (add (mul (of_int seed) 0x9e3779b97f4a7c15L) (mul (of_int off) 0xbf58476d1ce4e5b9L)) (mul (of_int depth) 0x94d049bb133111ebL) in
  let x = logxor x (shift_right_logical x 29) in
  let x = mul x 0xbf58476d1ce4e5b9L in
  let x = logxor x (shift_right_logical x 32) in
  to_int (unsigned_rem x (of_int k))

type cv = CSkipped | CVal of jv | CArrV of cv list | CObjV of (byte list * cv) list

let rec canon_cv (v : cv) : string =
  match v with
  | CSkipped -> "_"
  | CVal j -> canon j
  | CArrV l -> "[" ^ String.concat "," (List.map canon_cv l) ^ "]"
  | CObjV m ->
    let items = List.map (fun (k, v) -> (hx k, canon_cv v)) m in
    let items = List.sort (fun (a, _) (b, _) -> compare (if a = "-" then "" else a) (if b = "-" then "" else b)) items in
    "{" ^ String.concat "," (List.map (fun (k, v) -> k ^ ":" ^ v) items) ^ "}"

exception Abn

(* value: (cv, offset, ok) for the value at the start of data (absolute offset off) *)
let rec compose_value (seed : int) (read_all : bool) (data : byte list) (off : int) (depth : int) : cv * int * bool =
  match nextTokenType data with
  | ((_, p), Some _) -> (CSkipped, int_of_z p, false)
  | ((tt, _), None) ->
    let variant = choose seed off depth 4 in
    let variant = if read_all && (variant = 1 || variant = 2) then 0 else variant in
    let pres r = (match r with Inl (p, None) -> (CSkipped, int_of_z p, true) | Inl (p, Some _) -> (CSkipped, int_of_z p, false) | Inr _ -> raise Abn) in
    if variant = 1 then pres (fst (x_SkipValue data None))
    else if variant = 2 then
      (match fst (x_SkipValue data None) with
       | Inl (_, None) -> pres (fst (x_SkipValueFast data (Some [])))
       | r -> pres r)
    else begin
      let tti = int_of_z tt in
      if tti = 1 then (match x_ReadNull data with Inl (p, None) -> (CVal JNull, int_of_z p, true) | Inl (p, _) -> (CSkipped, int_of_z p, false) | Inr _ -> raise Abn)
      else if tti = 4 || tti = 5 then begin
        if variant = 3 then (match x_DecodeBool data false with
            | Some ((p, None), b) -> (CVal (JBool b), int_of_z p, true)
            | Some ((p, Some _), _) -> (CSkipped, int_of_z p, false)
            | None -> raise Abn)
        else (match x_ReadBool data with
            | Inl ((b, p), None) -> (CVal (JBool b), int_of_z p, true)
            | Inl ((_, p), Some _) -> (CSkipped, int_of_z p, false)
            | Inr _ -> raise Abn)
      end
      else if tti = 3 then begin
        let fl () = (match x_ReadFloat64 data with
          | ((b, p), None) -> (CVal (JNum b), int_of_z p, true)
          | ((_, p), Some _) -> (CSkipped, int_of_z p, false)) in
        (* variant 3: an integer reader first (offset and success from the integer reader model; the
           value float64(i) is the float reader's value of the same literal), else the float reader *)
        if variant = 3 then begin
          let ir = if off mod 2 = 0 then readInt64 data else readUint64 data in
          (match ir with
           | ((i, p), None) when i <> Z0 ->
             (match fl () with
              | (CVal (JNum b), _, true) -> (CVal (JNum b), int_of_z p, true)
              | _ -> raise Abn)
           | _ -> fl ())
        end else fl ()
      end
      else if tti = 2 then begin
        if variant = 3 then (match x_ReadStringBytes data [] with
            | Some ((v, p), None) -> (CVal (JStr v), int_of_z p, true)
            | Some ((_, p), Some _) -> (CSkipped, int_of_z p, false)
            | None -> raise Abn)
        else (match x_ReadString data None with
            | Some (((v, p), None), _) -> (CVal (JStr v), int_of_z p, true)
            | Some (((_, p), Some _), _) -> (CSkipped, int_of_z p, false)
            | None -> raise Abn)
      end
      else if tti = 8 || tti = 6 then begin
        let is_obj = (tti = 6) in
        let memo : (int, (byte list option) * cv * int * bool) Hashtbl.t = Hashtbl.create 16 in
        let answer (c : call) =
          let cp = int_of_z c.c_p in
          (match Hashtbl.find_opt memo cp with
           | Some r -> r
           | None ->
             let key = (if is_obj then
                          (match x_UnescapeStringContent c.c_key [] with
                           | Some ((k, _), None) -> Some k
                           | Some (_, Some _) -> None
                           | None -> raise Abn)
                        else Some []) in
             let r = (match key with
                 | None -> (None, CSkipped, 0, false)
                 | Some k ->
                   let (v, p, ok) = compose_value seed read_all (drop cp data) (off + cp) (depth + 1) in
                   (Some k, v, p, ok)) in
             Hashtbl.replace memo cp r; r) in
        let h : handler = fun calls ->
          let (_, _, p, ok) = answer (List.hd calls) in
          { h_pp = z_of_int p; h_err = (if ok then None else Some (z_of_int 1)); h_havoc = [] } in
        let st = if variant = 3 then [] else [] in
        let r = if is_obj then x_handleObjectValues data h st else x_handleArrayValues data h st in
        (match r with
         | MDone (p, None, s) ->
           let calls = List.rev s.s_calls in
           if is_obj then begin
             let m = List.fold_left (fun acc c ->
                 let (k, v, _, _) = answer c in
                 let k = (match k with Some k -> k | None -> []) in
                 (k, v) :: List.filter (fun (k', _) -> k' <> k) acc) [] calls in
             (CObjV m, int_of_z p, true)
           end else (CArrV (List.map (fun c -> let (_, v, _, _) = answer c in v) calls), int_of_z p, true)
         | MDone (p, Some _, _) -> (CSkipped, int_of_z p, false)
         | _ -> raise Abn)
      end
      else (CSkipped, 0, false)
    end

(* hrec: the recursive decoder of the harness (every container member handed to a nested traversal,
   scalars declined); buffers do not exist in what the model observes, so the Buffer argument is ignored *)
let rec hrec_value (data : byte list) : int * bool * int =
  match nextTokenType data with
  | ((_, _), Some _) -> (0, false, 0)
  | ((tt, _), None) ->
    let tti = int_of_z tt in
    if tti = 8 || tti = 6 then begin
      let memo : (int, int * bool * int) Hashtbl.t = Hashtbl.create 16 in
      let answer (c : call) =
        let cp = int_of_z c.c_p in
        (match Hashtbl.find_opt memo cp with
         | Some r -> r
         | None -> let r = hrec_value (drop cp data) in Hashtbl.replace memo cp r; r) in
      let h : handler = fun calls ->
        let (p, ok, _) = answer (List.hd calls) in
        { h_pp = z_of_int p; h_err = (if ok then None else Some (z_of_int 1)); h_havoc = [] } in
      let r = if tti = 6 then x_handleObjectValues data h [] else x_handleArrayValues data h [] in
      (match r with
       | MDone (p, None, s) ->
         let n = List.fold_left (fun acc c -> let (_, _, k) = answer c in acc + 1 + k) 0 s.s_calls in
         (int_of_z p, true, n)
       | MDone (p, Some _, _) -> (int_of_z p, false, 0)
       | _ -> raise Abn)
    end else (0, true, 0)

let run_hrec (f : string array) : string =
  let d = unhex f.(1) in
  (* the evaluation is quadratic in the nesting depth: large documents are left to the comparison of the
     implementation with itself without a Buffer (the oracle of C14) *)
  if List.length d > 4000 then "-" else
  try
    (match hrec_value d with
     | (_, false, _) -> "err"
     | (p, true, n) -> Printf.sprintf "ok %d %d" p n)
  with Abn -> "abn # model"

let run_compose (f : string array) : string =
  let d = unhex f.(1) in
  let seed = int_of_string f.(2) in
  try
    (match compose_value seed (f.(3) = "all") d 0 0 with
     | (_, _, false) -> "err"
     | (v, p, true) ->
       if f.(3) = "mix" then Printf.sprintf "ok %d # %s" p (canon_cv v) else Printf.sprintf "ok %d %s" p (canon_cv v))
  with Abn -> "abn # model"

let run_case (f : string array) : string =
  match f.(0) with
  | "compat" -> hx (stdLibCompatibleString (unhex f.(1)))
  | "compatb" -> hx (stdLibCompatibleStringBytes (unhex f.(1)) (unhex f.(2)))
  | "frame" ->
    let d = unhex f.(2) and dst = (if f.(3) = "nil" then [] else unhex f.(3)) in
    (match f.(1) with
     | "rsb" -> str_res (x_ReadStringBytes d dst)
     | "usc" -> str_res (x_UnescapeStringContent d dst)
     | "compatb" -> Printf.sprintf "ok 0 %s" (hx (stdLibCompatibleStringBytes d dst))
     | "rs" ->
       (match x_ReadString d (if f.(3) = "nil" then None else Some dst) with
        | Some (((v, p), None), _) -> Printf.sprintf "ok %s %s" (string_of_z p) (hx v)
        | Some ((_, Some _), _) -> "err"
        | None -> "abn # model")
     | o -> failwith ("bad frame op " ^ o))
  | "hist" -> run_hist f
  | "hrec" -> run_hrec f
  | "strhist" ->
    let buf = ref (if f.(1) = "-1" then None else Some []) in
    let target = ref (List.map (fun c -> zb (z_of_int (Char.code c))) (List.init 14 (String.get "initial-target"))) in
    let outs = ref [] in
    for i = 2 to Array.length f - 1 do
      let parts = String.split_on_char ':' f.(i) in
      let d = unhex (List.nth parts 1) in
      let o = (match List.nth parts 0 with
          | "rs" ->
            (match x_ReadString d !buf with
             | Some (((v, p), None), b) -> buf := b; Printf.sprintf "ok_%s_%s" (string_of_z p) (hx v)
             | Some ((_, Some _), b) -> buf := b; "err"
             | None -> "abn")
          | "dec" ->
            (match x_DecodeString d !target !buf with
             | Some ((p, None), v) -> target := v; Printf.sprintf "ok_%s_%s" (string_of_z p) (hx v)
             | Some ((_, Some _), _) -> "err"
             | None -> "abn")
          | o -> failwith ("bad strhist op " ^ o)) in
      outs := o :: !outs
    done;
    String.concat " ; " (List.rev !outs) ^ " ; STABLE"
  | "rv" | "ro" | "ra" -> (try let d = unhex f.(1) in rres_str false (List.length d) (read_op f.(0) false d) with Too_deep -> "-")
  | "rva" | "roa" | "raa" -> (try let d = unhex f.(1) in rres_str false (List.length d) (read_op (String.sub f.(0) 0 2) true d) with Too_deep -> "-")
  | "rvc" | "roc" | "rac" -> (try let d = unhex f.(1) in rres_str true (List.length d) (read_op (String.sub f.(0) 0 2) false d) with Too_deep -> "-")
  | "rhist" -> (try run_rhist f with Too_deep -> "-")
  | "hint" ->
    let rec nat_of_int n = if n <= 0 then O else S (nat_of_int (n - 1)) in
    let rec int_of_nat = function O -> 0 | S k -> 1 + int_of_nat k in
    let h = ref O in
    let outs = ref [] in
    for i = 1 to Array.length f - 1 do
      let sizes = List.map (fun s -> nat_of_int (int_of_string s)) (String.split_on_char ',' f.(i)) in
      h := remembered_prev !h sizes;
      outs := Printf.sprintf "true_%d_%d" (int_of_nat !h) (List.length sizes) :: !outs
    done;
    String.concat " " (List.rev !outs)
  | "f64" ->
    (match x_ReadFloat64 (unhex f.(1)) with
     | ((b, p), None) -> Printf.sprintf "ok %s %s" (string_of_z b) (string_of_z p)
     | (_, Some _) -> "err")
  | "compose" -> run_compose f
  | _ -> failwith ("unknown op " ^ f.(0))

(* ---------- --spec mode: what the SPECIFICATION (not the model of the code) says ---------- *)
let spec_case (f : string array) : string =
  match f.(0) with
  | "f64" | "fp_parse" ->
    (* C04: for input = optional ws (f64 only) + a complete JSON number literal: round_ne of its exact value *)
    let d = unhex f.(1) in
    let rec strip n l = (match l with b :: r when f.(0) = "f64" && List.mem (int_of_byte b) [32; 9; 13; 10] -> strip (n + 1) r | _ -> (n, l)) in
    let (w, lit) = strip 0 d in
    (match parse_spec_fast lit with
     | None -> "-"
     | Some (b, ovf) ->
       (* shapes of the two recorded C04 findings *)
       let digs = List.map int_of_byte lit in
       let rec int_digits l seen = (match l with
           | c :: r when c = 45 -> int_digits r seen
           | c :: r when c = 48 && seen = 0 -> int_digits r 0
           | c :: r when c >= 48 && c <= 57 -> int_digits r (seen + 1)
           | _ -> seen) in
       let rec exp_digits l = (match l with
           | c :: r when c = 101 || c = 69 -> List.length (List.filter (fun c -> c >= 48 && c <= 57) r)
           | _ :: r -> exp_digits r
           | [] -> 0) in
       let tag = (if int_digits digs 0 > 800 then " # shape=over-800-integer-digits"
                  else if exp_digits digs >= 5 then " # shape=huge-exponent" else "") in
       if ovf then "err" ^ tag
       else Printf.sprintf "ok %s %d%s" (string_of_z b) (w + List.length lit) tag)
  | _ -> "-"
