(* further ops: compat, frame (append semantics), buffer histories, value trees *)
open Model
open Driver_fp.Conv

let dec_case (f : string array) : string =
  match Driver_fp.dec_case f with Some r -> r | None -> failwith ("unknown decode type " ^ f.(1))

let str_res (r : ((byte list * z) * errk option) option) : string =
  match r with
  | Some ((v, p), None) -> Printf.sprintf "ok %s %s" (string_of_z p) (hx v)
  | Some (_, Some _) -> "err"
  | None -> "abn # model"

let handler_of = ref (fun (_ : string) (_ : byte list) -> (fun _ -> { h_pp = Z0; h_err = None; h_havoc = [] }))

let handler_obs_ref = ref (fun (_ : mres) (_ : bool) (_ : int) -> "")

let replace_all (s : string) (a : char) (b : char) = String.map (fun c -> if c = a then b else c) s

let run_hist (f : string array) : string =
  let buf = ref (if f.(1) = "nobuf" then None else
                   Some (match parse_stack f.(1) with None -> [] | Some l -> l)) in
  let outs = ref [] in
  for i = 2 to Array.length f - 1 do
    let parts = String.split_on_char ':' f.(i) in
    let op = List.nth parts 0 and d = unhex (List.nth parts 1) in
    let pres_s r = (match r with
        | Inl (p, None) -> "ok_" ^ string_of_z p
        | Inl (_, Some _) -> "err"
        | Inr _ -> "abn") in
    let o = (match op with
        | "skip" -> let (r, b) = i_SkipValue d !buf in buf := b; pres_s r
        | "skipfast" -> let (r, b) = i_SkipValueFast d !buf in buf := b; pres_s r
        | "valid" -> let (r, b) = i_Valid d !buf in buf := b;
          (match r with Some v -> b2s v | None -> "abn")
        | "harr" | "hobj" ->
          let spec = replace_all (List.nth parts 2) ';' ',' in
          let h = !handler_of spec d in
          let st = (match !buf with None -> [] | Some l -> l) in
          let r = if op = "harr" then i_handleArrayValues d h st else i_handleObjectValues d h st in
          (match !buf, r with Some _, MDone (_, _, s) -> buf := Some (stack_of s) | _ -> ());
          let o = !handler_obs_ref r (op = "hobj") (List.length d) in
          let o = (match String.index_opt o '#' with Some i -> String.trim (String.sub o 0 i) | None -> o) in
          replace_all o ' ' '_'
        | _ -> failwith ("bad hist op " ^ op)) in
    outs := o :: !outs
  done;
  String.concat " ; " (List.rev !outs)

let run_case (f : string array) : string =
  match f.(0) with
  | "compat" -> hx (stdLibCompatibleString (unhex f.(1)))
  | "compatb" -> hx (stdLibCompatibleStringBytes (unhex f.(1)) (unhex f.(2)))
  | "frame" ->
    let d = unhex f.(2) and dst = (if f.(3) = "nil" then [] else unhex f.(3)) in
    (match f.(1) with
     | "rsb" -> str_res (i_ReadStringBytes d dst)
     | "usc" -> str_res (i_UnescapeStringContent d dst)
     | "compatb" -> Printf.sprintf "ok 0 %s" (hx (stdLibCompatibleStringBytes d dst))
     | "rs" ->
       (match i_ReadString d (if f.(3) = "nil" then None else Some dst) with
        | Some (((v, p), None), _) -> Printf.sprintf "ok %s %s" (string_of_z p) (hx v)
        | Some ((_, Some _), _) -> "err"
        | None -> "abn # model")
     | o -> failwith ("bad frame op " ^ o))
  | "hist" -> run_hist f
  | _ -> failwith ("unknown op " ^ f.(0))
