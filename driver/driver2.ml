(* further ops: floats, value trees, compat, histories *)
let dec_case (f : string array) : string = failwith ("unknown decode type " ^ f.(1))
let run_case (f : string array) : string = failwith ("unknown op " ^ f.(0))
