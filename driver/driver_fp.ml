(* float-parser ops of the model (filled in with the Fp model) *)
let run_case (f : string array) : string option = None
