(* Conversions shared by the driver modules, and the float-parser ops of the model. *)
open Model

module Conv = struct
  let rec pos_of_int n =
    if n = 1 then XH else if n land 1 = 0 then XO (pos_of_int (n lsr 1)) else XI (pos_of_int (n lsr 1))
  let z_of_int n = if n = 0 then Z0 else if n > 0 then Zpos (pos_of_int n) else Zneg (pos_of_int (-n))
  let z10 = z_of_int 10

  (* decimal string -> Z using extracted arithmetic (values beyond OCaml's 63-bit ints) *)
  let z_of_string s =
    let neg = String.length s > 0 && s.[0] = '-' in
    let i0 = if neg || (String.length s > 0 && s.[0] = '+') then 1 else 0 in
    let acc = ref Z0 in
    for i = i0 to String.length s - 1 do
      let c = s.[i] in
      if c < '0' || c > '9' then failwith ("bad integer " ^ s);
      acc := Z.add (Z.mul !acc z10) (z_of_int (Char.code c - 48))
    done;
    if neg then Z.opp !acc else !acc

  let rec int_of_pos = function XH -> 1 | XO p -> 2 * int_of_pos p | XI p -> 2 * int_of_pos p + 1
  let int_of_z = function Z0 -> 0 | Zpos p -> int_of_pos p | Zneg p -> - (int_of_pos p)

  let string_of_z z =
    let neg, a = (match z with Zneg p -> true, Zpos p | _ -> false, z) in
    if a = Z0 then "0" else begin
      let b = Buffer.create 24 in
      let cur = ref a in
      while !cur <> Z0 do
        let (q, r) = Z.div_eucl !cur z10 in
        Buffer.add_char b (Char.chr (48 + int_of_z r));
        cur := q
      done;
      let s = Buffer.contents b in
      let n = String.length s in
      let rev = String.init n (fun i -> s.[n - 1 - i]) in
      (if neg then "-" else "") ^ rev
    end

  let byte_tab : byte array = Array.init 256 (fun i -> zb (z_of_int i))
  let int_of_byte (b : byte) : int = int_of_z (bz b)

  let unhex s : byte list =
    if s = "-" || s = "" then [] else begin
      let n = String.length s / 2 in
      let hv c = match c with
        | '0'..'9' -> Char.code c - 48 | 'a'..'f' -> Char.code c - 87 | 'A'..'F' -> Char.code c - 55
        | _ -> failwith "bad hex" in
      List.init n (fun i -> byte_tab.(hv s.[2*i] * 16 + hv s.[2*i+1]))
    end

  let hx (l : byte list) : string =
    if l = [] then "-" else
      String.concat "" (List.map (fun b -> Printf.sprintf "%02x" (int_of_byte b)) l)

  let parse_stack s : z list option =
    if s = "nil" then None
    else if s = "-" then Some []
    else Some (List.map z_of_string (String.split_on_char ',' s))

  let b2s b = if b then "true" else "false"
end

(* float ops of the Fp model (stage-wise); output formats are those of harness/run_fp.go.
   "f64" and "dec f64" are handled by driver2.ml (x_ReadFloat64 / x_DecodeFloat64). *)
open Conv

let fuel_msg = "abn # model out of fuel"

let run_case (f : string array) : string option =
  match f.(0) with
  | "fp_parse" ->
    Some (match parseJSONFloatPrefix_m fpT (unhex f.(1)) with
        | Some ((b, n), None) -> Printf.sprintf "ok %s %s" (string_of_z b) (string_of_z n)
        | Some (_, Some _) -> "err"
        | None -> fuel_msg)
  | "fp_rf" ->
    let r = readFloat_m (unhex f.(1)) in
    Some (if not r.rf_ok then "notok"
          else Printf.sprintf "ok %s %s %s %s %s" (string_of_z r.rf_mant) (string_of_z r.rf_exp)
              (b2s r.rf_neg) (b2s r.rf_trunc) (string_of_z r.rf_p))
  | "fp_exact" ->
    Some (match atof64exact_m fpT (z_of_string f.(1)) (z_of_string f.(2)) (f.(3) = "true") with
        | Some b -> "ok " ^ string_of_z b
        | None -> "notok")
  | "fp_el" ->
    Some (match eiselLemire64_m fpT (z_of_string f.(1)) (z_of_string f.(2)) (f.(3) = "true") with
        | Some b -> "ok " ^ string_of_z b
        | None -> "notok")
  | "fp_dec" ->
    Some (match set_m (unhex f.(1)) with
        | None -> "notok"
        | Some d ->
          (match floatBits_m fpT d with
           | Some (b, ovf) -> Printf.sprintf "ok %s %s" (string_of_z b) (b2s ovf)
           | None -> fuel_msg))
  | "fp_strconv" ->   (* the SPECIFICATION: round_ne of the literal's exact value (FpSpec.parse_spec_fast,
                         proved equal to parse_spec in FpFacts.parse_spec_fast_ok) vs strconv.ParseFloat *)
    Some (match parse_spec_fast (unhex f.(1)) with
        | Some (b, false) -> "ok " ^ string_of_z b
        | Some (_, true) -> "range"
        | None -> "syntax")
  | _ -> None

let dec_case (f : string array) : string option = None
