(* Model side of the correspondence check: reads the same case lines as the Go harness,
   evaluates the extracted Coq model (model.ml, extracted with ExtrOcamlBasic only) and
   prints one observation per line in exactly the harness's format. *)
open Model

open Driver_fp.Conv

let stack_or_empty s = match parse_stack s with None -> [] | Some l -> l

let rec drop n l = if n <= 0 then l else match l with [] -> [] | _ :: r -> drop (n - 1) r

let b2s b = if b then "true" else "false"

(* ---------- handler scripts ---------- *)
let junk_havoc = List.init 12 (fun i -> z_of_int (-(i + 1)))

let mk_handler (spec : string) (data : byte list) : handler =
  let entries = if spec = "-" || spec = "" then [||] else Array.of_list (String.split_on_char ',' spec) in
  fun calls ->
    let i = List.length calls - 1 in
    let e = if i < Array.length entries then entries.(i) else "0" in
    let c = List.hd calls in
    let exact () =
      let suffix = drop (int_of_z c.c_p) data in
      match x_skipValue suffix [] with
      | MDone (p, None, _) -> p
      | _ -> Z0 in
    if e = "x" then { h_pp = exact (); h_err = None; h_havoc = [] }
    else if e = "r" then { h_pp = exact (); h_err = None; h_havoc = junk_havoc }
    else if String.length e > 0 && e.[0] = 'e' then
      (* "e<offset>" or "e<offset>@<k>": which error value it is does not matter to the model *)
      let num = String.sub e 1 (String.length e - 1) in
      let num = (match String.index_opt num '@' with Some i -> String.sub num 0 i | None -> num) in
      { h_pp = z_of_string num; h_err = Some (z_of_int 7); h_havoc = [] }
    else { h_pp = z_of_string e; h_err = None; h_havoc = [] }

let calls_str (obj : bool) (calls : call list) : string =
  if calls = [] then "-" else
    String.concat "," (List.rev_map (fun c ->
        if obj then Printf.sprintf "%s:%s" (string_of_z c.c_p) (hx c.c_key) else string_of_z c.c_p) calls)

let okp (r : mres) (n : int) : string =
  match r with
  | MDone (p, None, _) ->
    let pi = int_of_z p in
    if pi < 0 || pi > n then Printf.sprintf "ok-out-of-range %s" (string_of_z p) else "ok " ^ string_of_z p
  | MDone (_, Some _, _) -> "err"
  | MPanic _ -> "abn # model panic"
  | MFuel -> "abn # model out of fuel"

let handler_obs (r : mres) (obj : bool) (n : int) : string =
  match r with
  | MDone (p, None, s) ->
    let pi = int_of_z p in
    if pi < 0 || pi > n then Printf.sprintf "ok-out-of-range %s | %s" (string_of_z p) (calls_str obj s.s_calls)
    else Printf.sprintf "ok %s | %s" (string_of_z p) (calls_str obj s.s_calls)
  | MDone (_, Some (EHandler _), s) -> Printf.sprintf "herr | %s" (calls_str obj s.s_calls)
  | MDone (_, Some _, s) -> Printf.sprintf "err # %s" (calls_str obj s.s_calls)
  | MPanic _ -> "abn # model panic"
  | MFuel -> "abn # model out of fuel"

let pres_ok (r : (z * errk option, unit) sum) : string =
  match r with
  | Inl (p, None) -> "ok " ^ string_of_z p
  | Inl (_, Some _) -> "err"
  | Inr _ -> "abn # model"

let int_res (r : (z * z) * errk option) : string =
  match r with
  | ((v, p), None) -> Printf.sprintf "ok %s %s" (string_of_z v) (string_of_z p)
  | (_, Some _) -> "err"

let dec_res (show : 'a -> string) (r : ((z * errk option) * 'a) option) : string =
  match r with
  | None -> "abn # model"
  | Some ((p, None), v) -> Printf.sprintf "ok %s %s" (string_of_z p) (show v)
  | Some ((_, Some _), v) -> "err " ^ show v

let run_case (f : string array) : string =
  let op = f.(0) in
  match op with
  | "skip" -> let d = unhex f.(1) in okp (x_skipValue d (stack_or_empty f.(2))) (List.length d)
  | "skipfast" -> let d = unhex f.(1) in okp (x_skipValueFast d (stack_or_empty f.(2))) (List.length d)
  | "skipboth" ->
    (* C11 stated directly: where the strict skipper succeeds the fast one succeeds with the same offset *)
    let d = unhex f.(1) in
    (match x_skipValue d [], x_skipValueFast d [] with
     | MDone (p, None, _), MDone (q, None, _) when p = q -> "ok " ^ string_of_z p
     | MDone (_, Some _, _), MDone _ -> "strict-err"
     | MDone (p, None, _), MDone (q, None, _) -> "DISAGREE " ^ string_of_z p ^ " " ^ string_of_z q
     | MDone (p, None, _), MDone (_, Some _, _) -> "DISAGREE " ^ string_of_z p ^ " err"
     | _ -> "abn # model")
  | "valid" ->
    (match fst (x_Valid (unhex f.(1)) (parse_stack f.(2))) with
     | Some b -> b2s b | None -> "abn # model")
  | "harr" | "hobj" ->
    let d = unhex f.(1) in
    let h = mk_handler f.(2) d in
    let st = if f.(3) = "nobuf" then [] else stack_or_empty f.(3) in
    let r = if op = "harr" then x_handleArrayValues d h st else x_handleObjectValues d h st in
    handler_obs r (op = "hobj") (List.length d)
  | "rnull" -> pres_ok (x_ReadNull (unhex f.(1)))
  | "rbool" ->
    (match x_ReadBool (unhex f.(1)) with
     | Inl ((v, p), None) -> Printf.sprintf "ok %s %s" (b2s v) (string_of_z p)
     | Inl (_, Some _) -> "err"
     | Inr _ -> "abn # model")
  | "ntok" ->
    (match nextToken (unhex f.(1)) with
     | ((t, p), None) -> Printf.sprintf "ok %s %s" (string_of_z t) (string_of_z p)
     | (_, Some EEOF) -> "eof"
     | (_, Some _) -> "err")
  | "ntt" ->
    (match nextTokenType (unhex f.(1)) with
     | ((t, p), None) -> Printf.sprintf "ok %s %s" (string_of_z t) (string_of_z p)
     | (_, Some EEOF) -> "eof"
     | (_, Some _) -> "err")
  | "u64" -> int_res (readUint64 (unhex f.(1)))
  | "u32" -> int_res (readUint32 (unhex f.(1)))
  | "uint" -> int_res (readUint (unhex f.(1)))
  | "i64" -> int_res (readInt64 (unhex f.(1)))
  | "i32" -> int_res (readInt32 (unhex f.(1)))
  | "int" -> int_res (readInt (unhex f.(1)))
  | "rsb" ->
    (match x_ReadStringBytes (unhex f.(1)) (unhex f.(2)) with
     | Some ((v, p), None) -> Printf.sprintf "ok %s %s" (string_of_z p) (hx v)
     | Some (_, Some _) -> "err"
     | None -> "abn # model")
  | "rs" ->
    let buf = if f.(2) = "nil" then None else Some (unhex f.(2)) in
    (match x_ReadString (unhex f.(1)) buf with
     | Some (((v, p), None), _) -> Printf.sprintf "ok %s %s" (string_of_z p) (hx v)
     | Some ((_, Some _), _) -> "err"
     | None -> "abn # model")
  | "usc" | "aros" ->
    let fn = if op = "usc" then x_UnescapeStringContent else x_appendRemainderOfString in
    (match fn (unhex f.(1)) (unhex f.(2)) with
     | Some ((v, p), None) -> Printf.sprintf "ok %s %s" (string_of_z p) (hx v)
     | Some (_, Some _) -> "err"
     | None -> "abn # model")
  | "sfd" | "sfe" ->
    let fn = if op = "sfd" then skipFloatDec else skipFloatExp in
    let (p, e) = fn (unhex f.(1)) (z_of_string f.(2)) in
    Printf.sprintf "%s %s" (string_of_z p) (b2s (e = None))
  | "getu4" -> string_of_z (getu4 (unhex f.(1)))
  | "uuc" ->
    let ((r, n), ok) = unescapeUnicodeChar (unhex f.(1)) (unhex f.(2)) in
    Printf.sprintf "%s %s %s" (hx r) (string_of_z n) (b2s ok)
  | "dec" ->
    let ty = f.(1) and d = unhex f.(2) and init = f.(3) in
    (match ty with
     | "i64" -> dec_res string_of_z (x_DecodeInt64 d (z_of_string init))
     | "i32" -> dec_res string_of_z (x_DecodeInt32 d (z_of_string init))
     | "int" -> dec_res string_of_z (x_DecodeInt d (z_of_string init))
     | "u64" -> dec_res string_of_z (x_DecodeUint64 d (z_of_string init))
     | "u32" -> dec_res string_of_z (x_DecodeUint32 d (z_of_string init))
     | "uint" -> dec_res string_of_z (x_DecodeUint d (z_of_string init))
     | "bool" -> dec_res b2s (x_DecodeBool d (init = "true"))
     | "str" ->
       let buf = if Array.length f > 4 && f.(4) <> "nil" then Some (unhex f.(4)) else None in
       dec_res hx (x_DecodeString d (unhex init) buf)
     | _ -> Driver2.dec_case f)
  | _ -> (match Driver_fp.run_case f with Some r -> r | None -> Driver2.run_case f)

exception Model_timeout
let n_timeouts = ref 0

let () =
  Sys.set_signal Sys.sigalrm (Sys.Signal_handle (fun _ -> raise Model_timeout));
  Driver2.handler_of := mk_handler;
  Driver2.handler_obs_ref := handler_obs;
  let out = Buffer.create (1 lsl 16) in
  (try
     while true do
       let line = input_line stdin in
       let line = String.trim line in
       if line = "" || line.[0] = '#' then Buffer.add_string out "\n"
       else begin
         let f = Array.of_list (List.filter (fun s -> s <> "") (String.split_on_char ' ' line)) in
         (* a runaway evaluation (only seen on broken tables) is cut after 20 s; once that has happened
            the limit drops to 2 s, and after 25 such cases the rest of the shard is not evaluated
            (broken tables would otherwise keep the check busy for hours) *)
         let r = if !n_timeouts >= 25 then "abn # model timeout (not evaluated after 25 cases that did not finish)" else begin
         ignore (Unix.alarm (if !n_timeouts > 0 then 2 else 20));
         (try (let r = (if Array.length Sys.argv > 1 && Sys.argv.(1) = "--spec" then Driver2.spec_case f else run_case f) in
                       ignore (Unix.alarm 0); r) with
             | Model_timeout -> incr n_timeouts; "abn # model timeout"
             | Failure m -> "DRIVER-ERROR " ^ m
             | Stack_overflow -> "DRIVER-ERROR stack overflow"
             | Not_found -> "DRIVER-ERROR not found") end in
         Buffer.add_string out r; Buffer.add_char out '\n'
       end;
       if Buffer.length out > 60000 then (print_string (Buffer.contents out); Buffer.clear out)
     done
   with End_of_file -> ());
  print_string (Buffer.contents out)
