module harness

go 1.21

require github.com/willabides/rjson v0.0.0

replace github.com/willabides/rjson => /repo
