package main

// Library / reference oracles: for a case line, what the PROPERTY says the projected
// observation must be, computed without rjson (encoding/json, strconv, math/big,
// unicode/utf8 and small reference routines written from the property text).
// "-" means: no oracle for this case.

import (
	"bufio"
	"bytes"
	"encoding/json"
	"fmt"
	"math/big"
	"os"
	"strconv"
	"strings"
	"unicode/utf8"
)

func isWS(b byte) bool { return b == ' ' || b == '\t' || b == '\r' || b == '\n' }

func skipWS(d []byte, p int) int {
	for p < len(d) && isWS(d[p]) {
		p++
	}
	return p
}

// skipCompat: the (ok, offset) pair of encoding/json's streaming decoder
// (same construction as the repository's skipValueCompat).
func skipCompat(data []byte) (int, bool) {
	dec := json.NewDecoder(bytes.NewReader(data))
	dec.UseNumber()
	tkn, err := dec.Token()
	if err != nil {
		return 0, false
	}
	if _, ok := tkn.(json.Delim); !ok {
		return int(dec.InputOffset()), true
	}
	dec = json.NewDecoder(bytes.NewReader(data))
	dec.UseNumber()
	var raw json.RawMessage
	if err := dec.Decode(&raw); err != nil {
		return 0, false
	}
	return int(dec.InputOffset()), true
}

// refInt: reference for the integer readers, from the text of C05:
// optional ws; optional '-' (signed only); 0 | [1-9][0-9]* by maximal munch; error if the
// next byte is . e E; error if out of [lo, hi].
func refInt(d []byte, signed bool, lo, hi *big.Int) string {
	p := skipWS(d, 0)
	neg := false
	if signed && p < len(d) && d[p] == '-' {
		neg = true
		p++
	}
	st := p
	if p < len(d) && d[p] == '0' {
		p++
	} else {
		for p < len(d) && d[p] >= '0' && d[p] <= '9' {
			p++
		}
	}
	if p == st {
		return "err"
	}
	if p < len(d) && (d[p] == '.' || d[p] == 'e' || d[p] == 'E') {
		return "err"
	}
	v, _ := new(big.Int).SetString(string(d[st:p]), 10)
	if neg {
		v.Neg(v)
	}
	if v.Cmp(lo) < 0 || v.Cmp(hi) > 0 {
		return "err"
	}
	return fmt.Sprintf("ok %s %d", v.String(), p)
}

func bigs(s string) *big.Int { v, _ := new(big.Int).SetString(s, 10); return v }

var intRanges = map[string][3]interface{}{
	"u64":  {false, bigs("0"), bigs("18446744073709551615")},
	"uint": {false, bigs("0"), bigs("18446744073709551615")},
	"u32":  {false, bigs("0"), bigs("4294967295")},
	"i64":  {true, bigs("-9223372036854775808"), bigs("9223372036854775807")},
	"int":  {true, bigs("-9223372036854775808"), bigs("9223372036854775807")},
	"i32":  {true, bigs("-2147483648"), bigs("2147483647")},
}

// members: start offsets (and raw keys) of the members of the array/object at the start of
// data, using encoding/json only for value extents.  ok=false if not an array/object.
type member struct {
	p   int
	key []byte
}

func valueEnd(d []byte) (int, bool) { return skipCompat(d) }

func members(d []byte, obj bool) ([]member, int, bool) {
	p := skipWS(d, 0)
	open, closeb := byte('['), byte(']')
	if obj {
		open, closeb = '{', '}'
	}
	if p >= len(d) || d[p] != open {
		return nil, 0, false
	}
	p++
	var ms []member
	first := true
	for {
		p = skipWS(d, p)
		if p >= len(d) {
			return nil, 0, false
		}
		if d[p] == closeb {
			if !first && false {
				return nil, 0, false
			}
			return ms, p + 1, true
		}
		if !first {
			if d[p] != ',' {
				return nil, 0, false
			}
			p = skipWS(d, p+1)
		}
		first = false
		var key []byte
		if obj {
			if p >= len(d) || d[p] != '"' {
				return nil, 0, false
			}
			e, ok := valueEnd(d[p:])
			if !ok {
				return nil, 0, false
			}
			key = d[p+1 : p+e-1]
			p = skipWS(d, p+e)
			if p >= len(d) || d[p] != ':' {
				return nil, 0, false
			}
			p = skipWS(d, p+1)
		}
		if p >= len(d) {
			return nil, 0, false
		}
		e, ok := valueEnd(d[p:])
		if !ok {
			return nil, 0, false
		}
		ms = append(ms, member{p, key})
		p += e
	}
}

// maxDepth: maximal bracket nesting outside string tokens (upper bound, no validation)
func maxDepth(d []byte) int {
	depth, max := 0, 0
	inStr := false
	for i := 0; i < len(d); i++ {
		c := d[i]
		if inStr {
			if c == '\\' {
				i++
			} else if c == '"' {
				inStr = false
			}
			continue
		}
		switch c {
		case '"':
			inStr = true
		case '[', '{':
			depth++
			if depth > max {
				max = depth
			}
		case ']', '}':
			depth--
		}
	}
	return max
}

func wellBehaved(spec string) bool {
	if spec == "-" || spec == "" {
		return true
	}
	for _, e := range strings.Split(spec, ",") {
		if e != "0" && e != "x" && e != "r" {
			return false
		}
	}
	return true
}

// sanitize: the text of C17 - each byte that is not part of a valid UTF-8 sequence -> U+FFFD
func sanitize(b []byte) []byte {
	var out []byte
	for i := 0; i < len(b); {
		r, w := utf8.DecodeRune(b[i:])
		if r == utf8.RuneError && w == 1 {
			out = append(out, 0xEF, 0xBF, 0xBD)
		} else {
			out = append(out, b[i:i+w]...)
		}
		i += w
	}
	return out
}

func oracleCase(f []string) string {
	switch f[0] {
	case "valid":
		return b2s(json.Valid(unhex(f[1])))
	case "skip":
		p, ok := skipCompat(unhex(f[1]))
		if !ok {
			return "err"
		}
		return "ok " + strconv.Itoa(p)
	case "skipfast":
		// C11: wherever SkipValue (by the library oracle) succeeds, SkipValueFast gives the same
		p, ok := skipCompat(unhex(f[1]))
		if !ok {
			return "-"
		}
		return "ok " + strconv.Itoa(p)
	case "u64", "uint", "u32", "i64", "int", "i32":
		r := intRanges[f[0]]
		return refInt(unhex(f[1]), r[0].(bool), r[1].(*big.Int), r[2].(*big.Int))
	case "harr", "hobj":
		if !wellBehaved(f[2]) {
			if r := oracleHandlerError(f); r != "-" {
				return r
			}
			return oracleOutOfRange(f)
		}
		d := unhex(f[1])
		obj := f[0] == "hobj"
		if maxDepth(d) > 10000 {
			return "-" // C07 is stated for inputs nested at most 10,000 deep
		}
		// null is accepted
		p0 := skipWS(d, 0)
		if bytes.HasPrefix(d[p0:], []byte("null")) {
			return fmt.Sprintf("ok %d | -", p0+4)
		}
		ms, end, ok := members(d, obj)
		if !ok {
			return "err"
		}
		if len(ms) == 0 {
			return fmt.Sprintf("ok %d | -", end)
		}
		var parts []string
		for _, m := range ms {
			if obj {
				parts = append(parts, fmt.Sprintf("%d:%s", m.p, hx(m.key)))
			} else {
				parts = append(parts, strconv.Itoa(m.p))
			}
		}
		return fmt.Sprintf("ok %d | %s", end, strings.Join(parts, ","))
	case "rnull":
		d := unhex(f[1])
		p := skipWS(d, 0)
		if bytes.HasPrefix(d[p:], []byte("null")) {
			return "ok " + strconv.Itoa(p+4)
		}
		return "err"
	case "rbool":
		d := unhex(f[1])
		p := skipWS(d, 0)
		if bytes.HasPrefix(d[p:], []byte("true")) {
			return fmt.Sprintf("ok true %d", p+4)
		}
		if bytes.HasPrefix(d[p:], []byte("false")) {
			return fmt.Sprintf("ok false %d", p+5)
		}
		return "err"
	case "ntok", "ntt":
		d := unhex(f[1])
		p := skipWS(d, 0)
		if p >= len(d) {
			return "eof"
		}
		tt := refTokType(d[p])
		if f[0] == "ntt" {
			return fmt.Sprintf("ok %d %d", tt, p+1)
		}
		if tt == 0 {
			return "err"
		}
		return fmt.Sprintf("ok %d %d", d[p], p+1)
	}
	if r, ok := oracleCase2(f); ok {
		return r
	}
	return "-"
}

// the fixed JSON token table, from the text of C13
func refTokType(b byte) int {
	switch {
	case b == 'n':
		return 1
	case b == '"':
		return 2
	case b == '-' || (b >= '0' && b <= '9'):
		return 3
	case b == 't':
		return 4
	case b == 'f':
		return 5
	case b == '{':
		return 6
	case b == '}':
		return 7
	case b == '[':
		return 8
	case b == ']':
		return 9
	case b == ',':
		return 10
	case b == ':':
		return 11
	}
	return 0
}

func cmdOracle() {
	sc := bufio.NewScanner(os.Stdin)
	sc.Buffer(make([]byte, 1<<20), 1<<28)
	w := bufio.NewWriterSize(os.Stdout, 1<<20)
	defer w.Flush()
	for sc.Scan() {
		f := strings.Fields(sc.Text())
		if len(f) == 0 || strings.HasPrefix(f[0], "#") {
			fmt.Fprintln(w, "")
			continue
		}
		r := func() (res string) {
			defer func() {
				if e := recover(); e != nil {
					res = "-"
				}
			}()
			return oracleCase(f)
		}()
		fmt.Fprintln(w, r)
	}
}

// oracleOutOfRange: C10, last sentence.  For a well-formed array/object whose first k calls are
// answered well-behavedly (0 or the exact offset) and whose call k is answered (v, nil) with an
// offset v that does not fit inside the input (v < 0 or p_k + v > len), the traversal must fail.
func oracleOutOfRange(f []string) string {
	d := unhex(f[1])
	if maxDepth(d) > 10000 {
		return "-"
	}
	ms, _, ok := members(d, f[0] == "hobj")
	if !ok {
		return "-"
	}
	entries := strings.Split(f[2], ",")
	for k, e := range entries {
		if k >= len(ms) {
			return "-"
		}
		if e == "0" || e == "x" || e == "r" {
			continue
		}
		v, err := strconv.ParseInt(e, 10, 64)
		if err != nil {
			return "-" // an error entry or something else: not this oracle's business
		}
		if v < 0 || int64(ms[k].p)+v > int64(len(d)) || int64(ms[k].p)+v < 0 {
			site := "consumed"
			if strings.IndexByte("-0123456789tfn", d[ms[k].p]) >= 0 {
				site = "simple-value-offset-ignored"
			}
			return "err # site=" + site
		}
		return "-" // an in-range but wrong offset: behaviour unspecified
	}
	return "-"
}

// oracleHandlerError: C09.  For a well-formed array/object whose first k calls are answered
// well-behavedly and whose call k is answered with an error (script entry eN, any offset N),
// the traversal must return that very error after exactly k+1 calls (the members in order).
func oracleHandlerError(f []string) string {
	d := unhex(f[1])
	if maxDepth(d) > 10000 {
		return "-"
	}
	obj := f[0] == "hobj"
	ms, _, ok := members(d, obj)
	if !ok {
		return "-"
	}
	for k, e := range strings.Split(f[2], ",") {
		if k >= len(ms) {
			return "-"
		}
		if e == "0" || e == "x" || e == "r" {
			continue
		}
		if !strings.HasPrefix(e, "e") {
			return "-"
		}
		var parts []string
		for _, m := range ms[:k+1] {
			if obj {
				parts = append(parts, fmt.Sprintf("%d:%s", m.p, hx(m.key)))
			} else {
				parts = append(parts, strconv.Itoa(m.p))
			}
		}
		return "herr | " + strings.Join(parts, ",")
	}
	return "-"
}
