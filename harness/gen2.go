package main

// Per-property generator suites.

import (
	"fmt"
	"math/big"
	"sort"
	"strings"
)

var valuePool = []string{"null", "true", "false", "0", "-0", "12", "-1.5", "1e5", "2E-3", "0.0e+0", `""`, `"a"`, `"\n\"\\"`, `"é😀"`,
	"[]", "[ ]", "{}", "{ }", "[1]", "[1,2]", `["]"]`, `{"a":1}`, `{"a":[1,{"b":null}],"c":"}"}`, "[[[]]]", `[{"":""}]`, "[1 , 2]", "[\n1\n]"}

func docsAndMutants(e *emitter, r *rng, n, muts int, f func(d []byte)) {
	for i := 0; i < n; i++ {
		d := genDoc(r)
		f(d)
		for j := 0; j < muts; j++ {
			f(mutate(r, d))
		}
	}
}

func depthDocs(thorough bool) [][]byte {
	var out [][]byte
	depths := []int{9999, 10000, 10001}
	if thorough {
		depths = []int{9998, 9999, 10000, 10001, 10002}
	}
	shapes := [][3]string{{"[", "]", "1"}, {`{"a":`, "}", "1"}, {`[{"a":`, "}]", "null"}, {`{"k":[`, "]}", `""`}}
	for _, n := range depths {
		for _, sh := range shapes {
			per := strings.Count(sh[0], "[") + strings.Count(sh[0], "{")
			out = append(out, nest(sh[0], sh[1], n/per, sh[2]))
			if per == 2 && n%2 == 1 {
				// odd depth with a mixed shape: one extra array level outside
				out = append(out, []byte("["+string(nest(sh[0], sh[1], n/per, sh[2]))+"]"))
			}
		}
	}
	return out
}

// withFloat: float ops are emitted only once the Coq float model is wired into the driver
var withFloat = true

func fops(ops []string) []string {
	if withFloat {
		return ops
	}
	var r []string
	for _, o := range ops {
		if o != "f64" {
			r = append(r, o)
		}
	}
	return r
}

func init() {
	// C01: Valid == RFC 8259 (oracle json.Valid), any buffer
	suites["c01"] = func(e *emitter, r *rng, thorough bool) {
		n := 2
		if thorough {
			n = 4
		}
		small := alphabet
		if thorough {
			small = []byte("[]{},:\"\\utn10-.e \x1f\x80")
		}
		allStrings(small, n, func(b []byte) { e.emit("valid %s nil", hs(b)) })
		usedBufferHistories(e, []string{"valid"}, false) // "previously used" Buffers
		nearClassRuns("digits", func(v []byte) {
			e.emit("valid %s nil", hs(v))
			e.emit("valid %s nil", hs(append(append([]byte("[0."), v...), ']')))
			e.emit("valid %s nil", hs(append(append([]byte("1e"), v[:min(len(v), 12)]...), ' ')))
		})
		aroundValues(func(d []byte) {
			e.emit("valid %s nil", hs(d))
			e.emit("valid %s -", hs(d))
		})
		nearClassRuns("strchars", func(v []byte) {
			e.emit("valid %s nil", hs(append(append([]byte{'"'}, v...), '"')))
			e.emit("valid %s nil", hs(append(append([]byte(`{"`), v...), []byte(`":1}`)...)))
		})
		nearClassRuns("spaces", func(v []byte) {
			e.emit("valid %s nil", hs(append(append([]byte{}, v...), '1')))
			e.emit("valid %s nil", hs(append(append([]byte("[1,"), v...), []byte("2]")...)))
			e.emit("valid %s nil", hs(append(append([]byte("1"), v...), 'x')))
			e.emit("valid %s nil", hs(append([]byte("1"), v...)))
		})
		if !thorough {
			// sampled length 3-4
			for i := 0; i < 20000; i++ {
				b := make([]byte, 3+r.intn(2))
				for j := range b {
					b[j] = alphabet[r.intn(len(alphabet))]
				}
				e.emit("valid %s %s", hs(b), r.stack())
			}
		}
		docs := 3000
		if thorough {
			docs = 60000
		}
		docsAndMutants(e, r, docs, 3, func(d []byte) { e.emit("valid %s %s", hs(d), r.stack()) })
		for _, v := range valuePool {
			for _, pre := range []string{"", " ", "\t\r\n"} {
				for _, post := range []string{"", " ", "\n\n", "x", " 1", ",", "]", "\x00", "\x0c"} {
					e.emit("valid %s %s", hs([]byte(pre+v+post)), r.stack())
				}
			}
		}
		for _, d := range depthDocs(thorough) {
			for _, st := range []string{"nil", "-", "7,7,7"} {
				e.emit("valid %s %s", hs(d), st)
			}
		}
	}
	// C02: SkipValue exact end (oracle: streaming decoder)
	suites["c02"] = func(e *emitter, r *rng, thorough bool) {
		n := 2
		if thorough {
			n = 3
		}
		allStrings(alphabet, n, func(b []byte) { e.emit("skip %s nil", hs(b)) })
		usedBufferHistories(e, []string{"skip"}, false)
		nearClassRuns("digits", func(v []byte) {
			e.emit("skip %s nil", hs(v))
			e.emit("skip %s nil", hs(append([]byte("-0."), v...)))
		})
		aroundValues(func(d []byte) {
			e.emit("skip %s nil", hs(d))
			e.emit("skip %s 7,7", hs(d))
		})
		nearClassRuns("strchars", func(v []byte) {
			e.emit("skip %s nil", hs(append(append([]byte{'"'}, v...), []byte(`" x`)...)))
			e.emit("skip %s nil", hs(append(append([]byte(`["`), v...), []byte(`"]`)...)))
		})
		nearClassRuns("spaces", func(v []byte) {
			e.emit("skip %s nil", hs(append(append([]byte{}, v...), []byte("true x")...)))
			e.emit("skip %s nil", hs(append(append([]byte("[1"), v...), []byte(",2]")...)))
		})
		// every value followed by every possible next byte
		for _, v := range valuePool {
			for c := 0; c < 256; c++ {
				if thorough || c < 128 || c%16 == 0 {
					e.emit("skip %s %s", hs(append([]byte(v), byte(c))), r.stack())
				}
			}
			// truncations at every position
			for i := 0; i <= len(v); i++ {
				e.emit("skip %s nil", hs([]byte(v[:i])))
			}
		}
		docs := 2000
		if thorough {
			docs = 50000
		}
		docsAndMutants(e, r, docs, 3, func(d []byte) {
			e.emit("skip %s %s", hs(d), r.stack())
			if r.chance(1, 4) {
				for i := 0; i <= len(d) && i < 64; i++ {
					e.emit("skip %s nil", hs(d[:i]))
				}
			}
		})
		for _, d := range depthDocs(thorough) {
			e.emit("skip %s nil", hs(d))
			e.emit("skip %s 1,2,3", hs(d))
		}
	}
	// C11: fast agrees with strict on well-formed values
	suites["c11"] = func(e *emitter, r *rng, thorough bool) {
		usedBufferHistories(e, []string{"skipfast"}, false)
		aroundValues(func(d []byte) { e.emit("skipfast %s nil", hs(d)) })
		nearClassRuns("strchars", func(v []byte) {
			e.emit("skipfast %s nil", hs(append(append([]byte(`["`), v...), []byte(`"]`)...)))
			e.emit("skipfast %s nil", hs(append(append([]byte(`{"k":"`), v...), []byte(`"} `)...)))
		})
		nearClassRuns("spaces", func(v []byte) {
			e.emit("skipfast %s nil", hs(append(append([]byte("[1"), v...), []byte(",[2]]")...)))
			e.emit("skipfast %s nil", hs(append(append([]byte{}, v...), []byte(`{"a":1}`)...)))
		})
		nearClassRuns("digits", func(v []byte) {
			e.emit("skipfast %s nil", hs(append(append([]byte("[0."), v...), ']')))
			e.emit("skipfast %s nil", hs(v))
		})
		strs := []string{`"]"`, `"["`, `"}"`, `"{"`, `"\""`, `"\\"`, `"\\\""`, `"]\"["`, `"a]"`, `"]"`, `""`}
		for _, s1 := range strs {
			for _, s2 := range strs {
				for _, tmpl := range []string{"[%s,%s]", `{%s:%s}`, `[[%s],{"k":%s}]`, `{"a":[%s],"b":{"c":%s}}`, `[{%s:[{%s:[]}]}]`} {
					d := fmt.Sprintf(tmpl, s1, s2)
					for c := 0; c < 256; c += 1 {
						if thorough || c%23 == 0 || c == ']' || c == '}' || c == ' ' || c == ',' {
							e.emit("skipfast %s nil", hs(append([]byte(d), byte(c))))
						}
					}
					e.emit("skipfast %s %s", hs([]byte(d)), r.stack())
				}
			}
		}
		docs := 4000
		if thorough {
			docs = 80000
		}
		for i := 0; i < docs; i++ {
			d := genDoc(r)
			e.emit("skipfast %s %s", hs(d), r.stack())
			e.emit("skip %s %s", hs(d), r.stack())
			if r.chance(1, 3) {
				e.emit("skipfast %s nil", hs(mutate(r, d)))
			}
		}
		for _, v := range valuePool {
			for c := 0; c < 256; c++ {
				if thorough || c%7 == 0 {
					e.emit("skipfast %s nil", hs(append([]byte(v), byte(c))))
				}
			}
		}
		for _, d := range depthDocs(thorough) {
			e.emit("skipfast %s nil", hs(d))
		}
	}
	// C07: well-behaved handlers see each member once, in order
	suites["c07"] = func(e *emitter, r *rng, thorough bool) {
		usedBufferHistories(e, []string{"skip"}, true) // traversal still validates, whatever Buffer it is given
		for _, cl := range []string{"strchars", "digits", "spaces"} {
			cl := cl
			nearClassRuns(cl, func(v []byte) {
				var m []byte
				switch cl {
				case "strchars":
					m = append(append([]byte{'"'}, v...), '"')
				case "digits":
					m = append([]byte("0."), v...)
				default:
					m = append(append([]byte("1"), v...), []byte(",2")...)
				}
				e.emit("harr %s 0,0,0 nil", hs(append(append([]byte("[[1],"), m...), ']')))
				e.emit("harr %s x,x,x -", hs(append(append([]byte("["), m...), []byte(",[]]")...)))
				e.emit("hobj %s 0,x,0 nil", hs(append(append([]byte(`{"a":{},"k":`), m...), '}')))
			})
		}
		// exhaustive strategy vectors for documents with <= 4 (quick) / 6 (thorough) members
		maxm := 4
		if thorough {
			maxm = 6
		}
		elems := []string{"1", `"s"`, "null", "true", "[1,2]", `{"a":[]}`, "-0.5e1", `"é]"`, "[]", "{}", "false", `[[1],"]"]`}
		for m := 0; m <= maxm; m++ {
			for rep := 0; rep < 3; rep++ {
				var vals, kvs []string
				for i := 0; i < m; i++ {
					v := r.pick(elems)
					vals = append(vals, r.pick(wsPool)+v+r.pick(wsPool))
					kvs = append(kvs, r.pick(wsPool)+r.pick(stringPool)+r.pick(wsPool)+":"+r.pick(wsPool)+v+r.pick(wsPool))
				}
				arr := r.pick(wsPool) + "[" + strings.Join(vals, ",") + "]" + r.pick([]string{"", " ", "x"})
				obj := r.pick(wsPool) + "{" + strings.Join(kvs, ",") + "}" + r.pick([]string{"", " ", "x"})
				if m == 0 {
					arr, obj = "["+r.pick(wsPool)+"]", "{"+r.pick(wsPool)+"}"
				}
				for mask := 0; mask < 1<<uint(m); mask++ {
					var sc []string
					for i := 0; i < m; i++ {
						if mask>>uint(i)&1 == 1 {
							sc = append(sc, "x")
						} else {
							sc = append(sc, "0")
						}
					}
					s := strings.Join(sc, ",")
					if s == "" {
						s = "-"
					}
					e.emit("harr %s %s %s", hs([]byte(arr)), s, r.stack())
					e.emit("hobj %s %s %s", hs([]byte(obj)), s, r.stack())
				}
			}
		}
		docs := 3000
		if thorough {
			docs = 60000
		}
		docsAndMutants(e, r, docs, 2, func(d []byte) {
			e.emit("harr %s %s %s", hs(d), genScript(r, true), r.stack())
			e.emit("hobj %s %s %s", hs(d), genScript(r, true), r.stack())
		})
		allStrings(alphabet, 2, func(b []byte) {
			e.emit("harr %s x nil", hs(b))
			e.emit("hobj %s 0 nil", hs(b))
		})
	}
	// C09: handler error at call k with any accompanying offset
	suites["c09"] = func(e *emitter, r *rng, thorough bool) {
		offs := []string{"0", "1", "5", "-1", "100", "9223372036854775807", "-9223372036854775808", "4294967296"}
		docs := 1500
		if thorough {
			docs = 30000
		}
		for i := 0; i < docs; i++ {
			m := 1 + r.intn(5)
			var vals, kvs []string
			for j := 0; j < m; j++ {
				v := r.pick(valuePool)
				vals = append(vals, v)
				kvs = append(kvs, r.pick(stringPool)+":"+v)
			}
			arr := "[" + strings.Join(vals, " , ") + "]"
			obj := "{" + strings.Join(kvs, ",") + "}"
			k := r.intn(m + 1)
			var sc []string
			for j := 0; j < k; j++ {
				sc = append(sc, r.pick([]string{"0", "x"}))
			}
			sc = append(sc, "e"+r.pick(offs))
			for j := 0; j < 2; j++ {
				sc = append(sc, r.pick([]string{"0", "x", "e0"}))
			}
			s := strings.Join(sc, ",")
			e.emit("harr %s %s %s", hs([]byte(arr)), s, r.stack())
			e.emit("hobj %s %s %s", hs([]byte(obj)), s, r.stack())
			if r.chance(1, 3) {
				e.emit("harr %s %s nobuf", hs(mutate(r, []byte(arr))), s)
				e.emit("hobj %s %s nobuf", hs(mutate(r, []byte(obj))), s)
			}
		}
	}
	// (C09 continued) every value kind at every member position, failing call at every index
	c09more := suites["c09"]
	suites["c09"] = func(e *emitter, r *rng, thorough bool) {
		c09more(e, r, thorough)
		vals := []string{"0", "0.5", "0e1", "-0", "1", "12", "-1.5", "true", "false", "null", `"s"`, `""`, "[]", "[1]", "{}", `{"a":0}`, `[[0]]`}
		offs := []string{"0", "1", "-1", "3", "100", "-100", "9223372036854775807", "-9223372036854775808"}
		for _, v1 := range vals {
			for _, v2 := range vals {
				arr := "[" + v1 + "," + v2 + "," + r.pick(vals) + "]"
				obj := `{"a":` + v1 + `,"b":` + v2 + `,"c":` + r.pick(vals) + "}"
				for k := 0; k < 3; k++ {
					sc := strings.Repeat(r.pick([]string{"0,", "x,"}), k) + "e" + r.pick(offs)
					e.emit("harr %s %s %s", hs([]byte(arr)), sc, r.stack())
					e.emit("hobj %s %s %s", hs([]byte(obj)), sc, r.stack())
				}
			}
		}
	}
	// (C09 continued) the failing call returns one of the library's OWN error values (what a handler
	// gets by delegating to SkipValue / ReadString / ... on a truncated or malformed member), with the
	// offsets 0, exact end of the member, number of bytes left, and beyond
	c09lib := suites["c09"]
	suites["c09"] = func(e *emitter, r *rng, thorough bool) {
		c09lib(e, r, thorough)
		docsA := []string{`[1,[2,3],"s",{"k":4},null]`, `[[1],"x"]`, `["s"]`, `[true, {"a":`, `[1,[2,`, `[[`,
			`[1, tru]`, `[1, 2x]`, `[-]`, `[0, 1.]`, `[1, 2`, `[nul`, `[null,nulx]`, `[false,1e]`, `[0, "abc`, `[1,-`}
		docsO := []string{`{"a":1,"b":[2,3],"c":"s","d":{"k":4},"e":null}`, `{"a":[1],"b":"x"}`, `{"a":"xyz`, `{"a":{"b":`, `{"a":[`,
			`{"a":1,"b":tru}`, `{"a":2x}`, `{"a":-}`, `{"a":0,"b":1.}`, `{"a":1,"b":2`, `{"a":nul`, `{"a":null,"b":nulx}`, `{"a":1,"b":null,"c":3}`}
		for k := 0; k < 26; k++ {
			for _, d := range docsA {
				for pos := 0; pos < 4; pos++ {
					for _, off := range []string{"0", "1", "3", fmt.Sprint(len(d)), "100"} {
						sc := strings.Repeat("x,", pos) + "e" + off + "@" + fmt.Sprint(k)
						e.emit("harr %s %s %s", hs([]byte(d)), sc, r.pick([]string{"nobuf", "nil", "-", "7,7"}))
						if k == 0 {
							e.emit("harr %s %s nobuf", hs([]byte(d)), strings.Repeat("0,", pos)+"e"+off)
						}
					}
				}
			}
			for _, d := range docsO {
				for pos := 0; pos < 4; pos++ {
					for _, off := range []string{"0", "1", "3", fmt.Sprint(len(d)), "100"} {
						sc := strings.Repeat("x,", pos) + "e" + off + "@" + fmt.Sprint(k)
						e.emit("hobj %s %s %s", hs([]byte(d)), sc, r.pick([]string{"nobuf", "nil", "-", "7,7"}))
						if k == 0 {
							e.emit("hobj %s %s nobuf", hs([]byte(d)), strings.Repeat("0,", pos)+"e"+off)
						}
					}
				}
			}
		}
	}
	// C10: hostile handler returns, junk stacks, every entry point
	suites["c10"] = func(e *emitter, r *rng, thorough bool) {
		hostile := []string{"-9223372036854775808", "-4294967296", "-1", "0", "1", "2", "3", "x", "2147483648", "4294967296",
			"9223372036854775807", "9223372036854775806", "9223372036854775805", "9223372036854775804"}
		docs := 1200
		if thorough {
			docs = 30000
		}
		for i := 0; i < docs; i++ {
			d := genDoc(r)
			if r.chance(1, 3) {
				d = mutate(r, d)
			}
			n := len(d)
			var sc []string
			for j := 0; j < 1+r.intn(4); j++ {
				switch r.intn(4) {
				case 0:
					sc = append(sc, fmt.Sprint(n-r.intn(3)))
				case 1:
					sc = append(sc, fmt.Sprint(n+r.intn(3)))
				default:
					sc = append(sc, r.pick(hostile))
				}
			}
			s := strings.Join(sc, ",")
			e.emit("harr %s %s %s", hs(d), s, r.stack())
			e.emit("hobj %s %s %s", hs(d), s, r.stack())
			machineOps(e, r, d)
		}
		// every hostile value at every call index of fixed documents
		for _, doc := range []string{`[ "a", [1], {"k":2}, 3 ]`, `{"a": "x", "b": [1,2], "c": {"d":null}, "e": 1.5}`, `[[["x"]]]`, `{"a":{"b":{"c":"y"}}}`} {
			for k := 0; k < 4; k++ {
				for _, hv := range hostile {
					sc := append(strings.Split(strings.Repeat("x,", k), ","), hv)
					s := strings.Trim(strings.Join(sc, ","), ",")
					s = strings.ReplaceAll(s, ",,", ",")
					e.emit("harr %s %s %s", hs([]byte(doc)), s, r.stack())
					e.emit("hobj %s %s %s", hs([]byte(doc)), s, r.stack())
				}
			}
		}
		allStrings(alphabet, 2, func(b []byte) {
			h := hs(b)
			e.emit("harr %s 1,1,1 7,7", h)
			e.emit("hobj %s 2,x,-1 -", h)
			for _, op := range fops([]string{"rnull", "rbool", "ntok", "ntt", "u64", "i64", "i32", "u32", "int", "uint", "f64"}) {
				e.emit("%s %s", op, h)
			}
			e.emit("rsb %s - 0", h)
			e.emit("rs %s nil", h)
			e.emit("usc %s -", h)
		})
		// every exported function on boundary / hostile inputs and buffer states
		for _, ex := range []string{"347", "348", "349", "350", "-347", "-348", "-349", "-350", "308", "309", "-324", "-325", "22", "23", "37", "38", "-22", "-23", "400", "-400", "99999", "100000"} {
			for _, m := range []string{"1", "9", "12", "1.5", "0.00000000001", "9999999999999999999", "18446744073709551616", "123456789012345678901234567890", "0"} {
				for _, sg := range []string{"", "-"} {
					lit := sg + m + "e" + ex
					e.emit("f64 %s", hs([]byte(lit)))
					e.emit("rv %s", hs([]byte("["+lit+"]")))
					e.emit("dec f64 %s 0", hs([]byte(lit)))
				}
			}
		}
		for _, n := range []int{300, 366, 367, 368, 400, 799, 800, 801, 1000} {
			e.emit("f64 %s", hs([]byte(strings.Repeat("7", n))))
			e.emit("f64 %s", hs([]byte("0."+strings.Repeat("0", n)+"7")))
			e.emit("f64 %s", hs([]byte(strings.Repeat("1", n)+"e-"+fmt.Sprint(n))))
		}
		compatIn := []string{"a", "\xff", "é", "😀", "\xff\xfe\xfd", "abc\xffdef", "", "\xf0\x9f", "\xed\xa0\x80"}
		for _, s := range compatIn {
			s = strings.NewReplacer("\\xff", "\xff", "\\xfe", "\xfe", "\\xfd", "\xfd", "\\xf0", "\xf0", "\\x9f", "\x9f", "\\xed", "\xed", "\\xa0", "\xa0", "\\x80", "\x80").Replace(s)
			for ln := 0; ln <= 12; ln++ {
				for extra := 0; extra <= 6; extra++ {
					e.emit("compatb %s %s %d", hs([]byte(s)), hs([]byte(strings.Repeat("b", ln))), extra)
					if ln%4 == 0 {
						e.emit("frame rsb %s %s %d", hs([]byte(`"`+s+`\n"`)), hs([]byte(strings.Repeat("b", ln))), extra)
						e.emit("frame usc %s %s %d", hs([]byte(s+`\u00e9`)), hs([]byte(strings.Repeat("b", ln))), extra)
					}
				}
			}
			e.emit("compat %s", hs([]byte(s)))
		}
		for i := 0; i < docs/3; i++ {
			d := genDoc(r)
			if r.chance(1, 2) {
				d = mutate(r, d)
			}
			h := hs(d)
			e.emit("%s %s", r.pick([]string{"rv", "ro", "ra", "rvc"}), h)
			e.emit("dec %s %s 1", r.pick([]string{"i64", "i32", "int", "u64", "u32", "uint", "f64"}), h)
			e.emit("dec bool %s true", h)
			e.emit("dec str %s - %s", h, r.pick([]string{"nil", "-", hs([]byte("zz"))}))
			e.emit("compose %s %d mix", h, r.intn(50))
		}
		// nesting far beyond the limit, every mixture; long single tokens (moderate sizes so
		// that the model side can follow; the huge ones are in the impl-only extra)
		for _, n := range []int{10001, 20000} {
			for _, sh := range [][2]string{{"[", "]"}, {`{"a":`, "}"}, {`[{"a":`, "}]"}} {
				d := nest(sh[0], sh[1], (n+len(sh[1])-1)/len(sh[1]), "1") // len(close) = levels per repetition
				e.emit("skip %s nil", hs(d))
				e.emit("skipfast %s nil", hs(d))
				e.emit("harr %s - nil", hs(d))
				e.emit("hobj %s - nil", hs(d))
				e.emit("harr %s 0,0,0 nil", hs([]byte("["+string(d)+"]")))
				e.emit("hobj %s 0,0,0 nil", hs([]byte(`{"k":`+string(d)+"}")))
				for _, op := range []string{"rvc", "rv", "ra", "ro"} {
					e.emit("%s %s", op, hs(d))
				}
			}
			// the same depths where every level has an earlier sibling container (pooled child readers
			// are reused along the path): the generic reader must still stop at its depth limit
			for _, sh := range [][3]string{{"[[],", "]", "1"}, {`{"a":{},"b":`, "}", "1"}, {`[{},{"x":[1],"y":`, "}]", "null"}} {
				d := nest(sh[0], sh[1], (n+len(sh[1])-1)/len(sh[1]), sh[2])
				for _, op := range []string{"rvc", "rv", "ra", "ro"} {
					e.emit("%s %s", op, hs(d))
				}
			}
		}
		// exact ties at the bottom of the subnormal range, written out in full (5^1075 has 752 digits):
		// the decimal path's rounding decision with no integer digits left of the rounding position
		p5 := new(big.Int).Exp(big.NewInt(5), big.NewInt(1075), nil)
		for _, k := range []int64{0, 1, 2} {
			for _, dl := range []int64{-1, 0, 1} {
				v := new(big.Int).Add(new(big.Int).Mul(p5, big.NewInt(2*k+1)), big.NewInt(dl))
				digs := v.String()
				for _, lit := range []string{digs + "e-1075", "-" + digs + "E-1075", "0." + strings.Repeat("0", 1075-len(digs)) + digs} {
					e.emit("f64 %s", hs([]byte(lit)))
					e.emit("dec f64 %s 1", hs([]byte(lit)))
					e.emit("rv %s", hs([]byte("["+lit+"]")))
				}
			}
		}
		long := strings.Repeat("9", 20000)
		for _, d := range []string{long, "-" + long + "." + long, "1e" + long, `"` + strings.Repeat("a", 20000) + `"`, `"` + strings.Repeat(`é`, 3000) + `"`,
			strings.Repeat(" ", 20000) + "1", `"` + strings.Repeat(`😀`, 2000)} {
			h := hs([]byte(d))
			for _, op := range []string{"skip", "skipfast", "valid"} {
				e.emit("%s %s nil", op, h)
			}
			for _, op := range fops([]string{"u64", "i64", "f64", "ntok"}) {
				e.emit("%s %s", op, h)
			}
			e.emit("rsb %s - 0", h)
		}
	}
	// C05: integer readers around every bound
	suites["c05"] = func(e *emitter, r *rng, thorough bool) {
		w := int64(300)
		if thorough {
			w = 20000
		}
		bounds := []string{"2147483647", "2147483648", "4294967295", "4294967296", "9223372036854775807", "9223372036854775808",
			"18446744073709551615", "18446744073709551616", "99999999999999999", "100000000000000000", "999999999999999999", "1000000000000000000",
			"9999999999999999999", "10000000000000000000", "99999999999999999999", "100000000000000000000", "1844674407370955161", "1844674407370955162", "184467440737095516150"}
		ops := []string{"u64", "i64", "i32", "u32", "int", "uint"}
		nexts := []string{"", " ", ".", "e", "E", "x", ",", "]", "5", "0", "-", "+", "\x00", "\xff"}
		nearClassRuns("digits", func(v []byte) {
			for _, op := range ops {
				e.emit("%s %s", op, hs(v))
				e.emit("%s %s", op, hs(append([]byte("-"), v...)))
			}
			e.emit("dec i64 %s 7", hs(v))
			e.emit("dec u32 %s 7", hs(append([]byte(" "), v...)))
		})
		// the Decode forms behave as the readers on non-null input: literals at every bound, bare
		// signs and out-of-range values, followed by what a null test at the wrong place would accept
		for _, lit := range []string{"-", "+", "--", "0", "-0", "7", "-7", "2147483647", "2147483648", "-2147483648", "-2147483649", "4294967295", "4294967296",
			"9223372036854775807", "9223372036854775808", "-9223372036854775808", "-9223372036854775809", "18446744073709551615", "18446744073709551616", "1.5", "1e2", "x"} {
			for _, tail := range []string{"", "null", " null", "null ", ",", " 1"} {
				for _, pre := range []string{"", " "} {
					for _, op := range ops {
						e.emit("dec %s %s 7", op, hs([]byte(pre+lit+tail)))
					}
				}
			}
		}
		for _, bs := range bounds {
			b := bigs(bs)
			for d := -w; d <= w; d++ {
				if !thorough && d != 0 && d%7 != 0 && (d > 12 || d < -12) {
					continue
				}
				v := new(big.Int).Add(b, big.NewInt(d))
				for _, sign := range []string{"", "-"} {
					lit := sign + v.String()
					nx := nexts[r.intn(len(nexts))]
					op := ops[r.intn(len(ops))]
					e.emit("%s %s", op, hs([]byte(lit+nx)))
					if d >= -2 && d <= 2 {
						for _, op2 := range ops {
							for _, nx2 := range nexts {
								e.emit("%s %s", op2, hs([]byte(lit+nx2)))
							}
						}
					}
				}
			}
		}
		// every next byte after a few literals
		for _, lit := range []string{"0", "7", "-0", "-12", "123456789012345678", "1234567890123456789", "18446744073709551615"} {
			for c := 0; c < 256; c++ {
				for _, op := range []string{"u64", "i64"} {
					e.emit("%s %s", op, hs(append([]byte(lit), byte(c))))
				}
			}
		}
		n := 5
		if thorough {
			n = 6
		}
		allStrings([]byte("-+019.e "), n, func(b []byte) {
			e.emit("%s %s", ops[r.intn(len(ops))], hs(b))
			e.emit("i64 %s", hs(b))
		})
		for i := 0; i < 2000; i++ {
			// leading zeros / whitespace / long digit strings
			s := strings.Repeat(" ", r.intn(3)) + r.pick([]string{"", "-", "+", "- "}) + strings.Repeat("0", r.intn(3))
			for j := 0; j < r.intn(24); j++ {
				s += string(byte('0' + r.intn(10)))
			}
			s += r.pick(nexts)
			e.emit("%s %s", ops[r.intn(len(ops))], hs([]byte(s)))
		}
	}
	// C12: Decode functions with non-zero initial targets
	suites["c12"] = func(e *emitter, r *rng, thorough bool) {
		inputs := []string{"null", " null", "nul", "nulll", "null5", "true", "false", " false ", "0", "-1", "12", "1.5", "1e3", "4294967296", "-2147483649",
			"18446744073709551616", "9223372036854775808", "-9223372036854775809", `"abc"`, `"a\nb"`, `"\ud800"`, `"unterminated`, `"bad\x"`, "", " ", "x", "[", "{}", "tru", "nullx", "\tnull",
			// values on which a Decode function that does not simply run its reader would differ from it
			"-0", "\t-0 ", "-0,", "-0]", "-0.0", "0.0", "-0e5", "1.0", "9007199254740993", "123456789012345678", "0.1", "1e-400", "-1e-400", "1e400",
			"2147483647", "2147483648", "-2147483648", "4294967295", "9223372036854775807", "-9223372036854775808", "18446744073709551615", "007", "1 2", "12abc", " 7 ", "truex", "false,"}
		type ty struct {
			name  string
			inits []string
		}
		tys := []ty{{"i64", []string{"0", "-77", "9223372036854775807"}}, {"i32", []string{"0", "-77", "2147483647"}}, {"int", []string{"0", "5", "-9"}},
			{"u64", []string{"0", "77", "18446744073709551615"}}, {"u32", []string{"0", "77", "4294967295"}}, {"uint", []string{"0", "3", "99"}},
			{"bool", []string{"true", "false", "true"}}}
		if withFloat {
			tys = append(tys, ty{"f64", []string{"0", "4607182418800017408", "9221120237041090560"}})
		}
		for _, in := range inputs {
			for _, t := range tys {
				for _, iv := range t.inits {
					e.emit("dec %s %s %s", t.name, hs([]byte(in)), iv)
				}
			}
			for _, iv := range []string{"-", hs([]byte("old")), hs([]byte("\xff\x00"))} {
				for _, buf := range []string{"nil", "-", hs([]byte("dirty-scratch"))} {
					e.emit("dec str %s %s %s", hs([]byte(in)), iv, buf)
				}
			}
		}
		// the literal null right where a reader gives up (a Decode function must look for null
		// at the start of the input, not where its reader stopped)
		failing := []string{"-", "- ", "+", "--", "9223372036854775808", "-9223372036854775809", "18446744073709551616", "2147483648", "-2147483649", "4294967296",
			"1.", "1e", "1e+", "1e999", "-1e999", "0.", "t", "tr", "tru", "f", "fals", "n", "nu", "nul", `"ab` + "\t", `"`, `"\`, `"\u12`, ",", "[", "{", "]", "x", "\x00"}
		for _, fp := range failing {
			fp = strings.ReplaceAll(strings.ReplaceAll(fp, "\\t", "\t"), "\\x00", "\x00")
			for _, tail := range []string{"null", " null", "null ", "\tnull", "nul", "null1"} {
				tail = strings.ReplaceAll(tail, "\\t", "\t")
				for _, pre := range []string{"", " "} {
					in := pre + fp + tail
					for _, t := range tys {
						e.emit("dec %s %s %s", t.name, hs([]byte(in)), t.inits[1])
					}
					e.emit("dec str %s %s %s", hs([]byte(in)), hs([]byte("old")), r.pick([]string{"nil", "-", hs([]byte("zz"))}))
				}
			}
		}
		strHistories(e, r, thorough)
		docs := 800
		if thorough {
			docs = 20000
		}
		for i := 0; i < docs; i++ {
			d := genDoc(r)
			if r.chance(1, 2) {
				d = mutate(r, d)
			}
			t := tys[r.intn(len(tys))]
			e.emit("dec %s %s %s", t.name, hs(d), r.pick(t.inits))
			e.emit("dec str %s %s %s", hs(d), hs([]byte("prev")), r.pick([]string{"nil", "-", hs([]byte("zz"))}))
		}
	}
	// (C11 continued) the statement itself: both skippers on every input of the suite, plus exponent /
	// escape shapes on which a change to EITHER skipper would make them part ways
	c11base := suites["c11"]
	suites["c11"] = func(e *emitter, r *rng, thorough bool) {
		c11base(e, r, thorough)
		var lines []string
		for l := range e.seen {
			if strings.HasPrefix(l, "skipfast ") {
				lines = append(lines, l)
			}
		}
		sort.Strings(lines)
		for _, l := range lines {
			e.emit("skipboth %s", strings.Fields(l)[1])
		}
		for _, num := range []string{"1e5", "1e5-3", "1.5e3-2", "2E10-1e5", "7e0+", "1e-5-3", "1e5 -3", "15-3", "1e+5+1", "0e0", "-0.0e-0-0", "1E5", "12.5e3", "-10.0E-2"} {
			for _, tmpl := range []string{"%s", " \t%s", "[%s]", "[1,%s,2]", `{"a":%s}`, "%s,", "%s]"} {
				d := hs([]byte(fmt.Sprintf(tmpl, num)))
				e.emit("skipboth %s", d)
				e.emit("skipfast %s nil", d)
			}
		}
		for _, esc := range []string{`\n`, `\"`, `\\`, `\/`, `\u0041`, `\ud83d\ude00`, `\u00e9`} {
			for _, nb := range []byte{0x7f, 0x80, 0x1f, 0x20, 0x00, 0x22, 0x5c, 0xff, 'u', '0', 'x'} {
				for _, tmpl := range []string{`"%s"`, `["%s"]`, `{"k":"%s"}`, `{"%s":1}`, `[{"a":["%s"]}]`, `{"a":{"b":"%s"}}`} {
					d := hs([]byte(fmt.Sprintf(tmpl, esc+string([]byte{nb})+"z")))
					e.emit("skipboth %s", d)
					e.emit("skipfast %s nil", d)
				}
			}
		}
	}
	// C13: token classification, literal readers, type exclusivity
	suites["c13"] = func(e *emitter, r *rng, thorough bool) {
		// type exclusivity on a reused reader: after a failing call, null is still refused by
		// ReadArray / ReadObject (and read as nil by ReadValue)
		for _, bad := range []string{"[1,", `{"a":`, "[[[", `{"a":[1,{"b":`, "[1e999]", `{"k":tru}`, "", "x"} {
			for _, op := range []string{"ra", "ro", "rv"} {
				for _, nl := range []string{"null", " \t\r\nnull", "null,", "null]"} {
					e.emit("rhist %s:%s ra:%s ro:%s rv:%s ra:%s", op, hs([]byte(bad)), hs([]byte(nl)), hs([]byte(nl)), hs([]byte(nl)), hs([]byte(nl)))
				}
			}
		}
		// whitespace runs of every length up to 24 (and their near misses) in front of one token of each
		// type, for the classifiers and for every reader that skips whitespace itself
		toks := []string{`"1"`, "1", "null", "true", "false", "[]", "{}", "x", ",", "-5", "0.5"}
		nearClassRuns("spaces", func(v []byte) {
			for _, lead := range []string{"", "\n", "\t", "\r"} {
				for ti, tk := range toks {
					if lead != "" && ti > 4 && len(v) != 7 && len(v) != 15 {
						continue
					}
					d := append(append([]byte(lead), v...), tk...)
					h := hs(d)
					e.emit("ntok %s", h)
					e.emit("ntt %s", h)
					switch ti {
					case 0:
						e.emit("rsb %s - 0", h)
						e.emit("u64 %s", h)
						e.emit("f64 %s", h)
					case 1, 9, 10:
						e.emit("i64 %s", h)
						e.emit("f64 %s", h)
						e.emit("rs %s nil", h)
					case 2:
						e.emit("rnull %s", h)
						e.emit("ra %s", h)
						e.emit("ro %s", h)
					case 3, 4:
						e.emit("rbool %s", h)
					case 5, 6:
						e.emit("ra %s", h)
						e.emit("ro %s", h)
						e.emit("rnull %s", h)
					}
				}
			}
		})
		aroundValues(func(d []byte) {
			h := hs(d)
			for _, op := range fops([]string{"ntok", "ntt", "rnull", "rbool", "u64", "i64", "f64"}) {
				e.emit("%s %s", op, h)
			}
			e.emit("rsb %s - 0", h)
			e.emit("ra %s", h)
			e.emit("ro %s", h)
		})
		wss := []string{"", " ", "\t", "\r", "\n", "  ", " \t", "\r\n", "\n\n\n", " \t\r"}
		for _, ws := range wss {
			for c := 0; c < 256; c++ {
				d := append([]byte(ws), byte(c))
				e.emit("ntok %s", hs(d))
				e.emit("ntt %s", hs(d))
				e.emit("ntt %s", hs(append(d, 'x')))
			}
			e.emit("ntok %s", hs([]byte(ws)))
			e.emit("ntt %s", hs([]byte(ws)))
		}
		// near-whitespace bytes as prefix
		for c := 0; c < 256; c++ {
			e.emit("ntok %s", hs([]byte{byte(c), '1'}))
			e.emit("ntt %s", hs([]byte{byte(c), '1'}))
			e.emit("rnull %s", hs([]byte{byte(c), 'n', 'u', 'l', 'l'}))
			e.emit("rbool %s", hs([]byte{byte(c), 't', 'r', 'u', 'e'}))
		}
		for _, lit := range []string{"null", "true", "false"} {
			for _, ws := range wss {
				for i := 0; i <= len(lit); i++ {
					e.emit("rnull %s", hs([]byte(ws+lit[:i])))
					e.emit("rbool %s", hs([]byte(ws+lit[:i])))
				}
				for i := 0; i < len(lit); i++ {
					for c := 0; c < 256; c++ {
						if thorough || c%5 == 0 || c > 96 && c < 123 {
							b := []byte(ws + lit)
							b[len(ws)+i] = byte(c)
							e.emit("rnull %s", hs(b))
							e.emit("rbool %s", hs(b))
						}
					}
				}
				for c := 0; c < 256; c++ {
					e.emit("rnull %s", hs(append([]byte(ws+lit), byte(c))))
					e.emit("rbool %s", hs(append([]byte(ws+lit), byte(c))))
				}
			}
		}
		// corrupted / truncated literals followed by a long tail (word-at-a-time fast paths)
		for _, lit := range []string{"null", "true", "false"} {
			for _, tail := range []string{", 1]      ", "        ", "xxxxxxxx", ",\"abcdefgh\"", "e, 1]   ", "l, 1]   "} {
				for _, ws := range []string{"", " ", "\n\t"} {
					for i := 0; i < len(lit); i++ {
						for _, c := range []byte("xyeEls\x00 ,]") {
							b := []byte(ws + lit + tail)
							b[len(ws)+i] = c
							e.emit("rnull %s", hs(b))
							e.emit("rbool %s", hs(b))
							e.emit("dec bool %s true", hs(b))
						}
					}
					for i := 1; i <= len(lit); i++ {
						e.emit("rnull %s", hs([]byte(ws+lit[:i]+tail)))
						e.emit("rbool %s", hs([]byte(ws+lit[:i]+tail)))
					}
				}
			}
		}
		// every reader on every token class
		toks = []string{"null", "true", "false", "0", "-1", "1.5", `"s"`, "[]", "{}", "[1]", `{"a":1}`, ",", ":", "]", "}", "x", ""}
		for _, tk := range toks {
			for _, ws := range []string{"", " "} {
				h := hs([]byte(ws + tk))
				for _, op := range fops([]string{"rnull", "rbool", "u64", "i64", "i32", "u32", "int", "uint", "f64", "ntt"}) {
					e.emit("%s %s", op, h)
				}
				e.emit("rsb %s - 0", h)
				e.emit("rs %s nil", h)
				e.emit("harr %s x nil", h)
				e.emit("hobj %s x nil", h)
			}
		}
	}
}
