package main

// suites: value trees (C03), composition decoders (C08), reader histories (C15)

import (
	"fmt"
	"strings"
)

var keyPool = []string{`"a"`, `"b"`, `"a"`, `"a"`, `"k\n"`, `"\""`, `""`, `"é"`, `"é"`, "\"\xff\"", "\"\xfe\"", `"\ud800"`, `"�"`, `"long key with spaces"`, `"a"`,
	// escapes exactly at the end / start of the name (the name is unescaped on its own, without the closing quote behind it)
	`"rat\ud83d\udc00"`, `"rat🐀"`, `"\ud83d\udc00"`, `"\ud83d\udc00x"`, `"k\u00e9"`, `"\u00e9"`, `"x\\"`, `"\ud83d"`, `"q\ud83d\u0041"`}

func genTree(r *rng, depth int) string {
	k := r.intn(12)
	if depth <= 0 && k >= 7 {
		k = r.intn(7)
	}
	switch {
	case k == 0:
		return "null"
	case k == 1:
		return r.pick([]string{"true", "false"})
	case k <= 4:
		return r.pick(numberPool)
	case k <= 6:
		return r.pick(stringPool)
	case k <= 9:
		n := r.intn(5)
		if r.chance(1, 8) {
			n = 10 + r.intn(30)
		}
		var p []string
		for i := 0; i < n; i++ {
			p = append(p, r.pick(wsPool)+genTree(r, depth-1)+r.pick(wsPool))
		}
		return "[" + r.pick(wsPool) + strings.Join(p, ",") + "]"
	default:
		n := r.intn(5)
		var p []string
		for i := 0; i < n; i++ {
			p = append(p, r.pick(wsPool)+r.pick(keyPool)+r.pick(wsPool)+":"+r.pick(wsPool)+genTree(r, depth-1)+r.pick(wsPool))
		}
		return "{" + r.pick(wsPool) + strings.Join(p, ",") + "}"
	}
}

func init() {
	suites["c03"] = func(e *emitter, r *rng, thorough bool) {
		n := 800
		if thorough {
			n = 60000
		}
		for i := 0; i < n; i++ {
			d := []byte(r.pick(wsPool) + genTree(r, 1+r.intn(5)) + r.pick([]string{"", " ", "x", ",1"}))
			if r.chance(1, 4) {
				d = mutate(r, d)
			}
			h := hs(d)
			op := r.pick([]string{"rv", "rv", "ro", "ra"})
			e.emit("%s %s", op, h)
			e.emit("%sc %s", op, h)
			if maxDepthOf(d) <= 6 {
				e.emit("%sa %s", op, h)
			}
		}
		// deep nesting where every level has an earlier sibling container (pooled child readers are
		// reused along the way): the reader's own depth limit must still apply
		for _, dp := range []int{9999, 10000, 10001, 12000} {
			var sb strings.Builder
			for i := 0; i < dp; i++ {
				sb.WriteString("[[],")
			}
			sb.WriteString("1")
			sb.WriteString(strings.Repeat("]", dp))
			e.emit("rvc %s", hs([]byte(sb.String())))
			sb.Reset()
			for i := 0; i < dp; i++ {
				sb.WriteString(`{"a":{},"b":`)
			}
			sb.WriteString("1")
			sb.WriteString(strings.Repeat("}", dp))
			e.emit("rvc %s", hs([]byte(sb.String())))
			sb.Reset()
			for i := 0; i < dp/2; i++ {
				sb.WriteString(`[{},{"x":[1],"y":`)
			}
			sb.WriteString("null")
			sb.WriteString(strings.Repeat("}]", dp/2))
			e.emit("rvc %s", hs([]byte(sb.String())))
		}
		readerDepthHistories(e, r, thorough, 6)
		// typed entry points on every token class (null rejected)
		for _, tk := range []string{"null", " null", "true", "1", `"s"`, "[]", "{}", "[null]", `{"a":null}`, "", " ", "x", "nul", "[", "{", `{"a"}`, "[1,]", `{"a":1,}`} {
			for _, op := range []string{"rv", "ro", "ra", "rvc", "roc", "rac", "rva", "roa", "raa"} {
				e.emit("%s %s", op, hs([]byte(tk)))
			}
		}
		// numbers on every float path inside containers, overflow inside
		for _, num := range numberPool {
			e.emit("rv %s", hs([]byte("["+num+"]")))
			e.emit("rvc %s", hs([]byte(`{"n":`+num+`}`)))
			e.emit("rva %s", hs([]byte(`[{"n":[`+num+`]}]`)))
		}
		// duplicate keys incl. escaped duplicates after nested objects
		for _, d := range []string{`{"a":1,"a":2}`, `{"a":1,"a":2}`, `{"a":{"x":1},"a":[2]}`, `{"a":1,"b":2,"a":3,"b":4}`, `{"":1,"":2}`, `{"a":{"a":{"a":1,"a":2}},"a":0}`, "{\"\xff\":1,\"\xfe\":2}", `{"\ud800":1,"�":2}`} {
			for _, op := range []string{"rv", "rvc", "ro", "roc", "rva"} {
				e.emit("%s %s", op, hs([]byte(d)))
			}
		}
		// depth around the reader's limit
		// (documents nested this deep are compared with encoding/json only: the model side
		// answers "-" beyond depth 2000, see driver2.ml)
		depths := []int{9999, 10000, 10001}
		shapes := [][3]string{{"[", "]", "1"}, {`{"a":`, "}", "1"}, {`[{"a":`, "}]", "null"}}
		if thorough {
			depths = []int{9998, 9999, 10000, 10001, 10002}
		}
		for _, dp := range depths {
			for _, sh := range shapes {
				per := strings.Count(sh[0], "[") + strings.Count(sh[0], "{")
				d := nest(sh[0], sh[1], dp/per, sh[2])
				if per == 2 && dp%2 == 1 {
					d = []byte("[" + string(d) + "]")
				}
				e.emit("rvc %s", hs(d))
			}
			e.emit("rac %s", hs(nest("[", "]", dp, "")))
			e.emit("roc %s", hs(nest(`{"a":`, "}", dp, "{}")))
		}
	}

	suites["c08"] = func(e *emitter, r *rng, thorough bool) {
		usedBufferHistories(e, []string{"skip", "skipfast"}, true) // the skipping members of a decoder share a Buffer
		n := 2500
		if thorough {
			n = 60000
		}
		for i := 0; i < n; i++ {
			d := []byte(r.pick(wsPool) + genTree(r, 1+r.intn(5)) + r.pick([]string{"", " ", "x"}))
			if r.chance(1, 5) {
				d = mutate(r, d)
			}
			for k := 0; k < 2; k++ {
				e.emit("compose %s %d %s", hs(d), r.intn(1000), r.pick([]string{"all", "mix", "mix"}))
			}
		}
		// integers at the limits of the typed readers, as members at even and odd offsets, under every
		// per-value strategy (variant 3 reads numbers with ReadInt64 / ReadUint64 first)
		ints := []string{"0", "-0", "1", "-1", "2147483647", "2147483648", "-2147483648", "-2147483649", "4294967295", "4294967296",
			"9007199254740992", "9007199254740993", "-9007199254740993", "9223372036854775807", "9223372036854775808", "9223372036854775809",
			"-9223372036854775808", "-9223372036854775809", "18446744073709551615", "18446744073709551616", "99999999999999999999", "1.0", "1e2", "12E-1", "01", "-"}
		for _, iv := range ints {
			for seed := 0; seed < 24; seed++ {
				e.emit("compose %s %d all", hs([]byte("["+iv+"]")), seed)
				e.emit("compose %s %d all", hs([]byte(" ["+iv+", "+iv+"]")), seed)
				e.emit("compose %s %d all", hs([]byte(`{"id":`+iv+`,"n": `+iv+`}`)), seed)
			}
			e.emit("compose %s 3 all", hs([]byte(iv)))
			e.emit("compose %s 3 all", hs([]byte(" "+iv)))
		}
		// members that are almost values: a number with something glued to its exponent, a string with a
		// raw control byte - nested inside members that the decoder skips, reads, or hands to a nested handler
		almost := []string{"1e5-3", "2E3+7", "1.5e3-", "0e0+0", "1e5+", "-0.5e-3-2", "01", "-01", "1.", "-", "1e", "1.e3", "0x10", "1e5.5", "1.5.5", "+1", ".5", "tru", "nulll", "truefalse"}
		for c := 0; c < 0x20; c++ {
			almost = append(almost, "\"ba"+string(rune(c))+"r\"")
		}
		almost = append(almost, "\"\x7f\"", "\"\\x\"", "\"\\u12\"")
		for _, bad := range almost {
			for _, tmpl := range []string{`[[%s],"x"]`, `{"a":{"b":%s},"c":1}`, `[%s]`, `[1,%s]`, `{"foo":%s,"baz":true}`, `[[[%s]]]`, `%s`} {
				d := hs([]byte(fmt.Sprintf(tmpl, bad)))
				for seed := 0; seed < 12; seed++ {
					e.emit("compose %s %d %s", d, seed, []string{"mix", "all"}[seed%2])
				}
			}
		}
		for _, v := range valuePool {
			for seed := 0; seed < 6; seed++ {
				e.emit("compose %s %d mix", hs([]byte(v+" ")), seed)
				e.emit("compose %s %d all", hs([]byte(" "+v)), seed)
			}
		}
	}

	suites["c15"] = func(e *emitter, r *rng, thorough bool) {
		n := 200
		if thorough {
			n = 15000
		}
		deepOK := hs(nest("[", "]", 3000, `{"a":"b"}`))
		deepBad := hs(nest("[", "]", 10001, "1"))
		deepN := 0
		readerDepthHistories(e, r, thorough, 3)
		for _, bad := range []string{"[1,", `{"a":`, "[[[", `{"a":[1,{"b":`, "[1e999]", `{"k":tru}`} {
			for _, op := range []string{"ra", "ro", "rv"} {
				for _, nl := range []string{"null", " \t\r\nnull", "null,"} {
					e.emit("rhist %s:%s %s:%s ra:%s ro:%s rv:%s", op, hs([]byte(bad)), op, hs([]byte(nl)), hs([]byte(nl)), hs([]byte(nl)), hs([]byte(nl)))
				}
			}
		}
		errAt := []string{`[1,2,`, `{"a":[1,{"b":`, `[[[[[[1,]]]]]]`, `{"a":1e999}`, `["\ud800\u"]`, `[`, `{"a"`}
		for i := 0; i < n; i++ {
			k := 3 + r.intn(12)
			var ops []string
			for j := 0; j < k; j++ {
				var d string
				switch r.intn(12) {
				case 0:
					d = r.pick(errAt)
				case 1:
					if deepN < 6 || thorough {
						if r.chance(1, 6) {
							deepN++
							ops = append(ops, "rv:"+deepBad)
							continue
						}
						if r.chance(1, 6) {
							deepN++
							ops = append(ops, "rv:"+deepOK)
							continue
						}
					}
					d = genTree(r, 6)
				case 2:
					// huge-then-tiny
					d = "[" + strings.Repeat(`{"k":[1,2,3],"s":"x\ny"},`, 50+r.intn(200)) + "0]"
				case 3:
					d = fmt.Sprintf(`{"a":%s}`, genTree(r, 2))
				default:
					d = genTree(r, 1+r.intn(4))
				}
				b := []byte(d)
				if r.chance(1, 6) {
					b = mutate(r, b)
				}
				ops = append(ops, r.pick([]string{"rv", "rv", "ro", "ra"})+":"+hs(b))
			}
			e.emit("rhist %s", strings.Join(ops, " "))
		}
	}
}

func maxDepthOf(d []byte) int { return maxDepth(d) }

func init() {
	// C20 tie: the reader's remembered size hints follow the model Cost.remembered_prev
	suites["c20hints"] = func(e *emitter, r *rng, thorough bool) {
		n := 300
		if thorough {
			n = 5000
		}
		for i := 0; i < n; i++ {
			var calls []string
			for j := 0; j < 1+r.intn(5); j++ {
				var sz []string
				for k := 0; k < 1+r.intn(6); k++ {
					s := r.intn(4)
					if r.chance(1, 5) {
						s = 20 + r.intn(200)
					}
					sz = append(sz, fmt.Sprint(s))
				}
				calls = append(calls, strings.Join(sz, ","))
			}
			e.emit("hint %s", strings.Join(calls, " "))
		}
	}
}

// readerDepthHistories: entry points mixed on one reader, then documents exactly at / just over the
// depth limit (a reader whose nesting count depends on what it was used for before accepts 10,001
// levels or refuses 10,000).  Used by C15 (reuse) and C03 (the depth clause of the tree property).
func readerDepthHistories(e *emitter, r *rng, thorough bool, oneIn int) {
	small := []string{"[[[]]]", `{"a":{"b":{}}}`, `[{"a":[{}]}]`, "1", `"s"`}
	lims := []string{hs(nest("[", "]", 10000, "")), hs(nest("[", "]", 10001, "")), hs(nest(`{"a":`, "}", 10000, "{}")), hs(nest(`[{"a":`, "}]", 5000, "1")), hs(nest(`[{"a":`, "}]", 5001, "1"))}
	for _, op1 := range []string{"rv", "ro", "ra"} {
		for _, op2 := range []string{"rv", "ro", "ra"} {
			for _, sm := range small {
				for _, lm := range lims {
					if r.chance(1, oneIn) || thorough {
						e.emit("rhist %s:%s %s:%s %s:%s", op1, hs([]byte(sm)), op2, lm, op1, hs([]byte(sm)))
					}
				}
			}
		}
	}
}
