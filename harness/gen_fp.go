package main

// Generator suite "fp" (property C04): number literals for the float parser, stage by stage.
//
// For every generated literal L the suite emits
//   fp_parse L+junk, fp_rf L+junk, f64 ws+L+junk            (prefix parsers, with trailing bytes)
//   fp_dec L, fp_strconv L                                   (complete literals only)
//   fp_exact m e neg, fp_el m e neg, fp_el m+1 e neg         (the stage inputs readFloat derives from L)
// plus direct sweeps of the stage functions (fp_exact, fp_el) over their whole argument ranges.
//
// Families (the tag in the comment line "# fam <name>" precedes each family in the output):
//   len      every mantissa length 1..30, every exponent -400..400, all positions of the point
//   long     mantissas of 31..1200 digits (some > 800, the decimal type's capacity)
//   satexp   saturating / huge exponents (e400000, e-99999, leading zeros in the exponent ...)
//   half     exact half-way points between adjacent floats printed in full, their neighbours
//            (last digit +-1, 1..60 extra digits 0..01 / 9..9), random and boundary floats
//   float    shortest and 17-digit renderings of random floats (normal, subnormal, boundaries)
//   ovf      the overflow threshold
//   zeros    leading/trailing zero runs around the 19-digit cut of readFloat
//   rows     per-table-row probes for every q in -348..347 (and just outside)
//   elhard   Eisel-Lemire half-way bail-outs (odd 54-bit integers times small powers of ten)
//   exact    sweep of atof64exact, including the 1e15 guard
//   bad      malformed literals followed by junk bytes
//   junk     valid literals followed by each of the 256 bytes
//   huge     100 kB literals whose value is moderate (exponent saturation of the code)

import (
	"fmt"
	"math"
	"math/big"
	"strconv"
	"strings"

	"github.com/willabides/rjson"
)

type fpGen struct {
	e        *emitter
	r        *rng
	thorough bool
}

var fpJunk = []string{"", "", "", ",", "]", "}", " ", "\n", "x", "e", "E", ".", "+", "-", "0", "5", "\x00", "\xff", "e5", ".5", "-1", "\"", ",1"}
var fpWs = []string{"", "", "", " ", "\t", "\n", "\r", "  ", " \t\r\n", "\x0b", "\x0c", "\xa0"}

func (g *fpGen) fam(name string) { fmt.Fprintf(g.e.w, "# fam %s\n", name) }

// stage inputs derived from a literal by the code's own scanner
func (g *fpGen) stages(s string) {
	m, ex, neg, trunc, _, ok := rjson.VerifFpReadFloat([]byte(s))
	if !ok {
		return
	}
	g.e.emit("fp_exact %d %d %s", m, ex, b2s(neg))
	g.e.emit("fp_el %d %d %s", m, ex, b2s(neg))
	if trunc {
		g.e.emit("fp_el %d %d %s", m+1, ex, b2s(neg))
	}
}

// a complete literal: all ops; with some probability also with trailing junk / leading ws
func (g *fpGen) lit(s string) {
	h := hs([]byte(s))
	g.e.emit("fp_parse %s", h)
	g.e.emit("fp_rf %s", h)
	g.e.emit("f64 %s", h)
	g.e.emit("fp_dec %s", h)
	if intDigits(s) <= 800 {
		// spec (round_ne) vs strconv; literals with more than 800 digits before the point are the
		// known gap of decimal.set (see suite fp_gap) and are compared model-vs-code only
		g.e.emit("fp_strconv %s", h)
	}
	g.stages(s)
	if g.r.chance(1, 3) {
		j := g.r.pick(fpJunk)
		w := g.r.pick(fpWs)
		g.e.emit("fp_parse %s", hs([]byte(s+j)))
		g.e.emit("fp_rf %s", hs([]byte(s+j)))
		g.e.emit("f64 %s", hs([]byte(w+s+j)))
		g.e.emit("fp_dec %s", hs([]byte(s+j)))
	}
}

// number of digits of the integer part, leading zeros not counted
func intDigits(s string) int {
	s = strings.TrimPrefix(s, "-")
	n := 0
	for n < len(s) && s[n] >= '0' && s[n] <= '9' {
		n++
	}
	return len(strings.TrimLeft(s[:n], "0"))
}

// a possibly malformed byte string: prefix parsers and decimal.set only
func (g *fpGen) raw(s string) {
	h := hs([]byte(s))
	g.e.emit("fp_parse %s", h)
	g.e.emit("fp_rf %s", h)
	g.e.emit("f64 %s", h)
	g.e.emit("f64 %s", hs([]byte(g.r.pick(fpWs)+s)))
	g.e.emit("fp_dec %s", h)
}

func (g *fpGen) digits(n int) string {
	b := make([]byte, n)
	for i := range b {
		b[i] = byte('0' + g.r.intn(10))
	}
	if n > 0 && b[0] == '0' {
		b[0] = byte('1' + g.r.intn(9))
	}
	return string(b)
}

func (g *fpGen) sign() string {
	if g.r.chance(1, 4) {
		return "-"
	}
	return ""
}

func (g *fpGen) expStr(x int) string {
	e := "e"
	if g.r.chance(1, 3) {
		e = "E"
	}
	switch {
	case x < 0:
		return e + strconv.Itoa(x)
	case g.r.chance(1, 3):
		return e + "+" + strconv.Itoa(x)
	default:
		return e + strconv.Itoa(x)
	}
}

// digits d (no leading zero unless "0"), point after k digits (0 < k <= len) or k <= 0 => 0.000ddd
func pointAt(d string, k int) string {
	if k >= len(d) {
		return d + strings.Repeat("0", k-len(d))
	}
	if k <= 0 {
		return "0." + strings.Repeat("0", -k) + d
	}
	return d[:k] + "." + d[k:]
}

// mantissa digits with the point somewhere and a decimal exponent so that the value is d * 10^x
func (g *fpGen) render(d string, x int) string {
	switch g.r.intn(4) {
	case 0:
		return g.sign() + d + g.expStr(x)
	case 1: // point inside
		k := 1 + g.r.intn(len(d))
		if k == len(d) {
			return g.sign() + d + g.expStr(x)
		}
		return g.sign() + d[:k] + "." + d[k:] + g.expStr(x+len(d)-k)
	case 2: // 0.ddd
		return g.sign() + "0." + d + g.expStr(x+len(d))
	default: // d.ddd (scientific)
		if len(d) == 1 {
			return g.sign() + d + g.expStr(x)
		}
		return g.sign() + d[:1] + "." + d[1:] + g.expStr(x+len(d)-1)
	}
}

// exact decimal expansion of m * 2^e2 (m >= 0)
func exactDecimal(m *big.Int, e2 int) string {
	if m.Sign() == 0 {
		return "0"
	}
	if e2 >= 0 {
		return new(big.Int).Lsh(m, uint(e2)).String()
	}
	// m * 5^k / 10^k
	k := -e2
	n := new(big.Int).Mul(m, new(big.Int).Exp(big.NewInt(5), big.NewInt(int64(k)), nil))
	s := n.String()
	if len(s) <= k {
		s = strings.Repeat("0", k-len(s)+1) + s
	}
	ip, fp := s[:len(s)-k], strings.TrimRight(s[len(s)-k:], "0")
	if fp == "" {
		return ip
	}
	return ip + "." + fp
}

// (mantissa, binary exponent) of the finite non-negative float with pattern b
func decomp(b uint64) (*big.Int, int) {
	ex := int(b >> 52)
	mt := b & (1<<52 - 1)
	if ex == 0 {
		return new(big.Int).SetUint64(mt), -1074
	}
	return new(big.Int).SetUint64(mt | 1<<52), ex - 1075
}

// the exact decimal of the midpoint between the floats with patterns b and b+1 (b+1 may be Inf:
// then the midpoint is the overflow threshold 2^1024 - 2^970)
func midpoint(b uint64) string {
	m, e2 := decomp(b)
	m2 := new(big.Int).Lsh(m, 1)
	m2.Add(m2, big.NewInt(1))
	return exactDecimal(m2, e2-1)
}

// s is a plain decimal "iii.fff"; returns s with its last digit moved by delta (+1/-1), keeping the length
func bumpLast(s string, delta int) string {
	b := []byte(s)
	for i := len(b) - 1; i >= 0; i-- {
		if b[i] == '.' {
			continue
		}
		if delta > 0 {
			if b[i] == '9' {
				b[i] = '0'
				continue
			}
			b[i]++
			return string(b)
		}
		if b[i] == '0' {
			b[i] = '9'
			continue
		}
		b[i]--
		return string(b)
	}
	if delta > 0 {
		return "1" + string(b)
	}
	return string(b)
}

// move the decimal point of a plain decimal by writing an exponent (value unchanged)
func (g *fpGen) reExp(s string) string {
	if !g.r.chance(1, 3) {
		return s
	}
	sh := g.r.intn(40) - 20
	ip, fp := s, ""
	if i := strings.IndexByte(s, '.'); i >= 0 {
		ip, fp = s[:i], s[i+1:]
	}
	all := ip + fp
	pos := len(ip) + sh // new point position; value = new * 10^(-sh)
	t := strings.TrimLeft(all, "0")
	lead := len(all) - len(t)
	if t == "" {
		return s
	}
	pos -= lead
	var out string
	if pos <= 0 {
		out = "0." + strings.Repeat("0", -pos) + t
	} else if pos >= len(t) {
		out = t + strings.Repeat("0", pos-len(t))
	} else {
		out = t[:pos] + "." + t[pos:]
	}
	return out + g.expStr(-sh)
}

func (g *fpGen) halfFamily(b uint64) {
	mid := midpoint(b)
	hasPoint := strings.Contains(mid, ".")
	vars := []string{mid, bumpLast(mid, 1), bumpLast(mid, -1)}
	for _, v := range vars {
		g.lit(g.sign() + g.reExp(v))
	}
	// extra digits after the exact midpoint
	base := mid
	if !hasPoint {
		base += "."
	}
	extra := []int{1, 2, 1 + g.r.intn(60), 1 + g.r.intn(60)}
	if !g.thorough {
		extra = []int{1 + g.r.intn(60)}
	}
	for _, n := range extra {
		g.lit(g.sign() + base + strings.Repeat("0", n-1) + "1")
		g.lit(g.sign() + base + strings.Repeat("0", n))
		dn := bumpLast(mid, -1)
		if !strings.Contains(dn, ".") {
			dn += "."
		}
		g.lit(g.sign() + dn + strings.Repeat("9", n))
	}
	// the two floats themselves, exactly and shortest
	m, e2 := decomp(b)
	g.lit(exactDecimal(m, e2))
	g.lit(strconv.FormatFloat(math.Float64frombits(b), 'g', -1, 64))
}

func (g *fpGen) randBits() uint64 {
	switch g.r.intn(6) {
	case 0: // subnormal
		return g.r.next() & (1<<52 - 1)
	case 1: // small subnormal
		return g.r.next() & (1<<uint(1+g.r.intn(20)) - 1)
	case 2: // around a power of two
		return uint64(1+g.r.intn(2046))<<52 + uint64(g.r.intn(5)) - 2
	case 3: // exponent near 0 (values near 1)
		return uint64(1000+g.r.intn(100))<<52 | g.r.next()&(1<<52-1)
	default:
		return g.r.next() % (2047 << 52)
	}
}

func init() {
	suites["fp"] = func(e *emitter, r *rng, thorough bool) {
		g := &fpGen{e: e, r: r, thorough: thorough}
		// quick: a few thousand literals (the extracted model needs ~20 ms per slow-path literal);
		// thorough: about 100,000 cases for every op (sized so that the extracted model finishes within half an hour)
		rep := 1
		if thorough {
			rep = 1
		}

		// ---- len: every mantissa length 1..30 x every exponent -400..400
		g.fam("len")
		for k := 0; k < rep; k++ {
			for n := 1; n <= 30; n++ {
				step := 2
				if !thorough {
					step = 97
				}
				for x := -400 + g.r.intn(step); x <= 400; x += step {
					g.lit(g.render(g.digits(n), x))
				}
			}
		}
		// plain forms without exponent
		nplain := 100
		if thorough {
			nplain = 600
		}
		for k := 0; k < nplain; k++ {
			n := 1 + g.r.intn(40)
			d := g.digits(n)
			g.lit(g.sign() + pointAt(d, g.r.intn(n+30)-10))
		}

		// ---- long mantissas
		g.fam("long")
		longs := []int{31, 32, 40, 50, 64, 100, 200, 400, 767, 768, 799, 800, 801, 802, 810, 900, 1200}
		nlong := 1
		if thorough {
			nlong = 12
		}
		if !thorough {
			longs = []int{31, 100, 800, 801}
		}
		for k := 0; k < nlong; k++ {
			for _, n := range longs {
				d := g.digits(n)
				if g.r.chance(1, 4) { // long zero tail, or a lone nonzero digit past the capacity
					d = d[:1+g.r.intn(20)] + strings.Repeat("0", n-21) + g.digits(1+g.r.intn(3))
				}
				x := g.r.intn(700) - 350 - n
				g.lit(g.render(d, x))
			}
		}

		// ---- saturating exponents
		g.fam("satexp")
		for _, x := range []string{"400000", "-400000", "10000", "-10000", "9999", "-9999", "99999", "-99999", "100000", "-100000",
			"1000000", "-1000000", "99999999999999999999", "-99999999999999999999", "0000000000000000000001", "+0000000005", "-00000000000000000000000324",
			"309", "308", "-323", "-324", "-325", "00", "-0", "+0", "310", "311", "-330", "-331", "-342", "-343", "347", "348", "-348", "-349"} {
			ms := []string{"0", "1", "9", "1.5", "0.0", "0.001", "123456789012345678901234567890", "4.9", "2.47", "2.48", "1.7976931348623157", "1.7976931348623159", g.digits(19), g.digits(20), g.digits(25)}
			if !thorough {
				ms = []string{"0", "1.5", g.digits(20)}
			}
			for _, m := range ms {
				g.lit(g.sign() + m + "e" + x)
				if thorough {
					g.lit(g.sign() + m + "E" + x)
				}
			}
		}

		// ---- half-way points
		g.fam("half")
		boundary := []uint64{0, 1, 2, 3, 1<<52 - 2, 1<<52 - 1, 1 << 52, 1<<52 + 1, 2<<52 - 1, 2 << 52,
			2046<<52 | (1<<52 - 1), 2046<<52 | (1<<52 - 2), 2046 << 52, 1023 << 52, 1023<<52 - 1, 1075 << 52, 1076<<52 - 1,
			0x4340000000000000, 0x433FFFFFFFFFFFFF, 0x4340000000000001}
		if !thorough {
			boundary = []uint64{0, 1<<52 - 1, 2046<<52 | (1<<52 - 1), 0x4340000000000000}
		}
		for _, b := range boundary {
			g.halfFamily(b)
		}
		nh := 2
		if thorough {
			nh = 600
		}
		for i := 0; i < nh; i++ {
			g.halfFamily(g.randBits())
		}

		// ---- renderings of random floats
		g.fam("float")
		nf := 50
		if thorough {
			nf = 4000
		}
		for i := 0; i < nf; i++ {
			f := math.Float64frombits(g.randBits())
			g.lit(strconv.FormatFloat(f, 'g', -1, 64))
			g.lit(strconv.FormatFloat(f, 'e', 16, 64))
			g.lit(strconv.FormatFloat(f, 'e', 15+g.r.intn(10), 64))
			if f > 1e-30 && f < 1e30 {
				g.lit(strconv.FormatFloat(f, 'f', g.r.intn(40), 64))
			}
		}

		// ---- overflow threshold
		g.fam("ovf")
		for _, s := range []string{"1.7976931348623157e308", "1.7976931348623158e308", "1.7976931348623159e308",
			"1.797693134862315807e308", "1.797693134862315808e308", "1.797693134862315708145274237317043567981e308",
			"17976931348623157e292", "17976931348623158e292", "0.17976931348623158e309", "179769313486231580793728971405303415079934132710037826936173778980444968292764750946649017977587207096330286416692887910946555547851940402630657488671505820681908902000708383676273854845817711531764475730270069855571366959622842914819860834936475292719074168444365510704342711559699508093042880177904174497791",
			"179769313486231580793728971405303415079934132710037826936173778980444968292764750946649017977587207096330286416692887910946555547851940402630657488671505820681908902000708383676273854845817711531764475730270069855571366959622842914819860834936475292719074168444365510704342711559699508093042880177904174497792",
			"1e308", "1e309", "2e308", "1.8e308", "1.79e308", "1.798e308", "9.999999999999999999e307"} {
			g.lit(s)
			g.lit("-" + s)
		}

		// ---- zeros around the 19-digit cut
		g.fam("zeros")
		for z := 0; z <= 30; z++ {
			for n := 1; n <= 24; n++ {
				if !thorough && (z+n)%12 != 0 && z+n != 19 && z+n != 20 {
					continue
				}
				d := g.digits(n)
				g.lit("0." + strings.Repeat("0", z) + d)
				g.lit(g.sign() + "0." + strings.Repeat("0", z) + d + g.expStr(g.r.intn(60)-30))
				g.lit(d + strings.Repeat("0", z))
				g.lit(d + strings.Repeat("0", z) + "." + strings.Repeat("0", 1+g.r.intn(5)) + g.expStr(g.r.intn(60)-30))
				g.lit(d + "." + strings.Repeat("0", z+1))
				g.lit(d + "." + strings.Repeat("0", z) + "1")
			}
			g.lit("0." + strings.Repeat("0", z+1))
			g.lit("-0." + strings.Repeat("0", z+1) + "e5")
			g.lit("0e" + strings.Repeat("0", z) + "7")
		}

		// ---- per-table-row probes
		g.fam("rows")
		per := 1
		if thorough {
			per = 10
		}
		for q := -352; q <= 351; q++ {
			for i := 0; i < per; i++ {
				var m uint64
				switch g.r.intn(5) {
				case 0:
					m = g.r.next()
				case 1:
					m = g.r.next() >> uint(g.r.intn(64))
				case 2:
					m = uint64(1) << uint(g.r.intn(64))
				case 3:
					m = uint64(1)<<uint(1+g.r.intn(63)) - 1
				default:
					m = g.r.next() % 10000000000000000000
				}
				neg := g.r.chance(1, 4)
				g.e.emit("fp_el %d %d %s", m, q, b2s(neg))
				if (i < 20 && thorough || i < 1) && m < 10000000000000000000 {
					g.lit(g.sign() + strconv.FormatUint(m, 10) + "e" + strconv.Itoa(q))
				}
			}
		}

		// ---- Eisel-Lemire half-way bail-outs: odd 54-bit integers (x 2^j) times 10^q, q >= 0
		g.fam("elhard")
		nel := 60
		if thorough {
			nel = 800
		}
		for i := 0; i < nel; i++ {
			odd := (g.r.next() % (1 << 53)) | 1<<53 | 1
			j := g.r.intn(10)
			m := odd << uint(j)
			q := g.r.intn(28)
			// divide out 5^q when possible so that m * 10^q is an exact 54-bit odd integer times 2^k
			g.e.emit("fp_el %d %d %s", m, q, b2s(g.r.chance(1, 4)))
			g.e.emit("fp_el %d %d false", odd, 0)
			g.e.emit("fp_el %d %d false", odd-1, 0)
			g.e.emit("fp_el %d %d false", odd+1, 0)
			small := (g.r.next() % (1 << uint(1+g.r.intn(30)))) | 1
			p5 := uint64(1)
			for k := 0; k < q && p5 < 1<<40; k++ {
				p5 *= 5
			}
			g.e.emit("fp_el %d %d false", small, q)
			g.e.emit("fp_el %d %d false", small*p5, g.r.intn(28)-27)
			g.lit(strconv.FormatUint(m, 10) + "e" + strconv.Itoa(q))
		}

		// ---- atof64exact sweep
		g.fam("exact")
		nx := 30
		if thorough {
			nx = 800
		}
		for x := -30; x <= 45; x++ {
			for i := 0; i < nx; i++ {
				var m uint64
				switch g.r.intn(6) {
				case 0:
					m = g.r.next() % (1 << 53)
				case 1:
					m = g.r.next() >> uint(11+g.r.intn(53))
				case 2:
					m = 1<<53 - 1 - uint64(g.r.intn(3)) + uint64(g.r.intn(6))
				case 3: // around the 1e15 guard after the pre-multiplication
					if x > 22 && x <= 37 {
						p := uint64(1)
						for k := 0; k < 37-x; k++ {
							p *= 10
						}
						m = p + uint64(g.r.intn(5)) - 2
					} else {
						m = 1000000000000000 + uint64(g.r.intn(5)) - 2
					}
				case 4:
					m = uint64(g.r.intn(1000))
				default:
					m = g.r.next() >> uint(g.r.intn(20))
				}
				g.e.emit("fp_exact %d %d %s", m, x, b2s(g.r.chance(1, 3)))
			}
		}

		// ---- malformed literals followed by junk
		g.fam("bad")
		bad := []string{"", "-", "+", ".", "-.", "1.", "-1.", "0.", "1.e5", "0.e1", "01", "-01", "00", "-00", "007", ".5", "-.5", "+1", "+0", "--1", "-+1",
			"1e", "1E", "1e+", "1e-", "1E+", "1.5e", "1.5e+", "1.5E-", "0e", "-0e+", "1ee5", "1e5e5", "1e5.5", "1.5.5", "1..5", "1.5.", "1e.5",
			"e5", "E5", "-e5", "x", "-x", "1x", "0x10", "0x1p-2", "1_000", "Infinity", "-Infinity", "NaN", "nan", "inf", "Inf", "1e+x", "1e-x",
			"12345678901234567890.", "12345678901234567890.e5", "0.0000000000000000000000001e", "1" + strings.Repeat("0", 30) + ".",
			"\x00", "\xff", " 1", "\t-1", "1 ", "1\x00", "-\x00"}
		for _, b := range bad {
			for _, j := range fpJunk {
				g.raw(b + j)
				if thorough {
					g.raw(b + j + g.r.pick(fpJunk))
				}
			}
			for c := 0; c < 256; c += 1 {
				if thorough || c%32 == 0 || (c >= 43 && c < 58 && c%3 == 0) {
					g.raw(b + string([]byte{byte(c)}))
				}
			}
		}
		// all short strings over the number alphabet
		nb := 3
		if thorough {
			nb = 4
		}
		allStrings([]byte("-+.0e1E5"), nb, func(b []byte) { g.raw(string(b)) })

		// ---- valid literals followed by every byte
		g.fam("junk")
		for _, v := range numberPool {
			for c := 0; c < 256; c++ {
				if thorough || c%16 == 5 || (c >= 43 && c < 58) || c == 'e' || c == 'E' {
					g.raw(v + string([]byte{byte(c)}))
				}
			}
		}

		// ---- 100 kB literals with moderate value (exponent saturation in the code)
		g.fam("huge")
		zeros := strings.Repeat("0", 99999)
		for i, s := range []string{
			"0." + zeros + "1e100000",        // = 1, the code returns 0 (see suite fp_gap)
			"0." + zeros + "15e100001",       // = 15, the code returns 0
			"1" + zeros + "0e-100000",        // = 1
			"0." + zeros + "1e99999",         // = 0.1 (exponent not saturated: 5 digits)
			"1" + strings.Repeat("0", 20000), // 1e20000
			"0." + strings.Repeat("0", 20000) + "1",
		} {
			if !thorough && i != 0 && i != 3 {
				continue
			}
			h := hs([]byte(s))
			g.e.emit("fp_parse %s", h)
			g.e.emit("f64 %s", h)
		}
		// more than 800 digits before the point: decimal.set drops them without moving dp
		for _, s := range fpGapCap800 {
			h := hs([]byte(s))
			g.e.emit("fp_parse %s", h)
			g.e.emit("fp_dec %s", h)
			g.e.emit("f64 %s", h)
		}
	}

	// Known disagreements between the code (and strconv) and the specification round_ne: the
	// op fp_strconv compares strconv.ParseFloat (harness) with round_ne (model); every case of
	// this suite is EXPECTED to differ.  Kept apart from "fp" so that "fp" stays all-agree.
	suites["fp_gap"] = func(e *emitter, r *rng, thorough bool) {
		zeros := strings.Repeat("0", 99999)
		for _, s := range append([]string{"0." + zeros + "1e100000", "0." + zeros + "15e100001"}, fpGapCap800...) {
			e.emit("fp_strconv %s", hs([]byte(s)))
		}
	}
}

func init() {
	// C04 known findings as direct property cases: f64 (implementation) vs the specification
	// (driver --spec) on the literals where they are known to differ
	suites["c04gap"] = func(e *emitter, r *rng, thorough bool) {
		zeros := strings.Repeat("0", 99999)
		for _, s := range append([]string{"0." + zeros + "1e100000"}, fpGapCap800...) {
			e.emit("f64 %s", hs([]byte(s)))
		}
	}
}

func init() {
	// ties whose deciding non-zero tail digit sits around the 800-digit capacity of the slow path
	suites["c04edge"] = func(e *emitter, r *rng, thorough bool) {
		// digit strings next to the cutoffs of the CURRENT tree's leftcheats table, placed so that the
		// decimal path's first left shift (by powtab[-dp], or 27 for dp <= -10) compares exactly these
		// digits with the cutoff: a wrong cutoff digit changes the digit count of the product
		if g := loadGen(); g != nil {
			ks := map[int]int{27: 12} // shift amount -> number of leading zeros after "0."
			for i, k := range g.Tables.Powtab {
				if i > 0 {
					ks[k] = i
				}
			}
			for k, zeros := range ks {
				if k <= 0 || k >= len(g.Tables.Leftcheats) {
					continue
				}
				c := g.Tables.Leftcheats[k].C
				cv, ok := new(big.Int).SetString(c, 10)
				if !ok {
					continue
				}
				var ds []string
				for _, dl := range []int64{-2, -1, 0, 1, 2} {
					ds = append(ds, new(big.Int).Add(cv, big.NewInt(dl)).String())
				}
				for n := 1; n < len(c); n++ {
					pv, _ := new(big.Int).SetString(c[:n], 10)
					ds = append(ds, c[:n], new(big.Int).Add(pv, big.NewInt(1)).String())
					if pv.Sign() > 0 {
						ds = append(ds, new(big.Int).Sub(pv, big.NewInt(1)).String())
					}
					// the cutoff with one digit lowered / raised at position n
					for _, d := range []int{-1, 1} {
						b := []byte(c)
						if int(b[n]-'0')+d >= 0 && int(b[n]-'0')+d <= 9 {
							b[n] = byte(int(b[n]) + d)
							ds = append(ds, string(b))
						}
					}
				}
				for _, d := range ds {
					for _, lit := range []string{"0." + strings.Repeat("0", zeros) + d, "-0." + strings.Repeat("0", zeros) + d + "e-290", d + "e-" + fmt.Sprint(zeros+len(d)+300)} {
						h := hs([]byte(lit))
						e.emit("f64 %s", h)
						e.emit("fp_parse %s", h)
						e.emit("fp_dec %s", h)
					}
				}
			}
		}
		halves := []string{"9007199254740993", "9007199254740995", "4503599627370496.5", "4503599627370497.5", "18014398509481986", "1.5", "2.5", "0.5"}
		for _, h := range halves {
			sig := len(strings.ReplaceAll(strings.TrimLeft(h, "0."), ".", ""))
			for total := 790; total <= 806; total++ {
				z := total - sig - 1
				if z < 0 {
					continue
				}
				for _, tail := range []string{"1", "5", "9", "0"} {
					for _, sg := range []string{"", "-"} {
						lit := sg + h
						if !strings.Contains(h, ".") {
							lit += "."
						}
						lit += strings.Repeat("0", z) + tail
						e.emit("f64 %s", hs([]byte(lit)))
						e.emit("fp_parse %s", hs([]byte(lit)))
						e.emit("fp_dec %s", hs([]byte(lit)))
					}
				}
			}
		}
		// exact ties between adjacent subnormals and at the subnormal/zero boundary: (2k+1) * 2^-1075
		// written out in full (5^1075 has 752 digits), in both notations, and their neighbours
		p5 := new(big.Int).Exp(big.NewInt(5), big.NewInt(1075), nil)
		for _, k := range []int64{0, 1, 2, 3, 7, 1 << 20, (1 << 52) - 1, 1 << 52} {
			m := new(big.Int).Mul(p5, big.NewInt(2*k+1))
			for _, d := range []int64{0, -1, 1} {
				v := new(big.Int).Add(m, big.NewInt(d))
				digs := v.String()
				for _, sg := range []string{"", "-"} {
					for _, lit := range []string{sg + digs + "e-1075", sg + digs + "E-1075", sg + "0." + strings.Repeat("0", 1075-len(digs)) + digs, sg + digs[:1] + "." + digs[1:] + "e-" + fmt.Sprint(1075-len(digs)+1)} {
						e.emit("f64 %s", hs([]byte(lit)))
						e.emit("fp_parse %s", hs([]byte(lit)))
						e.emit("fp_dec %s", hs([]byte(lit)))
					}
				}
			}
		}
		// the same ties scaled by large powers of two written out in full are in the "half" family of "fp"
	}
}

var fpGapCap800 = []string{
	"9007199254740993" + strings.Repeat("0", 785) + "e-785", // = 2^53+1 exactly; code: off by a factor 10
	"9007199254740993" + strings.Repeat("0", 790) + "e-790",
	"9007199254740993" + strings.Repeat("0", 790) + ".0e-790",
	"9007199254740993" + strings.Repeat("0", 984) + "e-984",
	"1" + strings.Repeat("0", 799) + "1e-800", // = 1.00..01; code: 0.1
	"1" + strings.Repeat("0", 999) + "1e-1000",
}
