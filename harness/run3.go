package main

// value trees (C03), reader histories (C15), API-composition decoders (C08)

import (
	"bytes"
	"encoding/json"
	"fmt"
	"math"
	"sort"
	"strconv"
	"strings"

	"github.com/willabides/rjson"
)

// canonical rendering of a decoded value; objects sorted by key bytes
func canon(v interface{}) string {
	var sb strings.Builder
	var rec func(v interface{})
	rec = func(v interface{}) {
		switch t := v.(type) {
		case nil:
			sb.WriteString("n")
		case bool:
			if t {
				sb.WriteString("t")
			} else {
				sb.WriteString("f")
			}
		case float64:
			sb.WriteString("#" + strconv.FormatUint(math.Float64bits(t), 10))
		case string:
			sb.WriteString("s" + hx([]byte(t)))
		case []interface{}:
			sb.WriteString("[")
			for i, e := range t {
				if i > 0 {
					sb.WriteString(",")
				}
				rec(e)
			}
			sb.WriteString("]")
		case map[string]interface{}:
			keys := make([]string, 0, len(t))
			for k := range t {
				keys = append(keys, k)
			}
			sort.Strings(keys)
			sb.WriteString("{")
			for i, k := range keys {
				if i > 0 {
					sb.WriteString(",")
				}
				sb.WriteString(hx([]byte(k)) + ":")
				rec(t[k])
			}
			sb.WriteString("}")
		default:
			sb.WriteString(fmt.Sprintf("?%T", v))
		}
	}
	rec(v)
	return sb.String()
}

func compatAny(v interface{}) interface{} {
	switch t := v.(type) {
	case string:
		return rjson.StdLibCompatibleString(t)
	case []interface{}:
		return rjson.StdLibCompatibleSlice(t)
	case map[string]interface{}:
		return rjson.StdLibCompatibleMap(t)
	}
	return v
}

func readOp(op string, rd *rjson.ValueReader, data []byte) (interface{}, int, error) {
	switch op {
	case "rv":
		if rd == nil {
			return rjson.ReadValue(data)
		}
		return rd.ReadValue(data)
	case "ro":
		if rd == nil {
			v, p, err := rjson.ReadObject(data)
			if err != nil {
				return nil, p, err
			}
			return v, p, err
		}
		v, p, err := rd.ReadObject(data)
		if err != nil {
			return nil, p, err
		}
		return v, p, err
	case "ra":
		if rd == nil {
			v, p, err := rjson.ReadArray(data)
			if err != nil {
				return nil, p, err
			}
			return v, p, err
		}
		v, p, err := rd.ReadArray(data)
		if err != nil {
			return nil, p, err
		}
		return v, p, err
	}
	panic("bad read op " + op)
}

func runCase3(f []string) (string, bool) {
	switch f[0] {
	case "rv", "ro", "ra", "rva", "roa", "raa":
		data := unhexWin(f[1])
		keep := append([]byte{}, data...)
		v, p, err := readOp(f[0][:2], nil, data)
		if !bytes.Equal(data, keep) {
			return "INPUT-MODIFIED", true
		}
		if err != nil {
			return "err", true
		}
		if p < 0 || p > len(data) {
			return fmt.Sprintf("ok-out-of-range %d", p), true
		}
		return fmt.Sprintf("ok %d %s", p, canon(v)), true
	case "rvc", "roc", "rac": // decode, then StdLibCompatible*: what encoding/json decodes
		data := unhexWin(f[1])
		v, p, err := readOp(f[0][:2], nil, data)
		if err != nil {
			return "err", true
		}
		before := canon(v)
		c := compatAny(v)
		if canon(v) != before {
			return "ARGUMENT-MODIFIED", true
		}
		if treeCollision(v) {
			// two keys of one object collide after replacement: the winner depends on Go's map
			// iteration order; C03/C17 exclude these documents
			return fmt.Sprintf("ok %d # collision", p), true
		}
		return fmt.Sprintf("ok %d %s", p, canon(c)), true
	case "rhist":
		return runReaderHist(f), true
	case "hint":
		// hint <n1,n2,..> <m1,..> ... : ReadArray calls on ONE reader, call j on the document
		// [{n1 keys},{n2 keys},...]; prints the reader's remembered map hint and slice hint after each
		rd := &rjson.ValueReader{}
		var outs []string
		for _, c := range f[1:] {
			var parts []string
			for _, ns := range strings.Split(c, ",") {
				n, _ := strconv.Atoi(ns)
				parts = append(parts, keysObj(n))
			}
			_, _, err := rd.ReadArray([]byte("[" + strings.Join(parts, ",") + "]"))
			st := rd.VerifReaderState()
			outs = append(outs, fmt.Sprintf("%v_%d_%d", err == nil, st.MaxMapSize, st.LastSliceSize))
		}
		return strings.Join(outs, " "), true
	case "compose":
		return runCompose(f), true
	}
	return "", false
}

// rhist <op:hex> ... : a history on ONE ValueReader.  Output: each call's result, then
// whether every earlier result is still what it was when returned (also after the later
// results have been modified by the caller), and the reader's depth after each call.
func runReaderHist(f []string) string {
	rd := &rjson.ValueReader{}
	var outs []string
	var vals []interface{}
	var snaps []string
	bad := ""
	for _, c := range f[1:] {
		parts := strings.Split(c, ":")
		data := unhexWin(parts[1])
		v, p, err := readOp(parts[0], rd, data)
		if st := rd.VerifReaderState(); st.Depth != 0 {
			bad = fmt.Sprintf("DEPTH-NOT-RESET %d", st.Depth)
		}
		if err != nil {
			outs = append(outs, "err")
		} else {
			outs = append(outs, fmt.Sprintf("ok_%d_%s", p, canon(v)))
			vals = append(vals, v)
			snaps = append(snaps, canon(v))
		}
		for i := range vals {
			if canon(vals[i]) != snaps[i] {
				bad = fmt.Sprintf("EARLIER-RESULT-CHANGED %d", i)
			}
		}
	}
	// the caller modifies later results; earlier ones must not change
	for i := len(vals) - 1; i >= 1; i-- {
		scribble(vals[i])
		for j := 0; j < i; j++ {
			if canon(vals[j]) != snaps[j] {
				bad = fmt.Sprintf("EARLIER-RESULT-ALIASED %d-by-%d", j, i)
			}
		}
	}
	if bad == "" {
		bad = "STABLE"
	}
	return strings.Join(outs, " ; ") + " ; " + bad
}

func scribble(v interface{}) {
	switch t := v.(type) {
	case []interface{}:
		for i := range t {
			scribble(t[i])
			t[i] = "scribbled"
		}
		if cap(t) > len(t) {
			t = t[:cap(t)]
			for i := range t {
				t[i] = "scribbled-cap"
			}
		}
	case map[string]interface{}:
		for k, e := range t {
			scribble(e)
			t[k] = "scribbled"
		}
		t["extra"] = 1.0
	}
}

// ---------------------------------------------------------------- C08: composition decoders
// A decoder written only against the public API in the documented style.  Which reader is
// used at each value is decided by choose(seed, absolute offset, depth): the OCaml driver
// runs the very same decision procedure over the model functions.
func choose(seed, off, depth, k int) int {
	x := uint64(seed)*0x9e3779b97f4a7c15 + uint64(off)*0xbf58476d1ce4e5b9 + uint64(depth)*0x94d049bb133111eb
	x ^= x >> 29
	x *= 0xbf58476d1ce4e5b9
	x ^= x >> 32
	return int(x % uint64(k))
}

type composer struct {
	seed    int
	base    []byte
	readAll bool
	buf     rjson.Buffer
}

type arrH struct {
	c     *composer
	depth int
	out   []interface{}
}

func (h *arrH) HandleArrayValue(data []byte) (int, error) {
	v, p, err := h.c.value(data, h.depth)
	if err != nil {
		return p, err
	}
	h.out = append(h.out, v)
	return p, nil
}

type objH struct {
	c     *composer
	depth int
	out   map[string]interface{}
}

func (h *objH) HandleObjectValue(key, data []byte) (int, error) {
	k, _, err := rjson.UnescapeStringContent(key, nil)
	if err != nil {
		return 0, err
	}
	v, p, err := h.c.value(data, h.depth)
	if err != nil {
		return p, err
	}
	h.out[string(k)] = v
	return p, nil
}

type skipped struct{}

// value decodes (or skips) the value at the start of data; returns the offset the API reported
func (c *composer) value(data []byte, depth int) (interface{}, int, error) {
	off := len(c.base) - len(data)
	tt, p0, err := rjson.NextTokenType(data)
	if err != nil {
		return nil, p0, err
	}
	variant := choose(c.seed, off, depth, 4)
	if c.readAll && (variant == 1 || variant == 2) {
		variant = 0
	}
	switch variant {
	case 1:
		p, err := rjson.SkipValue(data, nil)
		return skipped{}, p, err
	case 2:
		if _, err := rjson.SkipValue(data, nil); err == nil { // fast skipping is only promised on well-formed values
			p, err := rjson.SkipValueFast(data, &c.buf)
			return skipped{}, p, err
		}
		p, err := rjson.SkipValue(data, nil)
		return skipped{}, p, err
	}
	switch tt {
	case rjson.NullType:
		p, err := rjson.ReadNull(data)
		return nil, p, err
	case rjson.TrueType, rjson.FalseType:
		if variant == 3 {
			var b bool
			p, err := rjson.DecodeBool(data, &b)
			return b, p, err
		}
		return rjson.ReadBool(data)
	case rjson.NumberType:
		if variant == 3 {
			// the documented style: an integer reader first, the float reader when it declines.
			// float64(i) is the correctly rounded value of the same literal (i != 0: "-0" keeps its sign
			// only through the float reader)
			if off%2 == 0 {
				if i, p, err := rjson.ReadInt64(data); err == nil && i != 0 {
					return float64(i), p, nil
				}
			} else {
				if u, p, err := rjson.ReadUint64(data); err == nil && u != 0 {
					return float64(u), p, nil
				}
			}
		}
		return rjson.ReadFloat64(data)
	case rjson.StringType:
		if variant == 3 {
			b, p, err := rjson.ReadStringBytes(data, nil)
			return string(b), p, err
		}
		return rjson.ReadString(data, nil)
	case rjson.ArrayStartType:
		h := &arrH{c: c, depth: depth + 1, out: []interface{}{}}
		var b *rjson.Buffer
		if variant == 3 {
			b = &rjson.Buffer{}
		}
		p, err := rjson.HandleArrayValues(data, h, b)
		return h.out, p, err
	case rjson.ObjectStartType:
		h := &objH{c: c, depth: depth + 1, out: map[string]interface{}{}}
		var b *rjson.Buffer
		if variant == 3 {
			b = &rjson.Buffer{}
		}
		p, err := rjson.HandleObjectValues(data, h, b)
		return h.out, p, err
	}
	return nil, p0, fmt.Errorf("no value")
}

func canonSk(v interface{}) string {
	// like canon, but skipped members print as "_"
	var sb strings.Builder
	var rec func(v interface{})
	rec = func(v interface{}) {
		switch t := v.(type) {
		case skipped:
			sb.WriteString("_")
		case []interface{}:
			sb.WriteString("[")
			for i, e := range t {
				if i > 0 {
					sb.WriteString(",")
				}
				rec(e)
			}
			sb.WriteString("]")
		case map[string]interface{}:
			keys := make([]string, 0, len(t))
			for k := range t {
				keys = append(keys, k)
			}
			sort.Strings(keys)
			sb.WriteString("{")
			for i, k := range keys {
				if i > 0 {
					sb.WriteString(",")
				}
				sb.WriteString(hx([]byte(k)) + ":")
				rec(t[k])
			}
			sb.WriteString("}")
		default:
			sb.WriteString(canon(v))
		}
	}
	rec(v)
	return sb.String()
}

// compose <hex> <seed> <all|mix>
func runCompose(f []string) string {
	data := unhexWin(f[1])
	seed, _ := strconv.Atoi(f[2])
	c := &composer{seed: seed, base: data, readAll: f[3] == "all"}
	v, p, err := c.value(data, 0)
	if err != nil {
		return "err"
	}
	if f[3] == "mix" {
		return fmt.Sprintf("ok %d # %s", p, canonSk(v))
	}
	return fmt.Sprintf("ok %d %s", p, canonSk(v))
}

// ---------------------------------------------------------------- oracles
func jsonDecode(data []byte) (interface{}, int, bool) {
	dec := json.NewDecoder(bytes.NewReader(data))
	var v interface{}
	if err := dec.Decode(&v); err != nil {
		return nil, 0, false
	}
	return v, int(dec.InputOffset()), true
}

// keyCollision: does some object of the document have two keys that differ as raw decoded
// bytes but collide after invalid-UTF-8 replacement?  (C03/C17 exclude those documents.)
func keyCollision(d []byte) bool {
	p := skipWS(d, 0)
	if p >= len(d) {
		return false
	}
	switch d[p] {
	case '{':
		ms, _, ok := members(d[p:], true)
		if !ok {
			return false
		}
		raw := map[string]bool{}
		san := map[string]bool{}
		for _, m := range ms {
			k, _, ok := refContent(m.key, false)
			if !ok {
				return false
			}
			if !raw[string(k)] {
				raw[string(k)] = true
				s := string(sanitize(k))
				if san[s] {
					return true
				}
				san[s] = true
			}
			if keyCollision(d[p+m.p:]) {
				return true
			}
		}
	case '[':
		ms, _, ok := members(d[p:], false)
		if !ok {
			return false
		}
		for _, m := range ms {
			if keyCollision(d[p+m.p:]) {
				return true
			}
		}
	}
	return false
}

func oracleCase3(f []string) (string, bool) {
	switch f[0] {
	case "rvc", "roc", "rac":
		d := unhexWin(f[1])
		if maxDepth(d) > 9990 {
			// encoding/json counts nesting the same way; keep the boundary to the dedicated depth cases
		}
		v, p, ok := jsonDecode(d)
		if f[0] == "roc" {
			if _, isObj := v.(map[string]interface{}); !isObj {
				ok = false
			}
		}
		if f[0] == "rac" {
			if _, isArr := v.([]interface{}); !isArr {
				ok = false
			}
		}
		if !ok {
			return "err", true
		}
		if keyCollision(d) {
			return "-", true
		}
		return fmt.Sprintf("ok %d %s", p, canon(v)), true
	case "compose":
		// C08: same final offset as direct whole-value decoding; a decoder that reads every
		// member reconstructs the same tree; where direct decoding fails a validating
		// read-everything decoder fails too.
		d := unhexWin(f[1])
		v, p, err := rjson.ReadValue(d)
		if err != nil {
			// every member is read with a validating reader in both modes (the fast skipper only after the
			// validating one accepted), so the composed decoder must fail too - except for the depth limit,
			// which the skippers count from the member and the generic reader from the top
			// (a number that is well-formed but out of float64 range is refused by direct decoding and
			// accepted by a skipper, so in mix mode only syntactic failures are demanded)
			var raw json.RawMessage
			firstValueMalformed := json.NewDecoder(bytes.NewReader(d)).Decode(&raw) != nil
			if f[3] == "all" || (!strings.Contains(err.Error(), "depth") && firstValueMalformed) {
				return "err", true
			}
			return "-", true
		}
		if f[3] == "all" {
			return fmt.Sprintf("ok %d %s", p, canon(v)), true
		}
		return fmt.Sprintf("ok %d", p), true // mix: compare the offset only (done by the comparator prefix rule)
	case "rhist":
		// C15: every call behaves as on a brand-new reader and results stay stable
		var outs []string
		for _, c := range f[1:] {
			parts := strings.Split(c, ":")
			v, p, err := readOp(parts[0], nil, unhexWin(parts[1]))
			if err != nil {
				outs = append(outs, "err")
			} else {
				outs = append(outs, fmt.Sprintf("ok_%d_%s", p, canon(v)))
			}
		}
		return strings.Join(outs, " ; ") + " ; STABLE", true
	}
	return "", false
}

// treeCollision: does some object of the decoded tree have two keys that collide after
// invalid-UTF-8 replacement?
func treeCollision(v interface{}) bool {
	switch t := v.(type) {
	case []interface{}:
		for _, e := range t {
			if treeCollision(e) {
				return true
			}
		}
	case map[string]interface{}:
		seen := map[string]bool{}
		for k, e := range t {
			s := string(sanitize([]byte(k)))
			if seen[s] {
				return true
			}
			seen[s] = true
			if treeCollision(e) {
				return true
			}
		}
	}
	return false
}
