package main

// suites: strings (C06), buffer histories (C14), frame/append semantics (C16), compat (C17)

import (
	"fmt"
	"strings"
)

var strAlphabet = []byte("\"\\/ubfnrt0aFdDc8 \x00\x1f\x7f\x80\xc3\xa9\xff")

func genEscapes(r *rng) string {
	var sb strings.Builder
	n := r.intn(6)
	for i := 0; i < n; i++ {
		switch r.intn(12) {
		case 0:
			sb.WriteString(r.pick([]string{`\"`, `\\`, `\/`, `\b`, `\f`, `\n`, `\r`, `\t`}))
		case 1:
			sb.WriteString(fmt.Sprintf(`\u%04x`, r.intn(0x10000)))
		case 2:
			sb.WriteString(fmt.Sprintf(`\u%04X`, 0xD800+r.intn(0x400)))
		case 3:
			sb.WriteString(fmt.Sprintf(`\u%04x`, 0xDC00+r.intn(0x400)))
		case 4:
			sb.WriteString(fmt.Sprintf(`\u%04x\u%04x`, 0xD800+r.intn(0x400), 0xDC00+r.intn(0x400)))
		case 5:
			sb.WriteString(fmt.Sprintf(`\u%04x\u%04x`, 0xD800+r.intn(0x400), r.intn(0x10000)))
		case 6:
			sb.WriteString(r.pick([]string{`\u12`, `\u12g4`, `\x`, `\`, `\u`, `\ud83d\u`, `\ud83d\ud`, `\ud83d\n`, `\'`, `\a`, `\U0041`}))
		case 7:
			sb.WriteByte(byte(r.intn(256)))
		case 8:
			sb.WriteString(r.pick([]string{"é", "😀", "\xff\xfe", "\xed\xa0\x80", "\xc0\x80"}))
		default:
			sb.WriteString(r.pick([]string{"a", "abc", " ", "]", "}", "0"}))
		}
	}
	return sb.String()
}

func init() {
	suites["c06"] = func(e *emitter, r *rng, thorough bool) {
		strHistories(e, r, false) // the returned content must stay what it was, whatever is read next with the same scratch
		// long plain runs with one special or near-special byte at every lane (scanners that look at 8 or
		// 16 bytes at a time), with and without an escape before the run
		nearClassRuns("strchars", func(v []byte) {
			tok := append(append([]byte{'"'}, v...), '"')
			e.emit("rsb %s - 0", hs(tok))
			e.emit("rs %s nil", hs(tok))
			e.emit("usc %s -", hs(v))
			esc := append(append([]byte(`"\n`), v...), '"')
			e.emit("rsb %s - 0", hs(esc))
			e.emit("rs %s -", hs(esc))
		})
		n := 3
		if thorough {
			n = 4
		}
		// every short content over the string alphabet, as a token and as bare content
		allStrings(strAlphabet, n, func(b []byte) {
			tok := append(append([]byte{'"'}, b...), '"')
			e.emit("rsb %s - 0", hs(tok))
			e.emit("usc %s -", hs(b))
			if len(b) <= 2 {
				e.emit("rsb %s - 0", hs(append([]byte{'"'}, b...)))
				e.emit("rs %s nil", hs(tok))
				e.emit("aros %s -", hs(append(b, '"')))
			}
		})
		// every byte value at every position of a short token
		base := []byte(`"ab\ncd"`)
		for i := 0; i < len(base); i++ {
			for c := 0; c < 256; c++ {
				b := append([]byte{}, base...)
				b[i] = byte(c)
				e.emit("rsb %s - 0", hs(b))
			}
		}
		// all 65,536 \u units (quick: every 7th + all surrogates and boundaries)
		for u := 0; u < 0x10000; u++ {
			if thorough || u%7 == 0 || (u >= 0xD7F0 && u <= 0xE010) || u < 0x100 || u%0x800 < 3 || u%0x800 > 0x7FC {
				esc := fmt.Sprintf(`\u%04x`, u)
				if u%2 == 1 {
					esc = fmt.Sprintf(`\u%04X`, u)
				}
				e.emit("rsb %s - 0", hs([]byte(`"`+esc+`"`)))
				if thorough || u%21 == 0 {
					e.emit("rsb %s %s 2", hs([]byte(`"x`+esc+`y"`)), hs([]byte("pre")))
					e.emit("usc %s -", hs([]byte(esc)))
					e.emit("hobj %s x nil", hs([]byte(`{"`+esc+`":1}`)))
				}
			}
		}
		// surrogate grid
		step := 37
		if thorough {
			step = 5
		}
		for hi := 0xD800; hi < 0xDC00; hi += step {
			for lo := 0xDC00; lo < 0xE000; lo += step {
				e.emit("rsb %s - 0", hs([]byte(fmt.Sprintf(`"\u%04x\u%04x"`, hi, lo))))
			}
			for _, second := range []string{`A`, `\ud800`, `\n`, `x`, ``, `\u`, `\udc0`, `\uDBFF`, ``} {
				e.emit("rsb %s - 0", hs([]byte(fmt.Sprintf(`"\u%04x%s"`, hi, second))))
				e.emit("usc %s -", hs([]byte(fmt.Sprintf(`\u%04x%s`, hi, second))))
			}
		}
		for lo := 0xDC00; lo < 0xE000; lo += step {
			e.emit("rsb %s - 0", hs([]byte(fmt.Sprintf(`"\u%04x\u%04x"`, lo, 0xD800+lo%0x400))))
		}
		// a high surrogate followed by an almost-valid second escape: every position of the
		// second escape replaced by a non-hex / wrong byte
		for _, hi := range []int{0xD800, 0xD83D, 0xDBFF} {
			good := []byte(fmt.Sprintf(`\u%04x\ude0a`, hi))
			for pos := 6; pos < 12; pos++ {
				for _, c := range []byte("gGzZ xX:@`/\\\x00\x7f\xff\"u-") {
					b := append([]byte{}, good...)
					b[pos] = c
					e.emit("rsb %s - 0", hs(append(append([]byte{'"'}, b...), '"')))
					e.emit("rsb %s %s 3", hs(append(append([]byte{'"', 'a'}, b...), 'z', '"')), hs([]byte("p")))
					e.emit("usc %s -", hs(b))
					e.emit("uuc %s -", hs(b))
					e.emit("getu4 %s", hs(b[6:]))
					e.emit("hobj %s x nil", hs([]byte(`{"`+string(b)+`":1}`)))
				}
			}
		}
		for pos := 2; pos < 6; pos++ {
			for c := 0; c < 256; c++ {
				b := []byte(`\u12aF`)
				b[pos] = byte(c)
				e.emit("getu4 %s", hs(b))
				if c%3 == 0 {
					e.emit("rsb %s - 0", hs(append(append([]byte{'"'}, b...), '"')))
				}
			}
		}
		// generated escape sequences, truncations, destinations with small spare capacity
		docs := 6000
		if thorough {
			docs = 150000
		}
		for i := 0; i < docs; i++ {
			c := genEscapes(r)
			tok := `"` + c + `"` + r.pick([]string{"", "x", " ", `"`})
			dst := r.pick([]string{"-", "-", hs([]byte("p")), hs([]byte("prefix"))})
			e.emit("rsb %s %s %d", hs([]byte(r.pick(wsPool)+tok)), dst, r.intn(9))
			switch r.intn(4) {
			case 0:
				e.emit("usc %s %s", hs([]byte(c)), dst)
			case 1:
				e.emit("rs %s %s", hs([]byte(tok)), r.pick([]string{"nil", "-", hs([]byte("dirty"))}))
			case 2:
				t := []byte(tok)
				e.emit("rsb %s %s %d", hs(t[:r.intn(len(t)+1)]), dst, r.intn(5))
			}
		}
		// helper layer
		for i := 0; i < docs/3; i++ {
			s := r.pick([]string{`\u`, `\u0`, `\U`, `\\`, `x`, ``}) + fmt.Sprintf("%04x", r.intn(0x10000))
			if r.chance(1, 2) {
				s = fmt.Sprintf(`\u%04x`, 0xD800+r.intn(0x800)) + r.pick([]string{fmt.Sprintf(`\u%04x`, 0xDC00+r.intn(0x400)), fmt.Sprintf(`\u%04x`, r.intn(0x10000)), `\u12`, "", "zz"})
			}
			e.emit("getu4 %s", hs([]byte(s)))
			e.emit("uuc %s %s", hs([]byte(s)), r.pick([]string{"-", hs([]byte("ab"))}))
		}
	}

	suites["c17"] = func(e *emitter, r *rng, thorough bool) {
		// all 1- and 2-byte strings; 3-byte: all (thorough) or lead-byte classes x sampled
		for a := 0; a < 256; a++ {
			e.emit("compat %s", hs([]byte{byte(a)}))
			for b := 0; b < 256; b++ {
				if thorough || a >= 0x7e || b >= 0x7e || (a+b)%5 == 0 {
					e.emit("compat %s", hs([]byte{byte(a), byte(b)}))
				}
			}
		}
		leads := []int{0x00, 0x41, 0x7f, 0x80, 0xbf, 0xc0, 0xc1, 0xc2, 0xdf, 0xe0, 0xe1, 0xec, 0xed, 0xee, 0xef, 0xf0, 0xf1, 0xf3, 0xf4, 0xf5, 0xff}
		conts := []int{0x00, 0x7f, 0x80, 0x8f, 0x90, 0x9f, 0xa0, 0xbf, 0xc0, 0xff, 0x41}
		for _, a := range leads {
			for _, b := range conts {
				for _, c := range conts {
					e.emit("compat %s", hs([]byte{byte(a), byte(b), byte(c)}))
					for _, d := range conts {
						e.emit("compat %s", hs([]byte{byte(a), byte(b), byte(c), byte(d)}))
						if d%3 == 0 {
							e.emit("compatb %s %s %d", hs([]byte{byte(a), byte(b), byte(c), byte(d), 'x'}), hs([]byte("buf")), r.intn(12))
						}
					}
				}
			}
		}
		if thorough {
			for a := 0xc0; a < 256; a++ {
				for b := 0; b < 256; b++ {
					for c := 0x70; c < 0xd0; c += 3 {
						e.emit("compat %s", hs([]byte{byte(a), byte(b), byte(c)}))
					}
				}
			}
		}
		// the slice / map helpers on decoded trees with invalid UTF-8 at every depth (the
		// argument must not be modified: the harness compares it before and after)
		bad := []string{"\"a\xffb\"", "\"\xff\"", "\"\xc3\"", "\"ok\"", "\"\xed\xa0\x80x\"", "1", "null"}
		for i := 0; i < 400; i++ {
			var mk func(d int) string
			mk = func(d int) string {
				if d == 0 || r.chance(1, 3) {
					return r.pick(bad)
				}
				if r.chance(1, 2) {
					return "[" + mk(d-1) + "," + mk(d-1) + "]"
				}
				return "{\"k" + fmt.Sprint(r.intn(3)) + "\":" + mk(d-1) + ",\"\xfe" + fmt.Sprint(r.intn(9)) + "\":" + mk(d-1) + "}"
			}
			doc := mk(1 + r.intn(4))
			e.emit("rvc %s", hs([]byte(doc)))
		}
		// invalid UTF-8 at the innermost level of documents nested up to the reader's limit
		for _, dp := range []int{100, 9999, 10000} {
			e.emit("rvc %s", hs(nest("[", "]", dp, "\"\xff\"")))
			e.emit("rvc %s", hs(nest(`{"a":`, "}", dp-1, "{\"k\xff\":\"v\xfe\"}")))
			e.emit("rvc %s", hs(nest(`[{"a\xc3":`, "}]", dp/2, "\"\xe2\x82\"")))
		}
		// long strings: an invalid byte somewhere, and a valid multi-byte character (or an invalid
		// fragment) straddling every offset near the powers of two and their multiples up to 8 KiB, so
		// that an implementation converting in fixed-size chunks or windows is exercised at its seams
		for _, seam := range []int{16, 32, 64, 128, 256, 512, 1024, 2048, 3072, 4096, 8192} {
			for _, ch := range []string{"é", "€", "😀", "\xff", "\xe2\x82", "\xf0\x9f\x98", "\xed\xa0\x80"} {
				for back := 0; back <= len(ch); back++ {
					for _, bad := range []string{"\xff", ""} {
						pad := seam - back - len(bad)
						if pad < 0 {
							continue
						}
						str := bad + strings.Repeat("a", pad) + ch + "tail"
						e.emit("compat %s", hs([]byte(str)))
						if back == 1 {
							e.emit("compatb %s %s %d", hs([]byte(str)), hs([]byte("buf")), r.intn(12))
							e.emit("rvc %s", hs([]byte(`{"`+str+`":["`+str+`"]}`)))
						}
					}
				}
			}
		}
		docs := 4000
		if thorough {
			docs = 100000
		}
		pieces := []string{"a", "é", "€", "😀", "\xff", "\xc3", "\xe2\x82", "\xf0\x9f\x98", "\xed\xa0\x80", "\xef\xbf\xbd", "\xc0\x80", "\xf4\x90\x80\x80", "\x80", ""}
		for i := 0; i < docs; i++ {
			var sb strings.Builder
			for j := 0; j < r.intn(8); j++ {
				sb.WriteString(r.pick(pieces))
			}
			e.emit("compat %s", hs([]byte(sb.String())))
			if r.chance(1, 3) {
				e.emit("compatb %s %s %d", hs([]byte(sb.String())), r.pick([]string{"-", hs([]byte("x")), hs([]byte("\xff!"))}), r.intn(40))
			}
		}
	}

	suites["c16"] = func(e *emitter, r *rng, thorough bool) {
		usedBufferHistories(e, []string{"skip", "valid"}, false) // a Buffer is scratch: what it held before changes nothing
		dsts := []string{"-", hs([]byte("a")), hs([]byte("ab")), hs([]byte("abcdefg")), hs([]byte("\xff\x00\"\\"))}
		inputs := []string{`"hello"`, `"a\nb"`, `"é😀"`, `"\ud800"`, `""`, `"unterminated`, `"bad\q"`, `  "ws"`, `"x\\\"y"`, "\"\xff\xfe\"", `"aaaaaaaaaaaaaaaaaaaaaaaaaaaaaaaa"`, `"\t"`, `"é"x`, `null`, `12`}
		for _, in := range inputs {
			for _, d := range dsts {
				for extra := 0; extra <= 8; extra++ {
					e.emit("frame rsb %s %s %d", hs([]byte(in)), d, extra)
				}
				e.emit("frame rsb %s %s %d", hs([]byte(in)), d, 100)
				e.emit("frame rs %s %s %d", hs([]byte(in)), d, r.intn(10))
			}
			e.emit("frame rs %s nil 0", hs([]byte(in)))
			c := strings.Trim(in, `" `)
			for _, d := range dsts {
				for extra := 0; extra <= 8; extra += 2 {
					e.emit("frame usc %s %s %d", hs([]byte(c)), d, extra)
					e.emit("frame compatb %s %s %d", hs([]byte(c)), d, extra)
				}
			}
		}
		strHistories(e, r, thorough)
		docs := 3000
		if thorough {
			docs = 80000
		}
		for i := 0; i < docs; i++ {
			c := genEscapes(r)
			tok := `"` + c + `"`
			d := r.pick(dsts)
			e.emit("frame rsb %s %s %d", hs([]byte(tok)), d, r.intn(24))
			e.emit("frame rs %s %s %d", hs([]byte(tok)), r.pick(append(dsts, "nil")), r.intn(24))
			e.emit("frame usc %s %s %d", hs([]byte(c)), d, r.intn(24))
			e.emit("frame compatb %s %s %d", hs([]byte(c)), d, r.intn(24))
		}
	}

	suites["c14"] = func(e *emitter, r *rng, thorough bool) {
		n := 1500
		if thorough {
			n = 30000
		}
		deep := hs(nest("[", "]", 10001, "1"))
		mid := hs(nest(`{"a":`, "}", 300, "[[[]]]"))
		usedBufferHistories(e, []string{"skip", "skipfast", "valid"}, true)
		// a recursive decoder whose every level shares one Buffer, incl. beyond 10,000 levels (the handler
		// machines have no depth limit of their own)
		for _, d := range [][]byte{nest("[", "]", 10001, "1"), nest(`[{"a":`, "}]", 6000, "1"), nest("[[],", "]", 3000, `{"k":[1,{"z":null}]}`),
			[]byte(`[1,[2,[3,{"a":[4,{"b":{}}]}]],"s",{"k":[[]]}]`), []byte(`{"a":{"b":{"c":[1,2,[3]]}},"d":[{"e":1}]}`), []byte(`[1,[2,`), []byte(`{"a":[1 2]}`), []byte("7"), []byte(" ")} {
			for _, b := range []string{"nobuf", "nil", "-", "7,7,7", "9999,0,1,2,3,4,5,6,7,8,9,10"} {
				e.emit("hrec %s %s", hs(d), b)
			}
		}
		for _, len1 := range []string{"[1 2]", "[tru]", `{"a" 1}`, "[1,]", `{"a":[1 2],"b":}x`, "[[1 2],{3}]"} {
			for _, st := range []string{"nil", "-", "7,7,7"} {
				e.emit("hist %s skipfast:%s skip:%s skipfast:%s valid:%s", st, hs([]byte(len1)), hs([]byte(len1)), hs([]byte(len1)), hs([]byte(len1)))
			}
		}
		for i := 0; i < n; i++ {
			k := 2 + r.intn(8)
			var ops []string
			for j := 0; j < k; j++ {
				d := genDoc(r)
				if r.chance(1, 3) {
					d = mutate(r, d)
				}
				h := hs(d)
				switch r.intn(20) {
				case 0:
					h = deep
				case 1:
					h = mid
				}
				switch r.intn(6) {
				case 0:
					ops = append(ops, "skip:"+h)
				case 1:
					ops = append(ops, "skipfast:"+h)
				case 2:
					ops = append(ops, "valid:"+h)
				case 3, 4:
					sc := strings.ReplaceAll(genScriptFrom(r, []string{"0", "x", "r", "r", "e3", "1", "-1"}), ",", ";")
					ops = append(ops, "harr:"+h+":"+sc)
				default:
					sc := strings.ReplaceAll(genScriptFrom(r, []string{"0", "x", "r", "r", "e0", "2"}), ",", ";")
					ops = append(ops, "hobj:"+h+":"+sc)
				}
			}
			e.emit("hist %s %s", r.pick([]string{"nil", "-", "5,5,5", "1,2,3,4,5,6,7,8,9,10,11,12,13,14,15,16"}), strings.Join(ops, " "))
		}
	}
}

func genScriptFrom(r *rng, pool []string) string {
	n := 1 + r.intn(5)
	var p []string
	for i := 0; i < n; i++ {
		p = append(p, r.pick(pool))
	}
	return strings.Join(p, ",")
}

// histories on one scratch buffer: earlier returned strings / stored targets must not change
func strHistories(e *emitter, r *rng, thorough bool) {
	hn := 400
	if thorough {
		hn = 10000
	}
	strs := []string{`"caf\u00e9 au lait"`, `"x\ty`, `"Zo\u00eb"`, `"K\u00f6ln"`, `"plain"`, `"line one\nline two, long enough to outgrow a small buffer"`, `"SECOND\tVALUE that is also long enough to need growth"`, `""`, `"\n"`, `null`, `"a\\b"`, `"bad\q"`, `"😀\ud83d\ude00"`}
	// every ordered pair (and some triples) of: escape-free, escaped short, escaped long, failing -
	// with every scratch capacity, through ReadString and DecodeString
	core := []string{`"hello world" , 1`, `"plain"`, `"\n"`, `"tab\there"`, `"2nd\nvalue \\ \"quoted\" long enough to outgrow what the first one left"`, `"first value:\tcaf\u00e9 \ud83d\ude00"`, `"bad\q"`, `null`}
	for _, a := range core {
		for _, b := range core {
			for _, capn := range []int{-1, 0, 4, 64} {
				for _, opp := range [][2]string{{"rs", "rs"}, {"dec", "dec"}, {"rs", "dec"}} {
					e.emit("strhist %d %s:%s %s:%s %s:%s", capn, opp[0], hs([]byte(a)), opp[1], hs([]byte(b)), opp[0], hs([]byte(a)))
				}
			}
		}
	}
	// the current target spells the RAW text of the next input (decoded from an escaped form first)
	for _, pr := range [][2]string{{`"C:\\new"`, `"C:\new"`}, {`"a\\"`, `"a\"b"`}, {`"x\\u0041"`, `"x\u0041"`}, {`"a\\"`, `"a\"`}, {`"a\tb"`, "\"a\tb\""}, {`"q\"r"`, `"q"r"`}, {`"plain"`, `"plain"`}, {`""`, `""`}} {
		for _, capn := range []int{-1, 0, 64} {
			e.emit("strhist %d dec:%s dec:%s dec:%s", capn, hs([]byte(pr[0])), hs([]byte(pr[1])), hs([]byte(pr[0])))
			e.emit("strhist %d dec:%s rs:%s dec:%s", capn, hs([]byte(pr[0])), hs([]byte(pr[1])), hs([]byte(pr[1])))
		}
	}
	for i := 0; i < hn; i++ {
		k := 2 + r.intn(5)
		var ops []string
		for j := 0; j < k; j++ {
			s := r.pick(strs)
			if r.chance(1, 3) {
				s = `"` + genEscapes(r) + `"`
			}
			ops = append(ops, r.pick([]string{"rs", "dec", "dec"})+":"+hs([]byte(s)))
		}
		e.emit("strhist %d %s", r.pickInt([]int{-1, 0, 0, 4, 8, 64}), strings.Join(ops, " "))
	}
}

// usedBufferHistories: one function leaves the shared stack long (the handler machines have no depth
// limit for declined values; SkipValue at its limit leaves 10000 entries), then the given functions run
// at their own depth limit, and on a small document, with that Buffer.  Used by the buffer property
// (C14) and by every property whose statement says "whatever Buffer is supplied" (C01, C02, C11, C07).
func usedBufferHistories(e *emitter, ops []string, handlers bool) {
	veryDeepArr := hs(nest("[", "]", 20000, "1"))
	veryDeepObj := hs([]byte(`{"k":` + string(nest("[", "]", 15000, "1")) + `}`))
	limits := []string{hs(nest("[", "]", 10000, "1")), hs(nest("[", "]", 10001, "1")), hs(nest(`{"a":`, "}", 10001, "1")), hs(nest(`[{"a":`, "}]", 5001, "1"))}
	for _, first := range []string{"harr:" + veryDeepArr + ":0", "hobj:" + veryDeepObj + ":0", "harr:" + veryDeepArr + ":0;0", "skip:" + limits[0]} {
		for _, lim := range limits {
			for _, op := range ops {
				e.emit("hist nil %s %s:%s %s:%s", first, op, lim, op, hs([]byte("[[1],{\"a\":[2]}]")))
			}
			if handlers {
				e.emit("hist - %s harr:%s:0 hobj:%s:0 harr:%s:x", first, lim, hs([]byte(`{"a":[1],"b":{"k":2},"c":3}`)), hs([]byte(`[[1],{"k":[2]},3]`)))
			}
		}
	}
}
