package main

// Case generators.  Every random choice derives from one splitmix64 state seeded by
// VERIF_SEED, so a run is reproducible from (suite, tier, seed).

import (
	"bufio"
	"encoding/hex"
	"fmt"
	"os"
	"strconv"
	"strings"
)

type rng struct{ s uint64 }

func (r *rng) next() uint64 {
	r.s += 0x9e3779b97f4a7c15
	z := r.s
	z = (z ^ (z >> 30)) * 0xbf58476d1ce4e5b9
	z = (z ^ (z >> 27)) * 0x94d049bb133111eb
	return z ^ (z >> 31)
}
func (r *rng) intn(n int) int {
	if n <= 0 {
		return 0
	}
	return int(r.next() % uint64(n))
}
func (r *rng) chance(num, den int) bool { return r.intn(den) < num }
func (r *rng) pick(s []string) string   { return s[r.intn(len(s))] }
func (r *rng) pickInt(s []int) int      { return s[r.intn(len(s))] }

var alphabet = []byte("[]{},:\"\\/utrefalsn019-+.E \t\x1f\x7f\x80\xff")

type emitter struct {
	w     *bufio.Writer
	count int
	seen  map[string]bool
}

func (e *emitter) emit(format string, a ...interface{}) {
	line := fmt.Sprintf(format, a...)
	if e.seen[line] {
		return
	}
	e.seen[line] = true
	e.count++
	fmt.Fprintln(e.w, line)
}

func hs(b []byte) string {
	if len(b) == 0 {
		return "-"
	}
	return hex.EncodeToString(b)
}

// all strings over alpha of length <= n
func allStrings(alpha []byte, n int, f func([]byte)) {
	buf := make([]byte, 0, n)
	var rec func(int)
	rec = func(k int) {
		f(buf)
		if k == n {
			return
		}
		for _, c := range alpha {
			buf = append(buf, c)
			rec(k + 1)
			buf = buf[:len(buf)-1]
		}
	}
	rec(0)
}

// ---------------------------------------------------------------- JSON documents

var numberPool = []string{"0", "-0", "1", "-1", "12", "0.5", "-0.25", "1e5", "1E-5", "1.5e+3", "123456789012345678901234567890",
	"0.1", "1e400", "-1e-400", "2.2250738585072014e-308", "9007199254740993", "1.7976931348623157e308", "4.9e-324",
	"100000000000000000000000", "8.41e21", "0e0", "0E+00", "1.0000000000000000000000000000001"}

var stringPool = []string{`""`, `"a"`, `"abc"`, `"\n"`, `"\""`, `"\\"`, `"\/"`, `"A"`, `"😀"`, `"\ud800"`, `"\udc00x"`,
	`"[]{}"`, `"]"`, `"}"`, `"\\\""`, `"a\tb"`, "\"\xff\"", "\"\xc3\xa9\"", `"é\b\f\r"`, `"key"`, `"key"`, `"[\"]"`, `"{\"a\":1}"`}

var wsPool = []string{"", "", "", " ", "\n", "\t", "\r\n", "  "}

func genValue(r *rng, depth int) string {
	k := r.intn(10)
	if depth <= 0 && k >= 6 {
		k = r.intn(6)
	}
	switch k {
	case 0:
		return "null"
	case 1:
		return "true"
	case 2:
		return "false"
	case 3, 4:
		return r.pick(numberPool)
	case 5:
		return r.pick(stringPool)
	case 6, 7:
		n := r.intn(4)
		var sb strings.Builder
		sb.WriteString("[" + r.pick(wsPool))
		for i := 0; i < n; i++ {
			if i > 0 {
				sb.WriteString(r.pick(wsPool) + "," + r.pick(wsPool))
			}
			sb.WriteString(genValue(r, depth-1))
		}
		sb.WriteString(r.pick(wsPool) + "]")
		return sb.String()
	default:
		n := r.intn(4)
		var sb strings.Builder
		sb.WriteString("{" + r.pick(wsPool))
		for i := 0; i < n; i++ {
			if i > 0 {
				sb.WriteString(r.pick(wsPool) + "," + r.pick(wsPool))
			}
			sb.WriteString(r.pick(stringPool) + r.pick(wsPool) + ":" + r.pick(wsPool) + genValue(r, depth-1))
		}
		sb.WriteString(r.pick(wsPool) + "}")
		return sb.String()
	}
}

func genDoc(r *rng) []byte {
	return []byte(r.pick(wsPool) + genValue(r, 1+r.intn(4)) + r.pick(wsPool))
}

// mutate: one of truncation, byte replace / insert / delete, append a byte
func mutate(r *rng, d []byte) []byte {
	out := append([]byte{}, d...)
	if len(out) == 0 {
		return []byte{alphabet[r.intn(len(alphabet))]}
	}
	switch r.intn(5) {
	case 0:
		return out[:r.intn(len(out))]
	case 1:
		out[r.intn(len(out))] = alphabet[r.intn(len(alphabet))]
	case 2:
		i := r.intn(len(out) + 1)
		out = append(out[:i], append([]byte{alphabet[r.intn(len(alphabet))]}, out[i:]...)...)
	case 3:
		i := r.intn(len(out))
		out = append(out[:i], out[i+1:]...)
	default:
		out = append(out, alphabet[r.intn(len(alphabet))])
	}
	return out
}

func nest(open, close string, n int, inner string) []byte {
	return []byte(strings.Repeat(open, n) + inner + strings.Repeat(close, n))
}

var junkStacks = []string{"nil", "-", "0", "7,7,7", "-1,-1,-1,-1,-1,-1", "9999,0,1,2,3,4,5,6,7,8,9,10", "1,2"}

func (r *rng) stack() string { return junkStacks[r.intn(len(junkStacks))] }

var scriptEntries = []string{"0", "0", "x", "x", "x", "1", "2", "3", "7", "100", "-1", "e0", "e5", "e-3",
	"2147483648", "4294967296", "9223372036854775807", "9223372036854775806", "-9223372036854775808", "r"}

func genScript(r *rng, wellBehaved bool) string {
	n := r.intn(6)
	if n == 0 {
		return "-"
	}
	var p []string
	for i := 0; i < n; i++ {
		if wellBehaved {
			p = append(p, []string{"0", "x"}[r.intn(2)])
		} else {
			p = append(p, r.pick(scriptEntries))
		}
	}
	return strings.Join(p, ",")
}

// ---------------------------------------------------------------- suites

type genFn func(e *emitter, r *rng, thorough bool)

var suites = map[string]genFn{}

func machineOps(e *emitter, r *rng, d []byte) {
	h := hs(d)
	e.emit("skip %s %s", h, r.stack())
	e.emit("skipfast %s %s", h, r.stack())
	e.emit("valid %s %s", h, r.stack())
	e.emit("harr %s %s %s", h, genScript(r, r.chance(1, 2)), r.stack())
	e.emit("hobj %s %s %s", h, genScript(r, r.chance(1, 2)), r.stack())
}

func init() {
	suites["machines"] = func(e *emitter, r *rng, thorough bool) {
		n := 2
		if thorough {
			n = 3
		}
		allStrings(alphabet, n, func(b []byte) {
			h := hs(b)
			e.emit("skip %s nil", h)
			e.emit("skipfast %s nil", h)
			e.emit("valid %s nil", h)
			e.emit("harr %s - nil", h)
			e.emit("hobj %s - nil", h)
			e.emit("harr %s x,x nil", h)
			e.emit("hobj %s x,x nil", h)
			e.emit("rnull %s", h)
			e.emit("rbool %s", h)
		})
		docs := 1500
		if thorough {
			docs = 40000
		}
		for i := 0; i < docs; i++ {
			d := genDoc(r)
			machineOps(e, r, d)
			for j := 0; j < 3; j++ {
				machineOps(e, r, mutate(r, d))
			}
		}
		// depth around the limit (quick: a few; thorough: all mixtures)
		for _, n := range []int{9999, 10000, 10001} {
			for _, sh := range [][3]string{{"[", "]", "1"}, {`{"a":`, "}", "1"}, {`[{"a":`, "}]", "null"}} {
				per := strings.Count(sh[0], "[") + strings.Count(sh[0], "{")
				d := nest(sh[0], sh[1], n/per, sh[2])
				h := hs(d)
				e.emit("skip %s nil", h)
				e.emit("skipfast %s nil", h)
				e.emit("valid %s nil", h)
			}
		}
	}
}

func cmdGen(args []string) {
	if len(args) < 3 {
		fmt.Fprintln(os.Stderr, "gen <suite> <quick|thorough> <seed>")
		os.Exit(2)
	}
	fn, ok := suites[args[0]]
	if !ok {
		fmt.Fprintln(os.Stderr, "unknown suite", args[0])
		os.Exit(2)
	}
	seed, _ := strconv.ParseUint(args[2], 10, 64)
	w := bufio.NewWriterSize(os.Stdout, 1<<20)
	e := &emitter{w: w, seen: map[string]bool{}}
	fn(e, &rng{s: seed*0x9e3779b97f4a7c15 + 1}, args[1] == "thorough")
	w.Flush()
}

// nearClassRuns: long runs of one byte class (digits, spaces) with, at every position of the first
// 24 bytes, one byte that is NOT in the class but close to it in value (the neighbours of the class
// range, the same low nibble in another row, the high-bit twin).  An implementation that classifies
// 8 or 16 bytes at a time with nibble or mask tricks is exercised at every lane.
func nearClassRuns(class string, f func([]byte)) {
	var base []byte
	var near []byte
	switch class {
	case "digits":
		base = []byte("123456789012345678901234")
		near = []byte{0x2f, 0x3a, 0x3b, 0x3c, 0x3d, 0x3e, 0x3f, 0x20, 0x10, 0x19, 0x40, 0x70, 0x79, 0xb0, 0xb9, 0x00, 0xff}
	case "strchars":
		base = []byte("abcdefghijklmnopqrstuvwx")
		near = []byte{0x22, 0x5c, 0x00, 0x01, 0x1f, 0x20, 0x7f, 0x80, 0xa2, 0xdc, 0xff, 0x21, 0x23, 0x5b, 0x5d, 0x1e, 0x9f}
	case "spaces":
		base = []byte("                        ")
		near = []byte{0x00, 0x08, 0x0b, 0x0c, 0x0e, 0x1f, 0x21, 0x28, 0x29, 0x2a, 0x2d, 0xa0, 0x89, 0x8a, 0x8d, 0x60}
	}
	for ln := 1; ln <= len(base); ln++ {
		f(append([]byte{}, base[:ln]...))
	}
	for _, ln := range []int{7, 8, 9, 15, 16, 17, 23, 24} {
		for pos := 0; pos < ln; pos++ {
			for _, b := range near {
				v := append([]byte{}, base[:ln]...)
				v[pos] = b
				f(v)
			}
		}
	}
}

// notJSONSpace: byte sequences that some notion of "space" accepts and JSON does not
var notJSONSpace = []string{"\v", "\f", "\x00", "\x1c", "\x1d", "\x1e", "\x1f", "\x85", "\xa0", "\xc2\x85", "\xc2\xa0", "\xe1\x9a\x80", "\xe2\x80\x80", "\xe2\x80\xa8", "\xe2\x80\xa9",
	"\xe2\x80\xaf", "\xe2\x81\x9f", "\xe3\x80\x80", "\xef\xbb\xbf", "\x7f", "\x08"}

// aroundValues: every such sequence before, after and between the tokens of small documents
func aroundValues(f func([]byte)) {
	for _, sp := range notJSONSpace {
		for _, d := range []string{"%s1", " %s1", "%s [1,2]", "1%s", "[1,%s2]", "[1%s,2]", "[%s]", `{%s"a":1}`, `{"a"%s:1}`, `{"a":%s1}`, `{"a":1%s}`, "%strue", "%s\"s\"", "null%s", "%s{}", "[[]%s]"} {
			f([]byte(fmt.Sprintf(d, sp)))
		}
	}
}
