package main

// Run-time measurements for the properties whose truth lives partly in the Go runtime:
//   allocs (C19): testing.AllocsPerRun on warm, successful calls
//   cost   (C20): runtime.MemStats.TotalAlloc around calls, adversarial families at 3 sizes
//   race   (C18): the whole API from many goroutines on shared read-only inputs
//                 (the binary is built with -race by bin/check)

import (
	"bytes"
	"encoding/hex"
	"fmt"
	"os"
	"reflect"
	"runtime"
	"strconv"
	"strings"
	"sync"
	"testing"

	"github.com/willabides/rjson"
)

// ------------------------------------------------------------------ allocs

type quietArr struct {
	inner *rjson.Buffer
	mode  int
	n     int
}

func (h *quietArr) HandleArrayValue(d []byte) (int, error) {
	h.n++
	if h.mode == 1 || (h.mode == 2 && h.n%2 == 0) {
		p, err := rjson.SkipValue(d, h.inner)
		if err != nil {
			return 0, nil
		}
		return p, nil
	}
	return 0, nil
}

type quietObj struct {
	inner *rjson.Buffer
	mode  int
	n     int
}

func (h *quietObj) HandleObjectValue(k, d []byte) (int, error) {
	h.n++
	if h.mode == 1 || (h.mode == 2 && h.n%2 == 0) {
		p, err := rjson.SkipValue(d, h.inner)
		if err != nil {
			return 0, nil
		}
		return p, nil
	}
	return 0, nil
}

type allocCase struct {
	name string
	data []byte
	fn   func() bool // returns success
}

func allocCases(r *rng, thorough bool) []allocCase {
	var cs []allocCase
	add := func(name string, data []byte, fn func() bool) { cs = append(cs, allocCase{name, data, fn}) }
	// documents: generated valid ones + deep + escapes
	var docs [][]byte
	n := 150
	if thorough {
		n = 3000
	}
	for i := 0; i < n; i++ {
		docs = append(docs, genDoc(r))
	}
	for _, d := range []int{1, 2, 17, 300, 9999, 10000} {
		docs = append(docs, nest("[", "]", d, `"x\n"`), nest(`{"a":`, "}", d, "1.5e3"), nest(`[{"ké":`, "}]", d/2+1, "null"))
	}
	for _, d := range docs {
		d := d
		buf := &rjson.Buffer{}
		inner := &rjson.Buffer{}
		rjson.Valid(d, buf) // warm on the same document (at least as deeply nested)
		rjson.SkipValueFast(d, buf)
		rjson.Valid(d, inner)
		// failing / rejected calls with the warmed buffers must not cost the warmth
		for _, bad := range [][]byte{{}, []byte(" "), []byte("nope"), []byte("tru"), []byte("\"a\x01\""), []byte("[[[1,]]]"), []byte("{\"a\":"), []byte("[1 2]")} {
			rjson.Valid(bad, buf)
			rjson.SkipValue(bad, buf)
			rjson.SkipValueFast(bad, buf)
			rjson.HandleArrayValues(bad, &quietArr{inner: inner, mode: 1}, buf)
			rjson.HandleObjectValues(bad, &quietObj{inner: inner, mode: 1}, buf)
			rjson.SkipValue(bad, inner)
		}
		// ... measured: a rejected call followed by a successful one on the warmed buffer.  The
		// rejected inputs used here end in package-level sentinel errors (no allocation of their
		// own); cmdAllocs subtracts what the rejected call alone costs.
		for bi, bad := range [][]byte{{}, []byte("nope"), []byte("[[[1,]]]")} {
			bad := bad
			add(fmt.Sprintf("Valid-after-rejected-call/%d", bi), d, func() bool { rjson.Valid(bad, buf); return rjson.Valid(d, buf) })
			add(fmt.Sprintf("SkipValue-after-rejected-call/%d", bi), d, func() bool { rjson.SkipValue(bad, buf); _, err := rjson.SkipValue(d, buf); return err == nil })
			hq := &quietArr{inner: inner, mode: 0}
			add(fmt.Sprintf("HandleArrayValues-after-rejected-call/%d", bi), d, func() bool {
				rjson.SkipValueFast(bad, buf)
				_, err := rjson.HandleArrayValues(d, hq, buf)
				return err == nil
			})
		}
		add("Valid", d, func() bool { return rjson.Valid(d, buf) })
		add("SkipValue", d, func() bool { _, err := rjson.SkipValue(d, buf); return err == nil })
		add("SkipValueFast", d, func() bool { _, err := rjson.SkipValueFast(d, buf); return err == nil })
		for mode := 0; mode < 3; mode++ {
			ha := &quietArr{inner: inner, mode: mode}
			ho := &quietObj{inner: inner, mode: mode}
			rjson.HandleArrayValues(d, ha, buf)
			rjson.HandleObjectValues(d, ho, buf)
			add(fmt.Sprintf("HandleArrayValues/mode%d", mode), d, func() bool { _, err := rjson.HandleArrayValues(d, ha, buf); return err == nil })
			add(fmt.Sprintf("HandleObjectValues/mode%d", mode), d, func() bool { _, err := rjson.HandleObjectValues(d, ho, buf); return err == nil })
		}
		// the handler skips members with the traversal's OWN Buffer (as the repository's benchmark does)
		for mode := 1; mode < 3; mode++ {
			hs := &quietArr{inner: buf, mode: mode}
			hos := &quietObj{inner: buf, mode: mode}
			rjson.HandleArrayValues(d, hs, buf)
			rjson.HandleObjectValues(d, hos, buf)
			rjson.HandleArrayValues(d, hs, buf)
			rjson.HandleObjectValues(d, hos, buf)
			add(fmt.Sprintf("HandleArrayValues/shared-buffer-mode%d", mode), d, func() bool { _, err := rjson.HandleArrayValues(d, hs, buf); return err == nil })
			add(fmt.Sprintf("HandleObjectValues/shared-buffer-mode%d", mode), d, func() bool { _, err := rjson.HandleObjectValues(d, hos, buf); return err == nil })
		}
	}
	// numbers on every conversion path
	nums := append([]string{}, numberPool...)
	nums = append(nums, "1.00000000000000011102230246251565404236316680908203125", "0."+strings.Repeat("0", 70)+"1234567890123456789012345e-250",
		"1"+strings.Repeat("0", 400)+"e-400", strings.Repeat("9", 900)+"e-900", "2.2250738585072011e-308", "179769313486231580793728971405303415079934132710037826936173778980444968292764750946649017977587207096330286416692887910946555547851940402630657488671505820681908902000708383676273854845817711531764475730270069855571366959622842914819860834936475292719074168444365510704342711559699508093042880177904174497791")
	for i := 0; i < 200; i++ {
		s := ""
		for j := 0; j < 1+r.intn(30); j++ {
			s += string(byte('0' + r.intn(10)))
		}
		s = strings.TrimLeft(s, "0")
		if s == "" {
			s = "7"
		}
		nums = append(nums, s+"."+fmt.Sprint(r.intn(1000000))+"e"+fmt.Sprint(r.intn(600)-300))
	}
	var f64 float64
	var i64 int64
	var i32 int32
	var in int
	var u64 uint64
	var u32 uint32
	var un uint
	var bl bool
	for _, s := range nums {
		d := []byte(" " + s + " ")
		add("ReadFloat64", d, func() bool { _, _, err := rjson.ReadFloat64(d); return err == nil })
		add("DecodeFloat64", d, func() bool { _, err := rjson.DecodeFloat64(d, &f64); return err == nil })
	}
	for _, s := range []string{"0", "-0", "7", "-12", "2147483647", "-2147483648", "4294967295", "9223372036854775807", "-9223372036854775808", "18446744073709551615", "123456789012345678", "1234567890123456789", "null"} {
		d := []byte(s + ",")
		add("ReadInt64", d, func() bool { _, _, err := rjson.ReadInt64(d); return err == nil })
		add("ReadInt32", d, func() bool { _, _, err := rjson.ReadInt32(d); return err == nil })
		add("ReadInt", d, func() bool { _, _, err := rjson.ReadInt(d); return err == nil })
		add("ReadUint64", d, func() bool { _, _, err := rjson.ReadUint64(d); return err == nil })
		add("ReadUint32", d, func() bool { _, _, err := rjson.ReadUint32(d); return err == nil })
		add("ReadUint", d, func() bool { _, _, err := rjson.ReadUint(d); return err == nil })
		add("DecodeInt64", d, func() bool { _, err := rjson.DecodeInt64(d, &i64); return err == nil })
		add("DecodeInt32", d, func() bool { _, err := rjson.DecodeInt32(d, &i32); return err == nil })
		add("DecodeInt", d, func() bool { _, err := rjson.DecodeInt(d, &in); return err == nil })
		add("DecodeUint64", d, func() bool { _, err := rjson.DecodeUint64(d, &u64); return err == nil })
		add("DecodeUint32", d, func() bool { _, err := rjson.DecodeUint32(d, &u32); return err == nil })
		add("DecodeUint", d, func() bool { _, err := rjson.DecodeUint(d, &un); return err == nil })
	}
	for _, s := range []string{"true", " false", "null", "\ttrue ", "[", "{", `"`, ",", ":", "]", "}", "1", "-"} {
		d := []byte(s)
		add("ReadBool", d, func() bool { _, _, err := rjson.ReadBool(d); return err == nil })
		add("DecodeBool", d, func() bool { _, err := rjson.DecodeBool(d, &bl); return err == nil })
		add("ReadNull", d, func() bool { _, err := rjson.ReadNull(d); return err == nil })
		add("NextToken", d, func() bool { _, _, err := rjson.NextToken(d); return err == nil })
		add("NextTokenType", d, func() bool { _, _, err := rjson.NextTokenType(d); return err == nil })
	}
	// strings: destination with spare capacity >= input length
	strs := append([]string{}, stringPool...)
	for i := 0; i < 300; i++ {
		strs = append(strs, `"`+genEscapes(r)+`"`)
	}
	strs = append(strs, `"`+strings.Repeat(`😀`, 500)+`"`, `"`+strings.Repeat(`\n`, 3000)+`"`, `"`+strings.Repeat("a", 5000)+`\t"`)
	for _, s := range strs {
		d := []byte(s)
		dst := make([]byte, 3, 3+len(d))
		add("ReadStringBytes", d, func() bool { _, _, err := rjson.ReadStringBytes(d, dst); return err == nil })
		if len(d) >= 2 {
			c := d[1 : len(d)-1]
			dst2 := make([]byte, 0, len(c))
			add("UnescapeStringContent", c, func() bool { _, _, err := rjson.UnescapeStringContent(c, dst2); return err == nil })
		}
	}
	return cs
}

func cmdAllocs(args []string) {
	seed, _ := strconv.ParseUint(args[1], 10, 64)
	r := &rng{s: seed*0x9e3779b97f4a7c15 + 7}
	cs := allocCases(r, args[0] == "thorough")
	total, succ, bad := 0, 0, 0
	byName := map[string]int{}
	for _, c := range cs {
		total++
		if !c.fn() { // only successful calls are covered by C19
			continue
		}
		succ++
		byName[c.name]++
		n := testing.AllocsPerRun(3, func() { c.fn() })
		if n != 0 {
			bad++
			fmt.Printf("ALLOC %s %s %v\n", c.name, hex.EncodeToString(c.data[:min(len(c.data), 200)]), n)
		}
	}
	// non-vacuity: a cold Buffer on a nested document must allocate
	deep := nest("[", "]", 50, "1")
	cold := testing.AllocsPerRun(3, func() { rjson.Valid(deep, &rjson.Buffer{}) })
	fmt.Printf("SUMMARY cases=%d successful=%d nonzero=%d cold_buffer_allocs=%v functions=%d\n", total, succ, bad, cold, len(byName))
	var names []string
	for k, v := range byName {
		names = append(names, fmt.Sprintf("%s:%d", k, v))
	}
	fmt.Printf("FUNCTIONS %s\n", strings.Join(names, " "))
}

// ------------------------------------------------------------------ cost

func totalAlloc() uint64 {
	var m runtime.MemStats
	runtime.ReadMemStats(&m)
	return m.TotalAlloc
}

type family struct {
	name string
	mk   func(n int) [][]byte // a call history of documents, size parameter n
	run  func(docs [][]byte)
}

func rep(s string, n int) string { return strings.Repeat(s, n) }

func keysObj(n int) string {
	var sb strings.Builder
	sb.WriteString("{")
	for i := 0; i < n; i++ {
		if i > 0 {
			sb.WriteString(",")
		}
		fmt.Fprintf(&sb, `"k%d":%d`, i, i)
	}
	sb.WriteString("}")
	return sb.String()
}

func families() []family {
	readAll := func(docs [][]byte) {
		var rd rjson.ValueReader
		for _, d := range docs {
			rd.ReadValue(d)
		}
	}
	readFresh := func(docs [][]byte) {
		for _, d := range docs {
			rjson.ReadValue(d)
		}
	}
	skipAll := func(docs [][]byte) {
		var b rjson.Buffer
		for _, d := range docs {
			rjson.SkipValue(d, &b)
			rjson.Valid(d, &b)
			rjson.SkipValueFast(d, &b)
			rjson.HandleArrayValues(d, &quietArr{}, &b)
			rjson.HandleObjectValues(d, &quietObj{}, &b)
		}
	}
	one := func(s string) [][]byte { return [][]byte{[]byte(s)} }
	return []family{
		{"F1-big-object-then-many-empty-siblings", func(n int) [][]byte { return one("[" + keysObj(n) + rep(",{}", n) + "]") }, readFresh},
		{"F1b-alternating-big-and-empty-objects", func(n int) [][]byte { return one("[" + rep(keysObj(30)+",{},", n/8) + "{}]") }, readFresh},
		{"F1c-big-object-then-empty-siblings-in-object", func(n int) [][]byte {
			var sb strings.Builder
			sb.WriteString(`{"big":` + keysObj(n))
			for i := 0; i < n; i++ {
				fmt.Fprintf(&sb, `,"e%d":{}`, i)
			}
			return one(sb.String() + "}")
		}, readFresh},
		{"F2-reused-reader-big-then-small-documents", func(n int) [][]byte {
			docs := [][]byte{[]byte(`{"a":[` + keysObj(n*4) + `]}`)}
			for i := 0; i < n; i++ {
				docs = append(docs, []byte(`{"a":[{"b":1},{"c":2}]}`))
			}
			return docs
		}, readAll},
		{"F2b-reused-reader-big-array-then-small", func(n int) [][]byte {
			docs := [][]byte{[]byte("[[" + rep("1,", n*8) + "1]]")}
			for i := 0; i < n; i++ {
				docs = append(docs, []byte(`[[1],[2]]`))
			}
			return docs
		}, readAll},
		{"F3-escape-at-every-nesting-level-array", func(n int) [][]byte { return one(rep(`["\n",`, n) + "1" + rep("]", n)) }, readFresh},
		{"F3b-escape-at-every-nesting-level-object", func(n int) [][]byte { return one(rep(`{"k\n":"v\t","n":`, n) + "1" + rep("}", n)) }, readFresh},
		{"unicode-escapes-in-one-long-string", func(n int) [][]byte {
			return one(`["` + rep(`\u00e9`, n*4) + `",{"` + rep(`\u00fc`, n) + `":"` + rep(`\ud83d\ude00`, n) + `"}]`)
		}, readFresh},
		{"unicode-escapes-ReadStringBytes", func(n int) [][]byte { return one(`"` + rep(`\u00e9`, n*8) + `"`) }, func(docs [][]byte) {
			for _, d := range docs {
				rjson.ReadStringBytes(d, nil)
				rjson.ReadString(d, nil)
				rjson.UnescapeStringContent(d[1:len(d)-1], nil)
			}
		}},
		{"big-array-then-many-empty-arrays", func(n int) [][]byte { return one("[[" + rep("0,", n) + "0]" + rep(",[]", n) + "]") }, readFresh},
		{"big-array-then-empty-arrays-in-object", func(n int) [][]byte {
			var sb strings.Builder
			sb.WriteString(`{"big":[` + rep("0,", n) + "0]")
			for i := 0; i < n; i++ {
				fmt.Fprintf(&sb, `,"e%d":[]`, i)
			}
			return one(sb.String() + "}")
		}, readFresh},
		{"reused-reader-big-array-then-empty-arrays", func(n int) [][]byte {
			docs := [][]byte{[]byte("[" + rep("0,", n*8) + "0]")}
			for i := 0; i < n; i++ {
				docs = append(docs, []byte("[]"), []byte("[[]]"))
			}
			return docs
		}, func(docs [][]byte) {
			var rd rjson.ValueReader
			for i, d := range docs {
				if i%2 == 0 {
					rd.ReadArray(d)
				} else {
					rd.ReadValue(d)
				}
			}
		}},
		{"reused-reader-big-object-then-empty-objects", func(n int) [][]byte {
			docs := [][]byte{[]byte(keysObj(n * 4))}
			for i := 0; i < n; i++ {
				docs = append(docs, []byte("{}"), []byte(`{"a":{}}`))
			}
			return docs
		}, func(docs [][]byte) {
			var rd rjson.ValueReader
			for i, d := range docs {
				if i%2 == 0 {
					rd.ReadObject(d)
				} else {
					rd.ReadValue(d)
				}
			}
		}},
		{"reused-reader-array-of-big-objects-then-small-objects-via-ReadValue", func(n int) [][]byte {
			docs := [][]byte{[]byte("[" + keysObj(n*2) + "," + keysObj(n*2) + "]")}
			for i := 0; i < n; i++ {
				docs = append(docs, []byte(`{"a":1}`))
			}
			return docs
		}, func(docs [][]byte) {
			var rd rjson.ValueReader
			rd.ReadArray(docs[0])
			for _, d := range docs[1:] {
				rd.ReadValue(d)
			}
		}},
		{"reused-reader-object-of-big-arrays-then-small-arrays-via-ReadValue", func(n int) [][]byte {
			docs := [][]byte{[]byte(`{"a":[` + rep("0,", n*4) + `0],"b":[` + rep("0,", n*4) + "0]}")}
			for i := 0; i < n; i++ {
				docs = append(docs, []byte(`[1]`))
			}
			return docs
		}, func(docs [][]byte) {
			var rd rjson.ValueReader
			rd.ReadObject(docs[0])
			for _, d := range docs[1:] {
				rd.ReadValue(d)
			}
		}},
		{"wide-array-of-numbers", func(n int) [][]byte { return one("[" + rep("1.5,", n*4) + "2]") }, readFresh},
		{"wide-object", func(n int) [][]byte { return one(keysObj(n * 2)) }, readFresh},
		{"deep-arrays", func(n int) [][]byte { return one(rep("[", min(n, 9000)) + rep("]", min(n, 9000))) }, readFresh},
		{"deep-objects", func(n int) [][]byte { return one(rep(`{"a":`, min(n, 9000)) + "1" + rep("}", min(n, 9000))) }, readFresh},
		{"long-strings-with-escapes", func(n int) [][]byte { return one(`["` + rep(`a\n`, n*4) + `","` + rep("b", n*4) + `"]`) }, readFresh},
		{"many-small-documents-reused-reader", func(n int) [][]byte {
			var docs [][]byte
			for i := 0; i < n; i++ {
				docs = append(docs, []byte(`{"id":1,"tags":["a","b"],"n":{"x":1.5}}`))
			}
			return docs
		}, readAll},
		{"skip-validate-traverse-deep-and-wide", func(n int) [][]byte {
			return [][]byte{[]byte(rep("[", min(n, 9000)) + rep("]", min(n, 9000))), []byte("[" + rep(`{"a":[1,2,"x\n"]},`, n) + "1]"), []byte(rep(`{"a":`, min(n, 9000)) + "1" + rep("}", min(n, 9000)))}
		}, skipAll},
		{"skip-many-small-documents-reused-buffer", func(n int) [][]byte {
			docs := [][]byte{[]byte(rep("[", 5000) + rep("]", 5000))}
			for i := 0; i < n*2; i++ {
				docs = append(docs, []byte(`[[1],{"a":[2]}]`))
			}
			return docs
		}, skipAll},
	}
}

func cmdCost(args []string) {
	sizes := []int{1000, 2000, 4000}
	if args[0] == "thorough" {
		sizes = []int{1000, 2000, 4000, 8000}
	}
	for _, f := range families() {
		var costs []float64
		var lens []int
		for _, n := range sizes {
			docs := f.mk(n)
			total := 0
			for _, d := range docs {
				total += len(d)
			}
			runtime.GC()
			before := totalAlloc()
			f.run(docs)
			after := totalAlloc()
			costs = append(costs, float64(after-before))
			lens = append(lens, total)
			fmt.Printf("COST %s n=%d input_bytes=%d calls=%d alloc_bytes=%d per_byte=%.1f\n", f.name, n, total, len(docs), after-before, float64(after-before)/float64(total))
		}
		// growth exponent between the smallest and the largest size: log(cost ratio)/log(len ratio)
		k := len(sizes) - 1
		ratio := (costs[k] / costs[0]) / (float64(lens[k]) / float64(lens[0]))
		fmt.Printf("FAMILY %s superlinearity=%.2f max_per_byte=%.1f\n", f.name, ratio, costs[k]/float64(lens[k]))
	}
}

// ------------------------------------------------------------------ race

func apiSnapshot(d []byte) string {
	var sb strings.Builder
	var buf rjson.Buffer
	p, err := rjson.SkipValue(d, &buf)
	fmt.Fprintf(&sb, "%d %v|", p, err == nil)
	p, err = rjson.SkipValueFast(d, &buf)
	fmt.Fprintf(&sb, "%d %v|", p, err == nil)
	fmt.Fprintf(&sb, "%v|", rjson.Valid(d, &buf))
	v, p, err := rjson.ReadValue(d)
	fmt.Fprintf(&sb, "%s %d %v|", canon(v), p, err == nil)
	f, p, err := rjson.ReadFloat64(d)
	fmt.Fprintf(&sb, "%v %d %v|", f, p, err == nil)
	i, p, err := rjson.ReadInt64(d)
	fmt.Fprintf(&sb, "%v %d %v|", i, p, err == nil)
	u, p, err := rjson.ReadUint32(d)
	fmt.Fprintf(&sb, "%v %d %v|", u, p, err == nil)
	s, p, err := rjson.ReadString(d, nil)
	fmt.Fprintf(&sb, "%q %d %v|", s, p, err == nil)
	bs, p, err := rjson.ReadStringBytes(d, nil)
	fmt.Fprintf(&sb, "%q %d %v|", bs, p, err == nil)
	b, p, err := rjson.ReadBool(d)
	fmt.Fprintf(&sb, "%v %d %v|", b, p, err == nil)
	p, err = rjson.ReadNull(d)
	fmt.Fprintf(&sb, "%d %v|", p, err == nil)
	t, p, err := rjson.NextToken(d)
	fmt.Fprintf(&sb, "%v %d %v|", t, p, err == nil)
	tt, p, err := rjson.NextTokenType(d)
	fmt.Fprintf(&sb, "%v %d %v|", tt, p, err == nil)
	ha := &quietArr{inner: &rjson.Buffer{}, mode: 2}
	p, err = rjson.HandleArrayValues(d, ha, &buf)
	fmt.Fprintf(&sb, "%d %v %d|", p, err == nil, ha.n)
	ho := &quietObj{inner: &rjson.Buffer{}, mode: 2}
	p, err = rjson.HandleObjectValues(d, ho, &buf)
	fmt.Fprintf(&sb, "%d %v %d|", p, err == nil, ho.n)
	var f64 float64
	p, err = rjson.DecodeFloat64(d, &f64)
	fmt.Fprintf(&sb, "%v %d %v|", f64, p, err == nil)
	var str string
	p, err = rjson.DecodeString(d, &str, nil)
	fmt.Fprintf(&sb, "%q %d %v|", str, p, err == nil)
	// (when two keys of one object collide after replacement the winner depends on Go's map
	// iteration order: not a race, and excluded by C17; such documents are not printed)
	if !keyCollision(d) {
		if m, ok := v.(map[string]interface{}); ok {
			fmt.Fprintf(&sb, "%s|", canon(rjson.StdLibCompatibleMap(m)))
		}
		if a, ok := v.([]interface{}); ok {
			fmt.Fprintf(&sb, "%s|", canon(rjson.StdLibCompatibleSlice(a)))
		}
	}
	// the same entry points with no Buffer at all, and the small accessors
	p, err = rjson.SkipValue(d, nil)
	fmt.Fprintf(&sb, "%d %v|", p, err == nil)
	p, err = rjson.SkipValueFast(d, nil)
	fmt.Fprintf(&sb, "%d %v|", p, err == nil)
	fmt.Fprintf(&sb, "%v|", rjson.Valid(d, nil))
	p, err = rjson.HandleArrayValues(d, &quietArr{mode: 1}, nil)
	fmt.Fprintf(&sb, "%d %v|", p, err == nil)
	p, err = rjson.HandleObjectValues(d, &quietObj{mode: 1}, nil)
	fmt.Fprintf(&sb, "%d %v|", p, err == nil)
	for _, k := range []int{0, 3, 11, 12, 77, 200, 255, len(d) % 256} {
		fmt.Fprintf(&sb, "%s|", rjson.TokenType(k).String())
	}
	bb, p, err := rjson.ReadStringBytes(d, make([]byte, 2, 8))
	fmt.Fprintf(&sb, "%q %d %v|", bb, p, err == nil)
	var i32 int32
	p, err = rjson.DecodeInt32(d, &i32)
	fmt.Fprintf(&sb, "%d %d %v|", i32, p, err == nil)
	fmt.Fprintf(&sb, "%q|", rjson.StdLibCompatibleStringBytes(d, nil))
	fmt.Fprintf(&sb, "%q|", rjson.StdLibCompatibleString(string(d)))
	uc, p, err := rjson.UnescapeStringContent(d, nil)
	fmt.Fprintf(&sb, "%q %d %v", uc, p, err == nil)
	return sb.String()
}

// readerSnapshot: ReadObject / ReadArray through a caller-owned reader and through the one-shot
// package functions, printed canonically
func readerSnapshot(rd *rjson.ValueReader, d []byte) string {
	var sb strings.Builder
	o1, p, err := rd.ReadObject(d)
	if err == nil {
		fmt.Fprintf(&sb, "|%s %d", canon(map[string]interface{}(o1)), p)
	} else {
		fmt.Fprintf(&sb, "|err")
	}
	o2, p, err := rjson.ReadObject(d)
	if err == nil {
		fmt.Fprintf(&sb, "|%s %d", canon(map[string]interface{}(o2)), p)
	} else {
		fmt.Fprintf(&sb, "|err")
	}
	a1, p, err := rd.ReadArray(d)
	if err == nil {
		fmt.Fprintf(&sb, "|%s %d", canon([]interface{}(a1)), p)
	} else {
		fmt.Fprintf(&sb, "|err")
	}
	a2, p, err := rjson.ReadArray(d)
	if err == nil {
		fmt.Fprintf(&sb, "|%s %d", canon([]interface{}(a2)), p)
	} else {
		fmt.Fprintf(&sb, "|err")
	}
	return sb.String()
}

func cmdRace(args []string) {
	seed, _ := strconv.ParseUint(args[1], 10, 64)
	r := &rng{s: seed*0x9e3779b97f4a7c15 + 11}
	n := 120
	if args[0] == "thorough" {
		n = 1500
	}
	var docs [][]byte
	for i := 0; i < n; i++ {
		d := genDoc(r)
		if r.chance(1, 4) {
			d = mutate(r, d)
		}
		docs = append(docs, d)
	}
	for _, s := range numberPool {
		docs = append(docs, []byte(s))
	}
	for _, s := range stringPool {
		docs = append(docs, []byte(s))
	}
	docs = append(docs, []byte("1.00000000000000011102230246251565404236316680908203125"), nest("[", "]", 300, `{"a":"b\n"}`))
	keep := make([][]byte, len(docs))
	for i, d := range docs {
		keep[i] = append([]byte{}, d...)
	}
	// the concurrent phase runs FIRST (lazily initialised or memoised package state would be
	// initialised by a sequential pre-pass and its racy first writes would never be seen)
	workers := 16
	var wg sync.WaitGroup
	results := make([][]string, workers)
	vals := make([][]bool, workers)
	perWorker := make([]int, 64*workers) // one slot per worker, padded: no sharing
	for w := 0; w < workers; w++ {
		results[w] = make([]string, len(docs))
		vals[w] = make([]bool, len(docs))
		wg.Add(1)
		go func(w int) {
			defer wg.Done()
			rd := &rjson.ValueReader{}
			for k := 0; k < len(docs); k++ {
				i := (k*7 + w*13) % len(docs)
				got := apiSnapshot(docs[i])
				// (no lock here: a mutex per iteration would order the goroutines and hide races)
				perWorker[w*64] += strings.Count(got, "|") + 3
				v, _, _ := rd.ReadValue(docs[i])
				v2, _, _ := rjson.ReadValue(docs[i])
				// the goroutine's own reused reader next to the one-shot functions (which may draw on
				// package-level pools): typed entry points, failing calls included
				got += readerSnapshot(rd, docs[i])
				results[w][i] = got
				vals[w][i] = reflect.DeepEqual(v, v2)
			}
		}(w)
	}
	wg.Wait()
	calls := 0
	for _, c := range perWorker {
		calls += c
	}
	// sequential reference afterwards
	mism := 0
	for i, d := range docs {
		want := apiSnapshot(d) + readerSnapshot(&rjson.ValueReader{}, d)
		for w := 0; w < workers; w++ {
			if results[w][i] != "" && (results[w][i] != want || !vals[w][i]) {
				mism++
				if mism <= 3 {
					fmt.Printf("RACE-MISMATCH %s\n", hex.EncodeToString(d))
				}
			}
		}
	}
	mod := 0
	for i := range docs {
		if !bytes.Equal(docs[i], keep[i]) {
			mod++
		}
	}
	fmt.Printf("RACE-SUMMARY docs=%d workers=%d calls=%d mismatches=%d inputs_modified=%d\n", len(docs), workers, calls, mism, mod)
	if mism > 0 || mod > 0 {
		os.Exit(3)
	}
}

func min(a, b int) int {
	if a < b {
		return a
	}
	return b
}
