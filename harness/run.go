package main

// Implementation side of the correspondence check: reads case lines, runs the real
// rjson code (built from /repo with -tags verif) and prints one observation per line.
// Observation format:  <projected observables> [# <extra observables>]
// Only the projected part is what the properties determine; the extra part is compared
// separately and reported as drift, never as a violation.

import (
	"bufio"
	"encoding/hex"
	"errors"
	"fmt"
	"io"
	"math"
	"os"
	"strconv"
	"strings"
	"time"

	"github.com/willabides/rjson"
)

func unhex(s string) []byte {
	if s == "-" || s == "" {
		return []byte{}
	}
	b, err := hex.DecodeString(s)
	if err != nil {
		panic("bad hex " + s)
	}
	return b
}

// unhexWin: the input as a WINDOW of a larger live buffer - 8 guard bytes in front, and behind it
// (inside the slice's capacity) bytes that would plausibly complete a token cut off at the end of the
// window.  A function that looks or writes beyond len(data) - which Go permits by reslicing up to the
// capacity - then behaves differently from the model (which has no capacity), or trips the guard check.
type inputWindow struct {
	whole, snap []byte
	off, n      int
}

var inputWindows []inputWindow

func completionFor(raw []byte) string {
	tail := string(raw)
	if len(tail) > 6 {
		tail = tail[len(tail)-6:]
	}
	for _, c := range [][2]string{{"nul", "l"}, {"nu", "ll"}, {"n", "ull"}, {"tru", "e"}, {"tr", "ue"}, {"t", "rue"}, {"fals", "e"}, {"fal", "se"}, {"fa", "lse"}, {"f", "alse"},
		{"\\u", "0041\""}, {"\\u0", "041\""}, {"\\u00", "41\""}, {"\\u004", "1\""}, {"\\ud83d", "\\ude00\""}, {"\\", "n\""}, {"e", "5"}, {"E", "5"}, {".", "5"}, {"-", "1"}, {"+", "1"},
		{"[", "1]"}, {"{", "\"a\":1}"}, {":", "1}"}, {",", "1]"}, {"\"", "abc\""}} {
		if strings.HasSuffix(tail, c[0]) {
			return c[1] + " ]}\"ull"
		}
	}
	if len(raw) > 0 && raw[len(raw)-1] >= '0' && raw[len(raw)-1] <= '9' {
		return "5e1 ]}\""
	}
	return "\"]} null"
}

func unhexWin(s string) []byte {
	raw := unhex(s)
	cont := completionFor(raw)
	whole := make([]byte, 0, 8+len(raw)+len(cont))
	whole = append(whole, "\xa5\xa5\xa5\xa5\xa5\xa5\xa5\xa5"...)
	whole = append(whole, raw...)
	whole = append(whole, cont...)
	inputWindows = append(inputWindows, inputWindow{whole: whole, snap: append([]byte{}, whole...), off: 8, n: len(raw)})
	return whole[8 : 8+len(raw)] // capacity reaches over the continuation
}

// outside every input window nothing may have changed
func windowsIntact() bool {
	for _, w := range inputWindows {
		for i := range w.whole {
			if (i < w.off || i >= w.off+w.n) && w.whole[i] != w.snap[i] {
				return false
			}
		}
	}
	return true
}

func hx(b []byte) string {
	if len(b) == 0 {
		return "-"
	}
	return hex.EncodeToString(b)
}

func parseStack(s string) []int {
	if s == "nil" {
		return nil
	}
	if s == "-" {
		return []int{}
	}
	var r []int
	for _, f := range strings.Split(s, ",") {
		v, err := strconv.Atoi(f)
		if err != nil {
			panic("bad stack " + s)
		}
		r = append(r, v)
	}
	return r
}

var errSentinel = errors.New("handler sentinel")

type hcall struct {
	p   int
	key []byte
}

type script struct {
	entries  []string
	base     []byte // the whole document
	calls    []hcall
	buf      *rjson.Buffer // for re-entrant entries
	returned error         // the error value the handler returned last (identity is what C09 is about)
}

var libErrs []error

// libErrors collects the distinct error values the library itself returns (unexpected end, no valid
// token, invalid array/object/string/number..., max depth, io.EOF, handler offset out of range)
func libErrors() []error {
	if libErrs != nil {
		return libErrs
	}
	add := func(err error) {
		if err == nil {
			return
		}
		for _, e := range libErrs {
			if e == err {
				return
			}
		}
		libErrs = append(libErrs, err)
	}
	for _, d := range []string{"[", "[1,[2,", "x", "", `{"a"`, `{"a":`, `"abc`, "tru", "nul", "-", "1e", "[1 2]", `{"a" 1}`, strings.Repeat("[", 10001)} {
		b := []byte(d)
		_, err := rjson.SkipValue(b, nil)
		add(err)
		_, err = rjson.SkipValueFast(b, nil)
		add(err)
		_, err = rjson.HandleArrayValues(b, rjson.ArrayValueHandlerFunc(func(d []byte) (int, error) { return 0, nil }), nil)
		add(err)
		_, err = rjson.HandleObjectValues(b, rjson.ObjectValueHandlerFunc(func(k, d []byte) (int, error) { return 0, nil }), nil)
		add(err)
		_, _, err = rjson.ReadString(b, nil)
		add(err)
		_, _, err = rjson.ReadUint64(b)
		add(err)
		_, _, err = rjson.ReadInt64(b)
		add(err)
		_, _, err = rjson.ReadInt32(b)
		add(err)
		_, _, err = rjson.ReadFloat64(b)
		add(err)
		_, _, err = rjson.ReadBool(b)
		add(err)
		_, err = rjson.ReadNull(b)
		add(err)
		_, _, err = rjson.NextToken(b)
		add(err)
		_, _, err = rjson.NextTokenType(b)
		add(err)
		_, _, err = rjson.ReadValue(b)
		add(err)
		_, _, err = rjson.ReadArray(b)
		add(err)
		_, _, err = rjson.ReadObject(b)
		add(err)
	}
	_, err := rjson.HandleArrayValues([]byte(`["a"]`), rjson.ArrayValueHandlerFunc(func(d []byte) (int, error) { return 100, nil }), nil)
	add(err)
	_, err = rjson.HandleArrayValues([]byte(`["a"]`), rjson.ArrayValueHandlerFunc(func(d []byte) (int, error) { return -1, nil }), nil)
	add(err)
	return libErrs
}

func (s *script) answer(off int, data []byte) (int, error) {
	i := len(s.calls) - 1
	e := "0"
	if i < len(s.entries) {
		e = s.entries[i]
	}
	switch {
	case e == "x":
		p, err := rjson.SkipValue(data, nil)
		if err != nil {
			return 0, nil
		}
		return p, nil
	case e == "r":
		p, err := rjson.SkipValue(data, s.buf)
		if err != nil {
			return 0, nil
		}
		return p, nil
	case strings.HasPrefix(e, "e"):
		// "e<offset>" returns the harness sentinel; "e<offset>@<k>" returns the k-th error value owned
		// by the library itself (what a handler gets when it delegates to SkipValue, ReadString, ...)
		num := e[1:]
		errv := errSentinel
		if i := strings.IndexByte(num, '@'); i >= 0 {
			k, _ := strconv.Atoi(num[i+1:])
			errv = libErrors()[k%len(libErrors())]
			num = num[:i]
		}
		v, _ := strconv.ParseInt(num, 10, 64)
		s.returned = errv
		return int(v), errv
	default:
		v, err := strconv.ParseInt(e, 10, 64)
		if err != nil {
			panic("bad script entry " + e)
		}
		return int(v), nil
	}
}

func (s *script) HandleArrayValue(data []byte) (int, error) {
	off := len(s.base) - len(data)
	s.calls = append(s.calls, hcall{p: off})
	return s.answer(off, data)
}

func (s *script) HandleObjectValue(key, data []byte) (int, error) {
	off := len(s.base) - len(data)
	s.calls = append(s.calls, hcall{p: off, key: append([]byte{}, key...)})
	return s.answer(off, data)
}

func (s *script) callStr(obj bool) string {
	if len(s.calls) == 0 {
		return "-"
	}
	var parts []string
	for _, c := range s.calls {
		if obj {
			parts = append(parts, fmt.Sprintf("%d:%s", c.p, hx(c.key)))
		} else {
			parts = append(parts, strconv.Itoa(c.p))
		}
	}
	return strings.Join(parts, ",")
}

func newScript(spec string, data []byte) *script {
	s := &script{base: data}
	if spec != "-" && spec != "" {
		s.entries = strings.Split(spec, ",")
	}
	return s
}

func okp(p int, err error) string {
	if err != nil {
		return "err"
	}
	return "ok " + strconv.Itoa(p)
}

func handlerObs(p int, err error, s *script, obj bool, n int) string {
	switch {
	case err == nil:
		if p < 0 || p > n {
			return fmt.Sprintf("ok-out-of-range %d | %s", p, s.callStr(obj))
		}
		return fmt.Sprintf("ok %d | %s", p, s.callStr(obj))
	case s.returned != nil && err == s.returned:
		return fmt.Sprintf("herr | %s", s.callStr(obj))
	case s.returned != nil && errors.Is(err, s.returned):
		return fmt.Sprintf("herr-wrapped | %s", s.callStr(obj))
	default:
		return fmt.Sprintf("err # %s", s.callStr(obj))
	}
}

func b2s(b bool) string {
	if b {
		return "true"
	}
	return "false"
}

// runCase executes one case line; panics are caught by the caller.
func runCase(f []string) string {
	op := f[0]
	switch op {
	case "skip", "skipfast":
		data := unhexWin(f[1])
		st := parseStack(f[2])
		var p int
		var err error
		// the exported wrappers (nil Buffer when no stack is given), so that the wrapper code is
		// part of what is compared with the model
		var buf *rjson.Buffer
		if st != nil {
			buf = &rjson.Buffer{}
			rjson.VerifSetBufferStack(buf, st)
		}
		if op == "skip" {
			p, err = rjson.SkipValue(data, buf)
		} else {
			p, err = rjson.SkipValueFast(data, buf)
		}
		if err == nil && (p < 0 || p > len(data)) {
			return fmt.Sprintf("ok-out-of-range %d", p)
		}
		return okp(p, err)
	case "skipboth":
		// C11 stated directly: where the strict skipper succeeds, the fast one succeeds with the same offset
		data := unhexWin(f[1])
		p, err := rjson.SkipValue(data, nil)
		q, errq := rjson.SkipValueFast(data, nil)
		switch {
		case err != nil:
			return "strict-err"
		case errq != nil:
			return fmt.Sprintf("DISAGREE %d err", p)
		case p != q:
			return fmt.Sprintf("DISAGREE %d %d", p, q)
		}
		return "ok " + strconv.Itoa(p)
	case "valid":
		data := unhexWin(f[1])
		st := parseStack(f[2])
		var buf *rjson.Buffer
		if st != nil {
			buf = &rjson.Buffer{}
			rjson.VerifSetBufferStack(buf, st)
		}
		return b2s(rjson.Valid(data, buf))
	case "harr", "hobj":
		data := unhexWin(f[1])
		s := newScript(f[2], data)
		var buf *rjson.Buffer
		if f[3] != "nobuf" {
			buf = &rjson.Buffer{}
			rjson.VerifSetBufferStack(buf, parseStack(f[3]))
		}
		s.buf = buf
		var p int
		var err error
		if op == "harr" {
			p, err = rjson.HandleArrayValues(data, s, buf)
		} else {
			p, err = rjson.HandleObjectValues(data, s, buf)
		}
		return handlerObs(p, err, s, op == "hobj", len(data))
	case "rnull":
		data := unhexWin(f[1])
		p, err := rjson.ReadNull(data)
		return okp(p, err)
	case "rbool":
		data := unhexWin(f[1])
		v, p, err := rjson.ReadBool(data)
		if err != nil {
			return "err"
		}
		return fmt.Sprintf("ok %s %d", b2s(v), p)
	case "ntok":
		data := unhexWin(f[1])
		t, p, err := rjson.NextToken(data)
		switch {
		case err == io.EOF:
			return "eof"
		case err != nil:
			return "err"
		}
		return fmt.Sprintf("ok %d %d", t, p)
	case "ntt":
		data := unhexWin(f[1])
		t, p, err := rjson.NextTokenType(data)
		switch {
		case err == io.EOF:
			return "eof"
		case err != nil:
			return "err"
		}
		return fmt.Sprintf("ok %d %d", t, p)
	case "u64":
		v, p, err := rjson.ReadUint64(unhexWin(f[1]))
		if err != nil {
			return "err"
		}
		return fmt.Sprintf("ok %d %d", v, p)
	case "u32":
		v, p, err := rjson.ReadUint32(unhexWin(f[1]))
		if err != nil {
			return "err"
		}
		return fmt.Sprintf("ok %d %d", v, p)
	case "uint":
		v, p, err := rjson.ReadUint(unhexWin(f[1]))
		if err != nil {
			return "err"
		}
		return fmt.Sprintf("ok %d %d", v, p)
	case "i64":
		v, p, err := rjson.ReadInt64(unhexWin(f[1]))
		if err != nil {
			return "err"
		}
		return fmt.Sprintf("ok %d %d", v, p)
	case "i32":
		v, p, err := rjson.ReadInt32(unhexWin(f[1]))
		if err != nil {
			return "err"
		}
		return fmt.Sprintf("ok %d %d", v, p)
	case "int":
		v, p, err := rjson.ReadInt(unhexWin(f[1]))
		if err != nil {
			return "err"
		}
		return fmt.Sprintf("ok %d %d", v, p)
	case "rsb":
		data, dst := unhexWin(f[1]), unhex(f[2])
		// give the destination some spare capacity variation: cap = len + f[3]
		extra := 0
		if len(f) > 3 {
			extra, _ = strconv.Atoi(f[3])
		}
		d2 := make([]byte, len(dst), len(dst)+extra)
		copy(d2, dst)
		v, p, err := rjson.ReadStringBytes(data, d2)
		if err != nil {
			return "err"
		}
		return fmt.Sprintf("ok %d %s", p, hx(v))
	case "rs":
		data := unhexWin(f[1])
		var bufp *[]byte
		if f[2] != "nil" {
			b := unhex(f[2])
			bufp = &b
		}
		v, p, err := rjson.ReadString(data, bufp)
		if err != nil {
			return "err"
		}
		return fmt.Sprintf("ok %d %s", p, hx([]byte(v)))
	case "usc":
		data, dst := unhexWin(f[1]), unhex(f[2])
		v, p, err := rjson.UnescapeStringContent(data, dst)
		if err != nil {
			return "err"
		}
		return fmt.Sprintf("ok %d %s", p, hx(v))
	case "aros":
		data, dst := unhexWin(f[1]), unhex(f[2])
		v, p, err := rjson.VerifAppendRemainderOfString(data, dst)
		if err != nil {
			return "err"
		}
		return fmt.Sprintf("ok %d %s", p, hx(v))
	case "sfd", "sfe":
		data := unhexWin(f[1])
		p0, _ := strconv.Atoi(f[2])
		var p int
		var err error
		if op == "sfd" {
			p, err = rjson.VerifSkipFloatDec(data, p0, len(data))
		} else {
			p, err = rjson.VerifSkipFloatExp(data, p0, len(data))
		}
		return fmt.Sprintf("%d %s", p, b2s(err == nil))
	case "getu4":
		return strconv.Itoa(int(rjson.VerifGetu4(unhexWin(f[1]))))
	case "uuc":
		s, dst := unhexWin(f[1]), unhex(f[2])
		r, n, ok := rjson.VerifUnescapeUnicodeChar(s, dst)
		return fmt.Sprintf("%s %d %s", hx(r), n, b2s(ok))
	case "dec":
		return runDecode(f)
	case "f64":
		v, p, err := rjson.ReadFloat64(unhexWin(f[1]))
		if err != nil {
			return "err"
		}
		return fmt.Sprintf("ok %d %d", math.Float64bits(v), p)
	}
	if r, ok := runCaseFp(f); ok {
		return r
	}
	if r, ok := runCase2(f); ok {
		return r
	}
	panic("unknown op " + op)
}

func runDecode(f []string) string {
	// dec <type> <hexdata> <init>
	ty, data, init := f[1], unhex(f[2]), f[3]
	res := func(p int, err error, tgt string) string {
		if err != nil {
			return "err " + tgt
		}
		return fmt.Sprintf("ok %d %s", p, tgt)
	}
	switch ty {
	case "i64":
		v, _ := strconv.ParseInt(init, 10, 64)
		p, err := rjson.DecodeInt64(data, &v)
		return res(p, err, strconv.FormatInt(v, 10))
	case "i32":
		v0, _ := strconv.ParseInt(init, 10, 32)
		v := int32(v0)
		p, err := rjson.DecodeInt32(data, &v)
		return res(p, err, strconv.FormatInt(int64(v), 10))
	case "int":
		v0, _ := strconv.ParseInt(init, 10, 64)
		v := int(v0)
		p, err := rjson.DecodeInt(data, &v)
		return res(p, err, strconv.Itoa(v))
	case "u64":
		v, _ := strconv.ParseUint(init, 10, 64)
		p, err := rjson.DecodeUint64(data, &v)
		return res(p, err, strconv.FormatUint(v, 10))
	case "u32":
		v0, _ := strconv.ParseUint(init, 10, 32)
		v := uint32(v0)
		p, err := rjson.DecodeUint32(data, &v)
		return res(p, err, strconv.FormatUint(uint64(v), 10))
	case "uint":
		v0, _ := strconv.ParseUint(init, 10, 64)
		v := uint(v0)
		p, err := rjson.DecodeUint(data, &v)
		return res(p, err, strconv.FormatUint(uint64(v), 10))
	case "bool":
		v := init == "true"
		p, err := rjson.DecodeBool(data, &v)
		return res(p, err, b2s(v))
	case "f64":
		b, _ := strconv.ParseUint(init, 10, 64)
		v := math.Float64frombits(b)
		p, err := rjson.DecodeFloat64(data, &v)
		return res(p, err, strconv.FormatUint(math.Float64bits(v), 10))
	case "str":
		v := string(unhex(init))
		var bufp *[]byte
		if len(f) > 4 && f[4] != "nil" {
			b := unhex(f[4])
			bufp = &b
		}
		p, err := rjson.DecodeString(data, &v, bufp)
		return res(p, err, hx([]byte(v)))
	}
	panic("unknown decode type " + ty)
}

func runOne(line string) (obs string) {
	f := strings.Fields(line)
	if len(f) == 0 {
		return ""
	}
	done := make(chan string, 1)
	go func() {
		defer func() {
			if r := recover(); r != nil {
				msg := fmt.Sprint(r)
				if strings.HasPrefix(msg, "unknown op") || strings.HasPrefix(msg, "bad ") {
					done <- "HARNESS-ERROR " + msg
					return
				}
				done <- "abn # panic: " + strings.ReplaceAll(msg, "\n", " ")
			}
		}()
		inputWindows = inputWindows[:0]
		res := runCase(f)
		if !windowsIntact() {
			res = "abn # bytes outside the input slice (inside its capacity, or in front of it) were modified; result was: " + res
		}
		done <- res
	}()
	// watchdog: 20 s for the first case that does not return, 2 s for later ones, and after 25 such
	// cases the rest of the file is not run (a code change that deadlocks or loops would otherwise
	// keep the check busy for hours; the first such case is what gets reported)
	if nTimeouts >= 25 {
		return "abn # timeout (not run after 25 cases that did not return)"
	}
	limit := 20 * time.Second
	if nTimeouts > 0 {
		limit = 2 * time.Second
	}
	select {
	case r := <-done:
		return r
	case <-time.After(limit):
		nTimeouts++
		return "abn # timeout"
	}
}

var nTimeouts int

func cmdRun() {
	sc := bufio.NewScanner(os.Stdin)
	sc.Buffer(make([]byte, 1<<20), 1<<28)
	w := bufio.NewWriterSize(os.Stdout, 1<<20)
	defer w.Flush()
	for sc.Scan() {
		line := sc.Text()
		if strings.TrimSpace(line) == "" || strings.HasPrefix(line, "#") {
			fmt.Fprintln(w, "")
			continue
		}
		fmt.Fprintln(w, runOne(line))
	}
}
