package main

// State × byte sweep (the sweep the repository's suite lacks): from the translator's
// gen.json (path in $VERIF_GEN_JSON) compute, for every machine state, a shortest access
// string by BFS over (state, call stack) configurations, then emit
//   access(q) ++ [b] ++ completion      for all 256 bytes b and a few completions.
// The implementation is compared with the library oracle on every such input, so a single
// changed transition in a rarely visited state is hit directly.

import (
	"encoding/json"
	"fmt"
	"os"
	"sort"
	"strings"

	"github.com/willabides/rjson"
)

type gUnit struct {
	Kind string `json:"kind"`
	A    []int  `json:"a"`
}
type gMachine struct {
	Name   string              `json:"name"`
	Start  int                 `json:"start"`
	States []int               `json:"states"`
	Rows   map[string][][4]int `json:"rows"`
	Blocks [][]gUnit           `json:"blocks"`
}
type gFile struct {
	Machines []gMachine `json:"machines"`
	Tables   struct {
		Powtab     []int `json:"powtab"`
		Leftcheats []struct {
			D int
			C string
		} `json:"leftcheats"`
	} `json:"tables"`
}

type cfg struct {
	cs    int
	stack string // comma-joined return states (bounded depth)
}

func (m *gMachine) step(c cfg, b int) (cfg, string, bool) {
	rows := m.Rows[fmt.Sprint(c.cs)]
	for _, r := range rows {
		if r[0] <= b && b <= r[1] {
			dest := r[3]
			extra := ""
			var units []gUnit
			if r[2] > 0 && r[2] < len(m.Blocks) {
				units = m.Blocks[r[2]]
			}
			st := c.stack
			for _, u := range units {
				switch u.Kind {
				case "UReturnErr", "UBreak", "UUnknown":
					return cfg{}, "", false
				case "UScanDec":
					extra = "5"
				case "UScanExp":
					extra = "5"
				case "UCall":
					if strings.Count(st, ",") >= 3 {
						return cfg{}, "", false
					}
					st = st + "," + fmt.Sprint(u.A[2])
					return cfg{u.A[3], st}, extra, true
				case "URet":
					i := strings.LastIndex(st, ",")
					if i < 0 {
						return cfg{}, "", false
					}
					var ret int
					fmt.Sscan(st[i+1:], &ret)
					return cfg{ret, st[:i]}, extra, true
				}
			}
			if dest == 0 {
				return cfg{}, "", false
			}
			return cfg{dest, st}, extra, true
		}
	}
	return cfg{}, "", false
}

// access strings: first-found (shortest) per control state
func (m *gMachine) access() map[int][]byte {
	acc := map[int][]byte{m.Start: {}}
	seen := map[cfg]bool{{m.Start, ""}: true}
	type item struct {
		c cfg
		s []byte
	}
	queue := []item{{cfg{m.Start, ""}, nil}}
	// try "interesting" bytes first so that access strings look like JSON
	order := []int{}
	for _, c := range []byte(" \"[{]},:-0123456789.eE+truefalsn\\/bu") {
		order = append(order, int(c))
	}
	inOrder := map[int]bool{}
	for _, c := range order {
		inOrder[c] = true
	}
	for b := 0; b < 256; b++ {
		if !inOrder[b] {
			order = append(order, b)
		}
	}
	for len(queue) > 0 {
		it := queue[0]
		queue = queue[1:]
		for _, b := range order {
			n, extra, ok := m.step(it.c, b)
			if !ok || seen[n] {
				continue
			}
			seen[n] = true
			s := append(append([]byte{}, it.s...), byte(b))
			s = append(s, extra...)
			if _, have := acc[n.cs]; !have {
				acc[n.cs] = s
			}
			queue = append(queue, item{n, s})
		}
	}
	return acc
}

// completions: for every control state, the shortest remaining suffix observed when a valid
// document's run (handlers declining every member) visits that state.  Inserting or
// substituting a byte at that point of an otherwise valid document makes a transition that
// wrongly accepts it visible to the validity / offset oracles.
func (m *gMachine) completions(docs [][]byte) map[int][]byte {
	comp := map[int][]byte{}
	for _, d := range docs {
		c := cfg{m.Start, ""}
		p := 0
		ok := true
		for p < len(d) && ok {
			if old, have := comp[c.cs]; !have || len(d)-p < len(old) {
				comp[c.cs] = d[p:]
			}
			rows := m.Rows[fmt.Sprint(c.cs)]
			moved := false
			for _, r := range rows {
				if r[0] <= int(d[p]) && int(d[p]) <= r[1] {
					moved = true
					dest := r[3]
					var units []gUnit
					if r[2] > 0 && r[2] < len(m.Blocks) {
						units = m.Blocks[r[2]]
					}
					st := c.stack
					next := cfg{dest, st}
					for _, u := range units {
						switch u.Kind {
						case "UReturnErr", "UBreak", "UUnknown":
							ok = false
						case "UScanDec":
							np, err := rjson.VerifSkipFloatDec(d, p+1, len(d))
							if err != nil {
								ok = false
							}
							p = np
						case "UScanExp":
							np, err := rjson.VerifSkipFloatExp(d, p+1, len(d))
							if err != nil {
								ok = false
							}
							p = np
						case "UCall":
							next = cfg{u.A[3], st + "," + fmt.Sprint(u.A[2])}
						case "URet":
							i := strings.LastIndex(st, ",")
							if i < 0 {
								ok = false
							} else {
								var ret int
								fmt.Sscan(st[i+1:], &ret)
								next = cfg{ret, st[:i]}
							}
						}
					}
					if next.cs == 0 {
						ok = false
					}
					c = next
					p++
					break
				}
			}
			if !moved {
				ok = false
			}
		}
	}
	return comp
}

func loadGen() *gFile {
	path := os.Getenv("VERIF_GEN_JSON")
	if path == "" {
		return nil
	}
	raw, err := os.ReadFile(path)
	if err != nil {
		return nil
	}
	var g gFile
	if json.Unmarshal(raw, &g) != nil {
		return nil
	}
	return &g
}

var sweepOps = map[string][]string{
	"skipValue":               {"skip %s nil", "valid %s nil"},
	"skipValueFast":           {"skipfast %s nil"},
	"handleArrayValues":       {"harr %s - nil", "harr %s x,x,x,x nil"},
	"handleObjectValues":      {"hobj %s - nil", "hobj %s x,x,x,x nil"},
	"readNull":                {"rnull %s"},
	"readBool":                {"rbool %s"},
	"appendRemainderOfString": {"aros %s -", "rsb 22%s - 0"},
	"unescapeStringContent":   {"usc %s -"},
}

func sweep(e *emitter, machine string, thorough bool) {
	g := loadGen()
	if g == nil {
		e.emit("# sweep: no gen.json (VERIF_GEN_JSON unset)")
		return
	}
	for i := range g.Machines {
		m := &g.Machines[i]
		if m.Name != machine {
			continue
		}
		acc := m.access()
		var states []int
		for q := range acc {
			states = append(states, q)
		}
		sort.Ints(states)
		comps := []string{"", "]"}
		if thorough {
			comps = []string{"", "]", "}", "\"", " 1", "5]", "\"}", "x"}
		}
		// valid documents whose runs provide per-state completions
		rr := &rng{s: 12345}
		var docs [][]byte
		for i := 0; i < 3000; i++ {
			docs = append(docs, genDoc(rr))
		}
		for _, v := range valuePool {
			docs = append(docs, []byte(v), []byte(" "+v+" "))
		}
		for _, sp := range stringPool {
			docs = append(docs, []byte(sp), []byte(sp[1:]), []byte(strings.Trim(sp, `"`)))
		}
		docs = append(docs, []byte(`{"a" : 1 , "b" : [ 1 , 2 ] , "c" : { "d" : "x\n\u00e9\ud83d\ude00" } }`), []byte("[ 1.5e+3 , -0.25E-2 , true , false , null , \"s\" ]"), []byte(" null"), []byte("\ttrue"), []byte("false"))
		comp := m.completions(docs)
		for _, q := range states {
			// end of input in this state
			for _, op := range sweepOps[machine] {
				if strings.HasPrefix(op, "rsb 22") {
					e.emit("rsb 22%s - 0", strings.TrimPrefix(hs(acc[q]), "-"))
				} else {
					e.emit(op, hs(acc[q]))
				}
			}
			for b := 0; b < 256; b++ {
				if cq, have := comp[q]; have && len(cq) < 200 {
					// insert b before, and substitute b for, the next byte of a valid continuation
					ins := append(append(append([]byte{}, acc[q]...), byte(b)), cq...)
					for _, op := range sweepOps[machine] {
						if strings.HasPrefix(op, "rsb 22") {
							e.emit("rsb 22%s - 0", strings.TrimPrefix(hs(ins), "-"))
						} else {
							e.emit(op, hs(ins))
						}
					}
					if len(cq) > 0 {
						sub := append(append(append([]byte{}, acc[q]...), byte(b)), cq[1:]...)
						for _, op := range sweepOps[machine] {
							if strings.HasPrefix(op, "rsb 22") {
								e.emit("rsb 22%s - 0", strings.TrimPrefix(hs(sub), "-"))
							} else {
								e.emit(op, hs(sub))
							}
						}
					}
				}
				for _, c := range comps {
					in := append(append(append([]byte{}, acc[q]...), byte(b)), c...)
					h := hs(in)
					for _, op := range sweepOps[machine] {
						if strings.HasPrefix(op, "rsb 22") {
							e.emit("rsb 22%s - 0", strings.TrimPrefix(h, "-"))
						} else {
							e.emit(op, h)
						}
					}
				}
			}
		}
		// return paths: for every transition that calls a sub-machine (pushing a return state), the
		// shortest body that returns at once, followed by every byte - a wrong pushed return state is
		// otherwise visible only through whatever the right state would have rejected
		for _, q := range states {
			for b := 0; b < 256; b++ {
				isCall := false
				for _, r := range m.Rows[fmt.Sprint(q)] {
					if r[0] <= b && b <= r[1] && r[2] > 0 && r[2] < len(m.Blocks) {
						for _, u := range m.Blocks[r[2]] {
							if u.Kind == "UCall" {
								isCall = true
							}
						}
					}
				}
				if !isCall {
					continue
				}
				closer := byte(']')
				if b == '{' {
					closer = '}'
				}
				for c := 0; c < 256; c++ {
					for _, tail := range []string{"", "5]", "]", "}", "5}"} {
						in := append(append(append([]byte{}, acc[q]...), byte(b), closer, byte(c)), tail...)
						h := hs(in)
						for _, op := range sweepOps[machine] {
							if strings.HasPrefix(op, "rsb 22") {
								e.emit("rsb 22%s - 0", strings.TrimPrefix(h, "-"))
							} else {
								e.emit(op, h)
							}
						}
					}
				}
			}
		}
		e.emit("# sweep %s: %d of %d states reached, %d with a completion", machine, len(acc), len(m.States)-1, len(comp))
	}
}

func init() {
	for name := range sweepOps {
		name := name
		suites["sweep-"+name] = func(e *emitter, r *rng, thorough bool) { sweep(e, name, thorough) }
	}
}
