package main

// stage-wise ops for the float parser (internal/fp through the verif hooks)

import (
	"fmt"
	"math"
	"strconv"

	"github.com/willabides/rjson"
)

func runCaseFp(f []string) (string, bool) {
	switch f[0] {
	case "fp_parse": // ParseJSONFloatPrefix on the raw bytes: ok bits n | err n
		v, n, err := rjson.VerifFpParse(unhexWin(f[1]))
		if err != nil {
			return "err", true
		}
		return fmt.Sprintf("ok %d %d", math.Float64bits(v), n), true
	case "fp_rf": // readFloat: mantissa exp neg trunc p ok
		m, e, neg, trunc, p, ok := rjson.VerifFpReadFloat(unhexWin(f[1]))
		if !ok {
			return "notok", true
		}
		return fmt.Sprintf("ok %d %d %s %s %d", m, e, b2s(neg), b2s(trunc), p), true
	case "fp_exact": // atof64exact m e neg
		m, _ := strconv.ParseUint(f[1], 10, 64)
		e, _ := strconv.Atoi(f[2])
		v, ok := rjson.VerifFpAtof64exact(m, e, f[3] == "true")
		if !ok {
			return "notok", true
		}
		return fmt.Sprintf("ok %d", math.Float64bits(v)), true
	case "fp_el": // eiselLemire64 m e neg
		m, _ := strconv.ParseUint(f[1], 10, 64)
		e, _ := strconv.Atoi(f[2])
		v, ok := rjson.VerifFpEiselLemire64(m, e, f[3] == "true")
		if !ok {
			return "notok", true
		}
		return fmt.Sprintf("ok %d", math.Float64bits(v)), true
	case "fp_dec": // decimal.set + floatBits on a complete literal
		b, ovf, ok := rjson.VerifFpDecimal(unhexWin(f[1]))
		if !ok {
			return "notok", true
		}
		return fmt.Sprintf("ok %d %s", b, b2s(ovf)), true
	case "fp_strconv": // oracle: strconv.ParseFloat on the literal (must be a complete JSON number)
		v, err := strconv.ParseFloat(string(unhexWin(f[1])), 64)
		if err != nil {
			if ne, ok := err.(*strconv.NumError); ok && ne.Err == strconv.ErrRange {
				return "range", true
			}
			return "syntax", true
		}
		return fmt.Sprintf("ok %d", math.Float64bits(v)), true
	}
	return "", false
}
