package main

// further ops (value trees, compat, histories) and library oracles

func runCase2(f []string) (string, bool) {
	return "", false
}

func cmdOracle() {}
