package main

// further ops (compat, append semantics, histories, value trees) and their oracles

import (
	"bytes"
	"encoding/json"
	"fmt"
	"strconv"
	"strings"
	"unicode/utf16"

	"github.com/willabides/rjson"
)

func withCap(b []byte, extra int) []byte {
	d := make([]byte, len(b), len(b)+extra)
	copy(d, b)
	return d
}

func runCase2(f []string) (string, bool) {
	switch f[0] {
	case "compat":
		in := unhexWin(f[1])
		keep := append([]byte{}, in...)
		out := rjson.StdLibCompatibleString(string(in))
		if !bytes.Equal(in, keep) {
			return "INPUT-MODIFIED", true
		}
		return hx([]byte(out)), true
	case "compatb":
		in, buf := unhexWin(f[1]), unhex(f[2])
		extra, _ := strconv.Atoi(f[3])
		keep := append([]byte{}, in...)
		b := withCap(buf, extra)
		out := rjson.StdLibCompatibleStringBytes(in, b)
		if !bytes.Equal(in, keep) {
			return "INPUT-MODIFIED", true
		}
		return hx(out), true
	case "frame":
		// C16: run op f[1] on data f[2] with destination f[3] (spare capacity f[4], spare bytes
		// pre-filled with 0xAA); report result, whether the input was modified, whether the
		// prefix of the destination was preserved, and whether a later overwrite of input and
		// destination changes an already returned string.
		return runFrame(f), true
	case "hist":
		return runHist(f), true
	case "hrec":
		return runHrec(f), true
	case "strhist":
		return runStrHist(f), true
	}
	return runCase3(f)
}

func runFrame(f []string) string {
	dsth := f[3]
	if dsth == "nil" {
		dsth = "-"
	}
	op, data, dst := f[1], unhex(f[2]), unhex(dsth)
	extra, _ := strconv.Atoi(f[4])
	keep := append([]byte{}, data...)
	full := make([]byte, len(dst)+extra)
	copy(full, dst)
	for i := len(dst); i < len(full); i++ {
		full[i] = 0xAA
	}
	d := full[:len(dst)]
	var out []byte
	var p int
	var err error
	var str string
	isStr := false
	switch op {
	case "rsb":
		out, p, err = rjson.ReadStringBytes(data, d)
	case "usc":
		out, p, err = rjson.UnescapeStringContent(data, d)
	case "compatb":
		out = rjson.StdLibCompatibleStringBytes(data, d)
	case "rs":
		bp := &d
		if f[3] == "nil" {
			bp = nil
		}
		str, p, err = rjson.ReadString(data, bp)
		isStr = true
	default:
		panic("bad frame op " + op)
	}
	if !bytes.Equal(data, keep) {
		return "INPUT-MODIFIED"
	}
	if err != nil {
		return "err"
	}
	if isStr {
		snap := strings.Clone(str)
		// overwrite input and scratch; the returned string must not change
		for i := range data {
			data[i] = 'Z'
		}
		for i := range full {
			full[i] = 'Z'
		}
		// also the buffer as handed back through the pointer (it may have been re-allocated)
		if f[3] != "nil" {
			bb := d[:cap(d)]
			for i := range bb {
				bb[i] = 'Z'
			}
		}
		if str != snap {
			return "RESULT-ALIASED"
		}
		return fmt.Sprintf("ok %d %s", p, hx([]byte(snap)))
	}
	if len(out) < len(dst) || !bytes.Equal(out[:len(dst)], dst) {
		return "PREFIX-CLOBBERED " + hx(out)
	}
	return fmt.Sprintf("ok %d %s", p, hx(out))
}

// hist <stackspec|nobuf> <op:hex[:script]> ... : a call history on ONE Buffer.
// Each outcome is printed; C14 says each equals the no-buffer outcome.
func runHist(f []string) string {
	var buf *rjson.Buffer
	if f[1] != "nobuf" {
		buf = &rjson.Buffer{}
		rjson.VerifSetBufferStack(buf, parseStack(f[1]))
	}
	var outs []string
	for _, c := range f[2:] {
		parts := strings.Split(c, ":")
		op, data := parts[0], unhexWin(parts[1])
		switch op {
		case "skip":
			p, err := rjson.SkipValue(data, buf)
			outs = append(outs, okp(p, err))
		case "skipfast":
			p, err := rjson.SkipValueFast(data, buf)
			outs = append(outs, okp(p, err))
		case "valid":
			outs = append(outs, b2s(rjson.Valid(data, buf)))
		case "harr", "hobj":
			s := newScript(strings.ReplaceAll(parts[2], ";", ","), data)
			s.buf = buf
			var p int
			var err error
			if op == "harr" {
				p, err = rjson.HandleArrayValues(data, s, buf)
			} else {
				p, err = rjson.HandleObjectValues(data, s, buf)
			}
			outs = append(outs, strings.ReplaceAll(strings.SplitN(handlerObs(p, err, s, op == "hobj", len(data)), " #", 2)[0], " ", "_"))
		default:
			panic("bad hist op " + op)
		}
	}
	return strings.ReplaceAll(strings.Join(outs, " ; "), "ok ", "ok_")
}

// refString: reference string reader written from the text of C06.
func refString(d []byte) (val []byte, p int, ok bool) {
	p = skipWS(d, 0)
	if p >= len(d) || d[p] != '"' {
		return nil, 0, false
	}
	p++
	content, n, ok := refContent(d[p:], true)
	if !ok {
		return nil, 0, false
	}
	return content, p + n, true
}

func hex4(d []byte) (int, bool) {
	if len(d) < 4 {
		return 0, false
	}
	v := 0
	for _, c := range d[:4] {
		switch {
		case c >= '0' && c <= '9':
			v = v*16 + int(c-'0')
		case c >= 'a' && c <= 'f':
			v = v*16 + int(c-'a'+10)
		case c >= 'A' && c <= 'F':
			v = v*16 + int(c-'A'+10)
		default:
			return 0, false
		}
	}
	return v, true
}

// refContent decodes string content; if quoted, stops after the closing quote (which must exist),
// otherwise consumes all of d (a raw quote is then an error).
func refContent(d []byte, quoted bool) ([]byte, int, bool) {
	var out []byte
	i := 0
	for i < len(d) {
		c := d[i]
		switch {
		case c == '"':
			if quoted {
				return out, i + 1, true
			}
			return nil, 0, false
		case c < 0x20:
			return nil, 0, false
		case c == '\\':
			if i+1 >= len(d) {
				return nil, 0, false
			}
			e := d[i+1]
			switch e {
			case '"', '\\', '/':
				out = append(out, e)
				i += 2
			case 'b':
				out = append(out, '\b')
				i += 2
			case 'f':
				out = append(out, '\f')
				i += 2
			case 'n':
				out = append(out, '\n')
				i += 2
			case 'r':
				out = append(out, '\r')
				i += 2
			case 't':
				out = append(out, '\t')
				i += 2
			case 'u':
				u, ok := hex4(d[i+2:])
				if !ok {
					return nil, 0, false
				}
				i += 6
				r := rune(u)
				if utf16.IsSurrogate(r) {
					r2 := rune(-1)
					if i+6 <= len(d) && d[i] == '\\' && d[i+1] == 'u' {
						if u2, ok := hex4(d[i+2:]); ok {
							r2 = rune(u2)
						}
					}
					if dec := utf16.DecodeRune(r, r2); dec != 0xFFFD {
						r = dec
						i += 6
					} else {
						r = 0xFFFD
					}
				}
				out = append(out, []byte(string(r))...)
			default:
				return nil, 0, false
			}
		default:
			out = append(out, c)
			i++
		}
	}
	if quoted {
		return nil, 0, false
	}
	return out, i, true
}

func oracleCase2(f []string) (string, bool) {
	switch f[0] {
	case "compat":
		return hx(sanitize(unhexWin(f[1]))), true
	case "compatb":
		return hx(append(unhex(f[2]), sanitize(unhexWin(f[1]))...)), true
	case "rsb":
		v, p, ok := refString(unhexWin(f[1]))
		if !ok {
			return "err", true
		}
		return fmt.Sprintf("ok %d %s", p, hx(append(unhex(f[2]), v...))), true
	case "rs":
		v, p, ok := refString(unhexWin(f[1]))
		if !ok {
			return "err", true
		}
		return fmt.Sprintf("ok %d %s", p, hx(v)), true
	case "usc":
		// C06 states the standalone unescaper only for the content of a well-formed token
		d := unhexWin(f[1])
		v, n, ok := refContent(d, false)
		if !ok {
			return "-", true
		}
		return fmt.Sprintf("ok %d %s", n, hx(append(unhex(f[2]), v...))), true
	case "frame":
		d := unhex(f[2])
		dsth := f[3]
		if dsth == "nil" {
			dsth = "-"
		}
		dst := unhex(dsth)
		switch f[1] {
		case "rsb":
			v, p, ok := refString(d)
			if !ok {
				return "err", true
			}
			return fmt.Sprintf("ok %d %s", p, hx(append(dst, v...))), true
		case "rs":
			v, p, ok := refString(d)
			if !ok {
				return "err", true
			}
			return fmt.Sprintf("ok %d %s", p, hx(v)), true
		case "compatb":
			return fmt.Sprintf("ok 0 %s", hx(append(dst, sanitize(d)...))), true
		case "usc":
			v, n, ok := refContent(d, false)
			if !ok {
				return "-", true
			}
			return fmt.Sprintf("ok %d %s", n, hx(append(dst, v...))), true
		}
	case "jsonstr":
		// library oracle for C06/C17: encoding/json on the same token, after sanitising ours
		return "-", true
	case "hrec":
		g := append([]string{}, f...)
		g[2] = "nobuf"
		return runHrec(g), true
	case "hist":
		// C14: every call on the shared buffer behaves as with no buffer at all
		g := append([]string{}, f...)
		g[1] = "nobuf"
		for i := 2; i < len(g); i++ {
			g[i] = strings.ReplaceAll(g[i], ";r", ";x")
			g[i] = strings.ReplaceAll(g[i], ":r", ":x")
		}
		return runHist(g), true
	}
	return oracleCase3(f)
}

// jsonStringOracle: what encoding/json decodes for the string token at the start of data
func jsonStringOracle(data []byte) ([]byte, int, bool) {
	dec := json.NewDecoder(bytes.NewReader(data))
	tk, err := dec.Token()
	if err != nil {
		return nil, 0, false
	}
	s, ok := tk.(string)
	if !ok {
		return nil, 0, false
	}
	return []byte(s), int(dec.InputOffset()), true
}

// strhist <cap|-1> <rs|dec:hex> ... : ReadString / DecodeString calls sharing ONE scratch buffer
// (cap -1: nil pointer).  Every returned string and every stored target is snapshotted; after
// each later call, and after the buffer and the inputs have been overwritten, earlier results
// must be unchanged (C16), and a failing DecodeString must leave its target alone (C12).
func runStrHist(f []string) string {
	capn, _ := strconv.Atoi(f[1])
	var bufp *[]byte
	if capn >= 0 {
		b := make([]byte, 0, capn)
		bufp = &b
	}
	var outs []string
	var got []*string
	var snaps []string
	var inputs [][]byte
	bad := ""
	target := "initial-target"
	for _, c := range f[2:] {
		parts := strings.Split(c, ":")
		data := unhexWin(parts[1])
		switch parts[0] {
		case "rs":
			v, p, err := rjson.ReadString(data, bufp)
			if err != nil {
				outs = append(outs, "err")
			} else {
				outs = append(outs, fmt.Sprintf("ok_%d_%s", p, hx([]byte(v))))
				vv := v
				got = append(got, &vv)
				snaps = append(snaps, strings.Clone(v))
			}
		case "dec":
			before := strings.Clone(target)
			p, err := rjson.DecodeString(data, &target, bufp)
			if err != nil {
				outs = append(outs, "err")
				if target != before {
					bad = "TARGET-CHANGED-ON-ERROR"
				}
			} else {
				outs = append(outs, fmt.Sprintf("ok_%d_%s", p, hx([]byte(target))))
				tv := target
				got = append(got, &tv)
				snaps = append(snaps, strings.Clone(target))
			}
		}
		// no call may write into the input of an earlier call (each input is '#'-filled after its call)
		for k, in := range inputs {
			for _, c := range in {
				if c != '#' {
					bad = fmt.Sprintf("EARLIER-INPUT-WRITTEN %d", k)
					break
				}
			}
		}
		for i := range data {
			data[i] = '#'
		}
		inputs = append(inputs, data)
		for i := range got {
			if *got[i] != snaps[i] {
				bad = fmt.Sprintf("EARLIER-STRING-CHANGED %d", i)
			}
		}
	}
	if bufp != nil {
		bb := (*bufp)[:cap(*bufp)]
		for i := range bb {
			bb[i] = '#'
		}
		for i := range got {
			if *got[i] != snaps[i] {
				bad = fmt.Sprintf("STRING-ALIASES-BUFFER %d", i)
			}
		}
	}
	if bad == "" {
		bad = "STABLE"
	}
	return strings.Join(outs, " ; ") + " ; " + bad
}

// hrec <hex> <nobuf|nil|-|stack>: a recursive decoder in which EVERY level of the traversal (the
// handler re-enters HandleArrayValues / HandleObjectValues for each nested container) shares one
// Buffer - the heaviest form of "shared with the handler" in C14.  Scalars are declined (0).
type recH struct {
	buf *rjson.Buffer
	n   int
}

func (h *recH) value(d []byte) (int, error) {
	h.n++
	tt, _, err := rjson.NextTokenType(d)
	if err != nil {
		return 0, err
	}
	switch tt {
	case rjson.ArrayStartType:
		return rjson.HandleArrayValues(d, h, h.buf)
	case rjson.ObjectStartType:
		return rjson.HandleObjectValues(d, h, h.buf)
	}
	return 0, nil
}
func (h *recH) HandleArrayValue(d []byte) (int, error)     { return h.value(d) }
func (h *recH) HandleObjectValue(k, d []byte) (int, error) { return h.value(d) }

func runHrec(f []string) string {
	d := unhexWin(f[1])
	h := &recH{}
	if f[2] != "nobuf" {
		h.buf = &rjson.Buffer{}
		rjson.VerifSetBufferStack(h.buf, parseStack(f[2]))
	}
	h.n = -1
	p, err := h.value(d)
	if err != nil {
		return "err"
	}
	return fmt.Sprintf("ok %d %d", p, h.n)
}
