package main

// further ops (value trees, compat, histories) and their oracles

func runCase2(f []string) (string, bool) {
	return "", false
}

func oracleCase2(f []string) (string, bool) {
	return "", false
}
