package main

import (
	"fmt"
	"os"
)

func main() {
	if len(os.Args) < 2 {
		fmt.Fprintln(os.Stderr, "usage: harness gen <suite> <tier> <seed> | run | oracle")
		os.Exit(2)
	}
	switch os.Args[1] {
	case "gen":
		cmdGen(os.Args[2:])
	case "run":
		cmdRun()
	case "oracle":
		cmdOracle()
	case "allocs":
		cmdAllocs(os.Args[2:])
	case "cost":
		cmdCost(os.Args[2:])
	case "race":
		cmdRace(os.Args[2:])
	default:
		fmt.Fprintln(os.Stderr, "unknown command")
		os.Exit(2)
	}
}
